/* harness/c03.c -- C03: runs the REAL entropy coders of the working tree.
 *
 * stdin, one case per line:
 *   img P NC W H | h0 v0 h1 v1 .. | coef entries | cfg ; cfg ; ...
 *      coef entries:  c:b:k:v   (component, block index row*wb+col, natural index, value)
 *                     D:c:v     (DC of every block of component c)
 *                     A:c:k:v   (coefficient k of every block of component c)
 *      cfg tokens:    src=a|p   write from the arrays / transcode the previous JPEG
 *                               (jpeg_read_coefficients + jpeg_copy_critical_parameters)
 *                     opt=0|1  arith=0|1  ri=N  rows=N  prog=1
 *                     scans=c,c:Ss:Se:Ah:Al/...
 *   script NC P c,c:Ss:Se:Ah:Al/...      (validate_script only)
 * stdout, one line per case:
 *   img:    per cfg  "ok <jpeg hex> rb=1 w=<warnings> px=<hash>"  |  "err <CODE> <parm>"  joined by " | "
 *           rb=0@c,b,k:got/exp when jpeg_read_coefficients differs from the input
 *   script: "ok <progressive_mode>" | "err <CODE> <parm>"
 */
#include <stdio.h>
#include <stdlib.h>
#include <string.h>
#include <setjmp.h>
#include <stdint.h>
#define JPEG_INTERNALS
#include "jinclude.h"
#include "jpeglib.h"
#include "jerror.h"

#define MAXC 10
#define MAXSCANS 4096

struct my_err { struct jpeg_error_mgr pub; jmp_buf jb; int code; int parm; };

static void my_exit(j_common_ptr c) {
  struct my_err *e = (struct my_err *)c->err;
  e->code = c->err->msg_code; e->parm = c->err->msg_parm.i[0];
  longjmp(e->jb, 1);
}
static void my_emit(j_common_ptr c, int lvl) { if (lvl < 0) c->err->num_warnings++; }

static const char *code_name(int code) {
  switch (code) {
  case JERR_BAD_SCAN_SCRIPT: return "BAD_SCAN_SCRIPT";
  case JERR_BAD_PROG_SCRIPT: return "BAD_PROG_SCRIPT";
  case JERR_COMPONENT_COUNT: return "COMPONENT_COUNT";
  case JERR_MISSING_DATA: return "MISSING_DATA";
  case JERR_BAD_DCT_COEF: return "BAD_DCT_COEF";
  case JERR_HUFF_MISSING_CODE: return "HUFF_MISSING_CODE";
  case JERR_NOT_COMPILED: return "NOT_COMPILED";
  case JERR_CANT_SUSPEND: return "CANT_SUSPEND";
  case JERR_BAD_HUFF_TABLE: return "BAD_HUFF_TABLE";
  case JERR_HUFF_CLEN_OVERFLOW: return "HUFF_CLEN_OVERFLOW";
  case JERR_FRACT_SAMPLE_NOTIMPL: return "FRACT_SAMPLE_NOTIMPL";
  case JERR_CCIR601_NOTIMPL: return "CCIR601_NOTIMPL";
  default: { static char b[32]; snprintf(b, sizeof b, "E%d", code); return b; }
  }
}

struct image {
  int P, NC, W, H, h[MAXC], v[MAXC], wb[MAXC], hb[MAXC];
  JCOEF *coef[MAXC];
};

struct cfg { int src_prev, opt, arith, ri, rows, prog, nosu, nobi, dcl, dcu, ack, nscans; jpeg_scan_info scans[MAXSCANS]; };

static unsigned char initbuf[1 << 16];   /* caller-owned first output buffer */

static long cdiv(long a, long b) { return (a + b - 1) / b; }

static int parse_scans(const char *s, jpeg_scan_info *out, int max) {
  int n = 0;
  while (*s && n < max) {
    jpeg_scan_info *si = &out[n];
    int nc = 0; memset(si, 0, sizeof *si);
    /* comps */
    while (*s && *s != ':') {
      int val = (int)strtol(s, (char **)&s, 10);
      if (nc < MAX_COMPS_IN_SCAN) si->component_index[nc] = val;
      nc++;
      if (*s == ',') s++;
    }
    si->comps_in_scan = nc;
    if (*s == ':') s++;
    si->Ss = (int)strtol(s, (char **)&s, 10); if (*s == ':') s++;
    si->Se = (int)strtol(s, (char **)&s, 10); if (*s == ':') s++;
    si->Ah = (int)strtol(s, (char **)&s, 10); if (*s == ':') s++;
    si->Al = (int)strtol(s, (char **)&s, 10);
    n++;
    if (*s == '/') s++; else break;
  }
  return n;
}

static void parse_cfg(char *txt, struct cfg *c) {
  char *save, *t;
  memset(c, 0, sizeof *c);
  for (t = strtok_r(txt, " \t\n", &save); t; t = strtok_r(NULL, " \t\n", &save)) {
    if (!strncmp(t, "src=", 4)) c->src_prev = t[4] == 'p';
    else if (!strncmp(t, "opt=", 4)) c->opt = atoi(t + 4);
    else if (!strncmp(t, "arith=", 6)) c->arith = atoi(t + 6);
    else if (!strncmp(t, "ri=", 3)) c->ri = atoi(t + 3);
    else if (!strncmp(t, "rows=", 5)) c->rows = atoi(t + 5);
    else if (!strncmp(t, "prog=", 5)) c->prog = atoi(t + 5);
    else if (!strcmp(t, "nosu")) c->nosu = 1;
    else if (!strncmp(t, "dcl=", 4)) c->dcl = atoi(t + 4) + 1;
    else if (!strncmp(t, "dcu=", 4)) c->dcu = atoi(t + 4) + 1;
    else if (!strncmp(t, "ack=", 4)) c->ack = atoi(t + 4) + 1;
    else if (!strcmp(t, "nobi")) c->nobi = 1;
    else if (!strncmp(t, "scans=", 6)) c->nscans = parse_scans(t + 6, c->scans, MAXSCANS);
  }
}

static void apply_cfg(j_compress_ptr ci, struct cfg *c) {
  ci->optimize_coding = c->opt ? TRUE : FALSE;
  ci->arith_code = c->arith ? TRUE : FALSE;
  ci->restart_interval = (unsigned)c->ri;
  ci->restart_in_rows = c->rows;
  { int i;   /* arithmetic conditioning (emitted as a DAC marker when not the default 0/1/5) */
    for (i = 0; i < NUM_ARITH_TBLS; i++) {
      if (c->dcl) ci->arith_dc_L[i] = (UINT8)(c->dcl - 1);
      if (c->dcu) ci->arith_dc_U[i] = (UINT8)(c->dcu - 1);
      if (c->ack) ci->arith_ac_K[i] = (UINT8)(c->ack - 1);
    } }
  if (c->prog) jpeg_simple_progression(ci);
  if (c->nscans) { ci->scan_info = c->scans; ci->num_scans = c->nscans; }
}

static void fill_arrays(j_compress_ptr ci, jvirt_barray_ptr *arr, struct image *im) {
  int c; JDIMENSION r;
  for (c = 0; c < im->NC; c++)
    for (r = 0; r < (JDIMENSION)im->hb[c]; r++) {
      JBLOCKARRAY ba = (*ci->mem->access_virt_barray)((j_common_ptr)ci, arr[c], r, 1, TRUE);
      memcpy(ba[0], im->coef[c] + (size_t)r * im->wb[c] * 64, (size_t)im->wb[c] * 64 * sizeof(JCOEF));
    }
}

/* returns 0 ok; fills *out,*outsize (malloc'd by libjpeg) */
static int write_from_arrays(struct image *im, struct cfg *cf, unsigned char **out, unsigned long *outsize,
                             struct my_err *err) {
  struct jpeg_compress_struct ci;
  jvirt_barray_ptr arr[MAXC];
  int c, hmax = 1, vmax = 1;
  *out = initbuf; *outsize = sizeof initbuf; memset(&ci, 0, sizeof ci);
  ci.err = jpeg_std_error(&err->pub); err->pub.error_exit = my_exit; err->pub.emit_message = my_emit;
  /* on error the destination manager's current buffer is unknown to us: leak it (error path only) */
  if (setjmp(err->jb)) { jpeg_destroy_compress(&ci); *out = NULL; return 1; }
  jpeg_create_compress(&ci);
  jpeg_mem_dest(&ci, out, outsize);
  ci.image_width = im->W; ci.image_height = im->H; ci.input_components = im->NC;
  ci.in_color_space = im->NC == 1 ? JCS_GRAYSCALE : im->NC == 3 ? JCS_YCbCr : im->NC == 4 ? JCS_CMYK : JCS_UNKNOWN;
  jpeg_set_defaults(&ci);
  ci.data_precision = im->P;
  for (c = 0; c < im->NC; c++) {
    ci.comp_info[c].h_samp_factor = im->h[c]; ci.comp_info[c].v_samp_factor = im->v[c];
    if (im->h[c] > hmax) hmax = im->h[c];
    if (im->v[c] > vmax) vmax = im->v[c];
  }
  apply_cfg(&ci, cf);
  for (c = 0; c < im->NC; c++) {
    long wpad = cdiv(im->wb[c], im->h[c]) * im->h[c], hpad = cdiv(im->hb[c], im->v[c]) * im->v[c];
    arr[c] = (*ci.mem->request_virt_barray)((j_common_ptr)&ci, JPOOL_IMAGE, TRUE, (JDIMENSION)wpad,
                                            (JDIMENSION)hpad, (JDIMENSION)im->v[c]);
  }
  jpeg_write_coefficients(&ci, arr);
  fill_arrays(&ci, arr, im);
  jpeg_finish_compress(&ci);
  jpeg_destroy_compress(&ci);
  return 0;
}

static int transcode(unsigned char *src, unsigned long srcsize, struct cfg *cf, unsigned char **out,
                     unsigned long *outsize, struct my_err *err) {
  struct jpeg_decompress_struct di;
  struct jpeg_compress_struct ci;
  struct my_err derr;
  jvirt_barray_ptr *arr;
  volatile int created_c = 0;
  *out = initbuf; *outsize = sizeof initbuf; memset(&ci, 0, sizeof ci); memset(&di, 0, sizeof di);
  di.err = jpeg_std_error(&derr.pub); derr.pub.error_exit = my_exit; derr.pub.emit_message = my_emit;
  ci.err = jpeg_std_error(&err->pub); err->pub.error_exit = my_exit; err->pub.emit_message = my_emit;
  if (setjmp(derr.jb)) {
    err->code = derr.code; err->parm = derr.parm;
    if (created_c) jpeg_destroy_compress(&ci);
    jpeg_destroy_decompress(&di); *out = NULL; return 1;
  }
  if (setjmp(err->jb)) {
    if (created_c) jpeg_destroy_compress(&ci);
    jpeg_destroy_decompress(&di); *out = NULL; return 1;
  }
  jpeg_create_decompress(&di);
  jpeg_create_compress(&ci); created_c = 1;
  jpeg_mem_src(&di, src, srcsize);
  jpeg_read_header(&di, TRUE);
  arr = jpeg_read_coefficients(&di);
  jpeg_copy_critical_parameters(&di, &ci);
  apply_cfg(&ci, cf);
  jpeg_mem_dest(&ci, out, outsize);
  jpeg_write_coefficients(&ci, arr);
  jpeg_finish_compress(&ci);
  jpeg_destroy_compress(&ci);
  jpeg_finish_decompress(&di);
  jpeg_destroy_decompress(&di);
  return 0;
}

/* read back coefficients, compare with the image; returns 1 equal, 0 different (msg filled), -1 error */
/* a suspending data source over a memory buffer: fill_input_buffer() always returns FALSE; the
 * application then makes `chunk` more bytes visible (the library backtracks to the start of the
 * current MCU / marker, the window only ever grows at its end) */
struct susp_src { struct jpeg_source_mgr pub; const unsigned char *data; size_t size, chunk; long skip; long nsusp; };
static void s_init(j_decompress_ptr c) { (void)c; }
static boolean s_fill(j_decompress_ptr c) { ((struct susp_src *)c->src)->nsusp++; return FALSE; }
static void s_term(j_decompress_ptr c) { (void)c; }
static void s_skip(j_decompress_ptr c, long n) {
  struct susp_src *s = (struct susp_src *)c->src;
  if (n <= 0) return;
  if ((size_t)n <= s->pub.bytes_in_buffer) { s->pub.next_input_byte += n; s->pub.bytes_in_buffer -= n; }
  else { s->skip += n - (long)s->pub.bytes_in_buffer; s->pub.next_input_byte += s->pub.bytes_in_buffer; s->pub.bytes_in_buffer = 0; }
}
static int s_feed(struct susp_src *s) {
  size_t pos = (size_t)(s->pub.next_input_byte - s->data) + s->pub.bytes_in_buffer, add;
  if (pos >= s->size) return 0;
  add = s->size - pos < s->chunk ? s->size - pos : s->chunk;
  s->pub.bytes_in_buffer += add;
  while (s->skip > 0 && s->pub.bytes_in_buffer > 0) { s->pub.next_input_byte++; s->pub.bytes_in_buffer--; s->skip--; }
  return 1;
}

/* a stdio-like source: every refill copies the next `chunk` bytes into a private buffer that is followed
 * by poison bytes, so that a decoder reading past bytes_in_buffer does not see the true continuation */
struct copy_src { struct jpeg_source_mgr pub; const unsigned char *data; size_t size, pos, chunk; unsigned char *buf; };
#define COPY_PAD 8192
static boolean c_fill(j_decompress_ptr c) {
  struct copy_src *s = (struct copy_src *)c->src;
  size_t n = s->size - s->pos < s->chunk ? s->size - s->pos : s->chunk;
  if (n == 0) { s->buf[0] = 0xFF; s->buf[1] = JPEG_EOI; n = 2; }
  else { memcpy(s->buf, s->data + s->pos, n); s->pos += n; }
  memset(s->buf + n, 0xA5, COPY_PAD);
  s->pub.next_input_byte = s->buf; s->pub.bytes_in_buffer = n;
  return TRUE;
}
static void c_skip(j_decompress_ptr c, long n) {
  struct copy_src *s = (struct copy_src *)c->src;
  if (n <= 0) return;
  while (n > (long)s->pub.bytes_in_buffer) { n -= (long)s->pub.bytes_in_buffer; c_fill(c); }
  s->pub.next_input_byte += n; s->pub.bytes_in_buffer -= n;
}
static int g_copy_mode = 0;     /* readback(): chunk > 0 means copy_src refills instead of a suspending source */

/* chunk == 0: one memory buffer; chunk > 0: suspending source refilled `chunk` bytes at a time */
static int readback(unsigned char *jpg, unsigned long size, struct image *im, char *msg, size_t msgsz, long *warn, size_t chunk) {
  struct jpeg_decompress_struct di; struct my_err err; jvirt_barray_ptr *arr; int c, res = 1;
  struct susp_src ss; struct copy_src cs; unsigned char *volatile cbuf = NULL;
  memset(&di, 0, sizeof di);
  di.err = jpeg_std_error(&err.pub); err.pub.error_exit = my_exit; err.pub.emit_message = my_emit;
  if (setjmp(err.jb)) { snprintf(msg, msgsz, "decode-error:%s", code_name(err.code)); jpeg_destroy_decompress(&di); free(cbuf); return -1; }
  jpeg_create_decompress(&di);
  if (chunk > 0 && g_copy_mode) {
    memset(&cs, 0, sizeof cs); cbuf = malloc(chunk + COPY_PAD + 16);
    cs.pub.init_source = s_init; cs.pub.fill_input_buffer = c_fill; cs.pub.skip_input_data = c_skip;
    cs.pub.resync_to_restart = jpeg_resync_to_restart; cs.pub.term_source = s_term;
    cs.data = jpg; cs.size = size; cs.chunk = chunk; cs.buf = cbuf; cs.pub.next_input_byte = cbuf; cs.pub.bytes_in_buffer = 0;
    di.src = &cs.pub;
    jpeg_read_header(&di, TRUE);
    arr = jpeg_read_coefficients(&di);
  } else if (chunk == 0) {
    jpeg_mem_src(&di, jpg, size);
    jpeg_read_header(&di, TRUE);
    arr = jpeg_read_coefficients(&di);
  } else {
    memset(&ss, 0, sizeof ss);
    ss.pub.init_source = s_init; ss.pub.fill_input_buffer = s_fill; ss.pub.skip_input_data = s_skip;
    ss.pub.resync_to_restart = jpeg_resync_to_restart; ss.pub.term_source = s_term;
    ss.data = jpg; ss.size = size; ss.chunk = chunk; ss.pub.next_input_byte = jpg; ss.pub.bytes_in_buffer = 0;
    di.src = &ss.pub;
    while (jpeg_read_header(&di, TRUE) == JPEG_SUSPENDED)
      if (!s_feed(&ss)) { snprintf(msg, msgsz, "starved-in-header"); jpeg_destroy_decompress(&di); return 0; }
    if (di.arith_code) { jpeg_destroy_decompress(&di); return 2; }     /* jdarith.c cannot suspend */
    while ((arr = jpeg_read_coefficients(&di)) == NULL)
      if (!s_feed(&ss)) { snprintf(msg, msgsz, "starved-in-data"); jpeg_destroy_decompress(&di); return 0; }
  }
  if (di.num_components != im->NC || di.data_precision != im->P) { snprintf(msg, msgsz, "header-mismatch"); res = 0; }
  for (c = 0; res == 1 && c < im->NC; c++) {
    JDIMENSION r;
    if ((int)di.comp_info[c].width_in_blocks != im->wb[c] || (int)di.comp_info[c].height_in_blocks != im->hb[c]) {
      snprintf(msg, msgsz, "dims-mismatch:%d", c); res = 0; break;
    }
    for (r = 0; res == 1 && r < (JDIMENSION)im->hb[c]; r++) {
      JBLOCKARRAY ba = (*di.mem->access_virt_barray)((j_common_ptr)&di, arr[c], r, 1, FALSE);
      JCOEF *exp = im->coef[c] + (size_t)r * im->wb[c] * 64, *got = (JCOEF *)ba[0];
      if (memcmp(exp, got, (size_t)im->wb[c] * 64 * sizeof(JCOEF))) {
        long i; for (i = 0; i < (long)im->wb[c] * 64; i++) if (exp[i] != got[i]) break;
        snprintf(msg, msgsz, "%d,%ld,%ld:%d/%d", c, (long)r * im->wb[c] + i / 64, i % 64, got[i], exp[i]);
        res = 0;
      }
    }
  }
  *warn = di.err->num_warnings;
  if (chunk == 0 || g_copy_mode) jpeg_finish_decompress(&di);
  else while (!jpeg_finish_decompress(&di)) if (!s_feed(&ss)) break;
  *warn = di.err->num_warnings;
  jpeg_destroy_decompress(&di);
  free(cbuf);
  return res;
}

/* buffered-image mode: one output pass per scan as the scans arrive, then the final pass; returns the
 * hash of the FINAL pass (must equal the plain decode) */
static int pixels_buffered(unsigned char *jpg, unsigned long size, int P, uint64_t *hash, int *code, int *passes) {
  struct jpeg_decompress_struct di; struct my_err err; uint64_t h = 0;
  void *volatile row = NULL;
  memset(&di, 0, sizeof di);
  di.err = jpeg_std_error(&err.pub); err.pub.error_exit = my_exit; err.pub.emit_message = my_emit;
  if (setjmp(err.jb)) { *code = err.code; jpeg_destroy_decompress(&di); free(row); return 1; }
  jpeg_create_decompress(&di);
  jpeg_mem_src(&di, jpg, size);
  jpeg_read_header(&di, TRUE);
  di.buffered_image = TRUE;
  jpeg_start_decompress(&di);
  row = malloc((size_t)di.output_width * di.output_components * 2 + 16);
  *passes = 0;
  for (;;) {
    int final = jpeg_input_complete(&di);
    size_t n = (size_t)di.output_width * di.output_components, i;
    jpeg_start_output(&di, di.input_scan_number);
    h = 1469598103934665603ULL;
    while (di.output_scanline < di.output_height) {
      if (P == 12) {
        J12SAMPROW r12 = (J12SAMPROW)row;
        jpeg12_read_scanlines(&di, &r12, 1);
        for (i = 0; i < n; i++) { h ^= (uint64_t)(uint16_t)r12[i]; h *= 1099511628211ULL; }
      } else {
        JSAMPROW r8 = (JSAMPROW)row;
        jpeg_read_scanlines(&di, &r8, 1);
        for (i = 0; i < n; i++) { h ^= r8[i]; h *= 1099511628211ULL; }
      }
    }
    jpeg_finish_output(&di);
    (*passes)++;
    if (final) break;
  }
  jpeg_finish_decompress(&di);
  jpeg_destroy_decompress(&di);
  free(row);
  *hash = h;
  return 0;
}

static int pixels(unsigned char *jpg, unsigned long size, int P, uint64_t *hash, int *code) {
  struct jpeg_decompress_struct di; struct my_err err; uint64_t h = 1469598103934665603ULL;
  void *volatile row = NULL;
  memset(&di, 0, sizeof di);
  di.err = jpeg_std_error(&err.pub); err.pub.error_exit = my_exit; err.pub.emit_message = my_emit;
  if (setjmp(err.jb)) { *code = err.code; jpeg_destroy_decompress(&di); free(row); return 1; }
  jpeg_create_decompress(&di);
  jpeg_mem_src(&di, jpg, size);
  jpeg_read_header(&di, TRUE);
  jpeg_start_decompress(&di);
  {
    size_t n = (size_t)di.output_width * di.output_components, i;
    row = malloc(n * 2 + 16);
    while (di.output_scanline < di.output_height) {
      if (P == 12) {
        J12SAMPROW r12 = (J12SAMPROW)row;
        jpeg12_read_scanlines(&di, &r12, 1);
        for (i = 0; i < n; i++) { h ^= (uint64_t)(uint16_t)r12[i]; h *= 1099511628211ULL; }
      } else {
        JSAMPROW r8 = (JSAMPROW)row;
        jpeg_read_scanlines(&di, &r8, 1);
        for (i = 0; i < n; i++) { h ^= r8[i]; h *= 1099511628211ULL; }
      }
    }
  }
  jpeg_finish_decompress(&di);
  jpeg_destroy_decompress(&di);
  free(row);
  *hash = h;
  return 0;
}

static void do_script(char *line) {
  struct jpeg_compress_struct ci; struct my_err err; static jpeg_scan_info scans[MAXSCANS];
  jvirt_barray_ptr arr[MAXC]; unsigned char *out = initbuf; unsigned long outsize = sizeof initbuf;
  int NC, P, c, n; static char spec[1 << 18];
  spec[0] = 0; memset(&ci, 0, sizeof ci);
  if (sscanf(line, "script %d %d %262143s", &NC, &P, spec) < 2) { puts("?"); return; }
  n = strcmp(spec, "-") ? parse_scans(spec, scans, MAXSCANS) : 0;
  ci.err = jpeg_std_error(&err.pub); err.pub.error_exit = my_exit; err.pub.emit_message = my_emit;
  if (setjmp(err.jb)) {
    printf("err %s %d\n", code_name(err.code), err.code == JERR_MISSING_DATA ? 0 : err.parm);
    jpeg_destroy_compress(&ci); return;
  }
  jpeg_create_compress(&ci);
  jpeg_mem_dest(&ci, &out, &outsize);
  ci.image_width = 8; ci.image_height = 8; ci.input_components = NC; ci.in_color_space = JCS_UNKNOWN;
  jpeg_set_defaults(&ci);
  ci.data_precision = P;
  ci.scan_info = scans; ci.num_scans = n;
  for (c = 0; c < NC; c++)
    arr[c] = (*ci.mem->request_virt_barray)((j_common_ptr)&ci, JPOOL_IMAGE, TRUE, 1, 1, 1);
  jpeg_write_coefficients(&ci, arr);
  printf("ok %s\n", ci.master->lossless ? "lossless" : ci.progressive_mode ? "progressive" : "sequential");
  jpeg_destroy_compress(&ci);
}

static void do_img(char *line) {
  struct image im; char *sec[4], *p = line + 4, *save, *t; int i, c, ncfg = 0, hmax = 1, vmax = 1;
  unsigned char *prev = NULL; unsigned long prevsize = 0;
  memset(&im, 0, sizeof im);
  for (i = 0; i < 4; i++) { sec[i] = p; p = strchr(p, '|'); if (!p) { if (i < 3) { puts("?"); return; } break; } *p++ = 0; }
  if (sscanf(sec[0], "%d %d %d %d", &im.P, &im.NC, &im.W, &im.H) != 4 || im.NC < 1 || im.NC > MAXC) { puts("?"); return; }
  t = strtok_r(sec[1], " \t", &save);
  for (c = 0; c < im.NC; c++) {
    im.h[c] = t ? atoi(t) : 1; t = strtok_r(NULL, " \t", &save);
    im.v[c] = t ? atoi(t) : 1; t = strtok_r(NULL, " \t", &save);
    if (im.h[c] > hmax) hmax = im.h[c];
    if (im.v[c] > vmax) vmax = im.v[c];
  }
  for (c = 0; c < im.NC; c++) {
    im.wb[c] = (int)cdiv((long)im.W * im.h[c], (long)hmax * 8);
    im.hb[c] = (int)cdiv((long)im.H * im.v[c], (long)vmax * 8);
    im.coef[c] = calloc((size_t)im.wb[c] * im.hb[c] * 64, sizeof(JCOEF));
  }
  for (t = strtok_r(sec[2], " \t", &save); t; t = strtok_r(NULL, " \t", &save)) {
    long a, b, k, v;
    if (t[0] == 'D' && sscanf(t, "D:%ld:%ld", &a, &v) == 2 && a >= 0 && a < im.NC) {
      long n = (long)im.wb[a] * im.hb[a]; for (b = 0; b < n; b++) im.coef[a][b * 64] = (JCOEF)v;
    } else if (t[0] == 'A' && sscanf(t, "A:%ld:%ld:%ld", &a, &k, &v) == 3 && a >= 0 && a < im.NC && k >= 0 && k < 64) {
      long n = (long)im.wb[a] * im.hb[a]; for (b = 0; b < n; b++) im.coef[a][b * 64 + k] = (JCOEF)v;
    } else if (sscanf(t, "%ld:%ld:%ld:%ld", &a, &b, &k, &v) == 4 && a >= 0 && a < im.NC && k >= 0 && k < 64 &&
               b >= 0 && b < (long)im.wb[a] * im.hb[a]) {
      im.coef[a][b * 64 + k] = (JCOEF)v;
    }
  }
  /* configurations */
  for (p = sec[3]; p; ) {
    char *q = strchr(p, ';'); struct cfg *cf = malloc(sizeof *cf); struct my_err err; unsigned char *out; unsigned long outsize;
    int rc;
    if (q) *q++ = 0;
    parse_cfg(p, cf);
    if (ncfg++) fputs(" | ", stdout);
    err.code = 0; err.parm = 0;
    if (cf->src_prev) {
      if (!prev) { fputs("err NO_PREVIOUS 0", stdout); free(cf); p = q; continue; }
      rc = transcode(prev, prevsize, cf, &out, &outsize, &err);
    } else rc = write_from_arrays(&im, cf, &out, &outsize, &err);
    if (rc) printf("err %s %d", code_name(err.code), err.parm);
    else {
      char msg[128]; long warn = 0; uint64_t h = 0; unsigned long j; int rb;
      fputs("ok ", stdout);
      for (j = 0; j < outsize; j++) printf("%02x", out[j]);
      rb = readback(out, outsize, &im, msg, sizeof msg, &warn, 0);
      if (rb == 1) printf(" rb=1"); else printf(" rb=0@%s", msg);
      printf(" w=%ld", warn);
      { int pc = 0; if (pixels(out, outsize, im.P, &h, &pc)) printf(" px=error:%s", code_name(pc)); else printf(" px=%016llx", (unsigned long long)h); }
      if (cf->nosu) printf(" su=skip");
      else {
        /* the same file through a suspending source, 1..9 bytes per refill (every split point for chunk 1) */
        static const size_t chunks_small[] = { 1, 2, 3, 4, 5, 6, 7, 8, 9 }, chunks_big[] = { 3, 7 };
        const size_t *ch = outsize <= 6000 ? chunks_small : chunks_big; int nch = outsize <= 6000 ? 9 : 2, q, bad = 0, na = 0;
        for (q = 0; q < nch && !bad && !na; q++) {
          char m2[128]; long w2 = 0; int r2 = readback(out, outsize, &im, m2, sizeof m2, &w2, ch[q]);
          if (r2 == 2) na = 1;
          else if (r2 != 1 || w2 != 0) { printf(" su=0@chunk%d:%s:w%ld", (int)ch[q], r2 == 1 ? "warn" : m2, w2); bad = 1; }
        }
        if (na) printf(" su=na"); else if (!bad) printf(" su=1");
      }
      { /* the same file through a refilling (stdio-like) source: 4096-byte and odd-sized chunks */
        static const size_t cks[] = { 4096, 513, 600, 777, 1031, 2048 }; int q, bad = 0;
        g_copy_mode = 1;
        for (q = 0; q < (cf->nosu ? 1 : 6) && !bad; q++) {
          char m2[128]; long w2 = 0; int r2 = readback(out, outsize, &im, m2, sizeof m2, &w2, cks[q]);
          if (r2 != 1 || w2 != 0) { printf(" ck=0@chunk%d:%s:w%ld", (int)cks[q], r2 == 1 ? "warn" : m2, w2); bad = 1; }
        }
        g_copy_mode = 0;
        if (!bad) printf(" ck=1");
      }
      if (cf->nobi) printf(" bi=skip");
      else { int pc = 0, np = 0; uint64_t hb = 0;
        if (pixels_buffered(out, outsize, im.P, &hb, &pc, &np)) printf(" bi=error:%s", code_name(pc));
        else printf(" bi=%016llx/%d", (unsigned long long)hb, np); }
      free(prev); prev = malloc(outsize ? outsize : 1); memcpy(prev, out, outsize); prevsize = outsize;
      if (out != initbuf) free(out);
    }
    free(cf);
    p = q;
  }
  putchar('\n');
  free(prev);
  for (c = 0; c < im.NC; c++) free(im.coef[c]);
}

/* pix NC W H Q seed | h0 v0 h1 v1 .. | cfg | size size ...   (8-bit samples from an LCG: smooth ramp + noise)
 * compresses once into one big buffer and once per listed size through a SUSPENDING destination of that size
 * (empty_output_buffer returns FALSE; the application drains the buffer and calls jpeg_write_scanlines again);
 * -> "ok <bytes> <hash> | <size>=eq | <size>=ne@<offset> | <size>=stuck | <size>=err:<CODE>" */
struct sdest { struct jpeg_destination_mgr pub; unsigned char *buf; size_t size; unsigned char *out; size_t outlen, outcap; long nsusp; };
static void sd_init(j_compress_ptr c) { struct sdest *d = (struct sdest *)c->dest; d->pub.next_output_byte = d->buf; d->pub.free_in_buffer = d->size; }
static boolean sd_empty(j_compress_ptr c) { ((struct sdest *)c->dest)->nsusp++; return FALSE; }
static void sd_drain(struct sdest *d) {
  size_t n = d->size - d->pub.free_in_buffer;
  if (d->outlen + n > d->outcap) { d->outcap = (d->outlen + n) * 2 + 1024; d->out = realloc(d->out, d->outcap); }
  memcpy(d->out + d->outlen, d->buf, n); d->outlen += n;
  d->pub.next_output_byte = d->buf; d->pub.free_in_buffer = d->size;
}
static void sd_term(j_compress_ptr c) { sd_drain((struct sdest *)c->dest); }

static int pix_compress(int NC, int W, int H, int Q, unsigned seed, int *hs, int *vs, struct cfg *cf, size_t bufsize,
                        unsigned char **out, size_t *outlen, int *code) {
  struct jpeg_compress_struct ci; struct my_err err; struct sdest sd; unsigned char *volatile row = NULL; unsigned char *volatile bigbuf = NULL;
  unsigned long mlen = 0; unsigned char *mout = NULL; int c; unsigned st = seed * 2654435761u + 12345u; int stuck = 0;
  memset(&ci, 0, sizeof ci); memset(&sd, 0, sizeof sd);
  ci.err = jpeg_std_error(&err.pub); err.pub.error_exit = my_exit; err.pub.emit_message = my_emit;
  if (setjmp(err.jb)) { *code = err.code; jpeg_destroy_compress(&ci); free(row); free(sd.buf); free(sd.out); return 1; }
  jpeg_create_compress(&ci);
  if (bufsize == 0) { mout = initbuf; mlen = sizeof initbuf; jpeg_mem_dest(&ci, &mout, &mlen); }
  else {
    sd.buf = malloc(bufsize + (1 << 16)); sd.size = bufsize + (1 << 16);   /* headers cannot suspend: roomy buffer for jpeg_start_compress */
    sd.pub.init_destination = sd_init; sd.pub.empty_output_buffer = sd_empty; sd.pub.term_destination = sd_term;
    ci.dest = &sd.pub;
  }
  ci.image_width = W; ci.image_height = H; ci.input_components = NC;
  ci.in_color_space = NC == 1 ? JCS_GRAYSCALE : NC == 3 ? JCS_YCbCr : JCS_UNKNOWN;
  jpeg_set_defaults(&ci);
  jpeg_set_quality(&ci, Q, TRUE);
  for (c = 0; c < NC; c++) { ci.comp_info[c].h_samp_factor = hs[c]; ci.comp_info[c].v_samp_factor = vs[c]; }
  apply_cfg(&ci, cf);
  jpeg_start_compress(&ci, TRUE);
  /* frame/scan headers are written inside the first jpeg_write_scanlines call (pass_startup): keep the roomy buffer for it */
  row = malloc((size_t)W * NC + 16);
  while (ci.next_scanline < ci.image_height) {
    JSAMPROW rp = (JSAMPROW)row; int x, tries = 0; unsigned y = ci.next_scanline; unsigned st2 = st + y * 7919u;
    for (x = 0; x < W * NC; x++) { st2 = st2 * 1664525u + 1013904223u; row[x] = (unsigned char)(((x / NC) * 3 + y * 2 + ((st2 >> 24) & 31)) & 255); }
    while (jpeg_write_scanlines(&ci, &rp, 1) == 0) {
      if (!bufsize || ++tries > 4) { stuck = 1; break; }
      if (sd.pub.free_in_buffer == sd.size && tries > 1) { stuck = 1; break; }   /* an MCU does not fit: no progress */
      sd_drain(&sd);
    }
    if (stuck) break;
    if (bufsize && sd.size != bufsize) {   /* from here on: the small buffer */
      sd_drain(&sd); sd.size = bufsize; sd.pub.next_output_byte = sd.buf; sd.pub.free_in_buffer = sd.size;
    }
  }
  if (stuck) { jpeg_abort_compress(&ci); jpeg_destroy_compress(&ci); free(row); free(sd.buf); free(sd.out); return 2; }
  if (bufsize) {
    /* jpeg_finish_compress cannot suspend: give it room (drain first, then a large final buffer) */
    sd_drain(&sd);
    bigbuf = malloc(1 << 22); free(sd.buf); sd.buf = bigbuf; sd.size = 1 << 22; sd.pub.next_output_byte = sd.buf; sd.pub.free_in_buffer = sd.size;
  }
  jpeg_finish_compress(&ci);
  jpeg_destroy_compress(&ci);
  free(row);
  if (bufsize) { *out = sd.out; *outlen = sd.outlen; free(sd.buf); }
  else { *out = malloc(mlen ? mlen : 1); memcpy(*out, mout, mlen); *outlen = mlen; if (mout != initbuf) free(mout); }
  return 0;
}

static void do_pix(char *line) {
  char *sec[4], *p = line + 4, *save, *t; int i, NC, W, H, Q, hs[MAXC], vs[MAXC], code = 0; unsigned seed;
  struct cfg *cf = malloc(sizeof *cf); unsigned char *ref = NULL; size_t reflen = 0;
  for (i = 0; i < 4; i++) { sec[i] = p; p = strchr(p, '|'); if (!p) { if (i < 3) { puts("?"); free(cf); return; } break; } *p++ = 0; }
  if (sscanf(sec[0], "%d %d %d %d %u", &NC, &W, &H, &Q, &seed) != 5 || NC < 1 || NC > 4) { puts("?"); free(cf); return; }
  t = strtok_r(sec[1], " \t", &save);
  for (i = 0; i < NC; i++) { hs[i] = t ? atoi(t) : 1; t = strtok_r(NULL, " \t", &save); vs[i] = t ? atoi(t) : 1; t = strtok_r(NULL, " \t", &save); }
  parse_cfg(sec[2], cf);
  if (pix_compress(NC, W, H, Q, seed, hs, vs, cf, 0, &ref, &reflen, &code)) { printf("err %s\n", code_name(code)); free(cf); return; }
  { uint64_t h = 1469598103934665603ULL; size_t j; for (j = 0; j < reflen; j++) { h ^= ref[j]; h *= 1099511628211ULL; }
    printf("ok %lu %016llx", (unsigned long)reflen, (unsigned long long)h); }
  for (t = strtok_r(sec[3], " \t", &save); t; t = strtok_r(NULL, " \t", &save)) {
    size_t bs = (size_t)atol(t), olen = 0, j; unsigned char *o = NULL; int rc;
    if (!bs) continue;
    rc = pix_compress(NC, W, H, Q, seed, hs, vs, cf, bs, &o, &olen, &code);
    if (rc == 1) printf(" | %lu=err:%s", (unsigned long)bs, code_name(code));
    else if (rc == 2) printf(" | %lu=stuck", (unsigned long)bs);
    else {
      for (j = 0; j < olen && j < reflen && o[j] == ref[j]; j++) ;
      if (olen == reflen && j == olen) printf(" | %lu=eq", (unsigned long)bs);
      else printf(" | %lu=ne@%lu(len %lu vs %lu)", (unsigned long)bs, (unsigned long)j, (unsigned long)olen, (unsigned long)reflen);
      free(o);
    }
  }
  putchar('\n');
  free(ref); free(cf);
}

int main(void) {
  char *line = NULL; size_t cap = 0; ssize_t n;
  setvbuf(stdout, NULL, _IOLBF, 0);
  while ((n = getline(&line, &cap, stdin)) > 0) {
    if (line[n - 1] == '\n') line[n - 1] = 0;
    if (!strncmp(line, "img ", 4)) do_img(line);
    else if (!strncmp(line, "script ", 7)) do_script(line);
    else if (!strncmp(line, "pix ", 4)) do_pix(line);
    else puts("?");
  }
  free(line);
  return 0;
}
