/* C13 harness: traced heap shared by c13.c (TurboJPEG destination manager) and
 * c13_ijg.c (libjpeg jpeg_mem_dest).  The destination-manager sources of the
 * working tree are compiled inside the harness with malloc/free/memcpy routed to
 * these functions, so every heap event of the destination manager is observed. */
#ifndef C13_HEAP_H
#define C13_HEAP_H
#include <stddef.h>
void *dm_malloc_lib(size_t n);
void dm_free_lib(void *p);
void *dm_memcpy_lib(void *d, const void *s, size_t n);
#endif
