(* C09 -- property theorems only: statement + exact + Print Assumptions. *)
From Coq Require Import List ZArith.
From LJT Require Import model.Suspend model.SuspendMarker proofs.SuspendProofs proofs.SuspendWriteProofs
  proofs.SuspendMarkerProofs proofs.SuspendTheorems.
Import ListNotations.

(* (1) generic: for a resumable unit parser every partition of the byte string gives the
   outcome (state, unread bytes, pending skip, error) of the single-buffer run *)
Theorem C09_chunking_irrelevant :
  forall (st err : Type) (u : st -> list byte -> ures st err) (slack : st -> nat),
  resumable u slack ->
  forall cs s, run_chunked u slack cs s = run_chunked u slack [concat cs] s.
Proof. exact chunking_irrelevant_generic. Qed.
Print Assumptions C09_chunking_irrelevant.

Theorem C09_run_terminates :
  forall (st err : Type) (u : st -> list byte -> ures st err) (slack : st -> nat),
  resumable u slack -> forall cs s, run_chunked u slack cs s <> OutOfFuel.
Proof. exact run_never_out_of_fuel. Qed.
Print Assumptions C09_run_terminates.

(* the C discipline: replaying a prefix of the assignments made before a suspension is absorbed *)
Theorem C09_replay_absorbed :
  forall ws d s, apply_all (ws ++ d) (apply_all ws s) = apply_all (ws ++ d) s.
Proof. exact replay_absorbed. Qed.
Print Assumptions C09_replay_absorbed.

(* (2) every marker routine of the model (first_marker, next_marker, get_soi, get_sof, get_sos,
   get_dht, get_dqt, get_dri, skip_variable, get_interesting_appn, save_marker, dispatched as in
   read_markers) is a resumable unit *)
Theorem C09_units_prefix_stable : resumable marker_unit marker_slack.
Proof. exact marker_unit_resumable. Qed.
Print Assumptions C09_units_prefix_stable.

Theorem C09_markers_chunking_irrelevant : forall cs s, run_markers cs s = run_markers [concat cs] s.
Proof. exact markers_chunking_irrelevant. Qed.
Print Assumptions C09_markers_chunking_irrelevant.

(* (3) save_marker: the saved data is the first min(limit, length) bytes of the body, under every chunking *)
Theorem C09_save_marker_chunking :
  forall s (cs : list (list byte)) (b1 b2 : byte) (body : list byte),
  select s = BSave -> cur_marker s = None ->
  (b1 * 256 + b2 - 2 >= 0)%Z -> length body = Z.to_nat (b1 * 256 + b2 - 2) ->
  concat cs = b1 :: b2 :: body ->
  let len := Z.to_nat (b1 * 256 + b2 - 2) in
  let lim := Nat.min (nth (proc_index (unread_marker s)) (limit s) 0) len in
  exists s', run_markers cs s = Susp s' [] 0 /\ cur_marker s' = None /\
             marker_list s' = marker_list s ++ [saved_of s len lim body].
Proof. exact save_marker_chunking. Qed.
Print Assumptions C09_save_marker_chunking.

Example C09_ex_every_split :
  forallb (fun cs => match outcome_ri (run_markers cs ex_init) with Some (7, 2)%Z => true | _ => false end)
          (all_splits ex_stream ++ [singletons ex_stream; [ex_stream]; [[]; ex_stream; []]]) = true.
Proof. exact ex_every_split. Qed.

Example C09_ex_save_every_split :
  forallb (fun cs => match outcome_saved (run_markers cs ex_init_save) with
                     | [(254%Z, 5, [10; 20; 30]%Z)] => true | _ => false end)
          (all_splits ex_com ++ [singletons ex_com]) = true.
Proof. exact ex_save_every_split. Qed.

Example C09_ex_save_hyp : select (set_unread 254 (set_saw_SOI true ex_init_save)) = BSave.
Proof. exact ex_save_hyp. Qed.

Example C09_ex_dirty_state :
  match run_markers [[255; 216; 255; 192; 0; 11; 8]%Z] ex_init with
  | Susp s _ _ => cget G_SC S_PREC (cells s) | _ => 0%Z end = 8%Z.
Proof. exact ex_dirty_state. Qed.
