(* C09 -- property theorems only: statement + exact + Print Assumptions. *)
From Coq Require Import List ZArith Bool.
From LJT Require Import model.SuspendCore model.SuspendMarker model.SuspendHuff model.SuspendEnc
  proofs.SuspendProofs proofs.SuspendWriteProofs proofs.SuspendMarkerProofs proofs.SuspendTheorems
  proofs.SuspendHuffProofs proofs.SuspendScanTheorems proofs.SuspendEncProofs
  model.SuspendBuf proofs.SuspendBufProofs model.SuspendLatch proofs.SuspendLatchProofs
  model.SuspendRefine proofs.SuspendRefineProofs model.SuspendProg proofs.SuspendProgProofs
  model.SuspendLossless proofs.SuspendLosslessProofs model.CoefCtl proofs.SuspendCoefCtlProofs gen.GenSuspend.
From LJT Require proofs.SuspendBitRegProofs.
Import ListNotations.

(* (1) generic: for a resumable unit parser every partition of the byte string gives the
   outcome (state, unread bytes, pending skip, error) of the single-buffer run *)
Theorem C09_chunking_irrelevant :
  forall (st err : Type) (u : st -> list byte -> ures st err) (slack : st -> nat),
  resumable u slack ->
  forall cs s, run_chunked u slack cs s = run_chunked u slack [concat cs] s.
Proof. exact chunking_irrelevant_generic. Qed.
Print Assumptions C09_chunking_irrelevant.

Theorem C09_run_terminates :
  forall (st err : Type) (u : st -> list byte -> ures st err) (slack : st -> nat),
  resumable u slack -> forall cs s, run_chunked u slack cs s <> OutOfFuel.
Proof. exact run_never_out_of_fuel. Qed.
Print Assumptions C09_run_terminates.

(* the C discipline: replaying a prefix of the assignments made before a suspension is absorbed *)
Theorem C09_replay_absorbed :
  forall ws d s, apply_all (ws ++ d) (apply_all ws s) = apply_all (ws ++ d) s.
Proof. exact replay_absorbed. Qed.
Print Assumptions C09_replay_absorbed.

(* (2) every marker routine of the model (first_marker, next_marker, get_soi, get_sof, get_sos,
   get_dht, get_dqt, get_dri, skip_variable, get_interesting_appn, save_marker, dispatched as in
   read_markers) is a resumable unit *)
Theorem C09_units_prefix_stable : resumable marker_unit marker_slack.
Proof. exact marker_unit_resumable. Qed.
Print Assumptions C09_units_prefix_stable.

Theorem C09_markers_chunking_irrelevant : forall cs s, run_markers cs s = run_markers [concat cs] s.
Proof. exact markers_chunking_irrelevant. Qed.
Print Assumptions C09_markers_chunking_irrelevant.

(* (3) save_marker: the saved data is the first min(limit, length) bytes of the body, under every chunking *)
Theorem C09_save_marker_chunking :
  forall s (cs : list (list byte)) (b1 b2 : byte) (body : list byte),
  select s = BSave -> cur_marker s = None ->
  (b1 * 256 + b2 - 2 >= 0)%Z -> length body = Z.to_nat (b1 * 256 + b2 - 2) ->
  concat cs = b1 :: b2 :: body ->
  let len := Z.to_nat (b1 * 256 + b2 - 2) in
  let lim := Nat.min (nth (proc_index (unread_marker s)) (limit s) 0) len in
  exists s', run_markers cs s = Susp s' [] 0 /\ cur_marker s' = None /\
             marker_list s' = marker_list s ++ [saved_of s len lim body].
Proof. exact save_marker_chunking. Qed.
Print Assumptions C09_save_marker_chunking.

(* (2') the Huffman decode_mcu unit (restart processing, bit reader with unstuffing and prefetch,
   state committed at MCU end) is resumable, hence the decoded scan does not depend on the chunking *)
Theorem C09_huffman_unit_resumable : forall bls, resumable (mcu_unit bls) mcu_slack.
Proof. exact mcu_unit_resumable. Qed.
Print Assumptions C09_huffman_unit_resumable.

Theorem C09_scan_chunking_irrelevant : forall bls cs s, run_scan bls cs s = run_scan bls [concat cs] s.
Proof. exact scan_chunking_irrelevant. Qed.
Print Assumptions C09_scan_chunking_irrelevant.

(* (4) encoder: for every block coder whose blocks fit the 512-byte local buffer, every destination
   capacity n >= 1, every refusal schedule orc and every schedule vol of voluntary flushes, the bytes
   written are those of the destination-free coder, and the entropy state too *)
Theorem C09_output_buffer_irrelevant :
  forall (wstate block : Type) (encode_block : wstate -> block -> list byte * wstate)
         (flush_bits : wstate -> list byte * wstate) (reset_dc : wstate -> wstate),
  (forall w b, length (fst (encode_block w b)) < BUFSIZE) ->
  (forall w, length (fst (flush_bits w)) < BUFSIZE) ->
  forall ri ms e n orc vol, 1 <= n ->
  exists d', encode_all wstate block encode_block flush_bits reset_dc true ri ms e (empty_dest n) orc vol
               = EDone (snd (stream_pure wstate block encode_block flush_bits reset_dc ri ms e)) d' /\
             total d' = fst (stream_pure wstate block encode_block flush_bits reset_dc ri ms e).
Proof. exact output_buffer_irrelevant. Qed.
Print Assumptions C09_output_buffer_irrelevant.

(* statement-order facts read from the current source by tools/gen_Suspend.py: the commits that the
   model performs only at Done (input_scan_number++, saw_SOF, bytes_read bookkeeping, discarded_bytes
   sync, entropy state of decoder and encoder) are placed after the last suspendable read / at MCU end *)
Theorem C09_source_discipline : suspension_discipline = true.
Proof. exact (eq_refl true). Qed.
Print Assumptions C09_source_discipline.

(* the numeric constants of the models are those of the current source (jdhuff.h / jdhuff.c / jchuff.c) *)
Theorem C09_source_constants :
  W64 = (2 ^ src_bit_buf_size)%Z /\ MIN_GET_BITS = src_min_get_bits /\ HUFF_LOOKAHEAD = src_huff_lookahead /\
  FAST_BUFSIZE = src_dec_bufsize /\ BUFSIZE = src_enc_bufsize /\ FAST_FILL_THRESHOLD = src_fast_fill_threshold /\
  src_fast_fill_bytes = 6.
Proof. exact (conj eq_refl (conj eq_refl (conj eq_refl (conj eq_refl (conj eq_refl (conj eq_refl eq_refl)))))). Qed.
Print Assumptions C09_source_constants.

(* (2'') progressive AC refinement (jdphuff.c decode_mcu_AC_refine): the block is modified in place; on a
   suspension the newly nonzero coefficients are re-zeroed (newnz_pos[]) but correction bits stay, recognised
   on the re-run by (coef & p1) != 0.  The unit -- including re-invocation on that DIRTY block -- is resumable,
   hence the refined coefficients do not depend on the chunking *)
Theorem C09_ac_refine_unit_resumable : forall c, resumable (refine_unit c) refine_slack.
Proof. exact refine_unit_resumable. Qed.
Print Assumptions C09_ac_refine_unit_resumable.

Theorem C09_ac_refine_chunking_irrelevant : forall c cs s, run_refine c cs s = run_refine c [concat cs] s.
Proof. exact (fun c cs s => chunking_irrelevant_generic _ _ _ _ (refine_unit_resumable c) cs s). Qed.
Print Assumptions C09_ac_refine_chunking_irrelevant.

(* (2''') the other Huffman MCU decoders: jdphuff.c decode_mcu_DC_first, decode_mcu_AC_first (atomic: working state
   committed at MCU end), decode_mcu_DC_refine (block[0] |= p1 in place: DIRTY suspended MCU, idempotent OR) and one
   MCU of jdlhuff.c decode_mcus are resumable units, hence chunking-independent *)
Theorem C09_dc_first_resumable : forall layout al, resumable (dc_first_unit layout al) pq_left.
Proof. exact dc_first_resumable. Qed.
Print Assumptions C09_dc_first_resumable.
Theorem C09_ac_first_resumable : forall t ss se al, resumable (ac_first_unit t ss se al) pq_left.
Proof. exact ac_first_resumable. Qed.
Print Assumptions C09_ac_first_resumable.
Theorem C09_dc_refine_resumable : forall al, resumable (dc_refine_unit al) (fun s => length (dq_todo s)).
Proof. exact dc_refine_resumable. Qed.
Print Assumptions C09_dc_refine_resumable.
Theorem C09_lossless_mcu_resumable : forall tbls, resumable (lossless_mcu_unit tbls) pq_left.
Proof. exact lossless_mcu_resumable. Qed.
Print Assumptions C09_lossless_mcu_resumable.

(* (2'''') lossless scan with restart intervals that begin INSIDE an iMCU row (non-interleaved component, v_samp_factor > 1):
   jddiffct.c decompress_data position (MCU_vert_offset, MCU_ctr), jdlhuff.c process_restart, the restart_pending mask
   and the deferred undifferencer reset; a suspension anywhere (also inside the restart marker) is transparent *)
Theorem C09_lossless_restart_unit_resumable : forall c, resumable (lossless_unit c) (lossless_slack c).
Proof. exact lossless_unit_resumable. Qed.
Print Assumptions C09_lossless_restart_unit_resumable.
Theorem C09_lossless_chunking_irrelevant : forall c cs s, run_lossless c cs s = run_lossless c [concat cs] s.
Proof. exact lossless_chunking_irrelevant. Qed.
Print Assumptions C09_lossless_chunking_irrelevant.

Example C09_ex_lossless_restart_inside_imcu_row :
  forallb (fun cs => if list_eq_dec (list_eq_dec Z.eq_dec) (lossless_out (run_lossless ex_lcfg cs (linit_ls ex_lcfg 1)))
                          [[131; 131]; [128; 126]]%Z then true else false) (lsplits ex_lbytes) = true.
Proof. exact ex_lossless_restart_inside_imcu_row. Qed.

(* (4') encoder, coefficient controller (jccoefct.c compress_data; model/CoefCtl.v of C03): however the entropy encoder
   suspends (oracle = results of the successive encode_mcu attempts), the resumed jpeg_write_scanlines calls hand it the MCUs
   of an iMCU row with several MCU rows in raster order, each exactly once; coef_ctr_reset_per_row is read from the source *)
Theorem C09_coef_controller_resume : forall rows cols fuel orc, length orc < fuel ->
  drive rows cols coef_ctr_reset_per_row fuel 0 0 orc = Some (raster rows cols).
Proof. exact drive_raster. Qed.
Print Assumptions C09_coef_controller_resume.
Example C09_coef_ctl_needs_the_reset : drive 2 3 false 5 0 0 [true; false] <> Some (raster 2 3).
Proof. exact coef_ctl_needs_the_reset. Qed.

(* first stage of fast = slow: the logical bit stream L(get_buffer, bits_left, unread bytes) = register bits followed by the
   bits of the un-stuffed unread bytes (SuspendBitRegProofs.Lstream), over C02's numeric bit register (LosslessBitReg, read-only):
   append / peek / drop in the arithmetic form of the C09 models, and on buffers without markers both the slow fill
   (jpeg_fill_bit_buffer) and FILL_BIT_BUFFER_FAST preserve L, hence agree on it (they differ in how much is in the register) *)
Theorem C09_bit_register_abstraction :
  (forall g l c, LosslessBitRegProofs.reg_inv (g, l) -> (l + 8 <= 64)%Z -> (0 <= c < 256)%Z ->
     LosslessBitReg.reg_bits ((g * 256 + c) mod W64, l + 8)%Z = LosslessBitReg.reg_bits (g, l) ++ Lossless.bits_of 8 c /\
     LosslessBitRegProofs.reg_inv ((g * 256 + c) mod W64, l + 8)%Z) /\
  (forall g l n, LosslessBitRegProofs.reg_inv (g, l) -> (0 <= n <= l)%Z -> (n <= 31)%Z ->
     Lossless.get_bits (Z.to_nat n) 0 (LosslessBitReg.reg_bits (g, l)) =
     Some (Z.land (Z.shiftr g (l - n)) (2 ^ n - 1), LosslessBitReg.reg_bits (g, l - n))%Z) /\
  (forall g l n, (0 <= n <= l)%Z ->
     LosslessBitReg.reg_bits (g, l - n)%Z = skipn (Z.to_nat n) (LosslessBitReg.reg_bits (g, l)) /\
     (LosslessBitRegProofs.reg_inv (g, l) -> LosslessBitRegProofs.reg_inv (g, l - n)%Z)) /\
  (forall r g l g' l' r', LosslessBitRegProofs.reg_inv (g, l) -> (l < MIN_GET_BITS)%Z -> SuspendBitRegProofs.plain r = true ->
     fill_go r g l false = FFull g' l' r' ->
     SuspendBitRegProofs.Lstream g' l' r' = SuspendBitRegProofs.Lstream g l r /\
     LosslessBitRegProofs.reg_inv (g', l') /\ SuspendBitRegProofs.plain r' = true) /\
  (forall b b', LosslessBitRegProofs.reg_inv (f_gb b, f_bl b) -> (0 <= f_bl b)%Z -> SuspendBitRegProofs.plain (f_rest b) = true ->
     ffill b = Some (tt, b') ->
     SuspendBitRegProofs.Lfast b' = SuspendBitRegProofs.Lfast b /\ LosslessBitRegProofs.reg_inv (f_gb b', f_bl b') /\
     SuspendBitRegProofs.plain (f_rest b') = true /\ f_mark b' = f_mark b) /\
  (forall g l r g1 l1 r1 b2, LosslessBitRegProofs.reg_inv (g, l) -> (0 <= l < MIN_GET_BITS)%Z -> SuspendBitRegProofs.plain r = true ->
     fill_go r g l false = FFull g1 l1 r1 ->
     ffill {| f_gb := g; f_bl := l; f_rest := r; f_mark := 0 |} = Some (tt, b2) ->
     SuspendBitRegProofs.Lstream g1 l1 r1 = SuspendBitRegProofs.Lfast b2 /\ f_mark b2 = 0%Z).
Proof.
  exact (conj SuspendBitRegProofs.reg_append (conj SuspendBitRegProofs.reg_peek_value (conj SuspendBitRegProofs.reg_drop_bits
        (conj SuspendBitRegProofs.slow_fill_preserves_L (conj SuspendBitRegProofs.fast_fill_preserves_L SuspendBitRegProofs.fills_agree_on_L))))).
Qed.
Print Assumptions C09_bit_register_abstraction.

(* the fast path of decode_mcu, partial: decode_mcu_fast never suspends or fails; when it is not eligible or
   abandons the MCU (marker seen) nothing is committed and decode_mcu is exactly the slow unit covered by
   C09_huffman_unit_resumable.  That a COMPLETED fast MCU yields the coefficients of the slow path (with a
   different prefetch state) is checked by the correspondence streams only. *)
Theorem C09_fast_path_fallback_partial : forall bls s p,
  (usefast bls s p && negb (h_insuf s) = false \/ fast_mcu bls s p = None -> mcu_unit_sw bls s p = mcu_unit bls s p) /\
  (mcu_unit_sw bls s p = mcu_unit bls s p \/
   exists last blocks b, fast_mcu bls s p = Some (last, blocks, b) /\ f_mark b = 0%Z /\
     mcu_unit_sw bls s p =
     Done (commit_mcu s {| gb := f_gb b; bl := f_bl b; rest := f_rest b; um := 0; insuf := false; wn := h_warn s |} last blocks)
          (length p - length (f_rest b)) 0).
Proof. exact (fun bls s p => conj (switch_falls_back bls s p) (switch_shape bls s p)). Qed.
Print Assumptions C09_fast_path_fallback_partial.

(* (5''') buffered-image mode, multi-scan (progressive) coefficient arrays: under EVERY application schedule a row
   rendered by a pass on scan N holds at least the scans 1..N (consistent prefix of the scan sequence), and once the
   input is complete every row holds all scans *)
Theorem C09_progressive_pass_consistent : forall nscans nrows ops N r, 1 <= nscans -> 1 <= nrows -> N <= nscans -> r < nrows ->
  N <= fst (prender output_rows_ahead nscans nrows N r (prun output_rows_ahead nscans nrows ops)).
Proof. exact (fun nscans nrows ops N r => progressive_pass_consistent output_rows_ahead nscans nrows ops N r (le_n 1)). Qed.
Print Assumptions C09_progressive_pass_consistent.

Theorem C09_progressive_final_pass : forall nscans nrows ops r, 1 <= nscans -> 1 <= nrows ->
  p_eoi (prun output_rows_ahead nscans nrows ops) = true -> r < nrows ->
  nth r (p_ver (prun output_rows_ahead nscans nrows ops)) 0 = nscans.
Proof. exact (fun nscans nrows ops r H1 H2 => progressive_final_pass nscans nrows _ r (prun_inv output_rows_ahead nscans nrows ops H1 H2)). Qed.
Print Assumptions C09_progressive_final_pass.

Example C09_ex_refine_dirty_every_split :
  forallb (fun cs => if list_eq_dec (list_eq_dec Z.eq_dec)
                          (refine_summary2 (run_refine ex_dcfg cs (qinit 0 [ex_dblock])))
                          [[7; 10; -12; 6; -8; 12; -4; 10; -14; 4]%Z]
                     then true else false) (splits_of ex_dbytes) = true.
Proof. exact ex_refine_dirty_every_split. Qed.

Example C09_ex_refine_state_is_dirty :
  match run_refine ex_dcfg [firstn 8 ex_dbytes] (qinit 0 [ex_dblock]) with
  | Susp s _ _ => (firstn 4 (hd [] (q_todo s)), skipn 63 (hd [] (q_todo s))) | _ => ([], []) end
  = ([7; 10; -12; 6]%Z, [4%Z]).
Proof. exact ex_refine_state_is_dirty. Qed.

Example C09_progressive_zero_ahead_refuted : fst (prender 0 3 4 3 0 (prun 0 3 4 (repeat PConsume 8))) < 3.
Proof. exact progressive_zero_ahead_refuted. Qed.

(* (5) buffered-image mode, partial: proved for the input/output interlock model of the lossless decoder
   (one scan, one sample per row): the image shown by the final pass is the plain undifferenced image
   whatever legal sequence of consume_input / start_output / read_scanlines / finish_output precedes it.
   The DCT coefficient-array path is covered by the schedule oracle of the check only.
   output_pass_resets_lossless is read from jdmaster.c prepare_for_output_pass by the translator. *)
Theorem C09_bufimage_final_pass_partial :
  forall diffs ops, final_image output_pass_resets_lossless diffs ops = undiff diffs None.
Proof. exact bufimage_final_pass. Qed.
Print Assumptions C09_bufimage_final_pass_partial.

(* (5'') buffered-image mode, the documented display loop jpeg_start_output(cinfo, cinfo->input_scan_number)
   started at ANY point of the scan being read: every row of the pass is rendered with that scan's data
   for the row (here: the undifferenced row), because the output side keeps the input output_rows_ahead >= 1
   rows ahead (read from jdcoefct.c decompress_data / jddiffct.c output_data by the translator) *)
Theorem C09_display_pass_complete_partial : forall diffs ops,
  display_pass output_rows_ahead diffs (brun output_pass_resets_lossless diffs ops) = map Some (undiff diffs None).
Proof. exact (fun diffs ops => display_pass_complete output_rows_ahead diffs ops (le_n 1)). Qed.
Print Assumptions C09_display_pass_complete_partial.

(* look-ahead 0 (seeded change C07-5): rows are rendered before their data has been read *)
Example C09_display_pass_zero_ahead_refuted :
  display_pass 0 [10; 20; 30]%Z (brun false [10; 20; 30]%Z [Consume]) <> map Some (undiff [10; 20; 30]%Z None).
Proof. exact display_pass_zero_ahead_refuted. Qed.

(* (5') buffered-image mode, quantization tables (jdinput.c latch_quant_tables, get_dqt, jddctmgr start_pass):
   the multiplier tables used by the final output pass are those of the run without any early output pass,
   for every interleaving of output passes with DQT / SOS / data on the input side -- hence independent of
   later redefinitions of a shared slot and of the output-pass schedule.  latch_by_copy is read from
   jdinput.c by the translator (private copy, not the slot pointer). *)
Theorem C09_bufimage_quant_tables_partial : forall ops s, lfresh s ->
  final_tables latch_by_copy ops s = final_tables latch_by_copy (lstrip ops) s.
Proof. exact latch_schedule_irrelevant. Qed.
Print Assumptions C09_bufimage_quant_tables_partial.

Theorem C09_latched_table_immutable : forall ops s i t,
  (exists c, nth_error (comps s) i = Some c /\ cl c = Copy t) ->
  exists c, nth_error (comps (lrun latch_by_copy ops s)) i = Some c /\ cl c = Copy t.
Proof. exact latched_table_immutable. Qed.
Print Assumptions C09_latched_table_immutable.

Example C09_ex_latch_copy : final_tables true ex_ops (linit [0; 0; 0]) = [Some tA; Some tB; Some tB].
Proof. exact ex_latch_copy. Qed.
Example C09_ex_latch_fresh : lfresh (linit [0; 0; 0]).
Proof. exact ex_latch_fresh. Qed.
(* latching the slot pointer (seeded change C09-2) violates the clause *)
Example C09_latch_by_reference_refuted :
  final_tables false ex_ops (linit [0; 0; 0]) <> final_tables false (lstrip ex_ops) (linit [0; 0; 0]).
Proof. exact latch_by_reference_refuted. Qed.

(* the behaviour of the tree before the fix found by this check (start_pass_lossless re-armed at every
   output pass) violates the clause: kept as the model-level witness of the regression case in corpus/C09 *)
Example C09_bufimage_reset_refuted_before_fix :
  final_image true [10; 20; 30; 40]%Z [Consume; Consume; StartOut; ReadRow] <> undiff [10; 20; 30; 40]%Z None.
Proof. exact bufimage_reset_refuted_before_fix. Qed.

Example C09_ex_every_split :
  forallb (fun cs => match outcome_ri (run_markers cs ex_init) with Some (7, 2)%Z => true | _ => false end)
          (all_splits ex_stream ++ [singletons ex_stream; [ex_stream]; [[]; ex_stream; []]]) = true.
Proof. exact ex_every_split. Qed.

Example C09_ex_save_every_split :
  forallb (fun cs => match outcome_saved (run_markers cs ex_init_save) with
                     | [(254%Z, 5, [10; 20; 30]%Z)] => true | _ => false end)
          (all_splits ex_com ++ [singletons ex_com]) = true.
Proof. exact ex_save_every_split. Qed.

Example C09_ex_save_hyp : select (set_unread 254 (set_saw_SOI true ex_init_save)) = BSave.
Proof. exact ex_save_hyp. Qed.

Example C09_ex_dirty_state :
  match run_markers [[255; 216; 255; 192; 0; 11; 8]%Z] ex_init with
  | Susp s _ _ => cget G_SC S_PREC (cells s) | _ => 0%Z end = 8%Z.
Proof. exact ex_dirty_state. Qed.

Example C09_ex_scan_every_split :
  forallb (fun cs => if list_eq_dec (list_eq_dec Z.eq_dec)
                          (scan_summary (run_scan [(0%nat, ex_dc, ex_ac)] cs (hinit 1 0 2))) [[3; 1; 0]; [3; 0; 0]]%Z
                     then true else false)
          (all_splits ex_scan ++ [singletons ex_scan; [[]; ex_scan]]) = true.
Proof. exact ex_scan_every_split. Qed.

Example C09_ex_scan_rst_every_split :
  forallb (fun cs => if list_eq_dec (list_eq_dec Z.eq_dec)
                          (scan_summary (run_scan [(0%nat, ex_dc, ex_ac)] cs (hinit 1 1 2))) [[3; 1; 0]; [0; 0; 0]]%Z
                     then true else false)
          (all_splits ex_scan_rst ++ [singletons ex_scan_rst]) = true.
Proof. exact ex_scan_rst_every_split. Qed.

Example C09_ex_enc_all_caps :
  forallb (fun n => forallb (fun orc => forallb (fun ri =>
      match toy_run true n ri ex_mcus orc [false; true; false; true] with
      | Some out => if list_eq_dec Z.eq_dec out (toy_pure ri ex_mcus) then true else false
      | None => false end) [0; 1; 2; 3]) ex_orcs) (seq 1 24) = true.
Proof. exact ex_enc_all_caps. Qed.

(* a manager that refuses after having accepted a buffer within the same MCU duplicates data:
   the documented side condition is necessary *)
Example C09_ex_enc_unsafe_manager_duplicates :
  toy_run false 2 0 [[[1; 2; 3; 4; 5; 6]%Z]] [false; true] [] <> Some (toy_pure 0 [[[1; 2; 3; 4; 5; 6]%Z]]).
Proof. exact ex_enc_unsafe_manager_duplicates. Qed.
