(* C17 -- property theorems only: statement + exact + Print Assumptions. *)
From Coq Require Import List ZArith Bool.
From LJT Require Import model.Huff gen.GenParams model.CParams proofs.CParamsTj.
Import ListNotations.
Local Open Scope Z_scope.

(* (5) every value tj3Set accepts (generated switch table) lies in the range its consumers assume *)
Theorem C17_tj_param_ranges : forall init param value,
  is_int value -> tj3set_accepts init param value = true ->
  match consumer_range param with Some (a, b) => a <= value <= b | None => False end.
Proof. exact tj_param_ranges_lemma. Qed.
Print Assumptions C17_tj_param_ranges.
