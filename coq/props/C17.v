(* C17 -- property theorems only: statement + exact + Print Assumptions. *)
From Coq Require Import List ZArith Bool.
From LJT Require Import model.Huff gen.GenParams model.CParams proofs.CParamsHoare proofs.CParamsTj
  proofs.CParamsScript proofs.CParamsChain proofs.CParamsSetup proofs.CParamsBlock proofs.CParamsMaster
  proofs.CParamsPasses proofs.CParamsSimd proofs.CParamsExamples lib.Sweep model.CProgScript proofs.CProgScriptProofs model.CRestart proofs.CRestartProofs model.CMarker proofs.CMarkerProofs model.CParamApi proofs.CParamApiProofs model.CRefine proofs.CRefineProofs model.CModules proofs.CModulesProofs.
Import ListNotations.
Local Open Scope Z_scope.

(* sat m Q : every array access m records is inside the declared array, and a returned value satisfies Q *)

(* (1a) initial_setup, for ALL parameter values: no index out of range; accepted => 1..10 components,
   sampling factors 1..4, max factors 1..4, dimensions 1..65500, every derived size >= 1 *)
Theorem C17_initial_setup_bounds : forall width height incomp nc prec lossless comps,
  sat (initial_setup width height incomp nc prec lossless comps)
      (fun u => setup_wf width height nc lossless comps u /\ 1 <= incomp /\ width * incomp < 2 ^ 32 /\
                (if lossless then g_LOSSLESS_PREC_MIN <= prec <= g_LOSSLESS_PREC_MAX
                 else prec = g_LOSSY_PREC_A \/ prec = g_LOSSY_PREC_B)).
Proof. exact initial_setup_bounds_lemma. Qed.
Print Assumptions C17_initial_setup_bounds.

(* (1b) per_scan_setup after an accepted initial_setup: cur_comp_info / comp_info / MCU_membership indexes
   in range, 1 <= blocks_in_MCU <= C_MAX_BLOCKS_IN_MCU, membership entries < comps_in_scan,
   restart interval <= 65535 *)
Theorem C17_per_scan_bounds : forall width height nc lossless comps u ncur cur ri rir,
  setup_wf width height nc lossless comps u ->
  1 <= ncur <= g_MAX_COMPS_IN_SCAN ->
  (forall ci, 0 <= ci < ncur -> 0 <= getZ cur ci < nc) ->
  sat (per_scan_setup width height lossless u ncur cur ri rir) (scaninfo_wf ncur ri rir).
Proof. exact per_scan_bounds_lemma. Qed.
Print Assumptions C17_per_scan_bounds.

(* (2a) validate_script, for ALL component counts, precisions and scripts (lists of scans of any length):
   component_index[] / component_sent[] / last_bitpos[][] accesses in range; accepted => at most
   MAX_COMPONENTS components and every scan well formed (component indexes < num_components and strictly
   increasing, 0 <= Ss <= Se <= 63, Ah/Al <= 13 (10 at 8 bits), lossless/sequential parameter rules) *)
Theorem C17_validate_script_safe : forall nc prec scans,
  sat (validate_script nc prec scans)
      (fun mode => nc <= g_MAX_COMPONENTS /\ scans <> [] /\
                   mode = script_mode (hd {| s_ncomps := 0; s_comps := []; s_Ss := 0; s_Se := 0; s_Ah := 0; s_Al := 0 |} scans) /\
                   Forall (scan_wf nc mode prec) scans).
Proof. exact validate_script_safe_lemma. Qed.
Print Assumptions C17_validate_script_safe.

(* (2b) accepted progressive scripts walk the successive-approximation chains: for every (component,
   coefficient) the (Ah,Al) sequence of the scans that send it is (0,a0),(a0,a0-1),... (sa_chain (-1));
   every AC scan of a component is preceded by a DC scan of it; every component's DC is sent *)
Theorem C17_script_valid_chain : forall nc prec scans,
  snd (validate_script nc prec scans) = inr Progressive ->
  (forall c k, 0 <= c < nc -> 0 <= k < g_DCTSIZE2 -> sa_chain (-1) (hist scans c k)) /\
  dc_before_ac (fun _ => false) scans /\
  (forall c, 0 <= c < nc -> hist scans c 0 <> []).
Proof. exact script_valid_chain_lemma. Qed.
Print Assumptions C17_script_valid_chain.

(* (3) staging buffer: for EVERY block (list of at most 64 coefficients that passes the range checks),
   every pair of tables with code lengths <= 16 and every state of the bit buffer, one encode_one_block
   writes at most BUFSIZE bytes, 0xFF stuffing included *)
Theorem C17_block_fits_staging : forall prec dctbl actbl st last_dc coefs st',
  0 <= prec <= g_LOSSY_PREC_B -> tbl_ok dctbl -> tbl_ok actbl -> bs_ok st ->
  (length coefs <= Z.to_nat g_DCTSIZE2)%nat ->
  encode_one_block prec dctbl actbl st last_dc coefs = inr st' ->
  olen st' - olen st <= g_BUFSIZE.
Proof. exact block_fits_staging_lemma. Qed.
Print Assumptions C17_block_fits_staging.

(* (4) jpeg_make_c_derived_tbl model: for EVERY bits[] / huffval[] content it rejects or returns 257-entry
   tables whose used entries have length 1..16 and code < 2^length; no symbol above maxsymbol is stored *)
Theorem C17_c_derived_total : forall bits vals maxsym,
  0 <= maxsym <= 256 ->
  match make_c_derived bits vals maxsym with
  | None => True
  | Some t => length (ehufco t) = 257%nat /\ length (ehufsi t) = 257%nat /\
              (forall i, entry_ok (ehufco t) (ehufsi t) i) /\
              (forall i, maxsym < Z.of_nat i -> nthZ (ehufsi t) i = 0) /\ tbl_ok t
  end.
Proof. exact c_derived_total_lemma. Qed.
Print Assumptions C17_c_derived_total.

(* (3)+(4): blocks encoded with tables the library derived fit the staging buffer *)
Theorem C17_block_fits_staging_derived : forall prec dbits dvals abits avals dct act st last_dc coefs st',
  0 <= prec <= g_LOSSY_PREC_B ->
  make_c_derived dbits dvals 15 = Some dct -> make_c_derived abits avals 255 = Some act ->
  bs_ok st -> (length coefs <= Z.to_nat g_DCTSIZE2)%nat ->
  encode_one_block prec dct act st last_dc coefs = inr st' ->
  olen st' - olen st <= g_BUFSIZE.
Proof. exact block_fits_staging_derived. Qed.
Print Assumptions C17_block_fits_staging_derived.

(* (5) every value tj3Set accepts (generated switch table) lies in the range its consumers assume *)
Theorem C17_tj_param_ranges : forall init param value,
  is_int value -> tj3set_accepts init param value = true ->
  match consumer_range param with Some (a, b) => a <= value <= b | None => False end.
Proof. exact tj_param_ranges_lemma. Qed.
Print Assumptions C17_tj_param_ranges.

(* (1c) the whole start sequence (validate_script, lossless re-validation, initial_setup, conversion /
   down-sampling checks, select_scan_parameters + per_scan_setup of the first scan), for EVERY
   configuration: every recorded array access in range; success => no scan refers to a component beyond
   the final num_components, geometry and first scan well formed *)
Theorem C17_master_start_safe : forall c, sat (master_start c) (started_wf c).
Proof. exact master_start_safe_lemma. Qed.
Print Assumptions C17_master_start_safe.

(* (1d) ... and the per_scan_setup of every later scan *)
Theorem C17_master_rest_safe : forall c t, started_wf c t -> sat (master_rest c t) (fun _ => True).
Proof. exact master_rest_safe_lemma. Qed.
Print Assumptions C17_master_rest_safe.

(* quantisation: jpeg_add_quant_table clamps every entry to 1..32767 (1..255 baseline); the divisor handed to
   compute_reciprocal in 8-bit mode is min(8q, 65535): never 0, fits UINT16 (F3) *)
Theorem C17_quant_entry_range : forall basic scale force,
  1 <= quant_entry basic scale force <= (if force then 255 else 32767).
Proof. exact quant_entry_range_lemma. Qed.
Print Assumptions C17_quant_entry_range.
Theorem C17_quant_divisor_total : forall q, 1 <= q <= 65535 ->
  1 <= islow_divisor q <= 65535 /\ islow_divisor q = Z.min (8 * q) 65535.
Proof. exact quant_divisor_total_lemma. Qed.
Print Assumptions C17_quant_divisor_total.

(* the C pre-check in front of the SIMD Huffman encoder accepts exactly the blocks that pass the range tests
   of the C encoder (F15); hence the SIMD encoder never sees a block encode_one_block would reject *)
Theorem C17_simd_precheck_equiv : forall prec last_dc dc acs, 0 <= prec ->
  simd_range_ok prec last_dc (dc :: acs) = true <->
  seq_dc_ok prec (dc - last_dc) = true /\ forallb (seq_ac_ok prec) acs = true.
Proof. exact simd_precheck_equiv_lemma. Qed.
Print Assumptions C17_simd_precheck_equiv.
Theorem C17_simd_precheck_sound : forall prec dctbl actbl st last_dc coefs, 0 <= prec ->
  encode_one_block prec dctbl actbl st last_dc coefs = inl BadDctCoef ->
  simd_range_ok prec last_dc coefs = false.
Proof. exact simd_precheck_sound_lemma. Qed.
Print Assumptions C17_simd_precheck_sound.

(* jpeg_simple_progression on ONE compression object, for EVERY sequence of calls (any scan counts): the
   script workspace in the permanent pool always has at least as many slots as the call writes
   (re-allocation rule read from jcparam.c); the slot count announced equals the number of scans the
   fill_* calls write for EVERY component count; and for 1..MAX_COMPONENTS components (T1-finite, bound
   stated) the script is accepted by validate_script at 8 and 12 bits *)
Theorem C17_script_workspace_safe : forall calls w, ws_inv w -> sp_run w calls = true.
Proof. exact script_workspace_safe_lemma. Qed.
Print Assumptions C17_script_workspace_safe.
Theorem C17_simple_progression_length : forall ncomps ycc, 0 <= ncomps ->
  Z.of_nat (length (simple_progression ncomps ycc)) = simple_nscans ncomps ycc.
Proof. exact simple_progression_length_lemma. Qed.
Print Assumptions C17_simple_progression_length.
Theorem C17_simple_progression_accepted : forall n ycc, 1 <= n <= g_MAX_COMPONENTS ->
  snd (validate_script n 8 (simple_progression n ycc)) = inr Progressive /\
  snd (validate_script n 12 (simple_progression n ycc)) = inr Progressive.
Proof. exact simple_progression_accepted_lemma. Qed.
Print Assumptions C17_simple_progression_accepted.

(* restart markers in multi-scan files: per_scan_setup recomputes the interval for every scan; with the DRI
   rule of write_scan_header (generated from jcmarker.c) the interval in force at every SOS (last DRI written,
   none = 0) equals the interval the scan is encoded with, for EVERY sequence of per-scan intervals *)
Theorem C17_dri_in_force : forall intervals last, dri_run last last intervals = true.
Proof. exact dri_in_force_lemma. Qed.
Print Assumptions C17_dri_in_force.

(* raw-data input: with the row accounting of jpeg_write_raw_data (generated from jcapistd.c) the documented
   caller loop encodes every iMCU row of the image, whatever num_lines >= lines_per_iMCU_row is offered *)
Theorem C17_raw_rows_complete : forall height lines num_lines, 1 <= height -> 0 < lines ->
  raw_loop (Z.to_nat height + 1) 0 height lines num_lines = Some (jdiv_round_up height lines).
Proof. exact raw_rows_complete_lemma. Qed.
Print Assumptions C17_raw_rows_complete.

(* (6) stream completeness.  The marker writer (jcmarker.c) is modelled byte for byte; a datastream is the
   concatenation of what it writes along the pass events of the master, the entropy-coded data of each scan
   being arbitrary bytes and the statistics passes installing arbitrary new Huffman tables.
   (6a) pass loop: terminates for every scan count / optimisation / DC-refinement set; SOI first, every scan's
        data once, in order, directly after its scan header, EOI last *)
Theorem C17_stream_complete_passes : forall n optimize dcr, 1 <= n ->
  exists ev, run_master n optimize dcr = Some ev /\
             hd EvEOI ev = EvSOI /\ last ev EvSOI = EvEOI /\
             scan_data ev = zrange 0 (Z.to_nat n) /\ headed None ev.
Proof. exact stream_complete_partial_lemma. Qed.
Print Assumptions C17_stream_complete_passes.

(* (6b) ... in particular for EVERY script validate_script accepts (jpeg_finish_compress's multi-pass loop) *)
Theorem C17_finish_compress_terminates : forall nc prec scans mode optimize dcr,
  snd (validate_script nc prec scans) = inr mode ->
  exists ev, run_master (Z.of_nat (length scans)) optimize dcr = Some ev /\
             last ev EvSOI = EvEOI /\ scan_data ev = zrange 0 (length scans) /\ headed None ev.
Proof. exact finish_compress_terminates_lemma. Qed.
Print Assumptions C17_finish_compress_terminates.

(* (6c) bytes: whatever the image, tables, scan parameters, data and regenerated tables, a completed
        compression writes FFD8 ... FFD9 *)
Theorem C17_stream_complete_full : forall img scans data regen n optimize dcr st, 1 <= n ->
  exists ev, run_master n optimize dcr = Some ev /\
    forall tr, assemble img scans data regen ev st = inr tr ->
      exists body, bytes_of tr = [255; 216] ++ body ++ [255; 217].
Proof. exact stream_complete_full_lemma. Qed.
Print Assumptions C17_stream_complete_full.

(* (6d) tables before use: for every event sequence, if the reader's knowledge agrees with the sent_table
        flags at the start (inv; e.g. write_all_tables = TRUE and a reader that knows nothing), then after the
        frame header every quantisation table a component refers to, and after every scan header every Huffman
        table the scan needs and the restart interval in force, are known to the reader with exactly the
        encoder's content (audit = true); statistics passes may replace any table provided they clear its
        sent_table flag (regen_ok), which the modelled finish_pass_gather does *)
Theorem C17_tables_before_use : forall img scans data regen ev st d,
  regen_ok regen -> inv st d -> audit img scans data regen ev st d = true.
Proof. exact tables_before_use_lemma. Qed.
Print Assumptions C17_tables_before_use.
Theorem C17_tables_initial : forall st, all_unsent st -> inv st dview0.
Proof. exact inv_initial. Qed.
Print Assumptions C17_tables_initial.
Theorem C17_regen_std_ok : forall img scans newc, regen_ok (regen_std img scans newc).
Proof. exact regen_std_ok. Qed.
Print Assumptions C17_regen_std_ok.

(* (6e) a table marker is written only for a table whose sent_table flag is clear, and sets it *)
Theorem C17_dht_only_when_unsent : forall st index is_ac m st' slot, 0 <= slot ->
  emit_dht st index is_ac = inr (m, st') ->
  count_defs slot m + (if is_sent st' slot then 0 else 1) <= (if is_sent st slot then 0 else 1) /\
  (is_sent st slot = true -> is_sent st' slot = true).
Proof. exact emit_dht_count. Qed.
Print Assumptions C17_dht_only_when_unsent.

(* (6f) over a whole datastream, for ANY statistics pass: a table slot (0..3 DQT, 4..7 DC DHT, 8..11 AC DHT) is
   defined at most once plus once per statistics pass, and not by the first use if its sent_table flag was set *)
Theorem C17_tables_not_reemitted : forall img scans data regen slot ev st tr, 0 <= slot ->
  assemble img scans data regen ev st = inr tr ->
  count_defs slot tr <= unsent1 st slot + gathers ev.
Proof. exact tables_not_reemitted_lemma. Qed.
Print Assumptions C17_tables_not_reemitted.
(* ... and a quantisation table at most once per datastream (the modelled statistics pass never touches one) *)
Theorem C17_dqt_at_most_once : forall img scans data newc slot ev st tr, 0 <= slot < 4 ->
  assemble img scans data (regen_std img scans newc) ev st = inr tr ->
  count_defs slot tr <= unsent1 st slot.
Proof. exact dqt_at_most_once_lemma. Qed.
Print Assumptions C17_dqt_at_most_once.

(* (6g) abbreviated datastreams (jpeg_write_tables, then any image written from the resulting state, e.g.
   jpeg_start_compress(write_all_tables = FALSE)): the tables-only stream is FFD8 .. FFD9, and a reader that has
   read it knows, at every point of use in the image stream, every table and the restart interval with the
   encoder's content -- the image stream refers only to tables the first stream (or itself) carried *)
Theorem C17_abbreviated_streams : forall arith st d tr1 st1 img scans data regen ev,
  inv st d -> write_tables_only arith st = inr (tr1, st1) -> regen_ok regen ->
  audit img scans data regen ev st1 (fold_left dview_step tr1 d) = true /\
  (exists body, bytes_of tr1 = [255; 216] ++ body ++ [255; 217]).
Proof. exact abbreviated_streams_lemma. Qed.
Print Assumptions C17_abbreviated_streams.

(* (6h) application markers: jpeg_write_marker / jpeg_write_m_header succeed only after jpeg_start_compress /
   jpeg_write_coefficients and before the first scanline, with at most 65533 data bytes; markers written there
   keep the datastream FFD8 .. FFD9 and are invisible to the table bookkeeping *)
Theorem C17_write_marker_state : forall g next code data m,
  api_write_marker g next code data = inr m ->
  next = 0 /\ g <> CSTATE_START /\ Z.of_nat (length data) <= 65533 /\ m = [MkApp code data].
Proof. exact api_write_marker_state. Qed.
Print Assumptions C17_write_marker_state.
Theorem C17_app_markers : forall img scans data regen apps n optimize dcr st d, 1 <= n ->
  regen_ok regen -> inv st d ->
  exists ev, run_master n optimize dcr = Some ev /\
    forall tr, assemble_with_apps img scans data regen apps ev st = inr tr ->
      (exists body, bytes_of tr = [255; 216] ++ body ++ [255; 217]) /\
      (forall tr0, assemble img scans data regen ev st = inr tr0 ->
         fold_left dview_step tr d = fold_left dview_step tr0 d).
Proof. exact app_markers_lemma. Qed.
Print Assumptions C17_app_markers.

(* jcphuff.c encode_mcu_AC_refine: the correction-bit buffer.  With the flush test and the sizes read from the source
   (BE > MAX_CORR_BITS - DCTSIZE2 + 1 forces the pending EOB run out; bit_buffer has MAX_CORR_BITS bytes) every index
   written into bit_buffer is inside the allocation, for EVERY sequence of blocks of the scan (bands of <= 63 coefficients) *)
Theorem C17_corr_buffer_safe : forall blocks s,
  sinv s -> r_BE s <= g_CORR_FLUSH_THRESHOLD ->
  Forall (fun b => Z.of_nat (length b) <= g_DCTSIZE2 - 1) blocks ->
  Forall (fun i => 0 <= i < g_CORR_BUFFER_SIZE) (refine_scan s blocks).
Proof. exact corr_buffer_safe_lemma. Qed.
Print Assumptions C17_corr_buffer_safe.
Example C17_ex_corr_buffer_boundary :
  let full := repeat Ccorr 63 in
  fold_left Z.max (refine_scan {| r_EOBRUN := 0; r_BE := 0 |} (repeat full 14 ++ [repeat Ccorr 55 ++ repeat Czero 8; full])) 0 = 999.
Proof. exact corr_buffer_boundary. Qed.

(* ---- the parameter-setting API (jcparam.c), module selection (jcinit.c), TurboJPEG entry points ---- *)
Theorem C17_quality_scaling_range : forall q, 0 <= quality_scaling q <= 5000.
Proof. exact quality_scaling_range_lemma. Qed.
Print Assumptions C17_quality_scaling_range.
(* every table jpeg_set_linear_quality installs for EVERY scale factor -- hence jpeg_set_quality / jpeg_set_defaults for
   EVERY quality -- has 64 entries in 1..255 (32767), none zero (F13), with a valid 8-bit divisor (F3) *)
Theorem C17_linear_quality_tables_ok : forall scale force,
  let '(t0, t1) := linear_quality_tables scale force in
  Forall (fun v => 1 <= v <= (if force then 255 else 32767) /\ entry_passes_fdct v = true) (t0 ++ t1) /\
  length t0 = 64%nat /\ length t1 = 64%nat.
Proof. exact linear_quality_tables_ok_lemma. Qed.
Print Assumptions C17_linear_quality_tables_ok.
Theorem C17_set_quality_tables_ok : forall quality force,
  let '(t0, t1) := set_quality_tables quality force in
  Forall (fun v => 1 <= v <= (if force then 255 else 32767) /\ entry_passes_fdct v = true) (t0 ++ t1) /\
  length t0 = 64%nat /\ length t1 = 64%nat.
Proof. exact set_quality_tables_ok_lemma. Qed.
Print Assumptions C17_set_quality_tables_ok.
(* jpeg_set_colorspace / jpeg_default_colorspace (tables generated from the two switches), EVERY colour space value and
   input_components: error, or 1..10 components with sampling factors 1..2 and table numbers 0..1 *)
Theorem C17_set_colorspace_ok : forall cs n i, set_colorspace cs n = inr i -> csinfo_okb i = true.
Proof. exact set_colorspace_ok_lemma. Qed.
Print Assumptions C17_set_colorspace_ok.
Theorem C17_default_colorspace_ok : forall in_cs n lossless cs i,
  default_colorspace in_cs n lossless = inr (cs, i) -> csinfo_okb i = true.
Proof. exact default_colorspace_ok_lemma. Qed.
Print Assumptions C17_default_colorspace_ok.
(* jpeg_simple_progression (T1-finite, 1..MAX_COMPONENTS components, YCbCr and all-purpose script): every coefficient of
   every component ends at bit 0 along a successive-approximation chain: all bits sent, each exactly once *)
Theorem C17_simple_progression_complete : forall n ycc c k,
  1 <= n <= g_MAX_COMPONENTS -> 0 <= c < n -> 0 <= k < 64 ->
  final_al (-1) (hist (simple_progression n ycc) c k) = 0 /\
  sa_chain (-1) (hist (simple_progression n ycc) c k).
Proof. exact simple_progression_complete_lemma. Qed.
Print Assumptions C17_simple_progression_complete.
(* jinit_compress_master: `select_modules_gen` INTERPRETS the decision tree gen_Params.py parses out of jcinit.c
   (gen.GenParams.g_compress_master).  For every parameter class the tree is total; it is rejected (lossless + arithmetic;
   lossy precision not 8 / 12) or selects exactly one of the DCT / lossless paths and exactly one entropy encoder *)
Theorem C17_select_modules_ok : forall raw lossless arith progressive prec num_scans optimize,
  exists r, select_modules_gen raw lossless arith progressive prec num_scans optimize = Some r /\
  match r with
  | inl e => (e = ArithNotImpl /\ lossless = true /\ arith = true) \/ (e = BadPrecision /\ lossless = false /\ prec <> 8 /\ prec <> 12)
  | inr m => md_fdct m = negb (md_lossless m) /\ md_lossless m = lossless /\ md_preprocess m = negb raw /\
             md_entropy m = (if lossless then EncLhuff else if arith then EncArith else if progressive then EncPhuff else EncHuff) /\
             md_full_buffer m = ((num_scans >? 1) || optimize)
  end.
Proof. exact select_modules_gen_ok_lemma. Qed.
Print Assumptions C17_select_modules_ok.
(* ... and coincides with the closed-form specification used by the other theorems *)
Theorem C17_select_modules_gen_spec : forall raw lossless arith progressive prec num_scans optimize,
  select_modules_gen raw lossless arith progressive prec num_scans optimize =
  Some (select_modules raw lossless arith progressive prec num_scans optimize).
Proof. exact select_modules_gen_spec_lemma. Qed.
Print Assumptions C17_select_modules_gen_spec.
Theorem C17_sof_identifies_encoder : forall img prec16 raw num_scans optimize m,
  select_modules raw (im_lossless img) (im_arith img) (im_progressive img) (im_prec img) num_scans optimize = inr m ->
  (im_lossless img = true -> im_progressive img = false) ->
  exists baseline, sof_code img prec16 = sof_of_encoder (md_entropy m) (im_progressive img) baseline.
Proof. exact sof_identifies_encoder_lemma. Qed.
Print Assumptions C17_sof_identifies_encoder.
(* tj3Compress8/12/16 + setCompDefaults: every stored parameter set and every argument is rejected or reaches
   jpeg_start_compress with dimensions >= 1, 1..4 components, sampling factors 1..4, table numbers 0..1 and a
   precision the mode allows -- i.e. inside what C17_initial_setup_bounds / C17_master_start_safe accept or reject cleanly *)
Theorem C17_tj_compress_setup_ok : forall bits p w h pf s,
  (bits = 8 \/ bits = 12 \/ bits = 16) -> -1 <= tp_subsamp p < g_TJ_NUMSAMP ->
  tj_compress_setup bits p w h pf = inr s ->
  1 <= ts_width s /\ 1 <= ts_height s /\
  (1 <= length (ts_comps s) <= 4)%nat /\ forallb tj_comp_okb (ts_comps s) = true /\
  1 <= ts_in_components s <= 4 /\
  (if ts_lossless s then 2 <= ts_prec s <= 16 /\ 0 <= tp_pt p < ts_prec s /\ g_PSV_MIN <= tp_psv p <= g_PSV_MAX
   else ts_prec s = bits).
Proof. exact tj_compress_setup_ok_lemma. Qed.
Print Assumptions C17_tj_compress_setup_ok.

(* the facts generated from the current source that the models consume (fix presence, marker codes, sizes) *)
Theorem C17_source_facts :
  g_NCOMP_CHECK_IN_VALIDATE = 1 /\ g_REVALIDATE_AFTER_LOSSLESS = 1 /\ g_ZERO_QUANT_REJECTED = 1 /\
  g_DIVISOR_CLAMPED_EVERYWHERE = 1 /\ g_MISSING_CODE_CHECK = 1 /\ g_MISSING_ZRL_EOB_CHECK = 1 /\
  g_SIMD_RANGE_PRECHECK = 1 /\ g_RESTART_CLAMP_DIRECT = 1 /\ g_SP_SIZE_RULE = 1 /\ g_SP_ALLOC_GUARD = 1 /\
  g_DRI_RULE = 1 /\ g_RAW_ADVANCE = 1 /\ g_DQT_INDEX_CHECK = 1 /\ g_HUFF_TBLNO_CHECK_FIRST = 1 /\
  g_M_SOI = 216 /\ g_M_EOI = 217 /\ g_BUFSIZE = 512 /\ g_BIT_BUF_SIZE = 64.
Proof. exact source_facts. Qed.
Print Assumptions C17_source_facts.

(* ---- non-vacuity ---- *)
Example C17_ex_std_progression_accepted :
  snd (validate_script 3 8 std_prog_ycc) = inr Progressive /\ snd (validate_script 1 8 std_prog_gray) = inr Progressive.
Proof. exact (conj std_prog_ycc_accepted std_prog_gray_accepted). Qed.
Example C17_ex_std_progression_hist :
  hist std_prog_ycc 0 3 = [(0, 2); (2, 1); (1, 0)] /\ hist std_prog_ycc 2 0 = [(0, 1); (1, 0)].
Proof. exact std_prog_ycc_hist. Qed.
Example C17_ex_worst_block :
  match encode_one_block 12 long_tbl long_tbl bitstate0 0 (32767 :: repeat 16383 63) with
  | inr st => length (b_out st) = 416%nat | inl _ => False end.
Proof. exact worst_block_bytes. Qed.
Example C17_ex_restart_clamped :
  match snd (initial_setup 8 8 1 1 8 false [{| c_h := 1; c_v := 1 |}]) with
  | inr u => match snd (per_scan_setup 8 8 false u 1 [0] 100000 0) with
             | inr i => i_restart_interval i = 65535 | inl _ => False end
  | inl _ => False end.
Proof. exact restart_interval_clamped. Qed.
