(* C08 -- property theorems only: statement + exact + Print Assumptions. *)
From Coq Require Import List ZArith Bool.
From LJT Require Import model.Partial gen.GenScaling proofs.PartialGeomProofs proofs.PartialSchedSkip proofs.PartialCtxExamples
  model.PartialSmooth proofs.PartialSmoothProofs proofs.PartialCtxRead proofs.PartialCtxFinal
  model.PartialCols proofs.PartialCropSkip proofs.PartialCtxScaled.
Import ListNotations.
Local Open Scope Z_scope.

(* (1) scaled dimensions: for every factor num/den of turbojpeg.c's sf[] (generated) and ALL image
   dimensions, the if-chain of jdmaster.c (generated) picks M with M/8 = num/den, 1 <= M <= 16, and the
   output dimensions are TJSCALED(dim) = ceil(dim * M / 8) *)
Theorem C08_scaled_dims :
  forall num den W H, In (num, den) gen_sf -> 0 <= W -> 0 <= H ->
  exists M, 1 <= M <= 16 /\ 8 * num = M * den /\
    core_output_dims gen_scale_chain gen_DCTSIZE W H num den =
      Some (tjscaled W num den, tjscaled H num den, M, M) /\
    is_ceil (W * M) 8 (tjscaled W num den) /\ is_ceil (H * M) 8 (tjscaled H num den).
Proof. exact scaled_dims_all. Qed.
Print Assumptions C08_scaled_dims.

Example C08_sf_table_is_1_to_16_eighths :
  forallb (fun M => existsb (fun p => 8 * fst p =? M * snd p) gen_sf) (zseq 1 16) = true /\
  gen_DCTSIZE = 8 /\ gen_NUMSF = Z.of_nat (length gen_sf) /\ gen_NUMSF = 16.
Proof. exact (conj sf_covers_1_16 gen_consts). Qed.

(* (2) jpeg_crop_scanline: rejected exactly when width = 0 or xoffset + width > output_width; otherwise the
   left edge moves down to a multiple of the alignment, the right edge is preserved, the new width fits, and
   each component's [first_MCU_col, last_MCU_col] window covers every column of the region and starts
   exactly at its left edge *)
Theorem C08_crop_window :
  forall ow align x w, 0 < align -> 0 <= x ->
  match crop_scanline ow align x w with
  | CropErr => w = 0 \/ ow < x + w
  | CropWhole => w = ow /\ w <> 0 /\ x + w <= ow
  | CropOk x' w' fi li =>
      w <> 0 /\ x + w <= ow /\ w <> ow /\
      x' <= x /\ x - x' < align /\ x' mod align = 0 /\ 0 <= x' /\
      x' + w' = x + w /\ (0 < w -> w <= w' /\ w' <= ow - x') /\
      fi * align = x' /\ li = jdiv_round_up (x' + w') align - 1 /\
      forall hsf, 1 <= hsf ->
        let '(f, l) := comp_window align x' w' hsf in
        f * align = x' * hsf /\
        forall X, x' <= X < x' + w' -> f <= (X * hsf) / align <= l
  end.
Proof. exact crop_window_all. Qed.
Print Assumptions C08_crop_window.

Example C08_crop_window_example :
  crop_scanline 227 16 71 62 = CropOk 64 69 4 8 /\ comp_window 16 64 69 2 = (8, 16) /\ comp_window 16 64 69 1 = (4, 8).
Proof. vm_compute. repeat split; reflexivity. Qed.

(* tj3SetCroppingRegion accepts exactly the regions its documentation describes *)
Theorem C08_invalid_region_rejected :
  forall jw jh num den mcuw x y w h x1 y1 w1 h1,
  tj_set_region jw jh num den mcuw x y w h = TjOk x1 y1 w1 h1 <->
  ( ~ (x = 0 /\ y = 0 /\ w = 0 /\ h = 0) /\ 0 <= x /\ 0 <= y /\ 0 <= w /\ 0 <= h /\
    x mod (tjscaled mcuw num den) = 0 /\
    x1 = x /\ y1 = y /\
    w1 = (if w =? 0 then tjscaled jw num den - x else w) /\
    h1 = (if h =? 0 then tjscaled jh num den - y else h) /\
    0 < w1 /\ 0 < h1 /\ x + w1 <= tjscaled jw num den /\ y + h1 <= tjscaled jh num den ).
Proof. exact tj_region_spec. Qed.
Print Assumptions C08_invalid_region_rejected.

(* generated fact: jpeg_crop_scanline does not re-run jinit_upsampler() over the merged upsampler object
   (hazard 5 of the check: when this guard is missing a crop region of <= 2 columns under merged upsampling
   corrupts pool memory) *)
Theorem C08_crop_never_reinits_merged_upsampler : gen_crop_merged_guard = true.
Proof. exact (eq_refl true). Qed.
Print Assumptions C08_crop_never_reinits_merged_upsampler.

(* an accepted TurboJPEG region comes back unchanged from jpeg_crop_scanline (no "Unexplained mismatch"),
   and TurboJPEG's scaled iMCU width is libjpeg's alignment *)
Theorem C08_tj_region_matches_crop :
  forall jw jh num den mcuw x y w h x1 y1 w1 h1 align,
  tj_set_region jw jh num den mcuw x y w h = TjOk x1 y1 w1 h1 ->
  align = tjscaled mcuw num den -> 0 < align ->
  match crop_scanline (tjscaled jw num den) align x1 w1 with
  | CropErr => False
  | CropWhole => w1 = tjscaled jw num den
  | CropOk x' w' _ _ => x' = x1 /\ w' = w1
  end.
Proof. exact tj_region_crop_agree. Qed.
Print Assumptions C08_tj_region_matches_crop.

Theorem C08_tj_align_is_crop_align :
  forall num den M hmax, 0 < den -> 8 * num = M * den -> (den = 1 \/ den = 2 \/ den = 4 \/ den = 8) -> 0 <= hmax ->
  tjscaled (8 * hmax) num den = M * hmax.
Proof. exact tj_align_is_crop_align. Qed.
Print Assumptions C08_tj_align_is_crop_align.

(* interblock smoothing (progressive data of incomplete AC precision) under a crop, jdcoefct.c
   decompress_smooth_data: with last_block_column = width_in_blocks - 1 (generated fact) the five block
   columns whose DC values smooth block column b of the region are the ones a full decode uses, for every
   block column of the region except the first two of a region whose left edge is inside the image -- and for those
   too once the source loads the real left-hand neighbours (generated flag gen_smooth_left_real, repair of
   crop-hazard7); they always lie inside [first_MCU_col (resp. 0), width_in_blocks - 1] *)
Theorem C08_smoothing_window :
  forall wib first last b,
  0 <= first -> first <= b <= last -> last < wib ->
  let lo := lo_of gen_smooth_left_real first in
  (forall c, In c (smooth_cols lo (lbc_of gen_smooth_lbc_is_width wib last) b) -> lo <= c <= wib - 1) /\
  ((first = 0 \/ first + 2 <= b \/ gen_smooth_left_real = true) ->
   smooth_cols lo (lbc_of gen_smooth_lbc_is_width wib last) b = full_cols wib b).
Proof.
  intros wib first last b H0 Hb Hl. split.
  - intros c. exact (smooth_window_range gen_smooth_left_real wib first last b c H0 Hb Hl).
  - exact (smooth_window_same gen_smooth_left_real wib first last b H0 Hb Hl).
Qed.
Print Assumptions C08_smoothing_window.

(* on the current source (generated flag true: F49 repair present) no exception is left: the DC window of EVERY block
   column of a cropped region is the full decode's *)
Theorem C08_smoothing_window_full :
  forall wib first last b,
  0 <= first -> first <= b <= last -> last < wib ->
  smooth_cols (lo_of gen_smooth_left_real first) (lbc_of gen_smooth_lbc_is_width wib last) b = full_cols wib b.
Proof.
  exact (fun wib first last b H0 Hb Hl =>
           smooth_window_same gen_smooth_left_real wib first last b H0 Hb Hl (or_intror (or_intror (eq_refl true)))).
Qed.
Print Assumptions C08_smoothing_window_full.

(* the clause without the exception is false for the code without that repair (hazard 7, replayed by the check),
   and a crop-dependent last_block_column would break the right edge as well *)
Theorem C08_refuted_smoothing_left_edge :
  (exists wib first last b, 0 < first /\ first <= b <= last /\ last < wib /\
     smooth_cols first (lbc_of gen_smooth_lbc_is_width wib last) b <> full_cols wib b) /\
  (exists wib last b, 0 <= b <= last /\ last < wib /\ smooth_cols 0 (lbc_of false wib last) b <> full_cols wib b).
Proof. exact (conj smooth_left_edge_refuted smooth_right_edge_needs_width). Qed.
Print Assumptions C08_refuted_smoothing_left_edge.

(* buffered-image mode: the crop window set by jpeg_crop_scanline persists over all output passes (generated
   fact: it is initialised once per image, prepare_for_output_pass does not touch it) *)
Theorem C08_crop_window_persists_over_output_passes : gen_crop_window_set_once = true.
Proof. exact (eq_refl true). Qed.
Print Assumptions C08_crop_window_persists_over_output_passes.

(* generated facts (fixes of bufimage-hazard8 and of the stale output_scanline test): in buffered-image mode a skip to the
   bottom leaves the input controller alone; jpeg_crop_scanline tests output_scanline only in DSTATE_SCANNING *)
Theorem C08_bufimage_skip_and_crop_guards :
  gen_skip_clamp_guards_buffered = true /\ gen_crop_state_test_scanning_only = true.
Proof. exact (conj (eq_refl true) (eq_refl true)). Qed.
Print Assumptions C08_bufimage_skip_and_crop_guards.

(* TurboJPEG destination: row_pointer[i] = &dstBuf[anchor(i) * pitch] with the generated anchor; bottom-up delivery is
   the reversal of top-down delivery and stays inside the h rows (pitch * h bytes) of the destination *)
Theorem C08_tj_bottomup_is_reversal :
  forall outh h, 0 <= h ->
  map (tj_row_anchor true gen_tj_bottomup_anchor_cropped outh h) (zseq 0 (Z.to_nat h)) =
  rev (map (tj_row_anchor false gen_tj_bottomup_anchor_cropped outh h) (zseq 0 (Z.to_nat h))) /\
  (forall i, 0 <= i < h -> 0 <= tj_row_anchor true gen_tj_bottomup_anchor_cropped outh h i < h).
Proof. exact tj_bottomup_is_reversal. Qed.
Print Assumptions C08_tj_bottomup_is_reversal.

(* (3)+(4) skip/read histories on the no-context main controller (separate or merged upsampler).
   FULL statement (kept visible; it is FALSE for the code that exists, see C08_skip_read_equals_full_refuted):
   for every geometry and every list of Read/Skip ops the run behaves like a full decode. *)
Definition C08_skip_read_equals_full_full : Prop :=
  forall g ops, geom_ok g -> Forall op_nonneg ops ->
  let res := run_s g (s_init g) ops in
  scan (fst res) = Z.min (gH g) (total_requested ops) /\
  trace_ok g 0 ops (snd res) /\
  Forall (fun yp => snd yp = ideal_s (fst yp) /\ 0 <= fst yp < gH g) (delivered (snd res)).

(* proved part: every history that avoids the four hazard classes of model/Partial.v (first_hazard = 0),
   for all geometries (any min_DCT_scaled_size, v-factor, height) and op lists of any length:
   output_scanline ends at min(height, sum of requested); for every op the trace entry says: it started at
   the scanline the previous one ended at, ended at min(height, start + n), Skip returned exactly
   end - start, the Read calls returned >= 1 each and end - start in total, and the delivered rows have
   the provenance of rows start .. end-1 of a full decode *)
Theorem C08_skip_read_equals_full_partial :
  forall g ops, geom_ok g -> Forall op_nonneg ops -> first_hazard g a_init ops = 0 ->
  let res := run_s g (s_init g) ops in
  scan (fst res) = Z.min (gH g) (total_requested ops) /\
  trace_ok g 0 ops (snd res) /\
  Forall (fun yp => snd yp = ideal_s (fst yp) /\ 0 <= fst yp < gH g) (delivered (snd res)).
Proof. exact skip_read_equals_full_no_hazard. Qed.
Print Assumptions C08_skip_read_equals_full_partial.

Theorem C08_skip_read_equals_full_refuted : ~ C08_skip_read_equals_full_full.
Proof. exact skip_read_equals_full_refuted. Qed.
Print Assumptions C08_skip_read_equals_full_refuted.

(* ---- round 3: the repaired source ---- *)
(* generated facts: jdapistd.c contains the repairs of hazards 1 (F41), 2 (F42), 4 (F44) and 6 (F47); the model
   (skip_s, increment_s, skip_c, haz_step) is parametric in these flags, the driver instantiates them with these values *)
Theorem C08_source_has_skip_repairs :
  gen_fix_h1 = true /\ gen_fix_h2 = true /\ gen_fix_h4 = true /\ gen_fix_h6 = true.
Proof. exact (conj (eq_refl true) (conj (eq_refl true) (conj (eq_refl true) (eq_refl true)))). Qed.
Print Assumptions C08_source_has_skip_repairs.

(* with the repairs, no hazard hypothesis is left for every upsampler except merged h2v2 *)
Theorem C08_skip_read_equals_full_repaired :
  forall g ops, geom_ok g -> gfx1 g = true -> gfx2 g = true -> gfx4 g = true -> merged2v g = false ->
  Forall op_nonneg ops ->
  let res := run_s g (s_init g) ops in
  scan (fst res) = Z.min (gH g) (total_requested ops) /\
  trace_ok g 0 ops (snd res) /\
  Forall (fun yp => snd yp = ideal_s (fst yp) /\ 0 <= fst yp < gH g) (delivered (snd res)).
Proof. exact skip_read_equals_full_repaired. Qed.
Print Assumptions C08_skip_read_equals_full_repaired.

(* and for merged h2v2 the hypothesis of C08_skip_read_equals_full_partial can only fail through hazard 3 *)
Theorem C08_repaired_only_spare_row_hazard :
  forall g ops, geom_ok g -> gfx1 g = true -> gfx2 g = true -> gfx4 g = true ->
  first_hazard g a_init ops = 0 \/ (merged2v g = true /\ first_hazard g a_init ops = 3).
Proof. exact repaired_only_spare_row. Qed.
Print Assumptions C08_repaired_only_spare_row_hazard.

(* which is real (F43, pinned by upstream's stored MD5 of djpeg -fast -skip 1,20) *)
Theorem C08_skip_read_equals_full_repaired_refuted :
  ~ (forall g ops, geom_ok g -> gfx1 g = true -> gfx2 g = true -> gfx4 g = true -> Forall op_nonneg ops ->
     run_result_ok g ops).
Proof. exact skip_read_equals_full_repaired_refuted. Qed.
Print Assumptions C08_skip_read_equals_full_repaired_refuted.

Example C08_repaired_witnesses_hazard_free :
  first_hazard (wgr 2 1 30 false) a_init [Skip 3; Skip 1; Read 1] = 0 /\
  first_hazard (wgr 8 2 60 false) a_init [Read 1; Skip 2; Read 1] = 0 /\
  first_hazard (wgr 8 2 53 true) a_init [Skip 21; Read 40] = 0 /\
  first_hazard (wgr 8 2 53 false) a_init [Read 2; Skip 2; Read 60] = 0.
Proof. exact repaired_witnesses_hazard_free. Qed.

(* ---- round 3 (c): jpeg_crop_scanline + any hazard-free read/skip history ---- *)
Theorem C08_crop_skip_combined :
  forall g ops ow align x w x' w' fi li,
  geom_ok g -> Forall op_nonneg ops -> first_hazard g a_init ops = 0 ->
  0 < align -> 0 <= x -> 0 < w ->
  crop_scanline ow align x w = CropOk x' w' fi li ->
  run_result_ok g ops /\
  x' <= x /\ x' + w' = x + w /\ x + w <= ow /\
  forall fancyh hr hs dct hmax M j,
    1 <= hr -> 1 <= hs -> 1 <= dct -> (fancyh = true -> hr = 2) ->
    align = hr * (hs * dct) -> hmax * M = align ->
    0 <= j < w' ->
    (fancyh = true -> (j = 0 -> x' = 0) /\ (j = w' - 1 -> x' + w' = ow)) ->
    col_prov_crop fancyh hr dct (fst (comp_window align x' w' hs)) (comp_dsw w' hs dct hmax M) j =
    col_prov fancyh hr (jdiv_round_up ow hr) (x' + j).
Proof. exact crop_skip_combined. Qed.
Print Assumptions C08_crop_skip_combined.

(* the edge exception is real: the first column of a region starting inside the image, triangle filter *)
Theorem C08_refuted_crop_fancy_left_edge :
  col_prov_crop true 2 8 (fst (comp_window 16 16 16 1)) (jdiv_round_up 16 2) 0 <> col_prov true 2 (jdiv_round_up 64 2) 16.
Proof. exact crop_cols_left_edge_refuted. Qed.
Print Assumptions C08_refuted_crop_fancy_left_edge.

(* ---- jpeg_crop_scanline called again (documented in libjpeg.txt; in buffered-image mode before a later output pass) ---- *)
(* the code tests the new request against the ALREADY CROPPED output_width: when the call reaches the alignment code
   it sets the promised region ... *)
Theorem C08_recrop_ok_agrees :
  forall ow align x1 w1 x2 w2 x' w',
  0 < align -> 0 <= x1 -> 0 <= x2 -> 0 < w1 ->
  recrop_faithful ow align x1 w1 x2 w2 = Some (ReOk x' w') -> recrop_documented ow align x2 w2 = Some (x', w').
Proof. exact recrop_ok_agrees. Qed.
Print Assumptions C08_recrop_ok_agrees.

(* ... but a request of the first region's width at another offset is ignored silently (the old region is delivered,
   the caller's values come back unchanged) and a valid region right of the first one is rejected: known finding
   recrop-stale-width, replayed by the K lines of the check *)
Theorem C08_refuted_recrop_uses_cropped_width :
  recrop_faithful 64 16 16 32 0 32 = Some (ReIgnored 16 32) /\ recrop_documented 64 16 0 32 = Some (0, 32) /\
  recrop_faithful 64 16 16 32 32 32 = Some ReErr /\ recrop_documented 64 16 32 32 = Some (32, 32).
Proof. exact recrop_refuted. Qed.
Print Assumptions C08_refuted_recrop_uses_cropped_width.

(* ---- round 3 (b): components with row-group height rg > 1 in the context controller ---- *)
Theorem C08_funny_pointers_rgroup_scaled :
  forall M rg, 2 <= M <= 16 -> 1 <= rg <= 4 ->
  let g := pg M rg in let g1 := pg M 1 in
  snd (make_funny g) = scaled rg (snd (make_funny g1)) /\
  fst (make_funny g) = top0 rg (scaled rg (fst (make_funny g1))) /\
  wrap_one g (fst (make_funny g)) = scaled rg (wrap_one g1 (fst (make_funny g1))) /\
  wrap_one g (snd (make_funny g)) = scaled rg (wrap_one g1 (snd (make_funny g1))).
Proof. exact funny_pointers_rgroup_scaled. Qed.
Print Assumptions C08_funny_pointers_rgroup_scaled.

(* bounded: every history skip a; read b; skip c; read the rest (a, c < 36 (28), b <= 3 (2)) on the rg = 2 luma
   component of 4:2:0 at scales 8/8 and 12/8 and on the rg = 2 fancy chroma of a v = 4 sampling (repaired hazard 6);
   the same family fails without that repair *)
Theorem C08_rg2_histories_bounded :
  all_hist_okb g420y 36 3 36 = true /\ all_hist_okb g420yx12 28 2 28 = true /\ all_hist_okb g141212r 36 3 36 = true.
Proof. exact rg2_runs_ok. Qed.
Print Assumptions C08_rg2_histories_bounded.

Theorem C08_refuted_context_v4_unrepaired_family : all_hist_okb g141212u 36 3 36 = false.
Proof. exact rg2_v4_unrepaired_fails. Qed.
Print Assumptions C08_refuted_context_v4_unrepaired_family.

(* one witness per hazard class: the faithful model delivers a wrong row / passes the bottom.
   The check replays each of them on the implementation. *)
Theorem C08_refuted_skip_after_skip :
  let g := wg 2 1 30 false in let ops := [Skip 3; Skip 1; Read 1] in
  geom_ok g /\ Forall op_nonneg ops /\ first_hazard g a_init ops = 1 /\ bad_row g ops 4 (2, -1).
Proof. exact refuted_skip_after_skip. Qed.
Print Assumptions C08_refuted_skip_after_skip.

Theorem C08_refuted_skip_mid_rowgroup :
  let g := wg 8 2 60 false in let ops := [Read 1; Skip 2; Read 1] in
  geom_ok g /\ Forall op_nonneg ops /\ first_hazard g a_init ops = 2 /\ bad_row g ops 3 (1, -1).
Proof. exact refuted_skip_mid_rowgroup. Qed.
Print Assumptions C08_refuted_skip_mid_rowgroup.

Theorem C08_refuted_merged_spare_row :
  let g := wg 8 2 53 true in let ops := [Read 1; Skip 20; Read 1] in
  geom_ok g /\ Forall op_nonneg ops /\ first_hazard g a_init ops = 3 /\ bad_row g ops 21 (22, -1).
Proof. exact refuted_merged_spare_row. Qed.
Print Assumptions C08_refuted_merged_spare_row.

Theorem C08_refuted_rows_to_go :
  (let g := wg 8 2 53 true in let ops := [Skip 21; Read 40] in
   geom_ok g /\ Forall op_nonneg ops /\ first_hazard g a_init ops = 4 /\
   scan (fst (run_s g (s_init g) ops)) = gH g + 1) /\
  (let g := wg 8 2 53 false in let ops := [Read 2; Skip 2; Read 60] in
   geom_ok g /\ Forall op_nonneg ops /\ first_hazard g a_init ops = 4 /\
   scan (fst (run_s g (s_init g) ops)) = gH g + 1).
Proof. exact (conj refuted_rows_to_go refuted_rows_to_go_sep). Qed.
Print Assumptions C08_refuted_rows_to_go.

(* non-vacuity of the hypothesis first_hazard = 0: histories with skips inside an iMCU row, across several
   iMCU rows, odd counts under merged upsampling, and past the bottom *)
Example C08_no_hazard_examples :
  first_hazard (wg 8 2 100 false) a_init [Skip 5; Read 1; Skip 10; Read 3; Skip 33; Read 2; Skip 200; Read 5] = 0 /\
  first_hazard (wg 8 2 101 true) a_init [Read 3; Skip 3; Read 2; Skip 40; Read 7; Skip 1; Read 9; Skip 500] = 0.
Proof. exact (conj example_no_hazard_sep example_no_hazard_merged). Qed.

(* Context (fancy h2v2 / h1v2) main controller with its funny-pointer lists: modelled executably (run_c) and tied
   to the code by correspondence.  The statement over ALL context geometries is kept visible and is REFUTED by a
   max_v_samp_factor = 4 geometry (hazard 6: the skip code recognises "next iMCU row already decoded" only 0/1
   rows before the boundary); the witness is replayed on the implementation by the check. *)
Definition C08_skip_read_equals_full_context_full : Prop :=
  forall g ops, ctx_geom_ok g -> Forall op_nonneg ops ->
  let res := run_c g (c_init g) ops in
  c_scan (fst res) = Z.min (gH g) (total_requested ops) /\
  Forall (fun yp => snd yp = ideal_c g (fst yp)) (delivered (snd res)).

Theorem C08_skip_read_equals_full_context_refuted : ~ C08_skip_read_equals_full_context_full.
Proof. exact skip_read_equals_full_context_refuted. Qed.
Print Assumptions C08_skip_read_equals_full_context_refuted.

Theorem C08_refuted_context_v4 :
  let ops := [Read 29; Skip 40; Read 5] in
  first_hazard_c g141212 (c_init g141212) ops = 6 /\
  In (69, (50, 51)) (delivered (snd (run_c g141212 (c_init g141212) ops))) /\
  ideal_c g141212 69 = (34, 35).
Proof. exact refuted_context_v4. Qed.
Print Assumptions C08_refuted_context_v4.

(* The context controller with max_v_samp_factor = 2 (fancy 4:2:0 / 4:4:0, the common case): for ALL geometries
   (every min_DCT_scaled_size >= 2, every height) and ALL finite lists of Read n / Skip n ops the run behaves like a
   full decode: output_scanline ends at min(height, sum requested); every op starts where the previous one ended
   and ends at min(height, start + n); Skip returns exactly end - start; every Read call returns >= 1 rows; every
   delivered row has the provenance (centre sample row, context sample row above/below with the top/bottom edge
   replication of set_wraparound_pointers / set_bottom_pointers) of the same row of a full decode.
   No hazard hypothesis: the jump branches of jpeg_skip_scanlines' context path are correct for v = 2.
   ctx_v2_ok is the geometry jdmaster.c / jdinput.c produce for such a frame (checked by ctx_v2_okb on every
   frame of the correspondence). *)
Theorem C08_skip_read_equals_full_context_v2 :
  forall g ops, ctx_v2_ok g -> Forall op_nonneg ops ->
  let res := run_c g (c_init g) ops in
  c_scan (fst res) = Z.min (gH g) (total_requested ops) /\
  trace_okc g 0 ops (snd res) /\
  Forall (fun yp => snd yp = ideal_c g (fst yp) /\ 0 <= fst yp < gH g) (delivered (snd res)).
Proof. exact skip_read_equals_full_context_v2. Qed.
Print Assumptions C08_skip_read_equals_full_context_v2.

Example C08_ctx_v2_ok_examples :
  ctx_v2_ok (mkGeom 8 2 53 4 false true 1 27 32 true 2 53 false false false false) /\
  ctx_v2_ok (mkGeom 12 2 80 4 false true 1 40 48 true 2 80 false false false false) /\
  ctx_v2_ok (mkGeom 2 2 7 2 false true 1 4 4 true 1 4 false false false false).
Proof.
  destruct ctx_v2_ok_examples as (A & B & C).
  exact (conj (ctx_v2_okb_sound _ A) (conj (ctx_v2_okb_sound _ B) (ctx_v2_okb_sound _ C))).
Qed.

Example C08_context_controller_examples :
  ctx_run_okb g420 [Read 53] = true /\
  ctx_run_okb g420 [Skip 15; Read 1; Skip 17; Read 20] = true /\
  ctx_run_okb g420 [Read 14; Skip 1; Read 1; Skip 16; Read 2; Skip 19; Read 1] = true /\
  ctx_run_okb g420 [Skip 5; Skip 9; Skip 2; Read 3; Skip 17; Skip 1; Read 30] = true /\
  ctx_run_okb g420x12 [Read 23; Skip 1; Read 1; Skip 24; Read 5; Skip 3; Skip 100] = true /\
  ctx_run_okb g420x12 [Skip 22; Skip 2; Skip 1; Read 2; Skip 23; Read 40] = true.
Proof. exact ctx_examples. Qed.

Example C08_context_v4_safe_example :
  ctx_run_okb g141212 [Read 31; Skip 40; Read 5] = true /\
  first_hazard_c g141212 (c_init g141212) [Read 31; Skip 40; Read 5] = 0 /\
  first_hazard_c g420 (c_init g420) [Read 14; Skip 1; Read 1; Skip 16; Read 2; Skip 19; Read 1] = 0.
Proof. exact ctx_examples_v4. Qed.
