(* C20 -- planar YUV geometry: property theorems only (statement + exact + Print Assumptions).
   The model (model/Geometry.v) is the hand-written control flow of tj3YUVPlaneWidth/Height,
   tj3YUVBufSize, tj3YUVPlaneSize and of the four unified-buffer functions over the expressions
   that tools/gen_Subsamp.py translates from src/turbojpeg.[ch] on every run (gen/GenSubsamp.v).
   Specification vocabulary (proofs/GeometryProofs.v): cdiv a b = ceil(a/b), pad_up a b = cdiv a b * b,
   spec_pw/spec_ph = published plane dimensions, spec_stride = pad_up pw align,
   plane_bytes = stride * ph, spec_off = documented plane offsets, spec_total = sum of plane_bytes. *)
From Coq Require Import List ZArith.
From LJT Require Import lib.Sweep lib.PadLemmas gen.GenSubsamp model.Geometry model.YuvCopy model.RawData model.JCopy proofs.GeometryProofs proofs.YuvCopyProofs proofs.RawDataProofs
  proofs.EdgeEventsProofs proofs.JCopyProofs.
Import ListNotations.
Local Open Scope Z_scope.

(* (1) plane dimensions, for every w, h >= 1 and the 7 subsampling levels *)
Theorem C20_plane_dims : plane_dims_statement.
Proof. exact plane_dims_proof. Qed.
Print Assumptions C20_plane_dims.

(* (2) buffer size = sum of padded planes; documented offsets; planes disjoint and inside *)
Theorem C20_bufsize_is_sum : bufsize_is_sum_statement.
Proof. exact bufsize_is_sum_proof. Qed.
Print Assumptions C20_bufsize_is_sum.

Theorem C20_planesize : planesize_statement.
Proof. exact planesize_spec. Qed.
Print Assumptions C20_planesize.

(* (3) the error value is returned exactly when a result leaves its C type *)
Theorem C20_overflow_checks : overflow_checks_statement.
Proof. exact overflow_checks_proof. Qed.
Print Assumptions C20_overflow_checks.

(* (4) what the unified-buffer functions pass to the per-plane functions; never a signed overflow *)
Theorem C20_unified_eq_planes : unified_eq_planes_statement.
Proof. exact unified_eq_planes_proof. Qed.
Print Assumptions C20_unified_eq_planes.

(* (5) TJSCALED = ceil(dim * num / denom) for every factor of the table in the source *)
Theorem C20_scaled_dims : scaled_dims_statement.
Proof. exact scaled_dims_proof. Qed.
Print Assumptions C20_scaled_dims.

(* alignments accepted by IS_POW2 are exactly the powers of two *)
Theorem C20_is_pow2 : forall a, 1 <= a -> (IS_POW2_c a = true <-> exists k, 0 <= k /\ a = 2 ^ k).
Proof. exact is_pow2_iff. Qed.
Print Assumptions C20_is_pow2.

(* getSubsamp(): sampling factors written in a standard or non-standard way denote a level only through their ratios,
   and libjpeg's component sizes for them are the published plane sizes of that level (factors 1..4: finite sweep) *)
Theorem C20_subsamp_ratio : subsamp_ratio_statement.
Proof. exact subsamp_ratio_proof. Qed.
Print Assumptions C20_subsamp_ratio.

Example C20_ex_getSubsamp :
  getSubsamp3 2 1 1 1 1 1 = TJSAMP_422 /\ getSubsamp3 2 2 1 2 1 2 = TJSAMP_422 /\ getSubsamp3 2 2 2 1 2 1 = TJSAMP_440 /\
  getSubsamp3 3 1 3 1 3 1 = TJSAMP_444 /\ getSubsamp3 4 1 1 1 1 1 = TJSAMP_411 /\ getSubsamp3 1 4 1 1 1 1 = TJSAMP_441 /\
  getSubsamp3 4 2 1 2 1 2 = TJSAMP_UNKNOWN /\ getSubsamp3 2 2 2 2 2 2 = TJSAMP_UNKNOWN /\ getSubsamp3 2 1 1 1 2 1 = TJSAMP_UNKNOWN.
Proof. exact ex_getSubsamp. Qed.

(* (6) copy loops of the per-plane functions (model/YuvCopy.v): for every subsampling level, component, image size and EVERY
   stride (NULL array, 0, positive, negative, shorter than a row) every byte tj3EncodeYUVPlanes8 / tj3DecompressToYUVPlanes8
   write and tj3DecodeYUVPlanes8 / tj3CompressFromYUVPlanes8 read lies inside the plane's extent, and no row-pointer array is
   indexed out of range (acc_ok excludes the None outcome); compress: the padded intermediate row holds the plane row *)
Theorem C20_copy_loops_safe : copy_loops_safe_statement.
Proof. exact copy_loops_safe_proof. Qed.
Print Assumptions C20_copy_loops_safe.

(* ... and tj3EncodeYUVPlanes8 writes every sample position of the plane: the image produced has exactly pw x ph samples *)
Theorem C20_encode_writes_whole_plane : forall strides stride i w h s r c,
  valid_samp s -> valid_dim w -> valid_dim h -> 0 <= i < 3 -> 0 <= r < spec_ph i h s -> 0 <= c < spec_pw i w s ->
  exists l, enc_access strides stride i w h s = Some l /\ In (r * enc_rowstep strides stride (spec_pw i w s) + c) l.
Proof. exact enc_access_complete. Qed.
Print Assumptions C20_encode_writes_whole_plane.

(* that extent is exactly the tj3YUVPlaneSize bytes starting at the lowest-addressed row *)
Theorem C20_extent_is_planesize : forall ulbits szbits strides stride i w h s,
  valid_abi ulbits szbits -> valid_samp s -> valid_dim w -> valid_dim h -> 0 <= i < ncomp s -> INT_MIN < stride <= INT_MAX ->
  spec_pw i w s <= INT_MAX -> spec_ph i h s <= INT_MAX ->
  let e := enc_rowstep strides stride (spec_pw i w s) in
  let size := Z.abs e * (spec_ph i h s - 1) + spec_pw i w s in
  tj3YUVPlaneSize ulbits szbits i w (if strides =? 0 then 0 else stride) h s =
    Val (if ulong_check ulbits size then 0 else size) /\
  (forall o, in_plane e (spec_pw i w s) (spec_ph i h s) o <-> plane_lo e (spec_ph i h s) <= o < plane_lo e (spec_ph i h s) + size) /\
  (0 <= e -> plane_lo e (spec_ph i h s) = 0) /\ (e < 0 -> plane_lo e (spec_ph i h s) = (spec_ph i h s - 1) * e).
Proof. exact extent_is_planesize. Qed.
Print Assumptions C20_extent_is_planesize.

(* planes packed the tj3YUVBufSize way: accesses to different planes never meet and stay inside the buffer *)
Theorem C20_packed_planes_disjoint : forall w a h s i j oi oj,
  valid_samp s -> valid_dim w -> valid_dim h -> valid_align a -> 0 <= i -> i < j -> j < ncomp s ->
  in_plane (spec_stride i w a s) (spec_pw i w s) (spec_ph i h s) oi ->
  in_plane (spec_stride j w a s) (spec_pw j w s) (spec_ph j h s) oj ->
  0 <= spec_off i w a h s + oi /\ spec_off i w a h s + oi < spec_off j w a h s + oj /\
  spec_off j w a h s + oj < spec_total w a h s.
Proof. exact packed_planes_disjoint. Qed.
Print Assumptions C20_packed_planes_disjoint.

(* intermediate buffer of tj3DecompressToYUVPlanes8: rows MAX(iw, pw) wide tile it *)
Theorem C20_dtp_tmpbuf_rows : forall iw pw th j c, 0 <= iw -> 0 <= pw -> 0 <= j < th -> 0 <= c < Z.max iw pw ->
  dtp_tmpstep iw pw = Z.max iw pw /\ dtp_tmpsize iw pw th = Z.max iw pw * th /\
  0 <= j * dtp_tmpstep iw pw + c < dtp_tmpsize iw pw th /\
  j * dtp_tmpstep iw pw + c < (j + 1) * dtp_tmpstep iw pw.
Proof. exact dtp_tmpbuf_rows. Qed.
Print Assumptions C20_dtp_tmpbuf_rows.

Example C20_ex_copy_loops :
  enc_access 1 (-5) 0 3 2 TJSAMP_444 = Some [0; 1; 2; -5; -4; -3] /\
  enc_access 0 77 1 5 3 TJSAMP_420 = Some [0; 1; 2; 3; 4; 5] /\
  dec_access 1 2 0 3 2 TJSAMP_444 = Some [0; 1; 2; 2; 3; 4] /\
  dtp_usetmpbuf 16 16 TJSAMP_420 1 1 = false /\ dtp_usetmpbuf 17 16 TJSAMP_420 1 1 = true /\
  dtp_usetmpbuf 8 8 TJSAMP_422 1 8 = true /\ dtp_tmp_geom 0 8 8 TJSAMP_422 1 8 = (2, 1, 2) /\
  dtp_access 1 0 1 17 16 TJSAMP_420 1 1 = Some (map (fun k => k) (zrange 0 72)) /\
  cfp_usetmpbuf 16 8 TJSAMP_422 = false /\ cfp_usetmpbuf 9 8 TJSAMP_422 = true /\
  in_plane (-5) 3 2 (-5) /\ in_plane (-5) 3 2 2 /\ ~ in_plane (-5) 3 2 3.
Proof. exact ex_copy_loops. Qed.

(* (7) the library-side quantities the copy-loop model assumes are those of the library's own statements (generated from
   jutils.c, jdinput.c, jcmaster.c, jdmaster.c, jdcoefct.c): blocks per component, output size, scaled block size, rows per call *)
Theorem C20_library_tie : library_tie_statement.
Proof. exact library_tie_proof. Qed.
Print Assumptions C20_library_tie.

(* jpeg_read_raw_data / jpeg_write_raw_data as called by the per-plane functions: exactly one iMCU row per call, never
   JERR_BUFFER_SIZE (`max_lines < lines_per_iMCU_row`) nor JWRN_TOO_MUCH_DATA, ceil(height / lines) calls *)
Theorem C20_raw_protocols : forall maxv d height, 1 <= maxv -> 1 <= d -> 0 <= height ->
  dtp_protocol height maxv d = RawOk (cdiv height (maxv * d)) /\
  cfp_protocol height maxv = RawOk (cdiv height (maxv * DCTSIZE)).
Proof. exact raw_protocols_ok. Qed.
Print Assumptions C20_raw_protocols.

(* tj3CompressFromYUVPlanes8, edge replication: all plane reads are in range and every intermediate cell the codec reads
   was written in the same iteration *)
Theorem C20_cfp_edge_replication : cfp_edge_statement.
Proof. exact cfp_edge_proof. Qed.
Print Assumptions C20_cfp_edge_replication.

(* ... at event level: for every image, level, component and iteration, the program-order event list of the iteration (copies,
   column replication, row replication, the codec's reads) passes the initialised-cell checker of model/RawData.v *)
Theorem C20_cfp_events_checked : cfp_events_statement.
Proof. exact cfp_events_proof. Qed.
Print Assumptions C20_cfp_events_checked.

(* jutils.c jcopy_sample_rows (transcribed): rows source_row+j -> dest_row+j, j < num_rows, num_cols bytes each *)
Theorem C20_jcopy_sample_rows : jcopy_statement.
Proof. exact jcopy_proof. Qed.
Print Assumptions C20_jcopy_sample_rows.

(* scratch buffers of tj3EncodeYUVPlanes8 / tj3DecodeYUVPlanes8: rows inside the malloc'ed block at any alignment slack,
   wide enough, no unsigned-int wrap in the size computations *)
Theorem C20_scratch_buffers : scratch_statement.
Proof. exact scratch_proof. Qed.
Print Assumptions C20_scratch_buffers.

Example C20_ex_rawdata :
  dtp_protocol 39 2 8 = RawOk 3 /\ cfp_protocol 35 4 = RawOk 2 /\
  ljg_min_dct 3 8 = 3 /\ ljg_out_w 227 3 8 = 86 /\ ljg_wib 1 35 TJSAMP_420 = 3 /\ ljg_hib 0 39 TJSAMP_420 = 5 /\
  ljg_rows_in_call 2 3 5 2 8 = 8 /\ ljg_rows_in_call 1 3 5 2 8 = 16 /\
  cfp_iteration_ok 36 40 40 40 16 32 = true /\ cfp_iteration_ok 18 20 24 24 8 16 = true /\ cfp_iteration_ok 3 3 8 8 8 0 = true /\
  cfp_iteration_ok 9 3 8 8 8 0 = false /\
  scratch_ok (enc_tmp_size 3 2 1 2) (enc_tmp_rows 2) 64 31 (enc_tmp_rowoff 3 2 1) = true /\
  scratch_ok (enc_tmp_size 3 2 1 2) (enc_tmp_rows 2) 64 33 (enc_tmp_rowoff 3 2 1) = false.
Proof. exact ex_rawdata. Qed.

(* non-vacuity: the hypotheses are satisfiable and the functions compute the published numbers *)
Example C20_ex_valid_args : valid_samp TJSAMP_420 /\ valid_samp TJSAMP_GRAY /\ valid_samp TJSAMP_411 /\ valid_samp TJSAMP_441 /\
  valid_dim 35 /\ valid_dim 2147483647 /\ valid_align 1 /\ valid_align 4 /\ valid_align 1073741824 /\
  valid_abi 64 64 /\ valid_abi 32 32 /\ valid_abi 32 64 /\ In uEncodeYUV8 unified_fns /\ In (3, 8) sf_tbl.
Proof. exact ex_valid_args. Qed.

Example C20_ex_420 :
  tj3YUVPlaneWidth 0 35 TJSAMP_420 = 36 /\ tj3YUVPlaneWidth 1 35 TJSAMP_420 = 18 /\
  tj3YUVPlaneHeight 0 39 TJSAMP_420 = 40 /\ tj3YUVPlaneHeight 2 39 TJSAMP_420 = 20 /\
  tj3YUVBufSize 64 64 35 4 39 TJSAMP_420 = 2240 /\
  tj3YUVPlaneSize 64 64 1 35 20 39 TJSAMP_420 = Val 398 /\
  unified_layout uDecompressToYUV8 35 4 39 TJSAMP_420 = ULayout [Some 0; Some 1440; Some 1840] [36; 20; 20] /\
  unified_layout uCompressFromYUV8 35 4 39 TJSAMP_GRAY = ULayout [Some 0; None; None] [36; 0; 0].
Proof. exact ex_420_35x39_align4. Qed.

Example C20_ex_411_441 :
  tj3YUVPlaneWidth 0 41 TJSAMP_411 = 44 /\ tj3YUVPlaneWidth 1 41 TJSAMP_411 = 11 /\
  tj3YUVPlaneHeight 0 41 TJSAMP_441 = 44 /\ tj3YUVPlaneHeight 1 41 TJSAMP_441 = 11 /\
  tj3YUVBufSize 64 64 41 8 35 TJSAMP_411 = 48 * 35 + 2 * 16 * 35 /\
  tj3YUVPlaneWidth 1 41 TJSAMP_GRAY = 0.
Proof. exact ex_411_441. Qed.

(* boundaries of the checks (the first five inputs overflowed an int before the fix: commits f43f089, ce042a2 in /repo) *)
Example C20_ex_overflow_boundaries :
  tj3YUVBufSize 64 64 2147483647 2 1 TJSAMP_444 = 0 /\
  tj3YUVBufSize 64 64 1073741825 1073741824 1 TJSAMP_444 = 0 /\
  tj3YUVBufSize 64 64 2147483647 1 1 TJSAMP_444 = 3 * 2147483647 /\
  tj3YUVPlaneSize 64 64 0 10 INT_MIN 10 TJSAMP_444 = Val 0 /\
  unified_layout uEncodeYUV8 2147483647 1 1 TJSAMP_444 = UErr /\
  unified_layout uEncodeYUV8 2147483647 1073741824 1 TJSAMP_422 = UErr /\
  tj3YUVPlaneWidth 0 2147483647 TJSAMP_422 = 0 /\ tj3YUVPlaneWidth 1 2147483647 TJSAMP_422 = 1073741824 /\
  tj3YUVPlaneWidth 0 2147483646 TJSAMP_422 = 2147483646 /\
  tj3YUVBufSize 32 32 65536 1 65536 TJSAMP_444 = 0 /\ tj3YUVBufSize 64 64 65536 1 65536 TJSAMP_444 = 12884901888 /\
  unified_layout uDecodeYUV8 65536 1 32768 TJSAMP_444 = UErr /\
  unified_layout uDecodeYUV8 65536 1 32767 TJSAMP_444 =
    ULayout [Some 0; Some 2147418112; Some 4294836224] [65536; 65536; 65536].
Proof. exact ex_overflow_boundaries. Qed.

Example C20_ex_scaled : scaled_dim 227 3 8 = Val 86 /\ scaled_dim 149 15 8 = Val 280 /\ scaled_dim 65535 2 1 = Val 131070 /\
  dtp_dctsize 3 8 = 3 /\ dtp_dctsize 2 1 = 16.
Proof. exact ex_scaled. Qed.
