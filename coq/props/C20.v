(* C20 -- planar YUV geometry: property theorems only (statement + exact + Print Assumptions).
   The model (model/Geometry.v) is the hand-written control flow of tj3YUVPlaneWidth/Height,
   tj3YUVBufSize, tj3YUVPlaneSize and of the four unified-buffer functions over the expressions
   that tools/gen_Subsamp.py translates from src/turbojpeg.[ch] on every run (gen/GenSubsamp.v).
   Specification vocabulary (proofs/GeometryProofs.v): cdiv a b = ceil(a/b), pad_up a b = cdiv a b * b,
   spec_pw/spec_ph = published plane dimensions, spec_stride = pad_up pw align,
   plane_bytes = stride * ph, spec_off = documented plane offsets, spec_total = sum of plane_bytes. *)
From Coq Require Import List ZArith.
From LJT Require Import lib.PadLemmas gen.GenSubsamp model.Geometry proofs.GeometryProofs.
Import ListNotations.
Local Open Scope Z_scope.

(* (1) plane dimensions, for every w, h >= 1 and the 7 subsampling levels *)
Theorem C20_plane_dims : plane_dims_statement.
Proof. exact plane_dims_proof. Qed.
Print Assumptions C20_plane_dims.

(* (2) buffer size = sum of padded planes; documented offsets; planes disjoint and inside *)
Theorem C20_bufsize_is_sum : bufsize_is_sum_statement.
Proof. exact bufsize_is_sum_proof. Qed.
Print Assumptions C20_bufsize_is_sum.

Theorem C20_planesize : planesize_statement.
Proof. exact planesize_spec. Qed.
Print Assumptions C20_planesize.

(* (3) the error value is returned exactly when a result leaves its C type *)
Theorem C20_overflow_checks : overflow_checks_statement.
Proof. exact overflow_checks_proof. Qed.
Print Assumptions C20_overflow_checks.

(* (4) what the unified-buffer functions pass to the per-plane functions; never a signed overflow *)
Theorem C20_unified_eq_planes : unified_eq_planes_statement.
Proof. exact unified_eq_planes_proof. Qed.
Print Assumptions C20_unified_eq_planes.

(* (5) TJSCALED = ceil(dim * num / denom) for every factor of the table in the source *)
Theorem C20_scaled_dims : scaled_dims_statement.
Proof. exact scaled_dims_proof. Qed.
Print Assumptions C20_scaled_dims.

(* alignments accepted by IS_POW2 are exactly the powers of two *)
Theorem C20_is_pow2 : forall a, 1 <= a -> (IS_POW2_c a = true <-> exists k, 0 <= k /\ a = 2 ^ k).
Proof. exact is_pow2_iff. Qed.
Print Assumptions C20_is_pow2.

(* getSubsamp(): sampling factors written in a standard or non-standard way denote a level only through their ratios,
   and libjpeg's component sizes for them are the published plane sizes of that level (factors 1..4: finite sweep) *)
Theorem C20_subsamp_ratio : subsamp_ratio_statement.
Proof. exact subsamp_ratio_proof. Qed.
Print Assumptions C20_subsamp_ratio.

Example C20_ex_getSubsamp :
  getSubsamp3 2 1 1 1 1 1 = TJSAMP_422 /\ getSubsamp3 2 2 1 2 1 2 = TJSAMP_422 /\ getSubsamp3 2 2 2 1 2 1 = TJSAMP_440 /\
  getSubsamp3 3 1 3 1 3 1 = TJSAMP_444 /\ getSubsamp3 4 1 1 1 1 1 = TJSAMP_411 /\ getSubsamp3 1 4 1 1 1 1 = TJSAMP_441 /\
  getSubsamp3 4 2 1 2 1 2 = TJSAMP_UNKNOWN /\ getSubsamp3 2 2 2 2 2 2 = TJSAMP_UNKNOWN /\ getSubsamp3 2 1 1 1 2 1 = TJSAMP_UNKNOWN.
Proof. exact ex_getSubsamp. Qed.

(* non-vacuity: the hypotheses are satisfiable and the functions compute the published numbers *)
Example C20_ex_valid_args : valid_samp TJSAMP_420 /\ valid_samp TJSAMP_GRAY /\ valid_samp TJSAMP_411 /\ valid_samp TJSAMP_441 /\
  valid_dim 35 /\ valid_dim 2147483647 /\ valid_align 1 /\ valid_align 4 /\ valid_align 1073741824 /\
  valid_abi 64 64 /\ valid_abi 32 32 /\ valid_abi 32 64 /\ In uEncodeYUV8 unified_fns /\ In (3, 8) sf_tbl.
Proof. exact ex_valid_args. Qed.

Example C20_ex_420 :
  tj3YUVPlaneWidth 0 35 TJSAMP_420 = 36 /\ tj3YUVPlaneWidth 1 35 TJSAMP_420 = 18 /\
  tj3YUVPlaneHeight 0 39 TJSAMP_420 = 40 /\ tj3YUVPlaneHeight 2 39 TJSAMP_420 = 20 /\
  tj3YUVBufSize 64 64 35 4 39 TJSAMP_420 = 2240 /\
  tj3YUVPlaneSize 64 64 1 35 20 39 TJSAMP_420 = Val 398 /\
  unified_layout uDecompressToYUV8 35 4 39 TJSAMP_420 = ULayout [Some 0; Some 1440; Some 1840] [36; 20; 20] /\
  unified_layout uCompressFromYUV8 35 4 39 TJSAMP_GRAY = ULayout [Some 0; None; None] [36; 0; 0].
Proof. exact ex_420_35x39_align4. Qed.

Example C20_ex_411_441 :
  tj3YUVPlaneWidth 0 41 TJSAMP_411 = 44 /\ tj3YUVPlaneWidth 1 41 TJSAMP_411 = 11 /\
  tj3YUVPlaneHeight 0 41 TJSAMP_441 = 44 /\ tj3YUVPlaneHeight 1 41 TJSAMP_441 = 11 /\
  tj3YUVBufSize 64 64 41 8 35 TJSAMP_411 = 48 * 35 + 2 * 16 * 35 /\
  tj3YUVPlaneWidth 1 41 TJSAMP_GRAY = 0.
Proof. exact ex_411_441. Qed.

(* boundaries of the checks (the first five inputs overflowed an int before the fix: commits f43f089, ce042a2 in /repo) *)
Example C20_ex_overflow_boundaries :
  tj3YUVBufSize 64 64 2147483647 2 1 TJSAMP_444 = 0 /\
  tj3YUVBufSize 64 64 1073741825 1073741824 1 TJSAMP_444 = 0 /\
  tj3YUVBufSize 64 64 2147483647 1 1 TJSAMP_444 = 3 * 2147483647 /\
  tj3YUVPlaneSize 64 64 0 10 INT_MIN 10 TJSAMP_444 = Val 0 /\
  unified_layout uEncodeYUV8 2147483647 1 1 TJSAMP_444 = UErr /\
  unified_layout uEncodeYUV8 2147483647 1073741824 1 TJSAMP_422 = UErr /\
  tj3YUVPlaneWidth 0 2147483647 TJSAMP_422 = 0 /\ tj3YUVPlaneWidth 1 2147483647 TJSAMP_422 = 1073741824 /\
  tj3YUVPlaneWidth 0 2147483646 TJSAMP_422 = 2147483646 /\
  tj3YUVBufSize 32 32 65536 1 65536 TJSAMP_444 = 0 /\ tj3YUVBufSize 64 64 65536 1 65536 TJSAMP_444 = 12884901888 /\
  unified_layout uDecodeYUV8 65536 1 32768 TJSAMP_444 = UErr /\
  unified_layout uDecodeYUV8 65536 1 32767 TJSAMP_444 =
    ULayout [Some 0; Some 2147418112; Some 4294836224] [65536; 65536; 65536].
Proof. exact ex_overflow_boundaries. Qed.

Example C20_ex_scaled : scaled_dim 227 3 8 = Val 86 /\ scaled_dim 149 15 8 = Val 280 /\ scaled_dim 65535 2 1 = Val 131070 /\
  dtp_dctsize 3 8 = 3 /\ dtp_dctsize 2 1 = 16.
Proof. exact ex_scaled. Qed.
