(* C15 -- independent instances may be used concurrently from different threads.
   Property theorems only: statement + exact + Print Assumptions. *)
From Coq Require Import List ZArith String Bool.
From LJT Require Import model.Threads model.Globals model.ErrState gen.GenGlobals gen.GenGlobalsBin proofs.ThreadsProofs proofs.GlobalsProofs proofs.GlobalsBinProofs proofs.ErrStateProofs model.DestFlow proofs.DestFlowProofs model.ErrCode proofs.ErrCodeProofs.
Import ListNotations.

(* (1) noninterference -- generic: ALL programs, ALL interleavings, unbounded.
   If no step writes a Glob/Env location and steps of different threads overlap only
   on Glob/Env locations, then in every interleaving each thread observes at each of
   its steps exactly the values of its solo run, the final value of every location it
   touches is the one of its solo run, unwritten locations keep their initial value,
   and no two steps of different threads conflict (w/w or r/w) on any location. *)
Theorem C15_noninterference :
  forall p, no_shared_writes p -> private_disjoint p ->
  forall tr, is_interleaving p tr -> forall s0,
    solo_equivalent p tr s0 /\ conflict_free p.
Proof. exact noninterference_all. Qed.
Print Assumptions C15_noninterference.

(* is_interleaving is EXACTLY "obtained by repeatedly scheduling a pending thread" *)
Theorem C15_interleavings_are_the_merges : forall p tr, Merge p tr <-> is_interleaving p tr.
Proof. exact (fun p tr => conj (merge_is_interleaving p tr) (interleaving_is_merge tr p)). Qed.
Print Assumptions C15_interleavings_are_the_merges.

(* (2) over the GENERATED inventory of the current tree: every object with static
   storage duration is const, thread-local or never written, except the allow-listed
   dummy buffer whose generated use sites show that its byte is neither read nor
   written while its only alias is live; the thread-local objects are exactly errStr,
   simd_support, simd_huffman; no .asm file has data outside SEG_TEXT/SEG_CONST. *)
Theorem C15_globals_are_benign :
  (forall g, In g inventory -> benign_or_allowed g) /\
  tls_keys = expected_tls /\
  asm_writable_data = [].
Proof. exact globals_are_benign_proof. Qed.
Print Assumptions C15_globals_are_benign.

(* (2b) the static-storage part of "the C text's footprint is what the inventory says" as a CHECKED tie: the AST
   inventory agrees with the data symbols of the archives built from the same tree (readelf, regenerated every
   run, incl. the NASM objects): every binary data symbol is an inventory entry of a compatible class, every
   non-empty writable section of every member consists of those named symbols, and the non-const objects of the
   library are EXACTLY the ten listed ones, each with a justification made of checked facts (thread-local in AST
   and in .tdata; never written in the AST and placed in a read-only section by the compiler; never written in
   the AST, writable only for load-time relocation; dummy buffer with dummy_ok use sites). *)
Theorem C15_statics_tie :
  (forall b, In b bin_symbols -> bin_sym_ok b = true) /\
  (forall g, In g inventory -> inv_entry_in_bin g = true) /\
  (forall w, In w bin_wsections -> wsec_ok w = true) /\
  nonconst_table = expected_nonconst /\
  (forall g, In g inventory -> g_cls g <> Const -> justify g <> J_None).
Proof. exact statics_tie_proof. Qed.
Print Assumptions C15_statics_tie.

(* (3) environment / process-global libc state: boundary fact *)
Theorem C15_env_sites :
  filter is_env_site libc_sites = expected_env_sites /\
  (forall s, In s libc_sites -> is_env_writer (l_callee s) = true ->
     (l_fn s = "PUTENV_S"%string /\ l_file s = "src/jinclude.h"%string) \/
     (l_fn s = "processFlags"%string /\ l_file s = "src/turbojpeg.c"%string /\
      String.prefix "flags & TJFLAG_FORCE" (l_guard s) = true)) /\
  (forall c f, In (c, f) env_writer_callers ->
     f = "processFlags"%string /\ String.prefix "tj3" c = false /\ In c legacy_entry_points) /\
  (forall s, In s libc_sites -> is_env_site s = false -> In (l_callee s, l_fn s) other_libc_allowed).
Proof. exact env_sites_proof. Qed.
Print Assumptions C15_env_sites.

(* (3b) error-message ownership (model of the error state of src/turbojpeg.c, model/ErrState.v): after a failure with
   message m on instance i, whatever happens on OTHER instances and in instance-less functions of the same thread
   (failures, queries), tj3GetErrorStr(i) returns m. *)
Theorem C15_errstr_ownership :
  forall pre i m mid s,
    forallb (fun o => negb (touches_inst i o)) mid = true ->
    exists rs, snd (erun (pre ++ [EFail i m] ++ mid ++ [EGet i]) s) = (rs ++ [m])%list.
Proof. exact errstr_ownership_proof. Qed.
Print Assumptions C15_errstr_ownership.

(* nested use (a tj3Transform custom filter calls TurboJPEG on instance x while the call on y is active): the inner call's
   events lie between the outer call's entry and its failure; afterwards each instance still reports its OWN message *)
Theorem C15_errstr_nested :
  forall pre y x m mx inner2 mid s,
    x <> y ->
    forallb (fun o => negb (touches_inst x o) && negb (touches_inst y o)) inner2 = true ->
    forallb (fun o => negb (touches_inst x o) && negb (touches_inst y o)) mid = true ->
    exists rs,
      snd (erun (pre ++ [ECall y] ++ [EFail x mx] ++ inner2 ++ [EFail y m] ++ mid ++ [EGet y; EGet x]) s) = (rs ++ [m; mx])%list.
Proof. exact errstr_nested_proof. Qed.
Print Assumptions C15_errstr_nested.

(* ... and across threads: error-state operations of different threads on exclusive instances are steps that satisfy
   the noninterference hypotheses, so in every interleaving every query observes what it observes in the solo run *)
Theorem C15_errstate_threads :
  forall ths, einst_exclusive ths ->
  forall tr, is_interleaving (eprog 0 ths) tr ->
  forall s0, solo_equivalent (eprog 0 ths) tr s0 /\ conflict_free (eprog 0 ths).
Proof. exact errstate_threads_proof. Qed.
Print Assumptions C15_errstate_threads.

(* the transition rules of model/ErrState.v are the ones of the C text: generated write sites of
   tjinstance.errStr / isInstanceError (the query functions write neither; set_instance_error stores the message and
   raises the flag and is called exactly by my_output_message; whoever raises the flag stores a message; the flag
   only receives 0/1; tj3Init initialises the string) *)
Theorem C15_source_errstate : errstate_source_b = true.
Proof. exact errstate_source_check. Qed.
Print Assumptions C15_source_errstate.

(* (3b') error CODE ownership (model/ErrCode.v: jerr.warning as src/turbojpeg.c has it -- cleared at every API entry, cleared by
   THROW* and my_error_exit, set by my_emit_message for a warning): tj3GetErrorCode of an instance depends only on that
   instance's own most recent failing call, whatever happens on other instances or in instance-less functions ... *)
Theorem C15_errcode_ownership :
  forall pre i w mid s,
    forallb (fun o => negb (ctouches i o)) mid = true ->
    exists rs, snd (crun (pre ++ [CFail i w] ++ mid ++ [CCode i]) s) = (rs ++ [code_of w])%list.
Proof. exact errcode_ownership_proof. Qed.
Print Assumptions C15_errcode_ownership.

(* ... under every interleaving of threads on exclusive instances (the steps satisfy the noninterference hypotheses) *)
Theorem C15_errcode_threads :
  forall ths, cinst_exclusive ths ->
  forall tr, is_interleaving (cprog ths) tr ->
  forall s0, solo_equivalent (cprog ths) tr s0 /\ conflict_free (cprog ths).
Proof. exact errcode_threads_proof. Qed.
Print Assumptions C15_errcode_threads.

(* the rules are the C text's (generated write sites of jerr.warning), and the extracted code replay is the thread-model
   replay / for one thread the model crun *)
Theorem C15_source_errcode :
  errcode_source_b = true /\
  (forall tr ls s, (forall l, lget ls l = s l) -> lcreplay tr ls = creplay tr s) /\
  (forall t tr s w, w_rel s w -> creplay (map (pair t) tr) s = snd (crun tr w)).
Proof. exact (conj errcode_source_check (conj lcreplay_correct (fun t tr s w => creplay_is_crun t tr s w))). Qed.
Print Assumptions C15_source_errcode.

(* (3c) the dummy destination buffer installed by tj3Init is replaced before the first byte is emitted: over the GENERATED
   structured call trees of every function of src/turbojpeg.c / turbojpeg-mp.c that can emit JPEG bytes (callees first),
   the static check accepts every tree, and the emitting functions are exactly the expected ones ... *)
Theorem C15_dest_before_emit :
  chk_all [] emit_trees = true /\ map fst emit_trees = expected_emitters.
Proof. exact dest_before_emit_proof. Qed.
Print Assumptions C15_dest_before_emit.

(* ... and the static check is sound for the trace semantics of call trees (any branch choice consistent with the
   identified conditions, any number of loop iterations with fresh condition values, stopping anywhere): started with
   the dummy still installed, an accepted function never reaches an emitting call before jpeg_mem_dest_tj. *)
Theorem C15_dest_check_sound :
  forall safe n s', chk safe (false, []) n = Some s' ->
  forall rho t b, exec safe rho n t b -> tsafe false t = true.
Proof. exact chk_function_safe. Qed.
Print Assumptions C15_dest_check_sound.

(* the replay that the extracted driver runs on the harness's merged event sequence is the thread-model replay, and for
   one thread it is the error-state model *)
Theorem C15_replay_models_agree :
  (forall tr ls s, (forall l, lget ls l = s l) -> lreplay tr ls = replay tr s) /\
  (forall t tr s e, est_rel t s e -> replay (map (pair t) tr) s = snd (erun tr e)).
Proof. exact (conj lreplay_correct (fun t tr s e => replay_is_erun t tr s e)). Qed.
Print Assumptions C15_replay_models_agree.

(* (4) the property in the model, for whatever steps stand for the C calls; its
   hypothesis within_inventory ("the C text's real footprint is what the inventory
   says") is NOT proved about the C text: it is trusted to the translator. *)
Theorem C15_partial : forall nglob mk, C15_full nglob mk.
Proof. exact C15_partial_proof. Qed.
Print Assumptions C15_partial.

(* ---- non-vacuity *)
Example C15_ex_hypotheses_hold : no_shared_writes ex_program /\ private_disjoint ex_program.
Proof. exact ex_hyps. Qed.

Example C15_ex_all_20_interleavings_solo :
  List.length ex_traces = 20%nat /\
  (forall tr, In tr ex_traces -> is_interleaving ex_program tr) /\
  forallb (check_trace ex_program ex_locs ex_s0) ex_traces = true.
Proof. exact (conj ex_twenty (conj ex_traces_interleavings ex_all_solo)). Qed.

(* a process-wide cache written by a step breaks both the hypothesis and the conclusion *)
Example C15_ex_shared_cache_breaks :
  no_shared_writes_b bad_program = false /\
  List.length bad_traces = 20%nat /\
  existsb (fun tr => negb (check_trace bad_program ex_locs ex_s0 tr)) bad_traces = true.
Proof. exact bad_example. Qed.

(* the behaviour before the fix of finding F-C15-2 violates the ownership clause; the fixed model does not *)
Example C15_ex_errstr_old_refuted :
  erun_old true [ENew 1; ENew 2; EFail 1 11; EFail 2 22; EGet 1] est0 = [22%Z] /\
  erun_old false [ENew 0; ENew 1; EFail 0 11; EGet 0; EFail 1 22; EGet 0] est0 = [11%Z; 22%Z] /\
  snd (erun [ENew 1; ENew 2; EFail 1 11; EFail 2 22; EGet 1] est0) = [11%Z] /\
  snd (erun [ENew 0; ENew 1; EFail 0 11; EGet 0; EFail 1 22; EGet 0] est0) = [11%Z; 11%Z].
Proof. exact errstr_old_refuted. Qed.

Example C15_ex_dest_check_rejects :
  chk [] (false, []) (NSeq [NCall 2; NCall 1]) = None /\
  chk [] (false, []) (NSeq [NIf 1 [NCall 1]; NIf 2 [NCall 2]]) = None /\
  chk [] (false, []) (NLoop (NSeq [NIf 1 [NCall 2]; NIf 1 [NCall 1]])) = None /\
  chk [] (false, []) (NSeq [NLoop (NIf 1 [NCall 1]); NIf 1 [NCall 2]]) = None /\
  chk [] (false, []) (NCallF "helper") = None /\
  chk [] (false, []) (NSeq [NIf 1 [NCall 1]; NIf 1 [NCall 2]]) <> None.
Proof. exact chk_rejects. Qed.

Example C15_ex_within_inventory : forall nglob, within_inventory nglob (api_step nglob).
Proof. exact api_step_within. Qed.

Example C15_ex_exclusive : instances_exclusive ex_calls.
Proof. exact ex_calls_exclusive. Qed.

Example C15_ex_inventory_nontrivial :
  Z.ltb 100 n_translation_units = true /\ Nat.ltb 50 (List.length inventory) = true /\
  existsb (fun g => key_eqb (key g) ("src/turbojpeg.c", "", "pf2cs")%string) inventory = true /\
  existsb (fun g => key_eqb (key g) ("src/turbojpeg.c", "_tjInitDecompress", "buffer")%string) inventory = true /\
  existsb (fun g => key_eqb (key g) ("src/jutils.c", "", "jpeg_natural_order")%string) inventory = true.
Proof. exact inventory_nontrivial. Qed.
