(* C01 -- property theorems only: statement + exact + Print Assumptions.
   Model: model/DMarkers.v (marker reader, memory source with fake EOI, initial_setup,
   per_scan_setup, latch_quant_tables, entropy start_pass checks, decode_mcu_slow block loop),
   constants / table / array sizes: gen/GenLimits.v (regenerated from the source each run).
   Every statement quantifies over ALL byte strings (lists of Z in 0..255), all bit strings,
   all valid derived tables. *)
From Coq Require Import List ZArith Bool.
From LJT Require Import gen.GenLimits model.Huff model.DMarkers model.DFastPath model.DProg model.DStream model.DCoef model.DArith proofs.DFastPathProofs proofs.DProgProofs proofs.DStreamProofs
  proofs.DCacheProofs proofs.DCoefProofs proofs.DArithProofs model.DCoefPos proofs.DCoefPosProofs
  proofs.DMarkersProofs proofs.DMarkersScanProofs proofs.DMarkersBlockProofs proofs.DMarkersFastProofs proofs.DMarkersTop.
Import ListNotations.
Local Open Scope Z_scope.

(* generated table: 64 + 16 entries, all < 64 (the padding absorbs k = 64..79) *)
Theorem C01_natural_order_padded :
  length natural_order = 80%nat /\
  Forall (fun v => 0 <= v < 64) natural_order /\
  bound_natural_order = 80 /\ bound_quantval = 64 /\ L_DCTSIZE2 = 64.
Proof. exact natural_order_facts. Qed.
Print Assumptions C01_natural_order_padded.

(* the guards of the C text mirrored by the model (listed in GenLimits.guards) are all present *)
Theorem C01_guards_present : guards_all_present = true.
Proof. exact guards_present_. Qed.
Print Assumptions C01_guards_present.

(* (1) read_markers terminates on every byte string, on a memory source (fk = true) and on a
   suspending source (fk = false), within length/2 + 3 iterations of its marker loop; it ends
   with SOS, EOI, a suspension (never on a memory source) or an error code -- never by lack
   of fuel; every array index formed on the way is inside the declared array. *)
Theorem C01_read_markers_total : forall (data : list Z) (fk : bool), Forall byte data ->
  match read_markers (Nat.div2 (length data) + 3) hdr0 (io0 data fk) with
  | Done r s' => not_continue r /\ step_ok r /\ trace_ok s' /\ (length (real s') <= length data)%nat
  | Susp => fk = false
  | Fail e s' => e <> E_OUT_OF_FUEL /\ trace_ok s'
  end.
Proof. exact read_markers_total_. Qed.
Print Assumptions C01_read_markers_total.

(* ... because every completed marker fetch consumes >= 2 bytes of the buffer or is the fake EOI *)
Theorem C01_marker_fetch_consumes : forall s, inv s ->
  match next_marker s with
  | Done c s' => (length (real s') + 2 <= length (real s))%nat \/ c = M_EOI
  | Susp => fake s = false
  | Fail _ _ => False
  end /\
  match first_marker s with
  | Done c s' => (length (real s') + 2 <= length (real s))%nat \/ c = M_EOI
  | Susp => fake s = false
  | Fail e _ => e <> E_OUT_OF_FUEL
  end.
Proof. exact marker_fetch_consumes_. Qed.
Print Assumptions C01_marker_fetch_consumes.

(* (2)+(3) whatever jpeg_read_header and the first start_input_pass ACCEPT is inside every limit
   the later stages rely on, every table number was checked before use, every table that
   reaches jpeg_make_d_derived_tbl is valid; accepted or not, every index recorded is in range
   and the memory source never suspends. *)
Theorem C01_accepted_bounds : forall data, Forall byte data ->
  match read_and_start data with
  | Done (Started h su si u) s' =>
      let f := h_frame h in let sc := h_scan h in
      1 <= f_nc f <= L_MAX_COMPONENTS /\ Z.of_nat (length (f_comps f)) = f_nc f /\
      Forall comp_bounds (f_comps f) /\
      1 <= f_height f <= L_JPEG_MAX_DIMENSION /\ 1 <= f_width f <= L_JPEG_MAX_DIMENSION /\
      (if f_lossless f then 2 <= f_prec f <= 16 else f_prec f = 8 \/ f_prec f = 12) /\
      1 <= su_maxh su <= L_MAX_SAMP_FACTOR /\ 1 <= su_maxv su <= L_MAX_SAMP_FACTOR /\
      1 <= s_n sc <= L_MAX_COMPS_IN_SCAN /\ Z.of_nat (length (s_cur sc)) = s_n sc /\
      Forall (fun ci => 0 <= ci < f_nc f) (s_cur sc) /\
      0 <= si_blocks si <= L_D_MAX_BLOCKS_IN_MCU /\ Z.of_nat (length (si_member si)) = si_blocks si /\
      Forall (fun m => 0 <= m < s_n sc) (si_member si) /\
      Forall (used_bounds (f_lossless f)) u /\
      trace_ok s'
  | Done (OnlyTables h) s' => trace_ok s'
  | Susp => False
  | Fail e s' => e <> E_OUT_OF_FUEL /\ trace_ok s'
  end.
Proof. exact accepted_bounds_. Qed.
Print Assumptions C01_accepted_bounds.

(* (3) get_dht keeps every table slot well formed (17 count bytes, 256 value bytes, sum <= 256);
   a table accepted by jpeg_make_d_derived_tbl has <= 256 symbols, all bytes, DC categories <= m *)
Theorem C01_dht_accepted_valid :
  (forall h, hdr_ok h -> post (get_dht h) hdr_ok) /\
  (forall bits vals isDC m d, htbl_ok (bits, vals) -> make_d_derived bits vals isDC m = Some d ->
     sumZ (skipn 1 bits) <= 256 /\ (length (d_vals d) <= 256)%nat /\ Forall (fun v => 0 <= v <= 255) (d_vals d) /\
     (isDC = true -> Forall (fun v => 0 <= v <= m) (d_vals d))).
Proof. exact dht_accepted_valid_. Qed.
Print Assumptions C01_dht_accepted_valid.

(* (4) decode_mcu_slow, one block: for every pair of valid derived tables and EVERY bit string
   every store goes to natural_order[k] with k <= 63 + 15 < 80 and lands at a position < 64,
   k strictly increases, at most 64 stores, 64 iterations of fuel always suffice *)
Theorem C01_decode_block_index_safe : forall dct act bs, dtbl_ok dct -> dtbl_ok act ->
  match decode_block dct act bs with
  | BlkDone st _ | BlkSusp st =>
      Forall (fun e => 0 <= kof e <= 63 + 15 /\ kof e < bound_natural_order /\
                       snd (fst e) = nthd natural_order (kof e) (-1) /\ 0 <= snd (fst e) < L_DCTSIZE2) st /\
      desc st /\ (length st <= 64)%nat
  | BlkFuel _ => False
  end.
Proof. exact decode_block_spec. Qed.
Print Assumptions C01_decode_block_index_safe.

(* (4b) the unchecked fast path: decode_mcu uses decode_mcu_fast only when BUFSIZE source bytes per
   block are available.  For tables made by jpeg_make_d_derived_tbl from well-formed DHT slots and
   EVERY bit string one block consumes at most 64 x (17 + 15) bits, and the generated BUFSIZE covers
   twice that many bytes (every FF data byte is followed by a stuffed 00). *)
Theorem C01_fast_path_threshold :
  (forall dbits dvals abits avals dct act bs,
     htbl_ok (dbits, dvals) -> htbl_ok (abits, avals) ->
     make_d_derived dbits dvals true 15 = Some dct -> make_d_derived abits avals false 15 = Some act ->
     match decode_block dct act bs with
     | BlkDone _ rest => (length rest <= length bs)%nat /\
                         Z.of_nat (length bs) - Z.of_nat (length rest) <= L_DCTSIZE2 * 32
     | _ => True
     end) /\
  2 * ((L_DCTSIZE2 * 32) / 8) <= L_BUFSIZE.
Proof. exact (conj block_bits_bound_ fast_path_threshold_). Qed.
Print Assumptions C01_fast_path_threshold.

(* (4c) the UNCHECKED fast path itself (byte-level model of GET_BYTE with FF/00 and marker back-out,
   FILL_BIT_BUFFER_FAST's 6-byte prefetch, HUFF_DECODE_FAST, decode_mcu_fast): whenever decode_mcu may take
   it (>= BUFSIZE * blocks_in_MCU bytes available), for EVERY byte content, every valid table set and every
   register state the MCU is decoded without the register running dry or overflowing 64 bits, and every
   dereferenced index -- incl. the look-ahead byte and the prefetch -- is inside the buffer. *)
Theorem C01_fast_path_safe :
  (forall (tbls : list (dtbl * dtbl)) (src : list Z) (bits0 : list bool),
     Forall tbl_pair_ok tbls -> (1 <= length tbls)%nat -> (length bits0 <= 64)%nat ->
     L_BUFSIZE * Z.of_nat (length tbls) <= Z.of_nat (length src) ->
     exists out s', decode_mcu_fast tbls (fstate0 src bits0) [] = Some (out, s') /\
                    Forall (fun i => 0 <= i < Z.of_nat (length src)) (f_reads s') /\
                    0 <= f_pos s' <= Z.of_nat (length src) /\ (length (f_bits s') <= 64)%nat) /\
  (forall dbits dvals abits avals dct act,
     htbl_ok (dbits, dvals) -> htbl_ok (abits, avals) ->
     make_d_derived dbits dvals true 15 = Some dct -> make_d_derived abits avals false 15 = Some act ->
     tbl_pair_ok (dct, act)).
Proof. exact (conj fast_path_safe_ derived_pair_ok). Qed.
Print Assumptions C01_fast_path_safe.

Example C01_ex_fast_path : ex_fast_check = true.
Proof. exact ex_fast_check_true. Qed.

(* (4d) progressive Huffman decoder (jdphuff.c), for every valid AC table, every band 1 <= Ss <= Se <= 63
   (exactly what start_pass accepts, second theorem), every block content, EOBRUN and bit string:
   decode_mcu_AC_first stores at natural_order[k], k <= Se + 15 < 80; decode_mcu_AC_refine evaluates
   natural_order[k] only for k <= Se + 1 <= 64, writes positions < 64 and newnz_pos[i] with i < 64; the
   coef_bits[][] accesses of start_pass stay inside the 2 * num_components x DCTSIZE2 table; no fuel needed *)
Theorem C01_prog_index_safe : forall t Ss Se, dtbl_ok t -> 1 <= Ss <= Se -> Se <= 63 ->
  (forall Al bs, match ac_first_loop 64 t Se Al Ss bs [] [] with
              | PDone e tr _ _ => tr_ok tr /\ 0 <= e | PSusp tr => tr_ok tr | PFuel _ => False end) /\
  (forall Al eobrun blk bs, match ac_refine_block t Ss Se Al eobrun blk bs with
                            | RDone _ _ _ tr => tr_ok tr | RSusp tr => tr_ok tr | RFuel _ => False end) /\
  (forall nc cindex, 0 <= cindex < nc -> tr_ok (coef_bits_trace nc cindex Ss Se)).
Proof. exact prog_index_safe_. Qed.
Print Assumptions C01_prog_index_safe.

Theorem C01_prog_params : forall sc, bad_progression sc = false -> 0 <= s_Ss sc ->
  (s_Ss sc <> 0 -> 1 <= s_Ss sc <= s_Se sc /\ s_Se sc <= 63 /\ s_n sc = 1 /\ s_Al sc <= 13) /\
  (s_Ss sc = 0 -> s_Se sc = 0 /\ s_Al sc <= 13).
Proof. exact prog_params_. Qed.
Print Assumptions C01_prog_params.

(* (4e) lossless Huffman decoder (jdlhuff.c): for every scan whose MCU holds at most D_MAX_BLOCKS_IN_MCU
   samples (C01_accepted_bounds) every index into output_ptr_info / output_ptr_index / cur_tbls / output_ptr
   formed by start_pass and decode_mcus is inside the declared arrays *)
Theorem C01_lossless_index_safe : forall comps, Forall (fun c => 1 <= fst c /\ 1 <= snd c) comps ->
  comps_units comps <= L_D_MAX_BLOCKS_IN_MCU ->
  let '(idx, n, tr) := lh_setup comps 0 0 [] in
  tr_ok tr /\ n <= bound_lh_arrays /\ tr_ok (lh_mcu_trace idx) /\ Z.of_nat (length idx) = comps_units comps.
Proof. exact lossless_index_safe_. Qed.
Print Assumptions C01_lossless_index_safe.

Example C01_ex_refine_reaches_k64 : ex_refine_check = true.
Proof. exact ex_refine_check_true. Qed.

(* every per-datastream state member of the marker reader and of the input controller (inventories
   read from jpegint.h / jdmarker.c / jdinput.c) is assigned by reset_marker_reader /
   reset_input_controller, except next_restart_num (set by get_sos) and bytes_read (written with
   cur_marker, read only under cur_marker != NULL) -- both backed by guards in GenLimits.guards *)
Theorem C01_reset_covers_state : reset_covers_state = true.
Proof. exact reset_covers_state_. Qed.
Print Assumptions C01_reset_covers_state.

(* (5) with the end-of-input rule of the memory source (insert FF D9) the marker level of the whole
   stream reaches EOI or an error after at most length/2 + 3 scans, whatever the entropy
   decoders consume in between (ec = any consumer that only moves forward) *)
Theorem C01_fake_eoi_terminates : forall ec data, ec_mono ec -> Forall byte data ->
  match decode_stream ec (Nat.div2 (length data) + 3) hdr0 0 (io0 data true) with
  | Done (h, nscans) s' => 0 <= nscans <= Z.of_nat (length data) / 2 + 3 /\ trace_ok s'
  | Susp => False
  | Fail e s' => e <> E_OUT_OF_FUEL /\ trace_ok s'
  end.
Proof. exact fake_eoi_terminates_. Qed.
Print Assumptions C01_fake_eoi_terminates.

(* (5b) SCAN-level progress and work bound of the whole datastream on a memory source, for EVERY byte string,
   every forward-only entropy consumer and every scan limit: the number of scans is <= the limit and
   <= length/2 + 3; every scan passes initial_setup/per_scan_setup and costs at most
   DCTSIZE2 x D_MAX_BLOCKS_IN_MCU x (declared width x height) coefficient steps (one data unit never needs
   more than 64: C01_decode_block_index_safe), so the total work is <= scans x 64 x 10 x declared area *)
Theorem C01_scan_time_bound : forall ec limit data, ec_mono ec -> 0 <= limit -> Forall byte data ->
  match decode_stream2 ec limit (Nat.div2 (length data) + 3) hdr0 0 0 0 (io0 data true) with
  | SDone h n w a s' =>
      0 <= n <= limit /\ n <= Z.of_nat (length data) / 2 + 3 /\ 0 <= a <= L_JPEG_MAX_DIMENSION * L_JPEG_MAX_DIMENSION /\
      w <= n * (L_DCTSIZE2 * L_D_MAX_BLOCKS_IN_MCU * a) /\ trace_ok s'
  | SSusp => False
  | SFail e n w s' => e <> E_OUT_OF_FUEL /\ trace_ok s'
  | SLimit n w a s' => n = limit /\ w <= n * (L_DCTSIZE2 * L_D_MAX_BLOCKS_IN_MCU * a) /\ trace_ok s'
  end.
Proof. exact scan_time_bound_. Qed.
Print Assumptions C01_scan_time_bound.

(* (5c) what is fixed at SOF stays fixed: after an accepted SOF no marker routine changes process flags,
   precision, dimensions, component count or any component's id / sampling factors / Tq (a second SOF is
   JERR_SOF_DUPLICATE, get_sos only rewrites table selectors), through any number of markers *)
Theorem C01_sof_geometry_fixed : forall fuel h s, hdr_ok h -> inv s ->
  match read_markers fuel h s with
  | Done r s' => saw_SOF h = true -> geom (hdr_of r) = geom h /\ saw_SOF (hdr_of r) = true
  | _ => True
  end.
Proof. exact read_markers_keeps. Qed.
Print Assumptions C01_sof_geometry_fixed.

(* ... therefore the values initial_setup computed at the first SOS (cached by the C) are valid for every later
   scan, and the stream model WITH the cache (initial_setup once, per_scan_setup + latch_quant_tables with its
   per-component memo at every SOS, JERR_EOI_EXPECTED for an unexpected second scan) has the same bounds *)
Theorem C01_setup_cache_valid :
  (forall h1 h' su, accepted_header h1 su -> setup_dims h1 su -> geom h' = geom h1 ->
     hdr_ok h' -> saw_SOF h' = true -> scan_ok (h_frame h') (h_scan h') -> accepted_header h' su /\ setup_dims h' su) /\
  (forall ec limit data, ec_mono ec -> 0 <= limit -> Forall byte data ->
     match decode_stream3 ec limit (Nat.div2 (length data) + 3) hdr0 None [] 0 0 0 (io0 data true) with
     | SDone h n w a s' =>
         0 <= n <= limit /\ n <= Z.of_nat (length data) / 2 + 3 /\ 0 <= a <= L_JPEG_MAX_DIMENSION * L_JPEG_MAX_DIMENSION /\
         w <= n * (L_DCTSIZE2 * L_D_MAX_BLOCKS_IN_MCU * a) /\ trace_ok s'
     | SSusp => False
     | SFail e n w s' => e <> E_OUT_OF_FUEL /\ trace_ok s'
     | SLimit n w a s' => n = limit /\ w <= n * (L_DCTSIZE2 * L_D_MAX_BLOCKS_IN_MCU * a) /\ trace_ok s'
     end).
Proof. exact (conj cache_valid_ cached_stream_bound_). Qed.
Print Assumptions C01_setup_cache_valid.

(* (5d) coefficient controller (jdcoefct.c): the virtual block arrays are sized from header fields only
   (jround_up(width_in_blocks, h) x jround_up(height_in_blocks, v)); for every geometry an accepted header can
   have, every iMCU row, every MCU column incl. the last partial one, interleaved or single-component scan,
   the row window, the row inside the window and the block column used by consume_data / decompress_onepass
   are inside the array; MCU_buffer[blkn] stays below D_MAX_BLOCKS_IN_MCU *)
Theorem C01_coef_index_safe :
  (forall W H mh mv, 1 <= W -> 1 <= H -> 1 <= mh -> 1 <= mv -> forall h v, 1 <= h <= mh -> 1 <= v <= mv ->
     (forall r, 0 <= r < total_iMCU_rows H mv -> 0 <= r * v /\ window_last_row r v < varr_rows H v mv) /\
     (forall m x y, 0 <= m < interleaved_mcus_per_row W mh -> 0 <= x < h -> 0 <= y < v ->
        0 <= y + 0 < v /\ 0 <= interleaved_col m h x < varr_cols W h mh) /\
     (forall m yoff, 0 <= m < wib W h mh -> 0 <= yoff < v -> 0 <= 0 + yoff < v /\ 0 <= m < varr_cols W h mh)) /\
  (forall comps, Forall (fun c => 1 <= fst c /\ 1 <= snd c) comps -> mcu_blocks comps <= L_D_MAX_BLOCKS_IN_MCU ->
     forall pre c post, comps = pre ++ c :: post -> forall y x, 0 <= y < snd c -> 0 <= x < fst c ->
     0 <= mcu_blocks pre + y * fst c + x < L_D_MAX_BLOCKS_IN_MCU).
Proof. exact (conj coef_index_safe_ mcu_buffer_index_safe_). Qed.
Print Assumptions C01_coef_index_safe.

(* (5e) the block positions of model/DCoefPos.v -- the ones compared at run time with the pointers the real consume_data
   hands to the entropy decoder -- lie inside the virtual arrays, for interleaved and single-component scans *)
Theorem C01_coef_positions_in_array :
  (forall W H mh mv r m ci h v, 1 <= W -> 1 <= H -> 1 <= h <= mh -> 1 <= v <= mv ->
     0 <= r < total_iMCU_rows H mv -> 0 <= m < interleaved_mcus_per_row W mh ->
     Forall (pos_in_array W H mh mv h v) (comp_positions r 0 m (ci, h, v))) /\
  (forall W H mh mv r yoff m ci h v, 1 <= W -> 1 <= H -> 1 <= h <= mh -> 1 <= v <= mv ->
     0 <= r < total_iMCU_rows H mv -> 0 <= yoff < v -> 0 <= m < wib W h mh ->
     Forall (pos_in_array W H mh mv h v) (mcu_positions false r yoff m [(ci, h, v)])).
Proof. exact (conj comp_positions_in_array single_position_in_array). Qed.
Print Assumptions C01_coef_positions_in_array.

(* (4f) arithmetic decoder (jdarith.c decode_mcu): for EVERY sequence of binary decisions (hence every byte
   string, incl. the zero data after a marker), every conditioning value: all statistics-bin offsets are inside
   DC_STAT_BINS / AC_STAT_BINS, k <= 63 at natural_order[k], dc_context stays in {0,4,8,12,16}, every loop ends
   (no fuel needed) -- and jpeg_aritab keeps arith_decode well defined (Qe in 1..0x7FFF, successor states < 114,
   a positive A renormalises within 15 doublings) *)
Theorem C01_arith_index_safe :
  (forall (d : nat -> bool) (kle : Z -> bool) n ctx small large, ctx_ok ctx ->
     match dc_decode d n ctx small large [] with
     | DOk _ ctx' tr => ctx_ok ctx' /\ tr_ok tr | DErr _ tr => tr_ok tr | DFuel _ => False end /\
     match ac_decode 64 d kle n 1 [] with
     | DOk _ k tr => 1 <= k <= 64 /\ tr_ok tr | DErr _ tr => tr_ok tr | DFuel _ => False end) /\
  aritab_ok = true /\
  (forall a, 1 <= a < 32768 -> exists n, (n <= 15)%nat /\ 32768 <= a * 2 ^ Z.of_nat n < 65536).
Proof. exact (conj arith_index_safe_ (conj aritab_ok_true renorm_terminates)). Qed.
Print Assumptions C01_arith_index_safe.

(* (4g) jdarith.c: every statistics area that process_restart re-initialises, or that the MCU decoder selected for the
   scan dereferences, was validated and allocated by start_pass for that scan -- the conditions of both sites are
   translated from the source, for every (progressive_mode, Ss, Ah), so don't-care Td/Ta fields of refinement scans
   can never reach a NULL / out-of-range area *)
Theorem C01_arith_stats_allocated : forall prog Ss Ah,
  (restart_uses_dc prog Ss Ah = true -> sp_allocs_dc prog Ss Ah = true) /\
  (restart_uses_ac prog Ss Ah = true -> sp_allocs_ac prog Ss Ah = true) /\
  (decoder_uses_dc prog Ss Ah = true -> sp_allocs_dc prog Ss Ah = true) /\
  (decoder_uses_ac prog Ss Ah = true -> sp_allocs_ac prog Ss Ah = true).
Proof. exact stats_areas_allocated_. Qed.
Print Assumptions C01_arith_stats_allocated.

(* (4h) lossless: a row of diff_buf / undiff_buf (length read from jddiffct.c) holds all the differences decode_mcus
   stores into it -- MCUs_per_row * MCU_width, dummy samples of the last partial MCU included -- for every width and
   every sampling factor h <= max_h *)
Theorem C01_lossless_diff_rows : forall W h mh, 1 <= W -> 1 <= h <= mh ->
  let wibl := div_round_up (W * h) mh in
  div_round_up W mh * h <= diff_buf_row wibl h /\ div_round_up W mh * h <= undiff_buf_row wibl h /\
  wibl <= diff_buf_row wibl h /\ wibl <= undiff_buf_row wibl h.
Proof. exact diff_row_covers_mcus_. Qed.
Print Assumptions C01_lossless_diff_rows.

(* (6) The full property is about the C text: an implementation run on a byte string under a
   configuration.  It stays a definition; what is proved is its model-level part. *)
Record c_run := mk_c_run {
  r_accesses : list (Z * Z);     (* every memory access as (index, size of the object) *)
  r_undefined : bool;            (* some undefined behaviour was executed *)
  r_terminated : bool;
  r_steps : Z;                   (* machine steps *)
  r_reported : bool;             (* ended with success / warning / error through the documented channel *)
  r_uninit_output : bool         (* a sample reported as produced was never written *)
}.
Definition C01_full (impl : list Z -> Z -> c_run) (area : list Z -> Z) (scanlimit c : Z) : Prop :=
  forall data cfg, Forall byte data ->
    let r := impl data cfg in
    Forall (fun p => 0 <= fst p < snd p) (r_accesses r) /\ r_undefined r = false /\
    r_terminated r = true /\ r_steps r <= c * (Z.of_nat (length data) + area data * scanlimit) /\
    r_reported r = true /\ r_uninit_output r = false.

Theorem C01_partial :
  (* marker level: termination, time bound, error reporting, index safety *)
  (forall (data : list Z) (fk : bool), Forall byte data ->
     match read_markers (Nat.div2 (length data) + 3) hdr0 (io0 data fk) with
     | Done r s' => not_continue r /\ step_ok r /\ trace_ok s' /\ (length (real s') <= length data)%nat
     | Susp => fk = false
     | Fail e s' => e <> E_OUT_OF_FUEL /\ trace_ok s'
     end) /\
  (* header + first scan set-up: accepted => inside all limits *)
  (forall data, Forall byte data -> accepted_bounds_stmt data) /\
  (* block decoding: index discipline for every bit string *)
  (forall dct act bs, dtbl_ok dct -> dtbl_ok act -> blk_ok (decode_block dct act bs)) /\
  (* whole stream at marker level with the fake EOI *)
  (forall ec data, ec_mono ec -> Forall byte data ->
     match decode_stream ec (Nat.div2 (length data) + 3) hdr0 0 (io0 data true) with
     | Done (h, nscans) s' => 0 <= nscans <= Z.of_nat (length data) / 2 + 3 /\ trace_ok s'
     | Susp => False
     | Fail e s' => e <> E_OUT_OF_FUEL /\ trace_ok s'
     end) /\
  (* the unchecked Huffman fast path: all reads inside the BUFSIZE * blocks bytes that enable it *)
  (forall (tbls : list (dtbl * dtbl)) (src : list Z) (bits0 : list bool),
     Forall tbl_pair_ok tbls -> (1 <= length tbls)%nat -> (length bits0 <= 64)%nat ->
     L_BUFSIZE * Z.of_nat (length tbls) <= Z.of_nat (length src) ->
     exists out s', decode_mcu_fast tbls (fstate0 src bits0) [] = Some (out, s') /\
                    Forall (fun i => 0 <= i < Z.of_nat (length src)) (f_reads s') /\
                    0 <= f_pos s' <= Z.of_nat (length src) /\ (length (f_bits s') <= 64)%nat) /\
  (* progressive AC decoding: index discipline *)
  (forall t Ss Se, dtbl_ok t -> 1 <= Ss <= Se -> Se <= 63 ->
     (forall Al bs, match ac_first_loop 64 t Se Al Ss bs [] [] with
                    | PDone e tr _ _ => tr_ok tr /\ 0 <= e | PSusp tr => tr_ok tr | PFuel _ => False end) /\
     (forall Al eobrun blk bs, match ac_refine_block t Ss Se Al eobrun blk bs with
                               | RDone _ _ _ tr => tr_ok tr | RSusp tr => tr_ok tr | RFuel _ => False end) /\
     (forall nc cindex, 0 <= cindex < nc -> tr_ok (coef_bits_trace nc cindex Ss Se))).
Proof. exact (conj read_markers_total_ (conj accepted_bounds_ (conj decode_block_spec (conj fake_eoi_terminates_ (conj fast_path_safe_ prog_index_safe_))))). Qed.
Print Assumptions C01_partial.

(* ------------------------------------------------------------ non-vacuity *)
(* a real 8x8 baseline JPEG written by the encoder of the tree is accepted, with > 400 recorded indices *)
Example C01_ex_baseline_accepted :
  Forall byte tiny_baseline /\
  match read_and_start tiny_baseline with
  | Done (Started h su si u) s =>
      f_width (h_frame h) = 8 /\ f_height (h_frame h) = 8 /\ f_nc (h_frame h) = 1 /\ f_prec (h_frame h) = 8 /\
      si_blocks si = 1 /\ length u = 2%nat /\ (length (trace s) > 400)%nat
  | _ => False
  end.
Proof. exact tiny_baseline_parses. Qed.

Example C01_ex_lossless_accepted :
  match read_and_start tiny_lossless with
  | Done (Started h su si u) s =>
      f_lossless (h_frame h) = true /\ f_prec (h_frame h) = 12 /\ f_width (h_frame h) = 3 /\ s_Ss (h_scan h) = 2
  | _ => False
  end.
Proof. exact tiny_lossless_parses. Qed.

Example C01_ex_truncated_has_verdict :
  match read_and_start (firstn 40 tiny_baseline) with Done (OnlyTables _) s => eofw s > 0 | _ => False end /\
  match read_and_start (firstn 95 tiny_baseline) with Fail e _ => e = E_BAD_LENGTH \/ e = E_SOF_NO_SOS \/ e = E_EMPTY_IMAGE | _ => False end.
Proof. exact tiny_truncated_has_verdict. Qed.

(* valid tables + a corrupt run really store at k = 63 + 15 (position 63): the padding is needed *)
Example C01_ex_block_reaches_k78 : block_reaches_k78_check = true.
Proof. exact block_reaches_k78. Qed.

(* a forward-only entropy consumer exists (hypothesis of C01_fake_eoi_terminates is satisfiable) *)
Example C01_ex_ec_mono : ec_mono (fun _ s => s).
Proof. exact ec_id_mono. Qed.
