(* C01 -- property theorems only: statement + exact + Print Assumptions. *)
From Coq Require Import List ZArith.
From LJT Require Import gen.GenLimits model.Huff model.DMarkers proofs.DMarkersProofs.
Import ListNotations.
Local Open Scope Z_scope.

Theorem C01_natural_order_padded :
  length natural_order = 80%nat /\
  Forall (fun v => 0 <= v < 64) natural_order /\
  bound_natural_order = 80 /\ bound_quantval = 64 /\ L_DCTSIZE2 = 64.
Proof. exact natural_order_facts. Qed.
Print Assumptions C01_natural_order_padded.
