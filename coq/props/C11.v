(* C11 -- only the documented extent of caller buffers is read or written.
   Property theorems only: statement + exact + Print Assumptions. *)
From Coq Require Import List ZArith Bool.
From LJT Require Import model.Extent model.ExtentApi model.ExtentTmp model.ExtentRows model.ExtentHist model.ExtentLanes model.ExtentShuffle model.Extent565 model.ExtentPost model.ExtentUps gen.GenAlign gen.GenTail
  proofs.ExtentProofs proofs.ExtentYuvProofs proofs.ExtentApiProofs proofs.ExtentTmpProofs proofs.ExtentRowsProofs
  proofs.ExtentHistProofs proofs.ExtentLanesProofs proofs.ExtentShuffleProofs proofs.Extent565Proofs proofs.ExtentPostProofs proofs.ExtentUpsProofs proofs.ExtentExamples.
Import ListNotations.
Local Open Scope Z_scope.

(* (1) packed-pixel buffers: tj3Compress8/12/16 (k = R), tj3Decompress8/12/16,
   tj3DecodeYUVPlanes8 destination (k = W), tj3EncodeYUVPlanes8 source (k = R) *)
Theorem C11_packed_extent : forall k w pitch h ps ssize bu,
  1 <= w -> 1 <= h -> 1 <= ps -> 1 <= ssize -> row_valid w pitch ps ->
  let P := eff_pitch pitch w ps * ssize in
  let rowbytes := w * ps * ssize in
  (forall a, In a (packed_accesses k w pitch h ps ssize bu) ->
     exists i, 0 <= i < h /\ a_buf a = 0 /\ a_rw a = k /\ a_off a = i * P /\ a_len a = rowbytes) /\
  (forall a x, In a (packed_accesses k w pitch h ps ssize bu) -> a_off a <= x < a_off a + a_len a ->
     0 <= x < (h - 1) * P + rowbytes /\ x mod P < rowbytes) /\
  (forall i, 0 <= i < h -> In (mkAcc 0 (i * P) rowbytes k) (packed_accesses k w pitch h ps ssize bu)) /\
  Z.of_nat (length (packed_accesses k w pitch h ps ssize bu)) = h /\
  (forall a, In a (packed_accesses k w pitch h ps ssize true) <-> In a (packed_accesses k w pitch h ps ssize false)) /\
  (forall i j, 0 <= i < j -> i * P + rowbytes <= j * P).
Proof. exact packed_extent_thm. Qed.
Print Assumptions C11_packed_extent.

(* scaled / cropped output dimensions fed to (1) by tj3Decompress8/12 *)
Theorem C11_decompress_dims : forall jw jh num den mcuw c c',
  1 <= jw -> 1 <= jh -> 1 <= num -> 1 <= den ->
  set_crop jw jh num den mcuw c = Some c' ->
  1 <= dec_out_w jw num den c' <= tjscaled jw num den /\
  1 <= dec_out_h jh num den c' <= tjscaled jh num den.
Proof.
  exact (fun jw jh num den mcuw c c' H1 H2 H3 H4 H5 =>
    dec_dims_pos jw jh num den c' H1 H2 H3 H4 (set_crop_sound jw jh num den mcuw c c' H1 H2 H3 H4 H5)).
Qed.
Print Assumptions C11_decompress_dims.

(* (2) the store sequences of jdcolext / jdmrgext (SSE2, AVX2; 3 and 4 bytes per pixel) AS
   READ FROM THE CURRENT .asm FILES: for every column count the stores are contiguous from
   0 and cover exactly cols*ps bytes, each byte once *)
Theorem C11_tail_stores_exact : forall k, In k gen_st_kernels -> forall cols, 0 <= cols ->
  exists l, st_row_stores k cols = Some l /\ contig 0 l = Some (cols * sk_ps k) /\ exact_cover l (cols * sk_ps k).
Proof. exact tail_stores_exact_thm. Qed.
Print Assumptions C11_tail_stores_exact.

(* the load sequences of jccolext / jcgryext read every byte of [0, cols*ps) once and nothing else *)
Theorem C11_tail_loads_exact : forall k, In k gen_ld_kernels -> forall cols, 0 <= cols ->
  exists l, ld_row_loads k cols = Some l /\ exact_cover l (cols * lk_ps k).
Proof. exact tail_loads_exact_thm. Qed.
Print Assumptions C11_tail_loads_exact.

(* (3) whole-vector processing on the INTERNAL side stays inside rows from alloc_sarray
   (and inside TurboJPEG's PAD(.,32) temporary rows) *)
Theorem C11_internal_overrun_absorbed : forall n n', 0 <= n -> n <= n' ->
  simd_touched sizeof_xmmword n <= sarray_row_len align_size_simd 1 n' /\
  simd_touched sizeof_ymmword n <= sarray_row_len align_size_simd 1 n' /\
  simd_touched (2 * sizeof_ymmword) n <= sarray_row_len align_size_simd 1 n' /\
  n' <= sarray_row_len align_size_simd 1 n' /\
  sarray_row_len align_size_simd 1 n' mod (2 * align_size_simd) = 0.
Proof. exact internal_overrun_absorbed_lem. Qed.
Print Assumptions C11_internal_overrun_absorbed.

Theorem C11_tj_tmp_rows_absorb : forall n m, 0 <= n -> n <= m ->
  simd_touched sizeof_xmmword n <= PAD m 32 /\ simd_touched sizeof_ymmword n <= PAD m 32.
Proof. exact tj_tmp_rows_absorb. Qed.
Print Assumptions C11_tj_tmp_rows_absorb.

(* (4) planes *)
Theorem C11_yuv_extent : forall k comp width height ss stride a,
  1 <= width -> 1 <= height -> ss_valid ss comp -> stride_valid stride (plane_w comp width ss) ->
  (In a (encdec_plane k comp width height ss stride) \/
   exists dct, 0 <= dct /\ In a (rawdata_plane k comp width height ss stride dct)) ->
  let pw := plane_w comp width ss in let ph := plane_h comp height ss in
  let st := eff_stride stride pw in
  a_buf a = comp /\ a_rw a = k /\ a_len a = pw /\
  (exists r, 0 <= r < ph /\ a_off a = r * st) /\
  0 <= a_off a /\ a_off a + a_len a <= st * (ph - 1) + pw /\
  st * (ph - 1) + pw = plane_size comp width stride height ss.
Proof. exact yuv_extent_thm. Qed.
Print Assumptions C11_yuv_extent.

Theorem C11_yuv_unified_layout : forall width height ss align,
  1 <= width -> 1 <= height -> 0 <= ss <= 6 -> (align = 1 \/ align = 2 \/ align = 4 \/ align = 32 \/ align = 64) ->
  forall comp, 0 <= comp < ncomp ss ->
  let st c := PAD (plane_w c width ss) align in
  plane_w comp width ss <= st comp /\
  0 <= unified_off comp width height ss align /\
  unified_off comp width height ss align + st comp * plane_h comp height ss <= yuv_buf_size width align height ss /\
  (0 < comp -> unified_off (comp - 1) width height ss align + st (comp - 1) * plane_h (comp - 1) height ss
               = unified_off comp width height ss align).
Proof. exact yuv_unified_layout. Qed.
Print Assumptions C11_yuv_unified_layout.

(* the temporary-buffer copies of the raw-data entry points, SOURCE side: at full size a plane
   row (pw bytes) fits a temporary row (iw bytes) ... *)
Theorem C11_tmpbuf_fullsize_fits : forall comp width ss,
  1 <= width -> ss_valid ss comp -> plane_w comp width ss <= tmp_iw width comp ss 8.
Proof. exact tmpbuf_fullsize_fits. Qed.
Print Assumptions C11_tmpbuf_fullsize_fits.

(* ... and with IDCT scaling (every JPEG width, subsampling, component, scaling factor >= 1/den,
   temporary row j) the copy-out of pw bytes of tj3DecompressToYUVPlanes8 starts at temporary row j,
   stays inside that row and inside _tmpbuf, the rows being MAX(iw[i], pw[i]) apart *)
Theorem C11_tmpbuf_copyout_inside : copyout_inside true.
Proof. exact tmpbuf_copyout_wide_inside. Qed.
Print Assumptions C11_tmpbuf_copyout_inside.

(* why MAX is needed: with rows iw[i] apart (the code before 31d7b0f, finding F10) the copy-out
   reads past the end of _tmpbuf (4:1:1, one pixel wide, 1/8) *)
Theorem C11_tmpbuf_narrow_rows_refuted : copyout_overreads false.
Proof. exact tmpbuf_copyout_overread. Qed.
Print Assumptions C11_tmpbuf_narrow_rows_refuted.

(* tmp_rows_cover_pw is read from the CURRENT turbojpeg.c by tools/gen_Align.py: which of the two
   statements describes the source under test *)
Theorem C11_tmpbuf_copyout_current :
  if tmp_rows_cover_pw then copyout_inside true else copyout_overreads false.
Proof. exact tmpbuf_copyout_current. Qed.
Print Assumptions C11_tmpbuf_copyout_current.

(* rows: one jpeg_read_scanlines(scanlines, max_lines) call, whatever upsampler invocations the main
   controller makes in it, writes only scanlines[0 .. max_lines-1] and returns <= max_lines, the clamp
   of sep_upsample / merged_2v_upsample being "out_rows_avail -= *out_row_ctr" (pinned by gen_Align) *)
Theorem C11_read_scanlines_rows_within : forall invs max_lines, invs_ok invs -> 0 <= max_lines ->
  let '(rows, n) := read_scanlines true invs max_lines in
  (forall r, In r rows -> 0 <= r < max_lines) /\ 0 <= n <= max_lines.
Proof. exact read_scanlines_within. Qed.
Print Assumptions C11_read_scanlines_rows_within.

(* hence the (cropping) loop of tj3Decompress8/12/16 stores only through row_pointer[0 .. h-1] *)
Theorem C11_crop_loop_rows_within : forall calls, (forall invs, In invs calls -> invs_ok invs) ->
  forall scan y h, 0 <= y <= scan -> forall r, In r (crop_loop true calls scan y h) -> 0 <= r < h.
Proof. exact crop_loop_within. Qed.
Print Assumptions C11_crop_loop_rows_within.

(* without the subtraction the second invocation of a call overruns: 3 rows requested, row 3 written *)
Theorem C11_folded_clamp_refuted :
  exists invs max_lines, invs_ok invs /\ 0 <= max_lines /\
    In max_lines (fst (read_scanlines false invs max_lines)) /\ max_lines < snd (read_scanlines false invs max_lines).
Proof. exact folded_clamp_overruns. Qed.
Print Assumptions C11_folded_clamp_refuted.

Example C11_ex_rows :
  read_scanlines true [(2, 50); (2, 48)] 3 = ([0; 1; 2], 3) /\
  read_scanlines false [(2, 50); (2, 48)] 3 = ([0; 1; 2; 3], 4) /\
  crop_loop true [[(2, 9); (2, 7)]; [(1, 6); (2, 5)]] 14 14 5 = [0; 1; 2; 3; 4].
Proof. exact ex_rows. Qed.

(* histories: whatever image / scaling factor the stored region was validated against, the re-check of
   tj3Decompress8/12 (left boundary, width, bottom edge) against the image and scaling factor actually
   used lets 0 be returned only when the rows written are exactly the documented rows of the region,
   the region lies inside the scaled image and is iMCU aligned; and the call always returns *)
Theorem C11_recheck_sound : forall jw jh num den align c ow oh,
  1 <= jw -> 1 <= jh -> 1 <= num -> 1 <= den -> 1 <= align ->
  0 <= r_x c -> 0 <= r_y c -> stored_region c ->
  dec_recheck true true true jw jh num den align c = Accepted ow oh ->
  ow = dec_out_w jw num den c /\ oh = dec_out_h jh num den c /\ 1 <= ow /\ 1 <= oh /\
  r_x c + ow <= tjscaled jw num den /\ r_y c + oh <= tjscaled jh num den /\ r_x c mod align = 0.
Proof. exact recheck_sound. Qed.
Print Assumptions C11_recheck_sound.

Theorem C11_recheck_never_hangs : forall jw jh num den align c,
  dec_recheck true true true jw jh num den align c <> NoReturn.
Proof. exact recheck_never_hangs. Qed.
Print Assumptions C11_recheck_never_hangs.

Theorem C11_hist_region_stored : forall jwA jhA n1 d1 mcuw req, 1 <= jwA -> 1 <= jhA -> 1 <= n1 -> 1 <= d1 ->
  let c := hist_region jwA jhA n1 d1 mcuw req in stored_region c /\ 0 <= r_x c /\ 0 <= r_y c.
Proof. exact hist_region_stored. Qed.
Print Assumptions C11_hist_region_stored.

(* which checks the source under test has (dec_chk_* read by tools/gen_Align.py); a missing check comes
   with its counterexample: rows 8 pixels too wide (seeded C11-4) / a call that never returns (F11) *)
Theorem C11_recheck_current :
  (if dec_chk_left && dec_chk_width && dec_chk_bottom then recheck_ok true true true else True) /\
  (if dec_chk_left && dec_chk_width then True
   else exists jw jh num den align c ow oh, set_crop jw jh 1 2 16 c = Some c /\
        dec_recheck false false true jw jh num den align c = Accepted ow oh /\ dec_out_w jw num den c < ow) /\
  (if dec_chk_bottom then True
   else exists jwA jhA jw jh c, set_crop jwA jhA 1 1 8 (mkRegion 0 0 0 50) = Some c /\
        dec_recheck true true false jw jh 1 1 8 c = NoReturn).
Proof. exact recheck_current. Qed.
Print Assumptions C11_recheck_current.

(* since d8eface all three checks are in the source: the positive statement holds for the code as it is *)
Theorem C11_recheck_positive_now :
  dec_chk_left && dec_chk_width && dec_chk_bottom = true /\ recheck_ok dec_chk_left dec_chk_width dec_chk_bottom.
Proof. exact (conj recheck_checks_present recheck_positive_now). Qed.
Print Assumptions C11_recheck_positive_now.

(* the C type of row_pointer[i] = &buf[i * (size_t)pitch]: no row offset wraps for any int height, pitch *)
Theorem C11_row_ptr_no_wrap : forall base pitch h bu i,
  0 <= pitch < 2 ^ 31 -> 0 <= i < h -> h < 2 ^ 31 ->
  row_ptr_c rowptr_mul_bits base pitch h bu i = row_ptr base pitch h bu i.
Proof. exact row_ptr_c_no_wrap. Qed.
Print Assumptions C11_row_ptr_no_wrap.

Theorem C11_row_ptr_int32_refuted :
  exists pitch h i, 0 <= pitch < 2 ^ 31 /\ 0 <= i < h /\ h < 2 ^ 31 /\
    wrap_int32 (i * pitch) = i * pitch - 2 ^ 32 /\ wrap_int32 (i * pitch) < 0.
Proof. exact row_ptr_int32_wraps. Qed.
Print Assumptions C11_row_ptr_int32_refuted.

(* SIMD lane models (chunking into vectors, zero-filled partial vectors, dummy sample, carried neighbours,
   16-bit wrap and saturation) of the downsampling / fancy upsampling kernels equal the C loops on the columns
   asked for, for EVERY width and V in {16 (SSE2), 32 (AVX2)}; the rest of what they produce is accounted for *)
Theorem C11_h2v1_downsample_simd_eq_c : forall V row iw oc,
  (0 < V)%nat -> (V mod 2 = 0)%nat -> bytes row ->
  firstn oc (h2v1_downsample_simd V row iw oc) = h2v1_downsample_c row iw oc /\
  length (h2v1_downsample_simd V row iw oc) = round_up_nat oc V /\
  (forall j, (oc <= j)%nat -> rd (h2v1_downsample_simd V row iw oc) j = 0).
Proof. exact h2v1_downsample_simd_eq_c. Qed.
Print Assumptions C11_h2v1_downsample_simd_eq_c.

Theorem C11_h2v1_fancy_simd_eq_c : forall V inp n,
  (0 < V)%nat -> (2 <= n)%nat -> bytes inp -> ((n mod V)%nat <> 0%nat -> (n < length inp)%nat) ->
  firstn (2 * n) (h2v1_fancy_simd V inp n) = h2v1_fancy_c inp n /\
  length (h2v1_fancy_simd V inp n) = (2 * round_up_nat n V)%nat.
Proof. exact h2v1_fancy_simd_eq_c. Qed.
Print Assumptions C11_h2v1_fancy_simd_eq_c.

Theorem C11_h2v2_fancy_simd_eq_c : forall V in0 in1 n,
  (0 < V)%nat -> (2 <= n)%nat -> bytes in0 -> bytes in1 ->
  ((n mod V)%nat <> 0%nat -> (n < length in0)%nat /\ (n < length in1)%nat) ->
  firstn (2 * n) (h2v2_fancy_simd V in0 in1 n) = h2v2_fancy_c in0 in1 n /\
  length (h2v2_fancy_simd V in0 in1 n) = (2 * round_up_nat n V)%nat.
Proof. exact h2v2_fancy_simd_eq_c. Qed.
Print Assumptions C11_h2v2_fancy_simd_eq_c.

Theorem C11_h2v2_downsample_simd_eq_c : forall V row0 row1 iw oc,
  (0 < V)%nat -> (V mod 2 = 0)%nat -> bytes row0 -> bytes row1 ->
  firstn oc (h2v2_downsample_simd V row0 row1 iw oc) = h2v2_downsample_c row0 row1 iw oc /\
  length (h2v2_downsample_simd V row0 row1 iw oc) = round_up_nat oc V /\
  (forall j, (oc <= j)%nat -> rd (h2v2_downsample_simd V row0 row1 iw oc) j = 0).
Proof. exact h2v2_downsample_simd_eq_c. Qed.
Print Assumptions C11_h2v2_downsample_simd_eq_c.

(* the byte<->word re-packing of those kernels (punpck / pack / pslldq, and on AVX2 the in-lane versions with
   their vperm2i128 / vpermq / vpalignr fix-ups, sequences pinned by gen_Align) ARE the identity projections
   the lane models use: position-by-position computation over the 16 / 32 byte positions *)
Theorem C11_shuffles_are_projections : avx2_facts = true /\ sse2_facts = true.
Proof. exact shuffles_are_projections. Qed.
Print Assumptions C11_shuffles_are_projections.

Theorem C11_avx2_pack_perm_identity : vpermq (vpackuswb (iota 0 16) (iota 16 16)) 216 = iota 0 32.
Proof. exact avx2_pack_perm_identity. Qed.
Print Assumptions C11_avx2_pack_perm_identity.

(* RGB565 converters (jdcol565.c, all six): alignment store + pair loop + odd tail cover exactly [0, 2*width)
   of every row of a color_convert call, whatever the alignment of each row pointer *)
Theorem C11_rgb565_row_exact : forall width addr, 1 <= width < 2 ^ 32 ->
  contig 0 (fst (rgb565_row width addr)) = Some (2 * width) /\
  exact_cover (fst (rgb565_row width addr)) (2 * width) /\ rgb565_row_end width addr = 2 * width.
Proof. exact rgb565_row_exact. Qed.
Print Assumptions C11_rgb565_row_exact.

Theorem C11_rgb565_current :
  if rgb565_reset_per_row then (forall width addrs nc, 1 <= width < 2 ^ 32 ->
        Forall (fun e => e = 2 * width) (rgb565_call_ends true width addrs nc))
  else exists width addrs, 1 <= width /\ nth 1 (rgb565_call_ends false width addrs width) 0 > 2 * width.
Proof. exact rgb565_current. Qed.
Print Assumptions C11_rgb565_current.

Theorem C11_lanes_stay_in_padded_rows : forall V n m_in m_out,
  (V = 16 \/ V = 32)%nat -> (n <= m_in)%nat -> (2 * n <= m_out)%nat ->
  (fu_input_read V n <= round_up_nat m_in 64 /\
   (forall k, fu_input_dummy V n = Some k -> k < round_up_nat m_in 64) /\
   fu_output_written V n <= round_up_nat m_out 64 /\
   ds_output_written V n <= round_up_nat m_in 64)%nat.
Proof. exact lanes_stay_in_padded_rows. Qed.
Print Assumptions C11_lanes_stay_in_padded_rows.

(* post-processing controller (jdpostct.c): rows delivered per jpeg_read_scanlines call *)
Theorem C11_pp1_within : forall have rtg strip avail ctr, 0 <= have -> 0 <= rtg -> 0 <= strip -> ctr <= avail ->
  0 <= pp1_num_rows have rtg strip avail ctr <= avail - ctr /\ pp1_num_rows have rtg strip avail ctr <= rtg.
Proof. exact pp1_within. Qed.
Print Assumptions C11_pp1_within.

(* second pass of 2-pass quantization with the bottom clamp "output_height - starting_row - next_row": for every
   strip height, max_lines and image height each call delivers <= max_lines and <= output_height - output_scanline *)
Theorem C11_pp2_run_within : forall fuel s m H imgH, 1 <= s -> 1 <= m ->
  forall start next scan, 0 <= next < s -> scan = start + next ->
  forall sc n, In (sc, n) (pp2_run fuel 1 s m H imgH start next scan) -> 1 <= n <= m /\ n <= H - sc.
Proof. exact pp2_run_within. Qed.
Print Assumptions C11_pp2_run_within.

(* pp2_clamp is read from jdpostct.c: 1 = the statement above; 0 (no "- next_row") and 2 (image_height, seeded
   C11-7) come with their witnesses of a call that delivers a row more than remains *)
Theorem C11_pp2_current :
  if pp2_clamp =? 1 then
    (forall fuel s m H imgH, 1 <= s -> 1 <= m -> forall sc n, In (sc, n) (pp2_run fuel 1 s m H imgH 0 0 0) -> 1 <= n <= m /\ n <= H - sc)
  else if pp2_clamp =? 0 then exists s m H, 1 <= s /\ 1 <= m /\ In (H - 1, 2) (pp2_run 20 0 s m H H 0 0 0)
  else exists s m H imgH, 1 <= s /\ 1 <= m /\ H <= imgH /\ In (H - 1, 2) (pp2_run 20 2 s m H imgH 0 0 0).
Proof. exact pp2_current. Qed.
Print Assumptions C11_pp2_current.

(* spare row of merged_2v_upsample: copy length = size of an output row for every out_color_space (RGB565: 2
   bytes per pixel, 3 components), cropped or not, given where the RGB565 special case is (generated flags) *)
Theorem C11_spare_copy_len_is_row_size : forall copy565 init565 crop565 is565 cropped ow_init ow_now ncomp,
  (copy565 = true \/ (init565 = true /\ crop565 = true)) -> (cropped = false -> ow_now = ow_init) ->
  spare_copy_len copy565 init565 crop565 is565 cropped ow_init ow_now ncomp = out_row_size is565 ow_now ncomp.
Proof. exact spare_copy_len_is_row_size. Qed.
Print Assumptions C11_spare_copy_len_is_row_size.

Theorem C11_spare_copy_current :
  if mrg_copy565 || (mrg_init565 && mrg_crop565) then
    (forall is565 cropped ow_init ow_now ncomp, (cropped = false -> ow_now = ow_init) ->
       spare_copy_len mrg_copy565 mrg_init565 mrg_crop565 is565 cropped ow_init ow_now ncomp = out_row_size is565 ow_now ncomp)
  else exists cropped ow, 1 <= ow /\ spare_copy_len mrg_copy565 mrg_init565 mrg_crop565 true cropped ow ow 3 > out_row_size true ow 3.
Proof. exact spare_copy_current. Qed.
Print Assumptions C11_spare_copy_current.

(* replicating upsamplers of jdsample.c (int_upsample for every h_expand >= 1, h2v1/h2v2_upsample, the row copies for
   v_expand > 1, h1v2_fancy_upsample): stores in [0, round_up(output_width, h_expand)), loads in
   [0, ceil(output_width / h_expand)); with h_expand | max_h_samp_factor <= 4 inside the padded colour-buffer row *)
Theorem C11_int_upsample_row_extent : forall h ow, 1 <= h -> 0 <= ow ->
  (forall s, In s (snd (int_upsample_row h ow)) -> 0 <= s < ExtentUps.round_up ow h) /\
  (forall x, In x (fst (int_upsample_row h ow)) -> 0 <= x < ceil_div ow h).
Proof. exact int_upsample_row_extent. Qed.
Print Assumptions C11_int_upsample_row_extent.

Theorem C11_h2_upsample_row_extent : forall ow, 0 <= ow ->
  (forall s, In s (snd (h2_upsample_row ow)) -> 0 <= s < ExtentUps.round_up ow 2) /\
  (forall x, In x (fst (h2_upsample_row ow)) -> 0 <= x < ceil_div ow 2).
Proof. exact h2_upsample_row_extent. Qed.
Print Assumptions C11_h2_upsample_row_extent.

Theorem C11_copy_and_h1v2_extent : forall n, 0 <= n ->
  (forall s, In s (copy_row_stores n) -> 0 <= s < n) /\
  (forall s, In s (fst (h1v2_fancy_row n)) \/ In s (snd (h1v2_fancy_row n)) -> 0 <= s < n).
Proof. exact copy_and_h1v2_extent. Qed.
Print Assumptions C11_copy_and_h1v2_extent.

Theorem C11_replicating_upsamplers_extent : forall h maxh ow, 1 <= h <= 4 -> 1 <= maxh <= 4 -> (h | maxh) -> 0 <= ow ->
  forall s, In s (snd (int_upsample_row h ow)) \/ (h = 2 /\ In s (snd (h2_upsample_row ow))) \/ In s (copy_row_stores ow) ->
  0 <= s < sarray_row_len align_size_simd 1 (ExtentUps.round_up ow maxh).
Proof. exact replicating_upsamplers_extent. Qed.
Print Assumptions C11_replicating_upsamplers_extent.

(* (5) The property itself is extent_respected applied to the accesses the COMPILED LIBRARY
   performs on caller memory (machine loads and stores).  That function is not an object
   of this development; the statement is kept visible and what is proved is its
   instance for the model's trace. *)
Definition C11_full (machine_trace : api_call -> list access) : Prop := extent_respected machine_trace.

Theorem C11_partial : C11_full model_trace /\
  (forall c, valid_call c -> forall a, In a (model_trace c) -> 0 < a_len a).
Proof. exact (conj model_trace_respects_extent model_trace_nonempty_accesses). Qed.
Print Assumptions C11_partial.

(* ---- non-vacuity ---- *)
Example C11_ex_packed :
  1 <= 7 /\ 1 <= 3 /\ row_valid 7 29 3 /\
  packed_accesses W 7 29 3 3 1 true = [mkAcc 0 58 21 W; mkAcc 0 29 21 W; mkAcc 0 0 21 W] /\
  packed_accesses R 5 0 2 4 2 false = [mkAcc 0 0 40 R; mkAcc 0 40 40 R].
Proof. exact ex_packed. Qed.

Example C11_ex_tail :
  In jdcolext_avx2_st4 gen_st_kernels /\ In jdmrgext_sse2_st3 gen_st_kernels /\
  st_row_stores jdcolext_avx2_st4 21 = Some [(0,32); (32,32); (64,16); (80,4)] /\
  st_row_stores jdmrgext_sse2_st3 21 = Some [(0,16); (16,16); (32,16); (48,8); (56,4); (60,2); (62,1)] /\
  In jccolext_avx2_ld3 gen_ld_kernels /\
  ld_row_loads jccolext_avx2_ld3 43 = Some [(0,32); (32,32); (64,32); (128,1); (96,32)].
Proof. exact ex_tail. Qed.

Example C11_ex_tail_mutant_rejected :
  st_kernel_ok (mkStK 32 4 1 [(0,32); (32,32); (64,32); (96,32)]
    [ mkSt 16 [(0,32); (32,32)] 64 16 0; mkSt 8 [(0,32)] 32 8 0; mkSt 4 [(0,32)] 16 4 0;
      mkSt 2 [(0,8)] 8 2 0; mkSt 1 [(0,4)] 4 1 0 ]) = false.
Proof. exact ex_tail_mutant_rejected. Qed.

Example C11_ex_internal :
  simd_touched sizeof_ymmword 33 = 64 /\ sarray_row_len align_size_simd 1 33 = 64 /\
  simd_touched sizeof_xmmword 129 = 144 /\ sarray_row_len align_size_simd 1 129 = 192.
Proof. exact ex_internal. Qed.

Example C11_ex_yuv :
  ss_valid 2 1 /\ stride_valid 8 (plane_w 0 5 2) /\
  plane_w 0 5 2 = 6 /\ plane_h 0 3 2 = 4 /\ plane_w 1 5 2 = 3 /\ plane_h 1 3 2 = 2 /\
  encdec_plane W 0 5 3 2 8 = [mkAcc 0 0 6 W; mkAcc 0 8 6 W; mkAcc 0 16 6 W; mkAcc 0 24 6 W] /\
  rawdata_plane W 1 5 3 2 0 8 = [mkAcc 1 0 3 W; mkAcc 1 3 3 W] /\
  plane_size 0 5 8 3 2 = 30 /\ yuv_buf_size 5 4 3 2 = 48.
Proof. exact ex_yuv. Qed.

Example C11_ex_call :
  valid_call (CallDecompress 33 17 1 2 (mkRegion 8 2 9 5) 40 4 1 true) /\
  length (model_trace (CallDecompress 33 17 1 2 (mkRegion 8 2 9 5) 40 4 1 true)) = 5%nat /\
  valid_call (CallEncodeYUVPlanes 5 0 3 3 false 2 [8; 0; 5]) /\
  length (model_trace (CallEncodeYUVPlanes 5 0 3 3 false 2 [8; 0; 5])) = 11%nat /\
  set_crop 33 17 1 2 16 (mkRegion 8 2 0 5) = Some (mkRegion 8 2 9 5).
Proof. exact ex_call. Qed.
