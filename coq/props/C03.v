(* C03 -- property theorems only: statement + exact + Print Assumptions. *)
From Coq Require Import List ZArith Bool.
From LJT Require Import model.Huff model.Seq model.Prog model.Script model.ArithBin gen.GenNatOrder
  proofs.NatOrderProofs proofs.SeqBits proofs.SeqProofs proofs.ProgProofs proofs.ProgRefineProofs proofs.ScriptProofs
  proofs.ChainProofs proofs.ArithProofs proofs.ArithACProofs proofs.ArithQMProofs proofs.ArithScanProofs proofs.TotalityProofs model.CoefCtl model.RestartCtr gen.GenRestartCtr proofs.RestartCtrProofs gen.GenScanCtl proofs.CoefCtlProofs proofs.ScanCtlProofs model.T81Arith
  proofs.T81ArithProofsIdeal proofs.T81ArithProofsBytes proofs.ExampleCodec proofs.C03Examples gen.GenEntropyBytes proofs.EntropyBytesProofs gen.GenRestartClamp proofs.RestartProofs.
Import ListNotations.
Local Open Scope Z_scope.

(* ---- tie to the source: the model's zigzag table is jutils.c jpeg_natural_order[] of the
   tree under test: a permutation of 0..63 with 16 trailing 63s; jchuff.c's unrolled kloop
   list is entries 1..63 of it *)
Theorem C03_natural_order :
  map Z.of_nat natural_order = gen_natural_order /\
  gen_kloop_order = firstn 63 (skipn 1 gen_natural_order) /\
  skipn 64 natural_order = repeat 63%nat 16 /\
  ((forall k, (k < 64)%nat -> (order k < 64)%nat) /\
   (forall j k, (j < 64)%nat -> (k < 64)%nat -> order j = order k -> j = k) /\
   (forall i, (i < 64)%nat -> exists k, (k < 64)%nat /\ order k = i)).
Proof. exact nat_order_facts. Qed.
Print Assumptions C03_natural_order.

(* the constants the models use are the ones in the source (ZRL thresholds, EOBRUN flush
   0x7FFF at both places, MAX_CORR_BITS, nbits limits, restart numbering mask, k += 15) *)
Theorem C03_source_constants :
  gen_dctsize2 = DCTSIZE2 /\ gen_seq_zrl_threshold = 16 * gen_seq_run_step /\ gen_seq_run_step = 16 /\
  gen_seq_dc_extra_bits = 1 /\ gen_max_coef_bits_offset = 2 /\ gen_restart_num_mask = 7 /\
  gen_eobrun_flush_ac_first = EOBRUN_FLUSH /\ gen_eobrun_flush_ac_refine = EOBRUN_FLUSH /\
  gen_max_corr_bits = MAX_CORR_BITS /\ gen_acr_be_before_flush = true /\ gen_prog_zrl_run_first = 15 /\ gen_prog_zrl_run_refine = 15 /\
  gen_eobrun_max_nbits = 14 /\ gen_dec_zrl_r = 15 /\ gen_dec_zrl_skip = 15 /\
  gen_pdec_zrl_r = 15 /\ gen_pdec_zrl_skip = 15.
Proof. exact source_constants. Qed.
Print Assumptions C03_source_constants.

(* the byte layer of the models (0xFF stuffing / unstuffing, 1-fill, FF RSTn) is that of jchuff.c,
   jcphuff.c, jdhuff.c; the bin layout of the arithmetic binarisation is that of jcarith.c / jdarith.c *)
Theorem C03_source_entropy_bytes :
  stuff [gen_phuff_stuff_trigger] = [gen_phuff_stuff_trigger; gen_phuff_stuffed] /\
  stuff [gen_chuff_stuff_trigger] = [gen_chuff_stuff_trigger; gen_chuff_stuffed] /\
  stuff [gen_phuff_stuff_trigger - 1] = [gen_phuff_stuff_trigger - 1] /\
  load_seg [gen_dhuff_stuff_trigger; gen_dhuff_stuffed; 7] = ([gen_dhuff_data; 7], []) /\
  load_seg [gen_dhuff_stuff_trigger; gen_rst0; 7] = ([], [gen_dhuff_stuff_trigger; gen_rst0; 7]) /\
  seg_bytes [false] = [gen_phuff_fill_code] /\ gen_phuff_fill_bits = 7 /\
  byte_val (pad8 []) 0 = gen_chuff_fill_mask /\
  enc_scan unit (fun _ => Some []) 1 [tt; tt] = Some [gen_phuff_marker_prefix; gen_rst0] /\
  gen_chuff_marker_prefix = gen_phuff_marker_prefix /\
  X1 = gen_arith_x1 /\
  x_base gen_arith_default_K 5 = gen_arith_xlow /\ x_base gen_arith_default_K 6 = gen_arith_xhigh /\
  (forall k, se_bin k = gen_arith_se_mult * (Z.of_nat k - gen_arith_se_sub)) /\
  enc_mag_ac 0 100 2 = [(0, true); (0, true); (100, false); (100 + gen_arith_m_offset, false)] /\
  snd (enc_magnitude 3 2) = 2 /\ gen_arith_mag_overflow = 32768 /\ gen_arith_dc_mask + 1 = 65536 /\
  a_L acomp0 = gen_arith_default_L /\ a_U acomp0 = gen_arith_default_U /\ a_K acomp0 = gen_arith_default_K.
Proof. exact source_entropy_bytes. Qed.
Print Assumptions C03_source_entropy_bytes.

(* ---- (3) magnitude coding: for EVERY nonzero v (no bound), the nbits|v| low bits of
   (v >= 0 ? v : v - 1) read back with GET_BITS and HUFF_EXTEND give v; the branch-free
   HUFF_EXTEND of jdhuff.c agrees with the conditional one on 32-bit ints *)
Theorem C03_magnitude_coding :
  (forall v rest, v <> 0 ->
     exists x, get_bits (nbits (Z.abs v)) (mag_bits v (nbits (Z.abs v)) ++ rest) = Some (x, rest) /\
               huff_extend x (nbits (Z.abs v)) = v) /\
  (forall v s, 1 <= s -> 2 ^ (s - 1) <= Z.abs v < 2 ^ s ->
     huff_extend ((if v <? 0 then v - 1 else v) mod 2 ^ s) s = v) /\
  (forall x s, 1 <= s <= 16 -> 0 <= x < 2 ^ s -> huff_extend_branchless x s = huff_extend x s) /\
  (forall x, 0 < x -> 1 <= nbits x /\ 2 ^ (nbits x - 1) <= x < 2 ^ nbits x).
Proof.
  exact (conj mag_roundtrip (conj extend_low_bits (conj huff_extend_branchless_eq nbits_bounds))).
Qed.
Print Assumptions C03_magnitude_coding.

(* ---- (1) one block: for every prefix-code codec pair (the property is a field of the
   record), every 64-coefficient block the encoder accepts (its nbits range checks pass,
   max_coef_bits <= 15) and every continuation of the bit stream *)
Theorem C03_seq_block_roundtrip : forall (dc ac : codec) (mcb last_dc : Z) (b : list Z) (bits rest : list bool),
  mcb <= 15 -> length b = 64%nat ->
  enc_block dc ac mcb last_dc b = Some bits ->
  dec_block dc ac last_dc (bits ++ rest) = Some (b, rest).
Proof. intros dc ac mcb last_dc b bits rest H. exact (block_roundtrip dc ac mcb H last_dc b bits rest). Qed.
Print Assumptions C03_seq_block_roundtrip.

Example C03_seq_block_nonvacuous :
  exists bits, enc_block fix8 fix8 10 5 ex_block = Some bits /\ length bits = 78%nat /\
    dec_block fix8 fix8 5 (bits ++ [true; false; true]) = Some (ex_block, [true; false; true]).
Proof. exact ex_C03_seq_block_nonvacuous. Qed.

(* ---- (2) a whole scan: every MCU list, every MCU layout (membership: interleaved or not),
   every restart interval Ri (0 = none; dividing the MCU count or not), DC prediction chain
   with reset at each restart, RSTn numbering mod 8, 1-padding and 0xFF stuffing *)
Theorem C03_seq_scan_roundtrip : forall (dct act : nat -> codec) (mcb : Z) (mem : list nat) (ncomp Ri : nat)
    (ms : list (list (list Z))) (bytes : list Z),
  mcb <= 15 -> Forall (Forall (fun b => length b = 64%nat)) ms ->
  seq_enc_scan dct act mcb mem ncomp Ri ms = Some bytes ->
  seq_dec_scan dct act mem ncomp Ri (length ms) bytes = Some ms.
Proof. exact seq_scan_roundtrip_thm. Qed.
Print Assumptions C03_seq_scan_roundtrip.

Example C03_seq_scan_nonvacuous :
  let ms := [[ex_block; ex_block2; ex_block3]; [ex_block3; ex_block3; ex_block]; [ex_block2; ex_block; ex_block];
             [ex_block; ex_block; ex_block2]; [ex_block3; ex_block2; ex_block2]] in
  exists bytes, seq_enc_scan (fun _ => fix8) (fun _ => fix8) 10 [0; 0; 1]%nat 2 2 ms = Some bytes /\
    In 255 bytes /\ seq_dec_scan (fun _ => fix8) (fun _ => fix8) [0; 0; 1]%nat 2 2 5 bytes = Some ms.
Proof. exact ex_C03_seq_scan_nonvacuous. Qed.

(* ---- the interval the encoders restart at (cinfo->restart_interval after jcmaster.c
   per_scan_setup, both functions regenerated from the source) is the interval emit_dri()
   announces, for every restart_in_rows / MCUs_per_row / directly set interval; hence a decoder
   that takes the interval from the DRI field splits the stream where the encoder restarted *)
Theorem C03_restart_interval_announced : forall rows mpr ri, 0 <= rows -> 0 <= mpr -> 0 <= ri ->
  let used := gen_per_scan_interval rows mpr ri in
  0 <= used <= 65535 /\ gen_dri_field used = used.
Proof. exact restart_interval_announced. Qed.
Print Assumptions C03_restart_interval_announced.

Theorem C03_seq_scan_roundtrip_dri : forall dct act mcb mem ncomp rows mpr ri ms bytes,
  0 <= rows -> 0 <= mpr -> 0 <= ri -> mcb <= 15 -> Forall (Forall (fun b => length b = 64%nat)) ms ->
  seq_enc_scan dct act mcb mem ncomp (Z.to_nat (gen_per_scan_interval rows mpr ri)) ms = Some bytes ->
  seq_dec_scan dct act mem ncomp (Z.to_nat (gen_dri_field (gen_per_scan_interval rows mpr ri))) (length ms) bytes = Some ms.
Proof. exact seq_scan_roundtrip_dri. Qed.
Print Assumptions C03_seq_scan_roundtrip_dri.

(* ---- (4) progressive: DC first / DC refine / AC first scans, all block lists, all restart
   intervals, EOBRUN of any length (forced flush at 0x7FFF included) *)
Theorem C03_dc_first_scan_roundtrip : forall dct mcb Al mem ncomp Ri ms cur bytes,
  length cur = length ms ->
  Forall (fun mc => length (snd mc) = length (fst mc)) (combine ms cur) ->
  dcf_enc_scan dct mcb Al mem ncomp Ri ms = Some bytes ->
  dcf_dec_scan dct Al mem ncomp Ri cur bytes =
    Some (map (fun mc => dcf_res Al (fst mc) (snd mc)) (combine ms cur)).
Proof. exact dcf_scan_roundtrip. Qed.
Print Assumptions C03_dc_first_scan_roundtrip.

Theorem C03_dc_refine_scan_roundtrip : forall Al Ri ms cur bytes,
  length cur = length ms ->
  Forall (fun mc => length (snd mc) = length (fst mc)) (combine ms cur) ->
  dcr_enc_scan Al Ri ms = Some bytes ->
  dcr_dec_scan Al Ri cur bytes = Some (map (fun mc => dcr_res Al (fst mc) (snd mc)) (combine ms cur)).
Proof. exact dcr_scan_roundtrip. Qed.
Print Assumptions C03_dc_refine_scan_roundtrip.

(* the DC value stored after the first scan is the arithmetic-shift truncation; a refinement
   scan at Al turns truncation at Al+1 into truncation at Al; at Al = 0 it is the value *)
Theorem C03_dc_value_chain :
  (forall Al b blk, 0 <= Al -> (0 < length blk)%nat ->
     nth 0%nat blk 0 = dc_state (Al + 1) (nth 0%nat b 0) ->
     nth 0%nat (dcr_block Al b blk) 0 = dc_state Al (nth 0%nat b 0)) /\
  (forall v, dc_state 0 v = v).
Proof. exact (conj dcr_block_value dc_state_0). Qed.
Print Assumptions C03_dc_value_chain.

Theorem C03_ac_first_scan_roundtrip : forall ac mcb Ss Se Al Ri bl cur bytes,
  mcb <= 15 -> (1 <= Ss)%nat -> (Ss <= Se)%nat /\ (Se <= 63)%nat -> length cur = length bl ->
  acf_enc_scan ac mcb Ss Se Al Ri bl = Some bytes ->
  acf_dec_scan ac Ss Se Al Ri cur bytes = Some (acf_res_list Ss Se Al bl cur).
Proof. exact acf_scan_roundtrip. Qed.
Print Assumptions C03_ac_first_scan_roundtrip.

(* what AC-first leaves: band positions hold sign(v) * ((|v| >> Al) << Al), the rest is untouched *)
Theorem C03_ac_first_values : forall Ss Se Al b blk,
  (Ss <= Se)%nat -> (Se <= 63)%nat -> length blk = 64%nat ->
  (forall j, (Ss <= j <= Se)%nat -> nth (order j) blk 0 = 0) ->
  length (acf_res Ss Se Al b blk) = 64%nat /\
  forall j, (j < 64)%nat -> nth (order j) (acf_res Ss Se Al b blk) 0 =
    if ((Ss <=? j) && (j <=? Se))%nat then ac_state Al (nth (order j) b 0) else nth (order j) blk 0.
Proof. exact acf_res_spec. Qed.
Print Assumptions C03_ac_first_values.

(* more than 32767 consecutive all-zero blocks: the run is split at 0x7FFF and still decodes *)
Example C03_eobrun_overflow_nonvacuous : 32767 < 32800 /\ eobrun_example_check 32800 = true.
Proof. split; [reflexivity|exact eobrun_example_ok]. Qed.

(* ---- AC refinement (jcphuff.c encode_mcu_AC_refine / jdphuff.c decode_mcu_AC_refine): for every
   codec, band 1 <= Ss <= Se <= 63, Al >= 0, every block list and every state of already-coded
   coefficients (band = magnitude truncation at Al+1), one restart interval round-trips: EOBRUN of
   any length with the buffered correction bits (BE), the BR bits behind each symbol, ZRL only
   while a newly nonzero coefficient follows (k <= EOB), the forced flushes at 0x7FFF and at
   BE > MAX_CORR_BITS - DCTSIZE2 + 1; and so does a whole scan for every restart interval *)
Theorem C03_ac_refine_segment_roundtrip : forall ac Ss Se Al bl cur bits rest,
  (1 <= Ss)%nat -> (Ss <= Se)%nat /\ (Se <= 63)%nat -> 0 <= Al ->
  length cur = length bl ->
  Forall (fun bc => acr_hist Ss Se Al (fst bc) (snd bc)) (combine bl cur) ->
  enc_acr_blocks ac Ss Se Al bl 0 [] = Some bits ->
  dec_acr_blocks ac Ss Se Al cur 0 (bits ++ rest) =
    Some (map (fun bc => acr_expected Ss Se Al (fst bc) (snd bc)) (combine bl cur), rest).
Proof. intros ac Ss Se Al bl cur bits rest H1 H2 H3. exact (acr_segment_roundtrip_thm ac Ss Se Al H1 H2 H3 bl cur bits rest). Qed.
Print Assumptions C03_ac_refine_segment_roundtrip.

Theorem C03_ac_refine_scan_roundtrip : forall ac Ss Se Al Ri bl cur bytes,
  (1 <= Ss)%nat -> (Ss <= Se)%nat /\ (Se <= 63)%nat -> 0 <= Al ->
  length cur = length bl ->
  Forall (fun bc => acr_hist Ss Se Al (fst bc) (snd bc)) (combine bl cur) ->
  acr_enc_scan ac Ss Se Al Ri bl = Some bytes ->
  acr_dec_scan ac Ss Se Al Ri cur bytes =
    Some (map (fun bc => acr_expected Ss Se Al (fst bc) (snd bc)) (combine bl cur)).
Proof. exact acr_scan_roundtrip. Qed.
Print Assumptions C03_ac_refine_scan_roundtrip.

(* the result, pointwise: band positions hold sign(v) * ((|v| >> Al) << Al), the rest is untouched *)
Theorem C03_ac_refine_values : forall Ss Se Al b blk,
  length (acr_expected Ss Se Al b blk) = 64%nat /\
  forall j, (j < 64)%nat -> nth (order j) (acr_expected Ss Se Al b blk) 0 =
    if in_band Ss Se j then ac_state Al (nth (order j) b 0) else nth (order j) blk 0.
Proof. exact acr_expected_spec. Qed.
Print Assumptions C03_ac_refine_values.

Example C03_ac_refine_instances :
  acr_example_check 1 63 1 = true /\ acr_example_check 1 63 0 = true /\ acr_example_check 2 40 1 = true.
Proof. exact acr_examples_ok. Qed.

(* ---- (5) validate_script: an accepted progressive script codes every coefficient of every
   component as the chain (0,a0),(a0,a0-1),...; DC before AC; DC data for every component;
   the returned state is the last Al; script_complete = every chain present and ended at 0 *)
Theorem C03_script_valid_chain : forall nc prec scans state, 0 <= nc ->
  validate_script nc prec scans = inr (Progressive, state) ->
  (forall c k, 0 <= c < nc -> 0 <= k < 64 -> chain_from (-1) (scans_of scans c k)) /\
  (forall l1 s l2, scans = l1 ++ s :: l2 -> s_Ss s <> 0 -> forall c, In c (s_comps s) -> scans_of l1 c 0 <> []) /\
  (forall c, 0 <= c < nc -> scans_of scans c 0 <> []) /\
  (forall c k, 0 <= c < nc -> 0 <= k < 64 ->
     nthZ (row_of (fst state) (Z.to_nat c)) (Z.to_nat k) = last_al (-1) (scans_of scans c k)) /\
  (script_complete state = true ->
     forall c k, 0 <= c < nc -> 0 <= k < 64 -> scans_of scans c k <> [] /\ last_al (-1) (scans_of scans c k) = 0).
Proof. exact script_valid_chain_thm. Qed.
Print Assumptions C03_script_valid_chain.

Example C03_script_nonvacuous :
  let sc := [ {| s_comps := [0; 1; 2]; s_Ss := 0; s_Se := 0; s_Ah := 0; s_Al := 1 |};
              {| s_comps := [0]; s_Ss := 1; s_Se := 5; s_Ah := 0; s_Al := 2 |};
              {| s_comps := [2]; s_Ss := 1; s_Se := 63; s_Ah := 0; s_Al := 1 |};
              {| s_comps := [1]; s_Ss := 1; s_Se := 63; s_Ah := 0; s_Al := 1 |};
              {| s_comps := [0]; s_Ss := 6; s_Se := 63; s_Ah := 0; s_Al := 2 |};
              {| s_comps := [0]; s_Ss := 1; s_Se := 63; s_Ah := 2; s_Al := 1 |};
              {| s_comps := [0; 1; 2]; s_Ss := 0; s_Se := 0; s_Ah := 1; s_Al := 0 |};
              {| s_comps := [2]; s_Ss := 1; s_Se := 63; s_Ah := 1; s_Al := 0 |};
              {| s_comps := [1]; s_Ss := 1; s_Se := 63; s_Ah := 1; s_Al := 0 |};
              {| s_comps := [0]; s_Ss := 1; s_Se := 63; s_Ah := 1; s_Al := 0 |} ] in
  exists st, validate_script 3 8 sc = inr (Progressive, st) /\ script_complete st = true.
Proof. exact ex_C03_script_nonvacuous. Qed.

(* ---- successive approximation: per coefficient, the value functions of the four decoder
   procedures composed along any chain of a complete accepted script give back the value *)
Theorem C03_sa_chain_restores : forall nc prec scans st,
  0 <= nc -> validate_script nc prec scans = inr (Progressive, st) -> script_complete st = true ->
  forall c k v, 0 <= c < nc -> 0 <= k < 64 ->
    (k = 0 -> run_chain dc_first_val dc_refine_val (scans_of scans c k) 0 v = v) /\
    (k <> 0 -> run_chain ac_first_val ac_refine_val (scans_of scans c k) 0 v = v).
Proof. exact sa_chain_restores. Qed.
Print Assumptions C03_sa_chain_restores.

(* ---- (6) arithmetic coding.  The binarisation layers of jcarith.c / jdarith.c (DC difference with
   dc_context conditioning; AC coefficients of sequential / first scans incl. EOB and zero-run
   decisions, magnitude category and bit pattern; AC refinement with the EOBx rule; DC refinement)
   are mutually inverse and use the same statistics bins in the same order
   (a) for any decision source that delivers the coded decisions (abstract QM coder), and
   (b) for the QM coder model of C04 (model/T81Arith.v, qm_roundtrip proved there): anywhere inside
       an arithmetic-coded interval (after the decisions pre, with more to come). *)
Theorem C03_arith_dc_roundtrip_abstract :
  forall (stream : Type) (next : Z -> stream -> option (bool * stream)) (carries : stream -> list decision -> Prop),
  (forall s st b ds, carries s ((st, b) :: ds) -> exists s', next st s = Some (b, s') /\ carries s' ds) ->
  forall ctx L U v ds ctx' rest s, Z.abs v <= 32768 ->
    enc_dc_arith ctx L U v = (ds, ctx') -> carries s (ds ++ rest) ->
    exists s', dec_dc_arith stream next ctx L U s = Some (v, ctx', s') /\ carries s' rest.
Proof. exact arith_dc_roundtrip. Qed.
Print Assumptions C03_arith_dc_roundtrip_abstract.

Theorem C03_arith_dc_roundtrip : forall pre more ctx L U v ds ctx', Z.abs v <= 32768 ->
  enc_dc_arith ctx L U v = (ds, ctx') ->
  exists q', dec_dc_arith qdec qm_decode ctx L U (at_point pre (ds ++ more)) = Some (v, ctx', q') /\ carriesQ q' more.
Proof. exact arith_dc_roundtrip_qm. Qed.
Print Assumptions C03_arith_dc_roundtrip.

Theorem C03_arith_ac_first_roundtrip : forall pre more Kx Ss Se Al b blk, (Ss <= Se)%nat -> (Se <= 63)%nat ->
  Forall (fun v => Z.abs v <= 32768) (acf_band Ss Se Al b) ->
  exists q', dec_acf_a qdec qm_decode Kx Se Al 130 Ss true blk (at_point pre (enc_acf_block_a Kx Ss Se Al b ++ more))
             = Some (acf_res Ss Se Al b blk, q') /\ carriesQ q' more.
Proof. exact arith_ac_first_roundtrip_qm. Qed.
Print Assumptions C03_arith_ac_first_roundtrip.

Theorem C03_arith_ac_refine_roundtrip : forall pre more Ss Se Al b h,
  (1 <= Ss)%nat -> (Ss <= Se)%nat /\ (Se <= 63)%nat -> 0 <= Al -> acr_hist Ss Se Al b h ->
  exists q', dec_acr_a qdec qm_decode Se Al 65 Ss true h (at_point pre (enc_acr_block_a Ss Se Al (Al + 1) b ++ more))
             = Some (acr_expected Ss Se Al b h, q') /\ carriesQ q' more.
Proof. exact arith_ac_refine_roundtrip_qm. Qed.
Print Assumptions C03_arith_ac_refine_roundtrip.

Theorem C03_arith_dc_refine_roundtrip : forall pre more Al b blk,
  exists q', dec_dcr_a qdec qm_decode Al blk (at_point pre (enc_dcr_a Al b ++ more)) = Some (dcr_block Al b blk, q') /\ carriesQ q' more.
Proof. exact arith_dc_refine_roundtrip_qm. Qed.
Print Assumptions C03_arith_dc_refine_roundtrip.

(* the decoder state "at_point" really is the state of the decoder run on the encoder's bytes *)
Theorem C03_arith_at_point : forall pre rest,
  at_point pre rest = snd (qm_run (map fst pre) (qm_init_dec (qm_encode_all (pre ++ rest)))) /\
  fst (qm_run (map fst (pre ++ rest)) (qm_init_dec (qm_encode_all (pre ++ rest)))) = map snd (pre ++ rest).
Proof. exact at_point_spec. Qed.
Print Assumptions C03_arith_at_point.

Example C03_arith_qm_nonvacuous : arith_example_check = true.
Proof. exact ex_arith_qm. Qed.

(* the hypothesis is satisfiable (identity "coder": the stream is the decision list) and the
   binarisation then round-trips a maximal-category difference *)
Example C03_arith_nonvacuous :
  let next := fun (st : Z) (s : list decision) =>
                match s with (st', b) :: t => if st =? st' then Some (b, t) else None | [] => None end in
  (forall s st b ds, s = (st, b) :: ds -> exists s', next st s = Some (b, s') /\ s' = ds) /\
  dec_dc_arith (list decision) next 4 0 1 (fst (enc_dc_arith 4 0 1 (-32767)) ++ [(7, true)])
    = Some (-32767, snd (enc_dc_arith 4 0 1 (-32767)), [(7, true)]).
Proof. exact ex_C03_arith_nonvacuous. Qed.

(* ---- arithmetic scans at the BYTE level: per restart interval all decisions through the QM coder
   with its flush (an interval may emit no byte), stuffed, RSTn between intervals; every restart
   interval; statistics / dc_context / last_dc_val reset per interval *)
Theorem C03_arith_ac_first_scan_roundtrip : forall cs Al Ss Se Ri bl cur bytes, (Ss <= Se)%nat -> (Se <= 63)%nat ->
  length cur = length bl ->
  Forall (fun b => Forall (fun v => Z.abs v <= 32768) (acf_band Ss Se Al b)) bl ->
  aacf_enc_scan cs Al Ss Se Ri bl = Some bytes ->
  aacf_dec_scan cs Al Ss Se Ri cur bytes = Some (acf_res_list Ss Se Al bl cur).
Proof. exact aacf_scan_roundtrip. Qed.
Print Assumptions C03_arith_ac_first_scan_roundtrip.

Theorem C03_arith_ac_refine_scan_roundtrip : forall cs Al Ss Se Ri bl cur bytes,
  (1 <= Ss)%nat -> (Ss <= Se)%nat /\ (Se <= 63)%nat -> 0 <= Al -> length cur = length bl ->
  Forall (fun bc => acr_hist Ss Se Al (fst bc) (snd bc)) (combine bl cur) ->
  aacr_enc_scan cs Al Ss Se (Al + 1) Ri bl = Some bytes ->
  aacr_dec_scan cs Al Ss Se Ri cur bytes = Some (map (fun bc => acr_expected Ss Se Al (fst bc) (snd bc)) (combine bl cur)).
Proof. exact aacr_scan_roundtrip. Qed.
Print Assumptions C03_arith_ac_refine_scan_roundtrip.

Theorem C03_arith_dc_refine_scan_roundtrip : forall Al Ri ms cur bytes, length cur = length ms ->
  Forall (fun mc => length (snd mc) = length (fst mc)) (combine ms cur) ->
  adcr_enc_scan Al Ri ms = Some bytes ->
  adcr_dec_scan Al Ri cur bytes = Some (map (fun mc => dcr_res Al (fst mc) (snd mc)) (combine ms cur)).
Proof. exact adcr_scan_roundtrip. Qed.
Print Assumptions C03_arith_dc_refine_scan_roundtrip.

(* sequential arithmetic scans (DC with dc_context conditioning and the decoder's & 0xffff / (JCOEF) store,
   then AC), any MCU layout: blocks with DC in [-2^14, 2^14) and |AC| <= 2^15 *)
Theorem C03_arith_seq_scan_roundtrip : forall cs mem ncomp Ri ms bytes, Forall (Forall ablk_ok) ms ->
  aseq_enc_scan cs mem ncomp Ri ms = Some bytes ->
  aseq_dec_scan cs mem ncomp Ri (length ms) bytes = Some ms.
Proof. exact aseq_scan_roundtrip. Qed.
Print Assumptions C03_arith_seq_scan_roundtrip.

(* DC first arithmetic scans (point transform 0 <= Al <= 13, DC in [-2^14, 2^14)) *)
Theorem C03_arith_dc_first_scan_roundtrip : forall cs mem Al ncomp Ri ms cur bytes, 0 <= Al <= 13 -> length cur = length ms ->
  Forall (fun mc => length (snd mc) = length (fst mc) /\ Forall (adcf_blk_ok Al) (fst mc)) (combine ms cur) ->
  adcf_enc_scan cs mem Al ncomp Ri ms = Some bytes ->
  adcf_dec_scan cs mem Al ncomp Ri cur bytes = Some (map (fun mc => dcf_res Al (fst mc) (snd mc)) (combine ms cur)).
Proof. exact adcf_scan_roundtrip. Qed.
Print Assumptions C03_arith_dc_first_scan_roundtrip.

(* ---- encoder totality within the data-precision guards *)
Theorem C03_enc_block_total : forall dc ac mcb, mcb <= 15 -> covers ac 0 255 -> covers dc 0 16 ->
  forall last_dc b, Forall (coef_ok mcb) (skipn 1 (zz_of b)) -> nbits (Z.abs (nth 0%nat b 0 - last_dc)) <= mcb + 1 ->
  exists bits, enc_block dc ac mcb last_dc b = Some bits.
Proof. exact enc_block_total. Qed.
Print Assumptions C03_enc_block_total.

Theorem C03_enc_acf_blocks_total : forall ac mcb, mcb <= 15 -> covers ac 0 255 ->
  forall Ss Se Al bl e, 0 <= e < 32767 ->
  Forall (fun b => Forall (coef_ok mcb) (acf_band Ss Se Al b)) bl ->
  exists bits, enc_acf_blocks ac mcb Ss Se Al bl e = Some bits.
Proof. exact enc_acf_blocks_total. Qed.
Print Assumptions C03_enc_acf_blocks_total.

Theorem C03_arith_encoders_total : forall cs Al Ss Se Ah bl ms,
  (exists ds, aacf_enc_blocks cs Al Ss Se bl = Some ds) /\ (exists ds, aacr_enc_blocks cs Al Ss Se Ah bl = Some ds) /\
  (exists ds, adcr_enc_mcus Al ms = Some ds).
Proof. exact arith_encoders_total. Qed.
Print Assumptions C03_arith_encoders_total.

(* ---- control statements around the entropy coders (gen/GenScanCtl.v, regenerated every run) *)
(* jcarith.c finish_pass (run at the end of every restart interval and scan): every flushed byte that can be
   0xFF is followed by the stuffed 0x00, the D.1.8 masks are the expected ones; the models' interval bytes
   are the QM bytes (flush included) with every 0xFF stuffed *)
Theorem C03_source_arith_flush :
  gen_fin_sites = [(1, true); (2, false); (3, true); (4, true); (5, true)] /\
  forallb (fun s => (fst s =? 2) || snd s) gen_fin_sites = true /\
  gen_fin_round_mask = 65535 * 65536 /\ gen_fin_round_add = 32768 /\ gen_fin_overflow_mask = 31 * 2 ^ 27 /\
  gen_fin_bytes_mask = (2 ^ 16 - 1) * 2 ^ 11 /\ gen_fin_second_mask = 255 * 2 ^ 11 /\
  gen_restart_runs_finish_pass = true /\
  (forall ds tail, marker_start tail -> load_seg (stuff (qm_encode_all ds) ++ tail) = (qm_encode_all ds, tail)).
Proof. exact source_arith_flush. Qed.
Print Assumptions C03_source_arith_flush.

(* a Huffman-coded block (code lengths <= 16, max_coef_bits <= 15) has at most 2048 bits = BUFSIZE/2 bytes,
   BUFSIZE with stuffing; jdhuff.c decode_mcu demands BUFSIZE * blocks_in_MCU bytes for its unchecked fast path *)
Theorem C03_block_fits_bufsize : forall dc ac mcb, mcb <= 15 ->
  (forall s bs, c_enc ac s = Some bs -> (length bs <= 16)%nat) ->
  (forall s bs, c_enc dc s = Some bs -> (length bs <= 16)%nat) ->
  forall last_dc b bits, length b = 64%nat -> enc_block dc ac mcb last_dc b = Some bits -> Z.of_nat (length bits) <= 2048.
Proof. exact block_fits_bufsize. Qed.
Print Assumptions C03_block_fits_bufsize.

Theorem C03_source_fast_path : gen_fast_lookahead_per_block = true /\ gen_dhuff_bufsize = 512 /\ 8 * (gen_dhuff_bufsize / 2) = 2048.
Proof. exact source_fast_path. Qed.
Print Assumptions C03_source_fast_path.

(* jccoefct.c compress_data / compress_output, jctrans.c compress_output: however the entropy encoder suspends
   (oracle = results of the successive encode_mcu attempts), the resumed calls hand it the MCUs of the iMCU row
   in raster order, each exactly once -- with the per-row "coef->mcu_ctr = 0" found in the source *)
Theorem C03_resume_emits_raster : forall rows cols fuel orc, (length orc < fuel)%nat ->
  drive rows cols gen_ctr_reset_compress_data fuel 0 0 orc = Some (raster rows cols) /\
  drive rows cols gen_ctr_reset_compress_output fuel 0 0 orc = Some (raster rows cols) /\
  drive rows cols gen_ctr_reset_trans_output fuel 0 0 orc = Some (raster rows cols).
Proof. exact resume_emits_raster. Qed.
Print Assumptions C03_resume_emits_raster.

Example C03_resume_needs_the_reset : drive 2 3 false 5 0 0 [true; false] <> Some (raster 2 3).
Proof. exact no_reset_loses_mcus. Qed.

(* ---- the literal restart counters (restarts_to_go / next_restart_num of jchuff.c, jcphuff.c, jcarith.c; the decoders'
   restarts_to_go and jdmarker.c's next_restart_num), per MCU, for every restart interval and MCU count:
   they emit RSTn exactly at the chunk boundaries of the chunked layer, numbered consecutively mod 8 from 0; the decoder
   expects a marker exactly where, and with the number which, the encoder emits it; and the literal per-MCU code
   writes the bytes of enc_scan -- so every chunked round-trip theorem above applies to the literal code *)
Theorem C03_restart_counters_chunked : forall (M : Type) Ri (ms : list M),
  enc_ctr M Ri Ri 0 ms = chunk_events M (S (length ms)) Ri 0 ms.
Proof. exact enc_ctr_is_chunked. Qed.
Print Assumptions C03_restart_counters_chunked.

Theorem C03_restart_counters_decoder : forall (M : Type) (ms : list M) Ri rtg num,
  dec_ctr Ri rtg num (length ms) = map (forget M) (enc_ctr M Ri rtg num ms).
Proof. exact dec_ctr_matches_enc. Qed.
Print Assumptions C03_restart_counters_decoder.

Theorem C03_restart_numbers_mod8 : forall (M : Type) fuel Ri n (ms : list M), 0 <= n < 8 ->
  exists k, rst_numbers M (chunk_events M fuel Ri n ms) = map (fun i => (n + Z.of_nat i) mod 8) (seq 0 k).
Proof. exact chunk_numbers. Qed.
Print Assumptions C03_restart_numbers_mod8.

Theorem C03_restart_counters_bytes : forall (M : Type) (enc_seg : list M -> option (list bool)) Ri ms,
  render M enc_seg (enc_ctr M Ri Ri 0 ms) [] = enc_scan M enc_seg Ri ms.
Proof. exact render_enc_ctr. Qed.
Print Assumptions C03_restart_counters_bytes.

Theorem C03_source_restart_counters :
  forallb (Z.eqb RST_MASK) gen_enc_rst_masks = true /\ (10 <= length gen_enc_rst_masks)%nat /\
  gen_dec_rst_mask = RST_MASK /\ gen_dec_rst_step = 1 /\
  gen_enc_reload_is_interval = true /\ gen_dec_reload_is_interval = true /\
  gen_enc_init_interval_and_zero = true /\ gen_dec_init_zero = true /\
  (forall x, 0 <= x -> Z.land x RST_MASK = x mod 8).
Proof. exact source_restart_counters. Qed.
Print Assumptions C03_source_restart_counters.

Example C03_restart_counters_nonvacuous :
  enc_ctr nat 3 3 0 [10; 11; 12; 13; 14; 15; 16]%nat =
    [EvMcu 10; EvMcu 11; EvMcu 12; EvRst 0; EvMcu 13; EvMcu 14; EvMcu 15; EvRst 1; EvMcu 16]%nat.
Proof. reflexivity. Qed.
