(* C03 -- property theorems only: statement + exact + Print Assumptions. *)
From Coq Require Import List ZArith.
From LJT Require Import model.Huff model.Seq model.Prog gen.GenNatOrder proofs.NatOrderProofs.
Import ListNotations.
Local Open Scope Z_scope.

(* the model's zigzag table is jutils.c jpeg_natural_order[] of the tree under test:
   a permutation of 0..63 with 16 trailing 63s; jchuff.c's unrolled kloop list is
   entries 1..63 of it *)
Theorem C03_natural_order :
  map Z.of_nat natural_order = gen_natural_order /\
  gen_kloop_order = firstn 63 (skipn 1 gen_natural_order) /\
  skipn 64 natural_order = repeat 63%nat 16 /\
  ((forall k, (k < 64)%nat -> (order k < 64)%nat) /\
   (forall j k, (j < 64)%nat -> (k < 64)%nat -> order j = order k -> j = k) /\
   (forall i, (i < 64)%nat -> exists k, (k < 64)%nat /\ order k = i)).
Proof. exact nat_order_facts. Qed.
Print Assumptions C03_natural_order.
