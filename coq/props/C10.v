(* C10 -- property theorems only: statement + exact + Print Assumptions. *)
From Coq Require Import List ZArith.
From LJT Require Import gen.GenLayouts model.Color proofs.ColorProofs.
Local Open Scope Z_scope.

Theorem C10_layout_tables_checked : layouts_ok = true /\ fix_ok = true.
Proof. exact layouts_ok_true. Qed.
Print Assumptions C10_layout_tables_checked.
