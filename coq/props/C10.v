(* C10 -- property theorems only: statement + exact + Print Assumptions.
   Model: model/Color.v (kernels of jccolext.c / jdcolext.c / jdmrgext.c per layout, row pointers of
   turbojpeg-mp.c, gray extraction); generated facts: gen/GenLayouts.v. *)
From Coq Require Import List ZArith.
From LJT Require Import gen.GenLayouts model.Color proofs.ColorProofs model.TJFlags proofs.TJFlagsProofs model.Color565 proofs.Color565Proofs proofs.Merged565Proofs.
Import ListNotations.
Local Open Scope Z_scope.

(* (1) the offset / pixel-size tables of the current source: every colour space of the RGB family has a
   well-formed layout; every C and SIMD instantiation reached through the switch statements of
   jccolor.c / jdcolor.c / jdmerge.c / simd/x86_64/jsimd.c uses exactly the offsets of jmorecfg.h's tables;
   the RGB_ALPHA of the decompression instantiations is the remaining position of 4-sample pixels; the
   TurboJPEG tables agree with the libjpeg ones through pf2cs[], cs2pf[pf2cs[pf]] = pf; the FIX()
   constants of the C and .asm files agree. *)
Theorem C10_layouts_wellformed :
  (forall cs, In cs rgb_family_cs ->
     let L := cs_layout cs in
     WF L /\
     (forall tab, In tab (c_dispatch_tables ++ d_dispatch_tables ++ simd_dispatch_tables) ->
        rgbp_of (lookup5 tab cs) = Some (layout_rgbp L)) /\
     (forall tab, In tab d_dispatch_tables -> alpha_of (lookup5 tab cs) = Some (aoff L)) /\
     (psz L = 4 -> 0 <= aoff L)) /\
  (forall pf, In pf tj_rgb_family_pf ->
     let T := pf_layout pf in let cs := znth pf2cs_tab pf in let L := cs_layout cs in
     In cs rgb_family_cs /\ WF T /\ layout_rgbp T = layout_rgbp L /\
     (aoff T = -1 \/ aoff T = aoff L) /\ znth cs2pf_tab cs = pf) /\
  length rgb_family_cs = 11%nat /\ length tj_rgb_family_pf = 10%nat /\ fix_ok = true.
Proof. exact layouts_wellformed. Qed.
Print Assumptions C10_layouts_wellformed.

(* (2) compression: two presentations of the same picture -- any two well-formed layouts, any filler in the
   unused position, any padding (pitch >= w*psz is part of `presentation`), either row order, any width and
   height -- give the same Y/Cb/Cr, gray and RGB component planes, namely the conversion of the picture. *)
Theorem C10_compress_layout_invariant : forall p L1 L2 w pitch1 pitch2 rowsp1 rowsp2 bu1 bu2,
  WF L1 -> WF L2 -> presentation L1 w pitch1 rowsp1 -> presentation L2 w pitch2 rowsp2 ->
  picture rowsp1 = picture rowsp2 ->
  let b1 := mkbuf L1 rowsp1 bu1 in let b2 := mkbuf L2 rowsp2 bu2 in
  let p1 := rows pitch1 (length rowsp1) bu1 in let p2 := rows pitch2 (length rowsp2) bu2 in
  rgb_ycc_convert p L1 b1 p1 w = rgb_ycc_convert p L2 b2 p2 w /\
  rgb_gray_convert p L1 b1 p1 w = rgb_gray_convert p L2 b2 p2 w /\
  rgb_rgb_convert L1 b1 p1 w = rgb_rgb_convert L2 b2 p2 w /\
  rgb_ycc_convert p L1 b1 p1 w = map (map (ycc_of_rgb p)) (picture rowsp1) /\
  rgb_rgb_convert L1 b1 p1 w = picture rowsp1.
Proof. exact compress_layout_invariant. Qed.
Print Assumptions C10_compress_layout_invariant.

(* the same for arbitrary memories and arbitrary row pointers (libjpeg API): the planes are a function of
   the (r,g,b) values found at the layout's offsets, of nothing else *)
Theorem C10_compress_any_memory : forall p L1 L2 buf1 buf2 ptrs1 ptrs2 w,
  unpack L1 buf1 ptrs1 w = unpack L2 buf2 ptrs2 w ->
  rgb_ycc_convert p L1 buf1 ptrs1 w = rgb_ycc_convert p L2 buf2 ptrs2 w /\
  rgb_gray_convert p L1 buf1 ptrs1 w = rgb_gray_convert p L2 buf2 ptrs2 w /\
  rgb_rgb_convert L1 buf1 ptrs1 w = rgb_rgb_convert L2 buf2 ptrs2 w.
Proof. exact compress_any_memory. Qed.
Print Assumptions C10_compress_any_memory.

(* (3) decompression into any well-formed layout, any pitch >= w*psz, either row order, into any buffer that
   holds the rows: reading the output back at the layout's offsets gives the layout-independent colour
   conversion of the planes; the alpha position holds the maximum sample value; the buffer keeps its
   length and no sample outside the w*psz extent of the rows is modified. *)
Theorem C10_decompress_layout_invariant : forall p L w h pitch bu img buf,
  WF L -> length img = h -> Forall (fun row => length row = w) img ->
  Z.of_nat w * psz L <= pitch ->
  (Z.of_nat h - 1) * pitch + Z.of_nat w * psz L <= Z.of_nat (length buf) ->
  let ptrs := rows pitch h bu in
  let out := ycc_rgb_convert p L img buf ptrs in
  unpack L out ptrs w = map (map (rgb_of_ycc p)) img /\
  (0 <= aoff L -> unpack_alpha L out ptrs w = map (fun _ => repeat (sp_max p) w) img) /\
  length out = length buf /\
  (forall j, 0 <= j ->
     (forall i, 0 <= i < Z.of_nat h -> j < i * pitch \/ i * pitch + Z.of_nat w * psz L <= j) ->
     rd out j = rd buf j).
Proof. exact decompress_layout_invariant. Qed.
Print Assumptions C10_decompress_layout_invariant.

(* the shared output loop (gray->rgb, rgb->extended rgb use it with other pixel values), for arbitrary
   pairwise disjoint in-bounds row pointers *)
Theorem C10_output_rows : forall a L w, WF L -> forall img buf ptrs,
  length img = length ptrs -> Forall (fun row => length row = w) img ->
  in_bounds (Z.of_nat w * psz L) (length buf) ptrs -> separated (Z.of_nat w * psz L) ptrs ->
  let out := put_rows a L img buf ptrs in
  length out = length buf /\
  (forall j, 0 <= j -> outside_rows (Z.of_nat w * psz L) ptrs j -> rd out j = rd buf j) /\
  unpack L out ptrs w = img /\
  (0 <= aoff L -> unpack_alpha L out ptrs w = map (fun _ => repeat a w) img).
Proof. exact put_rows_spec. Qed.
Print Assumptions C10_output_rows.

(* merged upsampling (jdmrgext.c, h2v1 and through dup_rows h2v2) is the ordinary conversion of the row
   with every chroma sample used twice, for every layout: (3) applies to it *)
Theorem C10_merged_is_plain : forall p L ys cbs crs buf ptrs,
  h2v1_rows p L ys cbs crs buf ptrs = ycc_rgb_convert p L (merged_image ys cbs crs) buf ptrs.
Proof. exact merged_is_plain. Qed.
Print Assumptions C10_merged_is_plain.

(* (4) gray: RGB -> gray is the Y plane of RGB -> YCbCr for every layout; YCbCr -> gray output is component
   0, whatever the pitch >= w and the row order, and touches nothing else *)
Theorem C10_gray_is_luma :
  (forall p L buf ptrs w, rgb_gray_convert p L buf ptrs w = plane 0 (rgb_ycc_convert p L buf ptrs w)) /\
  (forall w h pitch bu (img : list (list px3)) buf,
     length img = h -> Forall (fun row => length row = w) img ->
     Z.of_nat w <= pitch -> (Z.of_nat h - 1) * pitch + Z.of_nat w <= Z.of_nat (length buf) ->
     let ptrs := rows pitch h bu in
     let out := grayscale_convert_d img buf ptrs in
     unpack_gray out ptrs w = plane 0 img /\ length out = length buf /\
     (forall j, 0 <= j -> (forall i, 0 <= i < Z.of_nat h -> j < i * pitch \/ i * pitch + Z.of_nat w <= j) ->
        rd out j = rd buf j)).
Proof. exact gray_is_luma. Qed.
Print Assumptions C10_gray_is_luma.

(* (4') a JPEG stored in the RGB colourspace decoded to grayscale: the decompressor's own table
   (build_rgb_y_table of jdcolor.c, entries and ONE_HALF term generated from the current source) + rgb_gray_convert
   give, for ALL r,g,b, exactly the compressor-side luminance y_of_rgb (= the Y of rgb->ycc / rgb->gray on in-range
   samples), for any pitch >= w, either row order, nothing else touched *)
Theorem C10_decompress_rgb_gray_is_luma :
  (forall p t, rgb_gray_d p t = y_of_rgb p (c0 t) (c1 t) (c2 t)) /\
  (forall p t, (p = prec8 \/ p = prec12) -> 0 <= c0 t <= sp_max p -> 0 <= c1 t <= sp_max p -> 0 <= c2 t <= sp_max p ->
     rgb_gray_d p t = gray_of_rgb p t /\ rgb_gray_d p t = c0 (ycc_of_rgb p t)) /\
  (forall p w h pitch bu (img : list (list px3)) buf,
     length img = h -> Forall (fun row => length row = w) img ->
     Z.of_nat w <= pitch -> (Z.of_nat h - 1) * pitch + Z.of_nat w <= Z.of_nat (length buf) ->
     let ptrs := rows pitch h bu in
     let out := rgb_gray_convert_d p img buf ptrs in
     unpack_gray out ptrs w = map (map (fun t => y_of_rgb p (c0 t) (c1 t) (c2 t))) img /\ length out = length buf /\
     (forall j, 0 <= j -> (forall i, 0 <= i < Z.of_nat h -> j < i * pitch \/ i * pitch + Z.of_nat w <= j) ->
        rd out j = rd buf j)).
Proof. exact decompress_rgb_gray_is_luma. Qed.
Print Assumptions C10_decompress_rgb_gray_is_luma.

(* the (_JSAMPLE) cast of rgb_ycc_convert never wraps for in-range samples (8 and 12 bit), with the
   FIX() constants of the current jccolor.c *)
Theorem C10_forward_conversion_no_wrap : forall p, p = prec8 \/ p = prec12 -> forall t,
  0 <= c0 t <= sp_max p -> 0 <= c1 t <= sp_max p -> 0 <= c2 t <= sp_max p ->
  ycc_of_rgb p t = (y_raw p (c0 t) (c1 t) (c2 t), cb_raw p (c0 t) (c1 t) (c2 t), cr_raw p (c0 t) (c1 t) (c2 t)) /\
  0 <= c0 (ycc_of_rgb p t) <= sp_max p /\ 0 <= c1 (ycc_of_rgb p t) <= sp_max p /\ 0 <= c2 (ycc_of_rgb p t) <= sp_max p.
Proof. exact forward_conversion_no_wrap. Qed.
Print Assumptions C10_forward_conversion_no_wrap.

(* the range_limit[] subscripts of the inverse conversion (separate and merged) stay inside the part of the
   table built by jdmaster.c that is a clamp, so `clamp` in the model is what the table lookup returns *)
Theorem C10_decode_index_in_clamp_range : forall p mrg, p = prec8 \/ p = prec12 -> forall y cb cr,
  0 <= y <= sp_max p -> 0 <= cb <= sp_max p -> 0 <= cr <= sp_max p ->
  let ch := chroma p mrg cb cr in
  - (sp_max p + 1) <= y + c0 ch < 2 * (sp_max p + 1) + sp_center p /\
  - (sp_max p + 1) <= y + c1 ch < 2 * (sp_max p + 1) + sp_center p /\
  - (sp_max p + 1) <= y + c2 ch < 2 * (sp_max p + 1) + sp_center p.
Proof. exact decode_index_in_clamp_range. Qed.
Print Assumptions C10_decode_index_in_clamp_range.

(* every way the row order is requested: the legacy entry points (tjCompress2, tjDecompress2, tjEncodeYUV3, ... 13 callers)
   go through processFlags(), whose statements are generated from the current turbojpeg.c.  After it, bottomUp,
   fastUpsample, noRealloc, fastDCT, stopOnWarning and progressive are functions of this call's (flags, quality,
   operation) alone -- whatever an earlier call left in the instance -- and bottomUp is exactly TJFLAG_BOTTOMUP of this call.
   (scanLimit is deliberately set-only in the source and is not a per-call parameter.) *)
Theorem C10_process_flags_history_free : forall flags q op st1 st2 k, In k per_call_fields ->
  process_flags flags q op st1 k = process_flags flags q op st2 k.
Proof. exact process_flags_history_free. Qed.
Print Assumptions C10_process_flags_history_free.

Theorem C10_process_flags_bottomup : forall flags q op st,
  process_flags flags q op st F_bottomUp = b2z (has flags TJFLAG_BOTTOMUP).
Proof. exact process_flags_bottomup. Qed.
Print Assumptions C10_process_flags_bottomup.

(* ---- round 3: range-limit table, CMYK/YCCK, RGB565 ---- *)
(* prepare_range_limit_table (jdmaster.c; its segment list is generated from the source, one shape for 8/12/16 bit):
   for every MAX = 2*CENTER - 1 the table is exactly: 0 below 0, identity on [0,MAX], MAX up to 2(MAX+1)+CENTER,
   0 up to 4(MAX+1), then the first CENTER identity entries again; nothing else is allocated *)
Theorem C10_range_limit_table_shape : forall M C i, 0 < C -> 2 * C = M + 1 ->
  range_limit_tab M C i =
    if (i <? - (M + 1)) then None
    else if (i <? 0) then Some 0
    else if (i <=? M) then Some i
    else if (i <? 2 * (M + 1) + C) then Some M
    else if (i <? 4 * (M + 1)) then Some 0
    else if (i <? 4 * (M + 1) + C) then Some (i - 4 * (M + 1))
    else None.
Proof. exact range_limit_table_shape. Qed.
Print Assumptions C10_range_limit_table_shape.

Theorem C10_range_limit_16bit : forall i, - (MAXJ16SAMPLE + 1) <= i < 2 * (MAXJ16SAMPLE + 1) + CENTERJ16SAMPLE ->
  range_limit_tab MAXJ16SAMPLE CENTERJ16SAMPLE i = Some (if i <? 0 then 0 else if MAXJ16SAMPLE <? i then MAXJ16SAMPLE else i).
Proof. exact range_limit_16bit. Qed.
Print Assumptions C10_range_limit_16bit.

(* CMYK -> YCCK (jccolor.c): K untouched, Y/Cb/Cr = RGB->YCbCr of the complemented C,M,Y; only the four samples of a
   pixel are read, so pitch / row order / padding cannot matter *)
Theorem C10_cmyk_ycck_channels : forall p buf ip,
  let '(y, cb, cr, k) := cmyk_ycck_pixel p buf ip in
  k = rd buf (ip + 3) /\
  ((p = prec8 \/ p = prec12) ->
   0 <= rd buf ip <= sp_max p -> 0 <= rd buf (ip + 1) <= sp_max p -> 0 <= rd buf (ip + 2) <= sp_max p ->
   (y, cb, cr) = ycc_of_rgb p (sp_max p - rd buf ip, sp_max p - rd buf (ip + 1), sp_max p - rd buf (ip + 2))).
Proof. exact cmyk_ycck_channels. Qed.
Print Assumptions C10_cmyk_ycck_channels.

Theorem C10_cmyk_ycck_any_memory : forall p buf1 buf2 ptrs1 ptrs2 w,
  unpack4 buf1 ptrs1 w = unpack4 buf2 ptrs2 w -> cmyk_ycck_convert p buf1 ptrs1 w = cmyk_ycck_convert p buf2 ptrs2 w.
Proof. exact cmyk_ycck_any_memory. Qed.
Print Assumptions C10_cmyk_ycck_any_memory.

(* YCCK -> CMYK (jdcolor.c), through the real table model rl: C,M,Y = MAX - (R,G,B of YCbCr->RGB), K untouched *)
Theorem C10_ycck_cmyk_channels : forall p, (p = prec8 \/ p = prec12) -> forall y cb cr k,
  0 <= y <= sp_max p -> 0 <= cb <= sp_max p -> 0 <= cr <= sp_max p ->
  let '(r, g, b) := rgb_of_ycc p (y, cb, cr) in
  ycck_cmyk_pixel p (y, cb, cr, k) = (sp_max p - r, sp_max p - g, sp_max p - b, k).
Proof. exact ycck_cmyk_channels. Qed.
Print Assumptions C10_ycck_cmyk_channels.

(* RGB565 (jdcol565.c): the documented 5-6-5 word *)
Theorem C10_pack565_fields : forall r g b, 0 <= r <= 255 -> 0 <= g <= 255 -> 0 <= b <= 255 ->
  pack565 false r g b = (r / 8) * 2048 + (g / 4) * 32 + b / 8 /\ 0 <= pack565 false r g b < 65536.
Proof. exact pack565_fields. Qed.
Print Assumptions C10_pack565_fields.

(* source fact (generated): jdcol565.c re-initialises num_cols from output_width inside the row loop *)
Theorem C10_source_rgb565_resets_num_cols : rgb565_numcols_reset_per_row = true.
Proof. exact source_rgb565_resets_num_cols. Qed.
Print Assumptions C10_source_rgb565_resets_num_cols.

(* ... hence (no dithering, little-endian): whatever the alignment of the row pointers (base), the pitch, the row order
   and the number of rows one color_convert call handles, every row gets exactly its w pixels (alignment branch, pair
   loop, odd tail), the buffer keeps its length and nothing outside the 2*w bytes of the rows is written *)
Theorem C10_rgb565_all_alignments : forall src base scan wn, (1 <= wn)%nat -> Z.of_nat wn < 2 ^ 32 ->
  forall img buf ptrs,
  length img = length ptrs -> Forall (fun row => length row = wn /\ ok16 src row) img ->
  in_bounds (2 * Z.of_nat wn) (length buf) ptrs -> separated (2 * Z.of_nat wn) ptrs ->
  let out := convert565 false src false base scan (Z.of_nat wn) img buf ptrs in
  length out = length buf /\
  (forall j, 0 <= j -> outside_rows (2 * Z.of_nat wn) ptrs j -> rd out j = rd buf j) /\
  unpack565 false out ptrs wn = map (map (val565 src)) img.
Proof. exact convert565_all_alignments. Qed.
Print Assumptions C10_rgb565_all_alignments.

(* regression witness (finding F54, fixed in /repo): with num_cols carried from row to row the second unaligned row of a
   call loses its last pixel; with the per-row reset it does not *)
Theorem C10_rgb565_carried_num_cols_defect :
  let img := [[(255, 0, 8); (9, 10, 11); (4, 255, 8)]; [(9, 10, 11); (7, 0, 255); (9, 10, 11)]] in
  let buf := repeat 238 18 in
  rows565 false false 1 false 2 3 img buf [0; 8] 3 0 =
    [1; 248; 65; 8; 225; 7; 238; 238; 65; 8; 31; 0; 238; 238; 238; 238; 238; 238] /\
  rows565 true false 1 false 2 3 img buf [0; 8] 3 0 =
    [1; 248; 65; 8; 225; 7; 238; 238; 65; 8; 31; 0; 65; 8; 238; 238; 238; 238].
Proof. exact rgb565_carried_num_cols_defect. Qed.
Print Assumptions C10_rgb565_carried_num_cols_defect.

(* ---- round 3b ---- *)
(* YCCK -> CMYK output rows (jdcolor.c ycck_cmyk_convert): arbitrary pairwise disjoint in-bounds row pointers (any pitch >= 4w,
   either order): the four samples of every pixel read back as ycck_cmyk_pixel, length kept, nothing else written.
   (CMYK -> YCCK only reads: C10_cmyk_ycck_any_memory is its row-level statement.) *)
Theorem C10_ycck_cmyk_rows : forall w p (img : list (list px4)) buf ptrs,
  length img = length ptrs -> Forall (fun row => length row = w) img ->
  in_bounds (4 * Z.of_nat w) (length buf) ptrs -> separated (4 * Z.of_nat w) ptrs ->
  let out := ycck_cmyk_convert p img buf ptrs in
  length out = length buf /\
  (forall j, 0 <= j -> outside_rows (4 * Z.of_nat w) ptrs j -> rd out j = rd buf j) /\
  unpack4 out ptrs w = map (map (ycck_cmyk_pixel p)) img.
Proof. exact ycck_cmyk_rows. Qed.
Print Assumptions C10_ycck_cmyk_rows.

(* jdmrg565.c (merged upsampling to RGB565, h2v1/h2v2, plain and dithered): the model has no address input, no state carried
   from row to row; for every width >= 0 the buffer keeps its length and nothing outside the 2*w bytes of the rows is written *)
Theorem C10_merged565_frame : forall dith v2 w scan ys cbs crs buf ptrs, 0 <= w ->
  length (merged565 false dith v2 w scan ys cbs crs buf ptrs) = length buf /\
  forall j, 0 <= j -> outside_rows (2 * w) ptrs j -> rd (merged565 false dith v2 w scan ys cbs crs buf ptrs) j = rd buf j.
Proof. exact merged565_frame. Qed.
Print Assumptions C10_merged565_frame.

(* ... and the VALUES (round 4): not dithered, little-endian, h2v1 and (through dup_rows) h2v2, every width incl. the odd last
   column, arbitrary pairwise disjoint in-bounds row pointers: each output pixel is PACK_SHORT_565 of the plain YCbCr->RGB
   conversion (val565 0, the word jdcol565.c produces) of its luma sample with the chroma sample of its pair, i.e. the
   RGB565 conversion of merged_image (the same image C10_merged_is_plain speaks about); length kept, frame.
   mrow_ok wn r: row r has wn luma and (wn+1)/2 chroma samples and its 16-bit words are < 65536 (okv). *)
Theorem C10_merged565_values : forall (v2 : bool) wn scan ys (cbs crs : list (list Z)) buf ptrs,
  let cbs' := if v2 then dup_rows cbs else cbs in let crs' := if v2 then dup_rows crs else crs in
  length (zip3rows ys cbs' crs') = length ptrs -> Forall (mrow_ok wn) (zip3rows ys cbs' crs') ->
  in_bounds (2 * Z.of_nat wn) (length buf) ptrs -> separated (2 * Z.of_nat wn) ptrs ->
  let out := merged565 false false v2 (Z.of_nat wn) scan ys cbs crs buf ptrs in
  length out = length buf /\
  (forall j, 0 <= j -> outside_rows (2 * Z.of_nat wn) ptrs j -> rd out j = rd buf j) /\
  unpack565 false out ptrs wn = map (map (val565 0)) (merged_image ys cbs' crs').
Proof. exact merged565_values. Qed.
Print Assumptions C10_merged565_values.

(* ordered dithering in jdcol565.c: the dither state of a call is dither_matrix[output_scanline & 3], taken once per call ... *)
Theorem C10_dither565_call_state : forall src base scan w img buf ptrs,
  convert565 false src true base scan w img buf ptrs =
  rows565 rgb565_numcols_reset_per_row false src true base w img buf ptrs w (nth (Z.to_nat (Z.land scan DITHER_MASK)) dither_matrix 0).
Proof. exact dither565_call_state. Qed.
Print Assumptions C10_dither565_call_state.

(* ... so dithered RGB565 depends on scanlines-per-call (first row of a call agrees, the second does not; C09 territory) ... *)
Theorem C10_rgb565_dither_depends_on_rows_per_call :
  let img := [[(100, 110, 120); (101, 111, 121); (102, 112, 122); (103, 113, 123)];
              [(100, 110, 120); (101, 111, 121); (102, 112, 122); (103, 113, 123)]] in
  let buf := repeat 0 16 in
  let one_call := convert565 false 1 true 0 0 4 img buf [0; 8] in
  let two_calls := convert565 false 1 true 0 1 4 (tl img) (convert565 false 1 true 0 0 4 [hd [] img] buf [0]) [8] in
  firstn 8 one_call = firstn 8 two_calls /\ one_call <> two_calls.
Proof. exact dither565_depends_on_lines_per_call. Qed.
Print Assumptions C10_rgb565_dither_depends_on_rows_per_call.

(* ... and on the alignment of the row pointer, while the undithered conversion does not *)
Theorem C10_rgb565_dither_depends_on_alignment :
  let row := [[(100, 110, 120); (101, 111, 121); (102, 112, 122); (103, 113, 123)]] in
  let buf := repeat 0 8 in
  convert565 false 1 true 0 0 4 row buf [0] <> convert565 false 1 true 2 0 4 row buf [0] /\
  convert565 false 1 false 0 0 4 row buf [0] = convert565 false 1 false 2 0 4 row buf [0].
Proof. exact dither565_depends_on_alignment. Qed.
Print Assumptions C10_rgb565_dither_depends_on_alignment.

(* the positive statement: one scanline per call into a row at 0 mod 4 gives the documented ordered dither -- pixel k of
   scanline s is dithered with dither_matrix[s & 3] rotated k times (vals_from), the row is complete, nothing else written *)
Theorem C10_rgb565_dither_one_aligned_row : forall src base scan row buf op,
  Z.land (base + op) pack_align_mask = 0 -> okD src (dither_row scan) row -> 0 <= op ->
  op + 2 * Z.of_nat (length row) <= Z.of_nat (length buf) ->
  let out := convert565 false src true base scan (Z.of_nat (length row)) [row] buf [op] in
  length out = length buf /\
  (forall j, 0 <= j -> (j < op \/ op + 2 * Z.of_nat (length row) <= j) -> rd out j = rd buf j) /\
  cols565 false out op (length row) = vals_from src (dither_row scan) row.
Proof. exact dither565_one_aligned_row. Qed.
Print Assumptions C10_rgb565_dither_one_aligned_row.

(* generated from simd/x86_64/{jccolext,jcgryext,jdcolext,jdmrgext}-{avx2,sse2}.asm: every per-iteration advance of a plane
   pointer (inptr0/1/2 of the decompression kernels, outptr0/1/2 of the compression kernels), in both RGB_PIXELSIZE branches,
   is exactly one vector of the file's ISA *)
Theorem C10_simd_plane_pointer_advances :
  forallb (fun e => fst e =? snd e) simd_plane_ptr_advances = true /\
  (simd_present = true -> (32 <=? Z.of_nat (length simd_plane_ptr_advances)) = true).
Proof. exact simd_plane_pointer_advances. Qed.
Print Assumptions C10_simd_plane_pointer_advances.

(* non-vacuity: the hypotheses of (2) and (3) hold for concrete non-trivial values *)
Example C10_compress_example :
  let L1 := cs_layout JCS_EXT_RGB in let L2 := cs_layout JCS_EXT_XBGR in
  WF L1 /\ WF L2 /\ presentation L1 2 6 ex_rows1 /\ presentation L2 2 13 ex_rows2 /\
  picture ex_rows1 = picture ex_rows2 /\
  mkbuf L1 ex_rows1 false = [255; 0; 0; 0; 255; 0; 0; 0; 255; 200; 100; 50] /\
  mkbuf L2 ex_rows2 true = [93; 255; 0; 0; 94; 50; 100; 200; 6; 7; 8; 9; 10; 91; 0; 0; 255; 92; 0; 255; 0; 1; 2; 3; 4; 5] /\
  rgb_ycc_convert prec8 L2 (mkbuf L2 ex_rows2 true) (rows 13 2 true) 2 =
    [[(76, 85, 255); (150, 44, 21)]; [(29, 255, 107); (124, 86, 182)]].
Proof. exact compress_example. Qed.

Example C10_decompress_example :
  let L := cs_layout JCS_EXT_BGRA in
  let img := [[(76, 85, 255); (150, 44, 21)]; [(29, 255, 107); (124, 86, 182)]] in
  let buf := repeat 7 18 in
  WF L /\ 0 <= aoff L /\ Forall (fun row => length row = 2%nat) img /\
  Z.of_nat 2 * psz L <= 9 /\ (Z.of_nat 2 - 1) * 9 + Z.of_nat 2 * psz L <= Z.of_nat (length buf) /\
  ycc_rgb_convert prec8 L img buf (rows 9 2 true) =
    [254; 0; 0; 255; 50; 100; 200; 255; 7; 0; 0; 254; 255; 1; 255; 0; 255; 7].
Proof. exact decompress_example. Qed.
