(* C13 -- property theorems only: statement + exact + Print Assumptions.
   run c hs     = the world after the history hs (caller actions and calls) on destination
                  manager c (cfg_tj = jdatadst-tj.c as read from the source, cfg_ijg = jdatadst.c)
   w_ok         = no misuse by the caller and no hazard (address recycling; with the allocation-branch
                  condition before the zero-size fix also *jpegSize = 0 on reuse)
   lib_clean    = the library performed no write outside a live block, no over-read, no free of a
                  dead / caller-allocated / handed-over block
   chunks_ok    = every chunk stored through the jchuff.c STORE_BUFFER protocol is < BUFSIZE bytes *)
From Coq Require Import List ZArith.
From LJT Require Import gen.GenDest model.Dest model.WorstCase proofs.DestProofs proofs.DestLeak proofs.DestChunk proofs.WorstCaseProofs.
From LJT Require Import gen.GenXformIcc model.XformIcc proofs.XformIccProofs proofs.WorstCaseBound.
Import ListNotations.
Local Open Scope Z_scope.

(* (1) for ALL producers and ALL histories (initial capacities NULL, 0, 1, exactly full, reuse ...) *)
Theorem C13_never_overruns : forall c hs, good_cfg c ->
  w_ok (run c hs) = true -> forallb hop_chunks_ok hs = true ->
  forall e, In e (h_log (w_heap (run c hs))) ->
    (forall id off, e <> LBad (BadOverrun id off)) /\ (forall id n, e <> LBad (BadOverRead id n)).
Proof. exact never_overruns_all. Qed.
Print Assumptions C13_never_overruns.

(* (2) NOREALLOC after any history: same buffer, no heap event, success with size < capacity
       holding exactly the produced bytes, or the buffer-size error *)
Theorem C13_norealloc_contract : forall hs ops,
  w_ok (run cfg_tj (hs ++ [HCall false ops])) = true ->
  forallb hop_chunks_ok hs = true -> forallb chunk_ok ops = true ->
  let w := run cfg_tj hs in
  match run_call_st cfg_tj false ops w with
  | (w', st) =>
      run cfg_tj (hs ++ [HCall false ops]) = w' /\
      lib_clean w' = true /\ w_buf w' = w_buf w /\ skel (w_heap w') = skel (w_heap w) /\
      ((st = StOk /\ w_size w' < w_size w /\ w_size w' = Z.of_nat (length (bytes_of ops)) /\
        contents (w_heap w') (w_buf w') (w_size w') = bytes_of ops) \/
       st = StBufSize \/
       (st = StAbort /\ forallb no_abort ops = false))
  end.
Proof. exact norealloc_contract_all. Qed.
Print Assumptions C13_norealloc_contract.

(* (3) reallocation enabled (TurboJPEG) or jpeg_mem_dest, after any history, any initial buffer:
       the call succeeds and (pointer, size) holds exactly the produced bytes in order *)
Theorem C13_realloc_contract : forall c hs alloc ops, good_cfg c -> eff_alloc c alloc = true ->
  w_ok (run c (hs ++ [HCall alloc ops])) = true ->
  forallb hop_chunks_ok hs = true -> forallb chunk_ok ops = true -> forallb no_abort ops = true ->
  let w' := run c (hs ++ [HCall alloc ops]) in
  snd (run_call_st c alloc ops (run c hs)) = StOk /\
  lib_clean w' = true /\
  w_size w' = Z.of_nat (length (bytes_of ops)) /\
  contents (w_heap w') (w_buf w') (w_size w') = bytes_of ops.
Proof. exact realloc_contract_all. Qed.
Print Assumptions C13_realloc_contract.

(* (4) reuse: no double free, no free of a caller-owned or handed-over block, for every history *)
Theorem C13_reuse_safe : forall c hs, good_cfg c ->
  w_ok (run c hs) = true -> forallb hop_chunks_ok hs = true -> lib_clean (run c hs) = true.
Proof. exact reuse_safe_all. Qed.
Print Assumptions C13_reuse_safe.

(* (3b) ... and every block the library allocated is freed by it (once: C13_reuse_safe) or handed to
   the caller: after every history no live library block is left unhanded *)
Theorem C13_no_leak : forall c hs, good_cfg c ->
  w_ok (run c hs) = true -> forallb hop_chunks_ok hs = true -> leaked (w_heap (run c hs)) = [].
Proof. exact no_leak_all. Qed.
Print Assumptions C13_no_leak.

(* producers are arbitrary in a strong sense: the world after a call (heap contents, every malloc and
   free event, result) depends on the produced BYTES only, not on how they were cut into chunks *)
Theorem C13_chunking_irrelevant : forall c hs alloc ops1 ops2, good_cfg c ->
  w_ok (run c (hs ++ [HCall alloc ops1])) = true -> forallb hop_chunks_ok hs = true ->
  forallb chunk_ok ops1 = true -> forallb no_abort ops1 = true ->
  forallb chunk_ok ops2 = true -> forallb no_abort ops2 = true ->
  bytes_of ops1 = bytes_of ops2 ->
  run c (hs ++ [HCall alloc ops1]) = run c (hs ++ [HCall alloc ops2]).
Proof. exact chunking_irrelevant_all. Qed.
Print Assumptions C13_chunking_irrelevant.

(* the caller may pass the same buffer through a different (pointer variable, size variable) record
   on every call: the result is stored in the record of the CURRENT call (the contracts above speak
   about exactly that record), no other record changes, nothing goes through an earlier call's variables *)
Theorem C13_current_pair : forall c hs alloc ops, good_cfg c ->
  w_ok (run c (hs ++ [HCall alloc ops])) = true ->
  forallb hop_chunks_ok hs = true -> forallb chunk_ok ops = true ->
  other_pairs (run c (hs ++ [HCall alloc ops])) = other_pairs (run c hs) /\
  lib_clean (run c (hs ++ [HCall alloc ops])) = true.
Proof. exact current_pair_all. Qed.
Print Assumptions C13_current_pair.

(* binding outbuffer/outsize only for a non-reused buffer (seeded change C13-5) is refuted *)
Theorem C13_rebind_only_when_not_reused_refuted :
  verdict (run cfg_tj_norebind hist_pairs) = (true, [], Some BadStalePair) /\
  verdict (run cfg_tj hist_pairs) = (true, [], None).
Proof. exact norebind_stale_pair. Qed.
Print Assumptions C13_rebind_only_when_not_reused_refuted.

(* the two destination managers of the tree are instances (cfg_tj reads the F2 rule from the source) *)
Theorem C13_instances : good_cfg cfg_tj /\ good_cfg cfg_ijg.
Proof. exact (conj good_tj good_ijg). Qed.
Print Assumptions C13_instances.

(* F2: the rule before the fix is refuted by the regression history, the current rule passes it *)
Theorem C13_reuse_safe_old_rule_refuted :
  forallb hop_chunks_ok hist_f2 = true /\
  verdict (run cfg_tj_old hist_f2) = (true, [], Some (BadDoubleFree 2)) /\
  verdict (run cfg_tj hist_f2) = (true, [], None).
Proof. exact old_rule_double_free. Qed.
Print Assumptions C13_reuse_safe_old_rule_refuted.

(* the hypothesis hidden in w_ok (malloc does not hand the address of the previous result to a
   smaller caller block) cannot be dropped: refuted on the CURRENT rule *)
Theorem C13_reuse_safe_recycled_address_refuted :
  verdict (run cfg_tj hist_aba) = (false, [NRecycled], Some (BadOverrun 2 100)).
Proof. exact aba_overrun. Qed.
Print Assumptions C13_reuse_safe_recycled_address_refuted.

(* *jpegSize = 0 on reuse: refuted for the allocation-branch condition before the fix, fine now *)
Theorem C13_reuse_safe_zero_size_old_rule_refuted :
  verdict (run cfg_tj_oldzero hist_zero) = (false, [NZeroReuse], Some (BadOverrun 3 4096)) /\
  verdict (run cfg_tj hist_zero) = (true, [], None).
Proof. exact zero_size_reuse_overrun. Qed.
Print Assumptions C13_reuse_safe_zero_size_old_rule_refuted.

(* the producer hypothesis is sharp: a directly stored chunk of exactly BUFSIZE bytes overruns *)
Theorem C13_chunk_bound_sharp :
  verdict (run cfg_tj hist_512) = (true, [], Some (BadOverrun 1 4096)).
Proof. exact exact_bufsize_chunk_overruns. Qed.
Print Assumptions C13_chunk_bound_sharp.

(* (5) ICC overhead *)
Theorem C13_icc_extra : forall len, 0 <= len -> icc_bytes len = len + 18 * ((len + 65518) / 65519).
Proof. exact icc_extra_all. Qed.
Print Assumptions C13_icc_extra.

(* (6) worst case: "a buffer of tj3JPEGBufSize bytes is always sufficient" is refuted already by
   the entropy-coded data of a 128x128 grayscale image at quality 100 (adversarial 8x8 block tiled) *)
Theorem C13_worstcase_sufficient_refuted : ~ worstcase_sufficient_full.
Proof. exact worstcase_refuted. Qed.
Print Assumptions C13_worstcase_sufficient_refuted.

Theorem C13_worstcase_witness : exists w h blocks bytes,
  Z.of_nat (length blocks) = (PAD w 8 / 8) * (PAD h 8 / 8) /\ forallb valid_block blocks = true /\
  scan_bytes blocks = Some bytes /\ tj3JPEGBufSize w h tjsamp_gray < bytes.
Proof. exact worstcase_witness. Qed.
Print Assumptions C13_worstcase_witness.

(* the producer hypothesis (chunks < BUFSIZE) holds for the sequential Huffman encoder, standard
   luminance tables, 8-bit coefficient range: a block is at most 1681 bits, so at most 438 bytes can
   be stored while it is encoded (63 pending bits, a stuffed zero behind every byte) < jchuff.c BUFSIZE *)
Theorem C13_block_bits_bound : forall last_dc coefs bs, coef_ok last_dc coefs ->
  block_bits_of last_dc coefs = Some bs -> Z.of_nat (length bs) <= 27 + 63 * 26 + 16.
Proof. exact block_bits_bound. Qed.
Print Assumptions C13_block_bits_bound.

Theorem C13_block_chunk_below_bufsize : max_block_chunk < huff_local_bufsize.
Proof. exact block_chunk_below_bufsize. Qed.
Print Assumptions C13_block_chunk_below_bufsize.

(* (6b) worst-case size + ICC for tj3Transform: the ICC term of tj3TransformBufSize() (conditions
   translated from the source on every run) is at least the ICC payload tj3Transform() writes, for
   every TJPARAM_SAVEMARKERS 0..4, TJXOPT_COPYNONE on/off, source / instance profile of any size,
   tj3GetICCProfile() called before or not *)
Theorem C13_xform_icc_sufficient : forall x, valid_setup x -> icc_written x <= size_term x.
Proof. exact xform_icc_sufficient_all. Qed.
Print Assumptions C13_xform_icc_sufficient.

(* the rules before the fixes bc00053 / 63ab915 are refuted; the current rules give 3000 >= 3000 *)
Theorem C13_xform_icc_old_rules_refuted :
  (valid_setup setup_i /\ size_term_with old_size_term_rule false setup_i = 0 /\ icc_written setup_i = 3000 /\
   size_term setup_i = 3000) /\
  (valid_setup setup_ii /\ size_term_with gen_size_term true setup_ii = 0 /\ icc_written setup_ii = 3000 /\
   size_term setup_ii = 3000).
Proof. exact xform_icc_old_rules_refuted. Qed.
Print Assumptions C13_xform_icc_old_rules_refuted.

(* non-vacuity: the hypotheses of (1)-(4) hold for non-trivial histories (growth, reuse of a grown
   buffer with *jpegSize = 0, NOREALLOC success, caller frees) *)
Example C13_hypotheses_satisfiable :
  let hs := [bigcall; HSetSize 0; bigcall; HFreeBuf; HAlloc 300 false; HCall false [chunk 200; PByte 1]; HFreeBuf] in
  w_ok (run cfg_tj hs) = true /\ forallb hop_chunks_ok hs = true /\
  w_ok (run cfg_ijg [bigcall; HAlloc 10 false; HCall true [chunk 25]]) = true.
Proof. vm_compute. repeat split. Qed.
