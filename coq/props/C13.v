(* C13 -- property theorems only: statement + exact + Print Assumptions.
   run c hs     = the world after the history hs (caller actions and calls) on destination
                  manager c (cfg_tj = jdatadst-tj.c as read from the source, cfg_ijg = jdatadst.c)
   w_ok         = no misuse by the caller and no hazard (address recycling; with the allocation-branch
                  condition before the zero-size fix also *jpegSize = 0 on reuse)
   lib_clean    = the library performed no write outside a live block, no over-read, no free of a
                  dead / caller-allocated / handed-over block
   chunks_ok    = every chunk stored through the jchuff.c STORE_BUFFER protocol is < BUFSIZE bytes *)
From Coq Require Import List ZArith Bool.
From LJT Require Import gen.GenDest model.Dest model.WorstCase proofs.DestProofs proofs.DestLeak proofs.DestChunk proofs.WorstCaseProofs.
From LJT Require Import gen.GenXformIcc model.XformIcc proofs.XformIccProofs proofs.WorstCaseBound.
From LJT Require Import gen.GenEncoders model.Huff proofs.EncoderBounds proofs.DestGrowth proofs.WorstCaseShare proofs.DestIjgAny.
From LJT Require Import model.WorstCaseMcu proofs.WorstCaseMcu.
Import ListNotations.
Local Open Scope Z_scope.
Local Open Scope bool_scope.

(* (1) for ALL producers and ALL histories (initial capacities NULL, 0, 1, exactly full, reuse ...) *)
Theorem C13_never_overruns : forall c hs, good_cfg c ->
  w_ok (run c hs) = true -> forallb hop_chunks_ok hs = true ->
  forall e, In e (h_log (w_heap (run c hs))) ->
    (forall id off, e <> LBad (BadOverrun id off)) /\ (forall id n, e <> LBad (BadOverRead id n)).
Proof. exact never_overruns_all. Qed.
Print Assumptions C13_never_overruns.

(* (2) NOREALLOC after any history: same buffer, no heap event, success with size < capacity
       holding exactly the produced bytes, or the buffer-size error *)
Theorem C13_norealloc_contract : forall hs ops,
  w_ok (run cfg_tj (hs ++ [HCall false ops])) = true ->
  forallb hop_chunks_ok hs = true -> forallb chunk_ok ops = true ->
  let w := run cfg_tj hs in
  match run_call_st cfg_tj false ops w with
  | (w', st) =>
      run cfg_tj (hs ++ [HCall false ops]) = w' /\
      lib_clean w' = true /\ w_buf w' = w_buf w /\ skel (w_heap w') = skel (w_heap w) /\
      ((st = StOk /\ w_size w' < w_size w /\ w_size w' = Z.of_nat (length (bytes_of ops)) /\
        contents (w_heap w') (w_buf w') (w_size w') = bytes_of ops) \/
       st = StBufSize \/
       (st = StAbort /\ forallb no_abort ops = false))
  end.
Proof. exact norealloc_contract_all. Qed.
Print Assumptions C13_norealloc_contract.

(* (3) reallocation enabled (TurboJPEG) or jpeg_mem_dest, after any history, any initial buffer:
       the call succeeds and (pointer, size) holds exactly the produced bytes in order *)
Theorem C13_realloc_contract : forall c hs alloc ops, good_cfg c -> eff_alloc c alloc = true ->
  w_ok (run c (hs ++ [HCall alloc ops])) = true ->
  forallb hop_chunks_ok hs = true -> forallb chunk_ok ops = true -> forallb no_abort ops = true ->
  let w' := run c (hs ++ [HCall alloc ops]) in
  snd (run_call_st c alloc ops (run c hs)) = StOk /\
  lib_clean w' = true /\
  w_size w' = Z.of_nat (length (bytes_of ops)) /\
  contents (w_heap w') (w_buf w') (w_size w') = bytes_of ops.
Proof. exact realloc_contract_all. Qed.
Print Assumptions C13_realloc_contract.

(* (4) reuse: no double free, no free of a caller-owned or handed-over block, for every history *)
Theorem C13_reuse_safe : forall c hs, good_cfg c ->
  w_ok (run c hs) = true -> forallb hop_chunks_ok hs = true -> lib_clean (run c hs) = true.
Proof. exact reuse_safe_all. Qed.
Print Assumptions C13_reuse_safe.

(* (3b) ... and every block the library allocated is freed by it (once: C13_reuse_safe) or handed to
   the caller: after every history no live library block is left unhanded *)
Theorem C13_no_leak : forall c hs, good_cfg c ->
  w_ok (run c hs) = true -> forallb hop_chunks_ok hs = true -> leaked (w_heap (run c hs)) = [].
Proof. exact no_leak_all. Qed.
Print Assumptions C13_no_leak.

(* producers are arbitrary in a strong sense: the world after a call (heap contents, every malloc and
   free event, result) depends on the produced BYTES only, not on how they were cut into chunks *)
Theorem C13_chunking_irrelevant : forall c hs alloc ops1 ops2, good_cfg c ->
  w_ok (run c (hs ++ [HCall alloc ops1])) = true -> forallb hop_chunks_ok hs = true ->
  forallb chunk_ok ops1 = true -> forallb no_abort ops1 = true ->
  forallb chunk_ok ops2 = true -> forallb no_abort ops2 = true ->
  bytes_of ops1 = bytes_of ops2 ->
  run c (hs ++ [HCall alloc ops1]) = run c (hs ++ [HCall alloc ops2]).
Proof. exact chunking_irrelevant_all. Qed.
Print Assumptions C13_chunking_irrelevant.

(* the caller may pass the same buffer through a different (pointer variable, size variable) record
   on every call: the result is stored in the record of the CURRENT call (the contracts above speak
   about exactly that record), no other record changes, nothing goes through an earlier call's variables *)
Theorem C13_current_pair : forall c hs alloc ops, good_cfg c ->
  w_ok (run c (hs ++ [HCall alloc ops])) = true ->
  forallb hop_chunks_ok hs = true -> forallb chunk_ok ops = true ->
  other_pairs (run c (hs ++ [HCall alloc ops])) = other_pairs (run c hs) /\
  lib_clean (run c (hs ++ [HCall alloc ops])) = true.
Proof. exact current_pair_all. Qed.
Print Assumptions C13_current_pair.

(* binding outbuffer/outsize only for a non-reused buffer (seeded change C13-5) is refuted *)
Theorem C13_rebind_only_when_not_reused_refuted :
  verdict (run cfg_tj_norebind hist_pairs) = (true, [], Some BadStalePair) /\
  verdict (run cfg_tj hist_pairs) = (true, [], None).
Proof. exact norebind_stale_pair. Qed.
Print Assumptions C13_rebind_only_when_not_reused_refuted.

(* the two destination managers of the tree are instances (cfg_tj reads the F2 rule from the source) *)
Theorem C13_instances : good_cfg cfg_tj /\ good_cfg cfg_ijg.
Proof. exact (conj good_tj good_ijg). Qed.
Print Assumptions C13_instances.

(* F2: the rule before the fix is refuted by the regression history, the current rule passes it *)
Theorem C13_reuse_safe_old_rule_refuted :
  forallb hop_chunks_ok hist_f2 = true /\
  verdict (run cfg_tj_old hist_f2) = (true, [], Some (BadDoubleFree 2)) /\
  verdict (run cfg_tj hist_f2) = (true, [], None).
Proof. exact old_rule_double_free. Qed.
Print Assumptions C13_reuse_safe_old_rule_refuted.

(* the hypothesis hidden in w_ok (malloc does not hand the address of the previous result to a
   smaller caller block) cannot be dropped: refuted on the CURRENT rule *)
Theorem C13_reuse_safe_recycled_address_refuted :
  verdict (run cfg_tj hist_aba) = (false, [NRecycled], Some (BadOverrun 2 100)).
Proof. exact aba_overrun. Qed.
Print Assumptions C13_reuse_safe_recycled_address_refuted.

(* *jpegSize = 0 on reuse: refuted for the allocation-branch condition before the fix, fine now *)
Theorem C13_reuse_safe_zero_size_old_rule_refuted :
  verdict (run cfg_tj_oldzero hist_zero) = (false, [NZeroReuse], Some (BadOverrun 3 4096)) /\
  verdict (run cfg_tj hist_zero) = (true, [], None).
Proof. exact zero_size_reuse_overrun. Qed.
Print Assumptions C13_reuse_safe_zero_size_old_rule_refuted.

(* the producer hypothesis is sharp: a directly stored chunk of exactly BUFSIZE bytes overruns *)
Theorem C13_chunk_bound_sharp :
  verdict (run cfg_tj hist_512) = (true, [], Some (BadOverrun 1 4096)).
Proof. exact exact_bufsize_chunk_overruns. Qed.
Print Assumptions C13_chunk_bound_sharp.

(* (5) ICC overhead *)
Theorem C13_icc_extra : forall len, 0 <= len -> icc_bytes len = len + 18 * ((len + 65518) / 65519).
Proof. exact icc_extra_all. Qed.
Print Assumptions C13_icc_extra.

(* (6) worst case: "a buffer of tj3JPEGBufSize bytes is always sufficient" is refuted already by
   the entropy-coded data of a 128x128 grayscale image at quality 100 (adversarial 8x8 block tiled) *)
Theorem C13_worstcase_sufficient_refuted : ~ worstcase_sufficient_full.
Proof. exact worstcase_refuted. Qed.
Print Assumptions C13_worstcase_sufficient_refuted.

Theorem C13_worstcase_witness : exists w h blocks bytes,
  Z.of_nat (length blocks) = (PAD w 8 / 8) * (PAD h 8 / 8) /\ forallb valid_block blocks = true /\
  scan_bytes blocks = Some bytes /\ tj3JPEGBufSize w h tjsamp_gray < bytes.
Proof. exact worstcase_witness. Qed.
Print Assumptions C13_worstcase_witness.

(* the producer hypothesis (chunks < BUFSIZE) holds for the sequential Huffman encoder, standard
   luminance tables, 8-bit coefficient range: a block is at most 1681 bits, so at most 438 bytes can
   be stored while it is encoded (63 pending bits, a stuffed zero behind every byte) < jchuff.c BUFSIZE *)
Theorem C13_block_bits_bound : forall last_dc coefs bs, coef_ok last_dc coefs ->
  block_bits_of last_dc coefs = Some bs -> Z.of_nat (length bs) <= 27 + 63 * 26 + 16.
Proof. exact block_bits_bound. Qed.
Print Assumptions C13_block_bits_bound.

Theorem C13_block_chunk_below_bufsize : max_block_chunk < huff_local_bufsize.
Proof. exact block_chunk_below_bufsize. Qed.
Print Assumptions C13_block_chunk_below_bufsize.

(* ---- producers of every entropy encoder ------------------------------------------------------------ *)
(* marker writer, arithmetic, progressive Huffman and lossless Huffman encoders store single bytes
   (shapes read from the source): their producers need NO chunk hypothesis *)
Theorem C13_bytewise_encoders_safe :
  (enc_marker_writer_bytewise && enc_arith_bytewise && enc_phuff_bytewise && enc_lhuff_bytewise = true) /\
  forall c hs, good_cfg c -> w_ok (run c hs) = true -> forallb hop_bytewise hs = true -> lib_clean (run c hs) = true.
Proof. exact bytewise_encoders_safe. Qed.
Print Assumptions C13_bytewise_encoders_safe.

(* jchuff.c with ANY table jpeg_make_c_derived_tbl accepts (optimised, custom): code lengths <= 16 ... *)
Theorem C13_huff_table_lengths : forall bits vals maxsym t, make_c_derived bits vals maxsym = Some t -> all_le16 t = true.
Proof. exact make_c_derived_le16. Qed.
Print Assumptions C13_huff_table_lengths.

(* ... so one block of coefficients that pass the range checks for max_coef_bits = P costs at most
   (16 + P + 1) + 63 (16 + P) + 16 bits ... *)
Theorem C13_block_bits_bound_any_table : forall dc ac P last_dc coefs bs, all_le16 dc = true -> all_le16 ac = true -> 0 <= P ->
  coef_ok_P P last_dc coefs -> enc_block dc ac last_dc coefs = Some bs -> Z.of_nat (length bs) <= block_bits_max P.
Proof. exact block_bits_bound_gen. Qed.
Print Assumptions C13_block_bits_bound_any_table.

(* ... and for every lossy precision of the build (8, 12; P = precision + 2), with the pending bits of the
   64-bit put buffer and a stuffed zero behind every byte, a block stores fewer bytes than BUFSIZE *)
Theorem C13_huff_chunks_below_bufsize : forallb (fun p => chunk_max p <? huff_local_bufsize) huff_lossy_precisions = true.
Proof. exact huff_chunks_below_bufsize. Qed.
Print Assumptions C13_huff_chunks_below_bufsize.

(* ---- growth arithmetic --------------------------------------------------------------------------------- *)
(* jpeg_mem_dest[_tj] arms the cursor inside the buffer after every history ... *)
Theorem C13_armed_invariant : forall c hs alloc, good_cfg c ->
  w_ok (run c hs) = true -> forallb hop_chunks_ok hs = true ->
  let w := run c hs in
  pass_ok c alloc w = true -> zero_reuse c alloc w = false ->
  match mem_dest c alloc (set_cur (w_buf w) w) with
  | (w1, None) => exists d1, w_dest w1 = Some d1 /\ J (w_heap w1) (w_cur w1) (w_buf w1) d1 [] /\
                    d_next_off d1 = 0 /\ d_free d1 = d_bufsize d1 /\ cursor_inside (w_heap w1) d1
  | (w1, Some st) => st = StBufSize /\ eff_alloc c alloc = false
  end.
Proof. exact armed_invariant. Qed.
Print Assumptions C13_armed_invariant.

(* ... every producer step keeps next_output_byte / free_in_buffer inside the current allocation
   (offset + free = bufsize <= size of the live block), error exits included ... *)
Theorem C13_cursor_inside_allocation : forall m ops w d wr,
  J (w_heap w) (w_cur w) (w_buf w) d wr -> forallb chunk_ok ops = true ->
  match run_ops m ops w d with (w', d', _) => cursor_inside (w_heap w') d' end.
Proof. exact cursor_inside_all. Qed.
Print Assumptions C13_cursor_inside_allocation.

(* ... bufsize <= max(initial capacity, 2 * bytes stored), so `bufsize * 2` cannot wrap in size_t *)
Theorem C13_growth_bounded : forall m ops w d, d_next_off d = 0 -> 0 <= d_free d -> 0 <= d_bufsize d ->
  forallb chunk_ok ops = true ->
  match run_ops m ops w d with
  | (_, d', _) => d_bufsize d' <= Z.max (d_bufsize d) (2 * d_next_off d') /\ 0 <= d_next_off d'
  end.
Proof. exact growth_bounded_all. Qed.
Print Assumptions C13_growth_bounded.

Theorem C13_doubling_never_wraps : forall m ops w d, d_next_off d = 0 -> 0 <= d_free d -> 0 <= d_bufsize d < 2 ^ 63 ->
  forallb chunk_ok ops = true ->
  match run_ops m ops w d with
  | (_, d', _) => d_next_off d' < 2 ^ 62 -> d_bufsize d' * growth m < SIZE_T_MOD
  end.
Proof. exact doubling_never_wraps. Qed.
Print Assumptions C13_doubling_never_wraps.

(* the constants and rule flags of the model are the generated ones *)
Theorem C13_source_facts :
  out_buf_size TJ = tj_output_buf_size /\ out_buf_size IJG = ijg_output_buf_size /\
  growth TJ = tj_growth /\ growth IJG = ijg_growth /\ tj_growth = 2 /\ ijg_growth = 2 /\
  0 < tj_output_buf_size /\ 0 < ijg_output_buf_size /\
  cf_clr cfg_tj = tj_clears_newbuffer /\ cf_zfix cfg_tj = tj_zero_size_keeps_reused /\
  cf_rebind cfg_tj = tj_rebinds_out_always /\ cf_rebind cfg_ijg = ijg_rebinds_out_always /\
  tj_clears_newbuffer = true /\ tj_rebinds_out_always = true /\ ijg_rebinds_out_always = true /\
  icc_max_data = icc_max_bytes_in_marker - icc_overhead_len.
Proof. exact source_facts. Qed.
Print Assumptions C13_source_facts.

(* (6b) worst-case size + ICC for tj3Transform: the ICC term of tj3TransformBufSize() (conditions
   translated from the source on every run) is at least the ICC payload tj3Transform() writes, for
   every TJPARAM_SAVEMARKERS 0..4, TJXOPT_COPYNONE on/off, source / instance profile of any size,
   tj3GetICCProfile() called before or not *)
Theorem C13_xform_icc_sufficient : forall x, valid_setup x -> icc_written x <= size_term x.
Proof. exact xform_icc_sufficient_all. Qed.
Print Assumptions C13_xform_icc_sufficient.

(* the rules before the fixes bc00053 / 63ab915 are refuted; the current rules give 3000 >= 3000 *)
Theorem C13_xform_icc_old_rules_refuted :
  (valid_setup setup_i /\ size_term_with old_size_term_rule false setup_i = 0 /\ icc_written setup_i = 3000 /\
   size_term setup_i = 3000) /\
  (valid_setup setup_ii /\ size_term_with gen_size_term true setup_ii = 0 /\ icc_written setup_ii = 3000 /\
   size_term setup_ii = 3000).
Proof. exact xform_icc_old_rules_refuted. Qed.
Print Assumptions C13_xform_icc_old_rules_refuted.

(* ---- jdatadst.c jpeg_mem_dest under ANY allocator behaviour (address recycling, in-place shrink + re-arming the
   same object with the same pointer and a smaller/larger *outsize): preconditions evaluated along the run *)
Theorem C13_ijg_safe_any_allocator : forall hs, hist_pre cfg_ijg hs world0 = true -> lib_clean (run cfg_ijg hs) = true.
Proof. exact ijg_lib_clean_any_allocator. Qed.
Print Assumptions C13_ijg_safe_any_allocator.

Theorem C13_ijg_call_contract_any_allocator : forall hs ops, hist_pre cfg_ijg (hs ++ [HCall true ops]) world0 = true ->
  forallb no_abort ops = true ->
  let w' := run cfg_ijg (hs ++ [HCall true ops]) in
  lib_clean w' = true /\ w_size w' = Z.of_nat (length (bytes_of ops)) /\
  contents (w_heap w') (w_buf w') (w_size w') = bytes_of ops.
Proof. exact ijg_call_contract_any_allocator. Qed.
Print Assumptions C13_ijg_call_contract_any_allocator.

(* ---- F6 as statements (grayscale 8-bit; every block has a share of 128 bytes, + 2048 once) ---------- *)
(* refuted: a block whose modelled encoding (Q100, standard tables, stuffing) needs 145 > 128 bytes, and the
   128x128 image whose scan data alone (36355) exceed tj3JPEGBufSize (34816); replayed on the library *)
Theorem C13_bufsize_worstcase_refuted :
  (valid_block adv_block = true /\ scan_size [adv_block] = Some (145, 1002) /\ bufsize_bytes_per_luma * 64 = 128 /\ 128 < 145) /\
  (Z.of_nat (length adv_image) = (PAD 128 8 / 8) * (PAD 128 8 / 8) /\ forallb valid_block adv_image = true /\
   scan_bytes adv_image = Some 36355 /\ tj3JPEGBufSize 128 128 tjsamp_gray = 34816 /\ 34816 < 36355).
Proof. exact bufsize_worstcase_refuted. Qed.
Print Assumptions C13_bufsize_worstcase_refuted.

(* sufficient when every block costs <= 504 bits under the tables in use: the scan data fit in the
   per-sample part and the 2048 extra bytes remain for the headers *)
Theorem C13_bufsize_sufficient_when : forall dc ac w h blocks bytes bits,
  dc_tbl = Some dc -> ac_tbl = Some ac -> 0 < w -> 0 < h ->
  Z.of_nat (length blocks) = (PAD w 8 / 8) * (PAD h 8 / 8) ->
  Forall (block_cost_le dc ac 504) blocks ->
  scan_size blocks = Some (bytes, bits) ->
  bytes <= tj3JPEGBufSize w h tjsamp_gray - bufsize_slack.
Proof. exact bufsize_sufficient_when_blocks_cheap. Qed.
Print Assumptions C13_bufsize_sufficient_when.

(* ... which holds with the STANDARD tables whenever all quantised AC coefficients are in -7..7 (<= 409 bits) *)
Theorem C13_bufsize_sufficient_when_small_coefs : forall w h blocks bytes bits, 0 < w -> 0 < h ->
  Z.of_nat (length blocks) = (PAD w 8 / 8) * (PAD h 8 / 8) ->
  Forall small_block blocks ->
  scan_size blocks = Some (bytes, bits) ->
  bytes <= tj3JPEGBufSize w h tjsamp_gray - bufsize_slack /\ bits <= 409 * Z.of_nat (length blocks).
Proof. exact bufsize_sufficient_when_small_coefs. Qed.
Print Assumptions C13_bufsize_sufficient_when_small_coefs.

(* the share is the same 128 bytes per block for every YCbCr subsampling level of the formula *)
Theorem C13_share_per_block_all_subsamplings :
  forallb (fun s => let mw := nth (Z.to_nat s) tj_mcu_width 0 in let mh := nth (Z.to_nat s) tj_mcu_height 0 in
                    (s =? tjsamp_gray) ||
                    ((bufsize_bytes_per_luma + 4 * 64 / (mw * mh)) * (mw * mh) =? 128 * (mw * mh / 64 + 2)))
          [0; 1; 2; 3; 4; 5; 6] = true.
Proof. exact share_per_block_all_subsamplings. Qed.
Print Assumptions C13_share_per_block_all_subsamplings.

(* F6 sufficiency for colour: a single-scan baseline interleaved YCbCr image of any TurboJPEG subsampling level.  The scan is
   the MCU-interleaved block sequence (component index, samples), each component with its own table pair and its own DC
   predictor; byte stuffing is charged once for the whole scan.  If every block costs at most 504 bits under the tables of
   its component, the entropy-coded bytes stay below tj3JPEGBufSize minus the 2048 bytes the formula reserves for headers. *)
Theorem C13_bufsize_sufficient_when_ycbcr : forall tbls s w h blocks bytes bits,
  In s ycbcr_levels -> 0 < w -> 0 < h ->
  Z.of_nat (length blocks) = mcus w h s * blocks_per_mcu s ->
  Forall (mcu_block_ok tbls 504) blocks ->
  scan_size_mcu tbls 3 blocks = Some (bytes, bits) ->
  bytes <= tj3JPEGBufSize w h s - bufsize_slack.
Proof. exact bufsize_sufficient_when_ycbcr. Qed.
Print Assumptions C13_bufsize_sufficient_when_ycbcr.

(* the hypothesis is met, at every level, by blocks whose quantised AC coefficients are at most 7 in magnitude *)
Theorem C13_bufsize_sufficient_when_ycbcr_small_coefs : forall dc ac s w h blocks bytes bits,
  dc_tbl = Some dc -> ac_tbl = Some ac ->
  In s ycbcr_levels -> 0 < w -> 0 < h ->
  Z.of_nat (length blocks) = mcus w h s * blocks_per_mcu s ->
  Forall (fun b => small_block (snd b)) blocks ->
  scan_size_mcu (fun _ => (dc, ac)) 3 blocks = Some (bytes, bits) ->
  bytes <= tj3JPEGBufSize w h s - bufsize_slack.
Proof. exact bufsize_sufficient_when_ycbcr_small_coefs. Qed.
Print Assumptions C13_bufsize_sufficient_when_ycbcr_small_coefs.

(* ---- transform sizing incl. the marker overhead of the ICC chunks ---------------------------------- *)
Theorem C13_xform_icc_bytes_sufficient_when : forall x k room, valid_setup x -> 0 <= k ->
  icc_chunk_overhead * chunks_written x k <= room -> icc_bytes_written x k <= size_term x + room.
Proof. exact xform_icc_bytes_sufficient_when. Qed.
Print Assumptions C13_xform_icc_bytes_sufficient_when.

(* counting 18 bytes per chunk covers every byte of ICC markers; the tree does so once gen_chunk_overhead = 18
   (fix of xform-icc-undersized:chunk-overhead): the hypotheses are generated facts *)
Theorem C13_xform_icc_bytes_sufficient_with_overhead : gen_chunk_overhead = icc_chunk_overhead -> gen_inst_chunk = icc_max_data' ->
  forall x k, valid_setup x -> 0 <= k -> icc_bytes_written x k <= size_term_bytes x k.
Proof. exact xform_icc_bytes_sufficient_with_overhead. Qed.
Print Assumptions C13_xform_icc_bytes_sufficient_with_overhead.

(* the tree as it is now (45743c1): tj3TransformBufSize = per-image part (headers + entropy-coded data, see
   C13_bufsize_sufficient_when / _worstcase_refuted) + ICC term, and the ICC term covers every byte of every APP2
   marker tj3Transform writes: the copied source chunks (18 + payload each, ANY chunking) or the instance profile *)
Theorem C13_transform_bufsize_covers_icc : forall base x ps, valid_setup x -> x_src x = sum_list ps ->
  base + icc_marker_bytes_of x ps <= transform_bufsize base x ps.
Proof. exact transform_bufsize_covers_icc. Qed.
Print Assumptions C13_transform_bufsize_covers_icc.

(* payload-only accounting (before 45743c1) is refuted *)
Theorem C13_xform_icc_chunk_overhead_refuted :
  valid_setup setup_chunks /\ icc_bytes_written setup_chunks 255 = 7140 /\ marker_budget setup_chunks = 4598 /\
  marker_budget setup_chunks < icc_bytes_written setup_chunks 255.
Proof. exact xform_icc_chunk_overhead_refuted. Qed.
Print Assumptions C13_xform_icc_chunk_overhead_refuted.

(* non-vacuity: the hypotheses of (1)-(4) hold for non-trivial histories (growth, reuse of a grown
   buffer with *jpegSize = 0, NOREALLOC success, caller frees) *)
Example C13_hypotheses_satisfiable :
  let hs := [bigcall; HSetSize 0; bigcall; HFreeBuf; HAlloc 300 false; HCall false [chunk 200; PByte 1]; HFreeBuf] in
  w_ok (run cfg_tj hs) = true /\ forallb hop_chunks_ok hs = true /\
  w_ok (run cfg_ijg [bigcall; HAlloc 10 false; HCall true [chunk 25]]) = true.
Proof. vm_compute. repeat split. Qed.
