(* C13 -- property theorems only: statement + exact + Print Assumptions. *)
From Coq Require Import List ZArith.
From LJT Require Import model.Dest.
Import ListNotations.
Local Open Scope Z_scope.

Theorem C13_placeholder : lib_clean (run cfg_tj [HCall true [PByte 1]]) = true.
Proof. vm_compute. reflexivity. Qed.
Print Assumptions C13_placeholder.
