(* C05 -- SIMD and scalar code paths give bit-identical results.
   Property theorems only: statement + exact + Print Assumptions.
   asm_* : lane-wise dataflow of the SSE2 / AVX2 kernels (model/Simd*.v, constants from
           gen/GenSimdConst.v, regenerated from simd/x86_64/*.asm on every run)
   c_*   : the C code of src/*.c (constants regenerated from the C files). *)
From Coq Require Import List ZArith String Bool.
From LJT Require Import lib.Words gen.GenSimdConst model.SimdColor model.SimdSample model.SimdQuant model.SimdDct model.SimdIdctFast model.SimdFdctInt model.SimdIdctInt model.SimdAvx2Shuffle model.SimdHuff model.SimdPhuff model.SimdRows model.SimdIdctRed
  proofs.SimdColorProofs proofs.SimdSampleProofs proofs.SimdQuantProofs proofs.SimdConstProofs proofs.SimdDctProofs proofs.SimdIdctFastProofs proofs.SimdFdctIntProofs proofs.SimdIdctIntProofs proofs.SimdDctBoundsProofs proofs.SimdAvx2ShuffleProofs proofs.SimdHuffProofs proofs.SimdPhuffProofs proofs.SimdRowsProofs proofs.SimdIdctRedProofs.
Import ListNotations.
Local Open Scope Z_scope.

(* (1) generated-constant agreement: every constant row of the colour kernels holds the C FIX()
   value it stands for, incl. F_0_337 + F_0_250 = FIX(0.58700), F_0_402 = FIX(1.402) - 2^16,
   F_0_285 = 2^16 - FIX(0.71414), F_0_228 = 2^17 - FIX(1.772); every FIX() literal is the exact
   rounding of its decimal *)
Theorem C05_colour_constants_agree :
  cc_consts_agree jccolor_sse2_consts true /\ cc_consts_agree jccolor_avx2_consts true /\
  cc_consts_agree jcgray_sse2_consts false /\ cc_consts_agree jcgray_avx2_consts false /\
  dc_consts_agree jdcolor_sse2_consts c_jdcolor_tabs /\ dc_consts_agree jdcolor_avx2_consts c_jdcolor_tabs /\
  dc_consts_agree jdmerge_sse2_consts c_jdmerge_tabs /\ dc_consts_agree jdmerge_avx2_consts c_jdmerge_tabs /\
  forallb fix_ok c_fix_literals = true.
Proof. exact (conj jccolor_sse2_agree (conj jccolor_avx2_agree (conj jcgray_sse2_agree (conj jcgray_avx2_agree
  (conj jdcolor_sse2_agree (conj jdcolor_avx2_agree (conj jdmerge_sse2_agree (conj jdmerge_avx2_agree c_fix_literals_exact)))))))). Qed.
Print Assumptions C05_colour_constants_agree.

Theorem C05_dct_constants_agree :
  (forallb (fun p => fst p =? snd p) dct_const_pairs = true /\ dct_const_pairs_count = 70) /\
  forallb (fix3_ok c_jfdctint_CONST_BITS) c_jfdctint_fix && forallb (fix3_ok c_jidctint_CONST_BITS) c_jidctint_fix &&
  forallb (fix3_ok c_jidctred_CONST_BITS) c_jidctred_fix && forallb (fix3_ok c_jfdctfst_CONST_BITS) c_jfdctfst_fix &&
  forallb (fix3_ok c_jidctfst_CONST_BITS) c_jidctfst_fix = true.
Proof. exact (conj dct_consts_agree c_dct_fix_exact). Qed.
Print Assumptions C05_dct_constants_agree.

(* (2) rgb -> ycc and rgb -> gray, every pixel value, algebraic *)
Theorem C05_simd_rgb_ycc_eq : forall r g b, is_byte r -> is_byte g -> is_byte b ->
  asm_rgb_ycc jccolor_sse2_consts r g b = c_rgb_ycc r g b /\
  asm_rgb_ycc jccolor_avx2_consts r g b = c_rgb_ycc r g b /\
  asm_rgb_y jcgray_sse2_consts r g b = c_rgb_y r g b /\
  asm_rgb_y jcgray_avx2_consts r g b = c_rgb_y r g b.
Proof. exact simd_rgb_ycc_eq_all. Qed.
Print Assumptions C05_simd_rgb_ycc_eq.

(* (3) ycc -> rgb incl. range limiting = packuswb saturation; R,B chroma terms by 256-sweeps
   (T1-finite), G algebraic; same for the merged upsampling kernels *)
Theorem C05_simd_ycc_rgb_eq : forall y cb cr, is_byte y -> is_byte cb -> is_byte cr ->
  asm_ycc_rgb jdcolor_sse2_consts y cb cr = c_ycc_rgb c_jdcolor_tabs y cb cr /\
  asm_ycc_rgb jdcolor_avx2_consts y cb cr = c_ycc_rgb c_jdcolor_tabs y cb cr /\
  asm_ycc_rgb jdmerge_sse2_consts y cb cr = c_ycc_rgb c_jdmerge_tabs y cb cr /\
  asm_ycc_rgb jdmerge_avx2_consts y cb cr = c_ycc_rgb c_jdmerge_tabs y cb cr.
Proof. exact simd_ycc_rgb_eq_all. Qed.
Print Assumptions C05_simd_ycc_rgb_eq.
Theorem C05_simd_merged_eq : forall y0 y1 cb cr, is_byte y0 -> is_byte y1 -> is_byte cb -> is_byte cr ->
  asm_merged_pair jdmerge_sse2_consts y0 y1 cb cr = c_merged_pair c_jdmerge_tabs y0 y1 cb cr /\
  asm_merged_pair jdmerge_avx2_consts y0 y1 cb cr = c_merged_pair c_jdmerge_tabs y0 y1 cb cr.
Proof. exact simd_merged_eq_all. Qed.
Print Assumptions C05_simd_merged_eq.

(* (4) h2v1 / h2v2 downsampling incl. right-edge expansion and the zero-filled tail block, for
   every image width, output width and row content *)
Theorem C05_simd_downsample_eq : forall (iw ocols : nat) (row0 row1 : list Z),
  Forall byte row0 -> Forall byte row1 -> (1 <= iw <= List.length row0)%nat -> (iw <= List.length row1)%nat -> (iw <= 2 * ocols)%nat ->
  asm_h2v1_downsample jcsample_sse2_consts 16 iw ocols row0 = c_h2v1_downsample iw ocols row0 /\
  asm_h2v1_downsample jcsample_avx2_consts 32 iw ocols row0 = c_h2v1_downsample iw ocols row0 /\
  asm_h2v2_downsample jcsample_sse2_consts 16 iw ocols row0 row1 = c_h2v2_downsample iw ocols row0 row1 /\
  asm_h2v2_downsample jcsample_avx2_consts 32 iw ocols row0 row1 = c_h2v2_downsample iw ocols row0 row1.
Proof. exact simd_downsample_eq_all. Qed.
Print Assumptions C05_simd_downsample_eq.

(* h2v1 / h2v2 fancy upsampling for every row length w >= 3 (the C gate is downsampled_width > 2),
   incl. the first / last column special cases and the dummy sample the kernels insert *)
Theorem C05_simd_fancy_eq : forall (w : nat) (buf0 buf1 : list Z),
  (3 <= w)%nat -> Forall byte buf0 -> Forall byte buf1 ->
  (roundup w 32 <= List.length buf0)%nat -> (roundup w 32 <= List.length buf1)%nat ->
  (roundup w 16 <= List.length buf0)%nat -> (roundup w 16 <= List.length buf1)%nat ->
  asm_h2v1_fancy jdsample_sse2_consts 16 w buf0 = c_h2v1_fancy (firstn w buf0) /\
  asm_h2v1_fancy jdsample_avx2_consts 32 w buf0 = c_h2v1_fancy (firstn w buf0) /\
  asm_h2v2_fancy jdsample_sse2_consts 16 w buf0 buf1 = c_h2v2_fancy (firstn w buf0) (firstn w buf1) /\
  asm_h2v2_fancy jdsample_avx2_consts 32 w buf0 buf1 = c_h2v2_fancy (firstn w buf0) (firstn w buf1).
Proof. exact simd_fancy_eq_all. Qed.
Print Assumptions C05_simd_fancy_eq.

(* row groups: every sample kernel is called with max_v_samp_factor (upsampling) / v_samp_factor (downsampling)
   rows; its row loop (rows consumed / produced / counter decrement per iteration, read from the .asm row-loop
   tail on every run) executes the same iterations on the same rows as the C loop, for EVERY row count n >= 1
   and every per-iteration body *)
Theorem C05_simd_row_loops_eq :
  kernel_rows_eq rowloop_h2v1_upsample_sse2 c_steps_h2v1_upsample /\ kernel_rows_eq rowloop_h2v1_upsample_avx2 c_steps_h2v1_upsample /\
  kernel_rows_eq rowloop_h2v2_upsample_sse2 c_steps_h2v2_upsample /\ kernel_rows_eq rowloop_h2v2_upsample_avx2 c_steps_h2v2_upsample /\
  kernel_rows_eq rowloop_h2v1_fancy_upsample_sse2 c_steps_h2v1_fancy /\ kernel_rows_eq rowloop_h2v1_fancy_upsample_avx2 c_steps_h2v1_fancy /\
  kernel_rows_eq rowloop_h2v2_fancy_upsample_sse2 c_steps_h2v2_fancy /\ kernel_rows_eq rowloop_h2v2_fancy_upsample_avx2 c_steps_h2v2_fancy /\
  kernel_rows_eq rowloop_h2v1_downsample_sse2 c_steps_h2v1_down /\ kernel_rows_eq rowloop_h2v1_downsample_avx2 c_steps_h2v1_down /\
  kernel_rows_eq rowloop_h2v2_downsample_sse2 c_steps_h2v2_down /\ kernel_rows_eq rowloop_h2v2_downsample_avx2 c_steps_h2v2_down.
Proof. exact simd_row_loops_eq. Qed.
Print Assumptions C05_simd_row_loops_eq.
Example C05_rows_nonvacuous :
  asm_h2v1_plain_group rowloop_h2v1_upsample_avx2 3 [[1; 2]; [3; 4]; [5; 6]] = [[1; 1; 2; 2]; [3; 3; 4; 4]; [5; 5; 6; 6]] /\
  c_h2v1_plain_group 3 [[1; 2]; [3; 4]; [5; 6]] = [[1; 1; 2; 2]; [3; 3; 4; 4]; [5; 5; 6; 6]] /\
  asm_h2v1_plain_group (1, 1, 2) 2 [[1; 2]; [3; 4]] = [[1; 1; 2; 2]] /\
  asm_h2v2_plain_group rowloop_h2v2_upsample_sse2 4 [[1]; [2]] = c_h2v2_plain_group 4 [[1]; [2]] /\
  c_h2v2_plain_group 3 [[1]; [2]] = [[1; 1]; [1; 1]; [2; 2]; [2; 2]].
Proof. exact rows_nonvacuous. Qed.

(* h2v2 merged upsampling writes output row 0 before row 1, like the C code, so that aliased output rows
   (jpeg_skip_scanlines: both = spare_row) end up with the same content *)
Theorem C05_merged2_store_order_eq : forall alias data b,
  asm_merged2_final merged_h2v2_call_rows_sse2 alias data b = c_merged2_final alias data b /\
  asm_merged2_final merged_h2v2_call_rows_avx2 alias data b = c_merged2_final alias data b.
Proof. exact merged2_store_order_eq. Qed.
Print Assumptions C05_merged2_store_order_eq.

(* (5) quantisation: for every divisor compute_reciprocal() accepts (return value 1) and every
   coefficient except INT16_MIN the pmulhuw sequence is the C quantize(); compute_reciprocal()
   returns 0 exactly for divisors 1 and 2, where jcdctmgr.c falls back to C *)
Theorem C05_simd_quant_eq : forall d x, 1 <= d <= 65535 -> -32767 <= x <= 32767 ->
  let q := compute_reciprocal d in
  (q_ret q = 0 <-> d = 1 \/ d = 2) /\
  (q_ret q = 1 ->
     s16 (asm_quantize_sse2 (q_recip q) (q_corr q) (q_scale q) (w16 x)) = c_quantize (q_recip q) (q_corr q) (q_shift q) x /\
     s16 (asm_quantize_avx2 (q_recip q) (q_corr q) (q_scale q) (w16 x)) = c_quantize (q_recip q) (q_corr q) (q_shift q) x).
Proof. exact simd_quant_eq_all. Qed.
Print Assumptions C05_simd_quant_eq.
Theorem C05_convsamp_eq : forall s, 0 <= s <= 255 -> s16 (asm_convsamp s) = c_convsamp s.
Proof. exact convsamp_eq. Qed.
Print Assumptions C05_convsamp_eq.

(* gates of simd/x86_64/jsimd.c and the quantiser fallback of jcdctmgr.c, as read by the translator *)
Theorem C05_gate_sound :
  (map gate ["jsimd_can_rgb_ycc"; "jsimd_can_rgb_gray"; "jsimd_can_ycc_rgb"]%string = repeat (Some (true, true, true)) 3 /\
   map gate ["jsimd_can_h2v2_downsample"; "jsimd_can_h2v1_downsample"; "jsimd_can_h2v2_upsample"; "jsimd_can_h2v1_upsample";
             "jsimd_can_h2v2_fancy_upsample"; "jsimd_can_h2v1_fancy_upsample"; "jsimd_can_h2v2_merged_upsample";
             "jsimd_can_h2v1_merged_upsample"; "jsimd_can_convsamp"; "jsimd_can_idct_2x2"; "jsimd_can_idct_4x4";
             "jsimd_can_idct_islow"; "jsimd_can_idct_ifast"]%string = repeat (Some (true, false, true)) 13 /\
   gate "jsimd_can_ycc_rgb565"%string = Some (false, false, false) /\
   c_fancy_min_width_gt = 2) /\
  quant_fallback_sites = 2.
Proof. exact (conj gate_sound quant_fallback_present). Qed.
Print Assumptions C05_gate_sound.

(* the constant rows / immediates every kernel file uses are the ones the models were transcribed from *)
Theorem C05_transcription_fingerprint : transcription_fingerprint /\
  forallb (fun t => let '(vb, eb, n) := t in eb * n =? vb) asm_row_inventory = true.
Proof. exact (conj transcription_fingerprint_ok rows_fill_vectors). Qed.
Print Assumptions C05_transcription_fingerprint.

(* (6) fast integer forward DCT (jfdctfst): one pass of the kernel equals the C pass whenever the five
   multiply operands fit in 14 bits (always true for inputs of magnitude <= 1023, e.g. pass 1 on
   samples); the unconditional statement over blocks of 8-bit samples is REFUTED by a block of
   black/white stripes (finding ifast-16bit-overflow, replayed on the implementation by the check) *)
Theorem C05_fdct_ifast_pass_eq_partial : forall d, List.length d = 8%nat ->
  (Forall in14 (c_operands d) -> map s16 (fdct1 asm_alg (map w16 d)) = fdct1 c_alg d) /\
  (Forall (fun v => -1023 <= v <= 1023) d -> map s16 (fdct1 asm_alg (map w16 d)) = fdct1 c_alg d).
Proof. exact (fun d H => conj (fdct1_ifast_eq_partial d H) (fdct1_ifast_eq_small d H)). Qed.
Print Assumptions C05_fdct_ifast_pass_eq_partial.
Theorem C05_fdct_ifast_full_refuted :
  List.length stripes = 64%nat /\ Forall (fun v => -128 <= v <= 127) stripes /\ asm_fdct_ifast stripes <> c_fdct_ifast stripes.
Proof. exact fdct_ifast_full_refuted. Qed.
Print Assumptions C05_fdct_ifast_full_refuted.

(* the whole 8x8 fast FDCT: equal whenever the C computation keeps every multiply operand within 14 bits
   (c_wraps14 = false), e.g. every block with constant rows (horizontal stripes of any contrast) *)
Theorem C05_fdct_ifast_eq_partial : forall blk, List.length blk = 64%nat -> c_wraps14 blk = false ->
  asm_fdct_ifast blk = c_fdct_ifast blk.
Proof. exact fdct_ifast_eq_partial. Qed.
Print Assumptions C05_fdct_ifast_eq_partial.

(* (7) fast inverse DCT (jidctfst): for ALL coefficient blocks and multiplier tables inside the boundary
   c_idct_ifast_ok -- dequantised coefficients and workspace values fit a short, every MULTIPLY operand has magnitude
   < 8192, results within [-16384, 16383] (linear part of the range-limit table) -- the kernel equals jpeg_idct_ifast
   incl. its zero-AC shortcuts, psraw/packsswb/paddb = range_limit[(x >> 5) & RANGE_MASK].  Outside: findings
   ifast-operand-ge-8192 / idct-out-of-range-coefficients. *)
Theorem C05_idct_ifast_eq_partial : forall coef q, List.length coef = 64%nat -> List.length q = 64%nat ->
  c_idct_ifast_ok coef q = true -> asm_idct_ifast coef q = c_idct_ifast coef q.
Proof. exact idct_ifast_eq_partial. Qed.
Print Assumptions C05_idct_ifast_eq_partial.
(* (8) accurate forward DCT (jfdctint): for ALL blocks inside c_fdct_islow_ok (every 16-bit lane value of the C
   computation -- pmaddwd operands, rounded pass-2 sums, packed results -- fits a short) the kernel equals jpeg_fdct_islow *)
Theorem C05_fdct_islow_eq_partial : forall blk, List.length blk = 64%nat -> c_fdct_islow_ok blk = true ->
  asm_fdct_islow blk = c_fdct_islow blk.
Proof. exact fdct_islow_eq_partial. Qed.
Print Assumptions C05_fdct_islow_eq_partial.

(* (9) accurate inverse DCT (jidctint): for ALL coefficient blocks and multiplier tables inside c_idct_islow_ok
   (dequantised coefficients, the four 16-bit sums and the workspace fit a short, dword lanes fit 32 bits, results
   within the linear part [-512, 511] of the range-limit table) the kernel equals jpeg_idct_islow incl. the zero-AC
   shortcuts of the C code and the whole-block DC shortcut of the kernel *)
Theorem C05_idct_islow_eq_partial : forall coef q, List.length coef = 64%nat -> List.length q = 64%nat ->
  c_idct_islow_ok coef q = true -> asm_idct_islow coef q = c_idct_islow coef q.
Proof. exact idct_islow_eq_partial. Qed.
Print Assumptions C05_idct_islow_eq_partial.
(* (10) the boundary contains all real data: EVERY block of level-shifted 8-bit samples satisfies c_fdct_islow_ok
   (stage-wise exact linear bounds), hence the accurate forward DCT kernel equals the C code with no side condition *)
Theorem C05_fdct_islow_eq_all_samples : forall blk, List.length blk = 64%nat -> Forall (fun v => -128 <= v <= 127) blk ->
  c_fdct_islow_ok blk = true /\ asm_fdct_islow blk = c_fdct_islow blk.
Proof. exact (fun blk HL HS => conj (fdct_islow_ok_all_samples blk HL HS) (fdct_islow_eq_all_samples blk HL HS)). Qed.
Print Assumptions C05_fdct_islow_eq_all_samples.
(* the fast forward DCT is exact for every block within 64 grey levels of mid-grey; it is NOT for all 8-bit blocks
   (C05_fdct_ifast_full_refuted: c_wraps14 stripes = true is exactly finding ifast-operand-ge-8192) *)
Theorem C05_fdct_ifast_eq_lowcontrast : forall blk, List.length blk = 64%nat -> Forall (fun v => -64 <= v <= 64) blk ->
  c_wraps14 blk = false /\ asm_fdct_ifast blk = c_fdct_ifast blk.
Proof. exact (fun blk HL HS => conj (fdct_ifast_nowrap_lowcontrast blk HL HS) (fdct_ifast_eq_lowcontrast blk HL HS)). Qed.
Print Assumptions C05_fdct_ifast_eq_lowcontrast.
(* dequantised coefficients of a real encoder fit a short (first conjunct of both IDCT boundaries): F a stored DCT
   coefficient, quantised by rounding division by 8*qv (quantize(), C07) and multiplied back by the 8-bit table entry *)
Theorem C05_real_dequantised_fits16 : forall F qv, f16 F -> 1 <= qv <= 255 ->
  let c := round_quant F (8 * qv) in f16 (c * qv) /\ - (Z.abs F / 8 + qv) <= c * qv <= Z.abs F / 8 + qv.
Proof. exact real_dequantised_fits16. Qed.
Print Assumptions C05_real_dequantised_fits16.

(* (11) AVX2 layout: the DOTRANSPOSE macros of jfdctint-avx2.asm / jidctint-avx2.asm, interpreted instruction by
   instruction as read from the source, are the transpositions between the (row r | row r+4) and the column-pair
   register layouts DODCT pairs its operands by; the AVX2 constant rows are the SSE2 rows in those positions *)
Theorem C05_avx2_dct_layout_positions :
  outs4 (run jfdctint_avx2_dotranspose (regfile (rowt 0 ++ rowt 4) (rowt 1 ++ rowt 5) (rowt 2 ++ rowt 6) (rowt 3 ++ rowt 7))) =
    Some [colt 1 ++ colt 0; colt 3 ++ colt 2; colt 4 ++ colt 5; colt 6 ++ colt 7] /\
  outs4 (run jidctint_avx2_dotranspose (regfile (colt 0 ++ colt 1) (colt 3 ++ colt 2) (colt 4 ++ colt 5) (colt 7 ++ colt 6))) =
    Some [rowt 0 ++ rowt 4; rowt 1 ++ rowt 5; rowt 2 ++ rowt 6; rowt 3 ++ rowt 7] /\
  jfdctint_avx2_dotranspose_calls = [[0; 1; 2; 3; 4; 5; 6; 7]; [0; 1; 2; 4; 3; 5; 6; 7]] /\
  jidctint_avx2_dotranspose_calls = [[0; 1; 2; 3; 4; 5; 6; 7]; [0; 1; 2; 4; 3; 5; 6; 7]].
Proof. exact (conj jfdctint_avx2_transpose_positions (conj jidctint_avx2_transpose_positions avx2_transpose_calls)). Qed.
Print Assumptions C05_avx2_dct_layout_positions.

(* (12) Huffman encoding of one block (jchuff-sse2.asm vs encode_one_block of jchuff.c): for ALL blocks the pre-check of
   encode_one_block_simd admits (|AC| <= 16383 covers 8- and 12-bit data, |DC difference| <= 32767) and ALL derived
   tables, the kernel emits exactly the C sequence of PUT_BITS(code, size): sign / one's complement via pcmpgtw/paddw,
   nbits through the generated jpeg_nbits_table rows and their mirror image for negative indices, the generated
   jpeg_mask_bits, tzcnt runs over the non-zero mask, ZRL loop, symbol index, EOB test *)
Theorem C05_huff_puts_eq : forall DC AC block last_dc, block_ok block last_dc ->
  k_encode_puts DC AC block last_dc = c_encode_puts DC AC block last_dc.
Proof. exact huff_puts_eq. Qed.
Print Assumptions C05_huff_puts_eq.
(* (13) progressive "prepare" kernels (jcphuff-sse2.asm vs jcphuff.c): per lane, every coefficient, every Al *)
Theorem C05_phuff_prepare_lanes_eq : forall x al, coef16 x -> 0 <= al <= 15 ->
  (fst (k_first (w16 x) al) = fst (c_first x al) /\ snd (k_first (w16 x) al) = snd (c_first x al)) /\
  (let '(kv, ks, k1) := k_refine (w16 x) al in let '(cv, cs, c1) := c_refine x al in
   kv = cv /\ k1 = c1 /\ (negb (kv =? 0) && ks) = cs).
Proof. exact (fun x al H1 H2 => conj (first_lane_eq x al H1 H2) (refine_lane_eq x al H1 H2)). Qed.
Print Assumptions C05_phuff_prepare_lanes_eq.
Theorem C05_phuff_refine_prepare_eq : forall xs al, Forall coef16 xs -> 0 <= al <= 15 ->
  let '(kv, kz, ks, ke) := k_refine_prepare xs al in let '(cv, cz, cs, ce) := c_refine_prepare xs al in
  kv = cv /\ kz = cz /\ ke = ce /\ map (fun p => fst p && snd p) (combine kz ks) = cs.
Proof. exact refine_prepare_eq. Qed.
Print Assumptions C05_phuff_refine_prepare_eq.

(* the DC-only shortcut of every IDCT kernel tests ALL AC rows (generated by a row tracker over the OR chain) *)
Theorem C05_idct_zero_ac_rows :
  zero_ac_rows_jidctint_sse2 = [1; 2; 3; 4; 5; 6; 7] /\ zero_ac_rows_jidctint_avx2 = [1; 2; 3; 4; 5; 6; 7] /\
  zero_ac_rows_jidctfst_sse2 = [1; 2; 3; 4; 5; 6; 7] /\ zero_ac_rows_jidctred_sse2_4x4 = [1; 2; 3; 5; 6; 7].
Proof. exact idct_zero_ac_rows. Qed.
Print Assumptions C05_idct_zero_ac_rows.

(* reduced-size 2x2 IDCT (jidctred-sse2.asm jsimd_idct_2x2_sse2 vs jpeg_idct_2x2): equal for ALL blocks and tables
   inside the exact lane boundary c2_ok (dequantised coefficients and odd workspace values fit a short, dword lanes fit) *)
Theorem C05_idct_2x2_eq_partial : forall coef q, c2_ok coef q = true -> asm_idct_2x2 coef q = c_idct_2x2 coef q.
Proof. exact idct_2x2_eq_partial. Qed.
Print Assumptions C05_idct_2x2_eq_partial.

(* non-vacuity *)
Example C05_idct_2x2_nonvacuous :
  let coef := [240; -31; 12; 0; 5; 0; 0; 0;  17; 9; 0; 0; 0; 0; 0; 0;  -8; 0; 3; 0; 0; 0; 0; 0] ++ repeat 0 40 in
  let q := map (fun i => 2 + i mod 7) (map Z.of_nat (seq 0 64)) in
  c2_ok coef q = true /\ asm_idct_2x2 coef q = c_idct_2x2 coef q /\ List.length (c_idct_2x2 coef q) = 4%nat /\
  c2_ok (repeat 1000 64) (repeat 40 64) = false /\
  asm_idct_2x2 (repeat 1000 64) (repeat 40 64) <> c_idct_2x2 (repeat 1000 64) (repeat 40 64).
Proof. exact idct_2x2_nonvacuous. Qed.
Example C05_rgb_ycc_nonvacuous :
  asm_rgb_ycc jccolor_sse2_consts 255 0 0 = (76, 85, 255) /\ c_rgb_ycc 255 0 0 = (76, 85, 255) /\
  asm_rgb_ycc jccolor_avx2_consts 12 200 77 = c_rgb_ycc 12 200 77 /\ c_rgb_ycc 12 200 77 = (130, 98, 44).
Proof. exact rgb_ycc_nonvacuous. Qed.
Example C05_quant_gate_needed :
  let q := compute_reciprocal 2 in
  q_ret q = 0 /\ c_quantize (q_recip q) (q_corr q) (q_shift q) 5 = 3 /\
  s16 (asm_quantize_sse2 (q_recip q) (q_corr q) (q_scale q) (w16 5)) = 0.
Proof. exact quant_gate_needed. Qed.
Example C05_quant_int16_min_differs :
  let q := compute_reciprocal 8 in
  q_ret q = 1 /\ c_quantize (q_recip q) (q_corr q) (q_shift q) (-32768) = -12288 /\
  s16 (asm_quantize_sse2 (q_recip q) (q_corr q) (q_scale q) (w16 (-32768))) = -4096 /\
  s16 (asm_quantize_avx2 (q_recip q) (q_corr q) (q_scale q) (w16 (-32768))) = -4096.
Proof. exact quant_int16_min_differs. Qed.
Example C05_idct_ifast_nonvacuous :
  let coef := [240; -31; 12; 0; 5; 0; 0; 0;  17; 9; 0; 0; 0; 0; 0; 0;  -8; 0; 3; 0; 0; 0; 0; 0] ++ repeat 0 40 in
  let q := map (fun i => 4 * (2 + i mod 7)) (map Z.of_nat (seq 0 64)) in
  c_idct_ifast_ok coef q = true /\ asm_idct_ifast coef q = c_idct_ifast coef q /\
  c_idct_ifast_ok (100 :: repeat 0 63) (repeat 400 64) = false /\
  asm_idct_ifast (100 :: repeat 0 63) (repeat 400 64) <> c_idct_ifast (100 :: repeat 0 63) (repeat 400 64).
Proof. exact idct_ifast_nonvacuous. Qed.
Example C05_fdct_islow_nonvacuous :
  c_fdct_islow_ok stripes = true /\ asm_fdct_islow stripes = c_fdct_islow stripes /\
  c_fdct_islow_ok (repeat 127 64) = true /\ c_fdct_islow_ok (repeat (-128) 64) = true /\
  c_fdct_islow_ok (repeat 8000 64) = false /\ asm_fdct_islow (repeat 8000 64) <> c_fdct_islow (repeat 8000 64).
Proof. exact fdct_islow_nonvacuous. Qed.
