(* C02 -- lossless mode reproduces every sample exactly.
   Property theorems only: statement + exact + Print Assumptions. *)
From Coq Require Import List ZArith.
From LJT Require Import model.Huff model.Lossless model.LosslessLazy model.LosslessBitReg proofs.LosslessBitRegProofs proofs.LosslessLazyProofs model.LosslessPixels proofs.LosslessPixelsProofs model.LosslessBytes proofs.LosslessBytesProofs proofs.LosslessProofs proofs.LosslessScanProofs proofs.LosslessBitsProofs proofs.LosslessHuffProofs proofs.LosslessSuspendProofs gen.GenLossless proofs.LosslessGenProofs.
Import ListNotations.
Local Open Scope Z_scope.

(* (1) one row: undifferencing the differences of a row gives the row back, for
   every predictor selection value (any psv: the model evaluates the same
   predictor on both sides), first row or later row, every row length, every
   previous row, all samples in 0..65535 -- the decoder being handed
   differences that are only congruent modulo 2^16 to the encoder's. *)
Theorem C02_undiff_diff_row : forall first psv prec pt prev cur ds,
  Forall (fun s => 0 <= s < 65536) cur ->
  (first = false -> (length cur <= length prev)%nat) ->
  Forall2 (fun a b => a mod 65536 = b mod 65536) ds (diff_fn first psv prec pt prev cur) ->
  undiff_fn first psv prec pt prev ds = cur.
Proof. exact undiff_diff_row_gen. Qed.
Print Assumptions C02_undiff_diff_row.

(* (3) difference coding: categories 0..16, extra bits fit, decoded value is
   congruent to the difference modulo 2^16 for EVERY integer d, category 16
   only for 32768 (mod 2^16) and then decoded as 32768 without extra bits *)
Theorem C02_diff_coding : forall d,
  canon_diff d mod 65536 = d mod 65536 /\
  0 <= fst (encode_diff d) <= 16 /\ 0 <= snd (encode_diff d) < 2 ^ fst (encode_diff d) /\
  -32767 <= canon_diff d <= 32768 /\
  (fst (encode_diff d) = 16 -> d mod 65536 = 32768 /\ canon_diff d = 32768).
Proof. exact (fun d => conj (canon_diff_eqm d) (encode_diff_category d)). Qed.
Print Assumptions C02_diff_coding.

(* (3, bit level) with any per-table prefix code for the categories, a run of
   differences written as Huffman code + extra bits is read back as the
   canonical differences, leaving the rest of the stream *)
Theorem C02_bitstream_roundtrip :
  forall (code : Z -> Z -> list bool) (dec : Z -> list bool -> option (Z * list bool)),
  (forall tbl s rest, 0 <= s <= 16 -> dec tbl (code tbl s ++ rest) = Some (s, rest)) ->
  forall l rest,
  decode_toks dec (map fst l) (encode_toks code l ++ rest) =
  Some (map (fun td => canon_diff (snd td)) l, rest).
Proof. exact decode_encode_toks. Qed.
Print Assumptions C02_bitstream_roundtrip.

(* (2)+(4) whole component, any number of rows of any common width, restart
   interval any multiple of the MCUs per row (or none): differencing, category
   coding, decoding, undifferencing and scaling return every sample with its Pt
   low-order bits cleared; encoder and decoder reset the predictor on the
   same rows (LosslessProofs.states_agree_step is the invariant) *)
Theorem C02_component_roundtrip : forall ri mpr psv prec pt w rows,
  2 <= prec <= 16 -> 1 <= psv <= 7 -> 0 <= pt < prec ->
  (ri = 0 \/ (0 < mpr /\ 0 < ri < 4294967296 /\ ri mod mpr = 0)) -> 0 < mpr ->
  Forall (fun r => length r = w /\ Forall (fun s => 0 <= s < 2 ^ prec) r) rows ->
  codec_component ri mpr psv prec pt rows =
  Some (map (map (fun s => Z.shiftl (Z.shiftr s pt) pt)) rows).
Proof. exact codec_component_correct. Qed.
Print Assumptions C02_component_roundtrip.

Theorem C02_component_roundtrip_pt0 : forall ri mpr psv prec w rows,
  2 <= prec <= 16 -> 1 <= psv <= 7 ->
  (ri = 0 \/ (0 < mpr /\ 0 < ri < 4294967296 /\ ri mod mpr = 0)) -> 0 < mpr ->
  Forall (fun r => length r = w /\ Forall (fun s => 0 <= s < 2 ^ prec) r) rows ->
  codec_component ri mpr psv prec 0 rows = Some rows.
Proof. exact codec_component_pt0. Qed.
Print Assumptions C02_component_roundtrip_pt0.

(* (2) a whole scan of n components (interleaved: one sample row of every
   component per MCU row; n = 1: non-interleaved), per-component predictor state
   and restart counters in the compressor, ONE restart counter and a reset of
   every component in the decompressor *)
Theorem C02_scan_roundtrip : forall n ri mpr psv prec pt w mrows,
  2 <= prec <= 16 -> 1 <= psv <= 7 -> 0 <= pt < prec ->
  (ri = 0 \/ (0 < mpr /\ 0 < ri < 4294967296 /\ ri mod mpr = 0)) -> 0 < mpr ->
  Forall (fun mr => length mr = n /\
          Forall (fun r => length r = w /\ Forall (fun s => 0 <= s < 2 ^ prec) r) mr) mrows ->
  codec_scan n ri mpr psv prec pt mrows =
  Some (map (map (map (fun s => Z.shiftl (Z.shiftr s pt) pt))) mrows).
Proof. exact codec_scan_correct. Qed.
Print Assumptions C02_scan_roundtrip.

(* (3, interleaved bit level) the MCU row written column by column, one sample
   per component with the table of that component, is read back and
   de-interleaved into the canonical difference rows *)
Theorem C02_interleaved_bitstream :
  forall (code : Z -> Z -> list bool) (dec : Z -> list bool -> option (Z * list bool)),
  (forall tbl s rest, 0 <= s <= 16 -> dec tbl (code tbl s ++ rest) = Some (s, rest)) ->
  forall tbls w rows rest,
  length rows = length tbls -> Forall (fun r => length r = w) rows ->
  decode_mcu_row dec tbls w (encode_mcu_row code tbls w rows ++ rest)
  = Some (map (map canon_diff) rows, rest).
Proof. exact decode_encode_mcu_row. Qed.
Print Assumptions C02_interleaved_bitstream.

(* ... and with the real Huffman machinery (model/Huff.v: jpeg_make_c_derived_tbl,
   jpeg_make_d_derived_tbl, the HUFF_DECODE look-ahead path; inverse theorem of
   C19): any tables accepted by both builders in lossless mode in which each of
   the categories 0..16 has a code *)
Theorem C02_real_huffman_bitstream :
  forall (tabs : Z -> list Z * list Z) (cts : Z -> ctbl) (dts : Z -> dtbl),
  (forall t, length (fst (tabs t)) = 17%nat) ->
  (forall t, make_c_derived (fst (tabs t)) (snd (tabs t)) 16 = Some (cts t)) ->
  (forall t, make_d_derived (fst (tabs t)) (snd (tabs t)) true 16 = Some (dts t)) ->
  (forall t s, 0 <= s <= 16 -> encode_sym (cts t) s <> None) ->
  forall tbls w rows rest,
  length rows = length tbls -> Forall (fun r => length r = w) rows ->
  decode_mcu_row (huff_dec dts) tbls w (encode_mcu_row (huff_code cts) tbls w rows ++ rest)
  = Some (map (map canon_diff) rows, rest).
Proof. exact real_huffman_mcu_row. Qed.
Print Assumptions C02_real_huffman_bitstream.

(* BYTE level.  The scan is a list of restart intervals (all of R MCU rows of mpr
   MCUs, the last one 1..R rows; one interval of any length when there are no
   restarts), every MCU a list of (table, difference).  What start_pass_lhuff,
   encode_mcus_huff per MCU row (emit_bits with its 24-bit put_buffer, 0xFF
   stuffing, the restart test at the start of a call, restarts_to_go /
   next_restart_num per MCU, emit_restart = pad with 1-bits + FF RSTn) and
   finish_pass_huff write is accepted, and the byte reader of
   jpeg_fill_bit_buffer (FF 00 unstuffing, stop at a marker), process_restart
   and read_restart_marker (expected RSTn) followed by the category decoder
   return the canonical differences of every interval, up to the marker m that
   follows the scan.  Huffman tables: any tables accepted by both derived-table
   builders in which every category has a code of 1..16 bits. *)
Theorem C02_scan_bytes_roundtrip :
  forall (tabs : Z -> list Z * list Z) (cts : Z -> ctbl) (dts : Z -> dtbl),
  (forall t, length (fst (tabs t)) = 17%nat) ->
  (forall t, make_c_derived (fst (tabs t)) (snd (tabs t)) 16 = Some (cts t)) ->
  (forall t, make_d_derived (fst (tabs t)) (snd (tabs t)) true 16 = Some (dts t)) ->
  (forall t s, 0 <= s <= 16 -> 1 <= nthZ (ehufsi (cts t)) (Z.to_nat s) <= 16) ->
  forall ri mpr R ivs m tail,
  (1 <= mpr)%nat -> (ri = 0 \/ ((1 <= R)%nat /\ ri = Z.of_nat (R * mpr))) ->
  ivs_ok ri mpr R ivs -> m <> 0 -> m <> 255 ->
  exists bytes, enc_total cts ri (0, 0) (ri, 0) (concat ivs) = Some bytes /\
    dec_intervals (huff_dec dts) (map tblseq ivs) 0 (bytes ++ 255 :: m :: tail)
    = Some (map canon_iv ivs, Some (m, tail)).
Proof. exact real_huffman_scan_bytes. Qed.
Print Assumptions C02_scan_bytes_roundtrip.

(* END TO END: sample rows -> bytes -> sample rows, with NO interval hypothesis.  A scan
   of n = |tbls| components (MCU = one sample of every component, each with its own
   predictor state and Huffman table; n = 1 non-interleaved), any number of rows >= 1 of
   width w, precision 2..16, predictor 1..7, point transform 0 <= Pt < precision, restart
   interval 0 or R * w (what start_pass_lossless / restart_in_rows accept).  Encoder:
   scaling, differencing with per-component restart_rows_to_go, category coding, emit_bits,
   stuffing, padding, RSTn from restarts_to_go.  Decoder AS IT RUNS: lazily refilled bit
   buffer (jpeg_fill_bit_buffer), one MCU row per decode_mcus call, the row counter
   restart_rows_to_go with the per-row restart test, process_restart / read_restart_marker,
   restart_pending -> start_pass_lossless, undifferencing, scaling.  Result: every sample
   with its Pt low bits cleared, and the reader stands at the marker that follows the
   scan (wf: nothing beyond it consumed, no zero bits inserted, no warning). *)
Theorem C02_samples_bytes_samples :
  forall (tabs : Z -> list Z * list Z) (cts : Z -> ctbl) (dts : Z -> dtbl),
  (forall t, length (fst (tabs t)) = 17%nat) ->
  (forall t, make_c_derived (fst (tabs t)) (snd (tabs t)) 16 = Some (cts t)) ->
  (forall t, make_d_derived (fst (tabs t)) (snd (tabs t)) true 16 = Some (dts t)) ->
  (forall t s, 0 <= s <= 16 -> 1 <= nthZ (ehufsi (cts t)) (Z.to_nat s) <= 16) ->
  forall ri w R tbls psv prec pt mrows m tail,
  (1 <= w)%nat -> (ri = 0 \/ ((1 <= R)%nat /\ ri = Z.of_nat (R * w))) -> ri < 4294967296 ->
  2 <= prec <= 16 -> 1 <= psv <= 7 -> 0 <= pt < prec ->
  Forall (fun mr => length mr = length tbls /\
          Forall (fun r => length r = w /\ Forall (fun s => 0 <= s < 2 ^ prec) r) mr) mrows ->
  (1 <= length mrows)%nat -> m <> 0 -> m <> 255 ->
  exists bytes, encode_scan_e2e cts (length tbls) ri psv prec pt tbls w mrows = Some bytes /\
    exists st' pad,
      decode_scan_e2e (huff_dec dts) (length tbls) ri psv prec pt tbls w (length mrows) (bytes ++ 255 :: m :: tail)
      = Some (map (map (map (fun s => Z.shiftl (Z.shiftr s pt) pt))) mrows, st') /\ wf st' pad m tail.
Proof. exact real_samples_bytes_samples. Qed.
Print Assumptions C02_samples_bytes_samples.

(* the lazily refilled row-by-row reader and the whole-segment reader return the same
   differences on what the encoder writes, and the lazy one stops at the marker *)
Theorem C02_lazy_reader_equals_segment_reader :
  forall (tabs : Z -> list Z * list Z) (cts : Z -> ctbl) (dts : Z -> dtbl),
  (forall t, length (fst (tabs t)) = 17%nat) ->
  (forall t, make_c_derived (fst (tabs t)) (snd (tabs t)) 16 = Some (cts t)) ->
  (forall t, make_d_derived (fst (tabs t)) (snd (tabs t)) true 16 = Some (dts t)) ->
  (forall t s, 0 <= s <= 16 -> 1 <= nthZ (ehufsi (cts t)) (Z.to_nat s) <= 16) ->
  forall ri w R tbls ivs raws m tail,
  (1 <= w)%nat -> (ri = 0 \/ ((1 <= R)%nat /\ ri = Z.of_nat (R * w))) -> ri < 4294967296 ->
  Forall2 (seg_ok cts) ivs raws -> ivs_ok ri w R ivs -> ivs_tbls_ok w tbls ivs -> m <> 0 -> m <> 255 ->
  dec_intervals (huff_dec dts) (map tblseq ivs) 0 (join raws 0 ++ 255 :: m :: tail)
    = Some (map canon_iv ivs, Some (m, tail)) /\
  exists rows fin pad,
    dec_rows_lazy (huff_dec dts) ri (Z.of_nat w) tbls w (length (concat ivs))
      {| br_buf := []; br_inp := join raws 0 ++ 255 :: m :: tail; br_marker := None; br_insuf := false |}
      (ri / Z.of_nat w) 0 = Some (rows, fin) /\
    map snd rows = map (deint w tbls) (concat ivs) /\ wf (fst (fst fin)) pad m tail.
Proof. exact real_lazy_vs_segment. Qed.
Print Assumptions C02_lazy_reader_equals_segment_reader.

(* the arithmetic emit_bits (put_buffer |= code << (24 - put_bits), bytes taken
   from bits 16..23, size_t shifts) is a bit queue: from a state holding n < 8
   pending bits of value v it writes whole (stuffed) bytes and keeps the rest *)
Theorem C02_emit_bits_refines_queue : forall st v n code (size : nat),
  eb_inv st v n -> (1 <= size <= 16)%nat ->
  exists raw st' v' n',
    emit_bits st code (Z.of_nat size) = (flat_map stuff1 raw, st') /\
    Forall (fun c => 0 <= c < 256) raw /\ eb_inv st' v' n' /\
    bits_of_bytes raw ++ Lossless.bits_of n' v' = Lossless.bits_of n v ++ Lossless.bits_of size code.
Proof. exact emit_bits_spec. Qed.
Print Assumptions C02_emit_bits_refines_queue.

(* I/O suspension in the middle of an MCU row (suspending jpeg_source_mgr):
   decode_mcus commits the bit-reader state after every completed MCU and returns
   the number completed; whatever the sequence of suspended calls (each seeing
   no more input than the final one), resuming from (MCU_ctr, saved state)
   yields exactly the MCUs and the final state of the unsuspended call *)
Theorem C02_suspend_resume : forall (S : Type) (dfull : S -> option (list Z * S)) calls,
  Forall (fun d => forall st r, d st = Some r -> dfull st = Some r) calls ->
  forall n st, resume_calls S calls dfull n st = decode_mcus_susp S dfull n st.
Proof. exact resume_calls_correct. Qed.
Print Assumptions C02_suspend_resume.

(* tie: the current jdlhuff.c / jddiffct.c have that structure (BITREAD_SAVE_STATE
   is a statement of the per-MCU loop body, both suspension exits return mcu_num,
   the controller advances MCU_ctr by the returned count) *)
Theorem C02_suspension_source_facts :
  gen_bitread_save_per_mcu = true /\ gen_suspend_returns_mcu_num = true /\ gen_resume_at_mcu_ctr = true.
Proof. exact gen_suspension_facts. Qed.
Print Assumptions C02_suspension_source_facts.

(* PIXELS.  Packed buffer <-> component planes (turbojpeg-mp.c row pointers,
   rgb_rgb_convert / null_convert / grayscale_convert on both sides) is a
   bijection on the samples: for either row order, any pitch >= w*ps and any
   distinct offsets < ps, distinct (row, column, slot) have distinct addresses,
   the stores of the decompressor are read back by the compressor's loads, and no
   other element of the buffer is changed *)
Theorem C02_pixel_layout_bijection : forall bottomup w h pitch ps offs,
  NoDup offs -> Forall (fun o => (o < ps)%nat) offs -> (w * ps <= pitch)%nat ->
  (forall i x k i' x' k', (i < h)%nat -> (x < w)%nat -> (k < length offs)%nat ->
     (i' < h)%nat -> (x' < w)%nat -> (k' < length offs)%nat ->
     addr bottomup h pitch ps offs i x k = addr bottomup h pitch ps offs i' x' k' -> i = i' /\ x = x' /\ k = k') /\
  (forall val buf i x k, (h * pitch <= length buf)%nat -> (i < h)%nat -> (x < w)%nat -> (k < length offs)%nat ->
     gather bottomup h pitch ps offs (scatter bottomup w h pitch ps offs val buf) k i x = val k i x) /\
  (forall val buf a,
     (forall i x k, (i < h)%nat -> (x < w)%nat -> (k < length offs)%nat -> a <> addr bottomup h pitch ps offs i x k) ->
     nth a (scatter bottomup w h pitch ps offs val buf) 0 = nth a buf 0).
Proof. exact pixel_layout_bijection. Qed.
Print Assumptions C02_pixel_layout_bijection.

(* ... instantiated with the offsets and pixel sizes of all 12 TurboJPEG pixel
   formats as they stand in turbojpeg.h (generated) *)
Theorem C02_tj_pixel_roundtrip : forall tj, In tj gen_tj_layout ->
  forall bottomup w h pitch val buf i x k,
  (w * Z.to_nat (snd tj) <= pitch)%nat -> (h * pitch <= length buf)%nat ->
  (i < h)%nat -> (x < w)%nat -> (k < length (slots_of tj))%nat ->
  gather bottomup h pitch (Z.to_nat (snd tj)) (slots_of tj)
         (scatter bottomup w h pitch (Z.to_nat (snd tj)) (slots_of tj) val buf) k i x = val k i x.
Proof. exact tj_pixel_roundtrip. Qed.
Print Assumptions C02_tj_pixel_roundtrip.

(* tie: constants of emit_bits / flush_bits / emit_restart (24, 16, 0xFF, 8, 0xFF, 0x7F, 7,
   JPEG_RST0, &7) as read from jclhuff.c / jpeglib.h; turbojpeg.h offset tables agree
   with the jmorecfg.h tables of pf2cs[format], offsets distinct and below the pixel size *)
Theorem C02_bytes_pixels_source_facts :
  gen_byte_consts = model_byte_consts /\
  length gen_tj_layout = 12%nat /\
  forallb (fun p => layout_ok (fst p) (snd p)) (combine gen_tj_layout gen_jpeg_layout) = true /\
  forallb (fun p => dec_alpha_ok (fst p) (snd p)) (combine gen_tj_layout gen_dec_alpha) = true.
Proof. exact gen_bytes_pixels_facts. Qed.
Print Assumptions C02_bytes_pixels_source_facts.

(* NUMERIC BIT REGISTER.  get_buffer (64-bit bit_buf_type) / bits_left with the shifts and
   masks of the code refine the bit-list register of model/LosslessLazy.v (abstraction: the
   low bits_left bits of get_buffer, first bit first):
   - "get_buffer = (get_buffer << 8) | c; bits_left += 8" appends the byte, nothing is lost
     while bits_left + 8 <= 64;
   - GET_BITS(n) = ((int)(get_buffer >> (bits_left -= n))) & ((1 << n) - 1) returns the value
     of the first n bits held and drops them (n <= 31, n <= bits_left);
   - DROP_BITS leaves exactly the bits a table decoder did not consume *)
Theorem C02_bitreg_ops_refine :
  (forall r c, reg_inv r -> snd r + 8 <= 64 -> 0 <= c < 256 ->
     reg_bits (reg_load r c) = reg_bits r ++ Lossless.bits_of 8 c /\ reg_inv (reg_load r c)) /\
  (forall r n, reg_inv r -> 0 <= n <= snd r -> n <= 31 ->
     get_bits (Z.to_nat n) 0 (reg_bits r) = Some (reg_peek r n, reg_bits (reg_drop r n)) /\ reg_inv (reg_drop r n)) /\
  (forall r pre rest, reg_inv r -> reg_bits r = pre ++ rest ->
     reg_bits (reg_drop r (snd r - Z.of_nat (length rest))) = rest /\
     reg_inv (reg_drop r (snd r - Z.of_nat (length rest)))).
Proof. exact (conj reg_load_spec (conj reg_get_spec reg_drop_spec)). Qed.
Print Assumptions C02_bitreg_ops_refine.

(* jpeg_fill_bit_buffer on the numeric register (fill loop while bits_left < MIN_GET_BITS,
   zero bits after a premature marker) is the bit-list one, and the invariant
   0 <= bits_left <= 64, 0 <= get_buffer < 2^64 is kept: bits_left never exceeds bit_buf_type *)
Theorem C02_bitreg_fill_refines : forall s n,
  rstate_inv s -> 0 <= n <= Z.of_nat MIN_GET_BITS ->
  match reg_fill_bit_buffer s n with
  | Some s' => fill_bit_buffer (abs_state s) (Z.to_nat n) = Some (abs_state s') /\ rstate_inv s'
  | None => fill_bit_buffer (abs_state s) (Z.to_nat n) = None
  end.
Proof. exact reg_fill_refines. Qed.
Print Assumptions C02_bitreg_fill_refines.

(* one difference decoded with the numeric register (refills, table decoder on the bits held +
   DROP_BITS, CHECK_BIT_BUFFER + GET_BITS + HUFF_EXTEND) = the bit-list lazy_decode_tok that
   C02_samples_bytes_samples is about, for any table decoder that returns a category and
   the suffix it did not consume *)
Theorem C02_bitreg_token_refines :
  forall dec : Z -> list bool -> option (Z * list bool),
  (forall tbl bs s rest, dec tbl bs = Some (s, rest) -> exists pre, bs = pre ++ rest) ->
  (forall tbl bs s rest, dec tbl bs = Some (s, rest) -> 0 <= s <= 16) ->
  forall tbl st, rstate_inv st ->
  match reg_decode_tok dec tbl st with
  | Some (d, st') => lazy_decode_tok dec tbl (abs_state st) = Some (d, abs_state st') /\ rstate_inv st'
  | None => lazy_decode_tok dec tbl (abs_state st) = None
  end.
Proof. exact reg_decode_tok_refines. Qed.
Print Assumptions C02_bitreg_token_refines.

(* tie: BIT_BUF_SIZE and MIN_GET_BITS as generated; (MIN_GET_BITS - 1) + 8 <= BIT_BUF_SIZE *)
Theorem C02_bitreg_source_facts :
  gen_bit_buf_size = BIT_BUF_SIZE /\ gen_min_get_bits = Z.of_nat MIN_GET_BITS /\
  (gen_min_get_bits - 1) + 8 <= gen_bit_buf_size.
Proof. exact gen_bitreg_facts. Qed.
Print Assumptions C02_bitreg_source_facts.

(* tie: MIN_GET_BITS of the 64-bit build as read from jdhuff.h / jdhuff.c is the model's; the
   translator also refuses to run unless jpeg_fill_bit_buffer, the row loop of decompress_data
   (restart test, MCU_vert_offset saved on suspension, restart_pending), process_restart and
   read_restart_marker have the statement shapes model/LosslessLazy.v transcribes *)
Theorem C02_lazy_reader_source_facts : gen_min_get_bits = Z.of_nat MIN_GET_BITS.
Proof. exact gen_lazy_facts. Qed.
Print Assumptions C02_lazy_reader_source_facts.

(* tie: the predictor macros, the wiring of the fourteen [un]differencing
   functions, the first-row switch, the "& 0xFFFF" masks and the constants of the
   category coder, as translated from the CURRENT sources (gen/GenLossless.v),
   are the ones the model is written from *)
Theorem C02_source_facts :
  (forall psv Ra Rb Rc, gen_predictor psv Ra Rb Rc = predictor psv Ra Rb Rc) /\
  (forall prec pt, gen_initial_x_c prec pt = initial_predictor_x prec pt /\
                   gen_initial_x_d prec pt = initial_predictor_x prec pt) /\
  gen_diff_wiring = model_wiring /\ gen_undiff_wiring = model_wiring /\
  gen_diff_switch = id_wiring /\ gen_undiff_switch = id_wiring /\
  (gen_undiff_masks <> [] /\ Forall (fun m => forall x, Z.land x m = and16 x) gen_undiff_masks) /\
  gen_huff_consts = [32768; 32767; 32767; 32768; 16; 16; 32768].
Proof. exact gen_source_facts. Qed.
Print Assumptions C02_source_facts.

(* ---- non-vacuity ---- *)
Example C02_ex_alt16_hyp : Forall (fun r => length r = 3%nat /\ Forall (fun s => 0 <= s < 2 ^ 16) r) alt16.
Proof. exact alt16_rows_ok. Qed.
Example C02_ex_alt16 :
  forallb (fun psv => forallb (fun ri =>
     match codec_component ri 3 psv 16 0 alt16 with
     | Some out => if list_eq_dec (list_eq_dec Z.eq_dec) out alt16 then true else false
     | None => false end) [0; 3; 6]) [1; 2; 3; 4; 5; 6; 7] = true.
Proof. exact alt16_roundtrip_computed. Qed.
Example C02_ex_rgb16_hyp : Forall (fun mr => length mr = 3%nat /\
          Forall (fun r => length r = 2%nat /\ Forall (fun s => 0 <= s < 2 ^ 16) r) mr) rgb16.
Proof. exact rgb16_ok. Qed.
Example C02_ex_rgb16 :
  forallb (fun psv => forallb (fun ri =>
     match codec_scan 3 ri 2 psv 16 0 rgb16 with
     | Some out => if list_eq_dec (list_eq_dec (list_eq_dec Z.eq_dec)) out rgb16 then true else false
     | None => false end) [0; 2; 4]) [1; 2; 3; 4; 5; 6; 7] = true.
Proof. exact rgb16_roundtrip_computed. Qed.
Example C02_ex_wide_difference :
  enc_component 0 3 4 16 0 alt16 =
  Some [[-32768; 65535; -65535]; [65535; -131070; 131070]; [-65535; 131070; -131070]; [65535; -65535; 0]].
Proof. exact alt16_wide_difference. Qed.
Example C02_ex_wrap_needed :
  canon_diff 131070 = -2 /\ canon_diff 131070 + (0 + 0 - 65535) <> 65535
  /\ and16 (canon_diff 131070 + (0 + 0 - 65535)) = 65535.
Proof. exact wrap_needed. Qed.
Example C02_ex_category16 : encode_diff 32768 = (16, 32767) /\ encode_diff (-32768) = (16, 32767)
  /\ canon_diff (-32768) = 32768 /\ encode_diff (-1) = (1, 0) /\ encode_diff 65535 = (1, 0).
Proof. exact category16_example. Qed.
Example C02_ex_pt : codec_component 2 2 7 12 3 [[4095; 1]; [8; 2049]] = Some [[4088; 0]; [8; 2048]].
Proof. exact pt_example. Qed.
Example C02_ex_real_table :
  length ex_bits = 17%nat /\
  (exists ct dt, make_c_derived ex_bits ex_vals 16 = Some ct /\ make_d_derived ex_bits ex_vals true 16 = Some dt /\
     forallb (fun s => match encode_sym ct s with Some _ => true | None => false end) ex_vals = true).
Proof. exact ex_table_ok. Qed.
Example C02_ex_suspend :
  decode_mcus_susp _ (toy_dec 4 2) 4 [10; 20; 30; 40] = ([[10]; [20]], [30; 40]) /\
  resume_calls _ [toy_dec 4 2] (toy_dec 4 4) 4 [10; 20; 30; 40] = ([[10]; [20]; [30]; [40]], []).
Proof. exact toy_resume. Qed.
Example C02_ex_suspend_hyp : forall st r, toy_dec 4 2 st = Some r -> toy_dec 4 4 st = Some r.
Proof. exact toy_le. Qed.
(* the state written back once per call (seeded change C02-3) does NOT have the property *)
Example C02_ex_hoisted_save_refuted :
  let (ms1, s1) := decode_mcus_hoisted _ (toy_dec 4 2) 4 [10; 20; 30; 40] in
  let (ms2, s2) := decode_mcus_hoisted _ (toy_dec 4 4) (4 - length ms1) s1 in
  ms1 ++ ms2 = [[10]; [20]; [10]; [20]] /\ ms1 ++ ms2 <> fst (decode_mcus_susp _ (toy_dec 4 4) 4 [10; 20; 30; 40]).
Proof. exact hoisted_save_refuted. Qed.
Example C02_ex_sizes_ok : exists ct, make_c_derived ex_bits ex_vals 16 = Some ct /\
  (forall s, 0 <= s <= 16 -> 1 <= nthZ (ehufsi ct) (Z.to_nat s) <= 16).
Proof. exact ex_table_sizes_ok. Qed.
Example C02_ex_scan_bytes :
  ivs_ok 2 2 1 ex_ivs /\
  enc_total (fun _ => ex_ct) 2 (0, 0) (2, 0) (concat ex_ivs) = Some [128; 95; 255; 208; 9; 31; 255; 0].
Proof. exact ex_ivs_bytes. Qed.
Example C02_ex_bitreg :
  let s0 := {| rs_reg := (0, 0); rs_inp := [171; 255; 0; 18; 255; 208]; rs_marker := None; rs_insuf := false |} in
  rstate_inv s0 /\
  reg_fill_bit_buffer s0 0 = Some {| rs_reg := (11271954, 24); rs_inp := []; rs_marker := Some 208; rs_insuf := false |} /\
  reg_get (11271954, 24) 4 = (10, (11271954, 20)).
Proof. exact bitreg_example. Qed.
Example C02_ex_prefix_code : forall tbl s rest, 0 <= s <= 16 ->
  fixed_dec tbl (fixed_code tbl s ++ rest) = Some (s, rest).
Proof. exact fixed_code_ok. Qed.
