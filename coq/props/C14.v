(* C14 -- property theorems only: statement + exact + Print Assumptions.
   Model: model/MemMgr.v (jmemmgr.c + jmemnobs.c over a heap with a failure oracle),
   model/MemCfg.v (constants regenerated from the source, gen/GenMemConst.v).
   run w64 = the faithful model (size_t arithmetic mod 2^64); all op sequences, all oracles. *)
From Coq Require Import List ZArith Bool Permutation.
From LJT Require Import model.MemMgr model.TjInit model.DestBuf model.VirtAccess model.MemCfg gen.GenMemConst
  proofs.MemMgrProofs proofs.MemMgrWrap proofs.MemMgrLimits proofs.TjInitProofs proofs.DestBufProofs
  proofs.VirtAccessProofs proofs.MemMgrGeom proofs.MemMgrExamples.
From LJT Require Import model.TjAlloc model.SizeExpr gen.GenTjAlloc proofs.SizeExprProofs proofs.TjAllocProofs proofs.TjAllocEpilogue.
Import ListNotations.
Local Open Scope Z_scope.

(* the theorems below apply to the constants of the current tree *)
Theorem C14_generated_cfg_wf : forall align mgr sctl bctl,
  (align = align_simd \/ align = align_nosimd) ->
  0 < mgr <= 1000000 -> 0 < sctl <= 1000000 -> 0 < bctl <= 1000000 ->
  cfg_wf (gen_cfg align mgr sctl bctl).
Proof. exact gen_cfg_wf. Qed.
Print Assumptions C14_generated_cfg_wf.

(* (1) pool_inv: after ANY sequence of manager calls with ANY malloc-failure oracle
   (errors caught and the sequence continued), the live heap blocks are exactly the
   control block plus the pools on the manager's lists, total_space_allocated is the sum of
   their sizes, no id is live twice and no block was freed that was not live *)
Theorem C14_pool_inv : forall c ops oracle,
  cfg_wf c -> Forall op_in_range ops -> pool_invariant c (run w64 c ops (init_st oracle)).
Proof. exact pool_inv_all_runs. Qed.
Print Assumptions C14_pool_inv.

(* a failing malloc changes neither heap nor lists *)
Theorem C14_failed_alloc_large_changes_nothing : forall W c m h pid sz o,
  orc h = true :: o ->
  let '(m', h', e) := alloc_large W c m h pid sz in
  m' = m /\ live h' = live h /\ next h' = next h /\ badfree h' = badfree h /\ e <> None.
Proof. exact alloc_large_failure_changes_nothing. Qed.
Print Assumptions C14_failed_alloc_large_changes_nothing.

Theorem C14_failed_alloc_small_changes_nothing : forall W c m h pid sz,
  (forall b, In b (orc h) -> b = true) -> (64 <= length (orc h))%nat ->
  let '(m', h', e) := alloc_small W c m h pid sz in
  (m' = m \/ e = None) /\ (e <> None -> live h' = live h /\ next h' = next h /\ badfree h' = badfree h).
Proof. exact alloc_small_failure_changes_nothing. Qed.
Print Assumptions C14_failed_alloc_small_changes_nothing.

(* (2) destroy_frees_all: self_destruct after any run (including runs through errors)
   leaves no library block on the heap *)
Theorem C14_destroy_frees_all : forall c ops oracle,
  cfg_wf c -> Forall op_in_range ops ->
  let s := run w64 c (ops ++ [ODestroy]) (init_st oracle) in
  live (s_heap s) = [] /\ s_mgr s = None /\ badfree (s_heap s) = 0.
Proof. exact destroy_frees_all_runs. Qed.
Print Assumptions C14_destroy_frees_all.

(* free_pool(JPOOL_IMAGE) frees exactly the image-pool blocks *)
Theorem C14_free_pool_image_exact : forall c m h m' h' e,
  inv [] c m h -> free_pool c m h 1 = (m', h', e) ->
  e = None /\
  Permutation (live h') ((m_blk m, c_mgr c) :: map (recblk c) (m_small0 m ++ m_large0 m)) /\
  m_small1 m' = [] /\ m_large1 m' = [] /\ m_vs m' = [] /\ m_vb m' = [] /\
  m_small0 m' = m_small0 m /\ m_large0 m' = m_large0 m /\
  m_total m' = c_mgr c + sumsz (map (recblk c) (m_small0 m ++ m_large0 m)).
Proof. exact free_pool_image_exact. Qed.
Print Assumptions C14_free_pool_image_exact.

(* (3) size_checks_sound: with arguments in the range of their C types, the mod-2^64
   computation equals the ideal one on every run (no size_t wrap), every size passed to
   malloc is <= MAX_ALLOC_CHUNK, and no loop of the model runs out of fuel *)
Theorem C14_no_size_t_wrap : forall c ops s,
  cfg_wf c -> Forall op_in_range ops -> run w64 c ops s = run wid c ops s.
Proof. exact run_eq. Qed.
Print Assumptions C14_no_size_t_wrap.

Theorem C14_malloc_sizes_bounded : forall c ops oracle,
  cfg_wf c -> Forall op_in_range ops ->
  Forall (fun e => match e with EMalloc sz _ => sz <= c_max c | EFree _ => True end)
         (trace (s_heap (run w64 c ops (init_st oracle)))).
Proof. exact malloc_sizes_bounded. Qed.
Print Assumptions C14_malloc_sizes_bounded.

Theorem C14_never_out_of_fuel : forall c ops oracle o,
  cfg_wf c -> Forall op_in_range ops -> op_in_range o ->
  snd (step w64 c o (run w64 c ops (init_st oracle))) <> Some OutOfFuel.
Proof. exact never_out_of_fuel. Qed.
Print Assumptions C14_never_out_of_fuel.

(* (4) max_memory_honoured: with max_memory_to_use = M > 0 and no backing store, a
   successful realize_virt_arrays implies that the full-height space of all arrays it
   realized is at most max(M - total_space_allocated, one access height per array);
   otherwise the call ends in an error (JERR_NO_BACKING_STORE) instead of allocating *)
Theorem C14_max_memory_honoured : forall W c m h prec m' h',
  0 < c_block c -> 0 < c_bigmh c ->
  Forall varr_wf (m_vs m) -> Forall varr_wf (m_vb m) -> 0 < m_maxmem m ->
  realize_virt_arrays W c m h prec = (m', h', None) ->
  full_bytes (sample_size prec) (m_vs m) + full_bytes (c_block c) (m_vb m) <=
  Z.max (avail_of m) (min_bytes (sample_size prec) (m_vs m) + min_bytes (c_block c) (m_vb m)).
Proof. exact max_memory_honoured. Qed.
Print Assumptions C14_max_memory_honoured.

(* (5) limits: the comparisons found in the source reject exactly w*h > maxPixels
   (64-bit product, no wrap for 32-bit dimensions) and scan_no > scanLimit; 0 = no limit *)
Theorem C14_pixel_limit_exact : forall w h lim,
  0 <= w < two32 -> 0 <= h < two32 -> 0 < lim ->
  (pixels_rejected_src w h lim = true <-> w * h > lim).
Proof. exact pixels_limit_src_exact. Qed.
Print Assumptions C14_pixel_limit_exact.

Theorem C14_scan_limit_exact : forall n lim, 0 < lim -> (scan_rejected_src n lim = true <-> n > lim).
Proof. exact scan_limit_src_exact. Qed.
Print Assumptions C14_scan_limit_exact.

Theorem C14_limits_off_and_maxmem_unit : forall w h n mb,
  pixels_rejected_src w h 0 = false /\ scan_rejected_src n 0 = false /\ max_memory_to_use_of mb = mb * 1048576.
Proof. exact (fun w h n mb => conj (proj1 (limits_off w h n)) (conj (proj2 (limits_off w h n)) (maxmem_megabytes mb))). Qed.
Print Assumptions C14_limits_off_and_maxmem_unit.

(* a 32-bit product would not implement the pixel limit *)
Theorem C14_pixel_limit_32bit_refuted : exists w h lim,
  0 <= w < two32 /\ 0 <= h < two32 /\ 0 < lim /\ w * h > lim /\ pixels_rejected 32 w h lim = false.
Proof. exact pixels_limit_32_refuted. Qed.
Print Assumptions C14_pixel_limit_32bit_refuted.

(* (6) tj3Init (model/TjInit.v).  If the setjmp handlers of _tjInitCompress/_tjInitDecompress
   destroy the libjpeg object(s) created so far before free(this), then for EVERY failure
   oracle and every init type tj3Init (followed by tj3Destroy when it succeeded) leaves
   nothing allocated ... *)
Theorem C14_tj3init_no_leak_if_handler_destroys : forall c ty oracle sz_this csz dsz,
  cfg_wf c -> 0 <= sz_this <= c_max c -> Forall (fun z => 0 <= z) csz -> Forall (fun z => 0 <= z) dsz ->
  let '(ok, h) := tj3_init_destroy w64 c true ty (empty_heap oracle) sz_this csz dsz in
  live h = [] /\ badfree h = 0.
Proof. exact tj3_init_fixed_no_leak64. Qed.
Print Assumptions C14_tj3init_no_leak_if_handler_destroys.

(* ... and if the handlers only free(this) (the code as generated facts currently say:
   tjinit_handler_destroys = false), the clause "nothing remains allocated" is REFUTED:
   a failure oracle exists after which library blocks stay allocated (finding F4). *)
Theorem C14_tj3init_handler_frees_only_refuted : exists c ty oracle sz csz dsz,
  cfg_wf c /\ 0 <= sz <= c_max c /\ Forall (fun z => 0 <= z) csz /\ Forall (fun z => 0 <= z) dsz /\
  let '(ok, h) := tj3_init_destroy w64 c false ty (empty_heap oracle) sz csz dsz in live h <> [].
Proof. exact tj3_init_handler_frees_only_refuted. Qed.
Print Assumptions C14_tj3init_handler_frees_only_refuted.

(* (7) destination buffer (model/DestBuf.v): for every sequence of images through one destination manager -- any buffer
   mode (library-allocated, caller-supplied, previous result reused), any number of reallocations, any exit (success,
   TurboJPEG-level failure without longjmp, libjpeg error, failed initial allocation), the application freeing or
   keeping earlier results -- the buffer is handed over or freed exactly once: no double free, the library never frees
   a block of the application, nothing remains once the application has released what it holds.  Hypothesis [good]:
   newbuffer is cleared on every jpeg_mem_dest call (or every call not reusing the manager's own buffer) and every
   failing exit with an open image calls term_destination. *)
Theorem C14_destbuf_handover_exactly_once : forall cf cs, good cf -> DestBuf.safe (final cf cs).
Proof. exact destbuf_safe. Qed.
Print Assumptions C14_destbuf_handover_exactly_once.

(* ... which holds for the code as found in the source (jdatadst.c, jdatadst-tj.c, the bailout epilogues of
   tj3Compress*, tj3CompressFromYUVPlanes8, tj3Transform) *)
Theorem C14_destbuf_source_configuration_safe : forall cs,
  DestBuf.safe (final dcfg_tj cs) /\ DestBuf.safe (final dcfg_ljpeg cs).
Proof. exact destbuf_src_safe. Qed.
Print Assumptions C14_destbuf_source_configuration_safe.

Theorem C14_destbuf_cleared_only_at_creation_refuted : exists cs,
  b_stolen (final {| pol := ResetFirstOnly; term_on_throw := true; term_on_longjmp := true |} cs) > 0 /\
  b_badfree (final {| pol := ResetFirstOnly; term_on_throw := true; term_on_longjmp := true |} cs) > 0.
Proof. exact destbuf_first_only_refuted. Qed.
Print Assumptions C14_destbuf_cleared_only_at_creation_refuted.

Theorem C14_destbuf_term_only_in_handler_refuted : exists cs,
  b_live (final {| pol := ResetUnlessReused; term_on_throw := false; term_on_longjmp := true |} cs) <> [] /\
  b_badfree (final {| pol := ResetUnlessReused; term_on_throw := false; term_on_longjmp := true |} cs) > 0.
Proof. exact destbuf_handler_only_refuted. Qed.
Print Assumptions C14_destbuf_term_only_in_handler_refuted.

(* (8) access_virt_sarray / access_virt_barray and do_sarray_io / do_barray_io (model/VirtAccess.v, for any memory
   system, with or without backing store).  VI a L: the window/file state [a] caches the logical array [L]. *)

(* do_*_io moves exactly the defined rows of the window, one allocation chunk at a time, at matching file offsets,
   inside both the in-memory buffer and the file *)
Theorem C14_virt_io_transfers_exact : forall w a a' x ok,
  1 <= a_rpc a -> 0 <= a_inmem a -> do_io w a = (a', x, ok) ->
  ok = true /\ same_geom a a' /\ Forall (xfer_ok a) x /\
  (if w then (forall k, a_mem a' k = a_mem a k) /\
             (forall r, a_file a' r = if (a_cur a <=? r) && (r <? a_cur a + ndef a) then a_mem a (r - a_cur a) else a_file a r)
   else (forall r, a_file a' r = a_file a r) /\
        (forall k, a_mem a' k = if (0 <=? k) && (k <? ndef a) then a_file a (a_cur a + k) else a_mem a k)).
Proof. exact do_io_spec. Qed.
Print Assumptions C14_virt_io_transfers_exact.

(* every successful access returns row pointers inside the in-memory window; a reader gets, for every row, the last value
   written or zero (pre_zero); a writer may not skip rows and afterwards the state still caches the updated array;
   errors are exactly JERR_BAD_VIRTUAL_ACCESS under the stated conditions and leave a consistent state *)
Theorem C14_virt_access_window_and_contents : forall a L start num writable a' res xf,
  VI a L -> 0 <= start -> 0 <= num -> start + num < 2 ^ 32 ->
  access a start num writable = (a', res, xf) ->
  Forall (fun x => xfer_ok a x \/ xfer_ok (set_win a' (a_cur a') (a_undef a) (a_dirty a')) x) xf /\
  (a_bsopen a = false -> xf = []) /\
  a_rows a' = a_rows a /\ a_maxacc a' = a_maxacc a /\ a_prezero a' = a_prezero a /\ a_bsopen a' = a_bsopen a /\
  match res with
  | inl e => e = BadVirtualAccess /\ VI a' L /\ a_undef a' = a_undef a /\
             ((start + num >? a_rows a) || (num >? a_maxacc a) || defined_err a start (start + num) writable = true)
  | inr off =>
      (start + num >? a_rows a) || (num >? a_maxacc a) || defined_err a start (start + num) writable = false /\
      off = start - a_cur a' /\ 0 <= off /\ off + num <= a_inmem a' /\ a_inmem a' = a_inmem a /\
      if writable then
        a_undef a' = Z.max (a_undef a) (start + num) /\
        (forall vals, Z.of_nat (length vals) = num ->
           VI (set_data a' (store_rows (a_mem a') off vals) (a_file a')) (Lupd L start vals))
      else
        VI a' L /\ a_undef a' = a_undef a /\
        (forall k, 0 <= k < num ->
           a_mem a' (off + k) = if start + k <? a_undef a then Some (L (start + k)) else Some 0)
  end.
Proof. exact access_spec. Qed.
Print Assumptions C14_virt_access_window_and_contents.

(* refinement: for every sequence of reads and writes the swapped window behaves exactly like a plain array with a
   defined prefix (same values, same errors) *)
Theorem C14_virt_array_refines_plain_array : forall ops a L,
  VI a L -> Forall vop_ok ops ->
  snd (vrun a ops) = srun (a_rows a) (a_maxacc a) (a_prezero a) L (a_undef a) ops.
Proof. exact vrun_refines. Qed.
Print Assumptions C14_virt_array_refines_plain_array.

Theorem C14_virt_reader_never_sees_uninitialised_rows : forall a L s n a' vals,
  VI a L -> 0 <= s -> 0 <= n -> s + n < 2 ^ 32 ->
  vstep a (VRead s n) = (a', inr vals) -> Forall (fun c => c <> None) vals.
Proof. exact reader_never_sees_garbage. Qed.
Print Assumptions C14_virt_reader_never_sees_uninitialised_rows.

Theorem C14_virt_no_backing_store_no_swap : forall a L start num w a' res xf,
  VI a L -> a_bsopen a = false -> 0 <= start -> 0 <= num -> start + num < 2 ^ 32 ->
  access a start num w = (a', res, xf) -> xf = [] /\ res <> inl VirtualBug /\ res <> inl IoFuel /\ a_cur a' = 0.
Proof. exact no_backing_store_no_swap. Qed.
Print Assumptions C14_virt_no_backing_store_no_swap.

(* the state realize_virt_arrays builds (array fits, or window + backing store) satisfies the invariant *)
Theorem C14_virt_realized_state_invariant : forall c unit walloc width rows maxacc pz maxmem total L,
  0 < c_bigmh c -> 1 <= maxacc -> 1 <= rows < 2 ^ 31 -> 1 <= walloc * unit <= c_max c - c_hdr c ->
  VI (va_realize c unit walloc width rows maxacc pz maxmem total) L.
Proof. exact va_realize_VI. Qed.
Print Assumptions C14_virt_realized_state_invariant.

(* (9) alloc_small / alloc_large size and alignment arithmetic *)
Theorem C14_round_up_pow2_is_the_bit_mask : forall a k, 0 <= k ->
  Z.land (a + 2 ^ k - 1) (Z.lnot (2 ^ k - 1)) = (a + 2 ^ k - 1) / 2 ^ k * 2 ^ k.
Proof. exact rup_is_bitmask. Qed.
Print Assumptions C14_round_up_pow2_is_the_bit_mask.

Theorem C14_source_round_up : forall a,
  rup wid a align_simd = Z.land (a + align_simd - 1) (Z.lnot (align_simd - 1)) /\
  rup wid a align_nosimd = Z.land (a + align_nosimd - 1) (Z.lnot (align_nosimd - 1)).
Proof. exact source_round_up_is_mask. Qed.
Print Assumptions C14_source_round_up.

Theorem C14_round_up_range : forall a b, 1 <= b -> (rup wid a b) mod b = 0 /\ a <= rup wid a b < a + b.
Proof. exact (fun a b H => conj (rup_multiple a b H) (rup_range a b H)). Qed.
Print Assumptions C14_round_up_range.

(* for EVERY address malloc may return: an object carved at an ALIGN_SIZE-multiple offset below the pool capacity is
   ALIGN_SIZE-aligned and lies inside the malloc'ed block of hdr + capacity + ALIGN_SIZE - 1 bytes *)
Theorem C14_object_placement : forall c base off sz cap,
  1 <= c_align c -> 0 <= c_hdr c -> 0 <= base ->
  0 <= off -> off mod c_align c = 0 -> 0 <= sz -> off + sz <= cap ->
  let blocksize := c_hdr c + cap + c_align c - 1 in
  (obj_addr c base off) mod c_align c = 0 /\
  base + c_hdr c <= obj_addr c base off /\ obj_addr c base off + sz <= base + blocksize.
Proof. exact object_placement. Qed.
Print Assumptions C14_object_placement.

(* in every run every pool has bytes_used a multiple of ALIGN_SIZE and non-negative used / left *)
Theorem C14_pool_geometry_all_runs : forall c ops oracle,
  cfg_wf c -> Forall op_in_range ops ->
  match s_mgr (run w64 c ops (init_st oracle)) with
  | Some m => Forall (fun p => p_used p mod c_align c = 0 /\ 0 <= p_used p /\ 0 <= p_left p) (pools_of m)
  | None => True
  end.
Proof. exact pool_geometry_all_runs. Qed.
Print Assumptions C14_pool_geometry_all_runs.

(* (10) allocation / release structure of every TurboJPEG function that acquires a resource, as programs GENERATED from
   turbojpeg.c / turbojpeg-mp.c (gen/GenTjAlloc.v; model/TjAlloc.v).  For every generated program, whichever choice point
   fails first (any malloc/tj3Init/fopen returning NULL, any THROW, any libjpeg call longjmp-ing to the handler -- the least
   element of any set of failures), for every component count and both initial states of instance-owned members:
   no pointer is released while indeterminate (all are NULL-initialised before the first jump) or twice, no libjpeg call can
   longjmp before a handler exists, and on return only blocks handed to the caller (on success) or owned by the instance
   are still allocated.  T1-finite: nc <= MAX_COMPONENTS, first failure index <= 200 (>= the number of choice points). *)
Theorem C14_tj_alloc_programs_safe : forall p, In p tj_progs ->
  forall own0 nc k, (nc <= MAXC)%nat -> (k <= 200)%nat -> safe_b p (trun p own0 nc k) = true.
Proof. exact tj_alloc_safe. Qed.
Print Assumptions C14_tj_alloc_programs_safe.

Theorem C14_tj_alloc_choice_points_covered :
  forallb (fun p => choice_points p <=? 200)%nat tj_progs = true /\ (28 <=? tj_acquisition_sites)%nat = true.
Proof. exact choice_points_bound. Qed.
Print Assumptions C14_tj_alloc_choice_points_covered.

(* (10b) the calls inside the bailout epilogues, which (10) takes as non-failing: the generated list contains only releases,
   abort/destroy-like calls and term_destination; the facts read from the callees' sources hold; and free_pool on a valid
   pool (all that jpeg_abort / jpeg_destroy run) never raises an error in the memory-manager model *)
Theorem C14_tj_epilogue_calls_cannot_fail :
  (forall e, In e tj_epilogue_calls -> e = ERelease \/ e = EAbortLike \/ e = ETerm) /\
  (forall b, In b tj_epilogue_callee_facts -> b = true) /\
  (forall c m h, snd (free_pool c m h 1) = None /\ snd (free_pool c m h 0) = None).
Proof. exact epilogue_calls_cannot_fail. Qed.
Print Assumptions C14_tj_epilogue_calls_cannot_fail.

(* the instance-owned ICC buffers are among the generated programs of (10): tj3Destroy (releases both members, nothing may
   remain), tj3DecompressHeader (out-parameter acquisition + ownership move after freeing the old buffer), tj3GetICCProfile
   (hand-over to the caller) *)
Theorem C14_tj_icc_owner_programs_generated :
  existsb (fun p => p_destroys p && (2 <=? length (p_owned p))%nat) tj_progs = true /\
  existsb (fun p => existsb (fun i => match i with I (BAcquireOut _) => true | _ => false end) (p_body p) &&
                    existsb (fun i => match i with I (BMove _ _) => true | _ => false end) (p_body p)) tj_progs = true /\
  existsb (fun p => existsb (fun i => match i with I (BEscape _) => true | _ => false end) (p_body p)) tj_progs = true.
Proof. exact icc_owner_programs_generated. Qed.
Print Assumptions C14_tj_icc_owner_programs_generated.

(* (11) the size expression of every malloc site (generated) evaluates in C (size_t / unsigned arithmetic) to its integer
   value -- no wrap -- for all values of its variables within the stated bounds *)
Theorem C14_tj_malloc_sizes_do_not_wrap : forall e env, In e tj_size_exprs -> env_ok tj_size_bounds env ->
  wrapped e env = exact e env /\ 0 <= exact e env <= ub tj_size_bounds e.
Proof. exact tj_malloc_sizes_do_not_wrap. Qed.
Print Assumptions C14_tj_malloc_sizes_do_not_wrap.

Theorem C14_size_interval_analysis_sound : forall bd e env, fits bd e = true -> env_ok bd env ->
  wrapped e env = exact e env /\ 0 <= exact e env <= ub bd e.
Proof. exact fits_sound. Qed.
Print Assumptions C14_size_interval_analysis_sound.

(* ------------------------------------------------------------ non-vacuity *)
Example C14_ex_tj_alloc_checker_rejects : check broken1 = false /\ check broken2 = false /\ check broken3 = false.
Proof. exact broken_rejected. Qed.

Example C14_ex_icc_checker_rejects : check broken_icc1 = false /\ check broken_icc2 = false.
Proof. exact broken_icc_rejected. Qed.

Example C14_ex_size_exprs : (20 <=? length tj_size_exprs)%nat = true /\
  fits tj_size_bounds (SMul 32 (SVar 1) (SVar 1)) = false.
Proof. exact size_exprs_nonvacuous. Qed.

Example C14_ex_virt_swapping :
  (forall L, VI ex_va L) /\
  snd (vrun ex_va ex_vops) =
  [inr []; inr []; inr []; inr [Some 1; Some 2; Some 3; Some 4]; inl BadVirtualAccess;
   inr [Some 21; Some 22; Some 23; Some 24; Some 0; Some 0; Some 0; Some 0]; inr [Some 0; Some 0; Some 0; Some 0]; inr [];
   inr [Some 5; Some 6; Some 7; Some 8; Some 9; Some 10; Some 11; Some 12]; inl BadVirtualAccess] /\
  a_cur (fst (vrun ex_va ex_vops)) = 0 /\ a_undef (fst (vrun ex_va ex_vops)) = 32.
Proof. exact (conj ex_va_VI ex_vrun). Qed.

Example C14_ex_source_overhead : pool_hdr_size + align_simd - 1 = 55 /\ pool_hdr_size + align_nosimd - 1 = 31 /\
  max_alloc_chunk mod align_simd = 0 /\ max_alloc_chunk mod align_nosimd = 0.
Proof. exact source_overhead. Qed.

Example C14_ex_destbuf :
  let cs := [mkcall MLib 2 EFinish false; mkcall MCaller 1 EFinish false; mkcall MReuse 1 ELongjmp true;
             mkcall MLib 0 EInitFail false; mkcall MReuse 2 EThrow false; mkcall MLib 1 EFinish false; mkcall MReuse 3 EFinish false] in
  (10 <=? b_nxt (final dcfg_tj cs)) = true /\ b_live (run_calls dcfg_tj ds0 cs) <> [] /\ b_live (final dcfg_tj cs) = [].
Proof. exact destbuf_nonvacuous. Qed.

Example C14_ex_tj3init :
  (let '(ok, h) := tj3_init_destroy w64 ex_cfg false ITransform (empty_heap [false; false; false; true]) 1000 [64; 88] [64; 200; 48; 56] in
   ok = false /\ length (live h) = 2%nat) /\
  (let '(ok, h) := tj3_init_destroy w64 ex_cfg false ICompress (empty_heap (false :: false :: repeat true 20)) 1000 [64; 88] [64; 200; 48; 56] in
   ok = false /\ length (live h) = 1%nat) /\
  (let '(ok, h) := tj3_init_destroy w64 ex_cfg false IDecompress (empty_heap (false :: false :: repeat true 20)) 1000 [64; 88] [64; 200; 48; 56] in
   ok = false /\ length (live h) = 1%nat) /\
  (let '(ok, h) := tj3_init_destroy w64 ex_cfg true ITransform (empty_heap [false; false; false; true]) 1000 [64; 88] [64; 200; 48; 56] in
   ok = false /\ live h = []) /\
  (let '(ok, h) := tj3_init_destroy w64 ex_cfg true ITransform (empty_heap []) 1000 [64; 88] [64; 200; 48; 56] in
   ok = true /\ live h = []).
Proof. exact tj3_init_leak_witness. Qed.

Example C14_ex_ops_in_range : Forall op_in_range ex_ops.
Proof. exact ex_in_range. Qed.

Example C14_ex_run_nontrivial :
  let s := run w64 ex_cfg ex_ops (init_st ex_oracle) in
  length (live (s_heap s)) = 3%nat /\
  (exists m, s_mgr s = Some m /\ m_total m = sumsz (live (s_heap s)) /\ m_total m > 168) /\
  snd (step w64 ex_cfg ORealize (run w64 ex_cfg (firstn 9 ex_ops) (init_st ex_oracle))) = Some NoBackingStore /\
  snd (step w64 ex_cfg (OLarge 0 18446744073709551615) (run w64 ex_cfg (firstn 12 ex_ops) (init_st ex_oracle))) = Some (OOM 8) /\
  snd (step w64 ex_cfg (OSmall 0 100) (run w64 ex_cfg (firstn 1 ex_ops) (init_st ex_oracle))) = None /\
  live (s_heap (run w64 ex_cfg (ex_ops ++ [ODestroy]) (init_st ex_oracle))) = [].
Proof. exact ex_run_nontrivial. Qed.

Example C14_ex_realize :
  (let '(_, _, e) := realize_virt_arrays w64 ex_cfg (ex_mgr 1000000) ex_heap 8 in e = None) /\
  (let '(_, _, e) := realize_virt_arrays w64 ex_cfg (ex_mgr 100000) ex_heap 8 in e = Some NoBackingStore) /\
  Forall varr_wf (m_vs (ex_mgr 1)) /\ Forall varr_wf (m_vb (ex_mgr 1)) /\
  full_bytes 1 (m_vs (ex_mgr 1)) + full_bytes 128 (m_vb (ex_mgr 1)) = 576800.
Proof. exact ex_realize. Qed.

Example C14_ex_limits :
  pixels_rejected_src 100 100 10000 = false /\ pixels_rejected_src 100 100 9999 = true /\
  pixels_rejected_src 65536 65536 1 = true /\
  scan_rejected_src 5 5 = false /\ scan_rejected_src 6 5 = true.
Proof. exact ex_limits. Qed.
