(* C06 -- property theorems only: statement + exact + Print Assumptions. *)
From Coq Require Import List ZArith Bool String.
From LJT Require Import model.Transform model.TransformSpec model.TransformExt proofs.TransformExtProofs
  proofs.TransformProofs proofs.TransformPlane proofs.TransformImage proofs.TransformGeneral proofs.TransformPerfect proofs.TransformLoops proofs.TransformTjSweep proofs.TransformTjSize
  gen.GenXform proofs.TransformGenFacts.
Import ListNotations.
Local Open Scope Z_scope.

(* (1a) JCOEF negation (16-bit wrap) is an involution on every value, -32768 included *)
Theorem C06_neg16_involutive : forall x, -32768 <= x <= 32767 -> neg16 (neg16 x) = x.
Proof. exact neg16_involutive. Qed.
Print Assumptions C06_neg16_involutive.

(* (1b) the seven in-block loop bodies of transupp.c are the signed permutations of the spec *)
Theorem C06_inblock_loops : forall b,
  blk_fliph b = act D_fh b /\ blk_flipv b = act D_fv b /\ blk_transpose b = act D_tr b /\
  blk_rot90 b = act D_r90 b /\ blk_rot270 b = act D_r270 b /\ blk_rot180 b = act D_r180 b /\
  blk_transverse b = act D_tv b.
Proof.
  exact (fun b => conj (blk_fliph_spec b) (conj (blk_flipv_spec b) (conj (blk_transpose_spec b)
         (conj (blk_rot90_spec b) (conj (blk_rot270_spec b) (conj (blk_rot180_spec b) (blk_transverse_spec b))))))).
Qed.
Print Assumptions C06_inblock_loops.

(* (1c) the eight block maps form the dihedral group: closed under composition for all
   coefficient values, with this multiplication table *)
Theorem C06_d4_action : forall g h b, Forall int16 b -> act g (act h b) = act (d4_mul g h) b.
Proof. exact act_act. Qed.
Print Assumptions C06_d4_action.

Theorem C06_d4_table :
  map (fun g => map (d4_mul g) all_d4) all_d4 =
  [ [D_id;   D_fh;   D_fv;   D_r180; D_tr;   D_r90;  D_r270; D_tv];
    [D_fh;   D_id;   D_r180; D_fv;   D_r90;  D_tr;   D_tv;   D_r270];
    [D_fv;   D_r180; D_id;   D_fh;   D_r270; D_tv;   D_tr;   D_r90];
    [D_r180; D_fv;   D_fh;   D_id;   D_tv;   D_r270; D_r90;  D_tr];
    [D_tr;   D_r270; D_r90;  D_tv;   D_id;   D_fv;   D_fh;   D_r180];
    [D_r90;  D_tv;   D_tr;   D_r270; D_fh;   D_r180; D_id;   D_fv];
    [D_r270; D_tr;   D_tv;   D_r90;  D_fv;   D_id;   D_r180; D_fh];
    [D_tv;   D_r90;  D_r270; D_tr;   D_r180; D_fh;   D_fv;   D_id] ].
Proof. exact d4_mul_table. Qed.
Print Assumptions C06_d4_table.

(* (1d) involutions, inverse rotations, generators: rot90 = flipH o transpose, ... *)
Theorem C06_block_laws : forall b, wf_blk b ->
  act D_fh (act D_fh b) = b /\ act D_fv (act D_fv b) = b /\ act D_tr (act D_tr b) = b /\
  act D_r180 (act D_r180 b) = b /\ act D_tv (act D_tv b) = b /\
  act D_r270 (act D_r90 b) = b /\ act D_r90 (act D_r270 b) = b /\
  act D_r90 b = act D_fh (act D_tr b) /\ act D_r270 b = act D_tr (act D_fh b) /\
  act D_r270 b = act D_fv (act D_tr b) /\ act D_r180 b = act D_fh (act D_fv b) /\
  act D_tv b = act D_tr (act D_r180 b) /\ act D_tv b = act D_fh (act D_tr (act D_fh b)).
Proof. exact block_laws. Qed.
Print Assumptions C06_block_laws.

(* (2) every routine dispatched by jtransform_execute_transform computes the plane
   specification: relocated + sign/transposition adjusted inside the mirrorable area,
   edge blocks left in place (transposed when the operation transposes); all plane sizes,
   sampling factors, crop offsets, source sizes *)
Theorem C06_do_op_meets_spec : forall op slow g src x y,
  geom_ok g -> 0 <= x < g_wb g -> 0 <= y ->
  (op = XFlipH -> g_yco g = 0 -> slow = false -> inplace_ok g) ->
  exec_comp op slow g src x y = spec_comp op g src x y.
Proof. exact exec_comp_meets_spec. Qed.
Print Assumptions C06_do_op_meets_spec.

(* (2b) the in-place row algorithm of do_flip_h_no_crop (swap loop, then left-justify loop) *)
Theorem C06_flip_h_inplace_row : forall (cw xc wb : nat) (row : list blk) (x : nat),
  (cw <= List.length row)%nat -> (wb + xc <= List.length row)%nat -> (x < wb)%nat ->
  nth x (flip_h_row_inplace cw xc wb row) [] =
  if (x + xc <? cw)%nat then blk_fliph (nth (cw - 1 - (x + xc)) row []) else nth (x + xc) row [].
Proof. exact flip_h_row_inplace_spec. Qed.
Print Assumptions C06_flip_h_inplace_row.

(* (2c) THE GENERAL STATEMENT.  Any image whose component sizes are consistent with its
   dimensions, any accepted request (crop, trim, perfect, grayscale, slow hflip): the result has
   the planned dimensions, every component the corresponding size in blocks, and every
   destination block is the source block named by the specification -- which lies inside the
   source plane -- with the specified sign/transposition adjustment.  Blocks of a cropped or
   trimmed region are absent; nothing is taken from outside the image. *)
Theorem C06_transform_blocks : forall im o im',
  src_consistent im -> opts_nonneg o -> transform im o = inr im' ->
  exists p, request_workspace im o = inr p /\
    i_w im' = p_ow p /\ i_h im' = p_oh p /\
    Forall2 (fun c c' =>
       (c_hs c', c_vs c') = dst_samp (p_nc p) (transposes (xo_op o)) c /\
       c_wb c' = cdiv (p_ow p * c_hs c') (p_imw p) /\ c_hb c' = cdiv (p_oh p * c_vs c') (p_imh p) /\
       forall x y, 0 <= x < c_wb c' -> 0 <= y < c_hb c' ->
         let '(g, sx, sy) := pos_of o im p c' x y in
         0 <= sx < c_wb c /\ 0 <= sy < c_hb c /\ c_blk c' x y = d4_apply g (c_blk c sx sy))
      (firstn (Z.to_nat (p_nc p)) (i_comps im)) (i_comps im').
Proof. exact transform_blocks. Qed.
Print Assumptions C06_transform_blocks.

(* the plan keeps the crop region inside the (transformed) image, offsets in whole iMCUs *)
Theorem C06_plan_facts : forall im o p,
  1 <= i_w im -> 1 <= i_h im -> opts_nonneg o ->
  request_workspace im o = inr p -> plan_facts im o p.
Proof. exact plan_ok. Qed.
Print Assumptions C06_plan_facts.

(* (3a) whole planes: op2 after op1 is the product operation, for all 64 pairs *)
Theorem C06_plane_compose : forall op2 op1 w h src x y,
  wf_in w h src ->
  0 <= x < tw op2 (tw op1 w h) (th op1 w h) -> 0 <= y < th op2 (tw op1 w h) (th op1 w h) ->
  full_plane op2 (tw op1 w h) (th op1 w h) (full_plane op1 w h src) x y =
  full_plane (op_mul op2 op1) w h src x y.
Proof. exact full_plane_compose. Qed.
Print Assumptions C06_plane_compose.

(* (3b) images made of whole iMCUs: a plain transform succeeds, meets the whole-plane spec in
   every component (dimensions, sampling factors, tables, blocks) and yields a whole-iMCU image *)
Theorem C06_transform_whole : forall op im Mw Mh,
  whole_image im Mw Mh ->
  exists im', transform im (plain op) = inr im' /\ image_rel op im im' /\
              whole_image im' (tw op Mw Mh) (th op Mw Mh).
Proof. exact transform_plain_whole. Qed.
Print Assumptions C06_transform_whole.

(* (3c) group laws on whole-iMCU images: rot90 then rot270 restores the image, ... *)
Theorem C06_group_laws : forall im Mw Mh (ops : xop * xop),
  whole_image im Mw Mh ->
  In ops [(XRot90, XRot270); (XRot270, XRot90); (XRot180, XRot180); (XFlipH, XFlipH); (XFlipV, XFlipV);
          (XTranspose, XTranspose); (XTransverse, XTransverse); (XNone, XNone)] ->
  exists im1 im2, transform im (plain (fst ops)) = inr im1 /\ transform im1 (plain (snd ops)) = inr im2 /\
                  image_same im im2.
Proof. exact group_laws_whole. Qed.
Print Assumptions C06_group_laws.

Theorem C06_compose_whole : forall op1 op2 im Mw Mh,
  whole_image im Mw Mh ->
  exists im1 im2, transform im (plain op1) = inr im1 /\ transform im1 (plain op2) = inr im2 /\
                  image_rel (op_mul op2 op1) im im2.
Proof. exact transform_compose_whole. Qed.
Print Assumptions C06_compose_whole.

(* (3d) ALL GEOMETRIES.  Any regular image (size-consistent, partial iMCUs allowed), operation
   flagged perfect: accepted iff no partial iMCU lies on a mirrored source edge; then every component
   meets the whole-plane specification, and the inverse operation flagged perfect is accepted too
   and restores dimensions, factors, tables and every block *)
Theorem C06_perfect_request_iff : forall op im,
  regular_image im -> (perfect_for op im <-> exists im', transform im (perfect_opts op) = inr im').
Proof. exact perfect_request_iff. Qed.
Print Assumptions C06_perfect_request_iff.

Theorem C06_transform_perfect_regular : forall op im,
  regular_image im -> perfect_for op im ->
  exists im', transform im (perfect_opts op) = inr im' /\ image_rel op im im' /\
              regular_image im' /\ perfect_for (op_inv op) im'.
Proof. exact transform_perfect_regular. Qed.
Print Assumptions C06_transform_perfect_regular.

Theorem C06_perfect_round_trip : forall op im,
  regular_image im -> perfect_for op im ->
  exists im1 im2, transform im (perfect_opts op) = inr im1 /\
                  transform im1 (perfect_opts (op_inv op)) = inr im2 /\ image_same im im2.
Proof. exact perfect_round_trip. Qed.
Print Assumptions C06_perfect_round_trip.

(* (3e) TRIM, non-perfect geometries: with at least one whole iMCU along each mirrored edge the
   request is accepted and the result is the fully mirrored transform of the source restricted to
   its whole iMCUs on the mirrored edges: no unmirrored edge block remains, dropped blocks are absent *)
Theorem C06_transform_trim : forall op im,
  regular_image im ->
  (mirrors_src_x op = true -> max_hs (i_comps im) * 8 <= i_w im) ->
  (mirrors_src_y op = true -> max_vs (i_comps im) * 8 <= i_h im) ->
  exists im', transform im (trim_opts op) = inr im' /\
    i_w im' = tw op (src_wT op im) (src_hT op im) /\ i_h im' = th op (src_wT op im) (src_hT op im) /\
    Forall2 (fun c c' =>
      c_hs c' = tw op (c_hs c) (c_vs c) /\ c_vs c' = th op (c_hs c) (c_vs c) /\
      c_wb c' = tw op (src_wbT op im c) (src_hbT op im c) /\ c_hb c' = th op (src_wbT op im c) (src_hbT op im c) /\
      forall x y, 0 <= x < c_wb c' -> 0 <= y < c_hb c' ->
        c_blk c' x y = full_plane op (src_wbT op im c) (src_hbT op im c) (c_blk c) x y)
      (i_comps im) (i_comps im').
Proof. exact transform_trim. Qed.
Print Assumptions C06_transform_trim.

(* (4) jtransform_perfect_transform is true iff no partial iMCU lies on a mirrored source
   edge; a request flagged perfect fails exactly then *)
Theorem C06_perfect_iff : forall w h mw mh op,
  perfect_transform w h mw mh op = true <->
  ((mirrors_src_x op = true -> w mod mw = 0) /\ (mirrors_src_y op = true -> h mod mh = 0)).
Proof. exact perfect_iff. Qed.
Print Assumptions C06_perfect_iff.

Theorem C06_request_not_perfect_iff : forall im o,
  request_workspace im o = inl ENotPerfect <-> (xo_perfect o = true /\ perfect_arg im o = false).
Proof. exact request_not_perfect_iff. Qed.
Print Assumptions C06_request_not_perfect_iff.

(* (5) trim arithmetic *)
Theorem C06_trim_nocrop : forall full imcu, 0 < imcu -> 0 <= full ->
  trim_edge full imcu 0 full = if full <? imcu then full else full - full mod imcu.
Proof. exact trim_edge_nocrop. Qed.
Print Assumptions C06_trim_nocrop.

Theorem C06_trim_all_mirrorable : forall out imcu off full,
  0 < imcu -> 0 <= off -> imcu <= out -> off * imcu + out <= full ->
  off + cdiv (trim_edge out imcu off full) imcu <= full / imcu.
Proof. exact trim_edge_all_mirrorable. Qed.
Print Assumptions C06_trim_all_mirrorable.

(* (6) jpeg_copy_critical_parameters' table rule.  The source image records, per component, the
   table LATCHED at its first scan and, per slot, the final content (a DQT between scans may
   redefine a slot).  Accepted => every destination component refers to the same slot, that
   slot of the destination holds the component's own latched table (transposed iff the operation
   transposes); sampling factors follow.  A component whose latched table is no longer in its
   slot => the request is refused. *)
Theorem C06_tables_follow : forall im o im',
  transform im o = inr im' ->
  Forall (fun c => List.length (c_q c) = 64%nat) (i_comps im) ->
  quant_ok im = true /\
  exists nc, (nc <= List.length (i_comps im))%nat /\
    Forall2 (fun c c' => c_tq c' = c_tq c /\ c_q c' = spec_q (xo_op o) (c_q c) /\
                         slot_of (i_slots im') (c_tq c') = c_q c' /\
                         (c_hs c', c_vs c') = dst_samp (Z.of_nat nc) (transposes (xo_op o)) c)
            (firstn nc (i_comps im)) (i_comps im').
Proof. exact transform_tables_follow. Qed.
Print Assumptions C06_tables_follow.

Theorem C06_slot_reuse_refused : forall im o p,
  request_workspace im o = inr p -> quant_ok im = false -> transform im o = inl EQuantReuse.
Proof. exact transform_refuses_reuse. Qed.
Print Assumptions C06_slot_reuse_refused.

Theorem C06_quant_ok_false_iff : forall im,
  quant_ok im = false <-> exists c, In c (i_comps im) /\ c_q c <> slot_of (i_slots im) (c_tq c).
Proof. exact quant_ok_false_iff. Qed.
Print Assumptions C06_quant_ok_false_iff.

Theorem C06_transpose_q : forall q, List.length q = 64%nat ->
  transpose_q q = map (fun k => nth (tr_idx k) q 0) (seq 0 64).
Proof. exact transpose_q_spec. Qed.
Print Assumptions C06_transpose_q.

(* (7) facts regenerated from the CURRENT source on every run (tools/gen_Xform.py): operation
   codes, perfect tests, trim calls, transposition switches, routine dispatch, TurboJPEG iMCU table *)
Theorem C06_source_dispatch :
  gen_jxform_order = all_ops /\
  gen_tjxop_map = map (fun op => (op, op)) all_ops /\
  gen_perfect = map (fun op => (op, mirrors_src_x op, mirrors_src_y op)) all_ops /\
  gen_trim = map (fun op => (op, trim_dim_right op, trim_dim_bottom op)) all_ops /\
  gen_trim_right_shape = ["output_width"; "iMCU_sample_width"; "x_crop_offset"; "iMCU_sample_width";
                          "output_width"; "iMCU_sample_width"]%string /\
  gen_trim_bottom_shape = ["output_height"; "iMCU_sample_height"; "y_crop_offset"; "iMCU_sample_height";
                           "output_height"; "iMCU_sample_height"]%string /\
  gen_transpose_it = map (fun op => (op, transposes op)) all_ops /\
  gen_swap_dims = map (fun op => (op, transposes op)) all_ops /\
  gen_transpose_critical = map (fun op => (op, transposes op)) all_ops /\
  gen_exec = [(XNone, ["do_crop_ext_reflect"; "do_crop_ext_flat"; "do_crop_ext_zero"; "do_crop"]);
              (XFlipH, ["do_flip_h"; "do_flip_h_no_crop"]); (XFlipV, ["do_flip_v"]);
              (XTranspose, ["do_transpose"]); (XTransverse, ["do_transverse"]); (XRot90, ["do_rot_90"]);
              (XRot180, ["do_rot_180"]); (XRot270, ["do_rot_270"])]%string /\
  Forall (fun e => let '((hs, vs), (w, h), (dhs, dvs)) := e in
                   w = 8 * hs /\ h = 8 * vs /\ dhs = vs /\ dvs = hs) gen_tjsamp.
Proof. exact gen_facts_ok. Qed.
Print Assumptions C06_source_dispatch.

(* the model's trim table in the same form, for every image *)
Theorem C06_model_trim_table : forall im op,
  let ncs := Z.of_nat (List.length (i_comps im)) in
  let imw := if ncs =? 1 then 8 else tw op (max_hs (i_comps im)) (max_vs (i_comps im)) * 8 in
  let imh := if ncs =? 1 then 8 else th op (max_hs (i_comps im)) (max_vs (i_comps im)) * 8 in
  let ow0 := tw op (i_w im) (i_h im) in let oh0 := th op (i_w im) (i_h im) in
  request_workspace im (mkxopts op false true false None false) =
  inr (mkplan ncs (if mirror_x op then trim_edge ow0 imw 0 ow0 else ow0)
                  (if mirror_y op then trim_edge oh0 imh 0 oh0 else oh0) imw imh 0 0).
Proof. exact request_trim_only. Qed.
Print Assumptions C06_model_trim_table.

(* (8) tj3Transform crop alignment: acceptance follows the DESTINATION iMCU grid, an accepted
   untrimmed region keeps its origin and has exactly the requested size; and the grid TurboJPEG
   uses (tjMCUWidth/Height of getDstSubsamp, generated from the current source) is that grid *)
Theorem C06_tj_crop_alignment : forall im n t p,
  request_workspace im (tj_xopts n t) = inr p -> t_crop t = true ->
  let d := get_dst_subsamp (get_subsamp im) (t_gray t) (t_op t) in
  (tj_precheck im n t = None <-> (d <> -1 /\ t_x t mod p_imw p = 0 /\ t_y t mod p_imh p = 0)).
Proof. exact tj_crop_alignment. Qed.
Print Assumptions C06_tj_crop_alignment.

(* for the seven TJSAMP layouts the level is always known and its tjMCU grid (used by tj3TransformBufSize)
   is that iMCU grid (getSubsamp/getDstSubsamp modelled statement by statement) *)
Theorem C06_tj_crop_alignment_std : forall im n t p,
  In (i_cs im, layout_of im) std_layouts ->
  request_workspace im (tj_xopts n t) = inr p -> t_crop t = true ->
  (tj_precheck im n t = None <-> (t_x t mod p_imw p = 0 /\ t_y t mod p_imh p = 0)) /\
  let d := get_dst_subsamp (get_subsamp im) (t_gray t) (t_op t) in
  tj_mcu_w d = p_imw p /\ tj_mcu_h d = p_imh p.
Proof. exact tj_crop_alignment_std. Qed.
Print Assumptions C06_tj_crop_alignment_std.

Theorem C06_source_tj_tables :
  tj_samp_mcu = map (fun e => snd (fst e)) gen_tjsamp /\
  forallb (fun i => let d := get_dst_subsamp (Z.of_nat i) false XTranspose in
                    let lum := fun k => fst (fst (nth k gen_tjsamp ((0, 0), (0, 0), (0, 0)))) in
                    let dst := snd (nth i gen_tjsamp ((0, 0), (0, 0), (0, 0))) in
                    (fst (lum (Z.to_nat d)) =? fst dst) && (snd (lum (Z.to_nat d)) =? snd dst) &&
                    (get_dst_subsamp (Z.of_nat i) false XRot180 =? Z.of_nat i) &&
                    (get_dst_subsamp (Z.of_nat i) true XRot90 =? 3))
          (seq 0 7) = true.
Proof. exact tj_tables_from_source. Qed.
Print Assumptions C06_source_tj_tables.

Theorem C06_tj_crop_size : forall im n t p,
  request_workspace im (tj_xopts n t) = inr p -> t_crop t = true -> t_trim t = false ->
  t_x t mod p_imw p = 0 -> t_y t mod p_imh p = 0 -> 0 < p_imw p -> 0 < p_imh p ->
  p_xco p * p_imw p = t_x t /\ p_yco p * p_imh p = t_y t /\
  p_ow p = (if t_w t =? 0 then tw (t_op t) (i_w im) (i_h im) - t_x t else t_w t) /\
  p_oh p = (if t_h t =? 0 then th (t_op t) (i_w im) (i_h im) - t_y t else t_h t).
Proof. exact tj_crop_size. Qed.
Print Assumptions C06_tj_crop_size.

Theorem C06_tj_grid_is_dst_imcu :
  Forall (fun e => let '((hs, vs), (w, h), (dhs, dvs)) := e in
                   forall tr : bool, (if tr then (8 * dhs, 8 * dvs) else (w, h)) =
                                     (if tr then 8 * vs else 8 * hs, if tr then 8 * hs else 8 * vs)) gen_tjsamp.
Proof. exact tj_mcu_is_dst_imcu. Qed.
Print Assumptions C06_tj_grid_is_dst_imcu.

(* (9) the loop nests: after the writes of a routine the destination array is defined exactly on its
   iteration space (real blocks + padding strips up to the next multiple of the sampling factors),
   every real block is inside and holds the specified block *)
Theorem C06_loop_nests : forall op slow g src x y,
  geom_ok g -> 0 <= g_wb g -> 0 <= g_hb g ->
  (op = XFlipH -> g_yco g = 0 -> slow = false -> inplace_ok g) ->
  let wit := if transposes op then (g_wb g + g_hs g - 1) / g_hs g * g_hs g else g_wb g in
  let hit := (g_hb g + g_vs g - 1) / g_vs g * g_vs g in
  (0 <= x < wit /\ 0 <= y < hit -> exists v, exec_nest op slow g src x y = Some v /\ v = exec_comp op slow g src x y) /\
  (~ (0 <= x < wit /\ 0 <= y < hit) -> exec_nest op slow g src x y = None) /\
  g_wb g <= wit /\ g_hb g <= hit /\
  (0 <= x < g_wb g -> 0 <= y < g_hb g -> exec_nest op slow g src x y = Some (spec_comp op g src x y)).
Proof. exact exec_nest_spec. Qed.
Print Assumptions C06_loop_nests.

Theorem C06_source_routine_shapes :
  map fst gen_blockwise = ["do_crop"; "do_flip_h_no_crop"; "do_flip_h"; "do_flip_v"; "do_transpose"; "do_rot_90";
                           "do_rot_270"; "do_rot_180"; "do_transverse"]%string /\
  forallb (fun e => Bool.eqb (snd e) (transposes (routine_op (fst e)))) gen_blockwise = true /\
  forallb (fun e => let op := routine_op (fst (fst e)) in
                    srcdim_eqb (snd (fst e)) (trim_dim_right op) && srcdim_eqb (snd e) (trim_dim_bottom op)) gen_mcu_dims = true.
Proof. exact routine_shapes_from_source. Qed.
Print Assumptions C06_source_routine_shapes.

(* (10) the in-block loops of the C text, interpreted statement by statement by the translator on
   every run, are the model's write lists (order = the model's nested case analysis) *)
Theorem C06_source_inblock_writes :
  gen_inblock =
  [("do_flip_h", [wl W_fliph]); ("do_flip_v", [wl W_flipv]); ("do_transpose", [wl W_transpose]);
   ("do_rot_90", [wl W_rot90; wl W_transpose]); ("do_rot_270", [wl W_rot270; wl W_transpose]);
   ("do_rot_180", [wl W_rot180; wl W_flipv; wl W_fliph]);
   ("do_transverse", [wl W_transverse; wl W_rot270; wl W_rot90; wl W_transpose]);
   ("do_flip_h_no_crop", [wl W_fliph; wl W_fliph])]%string.
Proof. exact inblock_writes_from_source. Qed.
Print Assumptions C06_source_inblock_writes.

(* (11) the parts of transupp.c outside the model (JCROP_FORCE/REFLECT/NEG, wipe, drop) cannot be
   requested through tj3Transform: turbojpeg.c never mentions them; fields it assigns = tj_xopts *)
Theorem C06_source_tj_reachable :
  forallb (fun e => Nat.eqb (snd e) 0) gen_tj_unreachable = true /\
  map fst gen_tj_unreachable = ["JCROP_FORCE"; "JCROP_REFLECT"; "JXFORM_WIPE"; "JXFORM_DROP"; "drop_ptr";
                                "drop_coef_arrays"; "JCROP_NEG"]%string /\
  gen_tj_xinfo_fields = ["crop"; "crop_height"; "crop_height_set"; "crop_width"; "crop_width_set"; "crop_xoffset";
                         "crop_xoffset_set"; "crop_yoffset"; "crop_yoffset_set"; "force_grayscale"; "perfect";
                         "slow_hflip"; "transform"; "trim"]%string.
Proof. exact tj_reachable_from_source. Qed.
Print Assumptions C06_source_tj_reachable.

(* (12) tj3TransformBufSize / getTransformedSpecs (TJSAMP-grid based) vs tj3Transform: whenever
   tj3Transform accepts, getTransformedSpecs accepts too and the dimensions it assumes are >= the
   real output dimensions; T1-finite in the layout (sampling factors 1..4 as JPEG allows, swept) *)
Theorem C06_tj_bufsize_dims_sufficient : forall im n t p,
  layout_bounded im -> 1 <= i_w im -> 1 <= i_h im ->
  0 <= t_x t -> 0 <= t_y t -> 0 <= t_w t -> 0 <= t_h t ->
  request_workspace im (tj_xopts n t) = inr p -> tj_precheck im n t = None ->
  exists w h s, tj_specs im t = Some (w, h, s) /\ p_ow p <= w /\ p_oh p <= h /\ 0 < tj_transform_buf_size im t.
Proof. exact tj_bufsize_dims_sufficient. Qed.
Print Assumptions C06_tj_bufsize_dims_sufficient.

(* (13) the result of a transform is a function of THIS call's source: every exit of tj3Transform /
   tjTransform after jpeg_read_header goes through bailout's jpeg_abort_decompress (no early return) *)
Theorem C06_source_tj_errpaths :
  gen_tj_errpaths = [("tj3Transform", 0%nat, true, 1%nat); ("tjTransform", 0%nat, true, 1%nat)]%string.
Proof. exact tj_errpaths_from_source. Qed.
Print Assumptions C06_source_tj_errpaths.

(* (14) CROP EXTENSION (round 4), reachable from tj3Transform and jpegtran: JXFORM_NONE with a region
   wider/taller than the image and JCROP_POS extents reaches do_crop_ext_zero only (turbojpeg.c never sets
   JCROP_FORCE / JCROP_REFLECT: C06_source_tj_reachable).  Inside the whole-iMCU source area placed at
   the crop offset the output blocks ARE the source blocks; the canvas around it, and the source's
   partial edge iMCU in an extended direction, are zero blocks. *)
Theorem C06_crop_ext_zero_spec : forall g ex ey src x y,
  geom_ok g -> 0 <= x -> 0 <= y ->
  do_crop_ext_zero g ex ey src x y = ext_spec g ex ey src x y.
Proof. exact do_crop_ext_zero_spec. Qed.
Print Assumptions C06_crop_ext_zero_spec.

Theorem C06_transform2_ext_blocks : forall im o im',
  request_workspace im o = inl ECropExt -> transform2 im o = inr im' ->
  Forall (fun c => 1 <= c_hs c /\ 1 <= c_vs c) (i_comps im) ->
  opts_nonneg o -> (forall c, xo_crop o = Some c -> cr_xset c <> ONeg /\ cr_yset c <> ONeg) ->
  exists p, request_workspace2 im o = inr p /\ i_w im' = p_ow p /\ i_h im' = p_oh p /\
    let srcs := firstn (Z.to_nat (p_nc p)) (i_comps im) in
    Forall2 (fun c c' =>
      c_tq c' = c_tq c /\
      forall x y, 0 <= x -> 0 <= y ->
        c_blk c' x y =
        ext_spec (mkgeom (c_hs c') (c_vs c') (c_wb c') (c_hb c') (c_wb c) (i_w im) (i_h im)
                         (samp_mh (p_nc p) false srcs) (samp_mv (p_nc p) false srcs) (p_xco p) (p_yco p))
                 (i_w im <? p_ow p) (i_h im <? p_oh p) (c_blk c) x y)
      srcs (i_comps im').
Proof. exact transform2_ext_blocks. Qed.
Print Assumptions C06_transform2_ext_blocks.

(* ---- non-vacuity ---- *)
Example C06_ex_whole_image : whole_image ex_image 3 2.
Proof. exact ex_image_whole. Qed.

Example C06_ex_min_coefficient : nth 1%nat (act D_fh (0 :: -32768 :: repeat 5 62)) 0 = -32768.
Proof. exact act_fh_min. Qed.

Example C06_ex_perfect :
  perfect_transform 40 32 16 16 XFlipH = false /\ perfect_transform 40 32 16 16 XFlipV = true /\
  perfect_transform 40 32 16 16 XRot90 = true /\ perfect_transform 40 32 16 16 XRot270 = false.
Proof. exact ex_perfect. Qed.

Example C06_ex_trim :
  trim_edge 40 16 0 40 = 32 /\ trim_edge 24 16 1 40 = 16 /\ trim_edge 16 16 0 40 = 16 /\ trim_edge 9 16 0 9 = 9.
Proof. exact ex_trim. Qed.

(* partial iMCUs on both edges, rot90 + trim + crop: hypotheses of C06_transform_blocks hold
   and the transform is accepted *)
Example C06_ex_general_hyps : src_consistent ex_image2 /\ opts_nonneg ex_opts2.
Proof. exact ex_image2_consistent. Qed.

Example C06_ex_general_accepts :
  exists im', transform ex_image2 ex_opts2 = inr im' /\ i_w im' = 8 /\ i_h im' = 24 /\
              map (fun c => (c_hs c, c_vs c, c_wb c, c_hb c)) (i_comps im') = [(2, 2, 1, 3); (1, 1, 1, 2); (1, 1, 1, 2)].
Proof. exact ex_image2_transforms. Qed.

Example C06_ex_geometry : geom_ok (mkgeom 2 2 2 3 5 40 29 2 2 1 0) /\ inplace_ok (mkgeom 2 2 3 4 5 40 29 2 2 1 0).
Proof. exact ex_geom. Qed.

(* three components on slot 0, slot redefined after the first one was latched: refused for every op *)
Example C06_ex_slot_reuse : forall op, transform ex_image3 (plain op) = inl EQuantReuse.
Proof. exact ex_image3_refused. Qed.

(* 48 x 29 4:2:0 (partial bottom iMCU row): regular, perfect for rot270 and hflip, not for rot90,
   and the trim hypothesis of rot90 holds *)
Example C06_ex_partial_geometry :
  regular_image ex_image4 /\ perfect_for XRot270 ex_image4 /\ perfect_for XFlipH ex_image4 /\
  ~ perfect_for XRot90 ex_image4 /\
  (mirrors_src_y XRot90 = true -> max_vs (i_comps ex_image4) * 8 <= i_h ex_image4).
Proof. exact ex_image4_regular. Qed.

(* non-standard layout 2x1,2x1,2x1: classified 4:4:4 (grid 8) but iMCU 16: origin x=8 refused, x=16 accepted *)
Example C06_ex_nonstd_grid :
  let d := get_dst_subsamp (get_subsamp ex_image_2x1) false XNone in
  d = 0 /\ tj_mcu_w d = 8 /\ tj_precheck ex_image_2x1 1 ex_tjx_off = Some EAlign /\
  tj_precheck ex_image_2x1 1 (mktjx XNone false false false true 16 8 16 16) = None.
Proof. exact ex_nonstd_grid. Qed.

(* 40 px wide 4:2:0 luminance (2 whole iMCUs + a partial one) extended in x at offset one iMCU: canvas zero,
   whole iMCUs copied, the partial edge iMCU zeroed *)
Example C06_ex_crop_extension :
  let g := mkgeom 2 2 6 2 3 40 16 2 2 1 0 in
  let src := fun x y => repeat (1 + x + 10 * y) 64%nat in
  ext_spec g true false src 0 0 = zero_blk /\ ext_spec g true false src 2 1 = src 0 1 /\
  ext_spec g true false src 5 1 = src 3 1 /\ ext_spec g true false src 6 0 = zero_blk.
Proof. exact ext_spec_example. Qed.
