(* C06 -- property theorems only: statement + exact + Print Assumptions. *)
From Coq Require Import List ZArith.
From LJT Require Import model.Transform proofs.TransformProofs.
Local Open Scope Z_scope.

Theorem C06_neg16_involutive : forall x, -32768 <= x <= 32767 -> neg16 (neg16 x) = x.
Proof. exact neg16_involutive. Qed.
Print Assumptions C06_neg16_involutive.
