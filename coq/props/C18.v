(* C18 -- property theorems only: statement + exact + Print Assumptions. *)
From Coq Require Import List ZArith.
From LJT Require Import model.Pnm.
Local Open Scope Z_scope.
Theorem C18_tmp : pbm_getc nil = (None, nil).
Proof. reflexivity. Qed.
Print Assumptions C18_tmp.
