(* C18 -- property theorems only: statement + exact + Print Assumptions.
   Files are byte strings (lists of Z in 0..255, predicate [bytes]); [look] is any
   rescale[] accessor agreeing with the materialised table ([look_ok]; both
   [look_tbl] and the closed form [look_fn] used by the extracted model do);
   rgb_to_cmyk is a parameter [cmyk] of the model. *)
From Coq Require Import List ZArith.
From LJT Require Import gen.GenPnm model.Pnm model.Bmp proofs.PnmProofs proofs.PnmRoundtrip proofs.PnmTop proofs.PnmExamples
  proofs.BmpProofs proofs.BmpRoundtrip proofs.BmpTop gen.GenImgPrec model.ImgEntry proofs.ImgEntryProofs
  gen.GenImgRd model.RdCommon model.Gif model.Tga proofs.GifProofs proofs.TgaProofs proofs.ImgRdTop proofs.GifStale proofs.PnmRescale gen.GenCmyk model.Cmyk proofs.CmykProofs proofs.BmpCjRoundtrip proofs.BmpCjTarget.
Import ListNotations.
Local Open Scope Z_scope.

(* (1) for EVERY byte string: no rescale[] index outside the allocation (E_OOB),
   parsing terminates within its fuel (E_FUEL), and a success consumed at least one
   byte per pixel (running out of input is an error, never a success) *)
Theorem C18_pnm_index_safe : forall cmyk look prec maxpixels want bottomup s,
  look_ok look -> 2 <= prec <= 16 -> bytes s ->
  (forall e, load_pnm cmyk look prec maxpixels want bottomup s = Err e -> e <> E_OOB /\ e <> E_FUEL) /\
  (forall w h t rows, load_pnm cmyk look prec maxpixels want bottomup s = Ok (w, h, t, rows) ->
     w * h <= Z.of_nat (length s)).
Proof. exact index_safe_top. Qed.
Print Assumptions C18_pnm_index_safe.

(* the table has max(maxval,255)+1 entries; text values of ANY digit count and
   16-bit raw values above maxval never come back from the sample readers *)
Theorem C18_pnm_values_checked : forall prec maxval,
  look_ok look_tbl /\
  Z.of_nat (length (build_table prec maxval)) = Z.max maxval 255 + 1 /\
  (forall s v s', read_pbm_integer maxval s = Ok (v, s') -> 0 <= v <= maxval) /\
  (forall s v s', get_raw KWord maxval s = Ok (v, s') -> v <= maxval).
Proof. exact table_facts. Qed.
Print Assumptions C18_pnm_values_checked.

(* (2) every returned sample is within the precision, the geometry is consistent and
   the pixel limit is honoured (CMYK: provided rgb_to_cmyk itself is bounded) *)
Theorem C18_pnm_samples_in_range : forall cmyk look prec maxpixels want bottomup s w h t rows,
  look_ok look -> 2 <= prec <= 16 -> bytes s ->
  load_pnm cmyk look prec maxpixels want bottomup s = Ok (w, h, t, rows) ->
  1 <= w <= 65535 /\ 1 <= h <= 65535 /\
  (maxpixels = 0 \/ w * h <= maxpixels) /\
  length rows = Z.to_nat h /\
  (t <> TCmyk \/ cmyk_in_prec cmyk prec ->
   Forall (fun row => Forall (in_prec prec) row /\ length row = (Z.to_nat w * Z.to_nat (target_ps t))%nat) rows).
Proof. exact samples_in_range_top. Qed.
Print Assumptions C18_pnm_samples_in_range.

(* (3) the rescale table: bounded, monotone, identity when maxval = 2^prec-1, 0 above maxval *)
Theorem C18_rescale_identity : forall prec maxval, 0 <= prec -> 0 < maxval ->
  (forall v, 0 <= v <= maxval -> 0 <= rescale_val prec maxval v <= 2 ^ prec - 1) /\
  (forall v1 v2, v1 <= v2 -> rescale_val prec maxval v1 <= rescale_val prec maxval v2) /\
  (maxval = 2 ^ prec - 1 -> forall v, 0 <= v <= maxval -> rescale_val prec maxval v = v) /\
  (forall i, 0 <= i <= Z.max maxval 255 -> exists x, look_tbl prec maxval i = Ok x /\ 0 <= x <= 2 ^ prec - 1 /\
        (i <= maxval -> x = rescale_val prec maxval i) /\ (maxval < i -> x = 0)).
Proof. exact rescale_top. Qed.
Print Assumptions C18_rescale_identity.

(* (4) save then load, every precision 2..16, gray and every RGB-family layout, both
   row orders, every image the reader's 16-bit header fields can describe *)
Theorem C18_ppm_save_load_roundtrip : forall cmyk uncmyk look prec t bottomup w h rows,
  look_ok look -> 2 <= prec <= 16 -> t <> TCmyk ->
  1 <= w <= 65535 -> 1 <= h <= 65535 -> length rows = Z.to_nat h ->
  Forall (Forall (in_prec prec)) rows ->
  load_pnm cmyk look prec 0 (Some t) bottomup (save_pnm uncmyk prec t bottomup w h rows)
  = Ok (w, h, t, map (canon_row prec t (Z.to_nat w)) rows).
Proof. exact roundtrip_top. Qed.
Print Assumptions C18_ppm_save_load_roundtrip.

(* ... where canon_row is the identity for TJPF_GRAY, TJPF_RGB, TJPF_BGR and keeps the
   red, green and blue samples of every other layout of the current source (alpha,
   which the file does not store, comes back opaque) *)
Theorem C18_roundtrip_is_identity : forall prec,
  (forall n row, length row = n -> canon_row prec TGray n row = row) /\
  (forall pf l n row, (pf = 0 \/ pf = 1) -> layout_of_pf pf = Some (TRgb l) -> length row = (n * 3)%nat ->
     canon_row prec (TRgb l) n row = row) /\
  (forall pf l px, layout_of_pf pf = Some (TRgb l) ->
     nthz (canon_px prec (TRgb l) px) (l_r l) = nthz px (l_r l) /\
     nthz (canon_px prec (TRgb l) px) (l_g l) = nthz px (l_g l) /\
     nthz (canon_px prec (TRgb l) px) (l_b l) = nthz px (l_b l) /\
     (l_a l <> -1 -> nthz (canon_px prec (TRgb l) px) (l_a l) = 2 ^ prec - 1)).
Proof. exact canon_top. Qed.
Print Assumptions C18_roundtrip_is_identity.

(* (5a) BMP, for EVERY byte string: the colormap and the row buffer are never indexed
   outside their allocation (B_OOB), accepted images honour the pixel limit and have
   8-bit samples (CMYK: provided rgb_to_cmyk is bounded) *)
Theorem C18_bmp_load_safe : forall cmyk maxpixels want bottomup s, bytes s ->
  (forall l, want = Some (TRgb l) -> 3 <= l_ps l <= 4) ->
  (forall e, load_bmp cmyk maxpixels want bottomup s = BErr e -> e <> B_OOB) /\
  (forall w h t rows, load_bmp cmyk maxpixels want bottomup s = BOk (w, h, t, rows) ->
     1 <= w /\ 1 <= h /\ (maxpixels = 0 \/ w * h <= maxpixels) /\ length rows = Z.to_nat h /\
     (t <> TCmyk \/ cmyk8_bounded cmyk ->
      Forall (fun row => Forall (fun x => 0 <= x <= 255) row /\
                         length row = (Z.to_nat w * Z.to_nat (target_ps t))%nat) rows)).
Proof. exact bmp_safe_top. Qed.
Print Assumptions C18_bmp_load_safe.

(* (5b) BMP save then load at 8 bits: gray (palettised) and every RGB-family layout,
   both row orders, any width the memory manager allows (4 * w <= MAX_ALLOC_CHUNK) *)
Theorem C18_bmp8_roundtrip : forall cmyk uncmyk t bottomup w h rows,
  (t = TGray \/ exists l, t = TRgb l /\ 1 <= l_ps l <= 4) ->
  1 <= w <= 250000000 -> 1 <= h <= 2147483647 ->
  length rows = Z.to_nat h -> Forall (Forall (fun x => 0 <= x <= 255)) rows ->
  load_bmp cmyk 0 (Some t) bottomup (save_bmp uncmyk t bottomup w h rows)
  = BOk (w, h, t, map (canon_row 8 t (Z.to_nat w)) rows).
Proof. exact bmp_roundtrip_top. Qed.
Print Assumptions C18_bmp8_roundtrip.

(* (6) entry point x format x precision (rules generated from jinit_read_*(), tj3LoadImage*(),
   cjpeg main): whenever tj3LoadImage<W> gets as far as copying rows, the reader filled the
   W-bit buffer the loader copies from, the data precision fits the sample type, and every
   8-bit-only format (BMP) is only ever read by tj3LoadImage8; tj3LoadImage12/16 report an error *)
Theorem C18_load_buffer_matches_entry_point : forall W req f dp, W = 8 \/ W = 12 \/ W = 16 ->
  tj_load_dp W req f = Some dp ->
  reader_fills f W = tj_reads W /\ 2 <= dp <= W /\ (f = FPnm \/ (f <> FPnm /\ dp = 8 /\ W = 8)).
Proof. exact tj_buffer_type. Qed.
Print Assumptions C18_load_buffer_matches_entry_point.

(* the same for cjpeg -precision N: an accepted (format, N) reads rows from the buffer the
   selected reader fills (BMP/GIF/Targa: N = 8 only; PPM: every N, through the N-bit variant) *)
Theorem C18_cjpeg_buffer_matches_precision : forall f n, 2 <= n <= 16 -> cj_accepts f n = true ->
  reader_fills f (cj_reader_width f n) = cj_reads n /\ n <= cj_reads n.
Proof. exact cj_buffer_type. Qed.
Print Assumptions C18_cjpeg_buffer_matches_precision.

(* (7) GIF, GetCode: for EVERY reader state satisfying the buffer invariant the three bytes fetched
   lie inside code_buf[260], reloading terminates, the only error is a premature end of file, and
   the bit budget mu strictly decreases unless the terminator block has been seen *)
Theorem C18_gif_getcode_in_buffer : forall fuel st, io_ok st -> 1 <= z_cs st <= 12 -> (length (z_in st) < fuel)%nat ->
  match get_code fuel st with
  | ROk (c, st') =>
    0 <= c /\ io_ok st' /\ frame st st' /\ z_first st' = false /\
    (z_first st = true -> c = z_clear st) /\ (z_done st = true -> z_done st' = true) /\
    ((z_done st' = true /\ c = z_end st) \/ mu st' < mu st)
  | RErr e => e = R_EOF
  end.
Proof. exact get_code_spec. Qed.
Print Assumptions C18_gif_getcode_in_buffer.

(* (8) GIF, LZWReadByte, ALL code streams: under the invariant linv (tables of LZW_TABLE_SIZE cells,
   every defined symbol's prefix is a raw byte or a smaller defined symbol, stack bytes below
   clear_code, at most LZW_TABLE_SIZE of them) every symbol_head / symbol_tail / symbol_stack access
   is in range and reads a written cell, the expansion loop terminates, the byte returned is below
   clear_code (a valid, padded colormap index) and the invariant holds again *)
Theorem C18_gif_lzw_indices_in_range : forall st, linv st ->
  match lzw_read_byte st with
  | ROk (b, st') => 0 <= b < z_clear st /\ linv st' /\ z_ics st' = z_ics st
  | RErr e => e = R_EOF
  end.
Proof. exact lzw_read_byte_spec. Qed.
Print Assumptions C18_gif_lzw_indices_in_range.

(* (9) GIF, whole reader as cjpeg drives it, EVERY byte string: no out-of-range index (R_OOB), no read
   of an unwritten table/colormap cell (R_UNINIT), termination (R_FUEL); a success delivers exactly
   height rows of width*components samples in 0..255 and honours the pixel limit *)
Theorem C18_gif_reader_safe : forall maxpixels s, bytes s ->
  match load_gif maxpixels s with
  | ROk (w, h, comps, warn, rows) =>
    1 <= w <= 65535 /\ 1 <= h <= 65535 /\ (comps = 1 \/ comps = 3) /\ (maxpixels = 0 \/ w * h <= maxpixels) /\
    length rows = Z.to_nat h /\
    Forall (fun row => Forall GifProofs.byte row /\ length row = (Z.to_nat comps * Z.to_nat w)%nat) rows
  | RErr e => rsafe e
  end.
Proof. exact load_gif_spec. Qed.
Print Assumptions C18_gif_reader_safe.

(* get_interlaced_row fetches an existing row of the preloaded image *)
Theorem C18_gif_interlace_row_in_range : forall h r, 0 <= r < h -> 0 <= irow h r < h.
Proof. exact irow_range. Qed.
Print Assumptions C18_gif_interlace_row_in_range.

(* (10) Targa, read_pixel (RLE or raw): the block / duplicate counts stay non-negative, tga_pixel holds
   pixel_size bytes after every call and is never used before it was written *)
Theorem C18_tga_rle_state : forall hd st, 1 <= t_psize hd <= 4 -> tinv (t_psize hd) st ->
  match read_pixel hd st with
  | ROk st' => tinv (t_psize hd) st' /\ ts_px st' <> None
  | RErr e => e = R_EOF
  end.
Proof. exact read_pixel_spec. Qed.
Print Assumptions C18_tga_rle_state.

(* (11) Targa, whole reader, EVERY byte string: colormap and c5to8bits indexed in range, termination;
   a success delivers exactly height rows of width*components samples in 0..255, pixel limit honoured *)
Theorem C18_tga_reader_safe : forall maxpixels s, bytes s ->
  match load_tga maxpixels s with
  | ROk (w, h, comps, rows) =>
    1 <= w <= 65535 /\ 1 <= h <= 65535 /\ (comps = 1 \/ comps = 3) /\ (maxpixels = 0 \/ w * h <= maxpixels) /\
    length rows = Z.to_nat h /\
    Forall (fun row => Forall GifProofs.byte row /\ Z.of_nat (length row) = w * comps) rows
  | RErr e => rsafe e
  end.
Proof. exact load_tga_spec. Qed.
Print Assumptions C18_tga_reader_safe.

(* the constants and comparison directions those proofs use are the ones of the current source *)
Theorem C18_source_gif_tga_constants :
  lzw_table_size = 2 ^ max_lzw_bits /\ max_lzw_bits = 12 /\ code_buf_size = 256 + 4 /\
  gif_min_codesize = 2 /\ gif_max_codesize = 8 /\ 2 ^ gif_max_codesize <= gif_maxcolormap /\
  lzw_full_test_strict = true /\ lzw_grow_guard_strict = true /\ lzw_bad_incode_zero = true /\
  tga_max_maplen = 256 /\ tga_index_check = true /\ length c5to8 = 32%nat.
Proof. exact source_constants. Qed.
Print Assumptions C18_source_gif_tga_constants.

(* (12) BMP through cjpeg (jinit_read_bmp(cinfo, TRUE): header validation, colormap, pad skipping, all rows
   preloaded into the virtual array, then served top-down), EVERY byte string: no colormap / row-buffer index
   out of range (B_OOB), only reported errors otherwise; a success has w,h >= 1, honours the pixel limit and
   delivers h rows of w*components 8-bit samples *)
Theorem C18_bmp_cjpeg_reader_safe : forall cmyk maxpixels s, bytes s ->
  match load_bmp_cj cmyk maxpixels s with
  | BOk (w, h, t, rows) =>
    1 <= w /\ 1 <= h /\ (maxpixels = 0 \/ w * h <= maxpixels) /\ length rows = Z.to_nat h /\
    (bclaim cmyk t -> Forall (fun row => Forall BmpProofs.byte row /\
                                         length row = (Z.to_nat w * Z.to_nat (target_ps t))%nat) rows)
  | BErr e => bsafe e
  end.
Proof. exact load_bmp_cj_spec. Qed.
Print Assumptions C18_bmp_cjpeg_reader_safe.

(* (13) GetCode fetches code_buf[offs..offs+2], which can reach past last_byte into stale bytes: the code
   it returns depends only on the bytes below last_byte whenever cur_bit + code_size <= last_bit *)
Theorem C18_gif_getcode_ignores_stale_bytes : forall (b b' : Z -> Z) lb cur cs,
  (forall i, 0 <= i < lb -> b i = b' i) -> (forall i, 0 <= b i <= 255) -> (forall i, 0 <= b' i <= 255) ->
  0 <= cur -> 1 <= cs <= 12 -> cur + cs <= 8 * lb ->
  extract b cur cs = extract b' cur cs.
Proof. exact extract_ignores_stale. Qed.
Print Assumptions C18_gif_getcode_ignores_stale_bytes.
Theorem C18_gif_model_getcode_is_extract : forall fuel st c st' (stale : Z -> Z),
  io_ok st -> 1 <= z_cs st <= 12 -> (forall i, 0 <= stale i <= 255) -> Forall (fun x => 0 <= x < 256) (z_buf st) ->
  (z_cur_bit st + z_cs st >? z_last_bit st) = false -> get_code fuel st = ROk (c, st') ->
  c = extract (fun i => if i <? Z.of_nat (length (z_buf st)) then znth (z_buf st) i 0 else stale i) (z_cur_bit st) (z_cs st).
Proof. exact getcode_result_independent_of_stale_bytes. Qed.
Print Assumptions C18_gif_model_getcode_is_extract.

(* (14) the maxval rescale in both directions: identity iff maxval = 2^prec-1; onto the target range when the
   file has at least as many levels; strictly increasing (injective) when it has at most as many *)
Theorem C18_ppm_rescale_both_directions : forall prec maxval, 0 <= prec -> 0 < maxval ->
  ((forall v, 0 <= v <= maxval -> rescale_val prec maxval v = v) <-> maxval = 2 ^ prec - 1) /\
  (2 ^ prec - 1 <= maxval -> forall y, 0 <= y <= 2 ^ prec - 1 -> exists v, 0 <= v <= maxval /\ rescale_val prec maxval v = y) /\
  (maxval <= 2 ^ prec - 1 -> forall v1 v2, 0 <= v1 < v2 -> rescale_val prec maxval v1 < rescale_val prec maxval v2) /\
  rescale_val prec maxval 0 = 0 /\ rescale_val prec maxval maxval = 2 ^ prec - 1.
Proof. exact rescale_both_directions. Qed.
Print Assumptions C18_ppm_rescale_both_directions.

(* (15) cmyk.h in exact arithmetic: cmyk_to_rgb (rgb_to_cmyk p) = p for EVERY maxval (every precision) and every
   pixel; K is the brightest component and C, M, Y stay within 0..maxval *)
Theorem C18_cmyk_roundtrip_exact : forall M r g b, 0 < M -> 0 <= r <= M -> 0 <= g <= M -> 0 <= b <= M ->
  let '(c, m, y, k) := rgb_to_cmyk_z M r g b in cmyk_to_rgb_z M c m y k = (r, g, b) /\
  k = Z.max r (Z.max g b) /\ 0 <= c <= M /\ 0 <= m <= M /\ 0 <= y <= M.
Proof. exact cmyk_roundtrip_exact. Qed.
Print Assumptions C18_cmyk_roundtrip_exact.

(* ... with a margin: for ANY c that is maxval*r/x rounded to nearest (either tie direction) the quantity
   c*x/maxval + 1/2 truncated by cmyk_to_rgb lies in [r + (M-x)/(2M), r + 1 - (M-x)/(2M)] (x < M) resp. equals
   r + 1/2 (x = M): an evaluation error below 1/(2M) cannot change the result *)
Theorem C18_cmyk_roundtrip_margin : forall M x r c, 0 < x <= M -> 0 <= r <= x -> 2 * Z.abs (c * x - M * r) <= x ->
  2 * M * r + (M - x) <= 2 * (c * x) + M <= 2 * M * r + M + x /\ round_div (c * x) M = r.
Proof. exact cmyk_margin. Qed.
Print Assumptions C18_cmyk_roundtrip_margin.

(* the C text evaluates these formulas (shapes pinned by the translator) in a format with >= 34 significand bits:
   products of two 16-bit samples are exact and one division's error 2^16 * 2^-p is far below 2^-17 *)
Theorem C18_source_cmyk_arithmetic : 34 <= cmyk_significand_bits /\ cmyk_round_half_up = true /\ cmyk_shapes_ok = true.
Proof. exact cmyk_float_wide_enough. Qed.
Print Assumptions C18_source_cmyk_arithmetic.

(* (16) cjpeg's BMP reader (inversion array) on the output of the library's BMP writer: the image comes back,
   8-bit gray (palettised) and 24-bit RGB, row padding, bottom-up file order, both buffer orders of the writer *)
Theorem C18_bmp_cjpeg_reads_saved : forall cmyk uncmyk t bottomup w h rows, t = TGray \/ t = ext_rgb ->
  1 <= w <= 250000000 -> 1 <= h <= 2147483647 -> length rows = Z.to_nat h -> Forall (Forall BmpProofs.byte) rows ->
  load_bmp_cj cmyk 0 (save_bmp uncmyk t bottomup w h rows)
  = BOk (w, h, t, map (canon_row 8 t (Z.to_nat w)) (if bottomup then rev rows else rows)).
Proof. exact bmp_cj_reads_saved. Qed.
Print Assumptions C18_bmp_cjpeg_reads_saved.
Theorem C18_bmp_cjpeg_reads_saved_identity : forall cmyk uncmyk t w h rows, t = TGray \/ t = ext_rgb ->
  1 <= w <= 250000000 -> 1 <= h <= 2147483647 -> length rows = Z.to_nat h ->
  Forall (fun row => Forall BmpProofs.byte row /\ length row = (Z.to_nat w * Z.to_nat (target_ps t))%nat) rows ->
  load_bmp_cj cmyk 0 (save_bmp uncmyk t false w h rows) = BOk (w, h, t, rows).
Proof. exact bmp_cj_reads_saved_identity. Qed.
Print Assumptions C18_bmp_cjpeg_reads_saved_identity.

(* (12') the all-byte-strings statement for cjpeg's BMP reader without a hypothesis on the target: it is always
   grayscale or RGB, so the samples are always within 0..255 *)
Theorem C18_bmp_cjpeg_reader_safe_unconditional : forall cmyk maxpixels s, bytes s ->
  match load_bmp_cj cmyk maxpixels s with
  | BOk (w, h, t, rows) =>
    (t = TGray \/ t = ext_rgb) /\ 1 <= w /\ 1 <= h /\ (maxpixels = 0 \/ w * h <= maxpixels) /\ length rows = Z.to_nat h /\
    Forall (fun row => Forall (fun x => 0 <= x <= 255) row /\ length row = (Z.to_nat w * Z.to_nat (target_ps t))%nat) rows
  | BErr e => e <> B_OOB
  end.
Proof. exact load_bmp_cj_safe. Qed.
Print Assumptions C18_bmp_cjpeg_reader_safe_unconditional.

(* ---- non-vacuity ---- *)
Example C18_ex_text_ok : bytes f_text /\ load_pnm cmyk_exact look_tbl 2 0 None false f_text = Ok (2, 1, TGray, [[1; 2]]).
Proof. exact ex_text_ok. Qed.
Example C18_ex_f8_rejected :
  load_pnm cmyk_exact look_tbl 2 0 (Some rgb) false f_f8 = Err E_RANGE /\
  load_pnm cmyk_exact look_tbl 2 0 (Some TGray) false f_f8 = Err E_RANGE /\
  load_pnm cmyk_exact look_tbl 2 0 (Some TCmyk) false f_f8 = Err E_RANGE.
Proof. exact ex_f8_rejected. Qed.
Example C18_ex_f9_in_range :
  load_pnm cmyk_exact look_tbl 2 0 (Some TGray) false f_f9 = Ok (2, 1, TGray, [[0; 2]]) /\
  load_pnm cmyk_exact look_tbl 2 0 (Some rgb) false f_f9 = Ok (2, 1, rgb, [[0; 0; 0; 2; 2; 2]]).
Proof. exact ex_f9_in_range. Qed.
Example C18_ex_f10_in_range :
  load_pnm cmyk_exact look_tbl 12 0 (Some TCmyk) false f_f10 = Ok (1, 1, TCmyk, [[4095; 0; 0; 4095]]).
Proof. exact ex_f10_in_range. Qed.
Example C18_ex_cmyk_assumption_satisfiable : forall prec, 2 <= prec <= 16 -> cmyk_in_prec cmyk_exact prec.
Proof. exact cmyk_exact_in_prec. Qed.
Example C18_ex_roundtrip_instance :
  load_pnm cmyk_exact look_tbl 12 0 (Some rgba) true (save_pnm no_uncmyk 12 rgba true 2 2 img12)
  = Ok (2, 2, rgba, [[1; 2; 3; 4095; 4095; 0; 7; 4095]; [100; 200; 300; 4095; 4000; 3000; 2000; 4095]]).
Proof. exact (proj2 ex_roundtrip). Qed.
Example C18_ex_bmp :
  bytes f_bmp24 /\
  load_bmp cmyk_exact 0 (Some rgb) false f_bmp24 = BOk (2, 2, rgb, [[9; 8; 7; 12; 11; 10]; [3; 2; 1; 6; 5; 4]]) /\
  load_bmp cmyk_exact 0 (Some rgb) true f_bmp24 = BOk (2, 2, rgb, [[3; 2; 1; 6; 5; 4]; [9; 8; 7; 12; 11; 10]]) /\
  load_bmp cmyk_exact 3 None false f_bmp24 = BErr B_TOOBIG /\
  load_bmp cmyk_exact 0 None false f_bmp8 = BOk (3, 1, ext_rgb, [[30; 20; 10; 60; 50; 40; 60; 50; 40]]) /\
  load_bmp cmyk_exact 0 None false f_bmp8_bad = BErr B_RANGE /\
  load_bmp cmyk_exact 0 (Some TGray) false f_bmp8 = BErr B_BADCS /\
  load_bmp cmyk_exact 0 None false (firstn 60 f_bmp24) = BErr B_EOF.
Proof. exact ex_bmp. Qed.
Example C18_ex_bmp_roundtrip :
  load_bmp cmyk_exact 0 (Some rgb) false (save_bmp no_uncmyk rgb false 3 2 img8) = BOk (3, 2, rgb, img8) /\
  load_bmp cmyk_exact 0 (Some TGray) true (save_bmp no_uncmyk TGray true 9 2 img8) = BOk (9, 2, TGray, img8) /\
  length (save_bmp no_uncmyk rgb false 3 2 img8) = 78%nat.
Proof. exact ex_bmp_roundtrip. Qed.
Example C18_ex_entry_points :
  tj_load_dp 8 5 FPnm = Some 5 /\ tj_load_dp 8 12 FPnm = Some 8 /\ tj_load_dp 12 10 FPnm = Some 10 /\
  tj_load_dp 16 2 FPnm = Some 16 /\ tj_load_dp 8 3 FBmp = Some 8 /\ tj_load_dp 12 12 FBmp = None /\
  tj_load_dp 8 8 (tj_fmt 71) = None /\
  cj_accepts FPnm 13 = true /\ cj_accepts FBmp 12 = false /\ cj_accepts FGif 8 = true /\ cj_accepts (cj_fmt true 1) 9 = false.
Proof. exact ex_entry. Qed.
Example C18_ex_gif_tga :
  bytes f_gif /\
  load_gif 0 f_gif = ROk (3, 2, 3, 0, [[0; 0; 0; 255; 0; 0; 255; 0; 0]; [0; 255; 0; 0; 0; 255; 0; 0; 255]]) /\
  load_gif 0 f_gif_bad = ROk (3, 2, 3, 3, [[0; 0; 0; 0; 0; 0; 0; 0; 0]; [0; 0; 0; 0; 0; 0; 0; 0; 0]]) /\
  load_gif 0 f_gif_trunc = RErr R_EOF /\ load_gif 5 f_gif = RErr R_TOOBIG /\
  load_tga 0 f_tga = ROk (3, 2, 3, [[3; 2; 1; 3; 2; 1; 6; 5; 4]; [9; 8; 7; 12; 11; 10; 15; 14; 13]]) /\
  load_tga 0 f_tga_cm = ROk (2, 1, 3, [[6; 5; 4; 3; 2; 1]]) /\
  load_tga 0 f_tga_cm_bad = RErr R_TGA_BADPARMS /\ load_tga 0 f_tga_trunc = RErr R_EOF.
Proof. exact ex_gif_tga. Qed.
Example C18_ex_linv_satisfiable : linv (lzw_init 2 0 [2; 140; 45; 153; 135; 42; 28; 220; 51; 160; 2; 117; 236; 149; 250; 168; 222; 96; 140; 4; 145; 76; 1; 0; 59]).
Proof. exact ex_linv. Qed.
Example C18_ex_cmyk : rgb_to_cmyk_z 8191 3893 7838 8179 = (3899, 7849, 8191, 8179) /\
  cmyk_to_rgb_z 8191 3899 7849 8191 8179 = (3893, 7838, 8179) /\
  rgb_to_cmyk_z 255 0 0 0 = (255, 255, 255, 0) /\ cmyk_to_rgb_z 3 2 3 0 2 = (1, 2, 0) /\ rgb_to_cmyk_z 3 1 2 0 = (2, 3, 0, 2).
Proof. exact ex_cmyk. Qed.
