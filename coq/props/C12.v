(* C12 -- property theorems only: statement + exact + Print Assumptions. *)
From Coq Require Import List ZArith String Bool.
From LJT Require Import gen.GenErrPaths model.ApiState model.ApiOps model.ApiUniverse model.ErrPaths model.MemAcct proofs.MemAcctProofs
  proofs.ApiStateProofs proofs.ApiHistoryProofs proofs.ApiKindsProofs proofs.ApiDestProofs proofs.ApiFrameProofs.
Import ListNotations.
Local Open Scope Z_scope.
Local Open Scope string_scope.

(* (1) error paths, over the data regenerated from turbojpeg.c / turbojpeg-mp.c on this run:
   every setjmp handler and every THROW ("retval = -1; goto bailout") of every DLLEXPORT
   function that drives a libjpeg object leaves that object's global_state at START,
   whatever the state / retval / alloc / warning flags were when the error was raised *)
Theorem C12_errpaths_abort :
  forall f, In f api_functions ->
  forall h, h = throw_path \/ In h (fn_handlers f) ->
  forall s, (fn_uses_c f = true -> h_c (hfinal h (bail_of f) s) = false) /\
            (fn_uses_d f = true -> h_d (hfinal h (bail_of f) s) = false).
Proof. exact errpaths_abort_lemma. Qed.
Print Assumptions C12_errpaths_abort.

(* functions working on a temporary instance (tj3LoadImage / tj3SaveImage) destroy it on
   every error path *)
Theorem C12_errpaths_destroy_temporary :
  forall f, In f api_functions -> fn_tmp_instance f = true ->
  destroys_tmp (bail_of f) = true /\
  forall h, In h (fn_handlers f) -> existsb (fun x => match x with HGotoBailout HAlways => true | _ => false end) h = true.
Proof. exact errpaths_tmp_lemma. Qed.
Print Assumptions C12_errpaths_destroy_temporary.

(* soundness of the analysis: two runs of a program from states agreeing on the members the
   analysis takes as defined make the same observations, raise no memory error, and return
   in states agreeing on one of the computed exit states *)
Theorem C12_analysis_sound :
  forall en p a exits x1 x2,
  ana_prog p a = Some exits -> RX a x1 x2 ->
  xerr (run_prog en p x1) = xerr x1 /\ xerr (run_prog en p x2) = xerr x2 /\
  Rset exits (run_prog en p x1) (run_prog en p x2).
Proof. exact run_prog_sound. Qed.
Print Assumptions C12_analysis_sound.

(* (2) history independence, general form: for ALL finite histories of calls (any kinds,
   any arguments, failing at any stage) whose kinds pass ok_hist, and every probe sequence
   passing ok_probe: no call touches freed memory, and the probe observes on the used
   instance exactly what it observes on a fresh instance with the same parameter members *)
Theorem C12_history_independence_general :
  forall fx (h cs : list call) ic id,
  Forall (fun c => ok_hist fx (c_kind c) = true) h ->
  ok_probe fx (map c_kind cs) = true ->
  let x := run fx h (init_x ic id) in
  xerr x = None /\
  fst (probe fx cs (xs x) (xd x)) = fst (probe fx cs (fresh_like (xs x)) dest0) /\
  snd (probe fx cs (xs x) (xd x)) = None /\
  snd (probe fx cs (fresh_like (xs x)) dest0) = None.
Proof. exact history_independence_gen. Qed.
Print Assumptions C12_history_independence_general.

(* (2') the source AS IT IS NOW (F5, F9, F10, F11, F12 fixed): for ALL finite histories of calls of
   ANY kind, with any arguments, failing at any stage, no call touches freed memory, and every
   single-call probe on a self-contained stream / image observes on the used instance exactly what
   it observes on a fresh instance with the same parameters.  plain_probe excludes the two getters
   (next theorem) and, as long as the translator does not find F13 fixed, tj3DecodeYUV* *)
Definition history_independence_full (fx : fixes) : Prop :=
  forall (h : list call) (c : call) ic id,
  is_selfc (c_kind c) = true -> getter (c_kind c) = false ->
  let x := run fx h (init_x ic id) in
  xerr x = None /\
  fst (probe fx [c] (xs x) (xd x)) = fst (probe fx [c] (fresh_like (xs x)) dest0) /\
  snd (probe fx [c] (xs x) (xd x)) = None /\ snd (probe fx [c] (fresh_like (xs x)) dest0) = None.

Theorem C12_history_independence_partial :
  forall (h : list call) (c : call) ic id,
  is_selfc (c_kind c) = true -> plain_probe (c_kind c) = true ->
  let x := run faithful h (init_x ic id) in
  xerr x = None /\
  fst (probe faithful [c] (xs x) (xd x)) = fst (probe faithful [c] (fresh_like (xs x)) dest0) /\
  snd (probe faithful [c] (xs x) (xd x)) = None /\ snd (probe faithful [c] (fresh_like (xs x)) dest0) = None.
Proof.
  exact (fun h c ic id Hs Hp =>
           history_independence_gen faithful h [c] ic id
             (proj2 (Forall_forall _ h) (fun c' _ => ok_hist_faithful (c_kind c')))
             (ok_probe_faithful (c_kind c) Hs Hp)).
Qed.
Print Assumptions C12_history_independence_partial.

(* ... and with F13 fixed in the source (0f292e2) that is the FULL statement: every kind of call as history,
   every self-contained non-getter kind as probe *)
Theorem C12_history_independence : history_independence_full faithful.
Proof.
  exact (fun h c ic id Hs Hg =>
           history_independence_gen faithful h [c] ic id
             (proj2 (Forall_forall _ h) (fun c' _ => ok_hist_faithful (c_kind c')))
             (ok_probe_faithful (c_kind c) Hs (plain_probe_all (c_kind c) Hg))).
Qed.
Print Assumptions C12_history_independence.

(* marker copying: what jcopy_markers_execute lets through for an option is within what jcopy_markers_setup
   switched on for that option (both tables regenerated from transupp.c); the sticky saving flags of earlier
   calls therefore cannot add to the copied markers *)
Theorem C12_copy_filter_within_setup : copy_filter_within_setup = true.
Proof. exact copy_filter_lemma. Qed.
Print Assumptions C12_copy_filter_within_setup.

(* the getters report what tj3DecompressHeader left: probed after a header call with valid arguments *)
Theorem C12_getters_after_header :
  forall (h : list call) (a1 a2 : list (string * Z)) (g : opk) ic id,
  g = KGetICC \/ g = KTransformBufSize ->
  let x := run faithful h (init_x ic id) in
  let cs := [mkcall (KHeader true true) a1; mkcall g a2] in
  fst (probe faithful cs (xs x) (xd x)) = fst (probe faithful cs (fresh_like (xs x)) dest0).
Proof.
  exact (fun h a1 a2 g ic id Hg =>
           proj1 (proj2 (history_independence_gen faithful h [mkcall (KHeader true true) a1; mkcall g a2] ic id
             (proj2 (Forall_forall _ h) (fun c' _ => ok_hist_faithful (c_kind c')))
             (match Hg with
              | or_introl e => eq_ind_r (fun g0 => ok_probe faithful [KHeader true true; g0] = true) (proj1 ok_probe_getters_faithful) e
              | or_intror e => eq_ind_r (fun g0 => ok_probe faithful [KHeader true true; g0] = true) (proj2 ok_probe_getters_faithful) e
              end)))).
Qed.
Print Assumptions C12_getters_after_header.

(* tj3DecodeYUV*: everything it reads is (re)defined by the call itself (F10, F12 fixed) except the
   permanent Huffman table slots (F13): with that read taken out the probe passes ... *)
Theorem C12_decodeyuv_apart_from_huffman_slots : forall m, ok_probe faithful_but_f13 [KDecodeYUV m] = true.
Proof. exact decodeyuv_ok_but_f13. Qed.
Print Assumptions C12_decodeyuv_apart_from_huffman_slots.
(* ... and with it the full statement is refuted for the source as it is (witness replayed by corpus/C12);
   once the translator finds it fixed, the positive statement is the obligation *)
Theorem C12_stale_huffman_slot_refuted :
  decodeyuv_ignores_huffman_slots = false ->
  fst (res_used faithful f13_history f13_probe false true) <> fst (res_fresh faithful f13_history f13_probe false true).
Proof. exact f13_witness. Qed.
Print Assumptions C12_stale_huffman_slot_refuted.
Theorem C12_stale_huffman_slot_when_fixed :
  decodeyuv_ignores_huffman_slots = true -> forall m, ok_probe faithful [KDecodeYUV m] = true.
Proof. exact f13_fixed. Qed.
Print Assumptions C12_stale_huffman_slot_when_fixed.

(* the model with every known stale read removed: the full statement *)
Theorem C12_history_independence_fixed_model : history_independence_full all_fixed.
Proof.
  exact (fun h c ic id Hs Hg =>
           history_independence_gen all_fixed h [c] ic id
             (proj2 (Forall_forall _ h) (fun c' _ => ok_hist_fixed (c_kind c')))
             (ok_probe_fixed (c_kind c) Hs Hg)).
Qed.
Print Assumptions C12_history_independence_fixed_model.

(* the five fixes are present in the source (facts regenerated on this run) *)
Theorem C12_fixes_present :
  skip_ignores_stale_cconvert = true /\ header_discards_old_icc = true /\ decodeyuv_resets_lossless = true /\
  decodeyuv_resets_marker_flags = true /\ copy_critical_sets_precision_first = true /\ dest_forgets_newbuffer = true /\
  decodeyuv_ignores_huffman_slots = true.
Proof. exact (conj eq_refl (conj eq_refl (conj eq_refl (conj eq_refl (conj eq_refl (conj eq_refl eq_refl)))))). Qed.
Print Assumptions C12_fixes_present.

(* regressions: the model of the current source with exactly one fix taken out again shows the old
   defect on the old witness history (replayed on the implementation from corpus/C12), the fixed
   model does not *)
Theorem C12_F5_regression :
  snd (res_used without5 f5_history f5_probe false true) = Some (UseAfterFree (OD, "cconvert")) /\
  snd (res_fresh without5 f5_history f5_probe false true) = None /\
  res_used all_fixed f5_history f5_probe false true = res_fresh all_fixed f5_history f5_probe false true.
Proof. exact f5_regression. Qed.
Print Assumptions C12_F5_regression.
Theorem C12_F9_regression :
  fst (res_used without9 f9_history f9_probe false true) <> fst (res_fresh without9 f9_history f9_probe false true) /\
  res_used all_fixed f9_history f9_probe false true = res_fresh all_fixed f9_history f9_probe false true.
Proof. exact f9_regression. Qed.
Print Assumptions C12_F9_regression.
Theorem C12_F10_regression :
  fst (res_used without10 f10_history f10_probe false true) <> fst (res_fresh without10 f10_history f10_probe false true) /\
  res_used all_fixed f10_history f10_probe false true = res_fresh all_fixed f10_history f10_probe false true.
Proof. exact f10_regression. Qed.
Print Assumptions C12_F10_regression.
Theorem C12_F12_regression :
  fst (res_used without12 f12_history f12_probe false true) <> fst (res_fresh without12 f12_history f12_probe false true) /\
  res_used all_fixed f12_history f12_probe false true = res_fresh all_fixed f12_history f12_probe false true.
Proof. exact f12_regression. Qed.
Print Assumptions C12_F12_regression.
Theorem C12_F11_regression :
  fst (res_used without11 f11_history f11_probe true true) <> fst (res_fresh without11 f11_history f11_probe true true) /\
  res_used all_fixed f11_history f11_probe true true = res_fresh all_fixed f11_history f11_probe true true.
Proof. exact f11_regression. Qed.
Print Assumptions C12_F11_regression.

Example C12_probes_nonvacuous :
  is_selfc (KDecompress B8 true true true) = true /\ plain_probe (KDecompress B8 true true true) = true /\
  plain_probe (KTransform true true) = true /\ plain_probe (KLegacyDecompress true false) = true.
Proof. exact probes_nonvacuous. Qed.

(* (3) what is reset: every parameter member of jpeg_compress_struct that the compressor
   sources read is assigned by jpeg_set_defaults (or its callees), by setCompDefaults before
   it, or by the tj3Compress* functions themselves; the marker-reader / input-controller
   state is reset by reset_marker_reader / reset_input_controller (which jpeg_consume_input
   calls in DSTATE_START); jpeg_abort resets global_state and the marker list *)
Theorem C12_set_defaults_resets :
  forall m, In m comp_param_members_read ->
  In m (set_defaults_fields ++ setcompdefaults_pre_fields ++ tj_sets_before_defaults)%list.
Proof. exact set_defaults_resets_lemma. Qed.
Print Assumptions C12_set_defaults_resets.
Theorem C12_abort_resets :
  (forall m, In m marker_state_members -> In m reset_marker_reader_fields) /\
  (forall m, In m inputctl_state_members -> In m reset_input_controller_fields) /\
  reset_input_controller_calls_reset_marker_reader = true /\
  (forall m, In m ["global_state"; "marker_list"] -> In m jpeg_abort_fields).
Proof. exact abort_resets_lemma. Qed.
Print Assumptions C12_abort_resets.
(* tj3Set over the generated parameter table, at the boundaries of every range, for every
   instance type: accepted values are stored, rejected ones change nothing and return -1 *)
Theorem C12_tj3set_table_boundaries :
  forallb (fun t => forallb (fun ic => forallb (fun id =>
     forallb (fun v => set_result_ok t ic id v) [p_lo t - 1; p_lo t; p_lo t + 1; p_hi t - 1; p_hi t; p_hi t + 1; -1; 0; 1; 2147483647])
     [true; false]) [true; false]) tj3set_table = true.
Proof. exact tj3set_table_boundaries. Qed.
Print Assumptions C12_tj3set_table_boundaries.

(* regressions F1 (tj3DecompressHeader's handler reaches the abort) and F2 (the destination
   manager forgets a buffer it handed out): stated over the regenerated facts *)
Theorem C12_F1_regression :
  match find_fn "tj3DecompressHeader" api_functions with
  | Some f => fn_uses_d f = true /\ fn_ok f = true
  | None => False
  end.
Proof. exact f1_regression_data. Qed.
Print Assumptions C12_F1_regression.
Theorem C12_F2_regression :
  d_doublefree (xd (run faithful f2_history (init_x true false))) = negb dest_forgets_newbuffer /\
  d_doublefree (xd (run without2 f2_history (init_x true false))) = true /\
  d_doublefree (xd (run all_fixed f2_history (init_x true false))) = false.
Proof. exact f2_regression_lemma. Qed.
Print Assumptions C12_F2_regression.
Theorem C12_F2_fix_present : dest_forgets_newbuffer = true.
Proof. exact eq_refl. Qed.
Print Assumptions C12_F2_fix_present.

(* the destination manager of the source as it is (flag read by the translator) never frees a
   buffer twice, for ALL sequences of compression / transform calls (caller passes NULL, a
   fresh buffer or the buffer it holds; jpeg_mem_dest_tj reached or not; any number of
   enlargements; terminated or not) -- and the same sequences do so without the F2 fix *)
Theorem C12_destination_never_frees_twice :
  forall cs, Forall wf_call cs -> d_doublefree (run_calls dest_forgets_newbuffer cs dest0) = false.
Proof. exact dest_never_frees_twice. Qed.
Print Assumptions C12_destination_never_frees_twice.
Theorem C12_destination_refuted_without_fix :
  Forall wf_call f2_calls /\ d_doublefree (run_calls false f2_calls dest0) = true /\
  d_doublefree (run_calls true f2_calls dest0) = false.
Proof. exact dest_refuted_without_fix. Qed.
Print Assumptions C12_destination_refuted_without_fix.

(* memory accounting (TJPARAM_MAXMEMORY): with the subtractions the translator finds in free_pool,
   total_space_allocated is back at its permanent part after every abort / finish, for ALL
   allocation histories; the model's abort (abortc) clears the image-pool share accordingly *)
Theorem C12_memory_accounting_restored :
  forall base (l : list mop),
  let m := mrun free_pool_subtracts_small free_pool_subtracts_large (l ++ [Abort]) (mm0 base) in
  total m = base + perm m /\ img_small m = [] /\ img_large m = [].
Proof. exact accounting_restored. Qed.
Print Assumptions C12_memory_accounting_restored.
Theorem C12_memory_accounting_drift_refuted_without_subtraction :
  total (mrun true false drift_ops (mm0 0)) = 1200 /\ total (mrun true true drift_ops (mm0 0)) = 0.
Proof. exact accounting_drifts_without_large_subtraction. Qed.
Print Assumptions C12_memory_accounting_drift_refuted_without_subtraction.
Theorem C12_abort_clears_image_space :
  forall en o x, let x' := fst (exec en (abortc o) x) in
  sc (xs x') (ApiOps.img_small o) = 0 /\ sc (xs x') (ApiOps.img_large o) = 0.
Proof. exact abortc_clears. Qed.
Print Assumptions C12_abort_clears_image_space.

(* saved markers and the marker reader's methods: a tables-only header ends in jpeg_abort (which
   empties marker_list), and the bailout block of tj3DecodeYUVPlanes8 puts the original marker-reader
   methods back; with these facts every call returns with marker_list == NULL and the original
   methods installed (part of `at_start`, hence of C12_history_independence_partial's invariant) *)
Theorem C12_marker_list_and_methods_restored :
  read_header_tables_only_aborts = true /\
  match find_fn "tj3DecodeYUVPlanes8" api_functions with
  | Some f => match fn_bailout f with
              | Some b => existsb (fun h => match h with HRestoreMarkerMethods HAlways => true | _ => false end) b = true
              | None => False
              end
  | None => False
  end.
Proof. exact marker_facts. Qed.
Print Assumptions C12_marker_list_and_methods_restored.
Theorem C12_every_call_returns_idle :
  forall fx c x, ok_hist fx (c_kind c) = true -> Inv x -> Inv (step fx c x).
Proof. exact step_inv. Qed.
Print Assumptions C12_every_call_returns_idle.

(* legacy wrappers: the parameter members processFlags() assigns in the model are those the translator reads off
   the source (same order); the translator itself fails when a flag lands in another member or a condition changes *)
Theorem C12_source_process_flags : cset_targets (process_flags true) = process_flags_fields.
Proof. exact process_flags_source. Qed.
Print Assumptions C12_source_process_flags.

(* the universe: every function turbojpeg.h exports (list regenerated from the header) is the subject of a model kind
   (and so of C12_history_independence), a life-cycle function, stateless w.r.t. the instance, or a wrapper that assigns
   only parameter members and calls classified functions (call graph and member writes regenerated from turbojpeg.c);
   conversely every function a kind claims to model is exported.  A function added to the API without a kind
   breaks this obligation. *)
Theorem C12_exported_functions_classified :
  (forall n, In n exported_functions -> classify 8 n <> Unclassified) /\ universe_ok = true /\
  (forall k, In k all_kinds).
Proof. exact (conj universe_classified (conj universe_lemma all_kinds_complete)). Qed.
Print Assumptions C12_exported_functions_classified.

(* TJPARAM_MAXMEMORY boundary (F40): the idle totals of two instances differ by exactly the difference of their
   permanent pools (nothing of the image pools of earlier calls remains) -- but that difference is not zero in
   general, so equality with a fresh instance is refuted (witness on the library: corpus/C12, op `mb`) *)
Theorem C12_idle_totals_differ_by_permanent_pool :
  forall base (l1 l2 : list mop),
  let m1 := mrun true true (l1 ++ [Abort]) (mm0 base) in
  let m2 := mrun true true (l2 ++ [Abort]) (mm0 base) in
  total m1 - total m2 = perm m1 - perm m2.
Proof. exact idle_totals_differ_by_permanent_pool. Qed.
Print Assumptions C12_idle_totals_differ_by_permanent_pool.
Theorem C12_idle_total_equals_fresh_refuted :
  exists l1 l2, total (mrun true true (l1 ++ [Abort]) (mm0 1863)) <> total (mrun true true (l2 ++ [Abort]) (mm0 1863)).
Proof. exact idle_total_equality_refuted. Qed.
Print Assumptions C12_idle_total_equals_fresh_refuted.

(* getters after failed calls (for EVERY state of the instance, no invariant needed): a call that fails in its
   argument checks, and tj3DecompressHeader / tjDecompressHeader3 failing inside jpeg_read_header, leave every member the
   getters report (all tj3Get parameters, scaling factor, cropping region, ICC size) exactly as it was.  Proved by
   resolving the failure-stage tests of the program for that stage (pe, shown equivalent) and a frame lemma. *)
Theorem C12_failed_arguments_keep_getters :
  forall c x, In (c_kind c) args_kinds -> env_of (c_args c) "fail"%string = S_ARGS ->
  forall f, In f getter_fields -> sc (xs (step faithful c x)) f = sc (xs x) f.
Proof. exact failed_args_keep_getters. Qed.
Print Assumptions C12_failed_arguments_keep_getters.
Theorem C12_failed_header_keeps_getters :
  forall c x s v, c_kind c = KHeader s v -> env_of (c_args c) "fail"%string = S_HDR ->
  forall f, In f getter_fields -> sc (xs (step faithful c x)) f = sc (xs x) f.
Proof. exact failed_header_keeps_getters. Qed.
Print Assumptions C12_failed_header_keeps_getters.

(* no exported function leaves through a `return` that bypasses its bailout block after it started to drive a libjpeg
   object, except by a tail call of an API function driving the same objects, the tables-only return of
   tj3DecompressHeader, or after a parameter setter rejected a value from the library's own table (list of such returns
   regenerated from turbojpeg.c / turbojpeg-mp.c) *)
Theorem C12_no_return_bypasses_bailout : forallb (early_returns_ok api_functions) api_functions = true.
Proof. exact early_returns_all_ok. Qed.
Print Assumptions C12_no_return_bypasses_bailout.
