(* C07 -- property theorems only: statement + exact + Print Assumptions. *)
From Coq Require Import List ZArith Reals.
From LJT Require Import gen.GenDctConst model.Quant model.Dct proofs.QuantCert proofs.QuantProofs proofs.DctProofs proofs.DctRange proofs.RmsBound gen.GenC07Ctl model.C07Ctl proofs.C07CtlProofs model.C07Edge proofs.C07EdgeProofs proofs.DctOrth proofs.DctRound proofs.DctAcc proofs.DctE1 proofs.RmsFinal proofs.IdctRound proofs.IdctE2.
Import ListNotations.
Local Open Scope Z_scope.

(* (1) the reciprocal quantiser of jcdctmgr.c (compute_reciprocal + quantize, 16- or 32-bit
   DCTELEM) is round-half-up division of the magnitude, for EVERY 16-bit divisor and every
   coefficient that fits a short except -32768 *)
Theorem C07_reciprocal_exact : forall cf d,
  (c_dw cf = 16 \/ c_dw cf = 32) -> 1 <= d <= 65535 ->
  exists rc, compute_reciprocal cf d = Some rc /\
    forall x, -32767 <= x <= 32767 -> quantize_recip_one cf rc x = Z.sgn x * ((Z.abs x + d / 2) / d).
Proof. exact reciprocal_exact_proof. Qed.
Print Assumptions C07_reciprocal_exact.

(* ... and so is jsimd_quantize (two pmulhuw), which the SIMD build runs whenever
   compute_reciprocal returned 1 for all 64 entries *)
Theorem C07_simd_quantize_exact : forall cf d rc,
  c_dw cf = 16 -> c_simd cf = true -> 1 <= d <= 65535 ->
  compute_reciprocal cf d = Some rc -> r_ret rc = 1 ->
  forall x, -32767 <= x <= 32767 -> quantize_simd_one rc x = Z.sgn x * ((Z.abs x + d / 2) / d).
Proof. exact simd_quantize_exact_proof. Qed.
Print Assumptions C07_simd_quantize_exact.

(* (F3 fixed) the clamped 16-bit divisor start_pass_fdctmgr passes on quantises every
   coefficient exactly like the true step 8*quantval, for every UINT16 quantval *)
Theorem C07_divisor_faithful : forall q, 1 <= q <= 65535 ->
  1 <= scaled_divisor q <= 65535 /\
  forall x, -32767 <= x <= 32767 -> rdiv x (scaled_divisor q) = rdiv x (8 * q).
Proof. exact divisor_faithful_proof. Qed.
Print Assumptions C07_divisor_faithful.

(* regression of F3: without the clamp quantval 8192 traps and 8200 uses a wrong step *)
Theorem C07_unclamped_divisor_refuted :
  (forall cf, compute_reciprocal cf (unclamped_divisor 8192) = None) /\
  (exists q x, 1 <= q <= 32767 /\ -32767 <= x <= 32767 /\
               unclamped_divisor q <> 0 /\ rdiv x (unclamped_divisor q) <> rdiv x (8 * q)) /\
  scaled_divisor 8192 = 65535 /\ scaled_divisor 8200 = 65535.
Proof. exact unclamped_divisor_refuted_proof. Qed.
Print Assumptions C07_unclamped_divisor_refuted.

(* (3) per coefficient: start_pass_fdctmgr + quantize, 8- and 12-bit arm, leave
   |Q * q - F/8| <= q/2   (written without fractions) *)
Theorem C07_coef_error_bound : forall cf q, cfg_ok cf -> 1 <= q <= 65535 ->
  exists dv, start_pass_divisor cf q = Some dv /\
    forall x, - coef_max cf <= x <= coef_max cf ->
      2 * Z.abs (quantize_one cf dv x * (8 * q) - x) <= 8 * q.
Proof. exact coef_error_bound_proof. Qed.
Print Assumptions C07_coef_error_bound.

(* jpeg_fdct_islow on ANY block of centred valid samples: no DCTELEM store wraps (the 16-bit
   short of the SIMD build included) and every coefficient is within 64*CENTERJSAMPLE ... *)
Theorem C07_fdct_in_range : forall cf data, cfg_ok cf -> length data = 64%nat ->
  Forall (fun x => - centersample cf <= x <= centersample cf) data ->
  Forall (fun x => - (64 * centersample cf) <= x <= 64 * centersample cf) (fdct_islow cf data).
Proof. exact fdct_in_range. Qed.
Print Assumptions C07_fdct_in_range.

(* ... hence for every block of valid samples and every table of non-zero UINT16 entries the
   compressor (convsamp, jpeg_fdct_islow, start_pass_fdctmgr, quantize) delivers coefficients
   with |Q_k * q_k - F_k / 8| <= q_k / 2 for all 64 k *)
Theorem C07_block_coef_error : forall cf qtbl samples,
  cfg_ok cf -> length qtbl = 64%nat -> length samples = 64%nat ->
  (forall q, In q qtbl -> 1 <= q <= 65535) ->
  Forall (fun s => 0 <= s <= maxsample cf) samples ->
  exists coefs, forward_block cf qtbl samples = Some coefs /\
    Forall2 (fun qf c => 2 * Z.abs (c * (8 * fst qf) - snd qf) <= 8 * fst qf)
            (combine qtbl (fdct_islow cf (convsamp cf samples))) coefs.
Proof. exact block_coef_error_proof. Qed.
Print Assumptions C07_block_coef_error.

(* the forward DCT of a constant block and the inverse DCT of a DC-only block *)
Theorem C07_fdct_const_block : forall cf c, cfg_ok cf -> - centersample cf <= c <= centersample cf ->
  fdct_islow cf (repeat c 64) = 64 * c :: repeat 0 63.
Proof. exact fdct_const_block. Qed.
Print Assumptions C07_fdct_const_block.

Theorem C07_idct_dc_only : forall cf Q mult, cfg_ok cf -> length mult = 64%nat ->
  idct_islow cf (Q :: repeat 0 63) mult = repeat (dc_sample cf Q (nth 0 mult 0)) 64.
Proof. exact idct_dc_only. Qed.
Print Assumptions C07_idct_dc_only.

(* (2) a constant block of any in-range value, any quantisation table jpeg_add_quant_table
   can produce: every reconstructed sample is within ceil(q_DC/16)+1 of the original *)
Theorem C07_const_image_bound : forall cf v qtbl,
  cfg_ok cf -> 0 <= v <= maxsample cf -> length qtbl = 64%nat ->
  (forall q, In q qtbl -> 1 <= q <= quantval_max) ->
  exists out, roundtrip_block cf qtbl (repeat v 64) = Some out /\ length out = 64%nat /\
    forall s, In s out -> Z.abs (s - v) <= (nth 0 qtbl 0 + 15) / 16 + 1.
Proof. exact const_image_bound_proof. Qed.
Print Assumptions C07_const_image_bound.

(* (4) partial: block error norm from the per-coefficient bound, over the reals, for ANY orthogonal
   transform A; the fixed-point errors e1 (forward), e2 (inverse + rounding) are hypotheses, and that
   the DCT cosine matrix is orthogonal is not proved.  The full clause is RmsBound.rms_bound_full. *)
Theorem C07_rms_bound_partial : forall (n : nat) (A : nat -> nat -> R),
  (forall i j, (i < n)%nat -> (j < n)%nat -> rsum n (fun k => A k i * A k j) = delta i j)%R ->
  (forall k l, (k < n)%nat -> (l < n)%nat -> rsum n (fun i => A k i * A l i) = delta k l)%R ->
  forall (x F D y h : nat -> R) (e1 e2 qn : R),
    (0 <= e1 -> 0 <= e2 -> 0 <= qn ->
     norm2 n (fun k => F k - ap n A x k) <= e1 * e1 ->
     (forall k, (k < n)%nat -> Rabs (D k - F k) <= h k) ->
     rsum n (fun k => h k * h k) <= qn * qn ->
     norm2 n (fun i => y i - ap n (tr A) D i) <= e2 * e2 ->
     norm2 n (fun i => y i - x i) <= (qn + e1 + e2) * (qn + e1 + e2))%R.
Proof. exact rms_bound_partial_proof. Qed.
Print Assumptions C07_rms_bound_partial.

(* the 8x8 DCT-II matrix dctA k i = c_k cos((2i+1) k pi/16) is orthogonal over the reals (exact proof by
   telescoping sums of cosines), and so is the 64x64 matrix dctA2 of the 2-D block transform *)
Theorem C07_dct_orthogonal :
  (forall k l, (k < 8)%nat -> (l < 8)%nat -> rsum 8 (fun i => dctA k i * dctA l i) = delta k l)%R /\
  (forall i j, (i < 8)%nat -> (j < 8)%nat -> rsum 8 (fun k => dctA k i * dctA k j) = delta i j)%R /\
  (forall p q, (p < 64)%nat -> (q < 64)%nat -> rsum 64 (fun u => dctA2 u p * dctA2 u q) = delta p q)%R /\
  (forall u v, (u < 64)%nat -> (v < 64)%nat -> rsum 64 (fun p => dctA2 u p * dctA2 v p) = delta u v)%R.
Proof. exact (conj dct_rows_orthonormal (conj dct_cols_orthonormal (conj dct2_cols_orthonormal dct2_rows_orthonormal))). Qed.
Print Assumptions C07_dct_orthogonal.

(* (4') the block bound for the REAL 8x8 DCT: no orthogonality hypothesis left; still partial in e1, e2
   (accuracy of jpeg_fdct_islow / 8 resp. jpeg_idct_islow against dctA2) *)
Theorem C07_rms_bound_dct_partial : forall (x F D y h : nat -> R) (e1 e2 qn : R),
  (0 <= e1 -> 0 <= e2 -> 0 <= qn ->
   norm2 64 (fun k => F k - ap 64 dctA2 x k) <= e1 * e1 ->
   (forall k, (k < 64)%nat -> Rabs (D k - F k) <= h k) ->
   rsum 64 (fun k => h k * h k) <= qn * qn ->
   norm2 64 (fun i => y i - ap 64 (tr dctA2) D i) <= e2 * e2 ->
   norm2 64 (fun i => y i - x i) <= (qn + e1 + e2) * (qn + e1 + e2))%R.
Proof. exact rms_bound_dct_proof. Qed.
Print Assumptions C07_rms_bound_dct_partial.

(* the rounding part of e1, derived from the integer model: for every block of centred valid samples each
   output of jpeg_fdct_islow is within rbound / 2^26 (= 1.5 for 8-bit, 2.5 for 12-bit data) of the exact
   integer-linear LL&M flow graph fdct_lin2d (same butterflies and FIX_* constants, no DESCALE) / 2^26 *)
Theorem C07_fdct_rounding_error : forall cf data, cfg_ok cf -> length data = 64%nat ->
  Forall (fun x => - centersample cf <= x <= centersample cf) data ->
  Forall2 (fun f l => - rbound cf <= 2 ^ 26 * f - l <= rbound cf) (fdct_islow cf data) (fdct_lin2d data).
Proof. exact fdct_rounding_error_proof. Qed.
Print Assumptions C07_fdct_rounding_error.

(* e1 discharged up to ONE numeric fact, matrix_accuracy_fact = "each of the 64 entries of the integer flow-graph matrix
   / 2^13 is within 3/16384 of sqrt 8 * dctA" (proved with Interval in proofs/DctAccInterval.v, coqc only): for every block of centred valid samples, jpeg_fdct_islow / 8 is within e1_bound cf (Euclidean norm
   over the 64 coefficients; e1_bound = rbound/2^26 + 64 * 2.815 * (3/16384) * CENTERJSAMPLE = 5.73 for 8-bit data,
   i.e. 0.72 sample levels RMS) of the exact real 2-D DCT *)
Theorem C07_fdct_accuracy : matrix_accuracy_fact -> forall cf data, cfg_ok cf -> length data = 64%nat ->
  Forall (fun x => - centersample cf <= x <= centersample cf) data ->
  (norm2 64 (fun k => vecZ (fdct_islow cf data) k / 8 - ap 64 dctA2 (vecZ data) k) <= e1_bound cf * e1_bound cf)%R.
Proof. exact fdct_accuracy_proof. Qed.
Print Assumptions C07_fdct_accuracy.

(* the block bound with the compress side taken from the MODEL (valid samples, any table of non-zero UINT16 entries,
   convsamp + jpeg_fdct_islow + start_pass_fdctmgr + quantize): the only hypothesis left is e2, the distance of the
   reconstruction y from the exact inverse DCT of the dequantised coefficients *)
Theorem C07_rms_bound_forward_partial : matrix_accuracy_fact -> forall cf qtbl samples,
  cfg_ok cf -> length qtbl = 64%nat -> length samples = 64%nat ->
  (forall q, In q qtbl -> 1 <= q <= 65535) ->
  Forall (fun s => 0 <= s <= maxsample cf) samples ->
  exists coefs, forward_block cf qtbl samples = Some coefs /\
    forall (y : nat -> R) (e2 : R), (0 <= e2)%R ->
      (norm2 64 (fun i => y i - ap 64 (tr dctA2) (fun k => vecZ coefs k * vecZ qtbl k) i) <= e2 * e2)%R ->
      (norm2 64 (fun i => y i - vecZ (convsamp cf samples) i)
        <= (qnorm qtbl + e1_bound cf + e2) * (qnorm qtbl + e1_bound cf + e2))%R.
Proof. exact rms_bound_forward_proof. Qed.
Print Assumptions C07_rms_bound_forward_partial.

(* the ROUNDING part of e2, derived from the integer model: for every coefficient block and multiplier table whose
   dequantised values stay within 2^20 (no int workspace wrap), jpeg_idct_islow = range_limit of idct_pre, and every
   pre-clamp output is within irbound / 2^29 (0.625 for 8-bit, 0.75 for 12-bit data) of the exact integer-linear inverse
   flow graph idct_lin2d / 2^29; both zero-AC shortcuts included *)
Theorem C07_idct_rounding_error : forall cf coef mult, cfg_ok cf -> length coef = 64%nat -> length mult = 64%nat ->
  Forall (fun d => - din_max <= d <= din_max) (deq_block cf coef mult) ->
  idct_islow cf coef mult = map (range_limit cf) (idct_pre cf coef mult) /\
  Forall2 (fun s l => - irbound cf <= 2 ^ 29 * s - l <= irbound cf) (idct_pre cf coef mult) (idct_lin2d (deq_block cf coef mult)).
Proof. exact idct_rounding_error_proof. Qed.
Print Assumptions C07_idct_rounding_error.

(* the block bound for the MODEL on both sides (valid samples, table entries 1..32767; convsamp, fdct_islow, quantize,
   dct_table, idct_islow before the clamp): e2 = rounding part (proved) + e2c, where e2c is the ONE named remaining
   hypothesis idct_constant_accuracy (accuracy of the exact inverse flow-graph matrix against the real IDCT);
   matrix_accuracy_fact is the forward analogue, proved with Interval in proofs/DctAccInterval.v *)
Theorem C07_rms_bound_model_partial : matrix_accuracy_fact -> forall cf e2c,
  idct_constant_accuracy (dmax cf) e2c -> (0 <= e2c)%R ->
  forall qtbl samples, cfg_ok cf -> length qtbl = 64%nat -> length samples = 64%nat ->
  (forall q, In q qtbl -> 1 <= q <= 32767) ->
  Forall (fun s => 0 <= s <= maxsample cf) samples ->
  exists coefs, forward_block cf qtbl samples = Some coefs /\
    inverse_block cf qtbl coefs = map (range_limit cf) (idct_pre cf coefs (dct_table cf qtbl)) /\
    (norm2 64 (fun i => vecZ (idct_pre cf coefs (dct_table cf qtbl)) i - vecZ (convsamp cf samples) i)
      <= (qnorm qtbl + e1_bound cf + (e2_round cf + e2c)) * (qnorm qtbl + e1_bound cf + (e2_round cf + e2c)))%R.
Proof. exact rms_bound_model_proof. Qed.
Print Assumptions C07_rms_bound_model_partial.

(* edge_padding_local: jcprepct.c expand_bottom_edge + jcsample.c expand_right_edge pad a w x h component to
   W x H by replicating the last real row / column: sample (y, x) = image (min y (h-1), min x (w-1)) *)
Theorem C07_edge_padding_local : forall image w h W H y x,
  (1 <= w <= W)%nat -> (1 <= h <= H)%nat -> (H <= length image)%nat ->
  (forall r, (r < H)%nat -> length (nth r image []) = W) -> (y < H)%nat -> (x < W)%nat ->
  nth x (nth y (pad_component image w h W H) []) 0 = nth (Nat.min x (w - 1)) (nth (Nat.min y (h - 1)) image []) 0.
Proof. exact edge_padding_local_proof. Qed.
Print Assumptions C07_edge_padding_local.

Theorem C07_edge_padding_constant : forall image w h W H v y x,
  (1 <= w <= W)%nat -> (1 <= h <= H)%nat -> (H <= length image)%nat ->
  (forall r, (r < H)%nat -> length (nth r image []) = W) ->
  (forall r c, (r < h)%nat -> (c < w)%nat -> nth c (nth r image []) 0 = v) ->
  (y < H)%nat -> (x < W)%nat -> nth x (nth y (pad_component image w h W H) []) 0 = v.
Proof. exact edge_padding_constant_proof. Qed.
Print Assumptions C07_edge_padding_constant.

Theorem C07_source_edge_shape : edge_functions_have_modelled_shape = true.
Proof. reflexivity. Qed.
Print Assumptions C07_source_edge_shape.

(* range limiting (incl. the RANGE_MASK wrap) never moves a value away from an in-range sample *)
Theorem C07_clamp_nonexpansive : forall cf x v, cfg_ok cf -> 0 <= v <= maxsample cf -> - 2 ^ 31 <= x < 2 ^ 31 ->
  Z.abs (range_limit cf x - v) <= Z.abs (x + centersample cf - v).
Proof. exact clamp_nonexpansive_proof. Qed.
Print Assumptions C07_clamp_nonexpansive.

(* the FIX_* integers of jfdctint.c / jidctint.c are round(x * 2^CONST_BITS) of the decimal
   literal in their comment, the literal in the name agrees, both files agree *)
Theorem C07_fix_constants :
  forallb (fix_entry_ok fdct_const_bits) fdct_fix_table = true /\
  forallb (fix_entry_ok idct_const_bits) idct_fix_table = true /\
  fdct_fix_table = idct_fix_table.
Proof. exact (conj (proj1 fix_constants_ok) (conj (proj1 (proj2 fix_constants_ok)) (proj1 (proj2 (proj2 fix_constants_ok))))). Qed.
Print Assumptions C07_fix_constants.

(* ---- control rules of the compressor (facts regenerated from jccoefct.c / jcparam.c / jcmarker.c /
   jcapistd.c / jcapimin.c by tools/gen_C07Ctl.py) ---- *)
Theorem C07_control_rules_generated :
  xpos_is_mcu_col_times_width = true /\ add_quant_table_resets_sent = true /\
  emit_dqt_iff_unsent_then_marks_sent = true /\ start_compress_all_tables_unsends = true /\
  suppress_tables_sets_every_table = true.
Proof. repeat split; reflexivity. Qed.
Print Assumptions C07_control_rules_generated.

(* compress_data under output suspension: for EVERY suspension schedule each MCU of a row is taken
   from sample column MCU_col_num * MCU_sample_width *)
Theorem C07_suspension_independent : forall w n sched,
  compress_row w n sched = map (fun i => (Z.of_nat i, Z.of_nat i * w)) (seq 0 n).
Proof. exact suspension_independent_proof. Qed.
Print Assumptions C07_suspension_independent.

(* ... which a running offset restarted by every call does not do *)
Theorem C07_running_offset_refuted :
  mcu_row false 8 4 0 [] = [(0, 0); (1, 8); (2, 16); (3, 24)] /\
  mcu_row false 8 4 0 [2%nat] = [(0, 0); (1, 8); (2, 0); (3, 8)].
Proof. exact running_offset_refuted_proof. Qed.
Print Assumptions C07_running_offset_refuted.

(* tables used for quantisation = tables the decoder holds, for every sequence of table updates
   (jpeg_add_quant_table / jpeg_set_quality, direct edits with sent_table = FALSE), earlier images
   (write_all_tables TRUE or FALSE) and jpeg_write_tables on ONE compression object *)
Theorem C07_tables_match : forall c0 d0 ops wat used,
  (forall t tb, c0 t = Some tb -> t_sent tb = false) ->
  let cd := step (run (c0, d0) ops) (Start wat used) in
  forall t tb, In t used -> fst cd t = Some tb -> snd cd t = Some (t_vals tb).
Proof. exact tables_match_proof. Qed.
Print Assumptions C07_tables_match.

(* ... and what goes wrong when jpeg_add_quant_table does not reset sent_table *)
Theorem C07_noreset_refuted :
  let cd := fold_left step_noreset [AddQuant 0 [16]; Start true [0%nat]; AddQuant 0 [99]; Start false [0%nat]]
                      ((fun _ => None), (fun _ => None)) in
  option_map t_vals (fst cd 0%nat) = Some [99] /\ snd cd 0%nat = Some [16].
Proof. exact noreset_refuted_proof. Qed.
Print Assumptions C07_noreset_refuted.

(* ---- decoder side (facts regenerated from jdcoefct.c / jddctmgr.c) ---- *)
Theorem C07_decoder_rules_generated :
  decompress_data_waits_until_input_row_gt_output_row = true /\ decompress_data_rows_ahead = 1%nat /\
  idct_marks_table_built_after_quant_table_check = true.
Proof. repeat split; reflexivity. Qed.
Print Assumptions C07_decoder_rules_generated.

(* decompress_data: when its "force some input" loop is left, the iMCU row about to be output holds the
   data of the scan being output (also when the pass was started on the scan still being read) *)
Theorem C07_output_row_has_scan_data : forall fuel nrows so ro p,
  let p' := force_input fuel decompress_data_rows_ahead nrows so ro p in
  must_read decompress_data_rows_ahead so ro p' = false -> row_has_scan_data so ro p'.
Proof. exact output_row_has_scan_data_proof. Qed.
Print Assumptions C07_output_row_has_scan_data.

Theorem C07_no_lookahead_refuted :
  force_input 100 0 6 3 0 (3%nat, 0%nat) = (3%nat, 0%nat) /\ must_read 0 3 0 (3%nat, 0%nat) = false /\
  ~ row_has_scan_data 3 0 (3%nat, 0%nat).
Proof. exact no_lookahead_refuted_proof. Qed.
Print Assumptions C07_no_lookahead_refuted.

(* jddctmgr.c start_pass: whatever output passes came before (also passes started before the component's
   first scan), a pass for a component with latched table q dequantises with the multipliers of q *)
Theorem C07_idct_table_from_latched : forall q lats,
  latch_monotone q (lats ++ [Some q]) -> idct_passes (lats ++ [Some q]) = (true, Some q).
Proof. exact idct_table_from_latched_proof. Qed.
Print Assumptions C07_idct_table_from_latched.

Theorem C07_idct_mark_first_refuted :
  fold_left (idct_start_pass false) [None; Some [16]] (false, None) = (true, None).
Proof. exact idct_mark_first_refuted_proof. Qed.
Print Assumptions C07_idct_mark_first_refuted.

(* non-vacuity: the configurations that exist satisfy cfg_ok; concrete round trips *)
Example C07_cfg_ok_examples : cfg_ok cf16 /\ cfg_ok cf32 /\ cfg_ok cf12.
Proof. exact cfg_ok_examples. Qed.
Example C07_roundtrip_examples :
  roundtrip_block cf16 (repeat 16 64) (repeat 200 64) = Some (repeat 200 64) /\
  roundtrip_block cf16 (40 :: repeat 1 63) (repeat 77 64) = Some (repeat 78 64) /\
  roundtrip_block cf12 (32767 :: repeat 255 63) (repeat 4095 64) = Some (repeat 2048 64) /\
  (exists rc, compute_reciprocal cf16 65535 = Some rc /\ r_ret rc = 1 /\
              quantize_recip_one cf16 rc 32767 = 0 /\ quantize_recip_one cf16 rc (-32767) = 0 /\
              quantize_simd_one rc 32767 = 0) /\
  (exists rc, compute_reciprocal cf16 24 = Some rc /\ r_ret rc = 1 /\
              quantize_recip_one cf16 rc 100 = 4 /\ quantize_recip_one cf16 rc (-108) = -5 /\
              quantize_simd_one rc (-108) = -5).
Proof. exact roundtrip_examples. Qed.
