(* C07 -- property theorems only (placeholder while the proofs are built). *)
From Coq Require Import List ZArith.
From LJT Require Import model.Quant model.Dct.
Local Open Scope Z_scope.
