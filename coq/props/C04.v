(* C04 -- property theorems only: statement + exact + Print Assumptions.
   The specification model (model/T81Spec.v) is a transcription of ITU-T T.81; these
   theorems validate it as an oracle: its writer, parser and decoder are mutually
   consistent for ALL streams / tables / block sequences (no size bound). *)
From Coq Require Import List ZArith Bool.
From LJT Require Import model.T81Spec model.T81Arith gen.GenAricom gen.GenT81Src proofs.T81SrcProofs proofs.T81StuffProofs proofs.T81ParseProofs proofs.T81LenProofs
  proofs.T81BlockProofs proofs.T81ScanProofs proofs.T81HuffProofs proofs.T81WriterProofs proofs.T81WrittenProofs proofs.T81CompleteProofs proofs.T81ParseInvProofs proofs.T81Examples
  proofs.T81ArithProofs proofs.T81QMProofs proofs.T81AricomProofs proofs.T81ArithExamples
  proofs.T81ArithProofsIdeal proofs.T81ArithProofsBytes proofs.T81ArithProofsScan proofs.T81LosslessProofs proofs.T81ProgProofs proofs.T81ProgWriterProofs proofs.T81ArithRefineProofs.
Import ListNotations.
Local Open Scope Z_scope.

(* (1a) writer_sound, marker/segment layer: every valid stream -- any number and order of
   segments, any payload sizes, any number of fill bytes before any marker, any number of
   restart intervals -- is accepted by the strict parser and gives back the same stream *)
Theorem C04_parse_emit : forall s, stream_ok s = true -> t81_parse (emit_stream s) = Some s.
Proof. exact t81_parse_emit. Qed.
Print Assumptions C04_parse_emit.

(* (1a') the parser accepts ONLY what the grammar generates: t81_parse decides the language
   { emit_stream s | stream_ok s } of byte strings -- "accepted by t81_parse" in the (->)
   correspondence therefore means: the stream IS a valid T.81 marker/segment sequence *)
Theorem C04_parse_characterisation : forall bs s, bytes bs ->
  (t81_parse bs = Some s <-> (stream_ok s = true /\ bs = emit_stream s)).
Proof. exact t81_parse_iff. Qed.
Print Assumptions C04_parse_characterisation.

(* (1b) writer_sound, both layers: for every choice of items and every image with 16-bit
   coefficients, a stream the writer produces that passes the validity check parses to the
   writer's segment list and decodes to the blocks the writer recorded as written
   (the Huffman tables are the concrete Annex C tables given in the DHT items) *)
Theorem C04_writer_sound : forall ch im s bytes,
  im_ok im -> layout ch im = Some s -> stream_ok s = true -> t81_emit ch im = Some bytes ->
  t81_parse bytes = Some s /\ t81_decode s = written ch im.
Proof. exact writer_sound. Qed.
Print Assumptions C04_writer_sound.

(* (1b') what the writer recorded, hence what the decoder returns, ARE blocks of the image:
   component i has the A.1.1 dimensions and its block at (r, c) is the zig-zag round trip of
   the image block of component i at index r * pw + c (pw = width of the block array the
   component has in its scan); on 64-element blocks the round trip is the identity *)
Theorem C04_written_is_image : forall ch im arrays, written ch im = Some arrays ->
  Forall2 (fun (ic : nat * fcomp) (a : comp_coefs) => let '(i, (_, h, v, _)) := ic in comp_written im i a h v)
          (combine (seq 0 (length (im_comps im))) (im_comps im)) arrays.
Proof. exact written_is_image. Qed.
Print Assumptions C04_written_is_image.

Theorem C04_zigzag_roundtrip : forall b, length b = 64%nat -> to_natural (to_zigzag b) = b.
Proof. exact natural_zigzag_id. Qed.
Print Assumptions C04_zigzag_roundtrip.

(* (1b'') completeness: for a valid stream (any producer), if the entropy decoding of its scans
   succeeds then the coefficient arrays can always be assembled -- every component is coded
   exactly once (B.2.3) and the A.2.3 / A.2.4 block positions of its scan cover all its blocks;
   hence decoding an emitted valid stream never fails (the former gap C04_writer_sound_full) *)
Theorem C04_decode_complete : forall s st, stream_ok s = true -> d_walk ds0 (st_segs s) = Some st ->
  exists arrays, coefs_of_state st = Some arrays.
Proof. exact decode_complete. Qed.
Print Assumptions C04_decode_complete.

Theorem C04_writer_sound_full : forall ch im s,
  im_ok im -> layout ch im = Some s -> stream_ok s = true -> exists arrays, t81_decode s = Some arrays.
Proof. exact writer_sound_full. Qed.
Print Assumptions C04_writer_sound_full.

(* (2) B.1.1.5 byte stuffing, all byte lists *)
Theorem C04_stuffing : forall d,
  read_ecs (stuff d) = (d, []) /\ no_marker (stuff d) = true /\
  (forall r, marker_ahead r -> read_ecs (stuff d ++ r) = (d, r)).
Proof. exact stuffing_all. Qed.
Print Assumptions C04_stuffing.

(* (3) restart cadence: the writer numbers the RSTm 0,1,..,7,0,..; the parser accepts exactly
   that sequence (any number of intervals, any fill) and rejects any other number *)
Theorem C04_restart_accept : forall rest k fuel f c t,
  (length rest < fuel)%nat -> c <> 0 -> c <> 255 -> not_rst c ->
  read_rsts fuel k (emit_rsts k rest ++ marker f c ++ t) = Some (rest, marker f c ++ t).
Proof. exact read_rsts_ok. Qed.
Print Assumptions C04_restart_accept.

Theorem C04_restart_reject : forall fuel k f m t, 0 <= m < 8 -> m <> k mod 8 ->
  read_rsts (S fuel) k (marker f (M_RST0 + m) ++ t) = None.
Proof. exact read_rsts_wrong_number. Qed.
Print Assumptions C04_restart_reject.

Theorem C04_restart_numbers : forall rest k i, (i < length rest)%nat ->
  nth i (rst_markers_of k rest) 0 = M_RST0 + (k + Z.of_nat i) mod 8.
Proof. exact rst_markers_cyclic. Qed.
Print Assumptions C04_restart_numbers.

(* (4) F.2.2.3 DECODE with MAXCODE/MINCODE/VALPTR from Annex C codes: for every table
   specification with non-negative counts whose codes fit and are not all ones, DECODE
   returns the symbol of every code word and consumes exactly its bits *)
Theorem C04_decode_procedure : forall counts vals, table_ok counts = true ->
  forall sym bits r, hc_enc (mk_coder counts vals) sym = Some bits ->
                     hc_dec (mk_coder counts vals) (bits ++ r) = Some (sym, r).
Proof. exact mk_coder_ok. Qed.
Print Assumptions C04_decode_procedure.

(* (1c) entropy layer for ABSTRACT prefix codes: one block, and a whole scan with any
   restart interval (also one that does not divide the number of blocks) *)
Theorem C04_block_codec : forall dcE acE dcD acD, coder_ok dcE dcD -> coder_ok acE acD ->
  forall pred zz bits rest, block_ok zz -> enc_block dcE acE pred zz = Some bits ->
  dec_block dcD acD pred (bits ++ rest) = Some (zz, rest).
Proof. exact dec_enc_block. Qed.
Print Assumptions C04_block_codec.

Theorem C04_scan_codec : forall cs n per blocks ds, coders_ok cs ->
  Forall (fun b => block_ok (snd b)) blocks -> enc_scan cs n per blocks = Some ds ->
  dec_scan cs n per (map fst blocks) ds = Some blocks.
Proof. exact dec_enc_scan. Qed.
Print Assumptions C04_scan_codec.

(* F.1.2.3: packing pads the last byte with 1-bits only, fewer than 8 *)
Theorem C04_padding : forall bs, exists pad,
  unpack (pack bs) = bs ++ pad /\ (length pad < 8)%nat /\ forallb (fun b => b) pad = true.
Proof. exact unpack_pack. Qed.
Print Assumptions C04_padding.

(* (5) length fields Lq, Lh, Lf, Ls, Lr, La for every number of tables / components *)
Theorem C04_length_fields :
  (forall tabs, forallb qtab_ok tabs = true ->
     len_field (SegDQT tabs) = 2 + sumZ (map (fun t : qtab => let '(pq, _, _) := t in 65 + 64 * pq) tabs)) /\
  (forall tabs, forallb htab_ok tabs = true ->
     len_field (SegDHT tabs) = 2 + sumZ (map (fun t : htab => let '(_, _, counts, _) := t in 17 + sumZ counts) tabs)) /\
  (forall n p y x comps, len_field (SegSOF n p y x comps) = 8 + 3 * lenZ comps) /\
  (forall comps ss se ah al d r, len_field (SegSOS comps ss se ah al d r) = 6 + 2 * lenZ comps) /\
  (forall ri, len_field (SegDRI ri) = 4) /\
  (forall tabs, len_field (SegDAC tabs) = 2 + 2 * lenZ tabs) /\
  (forall s, seg_ok s = true -> 2 <= len_field s <= 65535).
Proof. exact length_fields. Qed.
Print Assumptions C04_length_fields.

(* ---- lossless process (Annex H, SOF3) ---- *)
(* (12) the Annex H decoder inverts the lossless writer: DIFF modulo 2^16 with SSSS 0..16,
   prediction from the reconstructed neighbours with the H.1.2.1 start / restart rule, 1-bit
   padding per restart interval; any predictor, point transform, position order, abstract prefix
   codes; both sides end with the same sample arrays *)
Theorem C04_lossless_scan_codec : forall cs ws psv p pt n ivs src coded ds coded', lcoders_ok cs ->
  Forall (src_ok ws src) ivs ->
  lenc_intervals cs ws psv p pt n ivs src coded = Some (ds, coded') ->
  ldec_intervals cs ws psv p pt n ivs ds coded = Some coded'.
Proof. exact lenc_dec_intervals. Qed.
Print Assumptions C04_lossless_scan_codec.

(* (13) whole lossless streams: the decoder's segment walker goes through exactly the writer's
   states (tables, DRI, frame, every scan), for samples in 0 .. 2^16-1 and the concrete Annex C
   tables of the DHT items; and every sample held in those states is the point-transformed
   source sample stored at its place *)
Theorem C04_lossless_writer_decodes : forall im its st segs, lstate_ok st -> limage_ok im -> lits_ok its ->
  lw_walk im st its = Some segs -> l_walk st segs = Some (lw_final im st its).
Proof. exact lw_walk_l_walk. Qed.
Print Assumptions C04_lossless_writer_decodes.

Theorem C04_lossless_samples_agree : forall cs ws psv p pt row0 pos src coded bits coded',
  lenc_samples cs ws psv p pt row0 pos src coded = Some (bits, coded') -> agree src coded -> agree src coded'.
Proof. exact lenc_samples_agree. Qed.
Print Assumptions C04_lossless_samples_agree.

(* ---- progressive process, Huffman (Annex G.1.2.3) ---- *)
(* (14) successive approximation is monotone: an AC refinement scan with p1 = 2^Al changes each
   coefficient of the band k..Se by 0 or by p1 away from zero, makes zero-history coefficients
   0 or +-p1, and leaves everything outside the band alone (also for the correction bits of an
   EOB run) -- earlier, more significant bits are never disturbed *)
Theorem C04_progressive_refinement : forall fuel ac m w r c se p1 k bs m' run bs',
  0 <= r * w + c -> 0 <= k <= se + 1 ->
  pac_refine fuel ac m w r c se p1 k bs = Some (m', run, bs') -> refined m m' w r c k se p1.
Proof. exact pac_refine_refines. Qed.
Print Assumptions C04_progressive_refinement.

Theorem C04_progressive_correction : forall fuel m w r c se p1 k bs m' bs', 0 <= r * w + c -> 0 <= k ->
  pcorrect fuel m w r c se p1 k bs = Some (m', bs') -> refined m m' w r c k se p1.
Proof. exact pcorrect_refines. Qed.
Print Assumptions C04_progressive_correction.

(* (15) Annex G round trip inside the specification: the progressive Huffman decoder procedures
   invert the spec-level progressive writer of T81Spec (EOB0 per block, ZRL, correction bits after
   the symbol whose run passes them), for abstract prefix codes, every band and point transform:
   AC first scan (pac_first vs F.1.2.2 coding of the point-transformed band) ... *)
Theorem C04_prog_ac_first_codec : forall ac, coder_ok (hc_enc ac) (hc_dec ac) ->
  forall w r c al zs run kd fuel m bits rest, Forall (fun z => category z <= 15) zs -> 0 <= run ->
  enc_ac (hc_enc ac) zs run = Some bits -> run + lenZ zs < Z.of_nat fuel ->
  pac_first fuel ac m w r c (kd + run + lenZ zs - 1) al kd (bits ++ rest) = Some (wr_band m w r c (kd + run) al zs, 0, rest).
Proof. exact pac_first_enc. Qed.
Print Assumptions C04_prog_ac_first_codec.

(* ... and AC refinement scan (pac_refine with padvance / pcorrect vs enc_ref), given that the
   decoder's history is non-zero exactly where the coefficient was already non-zero *)
Theorem C04_prog_ac_refine_codec : forall ac, coder_ok (hc_enc ac) (hc_dec ac) ->
  forall w r c p1, 0 <= r * w + c ->
  forall l kd m bits rest, hist_ok w r c m kd l -> (length l <= 63)%nat -> 0 <= kd ->
  enc_ref (hc_enc ac) l true 0 [] = Some bits ->
  pac_refine 64 ac m w r c (kd + lenZ l - 1) p1 kd (bits ++ rest) = Some (wr_ref m w r c kd p1 l, 0, rest).
Proof. exact pac_refine_enc. Qed.
Print Assumptions C04_prog_ac_refine_codec.

(* ---- arithmetic coding (Annex D, F.1.4 / F.2.4; sequential process SOF9) ---- *)
(* (6) binarisation and statistics-bin selection (DC difference with conditioning context, AC
   EOB / zero-run / magnitude decisions with the Kx split, fixed-estimate sign) are inverted by
   the decoding procedures for an ABSTRACT binary coder (a decision source that answers only
   for the bin that was coded), for every block sequence, prediction chain and DAC setting *)
Theorem C04_arith_binarisation : forall cs blocks preds ctxs rest, ablocks_ok preds blocks ->
  adec_blocks dsrc adecide cs preds ctxs (map fst blocks) (aenc_blocks cs preds ctxs blocks ++ rest) =
  Some (blocks, rest).
Proof. exact enc_dec_ablocks. Qed.
Print Assumptions C04_arith_binarisation.

(* (7) D.2 decoder registers: after Initdec and after every Decode(S), for every input and
   every statistics state: X'8000' <= A <= X'10000', 0 <= C < A * 2^16 (Cx < A), 0 <= CT <= 8,
   the low 16-CT bits of C are zero, the estimator indices stay inside Table D.3 *)
Theorem C04_qm_decoder_registers :
  (forall inp, isbytes inp -> dinv (qm_init_dec inp)) /\
  (forall key q d q', dinv q -> qm_decode key q = Some (d, q') -> dinv q').
Proof. exact (conj init_dec_inv qm_decode_inv). Qed.
Print Assumptions C04_qm_decoder_registers.

(* (8) D.1 encoder registers, after any sequence of decisions: X'8000' <= A <= X'10000',
   0 <= C, C + A <= 2^(28-CT), 1 <= CT <= 11 (Byte_out sees at most one carry bit) *)
Theorem C04_qm_encoder_registers : forall ds, qeinv (fold_left qm_encode ds qm_init_enc).
Proof. exact qm_encode_all_inv. Qed.
Print Assumptions C04_qm_encoder_registers.

(* (9) Table D.3 of the specification model is the table of src/jaricom.c (regenerated from
   the current source on every run) *)
Theorem C04_table_D3_is_jaricom :
  firstn 113 jaricom_table = qe_table /\ skipn 113 jaricom_table = [(23069, 113, 113, 0)].
Proof. exact aricom_is_table_D3. Qed.
Print Assumptions C04_table_D3_is_jaricom.

(* (10) the D.2 decoder inverts the D.1 encoder -- Code_MPS / Code_LPS with conditional exchange,
   Renorm_e with Byte_out (carry into the last byte B, stacked X'FF' bytes turned into X'00' by a
   carry, the ST counter), Flush (Clear_final_bits, final Byte_outs, Discard_final_zeros), against
   Initdec / Decode / Renorm_d / Byte_in with zero fill past the end -- for EVERY list of
   (statistics bin, decision) pairs and every initial statistics state; the statistics areas of
   both sides end up identical.  (The X'FF' stuffing of the emitted bytes is C04_stuffing.) *)
Theorem C04_qm_roundtrip : forall ds,
  fst (qm_run (map fst ds) (qm_init_dec (qm_encode_all ds))) = map snd ds.
Proof. exact qm_roundtrip. Qed.
Print Assumptions C04_qm_roundtrip.

Theorem C04_qm_roundtrip_stats : forall st0 ds, stats_ok st0 ->
  exists Df, qm_run (map fst ds) (init_dec_st st0 (qm_flush (fold_left qm_encode ds (init_enc_st st0)))) = (map snd ds, Df) /\
             qst Df = est (fold_left qm_encode ds (init_enc_st st0)).
Proof. exact qm_roundtrip_st. Qed.
Print Assumptions C04_qm_roundtrip_stats.

(* (11) composition of (6) and (10): the arithmetic entropy layer of a whole scan -- F.1.4
   binarisation, D.1 encoder and Flush per restart interval, then Initdec, D.2 decoder and F.2.4
   procedures -- gives back every block, for any conditioning tables and any restart interval *)
Theorem C04_arith_scan_codec : forall cs n per blocks,
  Forall (ablocks_ok (repeat 0 n)) (intervals per blocks) ->
  adec_intervals cs n (intervals per (map fst blocks)) (map (aenc_interval cs n) (intervals per blocks)) = Some blocks.
Proof. exact adec_enc_scan. Qed.
Print Assumptions C04_arith_scan_codec.

(* (12) G.1.3.3, SOF10 AC refinement: for one block of a band Ss..Se whose arrays hold the
   approximation at Ah = Al + 1 (tr: sign-magnitude truncation) -- coefficients with zero and with
   non-zero history in any mix --, the decoding procedure inverts the coding procedure: the EOB
   decision is coded and decoded only for k > EOBx and never directly after a zero, EOB (encoder,
   from the coefficients) and EOBx (encoder from the coefficients, decoder from its arrays) are the
   model's own last_idx computations; zero-history: zero / newly non-zero + fixed-estimate sign;
   non-zero history: correction decision.  The arrays then hold the approximation at Al and the
   remaining decisions are still reproduced.  First for ANY decoder state that reproduces the
   decision list (the conclusion of (10)), then on the bytes of the D.1 encoder by (10). *)
Theorem C04_arith_refine_binarisation : forall tb w r c al ss se coef m rest q,
  0 <= r * w + c -> 0 <= al -> 1 <= ss -> ss <= se -> se <= 63 ->
  (forall j, ss <= j <= se -> pget m w r c j = tr (al + 1) (coef j)) ->
  (let ds := enc_ac_refine 130 tb coef al se
         (last_idx (fun k => negb (Z.abs (coef k) / 2 ^ al =? 0)) ss se)
         (last_idx (fun k => negb (Z.abs (coef k) / 2 ^ (al + 1) =? 0)) ss se) ss false ++ rest in
   fst (qm_run (map fst ds) q) = map snd ds) ->
  exists m' q',
    dec_ac_refine 130 tb m w r c al se (last_idx (fun k => negb (pget m w r c k =? 0)) ss se) ss false q = Some (m', q') /\
    fst (qm_run (map fst rest) q') = map snd rest /\ forall j, ss <= j <= se -> pget m' w r c j = tr al (coef j).
Proof. exact ac_refine_block. Qed.
Print Assumptions C04_arith_refine_binarisation.

Theorem C04_arith_refine_roundtrip : forall tb w r c al ss se coef m rest,
  0 <= r * w + c -> 0 <= al -> 1 <= ss -> ss <= se -> se <= 63 ->
  (forall j, ss <= j <= se -> pget m w r c j = tr (al + 1) (coef j)) ->
  exists m' q',
    dec_ac_refine 130 tb m w r c al se (last_idx (fun k => negb (pget m w r c k =? 0)) ss se) ss false
      (qm_init_dec (qm_encode_all (enc_ac_refine 130 tb coef al se
         (last_idx (fun k => negb (Z.abs (coef k) / 2 ^ al =? 0)) ss se)
         (last_idx (fun k => negb (Z.abs (coef k) / 2 ^ (al + 1) =? 0)) ss se) ss false ++ rest))) = Some (m', q') /\
    fst (qm_run (map fst rest) q') = map snd rest /\ forall j, ss <= j <= se -> pget m' w r c j = tr al (coef j).
Proof. exact ac_refine_block_bytes. Qed.
Print Assumptions C04_arith_refine_roundtrip.

Example C04_example_qm_roundtrip :
  qm_decode_list ex_decisions (qm_encode_all ex_decisions) = map snd ex_decisions /\
  length (qm_encode_all ex_decisions) = 88%nat.
Proof. exact ex_qm_roundtrip. Qed.

Example C04_example_arithmetic_stream :
  exists bytes s, t81_emit_arith ex3_ch ex2_im = Some bytes /\ t81_parse bytes = Some s /\
                  t81_decode_arith s = Some [(3, 2, [ex2_b 1; ex2_b 2; ex2_b 3; ex2_b 5; ex2_b 6; ex2_b 7]);
                                             (2, 2, [ex2_b 7; ex2_b (-7); ex2_b 3; ex2_b 0])].
Proof. exact ex3_runs. Qed.

Example C04_example_ablocks_ok :
  ablocks_ok [0; 0] [(0%nat, to_zigzag (ex2_b 5)); (1%nat, to_zigzag (ex2_b (-3))); (0%nat, to_zigzag (ex2_b 900))].
Proof. exact ex_ablocks_ok. Qed.

(* ---- C04_source_*: constants the model shares with the working tree (regenerated every run) ---- *)
Theorem C04_source_zigzag : zz_nat = src_natural_order.
Proof. exact source_zigzag. Qed.
Print Assumptions C04_source_zigzag.

Theorem C04_source_markers :
  [M_SOF0; M_DHT; M_DAC; M_RST0; M_SOI; M_EOI; M_SOS; M_DQT; M_DNL; M_DRI; M_APP0; M_COM] = src_markers_c /\
  src_markers_c = src_markers_d.
Proof. exact source_markers. Qed.
Print Assumptions C04_source_markers.

Theorem C04_source_limits : src_limits = [4; 4; 16; 4; 4; 10].
Proof. exact source_limits. Qed.
Print Assumptions C04_source_limits.

(* the length fields jcmarker.c writes and jdmarker.c insists on are the B.2.x formulas of the spec writer *)
Theorem C04_source_lengths :
  (forall n p y x comps, len_field (SegSOF n p y x comps) = src_Lf (lenZ comps) /\ src_Lf (lenZ comps) = src_d_Lf (lenZ comps)) /\
  (forall comps ss se ah al d r, len_field (SegSOS comps ss se ah al d r) = src_Ls (lenZ comps) /\ src_Ls (lenZ comps) = src_d_Ls (lenZ comps)) /\
  (forall ri, len_field (SegDRI ri) = src_Lr /\ src_Lr = src_d_Lr) /\
  (forall tabs, len_field (SegDAC tabs) = src_La (lenZ tabs)) /\
  (forall pq tq q, qtab_ok (pq, tq, q) = true -> len_field (SegDQT [(pq, tq, q)]) = src_Lq (negb (pq =? 0))) /\
  (forall tc th counts vals, htab_ok (tc, th, counts, vals) = true -> len_field (SegDHT [(tc, th, counts, vals)]) = src_Lh (sumZ counts)).
Proof. exact source_lengths. Qed.
Print Assumptions C04_source_lengths.

(* non-vacuity: the hypotheses of (1b) and (4) hold for concrete streams, which parse and
   decode to the coefficients written (8x8 grey; 17x9 two components 2x1/1x1, SOF1, 16-bit
   DQT at destination 3, Huffman destinations 3/2, DRI after SOF with Ri = 1, fill bytes) *)
Example C04_example_grey :
  exists bytes s, t81_emit ex1_ch ex1_im = Some bytes /\ layout ex1_ch ex1_im = Some s /\ stream_ok s = true /\
                  t81_parse bytes = Some s /\ t81_decode s = Some [(1, 1, [ex1_blk])] /\ im_ok ex1_im /\
                  length bytes = 145%nat.
Proof. exact ex1_runs. Qed.

Example C04_example_two_components :
  exists bytes s, t81_emit ex2_ch ex2_im = Some bytes /\ layout ex2_ch ex2_im = Some s /\ stream_ok s = true /\
                  t81_parse bytes = Some s /\
                  t81_decode s = Some [(3, 2, [ex2_b 1; ex2_b 2; ex2_b 3; ex2_b 5; ex2_b 6; ex2_b 7]);
                                       (2, 2, [ex2_b 7; ex2_b (-7); ex2_b 3; ex2_b 0])] /\ im_ok ex2_im.
Proof. exact ex2_runs. Qed.

Example C04_example_table_ok : table_ok [0; 3; 1; 0; 0; 0; 0; 0; 0; 0; 0; 0; 0; 0; 0; 0] = true.
Proof. exact ex_tables_ok. Qed.
