(* C04 -- property theorems only: statement + exact + Print Assumptions. *)
From Coq Require Import List ZArith Bool.
From LJT Require Import model.T81Spec proofs.T81StuffProofs.
Import ListNotations.
Local Open Scope Z_scope.

(* B.1.1.5: for every byte list, unstuffing the stuffed data gives the data back, the
   stuffed data contains no marker, and reading stops exactly at the next marker *)
Theorem C04_stuffing : forall d,
  read_ecs (stuff d) = (d, []) /\ no_marker (stuff d) = true /\
  (forall r, marker_ahead r -> read_ecs (stuff d ++ r) = (d, r)).
Proof. exact stuffing_all. Qed.
Print Assumptions C04_stuffing.
