(* C16 -- header parameters and embedded metadata round-trip intact.
   Property theorems only: statement + exact + Print Assumptions.
   Models: model/Icc.v (jcicc.c, jdicc.c), model/MarkerRT.v (jcmarker.c, jcapimin.c, jdmarker.c,
   jdapimin.c), model/CopyMarkers.v (transupp.c, tj3Transform); constants: gen/GenIccConst.v. *)
From Coq Require Import List ZArith Bool Permutation.
From LJT Require Import lib.Sweep gen.GenIccConst model.MarkerRT model.Icc model.CopyMarkers model.TjHeader model.MarkerSuspend
  proofs.MarkerSuspendProofs proofs.CopyHistory model.CopyMulti model.MarkerSeq model.MarkerTrace
  proofs.CopyMultiProofs proofs.MarkerSeqProofs proofs.MarkerTraceProofs model.MarkerScan proofs.MarkerScanProofs
  proofs.TjProofs proofs.C16Consts proofs.IccProofs proofs.IccRoundTrip proofs.IccFast proofs.MarkerProofs proofs.CopyProofs proofs.HeaderProofs.
Import ListNotations.
Local Open Scope Z_scope.

(* ---- generated facts: writer and reader of the tree agree on code, identifier, layout, limits *)
Theorem C16_constants_agree :
  W_ICC_MARKER = R_ICC_MARKER /\ W_ICC_OVERHEAD_LEN = R_ICC_OVERHEAD_LEN /\
  icc_sig_writer = icc_sig_reader /\
  Z.of_nat (length icc_sig_writer) + 2 = W_ICC_OVERHEAD_LEN /\
  R_ICC_SEQ_INDEX = Z.of_nat (length icc_sig_reader) /\
  R_ICC_COUNT_INDEX = Z.of_nat (length icc_sig_reader) + 1 /\
  W_ICC_MARKER = JPEG_APP0 + 2 /\ M_APP0 = JPEG_APP0 /\ M_COM = JPEG_COM /\ M_APP15 = JPEG_APP0 + 15 /\
  M_APP14 = JPEG_APP0 + 14.
Proof. exact consts_writer_reader_agree. Qed.
Print Assumptions C16_constants_agree.

Theorem C16_constants_lengths :
  W_MAX_DATA_BYTES_IN_MARKER = W_MAX_BYTES_IN_MARKER - W_ICC_OVERHEAD_LEN /\
  W_MAX_BYTES_IN_MARKER <= WRITE_MARKER_MAX_DATALEN /\
  WRITE_MARKER_MAX_DATALEN = 65533 /\ W_MAX_DATA_BYTES_IN_MARKER = 65519 /\
  0 < W_MAX_DATA_BYTES_IN_MARKER /\ R_MAX_SEQ_NO = 255 /\
  WRITE_MARKER_MAX_DATALEN < COPY_SAVE_LIMIT /\ WRITE_MARKER_MAX_DATALEN < TJ_ICC_SAVE_LIMIT.
Proof. exact consts_lengths. Qed.
Print Assumptions C16_constants_lengths.

Theorem C16_constants_identifiers :
  jfif_sig_emit = jfif_sig_examine /\ jfif_sig_emit = jfif_sig_copy /\
  adobe_sig_emit = adobe_sig_examine /\ adobe_sig_emit = adobe_sig_copy /\
  JFIF_SEGMENT_LENGTH = APP0_DATA_LEN + 2 /\ ADOBE_SEGMENT_LENGTH = APP14_DATA_LEN + 2 /\
  APP0_DATA_LEN <= APPN_DATA_LEN /\ APP14_DATA_LEN <= APPN_DATA_LEN.
Proof. exact consts_sigs. Qed.
Print Assumptions C16_constants_identifiers.

(* ---- (1)+(2) ICC: every profile of 1 .. 255*65519 bytes is written as ceil(len/65519) APP2 segments
   of at most 65533 data bytes, numbered 1..n with count n, and jpeg_read_icc_profile returns it
   byte-identical from ANY marker list whose ICC markers are a permutation of those segments --
   whatever other (non-ICC) markers are interleaved, whatever the malloc'ed buffer contained *)
Theorem C16_icc_roundtrip : forall p, 1 <= Zlength p <= 255 * W_MAX_DATA_BYTES_IN_MARKER ->
  exists segs,
    write_icc p = Some segs /\
    Z.of_nat (length segs) = icc_num_markers (Zlength p) /\ 1 <= Z.of_nat (length segs) <= 255 /\
    Forall (fun s => fst s = W_ICC_MARKER /\ W_ICC_OVERHEAD_LEN < Zlength (snd s) <= W_MAX_BYTES_IN_MARKER) segs /\
    well_numbered (Z.of_nat (length segs)) (markers_of segs) /\
    concat (map icc_payload (markers_of segs)) = p /\
    (forall junk ms, Permutation (filter marker_is_icc ms) (markers_of segs) -> read_icc_with junk ms = IccOk p).
Proof. exact icc_roundtrip_all. Qed.
Print Assumptions C16_icc_roundtrip.

Theorem C16_icc_roundtrip_stream_order : forall p segs, 1 <= Zlength p <= 255 * W_MAX_DATA_BYTES_IN_MARKER ->
  write_icc p = Some segs -> read_icc (markers_of segs) = IccOk p.
Proof. exact icc_roundtrip. Qed.
Print Assumptions C16_icc_roundtrip_stream_order.

Theorem C16_icc_any_order : forall p segs ms, 1 <= Zlength p <= 255 * W_MAX_DATA_BYTES_IN_MARKER ->
  write_icc p = Some segs -> Permutation ms (markers_of segs) -> read_icc ms = IccOk p.
Proof. exact icc_permutation. Qed.
Print Assumptions C16_icc_any_order.

(* (2) in full generality: the result of jpeg_read_icc_profile (profile, "bogus", "absent") never
   depends on the order of the marker list *)
Theorem C16_icc_read_permutation_invariant : forall junk ms ms', Permutation ms ms' ->
  read_icc_with junk ms = read_icc_with junk ms'.
Proof. exact read_icc_permutation_invariant. Qed.
Print Assumptions C16_icc_read_permutation_invariant.

(* closed form of the reader: markers numbered 1..n with count n, in any order, with anything else
   in between, give the concatenation of the payloads in sequence order *)
Theorem C16_icc_read_closed_form : forall junk ms srt n,
  Permutation (filter marker_is_icc ms) srt -> well_numbered n srt ->
  concat (map icc_payload srt) <> [] ->
  read_icc_with junk ms = IccOk (concat (map icc_payload srt)).
Proof. exact read_icc_closed. Qed.
Print Assumptions C16_icc_read_closed_form.

(* the closed-form reader used by the extracted model on very long profiles is the same function *)
Theorem C16_icc_read_fast_correct : forall junk ms, read_icc_with junk ms = read_icc_fast ms.
Proof. exact read_icc_fast_correct. Qed.
Print Assumptions C16_icc_read_fast_correct.

(* ---- (3) damaged numberings: duplicate, inconsistent count, sequence number 0 or > count, missing *)
Theorem C16_icc_rejects_bad : forall junk ms,
  let icc := filter marker_is_icc ms in
  icc <> [] ->
  ( ~ NoDup (map icc_seq icc)
    \/ (exists a b, In a icc /\ In b icc /\ icc_count a <> icc_count b)
    \/ (exists a, In a icc /\ (icc_seq a <= 0 \/ icc_count a < icc_seq a))
    \/ (exists a k, In a icc /\ 1 <= k <= icc_count a /\ ~ In k (map icc_seq icc)) )
  -> read_icc_with junk ms = IccBogus.
Proof. exact icc_rejects_bad. Qed.
Print Assumptions C16_icc_rejects_bad.

Theorem C16_icc_ok_implies_wellformed : forall junk ms p, read_icc_with junk ms = IccOk p ->
  let icc := filter marker_is_icc ms in
  exists n, 1 <= n /\
    Forall (fun m => icc_count m = n /\ 1 <= icc_seq m <= n) icc /\
    NoDup (map icc_seq icc) /\
    (forall k, 1 <= k <= n -> In k (map icc_seq icc)) /\ p <> [].
Proof. exact read_icc_ok_inv. Qed.
Print Assumptions C16_icc_ok_implies_wellformed.

Theorem C16_icc_absent_iff_no_icc_marker : forall junk ms,
  read_icc_with junk ms = IccAbsent <-> filter marker_is_icc ms = [].
Proof. exact read_icc_absent_iff. Qed.
Print Assumptions C16_icc_absent_iff_no_icc_marker.

(* boundary fact: one more segment than 255 makes the count byte wrap to 0; the stream is refused *)
Theorem C16_icc_256_segments_not_recovered : forall p segs,
  255 * W_MAX_DATA_BYTES_IN_MARKER < Zlength p <= 256 * W_MAX_DATA_BYTES_IN_MARKER ->
  write_icc p = Some segs -> read_icc (markers_of segs) = IccBogus.
Proof. exact icc_too_long_not_recovered. Qed.
Print Assumptions C16_icc_256_segments_not_recovered.

(* ---- (4) COM / APPn markers *)
Theorem C16_marker_writer_limit : forall code data,
  (Zlength data <= WRITE_MARKER_MAX_DATALEN ->
   write_marker (code, data) = Some (emit_marker code ++ emit_2bytes (Zlength data + 2) ++ map byte_of data)) /\
  (WRITE_MARKER_MAX_DATALEN < Zlength data -> write_marker (code, data) = None).
Proof. intros code data. split; [exact (write_marker_ok code data) | exact (write_marker_too_long code data)]. Qed.
Print Assumptions C16_marker_writer_limit.

(* any run of COM/APPn segments of at most 65533 data bytes, read back under any limits c: saved data
   = first min(len, limit) bytes, original_length = len, list order = stream order, limit 0 = dropped *)
Theorem C16_marker_roundtrip : forall c segs, (forall k, 0 <= c k) -> Forall seg_ok segs ->
  forall rest, stops rest ->
  exists bytes, write_markers segs = Some bytes /\
    forall fuel h acc, (length segs < fuel)%nat ->
      exists h', read_app_markers fuel c h acc (bytes ++ rest)
                 = Some (h', acc ++ flat_map (saved_under c) segs, rest).
Proof. exact markers_roundtrip. Qed.
Print Assumptions C16_marker_roundtrip.

(* (4) through a SUSPENDING data source: for every way of delivering the stream in chunks (susp_run: a suspension is
   answered with the next chunk; save_marker is resumable, its length word is committed before the data) the saved
   markers are those of the one-buffer read *)
Theorem C16_marker_any_chunking : forall c segs rest chunks h acc, (forall k, 0 <= c k) -> Forall seg_ok segs -> stops rest ->
  exists bytes, write_markers segs = Some bytes /\
    (concat chunks = bytes ++ rest ->
     forall fuel, (length chunks + length (bytes ++ rest) + 3 * length segs < fuel)%nat ->
       ss_acc (fst (susp_run fuel c (mkSstate h acc PIdle 0) [] chunks)) = acc ++ flat_map (saved_under c) segs).
Proof. exact markers_any_chunking. Qed.
Print Assumptions C16_marker_any_chunking.

Theorem C16_save_limits_wellformed : forall c code limit, cfg_wf c -> 0 <= limit ->
  cfg_wf (jpeg_save_markers c code limit).
Proof. exact jpeg_save_markers_wf. Qed.
Print Assumptions C16_save_limits_wellformed.

(* ---- (5) header parameters *)
Theorem C16_sof_roundtrip : forall code f, frame_ok f ->
  exists body, emit_sof code f = Some (emit_marker code ++ body) /\
               forall rest, get_sof (body ++ rest) = Some (f, rest).
Proof. exact sof_roundtrip. Qed.
Print Assumptions C16_sof_roundtrip.

Theorem C16_sof_dimension_limit : forall code f, 65535 < f_height f \/ 65535 < f_width f -> emit_sof code f = None.
Proof. exact sof_too_big. Qed.
Print Assumptions C16_sof_dimension_limit.

Theorem C16_sof_code_flags : forall arith prog lossless baseline, (lossless = true -> arith = false /\ prog = false) ->
  sof_flags (sof_code arith prog lossless baseline) = Some (prog, lossless, arith).
Proof. exact sof_code_roundtrip. Qed.
Print Assumptions C16_sof_code_flags.

Theorem C16_sos_roundtrip : forall keep lossless ids s, NoDup ids -> Forall is_byte ids -> scan_ok ids s ->
  exists body, emit_sos_with keep lossless ids s = emit_marker M_SOS ++ body /\
               forall rest, get_sos ids (body ++ rest) = Some (scan_seen keep lossless s, rest).
Proof. exact sos_roundtrip. Qed.
Print Assumptions C16_sos_roundtrip.

(* lossless: Ss = predictor selection value and Al = point transform come back *)
Theorem C16_sos_lossless_psv_pt : forall keep ids s rest, NoDup ids -> Forall is_byte ids -> scan_ok ids s ->
  exists body s', emit_sos_with keep true ids s = emit_marker M_SOS ++ body /\
                  get_sos ids (body ++ rest) = Some (s', rest) /\ s_Ss s' = s_Ss s /\ s_Al s' = s_Al s /\
                  s_Se s' = s_Se s /\ s_Ah s' = s_Ah s /\ map sc_ci (s_comps s') = map sc_ci (s_comps s).
Proof. exact sos_lossless_psv_pt. Qed.
Print Assumptions C16_sos_lossless_psv_pt.

(* the DC table selector of a lossless scan comes back (the tree keeps Td in lossless scans: generated fact
   EMIT_SOS_TD_KEPT_IN_LOSSLESS = 1; this obligation fails to type-check if emit_sos zeroes Td again) *)
Theorem C16_sos_lossless_td_kept :
  forall ids s rest, NoDup ids -> Forall is_byte ids -> scan_ok ids s ->
  exists body, emit_sos true ids s = emit_marker M_SOS ++ body /\
    get_sos ids (body ++ rest) =
    Some (mkScan (map (fun c => mkScomp (sc_ci c) (sc_dc c) (sos_ta s c)) (s_comps s)) (s_Ss s) (s_Se s) (s_Ah s) (s_Al s), rest).
Proof. exact (sos_lossless_td_kept eq_refl). Qed.
Print Assumptions C16_sos_lossless_td_kept.

(* the former defect, kept as the statement of what a tree with EMIT_SOS_TD_KEPT_IN_LOSSLESS = 0 does *)
Theorem C16_sos_lossless_td_refuted_if_zeroed : EMIT_SOS_TD_KEPT_IN_LOSSLESS = 0 ->
  exists ids s, NoDup ids /\ Forall is_byte ids /\ scan_ok ids s /\ lossless_scan s /\
    exists s', get_sos ids (skipn 2 (emit_sos true ids s)) = Some (s', []) /\
               map sc_dc (s_comps s') <> map sc_dc (s_comps s).
Proof. exact sos_lossless_td_refuted. Qed.
Print Assumptions C16_sos_lossless_td_refuted_if_zeroed.

Theorem C16_dri_roundtrip : forall n rest, 0 <= n < 65536 ->
  exists body, emit_dri n = emit_marker M_DRI ++ body /\ get_dri (body ++ rest) = Some (n, rest).
Proof. exact dri_roundtrip. Qed.
Print Assumptions C16_dri_roundtrip.

(* JFIF version, density and units, whether or not APP0 markers are being saved *)
Theorem C16_jfif_roundtrip : forall c j h acc rest, jfif_ok j -> cfg_wf c ->
  emit_jfif_app0 j = emit_marker M_APP0 ++ emit_2bytes JFIF_SEGMENT_LENGTH ++ jfif_data j /\
  exists acc', process_app c M_APP0 h acc (emit_2bytes JFIF_SEGMENT_LENGTH ++ jfif_data j ++ rest)
               = Some (hinfo_jfif h j, acc', rest).
Proof. exact jfif_roundtrip. Qed.
Print Assumptions C16_jfif_roundtrip.

Theorem C16_file_header_roundtrip : forall c cs j rest, jfif_ok j -> cfg_wf c -> stops rest ->
  forall fuel, (2 <= fuel)%nat ->
  exists acc, read_app_markers fuel c hinfo_init [] (skipn 2 (emit_file_header cs j) ++ rest)
              = Some (header_info cs j, acc, rest).
Proof. exact file_header_roundtrip. Qed.
Print Assumptions C16_file_header_roundtrip.

Theorem C16_colorspace_roundtrip : forall cs j lossless ids, cs <> CS_UNKNOWN ->
  decide_colorspace (ncomp_of cs) (header_info cs j) lossless ids = cs.
Proof. exact colorspace_roundtrip. Qed.
Print Assumptions C16_colorspace_roundtrip.

(* (the decision is the tree generated from the C text of default_decompress_parms: ddp_cases, in the order of its tests) *)
Theorem C16_colorspace_by_ids :
  decide_colorspace 3 hinfo_init false [1; 2; 3] = CS_YCbCr /\
  (forall lossless, decide_colorspace 3 hinfo_init lossless [82; 71; 66] = CS_RGB) /\
  (forall lossless ids, decide_colorspace 1 hinfo_init lossless ids = CS_GRAY) /\
  (forall lossless ids, decide_colorspace 4 hinfo_init lossless ids = CS_CMYK) /\
  (forall h lossless ids, decide_colorspace 2 h lossless ids = CS_UNKNOWN /\ decide_colorspace 5 h lossless ids = CS_UNKNOWN).
Proof. exact colorspace_by_ids. Qed.
Print Assumptions C16_colorspace_by_ids.

Theorem C16_density_roundtrip : forall cs j, writes_jfif cs = true ->
  let h := header_info cs j in
  h_saw_jfif h = true /\ h_unit h = j_unit j /\ h_xd h = j_xd j /\ h_yd h = j_yd j /\
  h_major h = j_major j /\ h_minor h = j_minor j.
Proof. exact density_roundtrip. Qed.
Print Assumptions C16_density_roundtrip.

(* T1-finite (7 levels x 5 colourspaces): tj3Get(TJPARAM_SUBSAMP) after tj3DecompressHeader = level compressed with *)
Theorem C16_subsamp_roundtrip : forall level, 0 <= level < TJ_NUMSAMP ->
  get_subsamp CS_GRAY (tj_factors level 1) = TJSAMP_GRAY /\
  forall cs n, In (cs, n) color_cases ->
    get_subsamp cs (tj_factors level n) = if level =? TJSAMP_GRAY then TJSAMP_444 else level.
Proof. exact subsamp_roundtrip. Qed.
Print Assumptions C16_subsamp_roundtrip.

(* ---- (6) copy options *)
Theorem C16_copy_policy : forall opt wj wa ms,
  copy_execute opt wj wa ms = map seg_of (filter (policy opt wj wa) ms).
Proof. exact copy_policy. Qed.
Print Assumptions C16_copy_policy.

(* T1-finite: 5 options x 256 marker codes *)
Theorem C16_copy_setup : forall opt code, 0 <= opt < 5 -> 0 <= code < 256 ->
  copy_setup opt cfg_init code = if selected opt code then COPY_SAVE_LIMIT else 0.
Proof. exact copy_setup_spec. Qed.
Print Assumptions C16_copy_setup.

Theorem C16_copy_end_to_end : forall opt wj wa segs rest, 0 <= opt < 5 ->
  Forall seg_ok segs -> Forall (fun s => Forall is_byte (snd s)) segs -> stops rest ->
  exists bytes, write_markers segs = Some bytes /\
    forall fuel, (length segs < fuel)%nat ->
      copy_pipeline opt opt wj wa fuel (bytes ++ rest)
      = Some (filter (fun s => policy opt wj wa (saved_of s)) segs).
Proof. exact copy_end_to_end. Qed.
Print Assumptions C16_copy_end_to_end.

(* (6) histories on ONE decompressor: save requests only accumulate (jcopy_markers_setup adds, tj3DecompressHeader adds
   APP2); whatever limits c0 earlier uses left behind, the markers written are the policy sub-list for the CURRENT option *)
Theorem C16_copy_setup_over_history : forall opt c0 code, 0 <= opt < 5 -> 0 <= code < 256 ->
  copy_setup opt c0 code = if selected opt code then COPY_SAVE_LIMIT else c0 code.
Proof. exact copy_setup_over_history. Qed.
Print Assumptions C16_copy_setup_over_history.

Theorem C16_copy_any_earlier_limits : forall c0 opt wj wa segs rest, (forall k, 0 <= c0 k) -> 0 <= opt < 5 ->
  Forall seg_ok segs -> Forall (fun s => Forall is_byte (snd s)) segs -> stops rest ->
  exists bytes, write_markers segs = Some bytes /\
    forall fuel, (length segs < fuel)%nat ->
      copy_pipeline_from c0 opt opt wj wa fuel (bytes ++ rest)
      = Some (filter (fun s => policy opt wj wa (saved_of s)) segs).
Proof. exact copy_end_to_end_from. Qed.
Print Assumptions C16_copy_any_earlier_limits.

Theorem C16_copy_history_independent : forall hist opt wj wa segs rest, 0 <= opt < 5 ->
  Forall seg_ok segs -> Forall (fun s => Forall is_byte (snd s)) segs -> stops rest ->
  exists bytes, write_markers segs = Some bytes /\
    forall fuel, (length segs < fuel)%nat ->
      copy_pipeline_from (history_cfg hist) opt opt wj wa fuel (bytes ++ rest)
      = Some (filter (fun s => policy opt wj wa (saved_of s)) segs).
Proof. exact copy_history_independent. Qed.
Print Assumptions C16_copy_history_independent.

(* tj3Transform + tj3SetICCProfile: never two profiles (generated fact TJ_TRANSFORM_ICC_UNCONDITIONAL = 0; this
   obligation fails to type-check if the instance profile is written unconditionally again) *)
Theorem C16_tj_transform_single_icc :
  forall sm copynone wj wa src q, let opt := tj_execute_option sm copynone in 0 <= opt < 5 ->
  (tj_icc_copied opt src = true -> tj_transform_extras sm copynone wj wa src q = copy_execute opt wj wa src) /\
  (tj_icc_copied opt src = false -> forall segs, q <> [] -> write_icc q = Some segs ->
     filter marker_is_icc (markers_of (tj_transform_extras sm copynone wj wa src q)) = filter marker_is_icc (markers_of segs)).
Proof. exact (tj_transform_single_icc eq_refl). Qed.
Print Assumptions C16_tj_transform_single_icc.

(* the former defect, kept as the statement of what a tree with TJ_TRANSFORM_ICC_UNCONDITIONAL = 1 does *)
Theorem C16_tj_transform_double_icc_if_unconditional : TJ_TRANSFORM_ICC_UNCONDITIONAL = 1 ->
  exists p q segs, write_icc p = Some segs /\
    read_icc (markers_of segs) = IccOk p /\
    read_icc (markers_of (tj_transform_extras JCOPYOPT_ALL false true false (markers_of segs) q)) = IccBogus.
Proof. exact tj_transform_double_icc_refuted. Qed.
Print Assumptions C16_tj_transform_double_icc_if_unconditional.

(* ---- round 3: ALL marker sequences, between scans, multi-transform calls, API state, traces ---- *)
(* the marker-reader state after ANY sequence of well-formed COM/APPn, DRI, DQT, DHT, SOFn markers (any order, repeated,
   overriding; header or between scans) is the abstract record apply_markers; the two fail together (second SOFn) *)
Theorem C16_marker_sequence_refines : forall c ms, (forall k, 0 <= c k) -> Forall (wf_marker c) ms ->
  forall rest, run_ends rest ->
  exists bytes, emit_amarkers ms = Some bytes /\
    forall fuel st, (length ms < fuel)%nat ->
      read_marker_seq fuel c st (bytes ++ rest)
      = match apply_markers c st ms with Some st' => Some (st', rest) | None => None end.
Proof. exact marker_sequence_refines. Qed.
Print Assumptions C16_marker_sequence_refines.

Theorem C16_last_dri_wins : forall c st ms ri, apply_markers c st (ms ++ [ADri ri]) <> None ->
  exists st', apply_markers c st (ms ++ [ADri ri]) = Some st' /\ h_restart (r_h st') = ri.
Proof. exact last_dri_wins. Qed.
Print Assumptions C16_last_dri_wins.

Theorem C16_last_dqt_wins : forall c st ms t, apply_markers c st (ms ++ [ADqt [t]]) <> None ->
  exists st', apply_markers c st (ms ++ [ADqt [t]]) = Some st' /\ r_qt st' (q_n t) = Some (to_natural (q_zz t)).
Proof. exact last_dqt_wins. Qed.
Print Assumptions C16_last_dqt_wins.

(* emit_dqt (8- or 16-bit precision chosen from the values, zigzag order from jutils.c) is read back into the same slot *)
Theorem C16_emit_dqt_reads_back : forall index natural qt rest, 0 <= index < NUM_QUANT_TBLS -> length natural = Z.to_nat DCTSIZE2 ->
  Forall (fun q => 0 <= q < 65536) natural ->
  exists body qt', emit_dqt index natural = emit_marker M_DQT ++ body /\ get_dqt qt (body ++ rest) = Some (qt', rest) /\
    qt' index = Some natural /\ forall j, j <> index -> qt' j = qt j.
Proof. exact emit_dqt_reads_back. Qed.
Print Assumptions C16_emit_dqt_reads_back.

(* one tj3Transform call, several transforms: each output gets the policy sub-list of ITS OWN option and the instance
   profile unless THAT transform copied an ICC-looking APP2 marker (per-transform iccCopied) *)
Theorem C16_tj_multi_transform : forall sm wj wa segs rest icc_buf, 0 <= sm < 5 ->
  Forall seg_ok segs -> Forall (fun s => Forall is_byte (snd s)) segs -> stops rest ->
  exists bytes, write_markers segs = Some bytes /\
    forall flags fuel, (length segs < fuel)%nat ->
      tj_transform_multi sm flags wj wa fuel (bytes ++ rest) icc_buf
      = Some (map (fun copynone : bool =>
                     if copynone then instance_part icc_buf
                     else filter (fun s => policy sm wj wa (saved_of s)) segs
                          ++ (if source_icc_copied sm segs then [] else instance_part icc_buf)) flags).
Proof. exact (tj_multi_transform eq_refl). Qed.
Print Assumptions C16_tj_multi_transform.

(* every output of tj3Transform, whole header: after SOI the library's JFIF/Adobe marker then the documented extras, as
   ordinary segments; re-reading it under ANY save limits gives exactly those markers in that order *)
Theorem C16_tj_output_rereadable : forall c cs j extras rest, jfif_ok j -> (forall k, 0 <= c k) ->
  Forall seg_ok extras -> stops rest ->
  exists lb eb, write_markers (lib_segs cs j) = Some lb /\ write_markers extras = Some eb /\
    emit_file_header cs j ++ eb = emit_marker M_SOI ++ lb ++ eb /\
    forall fuel h acc, (length (lib_segs cs j ++ extras) < fuel)%nat ->
      exists h', read_app_markers fuel c h acc ((lb ++ eb) ++ rest)
                 = Some (h', acc ++ flat_map (saved_under c) (lib_segs cs j ++ extras), rest).
Proof. exact tj_output_rereadable. Qed.
Print Assumptions C16_tj_output_rereadable.

(* the ICC profile of every output of a multi-transform call: the source's -- however it is cut into APP2 chunks, in
   whatever order -- when that transform copies APP2, else the instance's; byte-identical *)
Theorem C16_tj_transform_icc_roundtrip :
  forall sm wj wa segs rest srt n junk, 0 <= sm < 5 ->
  Forall seg_ok segs -> Forall (fun s => Forall is_byte (snd s)) segs -> stops rest ->
  Permutation (filter marker_is_icc (map saved_of segs)) srt -> well_numbered n srt -> concat (map icc_payload srt) <> [] ->
  exists bytes, write_markers segs = Some bytes /\
    forall flags fuel, (length segs < fuel)%nat ->
    forall q qsegs, 1 <= Zlength q <= 255 * MAXD -> write_icc q = Some qsegs ->
    exists outs, tj_transform_multi sm flags wj wa fuel (bytes ++ rest) q = Some outs /\ length outs = length flags /\
      forall i, (i < length flags)%nat ->
        read_icc_with junk (markers_of (nth i outs [])) =
        IccOk (if negb (nth i flags false) && copies_app2 sm then concat (map icc_payload srt) else q).
Proof. exact (tj_transform_icc_roundtrip eq_refl). Qed.
Print Assumptions C16_tj_transform_icc_roundtrip.

(* bytes written for a profile = its length + 18 per APP2 marker = the ICC term of tj3TransformBufSize *)
Theorem C16_icc_written_size : forall p, 1 <= Zlength p <= 255 * MAXD ->
  exists segs b, write_icc p = Some segs /\ write_markers segs = Some b /\
    Zlength b = Zlength p + TJ_BUFSIZE_ICC_PER_MARKER * icc_num_markers (Zlength p) /\
    Zlength b = tj_bufsize_icc 0 false 0 0 (Zlength p).
Proof. exact icc_written_size. Qed.
Print Assumptions C16_icc_written_size.

(* jpeg_write_marker / jpeg_write_m_header: accepted exactly between jpeg_start_compress / jpeg_write_coefficients and the
   first scanline; then the 65533 limit *)
Theorem C16_write_marker_state : forall gs ns s,
  (marker_write_allowed gs ns = false -> jpeg_write_marker_api gs ns s = WBadState) /\
  (marker_write_allowed gs ns = true -> Zlength (snd s) <= WRITE_MARKER_MAX_DATALEN ->
     jpeg_write_marker_api gs ns s = WOk (emit_marker (fst s) ++ emit_2bytes (Zlength (snd s) + 2) ++ map byte_of (snd s))) /\
  (marker_write_allowed gs ns = true -> WRITE_MARKER_MAX_DATALEN < Zlength (snd s) -> jpeg_write_marker_api gs ns s = WBadLength).
Proof. exact write_marker_state. Qed.
Print Assumptions C16_write_marker_state.
Theorem C16_marker_write_allowed_iff : forall gs ns, marker_write_allowed gs ns = true <->
  ns = 0 /\ (gs = CSTATE_SCANNING \/ gs = CSTATE_RAW_OK \/ gs = CSTATE_WRCOEFS).
Proof. exact marker_write_allowed_iff. Qed.
Print Assumptions C16_marker_write_allowed_iff.

(* the piecemeal API used as documented (header, then exactly datalen bytes) = jpeg_write_marker; the documented
   precondition (a byte only inside an open budget, a new marker only outside) is explicit in the model *)
Theorem C16_mapi_piecemeal_equiv : forall gs ns m data out, marker_write_allowed gs ns = true -> Zlength data <= WRITE_MARKER_MAX_DATALEN ->
  mapi_run gs ns (mkMapi 0 out) (CHeader m (Zlength data) :: map CByte data) = mapi_run gs ns (mkMapi 0 out) [CMarker (m, data)] /\
  mapi_run gs ns (mkMapi 0 out) [CMarker (m, data)] = Some (mkMapi 0 (out ++ emit_marker m ++ emit_2bytes (Zlength data + 2) ++ map byte_of data)).
Proof. exact mapi_piecemeal_equiv. Qed.
Print Assumptions C16_mapi_piecemeal_equiv.
Theorem C16_mapi_preconditions : forall gs ns out n v s m k, 0 < n ->
  mapi_step gs ns (mkMapi 0 out) (CByte v) = None /\
  mapi_step gs ns (mkMapi n out) (CMarker s) = None /\ mapi_step gs ns (mkMapi n out) (CHeader m k) = None.
Proof. exact mapi_preconditions. Qed.
Print Assumptions C16_mapi_preconditions.

(* the library's own JFIF marker is traced as a thumbnail-free marker of consistent size; JFXX markers by extension code *)
Theorem C16_jfif_trace : forall c j, jfif_ok j -> cfg_wf c ->
  trace_marker c M_APP0 (jfif_data j) =
  (if j_major j =? 1 then [] else [WarnJfifMajor (j_major j) (j_minor j)])
  ++ [TrJfif (j_major j) (j_minor j) (j_xd j) (j_yd j) (j_unit j)].
Proof. exact jfif_trace. Qed.
Print Assumptions C16_jfif_trace.
Theorem C16_jfxx_trace : forall ext extra, is_byte ext ->
  trace_app0 (jfxx_sig ++ ext :: extra) (6 + Zlength extra) (6 + Zlength extra) =
  if ext =? 16 then [TrThumbJpeg (6 + Zlength extra)] else if ext =? 17 then [TrThumbPalette (6 + Zlength extra)]
  else if ext =? 19 then [TrThumbRgb (6 + Zlength extra)] else [TrJfifExt ext (6 + Zlength extra)].
Proof. exact jfxx_trace. Qed.
Print Assumptions C16_jfxx_trace.

(* ---- round 4: the marker scanner itself (jdmarker.c next_marker / first_marker), on EVERY byte string.  Terminates
   (structural recursion); returns the first FF m with m not in {00, FF} at or after the cursor; consumes exactly up to it;
   discarded_bytes = non-FF bytes skipped + one more per stuffed zero (FF fill bytes are not counted); no marker = data ran out *)
Theorem C16_next_marker_spec : forall bs,
  match next_marker_full bs with
  | Some (m, d, rest) =>
      exists pre, bs = pre ++ 255 :: m :: rest /\ m <> 0 /\ m <> 255 /\
                  clean false (pre ++ [255]) /\
                  d = nonff pre + stuffed false pre /\
                  length bs = (length pre + 2 + length rest)%nat
  | None => clean false bs
  end.
Proof. exact next_marker_spec. Qed.
Print Assumptions C16_next_marker_spec.
Theorem C16_first_marker_spec : forall bs,
  (forall r, first_marker bs = FOk r <-> bs = 255 :: M_SOI :: r) /\ (first_marker bs = FSuspend <-> (length bs < 2)%nat).
Proof. exact first_marker_spec. Qed.
Print Assumptions C16_first_marker_spec.
Example C16_ex_scan_junk : next_marker_full [1; 2; 255; 255; 0; 7; 255; 255; 254; 0; 2] = Some (254, 5, [0; 2]).
Proof. exact ex_scan_junk. Qed.

(* ---- non-vacuity: the hypotheses above are satisfiable by concrete non-trivial values *)
Example C16_ex_icc_two_segments : ex_two_check = true.
Proof. exact ex_two_check_true. Qed.
(* regression cases of the two fixed defects, on the model *)
Example C16_ex_sos_lossless_regression :
  get_sos [1; 2; 3] (skipn 2 (emit_sos true [1; 2; 3] (mkScan [mkScomp 0 0 0; mkScomp 1 1 1; mkScomp 2 1 1] 1 0 0 0)))
  = Some (mkScan [mkScomp 0 0 0; mkScomp 1 1 0; mkScomp 2 1 0] 1 0 0 0, []).
Proof. exact ex_sos_lossless_regression. Qed.
Example C16_ex_tj_transform_regression :
  match write_icc [1] with
  | Some segs => match read_icc (markers_of (tj_transform_extras JCOPYOPT_ALL false true false (markers_of segs) [2])) with
                 | IccOk p => zlist_eqb p [1] | _ => false end
  | None => false
  end = true.
Proof. exact tj_transform_regression_check. Qed.
(* a stream cut right after a length word, and a wider-then-narrower history *)
Example C16_ex_chunking :
  let segs := [(M_COM, [65; 66; 67]); (M_APP0 + 3, [1; 2; 3; 4; 5])] in
  let c := jpeg_save_markers (jpeg_save_markers cfg_init M_COM 65535) (M_APP0 + 3) 2 in
  let stream := segs_bytes segs ++ [255; M_DQT] in
  map (fun m => (sm_code m, sm_orig m, sm_data m))
      (ss_acc (fst (susp_run 100 c (mkSstate hinfo_init [] PIdle 0) [] [firstn 4 stream; firstn 7 (skipn 4 stream); skipn 11 stream])))
  = [(M_COM, 3, [65; 66; 67]); (M_APP0 + 3, 5, [1; 2])].
Proof. exact ex_chunking. Qed.
Example C16_ex_history_wider : history_cfg [HSetup JCOPYOPT_ALL] (JPEG_APP0 + 2) = COPY_SAVE_LIMIT /\
  selected JCOPYOPT_COMMENTS (JPEG_APP0 + 2) = false.
Proof. exact ex_history_wider. Qed.
Example C16_ex_icc_bad :
  let a := mkSaved M_APP2 17 (icc_sig_writer ++ [1; 2; 9; 9; 9]) in
  let b := mkSaved M_APP2 15 (icc_sig_writer ++ [1; 2; 7]) in
  filter marker_is_icc [a; b] <> [] /\ ~ NoDup (map icc_seq (filter marker_is_icc [a; b])) /\
  read_icc [a; b] = IccBogus.
Proof. exact ex_icc_bad. Qed.
Example C16_ex_markers :
  Forall seg_ok [(M_COM, [104; 105]); (M_APP0 + 1, [1; 2; 3; 4; 5])] /\ stops [255; M_DQT; 0; 2] /\
  cfg_wf (jpeg_save_markers (jpeg_save_markers cfg_init M_COM 1) (M_APP0 + 1) 65535).
Proof. exact ex_markers. Qed.
Example C16_ex_frame : frame_ok (mkFrame 8 65535 65535 [mkComp 1 2 2 0; mkComp 2 1 1 1; mkComp 3 1 1 1]).
Proof. exact ex_frame. Qed.
Example C16_ex_scan : NoDup [1; 2; 3] /\ Forall is_byte [1; 2; 3] /\
  scan_ok [1; 2; 3] (mkScan [mkScomp 0 0 0; mkScomp 1 1 1; mkScomp 2 1 1] 0 63 0 0) /\
  scan_ok [1; 2; 3] (mkScan [mkScomp 0 0 0; mkScomp 1 0 0; mkScomp 2 0 0] 7 0 0 15).
Proof. exact ex_scan. Qed.
Example C16_ex_jfif : jfif_ok (mkJfif 1 2 1 300 65535).
Proof. exact ex_jfif. Qed.
