(* C16 -- property theorems only: statement + exact + Print Assumptions. *)
From Coq Require Import List ZArith.
From LJT Require Import gen.GenIccConst model.MarkerRT model.Icc model.CopyMarkers proofs.C16Consts.
Import ListNotations.
Local Open Scope Z_scope.

(* the writer and the reader of the tree use the same marker code, identifier and layout *)
Theorem C16_constants_agree :
  W_ICC_MARKER = R_ICC_MARKER /\ W_ICC_OVERHEAD_LEN = R_ICC_OVERHEAD_LEN /\
  icc_sig_writer = icc_sig_reader /\
  Z.of_nat (length icc_sig_writer) + 2 = W_ICC_OVERHEAD_LEN /\
  R_ICC_SEQ_INDEX = Z.of_nat (length icc_sig_reader) /\
  R_ICC_COUNT_INDEX = Z.of_nat (length icc_sig_reader) + 1 /\
  W_ICC_MARKER = JPEG_APP0 + 2 /\ M_APP0 = JPEG_APP0 /\ M_COM = JPEG_COM /\ M_APP15 = JPEG_APP0 + 15 /\
  M_APP14 = JPEG_APP0 + 14.
Proof. exact consts_writer_reader_agree. Qed.
Print Assumptions C16_constants_agree.
