(* C19 -- property theorems only: statement + exact + Print Assumptions.
   Model: model/Huff.v (jchuff.c jpeg_gen_optimal_table / jpeg_make_c_derived_tbl,
   jdhuff.c jpeg_make_d_derived_tbl / jpeg_huff_decode / HUFF_DECODE look-ahead,
   jpeg_nbits.h).  Generated facts: gen/GenNbits.v, gen/GenStdHuff.v. *)
From Coq Require Import List ZArith Bool.
From LJT Require Import model.Huff gen.GenNbits gen.GenStdHuff proofs.NbitsProofs proofs.HuffCodeProofs.
Local Open Scope Z_scope.

(* bit-length function: floor(log2 x)+1 for every x >= 1 (unbounded), 0 for 0, and
   both tables in the tree implement it on all 65536 magnitudes *)
Theorem C19_nbits_correct : forall x,
  (0 < x -> nbits x = Z.log2 x + 1) /\ (x = 0 -> nbits x = 0) /\
  (0 <= x < 65536 -> run_lookup nbits_runs_c x = nbits x /\ run_lookup nbits_runs_asm x = nbits x).
Proof. exact nbits_correct_all. Qed.
Print Assumptions C19_nbits_correct.

(* encoder-side and decoder-side tables derived from ANY table accepted by the
   validators are mutual inverses: the bit-serial decoder (Figure F.16 loop)
   applied to the code word of sym followed by arbitrary further bits returns
   sym, consumes exactly the code word and raises no bad-code warning *)
Theorem C19_c_d_tables_inverse :
  forall bits vals maxsym isDC maxdc ct dt sym code rest,
  length bits = 17%nat ->
  make_c_derived bits vals maxsym = Some ct ->
  make_d_derived bits vals isDC maxdc = Some dt ->
  encode_sym ct sym = Some code ->
  0 <= sym <= 255 ->
  decode_serial dt 1 (code ++ rest) = Some (sym, false, rest).
Proof. exact c_d_tables_inverse. Qed.
Print Assumptions C19_c_d_tables_inverse.

(* ... and so does the HUFF_LOOKAHEAD = 8 table path of HUFF_DECODE (table hit,
   9-bit slow path on a miss, and the fewer-than-8-bits fallback) *)
Theorem C19_lookahead_inverse :
  forall bits vals maxsym isDC maxdc ct dt sym code rest,
  length bits = 17%nat ->
  make_c_derived bits vals maxsym = Some ct ->
  make_d_derived bits vals isDC maxdc = Some dt ->
  encode_sym ct sym = Some code ->
  0 <= sym <= 255 ->
  decode_lookahead dt (code ++ rest) = Some (sym, false, rest).
Proof. exact lookahead_eq_serial. Qed.
Print Assumptions C19_lookahead_inverse.

(* non-vacuity + regenerated fact: the four tables of jstdhuff.c (as they are in
   the tree now) pass both validators, and each of their symbols has a code *)
Theorem C19_std_tables_accepted :
  forallb (fun t : bool * list Z * list Z => match t with
           | (isDC, b, v) =>
               (length b =? 17)%nat &&
               match make_c_derived b v (if isDC then 15 else 255), make_d_derived b v isDC 15 with
               | Some _, Some _ => true
               | _, _ => false
               end
           end) std_tables = true.
Proof. exact std_tables_accepted. Qed.
Print Assumptions C19_std_tables_accepted.
