(* C19 -- property theorems only: statement + exact + Print Assumptions. *)
From Coq Require Import List ZArith.
From LJT Require Import model.Huff gen.GenNbits proofs.NbitsProofs.
Local Open Scope Z_scope.

(* bit-length function: floor(log2 x)+1 for every x >= 1 (unbounded), 0 for 0, and
   both tables in the tree implement it on all 65536 magnitudes *)
Theorem C19_nbits_correct : forall x,
  (0 < x -> nbits x = Z.log2 x + 1) /\ (x = 0 -> nbits x = 0) /\
  (0 <= x < 65536 -> run_lookup nbits_runs_c x = nbits x /\ run_lookup nbits_runs_asm x = nbits x).
Proof. exact nbits_correct_all. Qed.
Print Assumptions C19_nbits_correct.
