(* C19 -- property theorems only: statement + exact + Print Assumptions.
   Model: model/Huff.v (jchuff.c jpeg_gen_optimal_table / jpeg_make_c_derived_tbl,
   jdhuff.c jpeg_make_d_derived_tbl / jpeg_huff_decode / HUFF_DECODE look-ahead,
   jpeg_nbits.h).  Generated facts: gen/GenNbits.v, gen/GenStdHuff.v. *)
From Coq Require Import List ZArith Bool Permutation.
From LJT Require Import model.Huff gen.GenNbits gen.GenStdHuff proofs.NbitsProofs proofs.HuffCodeProofs
  proofs.HuffGenProofs3 proofs.HuffGenProofs4 proofs.HuffGenDepth.
Import ListNotations.
Local Open Scope Z_scope.

(* bit-length function: floor(log2 x)+1 for every x >= 1 (unbounded), 0 for 0, and
   both tables in the tree implement it on all 65536 magnitudes *)
Theorem C19_nbits_correct : forall x,
  (0 < x -> nbits x = Z.log2 x + 1) /\ (x = 0 -> nbits x = 0) /\
  (0 <= x < 65536 -> run_lookup nbits_runs_c x = nbits x /\ run_lookup nbits_runs_asm x = nbits x).
Proof. exact nbits_correct_all. Qed.
Print Assumptions C19_nbits_correct.

(* encoder-side and decoder-side tables derived from ANY table accepted by the
   validators are mutual inverses: the bit-serial decoder (Figure F.16 loop)
   applied to the code word of sym followed by arbitrary further bits returns
   sym, consumes exactly the code word and raises no bad-code warning *)
Theorem C19_c_d_tables_inverse :
  forall bits vals maxsym isDC maxdc ct dt sym code rest,
  length bits = 17%nat ->
  make_c_derived bits vals maxsym = Some ct ->
  make_d_derived bits vals isDC maxdc = Some dt ->
  encode_sym ct sym = Some code ->
  0 <= sym <= 255 ->
  decode_serial dt 1 (code ++ rest) = Some (sym, false, rest).
Proof. exact c_d_tables_inverse. Qed.
Print Assumptions C19_c_d_tables_inverse.

(* ... and so does the HUFF_LOOKAHEAD = 8 table path of HUFF_DECODE (table hit,
   9-bit slow path on a miss, and the fewer-than-8-bits fallback) *)
Theorem C19_lookahead_inverse :
  forall bits vals maxsym isDC maxdc ct dt sym code rest,
  length bits = 17%nat ->
  make_c_derived bits vals maxsym = Some ct ->
  make_d_derived bits vals isDC maxdc = Some dt ->
  encode_sym ct sym = Some code ->
  0 <= sym <= 255 ->
  decode_lookahead dt (code ++ rest) = Some (sym, false, rest).
Proof. exact lookahead_eq_serial. Qed.
Print Assumptions C19_lookahead_inverse.

(* non-vacuity + regenerated fact: the four tables of jstdhuff.c (as they are in
   the tree now) pass both validators, and each of their symbols has a code *)
Theorem C19_std_tables_accepted :
  forallb (fun t : bool * list Z * list Z => match t with
           | (isDC, b, v) =>
               (length b =? 17)%nat &&
               match make_c_derived b v (if isDC then 15 else 255), make_d_derived b v isDC 15 with
               | Some _, Some _ => true
               | _, _ => false
               end
           end) std_tables = true.
Proof. exact std_tables_accepted. Qed.
Print Assumptions C19_std_tables_accepted.

(* ---- the optimal-table generator (jpeg_gen_optimal_table) ----
   For EVERY histogram with non-negative counts, total below 10^9 and at most 254
   symbols of non-zero count (images produce at most 226, see design/C19.md):
   the generator never runs out of fuel and never indexes below bits[0]; it either
   raises JERR_HUFF_CLEN_OVERFLOW (exactly when an untruncated code length
   exceeds MAX_CLEN = 32: known finding F15) or returns a table in which every
   symbol of non-zero count occurs exactly once with a length of 1..16 bits
   (sum bits = number of such symbols, bits[0] = 0), and whose Kraft sum is
   2^16 - 2^(16-L): exactly one unused code point of the longest length L, so
   no code is all ones.  (huffval lists symbols by non-decreasing length by the
   canonical construction itself.) *)
Theorem C19_gen_table_valid : forall freq256 : list Z,
  (forall f, In f freq256 -> 0 <= f) ->
  sumZ (firstn 256 freq256) + 1 <= SENT ->
  (length (nz_scan (firstn 256 freq256) 0) <= 254)%nat ->
  match gen_optimal_table freq256 with
  | inl ClenOverflow =>
      exists cs nz, gen_codesizes freq256 = inr (nz, cs) /\ exists c, In c cs /\ c > 32
  | inl OutOfFuel => False
  | inl IndexUnderflow => False
  | inr t =>
      let bits := h_bits t in
      let syms := map fst (nz_scan (firstn 256 freq256) 0) in
      length bits = 17%nat /\ nthZ bits 0 = 0 /\ (forall l, 0 <= nthZ bits l <= 255) /\
      sumZ (skipn 1 bits) = Z.of_nat (length syms) /\
      Permutation (h_vals t) syms /\
      (syms <> [] ->
         let L := maxlen bits in 1 <= L <= 16 /\ kraft16 bits = 2 ^ 16 - 2 ^ (16 - L))
  end.
Proof. exact gen_table_valid. Qed.
Print Assumptions C19_gen_table_valid.

(* ... and every table it returns is accepted by both table validators, so the
   inverse theorems above apply to it *)
Theorem C19_gen_table_accepted : forall freq256 t,
  (forall f, In f freq256 -> 0 <= f) ->
  sumZ (firstn 256 freq256) + 1 <= SENT ->
  (length (nz_scan (firstn 256 freq256) 0) <= 254)%nat ->
  gen_optimal_table freq256 = inr t ->
  valid_table t = true /\
  (exists ct, make_c_derived (h_bits t) (h_vals t) 255 = Some ct) /\
  (forall isDC, exists dt, make_d_derived (h_bits t) (h_vals t) isDC 255 = Some dt).
Proof. exact gen_table_accepted. Qed.
Print Assumptions C19_gen_table_accepted.

(* non-vacuity: a histogram of depth 31 (Fibonacci counts) meets the hypotheses
   and is limited to 16 bits by the K.2 loop *)
Theorem C19_gen_nonvacuous :
  hyps (fibs 31 1 2) /\
  exists t, gen_optimal_table (fibs 31 1 2) = inr t /\
            h_bits t = [0; 1; 1; 1; 1; 1; 1; 1; 1; 1; 1; 1; 0; 1; 1; 1; 17].
Proof. exact gen_table_valid_nonvacuous_deep. Qed.
Print Assumptions C19_gen_nonvacuous.

(* boundary facts (each a proved witness, so that a moved boundary is noticed):
   255 equal counts make UINT8 bits[8] wrap 256 -> 0 and the final
   "while (bits[i] == 0) i--" index below 0; 36 Fibonacci counts exceed MAX_CLEN *)
Theorem C19_uint8_wrap_boundary :
  let h := repeat 1 255 in
  (forall f, In f h -> 0 <= f) /\ sumZ (firstn 256 h) + 1 <= SENT /\
  length (nz_scan (firstn 256 h) 0) = 255%nat /\
  gen_optimal_table h = inl IndexUnderflow.
Proof. exact gen_table_uint8_wrap_sharp. Qed.
Print Assumptions C19_uint8_wrap_boundary.

Theorem C19_clen_overflow_refuted :
  hyps (fibs 36 1 2) /\ gen_optimal_table (fibs 36 1 2) = inl ClenOverflow.
Proof. exact gen_table_deep_boundary. Qed.
Print Assumptions C19_clen_overflow_refuted.

(* ---- when can the CLEN_OVERFLOW branch occur?  A code length c forces the
   total count (incl. the pseudo-symbol) to be at least fib (c + 2): greedy
   merging of the two smallest frequencies makes every subtree of depth d weigh
   at least fib (d + 2).  Hence below fib 35 = 9227465 the generator ALWAYS
   returns a valid table, and the bound is exact (witnesses below). *)
Theorem C19_gen_no_clen_overflow : forall freq256,
  (forall f, In f freq256 -> 0 <= f) ->
  sumZ (firstn 256 freq256) + 1 < 9227465 ->
  (length (nz_scan (firstn 256 freq256) 0) <= 254)%nat ->
  gen_optimal_table freq256 <> inl ClenOverflow.
Proof. exact gen_no_clen_overflow. Qed.
Print Assumptions C19_gen_no_clen_overflow.

Theorem C19_codesize_forces_fibonacci_total : forall freq256 nz cs,
  (forall f, In f freq256 -> 0 <= f) ->
  sumZ (firstn 256 freq256) + 1 <= SENT ->
  (length (nz_scan (firstn 256 freq256) 0) <= 254)%nat ->
  gen_codesizes freq256 = inr (nz, cs) ->
  forall c, In c cs -> fibz (c + 2) <= sumZ (firstn 256 freq256) + 1.
Proof. exact gen_codesizes_fib. Qed.
Print Assumptions C19_codesize_forces_fibonacci_total.

(* sharpness: total = fib 35 - 1 still yields a table (with a 32-bit untruncated
   code length among the code sizes); total = fib 35 exactly can overflow *)
Theorem C19_no_overflow_at_fib35_minus_1 :
  hyps (fibs 32 1 2) /\ sumZ (fibs 32 1 2) = 9227463 /\
  (exists nz cs, gen_codesizes (fibs 32 1 2) = inr (nz, cs) /\ In 32 cs) /\
  exists t, gen_optimal_table (fibs 32 1 2) = inr t.
Proof. exact gen_no_overflow_32. Qed.
Print Assumptions C19_no_overflow_at_fib35_minus_1.

Theorem C19_overflow_at_fib35 :
  let h := rev (fibs 33 1 1) in
  hyps h /\ sumZ (firstn 256 h) + 1 = 9227465 /\
  gen_optimal_table h = inl ClenOverflow.
Proof. exact gen_no_clen_overflow_sharp. Qed.
Print Assumptions C19_overflow_at_fib35.
