(* C19 -- property theorems only: statement + exact + Print Assumptions.
   Model: model/Huff.v (jchuff.c jpeg_gen_optimal_table / jpeg_make_c_derived_tbl,
   jdhuff.c jpeg_make_d_derived_tbl / jpeg_huff_decode / HUFF_DECODE look-ahead,
   jpeg_nbits.h).  Generated facts: gen/GenNbits.v, gen/GenStdHuff.v. *)
From Coq Require Import List ZArith Bool Permutation.
From LJT Require Import model.Huff gen.GenNbits gen.GenStdHuff proofs.NbitsProofs proofs.HuffCodeProofs
  proofs.HuffGenProofs3 proofs.HuffGenProofs4 proofs.HuffGenDepth
  gen.GenHuffGen proofs.HuffGenConst.
Import ListNotations.
Local Open Scope Z_scope.

(* bit-length function: floor(log2 x)+1 for every x >= 1 (unbounded), 0 for 0, and
   both tables in the tree implement it on all 65536 magnitudes *)
Theorem C19_nbits_correct : forall x,
  (0 < x -> nbits x = Z.log2 x + 1) /\ (x = 0 -> nbits x = 0) /\
  (0 <= x < 65536 -> run_lookup nbits_runs_c x = nbits x /\ run_lookup nbits_runs_asm x = nbits x).
Proof. exact nbits_correct_all. Qed.
Print Assumptions C19_nbits_correct.

(* encoder-side and decoder-side tables derived from ANY table accepted by the
   validators are mutual inverses: the bit-serial decoder (Figure F.16 loop)
   applied to the code word of sym followed by arbitrary further bits returns
   sym, consumes exactly the code word and raises no bad-code warning *)
Theorem C19_c_d_tables_inverse :
  forall bits vals maxsym isDC maxdc ct dt sym code rest,
  length bits = 17%nat ->
  make_c_derived bits vals maxsym = Some ct ->
  make_d_derived bits vals isDC maxdc = Some dt ->
  encode_sym ct sym = Some code ->
  0 <= sym <= 255 ->
  decode_serial dt 1 (code ++ rest) = Some (sym, false, rest).
Proof. exact c_d_tables_inverse. Qed.
Print Assumptions C19_c_d_tables_inverse.

(* ... and so does the HUFF_LOOKAHEAD = 8 table path of HUFF_DECODE (table hit,
   9-bit slow path on a miss, and the fewer-than-8-bits fallback) *)
Theorem C19_lookahead_inverse :
  forall bits vals maxsym isDC maxdc ct dt sym code rest,
  length bits = 17%nat ->
  make_c_derived bits vals maxsym = Some ct ->
  make_d_derived bits vals isDC maxdc = Some dt ->
  encode_sym ct sym = Some code ->
  0 <= sym <= 255 ->
  decode_lookahead dt (code ++ rest) = Some (sym, false, rest).
Proof. exact lookahead_eq_serial. Qed.
Print Assumptions C19_lookahead_inverse.

(* non-vacuity + regenerated fact: the four tables of jstdhuff.c (as they are in
   the tree now) pass both validators, and each of their symbols has a code *)
Theorem C19_std_tables_accepted :
  forallb (fun t : bool * list Z * list Z => match t with
           | (isDC, b, v) =>
               (length b =? 17)%nat &&
               match make_c_derived b v (if isDC then 15 else 255), make_d_derived b v isDC 15 with
               | Some _, Some _ => true
               | _, _ => false
               end
           end) std_tables = true.
Proof. exact std_tables_accepted. Qed.
Print Assumptions C19_std_tables_accepted.

(* ---- the optimal-table generator (jpeg_gen_optimal_table) ----
   For EVERY histogram with non-negative counts, total below 10^9 and at most 254
   symbols of non-zero count (images produce at most 226, see design/C19.md):
   the generator never runs out of fuel and never indexes below bits[0]; it either
   raises JERR_HUFF_CLEN_OVERFLOW (an untruncated code length above MAX_CLEN = 64;
   C19_gen_table_always_valid below shows this branch is impossible) or returns a table in which every
   symbol of non-zero count occurs exactly once with a length of 1..16 bits
   (sum bits = number of such symbols, bits[0] = 0), and whose Kraft sum is
   2^16 - 2^(16-L): exactly one unused code point of the longest length L, so
   no code is all ones.  (huffval lists symbols by non-decreasing length by the
   canonical construction itself.) *)
Theorem C19_gen_table_valid : forall freq256 : list Z,
  (forall f, In f freq256 -> 0 <= f) ->
  sumZ (firstn 256 freq256) + 1 <= SENT ->
  (length (nz_scan (firstn 256 freq256) 0) <= 254)%nat ->
  match gen_optimal_table freq256 with
  | inl ClenOverflow =>
      exists cs nz, gen_codesizes freq256 = inr (nz, cs) /\ exists c, In c cs /\ c > 64
  | inl OutOfFuel => False
  | inl IndexUnderflow => False
  | inr t =>
      let bits := h_bits t in
      let syms := map fst (nz_scan (firstn 256 freq256) 0) in
      length bits = 17%nat /\ nthZ bits 0 = 0 /\ (forall l, 0 <= nthZ bits l <= 255) /\
      sumZ (skipn 1 bits) = Z.of_nat (length syms) /\
      Permutation (h_vals t) syms /\
      (syms <> [] ->
         let L := maxlen bits in 1 <= L <= 16 /\ kraft16 bits = 2 ^ 16 - 2 ^ (16 - L))
  end.
Proof. exact gen_table_valid. Qed.
Print Assumptions C19_gen_table_valid.

(* ... and every table it returns is accepted by both table validators, so the
   inverse theorems above apply to it *)
Theorem C19_gen_table_accepted : forall freq256 t,
  (forall f, In f freq256 -> 0 <= f) ->
  sumZ (firstn 256 freq256) + 1 <= SENT ->
  (length (nz_scan (firstn 256 freq256) 0) <= 254)%nat ->
  gen_optimal_table freq256 = inr t ->
  valid_table t = true /\
  (exists ct, make_c_derived (h_bits t) (h_vals t) 255 = Some ct) /\
  (forall isDC, exists dt, make_d_derived (h_bits t) (h_vals t) isDC 255 = Some dt).
Proof. exact gen_table_accepted. Qed.
Print Assumptions C19_gen_table_accepted.

(* non-vacuity: a histogram of depth 31 (Fibonacci counts) meets the hypotheses
   and is limited to 16 bits by the K.2 loop *)
Theorem C19_gen_nonvacuous :
  hyps (fibs 31 1 2) /\
  exists t, gen_optimal_table (fibs 31 1 2) = inr t /\
            h_bits t = [0; 1; 1; 1; 1; 1; 1; 1; 1; 1; 1; 1; 0; 1; 1; 1; 17].
Proof. exact gen_table_valid_nonvacuous_deep. Qed.
Print Assumptions C19_gen_nonvacuous.

(* boundary facts (each a proved witness, so that a moved boundary is noticed):
   255 equal counts make UINT8 bits[8] wrap 256 -> 0 and the final
   "while (bits[i] == 0) i--" index below 0; 36 Fibonacci counts exceed MAX_CLEN *)
Theorem C19_uint8_wrap_boundary :
  let h := repeat 1 255 in
  (forall f, In f h -> 0 <= f) /\ sumZ (firstn 256 h) + 1 <= SENT /\
  length (nz_scan (firstn 256 h) 0) = 255%nat /\
  gen_optimal_table h = inl IndexUnderflow.
Proof. exact gen_table_uint8_wrap_sharp. Qed.
Print Assumptions C19_uint8_wrap_boundary.

Theorem C19_deep_histogram_gets_a_table :
  hyps (fibs 36 1 2) /\
  (exists nz cs, gen_codesizes (fibs 36 1 2) = inr (nz, cs) /\ In 36 cs) /\
  exists t, gen_optimal_table (fibs 36 1 2) = inr t /\
            h_bits t = [0; 1; 1; 1; 1; 1; 1; 1; 1; 1; 1; 1; 0; 0; 2; 0; 23] /\
            valid_table t = true.
Proof. exact gen_table_deep_boundary. Qed.
Print Assumptions C19_deep_histogram_gets_a_table.

(* ---- the CLEN_OVERFLOW branch is impossible.  A code length c forces the total
   count (incl. the pseudo-symbol) to be at least fib (c + 2): greedy merging of
   the two smallest frequencies makes every subtree of depth d weigh at least
   fib (d + 2).  MAX_CLEN = 64 (read from jchuff.c, C19_source_constants) would
   need a total of fib 67 > 4.4e13, the hypotheses allow 10^9.  (With the
   original MAX_CLEN = 32 the branch was reachable from fib 35 = 9227465 on:
   finding F15, repaired.) *)
Theorem C19_gen_table_always_valid : forall freq256 : list Z,
  (forall f, In f freq256 -> 0 <= f) ->
  sumZ (firstn 256 freq256) + 1 <= SENT ->
  (length (nz_scan (firstn 256 freq256) 0) <= 254)%nat ->
  exists t, gen_optimal_table freq256 = inr t /\
    good_table t (map fst (nz_scan (firstn 256 freq256) 0)) /\
    valid_table t = true /\
    (exists ct, make_c_derived (h_bits t) (h_vals t) 255 = Some ct) /\
    (forall isDC, exists dt, make_d_derived (h_bits t) (h_vals t) isDC 255 = Some dt).
Proof. exact gen_table_always_valid. Qed.
Print Assumptions C19_gen_table_always_valid.

Theorem C19_codesize_forces_fibonacci_total : forall freq256 nz cs,
  (forall f, In f freq256 -> 0 <= f) ->
  sumZ (firstn 256 freq256) + 1 <= SENT ->
  (length (nz_scan (firstn 256 freq256) 0) <= 254)%nat ->
  gen_codesizes freq256 = inr (nz, cs) ->
  forall c, In c cs -> fibz (c + 2) <= sumZ (firstn 256 freq256) + 1.
Proof. exact gen_codesizes_fib. Qed.
Print Assumptions C19_codesize_forces_fibonacci_total.

(* the Fibonacci bound is exact: total fib 35 - 1 keeps every length <= 32, total
   fib 35 reaches 33; and the deepest histogram the 10^9 limit admits (41 symbols,
   length 41) still gets a valid table *)
Theorem C19_codesizes_le_32_below_fib35 : forall freq256 nz cs,
  (forall f, In f freq256 -> 0 <= f) ->
  sumZ (firstn 256 freq256) + 1 < 9227465 ->
  (length (nz_scan (firstn 256 freq256) 0) <= 254)%nat ->
  gen_codesizes freq256 = inr (nz, cs) ->
  forall c, In c cs -> c <= 32.
Proof. exact gen_codesizes_le_32. Qed.
Print Assumptions C19_codesizes_le_32_below_fib35.

Theorem C19_fib35_bound_sharp :
  let h := rev (fibs 33 1 1) in
  hyps h /\ sumZ (firstn 256 h) + 1 = 9227465 /\
  exists nz cs, gen_codesizes h = inr (nz, cs) /\ In 33 cs.
Proof. exact gen_codesizes_le_32_sharp. Qed.
Print Assumptions C19_fib35_bound_sharp.

Theorem C19_deepest_admissible_histogram :
  hyps (fibs 41 1 2) /\ sumZ (fibs 41 1 2) = 701408731 /\ ~ hyps (fibs 42 1 2) /\
  (exists nz cs, gen_codesizes (fibs 41 1 2) = inr (nz, cs) /\ In 41 cs) /\
  exists t, gen_optimal_table (fibs 41 1 2) = inr t /\ valid_table t = true.
Proof. exact gen_table_deepest_admissible. Qed.
Print Assumptions C19_deepest_admissible_histogram.

(* the constants of the model are those of jchuff.c as it is now (regenerated) *)
Theorem C19_source_constants :
  MAX_CLEN = gen_MAX_CLEN /\ SENT = gen_SENT /\ DEAD = gen_DEAD /\
  LIMIT_LEN = gen_LIMIT_LEN /\ PSEUDO_SYM = gen_PSEUDO_SYM /\ PSEUDO_COUNT = gen_PSEUDO_COUNT /\
  S MAX_CLEN = gen_BITS_LEN /\ S LIMIT_LEN = gen_HTBL_BITS /\
  gen_clen_test_strict = true /\ SENT < DEAD /\ (LIMIT_LEN < MAX_CLEN)%nat.
Proof. exact huffgen_constants_match. Qed.
Print Assumptions C19_source_constants.
