(* C19 -- property theorems only: statement + exact + Print Assumptions.
   Model: model/Huff.v (jchuff.c jpeg_gen_optimal_table / jpeg_make_c_derived_tbl,
   jdhuff.c jpeg_make_d_derived_tbl / jpeg_huff_decode / HUFF_DECODE look-ahead,
   jpeg_nbits.h).  Generated facts: gen/GenNbits.v, gen/GenStdHuff.v. *)
From Coq Require Import List ZArith Bool Permutation.
From LJT Require Import model.Huff gen.GenNbits gen.GenStdHuff proofs.NbitsProofs proofs.HuffCodeProofs
  proofs.HuffGenProofs3 proofs.HuffGenProofs4 proofs.HuffGenDepth
  gen.GenHuffGen proofs.HuffGenConst
  model.HuffSym gen.GenHuffSym proofs.HuffSymProofs proofs.HuffBridgeProofs.
From LJT Require model.T81Spec proofs.T81BlockProofs proofs.T81HuffProofs.
From LJT Require Import model.HuffSel gen.GenHuffSel proofs.HuffSelFacts proofs.HuffLookProofs.
Import ListNotations.
Local Open Scope Z_scope.

(* bit-length function: floor(log2 x)+1 for every x >= 1 (unbounded), 0 for 0, and
   both tables in the tree implement it on all 65536 magnitudes *)
Theorem C19_nbits_correct : forall x,
  (0 < x -> nbits x = Z.log2 x + 1) /\ (x = 0 -> nbits x = 0) /\
  (0 <= x < 65536 -> run_lookup nbits_runs_c x = nbits x /\ run_lookup nbits_runs_asm x = nbits x).
Proof. exact nbits_correct_all. Qed.
Print Assumptions C19_nbits_correct.

(* encoder-side and decoder-side tables derived from ANY table accepted by the
   validators are mutual inverses: the bit-serial decoder (Figure F.16 loop)
   applied to the code word of sym followed by arbitrary further bits returns
   sym, consumes exactly the code word and raises no bad-code warning *)
Theorem C19_c_d_tables_inverse :
  forall bits vals maxsym isDC maxdc ct dt sym code rest,
  length bits = 17%nat ->
  make_c_derived bits vals maxsym = Some ct ->
  make_d_derived bits vals isDC maxdc = Some dt ->
  encode_sym ct sym = Some code ->
  0 <= sym <= 255 ->
  decode_serial dt 1 (code ++ rest) = Some (sym, false, rest).
Proof. exact c_d_tables_inverse. Qed.
Print Assumptions C19_c_d_tables_inverse.

(* ... and so does the HUFF_LOOKAHEAD = 8 table path of HUFF_DECODE (table hit,
   9-bit slow path on a miss, and the fewer-than-8-bits fallback) *)
Theorem C19_lookahead_inverse :
  forall bits vals maxsym isDC maxdc ct dt sym code rest,
  length bits = 17%nat ->
  make_c_derived bits vals maxsym = Some ct ->
  make_d_derived bits vals isDC maxdc = Some dt ->
  encode_sym ct sym = Some code ->
  0 <= sym <= 255 ->
  decode_lookahead dt (code ++ rest) = Some (sym, false, rest).
Proof. exact lookahead_eq_serial. Qed.
Print Assumptions C19_lookahead_inverse.

(* non-vacuity + regenerated fact: the four tables of jstdhuff.c (as they are in
   the tree now) pass both validators, and each of their symbols has a code *)
Theorem C19_std_tables_accepted :
  forallb (fun t : bool * list Z * list Z => match t with
           | (isDC, b, v) =>
               (length b =? 17)%nat &&
               match make_c_derived b v (if isDC then 15 else 255), make_d_derived b v isDC 15 with
               | Some _, Some _ => true
               | _, _ => false
               end
           end) std_tables = true.
Proof. exact std_tables_accepted. Qed.
Print Assumptions C19_std_tables_accepted.

(* ---- the optimal-table generator (jpeg_gen_optimal_table) ----
   For EVERY histogram with non-negative counts, total below 10^9 and at most 254
   symbols of non-zero count (images produce at most 226, see design/C19.md):
   the generator never runs out of fuel and never indexes below bits[0]; it either
   raises JERR_HUFF_CLEN_OVERFLOW (an untruncated code length above MAX_CLEN = 64;
   C19_gen_table_always_valid below shows this branch is impossible) or returns a table in which every
   symbol of non-zero count occurs exactly once with a length of 1..16 bits
   (sum bits = number of such symbols, bits[0] = 0), and whose Kraft sum is
   2^16 - 2^(16-L): exactly one unused code point of the longest length L, so
   no code is all ones.  (huffval lists symbols by non-decreasing length by the
   canonical construction itself.) *)
Theorem C19_gen_table_valid : forall freq256 : list Z,
  (forall f, In f freq256 -> 0 <= f) ->
  sumZ (firstn 256 freq256) + 1 <= SENT ->
  (length (nz_scan (firstn 256 freq256) 0) <= 254)%nat ->
  match gen_optimal_table freq256 with
  | inl ClenOverflow =>
      exists cs nz, gen_codesizes freq256 = inr (nz, cs) /\ exists c, In c cs /\ c > 64
  | inl OutOfFuel => False
  | inl IndexUnderflow => False
  | inr t =>
      let bits := h_bits t in
      let syms := map fst (nz_scan (firstn 256 freq256) 0) in
      length bits = 17%nat /\ nthZ bits 0 = 0 /\ (forall l, 0 <= nthZ bits l <= 255) /\
      sumZ (skipn 1 bits) = Z.of_nat (length syms) /\
      Permutation (h_vals t) syms /\
      (syms <> [] ->
         let L := maxlen bits in 1 <= L <= 16 /\ kraft16 bits = 2 ^ 16 - 2 ^ (16 - L))
  end.
Proof. exact gen_table_valid. Qed.
Print Assumptions C19_gen_table_valid.

(* ... and every table it returns is accepted by both table validators, so the
   inverse theorems above apply to it *)
Theorem C19_gen_table_accepted : forall freq256 t,
  (forall f, In f freq256 -> 0 <= f) ->
  sumZ (firstn 256 freq256) + 1 <= SENT ->
  (length (nz_scan (firstn 256 freq256) 0) <= 254)%nat ->
  gen_optimal_table freq256 = inr t ->
  valid_table t = true /\
  (exists ct, make_c_derived (h_bits t) (h_vals t) 255 = Some ct) /\
  (forall isDC, exists dt, make_d_derived (h_bits t) (h_vals t) isDC 255 = Some dt).
Proof. exact gen_table_accepted. Qed.
Print Assumptions C19_gen_table_accepted.

(* non-vacuity: a histogram of depth 31 (Fibonacci counts) meets the hypotheses
   and is limited to 16 bits by the K.2 loop *)
Theorem C19_gen_nonvacuous :
  hyps (fibs 31 1 2) /\
  exists t, gen_optimal_table (fibs 31 1 2) = inr t /\
            h_bits t = [0; 1; 1; 1; 1; 1; 1; 1; 1; 1; 1; 1; 0; 1; 1; 1; 17].
Proof. exact gen_table_valid_nonvacuous_deep. Qed.
Print Assumptions C19_gen_nonvacuous.

(* boundary facts (each a proved witness, so that a moved boundary is noticed):
   255 equal counts make UINT8 bits[8] wrap 256 -> 0 and the final
   "while (bits[i] == 0) i--" index below 0; 36 Fibonacci counts exceed MAX_CLEN *)
Theorem C19_uint8_wrap_boundary :
  let h := repeat 1 255 in
  (forall f, In f h -> 0 <= f) /\ sumZ (firstn 256 h) + 1 <= SENT /\
  length (nz_scan (firstn 256 h) 0) = 255%nat /\
  gen_optimal_table h = inl IndexUnderflow.
Proof. exact gen_table_uint8_wrap_sharp. Qed.
Print Assumptions C19_uint8_wrap_boundary.

Theorem C19_deep_histogram_gets_a_table :
  hyps (fibs 36 1 2) /\
  (exists nz cs, gen_codesizes (fibs 36 1 2) = inr (nz, cs) /\ In 36 cs) /\
  exists t, gen_optimal_table (fibs 36 1 2) = inr t /\
            h_bits t = [0; 1; 1; 1; 1; 1; 1; 1; 1; 1; 1; 1; 0; 0; 2; 0; 23] /\
            valid_table t = true.
Proof. exact gen_table_deep_boundary. Qed.
Print Assumptions C19_deep_histogram_gets_a_table.

(* ---- the CLEN_OVERFLOW branch is impossible.  A code length c forces the total
   count (incl. the pseudo-symbol) to be at least fib (c + 2): greedy merging of
   the two smallest frequencies makes every subtree of depth d weigh at least
   fib (d + 2).  MAX_CLEN = 64 (read from jchuff.c, C19_source_constants) would
   need a total of fib 67 > 4.4e13, the hypotheses allow 10^9.  (With the
   original MAX_CLEN = 32 the branch was reachable from fib 35 = 9227465 on:
   finding F15, repaired.) *)
Theorem C19_gen_table_always_valid : forall freq256 : list Z,
  (forall f, In f freq256 -> 0 <= f) ->
  sumZ (firstn 256 freq256) + 1 <= SENT ->
  (length (nz_scan (firstn 256 freq256) 0) <= 254)%nat ->
  exists t, gen_optimal_table freq256 = inr t /\
    good_table t (map fst (nz_scan (firstn 256 freq256) 0)) /\
    valid_table t = true /\
    (exists ct, make_c_derived (h_bits t) (h_vals t) 255 = Some ct) /\
    (forall isDC, exists dt, make_d_derived (h_bits t) (h_vals t) isDC 255 = Some dt).
Proof. exact gen_table_always_valid. Qed.
Print Assumptions C19_gen_table_always_valid.

Theorem C19_codesize_forces_fibonacci_total : forall freq256 nz cs,
  (forall f, In f freq256 -> 0 <= f) ->
  sumZ (firstn 256 freq256) + 1 <= SENT ->
  (length (nz_scan (firstn 256 freq256) 0) <= 254)%nat ->
  gen_codesizes freq256 = inr (nz, cs) ->
  forall c, In c cs -> fibz (c + 2) <= sumZ (firstn 256 freq256) + 1.
Proof. exact gen_codesizes_fib. Qed.
Print Assumptions C19_codesize_forces_fibonacci_total.

(* the Fibonacci bound is exact: total fib 35 - 1 keeps every length <= 32, total
   fib 35 reaches 33; and the deepest histogram the 10^9 limit admits (41 symbols,
   length 41) still gets a valid table *)
Theorem C19_codesizes_le_32_below_fib35 : forall freq256 nz cs,
  (forall f, In f freq256 -> 0 <= f) ->
  sumZ (firstn 256 freq256) + 1 < 9227465 ->
  (length (nz_scan (firstn 256 freq256) 0) <= 254)%nat ->
  gen_codesizes freq256 = inr (nz, cs) ->
  forall c, In c cs -> c <= 32.
Proof. exact gen_codesizes_le_32. Qed.
Print Assumptions C19_codesizes_le_32_below_fib35.

Theorem C19_fib35_bound_sharp :
  let h := rev (fibs 33 1 1) in
  hyps h /\ sumZ (firstn 256 h) + 1 = 9227465 /\
  exists nz cs, gen_codesizes h = inr (nz, cs) /\ In 33 cs.
Proof. exact gen_codesizes_le_32_sharp. Qed.
Print Assumptions C19_fib35_bound_sharp.

Theorem C19_deepest_admissible_histogram :
  hyps (fibs 41 1 2) /\ sumZ (fibs 41 1 2) = 701408731 /\ ~ hyps (fibs 42 1 2) /\
  (exists nz cs, gen_codesizes (fibs 41 1 2) = inr (nz, cs) /\ In 41 cs) /\
  exists t, gen_optimal_table (fibs 41 1 2) = inr t /\ valid_table t = true.
Proof. exact gen_table_deepest_admissible. Qed.
Print Assumptions C19_deepest_admissible_histogram.

(* the constants of the model are those of jchuff.c as it is now (regenerated) *)
Theorem C19_source_constants :
  MAX_CLEN = gen_MAX_CLEN /\ SENT = gen_SENT /\ DEAD = gen_DEAD /\
  LIMIT_LEN = gen_LIMIT_LEN /\ PSEUDO_SYM = gen_PSEUDO_SYM /\ PSEUDO_COUNT = gen_PSEUDO_COUNT /\
  S MAX_CLEN = gen_BITS_LEN /\ S LIMIT_LEN = gen_HTBL_BITS /\
  gen_clen_test_strict = true /\ SENT < DEAD /\ (LIMIT_LEN < MAX_CLEN)%nat.
Proof. exact huffgen_constants_match. Qed.
Print Assumptions C19_source_constants.

(* ---- round 3: which histograms an image can produce; agreement with the
   independent Annex C reading of C04 (T81Spec) ---- *)
Module T := T81Spec.

(* the guards and constants of the statistics-gathering code (htest_one_block, jcphuff.c emit sites, jclhuff.c) used by the symbol models = those of the source now (gen/GenHuffSym.v) *)
Theorem C19_symbol_source_constants :
  COEF_BITS_EXTRA = gen_seq_COEF_BITS_EXTRA /\ COEF_BITS_EXTRA = gen_progdc_COEF_BITS_EXTRA /\
  COEF_BITS_EXTRA = gen_first_COEF_BITS_EXTRA /\
  DC_EXTRA = gen_seq_DC_EXTRA /\ DC_EXTRA = gen_progdc_DC_EXTRA /\
  ZRL = gen_seq_ZRL /\ ZRL = gen_first_ZRL /\ ZRL = gen_refine_ZRL /\ EOB = gen_seq_EOB /\
  RUN_SHIFT = gen_seq_RUN_SHIFT /\ RUN_SHIFT = gen_first_RUN_SHIFT /\
  RUN_SHIFT = gen_refine_RUN_SHIFT /\ RUN_SHIFT = gen_eobrun_SHIFT /\
  RUN_MAX = gen_seq_RUN_MAX /\ RUN_MAX = gen_first_RUN_MAX /\ RUN_MAX = gen_refine_RUN_MAX /\
  ZRL_RUN = gen_seq_ZRL_RUN /\ ZRL_RUN = gen_first_ZRL_RUN /\ ZRL_RUN = gen_refine_ZRL_RUN /\
  EOBRUN_LIMIT = gen_first_EOBRUN_LIMIT /\ EOBRUN_LIMIT = gen_refine_EOBRUN_LIMIT /\
  EOBRUN_NBITS_MAX = gen_EOBRUN_NBITS_MAX /\ MAX_CORR_BITS = gen_MAX_CORR_BITS /\
  DCTSIZE2 = gen_DCTSIZE2 /\ MAX_DIFF_BITS = gen_MAX_DIFF_BITS /\
  DIFF_SIGN = gen_DIFF_SIGN /\ DIFF_MASK = gen_DIFF_MASK /\
  NCOUNTS = gen_seq_NCOUNTS /\ NCOUNTS = gen_prog_NCOUNTS /\ NCOUNTS = gen_lossless_NCOUNTS /\
  lossy_precisions = gen_lossy_precisions /\ JPEG_MAX_DIMENSION = gen_JPEG_MAX_DIMENSION /\
  MAX_DIFF_BITS = gen_lossless_prec_hi.
Proof. exact huffsym_constants_match. Qed.
Print Assumptions C19_symbol_source_constants.

(* sequential statistics pass: for ALL coefficient values the ERREXIT guards let through, one block counts 1 DC symbol of the DC class and at most 63 AC symbols of the AC class *)
Theorem C19_seq_block_symbols :
  forall prec last_dc zz s a,
  max_coef_bits prec <= 15 -> length zz = 64%nat ->
  htest_one_block prec last_dc zz = Some (s, a) ->
  okc (CDc prec) s /\ Forall (okc (CAcSeq prec)) a /\ (length a <= 63)%nat.
Proof. exact htest_one_block_ok. Qed.
Print Assumptions C19_seq_block_symbols.

(* progressive DC first pass: every counted symbol is in the DC class *)
Theorem C19_prog_dc_symbols :
  forall prec Al coef last_dc s ld',
  dc_first_symbol prec Al coef last_dc = Some (s, ld') -> okc (CDc prec) s.
Proof. exact dc_first_symbol_ok. Qed.
Print Assumptions C19_prog_dc_symbols.

(* progressive AC first/refine passes: any interleaving of MCUs and EOBRUN flushes from EOBRUN = 0 counts only symbols of the progressive AC class (EOBn, ZRL, run/size) and keeps 0 <= EOBRUN < 0x7FFF *)
Theorem C19_prog_ac_symbols :
  forall prec ops st out st',
  max_coef_bits prec <= 15 -> 1 <= max_coef_bits prec ->
  Forall (op_ok prec) ops -> pinv st ->
  pop_run st ops = Some (out, st') ->
  Forall (okc (CAcProg prec)) out /\ pinv st'.
Proof. exact pop_run_ok. Qed.
Print Assumptions C19_prog_ac_symbols.

(* lossless pass: every difference (any integer) is counted in category 0..16 *)
Theorem C19_lossless_symbols :
  forall diff,
  exists s, lossless_symbol diff = Some s /\ okc CLossless s.
Proof. exact lossless_symbol_ok. Qed.
Print Assumptions C19_lossless_symbols.

(* histograms that arise from an image: for each of the seven table classes and fewer than 10^9 counted symbols, at most |class| <= 240 symbols are non-zero and the generator returns a good, valid table accepted by both derived-table builders (the <= 254 hypothesis of C19_gen_table_always_valid is discharged) *)
Theorem C19_image_histograms_admissible :
  forall c syms,
  In c all_classes ->
  Forall (okc c) syms ->
  Z.of_nat (length syms) + 1 <= SENT ->
  let freq := count_syms syms in
  (forall f, In f freq -> 0 <= f) /\
  (forall i, nth i freq 0 <= Z.of_nat (length syms)) /\
  sumZ (firstn 256 freq) = Z.of_nat (length syms) /\
  (length (nz_scan (firstn 256 freq) 0) <= length (class_set c))%nat /\
  (length (class_set c) <= 240)%nat /\
  exists t, gen_optimal_table freq = inr t /\
    good_table t (map fst (nz_scan (firstn 256 freq) 0)) /\
    valid_table t = true /\
    (exists ct, make_c_derived (h_bits t) (h_vals t) 255 = Some ct) /\
    (forall isDC, exists dt, make_d_derived (h_bits t) (h_vals t) isDC 255 = Some dt).
Proof. exact image_histograms_admissible. Qed.
Print Assumptions C19_image_histograms_admissible.

(* whole sequential statistics pass: needs exactly 63 * #blocks + 1 <= 10^9 *)
Theorem C19_seq_pass_admissible :
  forall prec blocks ds acs,
  In prec lossy_precisions ->
  Forall (fun b => length (snd b) = 64%nat) blocks ->
  htest_blocks prec blocks = Some (ds, acs) ->
  63 * Z.of_nat (length blocks) + 1 <= SENT ->
  Forall (okc (CDc prec)) ds /\ Forall (okc (CAcSeq prec)) acs /\
  Z.of_nat (length ds) + 1 <= SENT /\ Z.of_nat (length acs) + 1 <= SENT /\
  In (CDc prec) all_classes /\ In (CAcSeq prec) all_classes.
Proof. exact seq_pass_admissible. Qed.
Print Assumptions C19_seq_pass_admissible.

(* boundary witness outside the property quantifier (total >= 10^9): constant 32768x32768 lossless image, the only symbol gets no code *)
Theorem C19_counts_above_1e9_lossless_boundary :
  let n := Z.to_nat (32768 * 32768) in
  let diffs := repeat 0 n in
  let syms := repeat 0 n in
  32768 <= JPEG_MAX_DIMENSION /\
  map lossless_symbol diffs = map Some syms /\ Forall (okc CLossless) syms /\
  SENT < Z.of_nat (length syms) /\
  exists t ct, gen_optimal_table (count_syms syms) = inr t /\
    h_vals t = [] /\ ~ good_table t [0] /\
    make_c_derived (h_bits t) (h_vals t) 255 = Some ct /\ encode_sym ct 0 = None.
Proof. exact huge_lossless_image_refuted. Qed.
Print Assumptions C19_counts_above_1e9_lossless_boundary.

(* boundary witness outside the property quantifier: three AC symbols counted 6.0e8 times each: over-subscribed table, rejected by jpeg_make_c_derived_tbl *)
Theorem C19_counts_above_1e9_lossy_boundary :
  let n := Z.to_nat 600000009 in
  let syms := repeat 1 n ++ repeat 2 n ++ repeat 3 n in
  Forall (okc (CAcSeq 8)) syms /\
  Z.of_nat (length syms) = 63 * 28571429 /\ 28571429 <= 8188 * 8188 /\
  exists t, gen_optimal_table (count_syms syms) = inr t /\
    h_bits t = [0; 3; 0; 0; 0; 0; 0; 0; 0; 0; 0; 0; 0; 0; 0; 0; 0] /\
    valid_table t = false /\ make_c_derived (h_bits t) (h_vals t) 255 = None.
Proof. exact huge_lossy_counts_refuted. Qed.
Print Assumptions C19_counts_above_1e9_lossy_boundary.

(* for every table the library validator accepts, code word and length of every symbol equal those of the independent Annex C reading of C04 (T81Spec.mk_coder), which is a prefix coder *)
Theorem C19_codes_agree_with_T81 :
  forall bits vals maxsym ct,
  length bits = 17%nat -> maxsym <= 256 ->
  make_c_derived bits vals maxsym = Some ct ->
  let counts := skipn 1 (firstn 17 bits) in
  T81HuffProofs.table_ok counts = true /\
  (forall sym, 0 <= sym ->
     encode_sym ct sym = T.hc_enc (T.mk_coder counts vals) sym) /\
  T81BlockProofs.coder_ok (T.hc_enc (T.mk_coder counts vals)) (T.hc_dec (T.mk_coder counts vals)).
Proof. exact codes_agree_with_T81. Qed.
Print Assumptions C19_codes_agree_with_T81.

(* hence C04 block/scan round trips apply verbatim to every generated table *)
Theorem C19_gen_tables_are_T81_coders :
  forall freq256 : list Z,
  (forall f, In f freq256 -> 0 <= f) ->
  sumZ (firstn 256 freq256) + 1 <= SENT ->
  (length (nz_scan (firstn 256 freq256) 0) <= 254)%nat ->
  exists t ct, gen_optimal_table freq256 = inr t /\
    make_c_derived (h_bits t) (h_vals t) 255 = Some ct /\
    let counts := skipn 1 (firstn 17 (h_bits t)) in
    T81HuffProofs.table_ok counts = true /\
    (forall sym, 0 <= sym -> encode_sym ct sym = T.hc_enc (T.mk_coder counts (h_vals t)) sym) /\
    T81BlockProofs.coder_ok (T.hc_enc (T.mk_coder counts (h_vals t))) (T.hc_dec (T.mk_coder counts (h_vals t))).
Proof. exact gen_tables_are_T81_coders. Qed.
Print Assumptions C19_gen_tables_are_T81_coders.

(* library bit-serial decoder and T.81 DECODE agree on every code word followed by arbitrary bits *)
Theorem C19_decoders_agree_on_code_words :
  forall bits vals maxsym isDC maxdc ct dt sym code rest,
  length bits = 17%nat -> maxsym <= 256 ->
  make_c_derived bits vals maxsym = Some ct ->
  make_d_derived bits vals isDC maxdc = Some dt ->
  encode_sym ct sym = Some code -> 0 <= sym ->
  let counts := skipn 1 (firstn 17 bits) in
  decode_serial dt 1 (code ++ rest) = Some (sym, false, rest) /\
  T.hc_dec (T.mk_coder counts vals) (code ++ rest) = Some (sym, rest).
Proof. exact decoders_agree_on_code_words. Qed.
Print Assumptions C19_decoders_agree_on_code_words.

(* ---- which table is used where (regenerated from the six entropy codecs): every
   DC-classed table array is indexed through dc_tbl_no and every AC-classed one
   through ac_tbl_no; the only writers of a Huffman table's sent_table are the
   expected ones (a regenerated table is always re-sent); the work arrays of
   jpeg_gen_optimal_table have automatic storage (the generator is a function of
   the histogram alone) *)
Theorem C19_source_table_selection :
  selection_consistent gen_table_selection = true /\
  Nat.leb 40 (List.length gen_table_selection) = true /\
  gen_sent_table_writers = expected_sent_table_writers /\
  gen_genopt_work_arrays = expected_genopt_work_arrays /\
  gen_genopt_static_locals = 0%nat.
Proof. exact source_table_selection. Qed.
Print Assumptions C19_source_table_selection.

(* ---- contents of the HUFF_LOOKAHEAD = 8 table (what HUFF_DECODE's fast path and the
   fast-path models of C01/C09 rely on): for every accepted table and each of the
   256 eight-bit patterns p, the entry is (n << 8) | sym with n <= 8 exactly when the
   n-bit code word of a table entry is a prefix of p (sym = that entry's symbol, and
   the entry is unique), and (HUFF_LOOKAHEAD + 1) << 8 exactly when no code word of
   length <= 8 is a prefix of p *)
Theorem C19_lookahead_table_characterisation : forall bits vals isDC maxdc dt,
  length bits = 17%nat ->
  make_d_derived bits vals isDC maxdc = Some dt ->
  (forall k, (k < length vals)%nat -> 0 <= nth k vals 0 <= 255) ->
  exists sizes codes,
    huffsizes (skipn 1 (firstn 17 bits)) 1 0 = Some sizes /\ gen_codes sizes = Some codes /\
    forall p, 0 <= p < 256 ->
      let e := nthZ (lookup dt) (Z.to_nat p) in
      let hit k := (k < length sizes)%nat /\ (k < length vals)%nat /\
                   prefix_of8 (nth k codes 0) (nth k sizes 0) p in
      (forall k, hit k -> e = nth k sizes 0 * 256 + nth k vals 0 /\
                          e / 256 = nth k sizes 0 /\ e mod 256 = nth k vals 0) /\
      ((forall k, ~ hit k) -> e = (HUFF_LOOKAHEAD + 1) * 256 /\ e / 256 = HUFF_LOOKAHEAD + 1) /\
      (e / 256 <= HUFF_LOOKAHEAD <-> exists k, hit k) /\
      (forall j k, hit j -> hit k -> j = k).
Proof. exact lookahead_table_characterisation. Qed.
Print Assumptions C19_lookahead_table_characterisation.
