(* C18 -- proofs about the GIF reader model (model/Gif.v): for EVERY byte string GetCode stays
   inside code_buf, LZWReadByte stays inside symbol_head / symbol_tail / symbol_stack and never
   reads a cell that was not written, every decoded byte is a valid colormap index, the loops
   terminate, and a successful read delivers exactly height rows of width*components 8-bit samples. *)
From Coq Require Import List ZArith Lia Bool ZifyBool.
From LJT Require Import gen.GenImgRd model.RdCommon model.Gif proofs.PnmProofs.
Import ListNotations.
Local Open Scope Z_scope.
Ltac Zify.zify_post_hook ::= Z.div_mod_to_equations.

(* generated facts used below *)
Lemma g_tsize : lzw_table_size = 4096. Proof. reflexivity. Qed.
Lemma g_bits : max_lzw_bits = 12. Proof. reflexivity. Qed.
Lemma g_cbuf : code_buf_size = 260. Proof. reflexivity. Qed.
Lemma g_cmin : gif_min_codesize = 2. Proof. reflexivity. Qed.
Lemma g_cmax : gif_max_codesize = 8. Proof. reflexivity. Qed.
Lemma g_cmapsz : gif_maxcolormap = 256. Proof. reflexivity. Qed.
Lemma g_full : lzw_full_test_strict = true. Proof. reflexivity. Qed.
Lemma g_grow : lzw_grow_guard_strict = true. Proof. reflexivity. Qed.
Lemma g_badzero : lzw_bad_incode_zero = true. Proof. reflexivity. Qed.
Lemma g_pad : 0 <= gif_pad_sample <= 255. Proof. unfold gif_pad_sample. lia. Qed.

Definition rsafe (e : rerr) : Prop := e <> R_OOB /\ e <> R_UNINIT /\ e <> R_FUEL.

Lemma pow2_ics ics : 2 <= ics <= 8 -> 4 <= 2 ^ ics <= 256.
Proof.
  intro H. assert (ics = 2 \/ ics = 3 \/ ics = 4 \/ ics = 5 \/ ics = 6 \/ ics = 7 \/ ics = 8) as C by lia.
  repeat (destruct C as [-> | C]); try subst ics; cbn; lia.
Qed.

(* ---------------------------------------------------------------- small list lemmas *)
Lemma take_n_spec n s a r : take_n n s = Some (a, r) -> s = a ++ r /\ length a = n.
Proof.
  revert s a r. induction n as [|n IH]; intros s a r H; cbn [take_n] in H.
  - inversion H; subst. split; reflexivity.
  - destruct s as [|c t]; [discriminate|].
    destruct (take_n n t) as [[a' r']|] eqn:E; [|discriminate].
    inversion H; subst. destruct (IH _ _ _ E) as [-> L]. split; cbn; auto.
Qed.

Lemma rtake_spec n s : match rtake n s with
                       | ROk (a, r) => s = a ++ r /\ length a = Z.to_nat n
                       | RErr e => e = R_EOF end.
Proof.
  unfold rtake. destruct (Z.of_nat (length s) <? n); [reflexivity|].
  destruct (take_n (Z.to_nat n) s) as [[a r]|] eqn:E; [|reflexivity]. apply take_n_spec in E. exact E.
Qed.

Lemma bytes_app' a b : bytes (a ++ b) <-> bytes a /\ bytes b.
Proof. apply Forall_app. Qed.

Lemma list_set_length l n v : length (list_set l n v) = length l.
Proof. revert n. induction l as [|x l IH]; intros [|n]; cbn [list_set length]; auto. Qed.

Lemma list_set_nth_same l n v d : (n < length l)%nat -> nth n (list_set l n v) d = v.
Proof. revert n. induction l as [|x l IH]; intros [|n] H; cbn [list_set nth length] in *; try lia; auto. apply IH. lia. Qed.

Lemma list_set_nth_other l n m v d : n <> m -> nth m (list_set l n v) d = nth m l d.
Proof.
  revert n m. induction l as [|x l IH]; intros [|n] [|m] H; cbn [list_set nth]; auto; try congruence.
Qed.

Lemma znth_set_same l i v d : 0 <= i < Z.of_nat (length l) -> znth (list_set l (Z.to_nat i) v) i d = v.
Proof. intro H. unfold znth. apply list_set_nth_same. lia. Qed.

Lemma znth_set_other l i j v d : 0 <= i -> 0 <= j -> i <> j -> znth (list_set l (Z.to_nat i) v) j d = znth l j d.
Proof. intros. unfold znth. apply list_set_nth_other. lia. Qed.

Lemma arr_get_ok size a i v : arr_get size a i = ROk v -> 0 <= i < size /\ v = znth a i (-1) /\ 0 <= v.
Proof.
  unfold arr_get. destruct ((i <? 0) || (i >=? size)) eqn:E; [discriminate|].
  destruct (znth a i (-1) <? 0) eqn:E2; [discriminate|]. intro H; inversion H; subst. lia.
Qed.

(* ---------------------------------------------------------------- data blocks *)
Lemma get_data_block_spec s : bytes s ->
  match get_data_block s with
  | ROk (count, blk, rest) =>
    bytes blk /\ bytes rest /\ 0 <= count <= 255 /\ Z.of_nat (length blk) = count /\
    (length rest + length blk < length s)%nat
  | RErr e => e = R_EOF
  end.
Proof.
  intro B. unfold get_data_block. destruct s as [|c rest]; [reflexivity|].
  apply bytes_cons in B. destruct B as [Bc B].
  destruct (c =? 0) eqn:E; [cbn [length]; repeat split; try lia; auto; constructor|].
  unfold rbind. pose proof (rtake_spec c rest) as T. destruct (rtake c rest) as [[blk r]|e]; [|exact T].
  destruct T as [-> L]. apply bytes_app' in B. destruct B. cbn [length]. rewrite app_length.
  repeat split; auto; lia.
Qed.

Lemma skip_data_blocks_spec fuel s : bytes s -> (length s < fuel)%nat ->
  match skip_data_blocks fuel s with
  | ROk rest => bytes rest /\ (length rest < length s)%nat
  | RErr e => e = R_EOF
  end.
Proof.
  revert s. induction fuel as [|f IH]; intros s B Hf; [lia|]. cbn [skip_data_blocks]. unfold rbind.
  pose proof (get_data_block_spec s B) as G. destruct (get_data_block s) as [[[count blk] rest]|e]; [|exact G].
  destruct G as (_ & Br & _ & _ & L). destruct (count =? 0); [split; [auto|lia]|].
  specialize (IH rest Br ltac:(lia)). destruct (skip_data_blocks f rest) as [r|e]; [|exact IH].
  destruct IH. split; [auto|lia].
Qed.

(* ---------------------------------------------------------------- GetCode *)
Definition io_ok (st : lzw) : Prop :=
  bytes (z_in st) /\ 2 <= Z.of_nat (length (z_buf st)) <= 257 /\
  0 <= z_cur_bit st <= z_last_bit st /\ z_last_bit st <= 8 * Z.of_nat (length (z_buf st)) /\
  (z_first st = true -> z_last_bit st = 0 /\ z_cur_bit st = 0).

(* GetCode touches the input, code_buf, the bit counters, the two flags and the warning count only *)
Definition frame (st st' : lzw) : Prop :=
  z_ics st' = z_ics st /\ z_cs st' = z_cs st /\ z_limit st' = z_limit st /\ z_max st' = z_max st /\
  z_old st' = z_old st /\ z_fc st' = z_fc st /\ z_head st' = z_head st /\ z_tail st' = z_tail st /\
  z_stack st' = z_stack st.

Lemma frame_refl st : frame st st.
Proof. unfold frame. repeat split. Qed.
Lemma frame_trans a b c : frame a b -> frame b c -> frame a c.
Proof. unfold frame. intuition congruence. Qed.

(* bits still to be delivered: decreases with every code taken from the data *)
Definition mu (st : lzw) : Z :=
  (if z_first st then 1 else 0) + (z_last_bit st - z_cur_bit st) + 8 * Z.of_nat (length (z_in st)).

Lemma buf_get_ok st i : 0 <= i < 260 -> exists v, buf_get st i = ROk v.
Proof. intro H. unfold buf_get. rewrite g_cbuf. replace ((i <? 0) || (i >=? 260)) with false by lia. eauto. Qed.

Lemma get_code_spec fuel st : io_ok st -> 1 <= z_cs st <= 12 -> (length (z_in st) < fuel)%nat ->
  match get_code fuel st with
  | ROk (c, st') =>
    0 <= c /\ io_ok st' /\ frame st st' /\ z_first st' = false /\
    (z_first st = true -> c = z_clear st) /\
    (z_done st = true -> z_done st' = true) /\
    ((z_done st' = true /\ c = z_end st) \/ mu st' < mu st)
  | RErr e => e = R_EOF
  end.
Proof.
  revert st. induction fuel as [|f IH]; intros st IO Hcs Hf; [lia|].
  destruct IO as (Bin & Hlb & Hcur & Hlast & Hfirst).
  cbn [get_code].
  destruct (z_cur_bit st + z_cs st >? z_last_bit st) eqn:W.
  - destruct (z_first st) eqn:F.
    + (* first_time *) destruct (Hfirst eq_refl) as [L0 C0].
      cbn [z_first z_done st_flags z_in z_buf z_last_bit z_cur_bit].
      split; [unfold z_clear; apply Z.pow_nonneg; lia|].
      split; [unfold io_ok; cbn; repeat split; auto; try lia; discriminate|].
      split; [unfold frame; cbn; repeat split|]. split; [reflexivity|]. split; [auto|]. split; [auto|].
      right. unfold mu. cbn. rewrite F. lia.
    + destruct (z_done st) eqn:D.
      * (* out of blocks *)
        split; [unfold z_end, z_clear; pose proof (Z.pow_nonneg 2 (z_ics st)); lia|].
        split; [unfold io_ok; cbn; rewrite F; repeat split; auto; try lia; discriminate|].
        split; [unfold frame; cbn; repeat split|]. split; [cbn; exact F|]. split; [discriminate|].
        split; [cbn; auto|]. left. cbn. auto.
      * set (lb := Z.of_nat (length (z_buf st))) in *.
        destruct (buf_get_ok st (lb - 2) ltac:(lia)) as [b0 E0]. destruct (buf_get_ok st (lb - 1) ltac:(lia)) as [b1 E1].
        rewrite E0, E1. cbn [rbind].
        pose proof (get_data_block_spec (z_in st) Bin) as G.
        destruct (get_data_block (z_in st)) as [[[count blk] rest]|e]; [|exact G].
        destruct G as (Bblk & Brest & Hcount & Lblk & Lrest). cbn [rbind].
        destruct (count =? 0) eqn:C0.
        -- split; [unfold z_end, z_clear; pose proof (Z.pow_nonneg 2 (z_ics st)); lia|].
           split; [unfold io_ok; cbn; repeat split; auto; try lia; discriminate|].
           split; [unfold frame; cbn; repeat split|]. split; [reflexivity|]. split; [discriminate|].
           split; [auto|]. left. cbn. auto.
        -- rewrite g_cbuf. replace (2 + count >? 260) with false by lia.
           set (st1 := st_io st rest (b0 :: b1 :: blk) ((2 + count) * 8) (z_cur_bit st - z_last_bit st + 16)).
           assert (IO1 : io_ok st1).
           { unfold io_ok, st1. cbn [z_in z_buf z_last_bit z_cur_bit z_first st_io length]. rewrite F.
             repeat split; auto; try lia; discriminate. }
           specialize (IH st1 IO1 Hcs ltac:(unfold st1; cbn [z_in st_io]; lia)).
           destruct (get_code f st1) as [[c st']|e]; [|exact IH].
           destruct IH as (Hc & IO' & Fr & F' & _ & Dn & M).
           split; [exact Hc|]. split; [exact IO'|].
           split; [eapply frame_trans; [|exact Fr]; unfold frame, st1; cbn; repeat split|].
           split; [exact F'|]. split; [discriminate|]. split; [intro; discriminate|].
           destruct M as [[M1 M2]|M]; [left; split; [exact M1|exact M2]|].
           right. eapply Z.lt_le_trans; [exact M|]. unfold mu, st1. cbn [z_first z_last_bit z_cur_bit z_in st_io]. rewrite F. lia.
  - (* extraction *)
    set (offs := z_cur_bit st / 8).
    assert (Hoffs : 0 <= offs /\ offs + 2 < 260).
    { unfold offs. split; [apply Z.div_pos; lia|]. assert (z_cur_bit st / 8 < Z.of_nat (length (z_buf st))); [|lia].
      apply Z.div_lt_upper_bound; lia. }
    destruct (buf_get_ok st (offs + 2) ltac:(lia)) as [c2 E2]. destruct (buf_get_ok st (offs + 1) ltac:(lia)) as [c1 E1].
    destruct (buf_get_ok st offs ltac:(lia)) as [c0 E0]. rewrite E2, E1, E0. cbn [rbind].
    assert (NF : z_first st = false).
    { destruct (z_first st) eqn:F; [|reflexivity]. destruct (Hfirst eq_refl). lia. }
    split; [apply Z.mod_pos_bound; apply Z.pow_pos_nonneg; lia|].
    split; [unfold io_ok; cbn [z_in z_buf z_last_bit z_cur_bit z_first st_io]; rewrite NF; repeat split; auto; try lia; discriminate|].
    split; [unfold frame; cbn; repeat split|]. split; [cbn; exact NF|]. split; [rewrite NF; discriminate|].
    split; [cbn; auto|]. right. unfold mu. cbn [z_first z_last_bit z_cur_bit z_in st_io]. rewrite NF. lia.
Qed.

Lemma get_code_range fuel : forall st c st', get_code fuel st = ROk (c, st') -> 0 <= z_cs st ->
  c < 2 ^ z_cs st \/ c = z_clear st \/ c = z_end st.
Proof.
  induction fuel as [|f IH]; intros st c st' H Hcs; cbn [get_code] in H.
  - destruct (z_cur_bit st + z_cs st >? z_last_bit st); [discriminate|].
    unfold rbind in H. destruct (buf_get st _); [|discriminate]. destruct (buf_get st _); [|discriminate].
    destruct (buf_get st _); [|discriminate]. inversion H; subst. left. apply Z.mod_pos_bound. apply Z.pow_pos_nonneg; lia.
  - destruct (z_cur_bit st + z_cs st >? z_last_bit st).
    + destruct (z_first st); [inversion H; auto|]. destruct (z_done st); [inversion H; auto|].
      unfold rbind in H. destruct (buf_get st _); [|discriminate]. destruct (buf_get st _); [|discriminate].
      destruct (get_data_block (z_in st)) as [[[count blk] rest]|]; [|discriminate].
      destruct (count =? 0); [inversion H; auto|]. destruct (2 + count >? code_buf_size); [discriminate|].
      apply IH in H; cbn in *; auto.
    + unfold rbind in H. destruct (buf_get st _); [|discriminate]. destruct (buf_get st _); [|discriminate].
      destruct (buf_get st _); [|discriminate]. inversion H; subst. left. apply Z.mod_pos_bound. apply Z.pow_pos_nonneg; lia.
Qed.

(* ---------------------------------------------------------------- the symbol table *)
Definition code_ok (clear mx c : Z) : Prop := 0 <= c < clear \/ clear + 2 <= c < mx.

Definition tab_ok (clear mx : Z) (hd tl : list Z) : Prop :=
  length hd = 4096%nat /\ length tl = 4096%nat /\
  forall K, clear + 2 <= K < mx -> 0 <= znth tl K (-1) < clear /\ code_ok clear K (znth hd K (-1)).

Definition stack_ok (clear : Z) (stk : list Z) : Prop := Forall (fun b => 0 <= b < clear) stk.

Lemma code_ok_mono clear mx mx' c : mx <= mx' -> code_ok clear mx c -> code_ok clear mx' c.
Proof. unfold code_ok. lia. Qed.

Lemma arr_get_defined a i v : length a = 4096%nat -> 0 <= i < 4096 -> znth a i (-1) = v -> 0 <= v ->
  arr_get lzw_table_size a i = ROk v.
Proof.
  intros L Hi E Hv. unfold arr_get. rewrite g_tsize. replace ((i <? 0) || (i >=? 4096)) with false by lia.
  rewrite E. replace (v <? 0) with false by lia. reflexivity.
Qed.

(* the expansion loop terminates, stays inside both tables and inside the stack *)
Lemma expand_spec clear mx hd tl : 4 <= clear -> mx <= 4096 -> tab_ok clear mx hd tl ->
  forall fuel code stk, code_ok clear mx code -> stack_ok clear stk ->
  code - clear < Z.of_nat fuel -> Z.of_nat (length stk) + Z.max 0 (code - clear) <= 4096 ->
  exists raw stk', expand fuel clear hd tl code stk = ROk (raw, stk') /\ 0 <= raw < clear /\ stack_ok clear stk' /\
                   Z.of_nat (length stk') <= Z.of_nat (length stk) + Z.max 0 (code - clear).
Proof.
  intros Hclear Hmx (Lh & Lt & T). induction fuel as [|f IH]; intros code stk Hc Hs Hf Hl.
  - assert (code < clear) by lia. exists code, stk. cbn [expand]. replace (code <? clear) with true by lia.
    repeat split; auto; try lia. destruct Hc; lia.
  - cbn [expand]. destruct (code <? clear) eqn:E.
    + exists code, stk. repeat split; auto; try lia. destruct Hc; lia.
    + assert (Hk : clear + 2 <= code < mx) by (destruct Hc; lia).
      destruct (T code Hk) as [Ht Hh].
      rewrite (arr_get_defined tl code _ Lt ltac:(lia) eq_refl ltac:(lia)). cbn [rbind].
      replace (Z.of_nat (length stk) >=? lzw_table_size) with false by (rewrite g_tsize; lia).
      assert (Hh0 : 0 <= znth hd code (-1)) by (destruct Hh; lia).
      rewrite (arr_get_defined hd code _ Lh ltac:(lia) eq_refl Hh0). cbn [rbind].
      destruct (IH (znth hd code (-1)) (znth tl code (-1) :: stk)) as (raw & stk' & E' & R & S' & L').
      * eapply code_ok_mono; [|exact Hh]. lia.
      * constructor; auto.
      * destruct Hh; lia.
      * cbn [length]. destruct Hh; lia.
      * exists raw, stk'. split; [exact E'|]. split; [exact R|]. split; [exact S'|].
        cbn [length] in L'. destruct Hh; lia.
Qed.

Lemma mu_nonneg st : io_ok st -> 0 <= mu st.
Proof. intros (_ & _ & H & _). unfold mu. destruct (z_first st); lia. Qed.

Lemma frame_clear st st' : frame st st' -> z_clear st' = z_clear st /\ z_end st' = z_end st.
Proof. intros (E & _). unfold z_end, z_clear. rewrite E. auto. Qed.

(* do { code = GetCode } while (code == clear_code)  terminates *)
Lemma skip_clears_spec fuel : forall st, io_ok st -> 1 <= z_cs st <= 12 -> mu st < Z.of_nat fuel ->
  match skip_clears fuel st with
  | ROk (c, st') => 0 <= c /\ c <> z_clear st /\ io_ok st' /\ frame st st' /\ z_first st' = false /\
                    (c < 2 ^ z_cs st \/ c = z_end st)
  | RErr e => e = R_EOF
  end.
Proof.
  induction fuel as [|f IH]; intros st IO Hcs Hmu; [pose proof (mu_nonneg st IO); lia|].
  cbn [skip_clears]. unfold rbind.
  pose proof (get_code_spec (code_fuel st) st IO Hcs ltac:(unfold code_fuel; lia)) as G.
  destruct (get_code (code_fuel st) st) as [[c st1]|e] eqn:EG; [|exact G].
  destruct G as (Hc & IO1 & Fr & F1 & _ & _ & M).
  destruct (frame_clear _ _ Fr) as [Ecl Een].
  pose proof (get_code_range _ _ _ _ EG ltac:(lia)) as R.
  rewrite Ecl. destruct (c =? z_clear st) eqn:E.
  - assert (Hm : mu st1 < mu st).
    { destruct M as [[_ M]|M]; [|exact M]. unfold z_end in M. lia. }
    destruct Fr as (Fi & Fc & Frest).
    specialize (IH st1 IO1 ltac:(lia) ltac:(lia)).
    destruct (skip_clears f st1) as [[c' st']|e]; [|exact IH].
    destruct IH as (Hc' & Ne & IO' & Fr' & F' & R').
    split; [exact Hc'|]. split; [rewrite <- Ecl; exact Ne|]. split; [exact IO'|].
    split; [eapply frame_trans; [|exact Fr']; unfold frame; tauto|]. split; [exact F'|].
    rewrite Fc, Een in R'. exact R'.
  - split; [exact Hc|]. split; [lia|]. split; [exact IO1|]. split; [exact Fr|]. split; [exact F1|].
    destruct R as [R|[R|R]]; [left; exact R | lia | right; exact R].
Qed.

(* ---------------------------------------------------------------- LZWReadByte *)
Definition linv (st : lzw) : Prop :=
  io_ok st /\ 2 <= z_ics st <= 8 /\ z_ics st + 1 <= z_cs st <= 12 /\
  z_clear st + 2 <= z_max st <= 4096 /\
  tab_ok (z_clear st) (z_max st) (z_head st) (z_tail st) /\
  (z_first st = true \/ (code_ok (z_clear st) (z_max st) (z_old st) /\ 0 <= z_fc st < z_clear st)) /\
  stack_ok (z_clear st) (z_stack st) /\ Z.of_nat (length (z_stack st)) <= 4096.

Lemma tab_ok_reinit clear mx hd tl : tab_ok clear mx hd tl -> tab_ok clear (clear + 2) hd tl.
Proof. intros (A & B & _). split; [exact A|]. split; [exact B|]. intros K HK. lia. Qed.

Lemma tab_ok_extend clear mx hd tl old raw : 4 <= clear <= 256 -> clear + 2 <= mx < 4096 ->
  tab_ok clear mx hd tl -> code_ok clear mx old -> 0 <= raw < clear ->
  tab_ok clear (mx + 1) (list_set hd (Z.to_nat mx) (old mod 65536)) (list_set tl (Z.to_nat mx) (raw mod 256)).
Proof.
  intros Hc Hm (Lh & Lt & T) Ho Hr. split; [rewrite list_set_length; exact Lh|]. split; [rewrite list_set_length; exact Lt|].
  intros K HK. destruct (Z.eq_dec K mx) as [->|Ne].
  - rewrite !znth_set_same by lia. rewrite (Z.mod_small raw) by lia.
    rewrite (Z.mod_small old) by (destruct Ho; lia). split; [lia|exact Ho].
  - rewrite !znth_set_other by lia. apply T. lia.
Qed.

Lemma zc_stack st x : z_clear (st_stack st x) = z_clear st. Proof. reflexivity. Qed.
Lemma zc_old st a b : z_clear (st_old st a b) = z_clear st. Proof. reflexivity. Qed.
Lemma zc_warn st : z_clear (st_warn st) = z_clear st. Proof. reflexivity. Qed.
Lemma zc_codes st a b c : z_clear (st_codes st a b c) = z_clear st. Proof. reflexivity. Qed.
Lemma zc_tabs st a b : z_clear (st_tabs st a b) = z_clear st. Proof. reflexivity. Qed.
Lemma zc_io st a b c d : z_clear (st_io st a b c d) = z_clear st. Proof. reflexivity. Qed.
Lemma zc_flags st a b : z_clear (st_flags st a b) = z_clear st. Proof. reflexivity. Qed.
Ltac zc := rewrite ?zc_stack, ?zc_old, ?zc_warn, ?zc_codes, ?zc_tabs, ?zc_io, ?zc_flags.

Theorem lzw_read_byte_spec st : linv st ->
  match lzw_read_byte st with
  | ROk (b, st') => 0 <= b < z_clear st /\ linv st' /\ z_ics st' = z_ics st
  | RErr e => e = R_EOF
  end.
Proof.
  intros (IO & Hics & Hcs & Hmax & Tab & Old & Stk & Lstk).
  pose proof (pow2_ics _ Hics) as Hcl. fold (z_clear st) in Hcl.
  unfold lzw_read_byte. destruct (z_stack st) as [|b rest] eqn:ES.
  2:{ (* pop *)
    inversion Stk; subst. split; [lia|]. split; [|reflexivity].
    unfold linv. cbn [st_stack z_in z_buf z_last_bit z_cur_bit z_first z_done z_ics z_cs z_limit z_max z_old z_fc z_head z_tail z_stack z_warn].
    zc. cbn [length] in Lstk.
    split; [exact IO|]. split; [lia|]. split; [lia|]. split; [lia|]. split; [exact Tab|]. split; [exact Old|].
    split; [assumption|lia]. }
  unfold rbind at 1.
  pose proof (get_code_spec (code_fuel st) st IO ltac:(lia) ltac:(unfold code_fuel; lia)) as G.
  destruct (get_code (code_fuel st) st) as [[code st1]|e] eqn:EG; [|exact G].
  destruct G as (Hc0 & IO1 & Fr & F1 & Hfirst & _ & _).
  pose proof (get_code_range _ _ _ _ EG ltac:(lia)) as R.
  destruct (frame_clear _ _ Fr) as [Ecl Een].
  destruct Fr as (Fi & Fc & Fl & Fm & Fo & Ff & Fh & Ft & Fs).
  rewrite Ecl, Een.
  destruct (code =? z_clear st) eqn:E1.
  - (* Clear code *)
    set (st2 := reinit st1).
    assert (IO2 : io_ok st2) by (unfold st2, reinit, io_ok in *; cbn; exact IO1).
    assert (Cs2 : z_cs st2 = z_ics st + 1) by (unfold st2, reinit; cbn; lia).
    assert (Cl2 : z_clear st2 = z_clear st) by (unfold st2, reinit, z_clear; cbn; rewrite Fi; reflexivity).
    pose proof (skip_clears_spec (clears_fuel st2) st2 IO2 ltac:(lia)) as S.
    assert (Hmu : mu st2 < Z.of_nat (clears_fuel st2)).
    { unfold mu, clears_fuel. destruct IO2 as (_ & _ & Hcur & _). destruct (z_first st2); lia. }
    specialize (S Hmu). unfold rbind.
    destruct (skip_clears (clears_fuel st2) st2) as [[code2 st3]|e]; [|exact S].
    destruct S as (Hc2 & Ne2 & IO3 & Fr3 & F3 & _).
    destruct (frame_clear _ _ Fr3) as [Ecl3 _].
    destruct Fr3 as (Fi3 & Fc3 & Fl3 & Fm3 & Fo3 & Ff3 & Fh3 & Ft3 & Fs3).
    assert (Tab3 : tab_ok (z_clear st) (z_clear st + 2) (z_head st3) (z_tail st3)).
    { rewrite Fh3, Ft3. unfold st2, reinit. cbn. rewrite Fh, Ft. eapply tab_ok_reinit; exact Tab. }
    assert (Mx3 : z_max st3 = z_clear st + 2) by (rewrite Fm3; unfold st2, reinit; cbn; rewrite Ecl; reflexivity).
    assert (Ics3 : z_ics st3 = z_ics st) by (rewrite Fi3; unfold st2, reinit; cbn; exact Fi).
    assert (Cl3 : z_clear st3 = z_clear st) by (unfold z_clear; rewrite Ics3; reflexivity).
    assert (Cs3 : z_cs st3 = z_ics st + 1) by (rewrite Fc3; exact Cs2).
    assert (Stk3 : z_stack st3 = []) by (rewrite Fs3; unfold st2, reinit; reflexivity).
    rewrite Cl3.
    destruct (code2 >? z_clear st) eqn:E2.
    + split; [lia|]. split; [|cbn; exact Ics3].
      unfold linv. zc. cbn [st_old st_warn z_in z_buf z_last_bit z_cur_bit z_first z_done z_ics z_cs z_limit z_max z_old z_fc z_head z_tail z_stack z_warn].
      rewrite Cl3, Mx3, Ics3, Cs3, Stk3.
      split; [exact IO3|]. split; [lia|]. split; [lia|]. split; [lia|]. split; [exact Tab3|].
      split; [right; unfold code_ok; lia|]. split; [constructor|cbn; lia].
    + split; [rewrite Cl2 in Ne2; lia|]. split; [|cbn; exact Ics3].
      unfold linv. zc. cbn [st_old z_in z_buf z_last_bit z_cur_bit z_first z_done z_ics z_cs z_limit z_max z_old z_fc z_head z_tail z_stack z_warn].
      rewrite Cl3, Mx3, Ics3, Cs3, Stk3. rewrite Cl2 in Ne2.
      split; [exact IO3|]. split; [lia|]. split; [lia|]. split; [lia|]. split; [exact Tab3|].
      split; [right; unfold code_ok; lia|]. split; [constructor|cbn; lia].
  - destruct (code =? z_end st) eqn:E2.
    + (* End code *)
      assert (S2 : match (if z_done st1 then ROk st1 else
                          let^ rest := skip_data_blocks (S (length (z_in st1))) (z_in st1) in
                          ROk (st_flags (st_io st1 rest (z_buf st1) (z_last_bit st1) (z_cur_bit st1)) (z_first st1) true))
                   with ROk st2 => io_ok st2 /\ frame st1 st2 | RErr e => e = R_EOF end).
      { destruct (z_done st1); [split; [exact IO1|apply frame_refl]|]. unfold rbind.
        destruct IO1 as (B1 & L1 & C1 & La1 & Fi1).
        pose proof (skip_data_blocks_spec (S (length (z_in st1))) (z_in st1) B1 ltac:(lia)) as K.
        destruct (skip_data_blocks _ (z_in st1)) as [rest|e]; [|exact K]. destruct K as [Br _].
        split; [unfold io_ok; cbn; repeat split; auto; try lia; apply Fi1|unfold frame; cbn; repeat split]. }
      unfold rbind at 1.
      match goal with |- match (match ?X with _ => _ end) with _ => _ end => destruct X as [st2|e]; [|exact S2] end.
      destruct S2 as (IO2 & Fi2 & Fc2 & Fl2 & Fm2 & Fo2 & Ff2 & Fh2 & Ft2 & Fs2).
      split; [lia|]. split; [|cbn; congruence].
      unfold linv. zc. cbn [st_warn z_in z_buf z_last_bit z_cur_bit z_first z_done z_ics z_cs z_limit z_max z_old z_fc z_head z_tail z_stack z_warn].
      assert (Cl2 : z_clear st2 = z_clear st) by (unfold z_clear; congruence).
      rewrite Cl2, Fi2, Fc2, Fm2, Fo2, Ff2, Fh2, Ft2, Fs2, Fi, Fc, Fm, Fo, Ff, Fh, Ft, Fs, ES.
      split; [exact IO2|]. split; [lia|]. split; [lia|]. split; [lia|]. split; [exact Tab|].
      split; [|split; [constructor|cbn; lia]].
      destruct Old as [O|O]; [|right; exact O].
      (* first_time: GetCode would have returned the Clear code *)
      specialize (Hfirst O). lia.
    + (* raw byte or LZW symbol *)
      assert (Hold : code_ok (z_clear st) (z_max st) (z_old st) /\ 0 <= z_fc st < z_clear st).
      { destruct Old as [O|O]; [specialize (Hfirst O); lia|exact O]. }
      destruct Hold as [Ho Hf].
      assert (Hcode : code < 4096).
      { destruct R as [R|[R|R]]; try lia. assert (2 ^ z_cs st <= 2 ^ 12) by (apply Z.pow_le_mono_r; lia).
        change (2 ^ 12) with 4096 in H. lia. }
      rewrite Fm, Fs, ES, Fo, Ff. cbn [length].
      (* the first bind: code', incode, initial stack *)
      assert (P1 : exists code' incode stk st2,
        (if code >=? z_max st
         then let (incode, st2) := if code >? z_max st then (if lzw_bad_incode_zero then 0 else code, st_warn st1) else (code, st1) in
              if Z.of_nat 0 >=? lzw_table_size then RErr R_OOB else ROk (z_old st, incode, [z_fc st mod 256], st2)
         else ROk (code, code, [], st1)) = ROk (code', incode, stk, st2) /\
        code_ok (z_clear st) (z_max st) code' /\ stack_ok (z_clear st) stk /\ Z.of_nat (length stk) <= 1 /\
        (incode = code' \/ incode = 0 \/ (incode = z_max st /\ z_max st < 4096)) /\ (code' = z_old st \/ stk = []) /\
        io_ok st2 /\ frame st1 st2).
      { destruct (code >=? z_max st) eqn:E3.
        - rewrite g_tsize, g_badzero. cbn [Z.of_nat Z.geb Z.compare].
          assert (Sk : stack_ok (z_clear st) [z_fc st mod 256]) by (constructor; [rewrite Z.mod_small by lia; lia|constructor]).
          destruct (code >? z_max st) eqn:E4.
          + exists (z_old st), 0, [z_fc st mod 256], (st_warn st1).
            split; [reflexivity|]. split; [exact Ho|]. split; [exact Sk|]. split; [cbn; lia|].
            split; [right; left; reflexivity|]. split; [left; reflexivity|]. split; [exact IO1|unfold frame; cbn; repeat split].
          + exists (z_old st), code, [z_fc st mod 256], st1.
            split; [reflexivity|]. split; [exact Ho|]. split; [exact Sk|]. split; [cbn; lia|].
            split; [right; right; lia|]. split; [left; reflexivity|]. split; [exact IO1|apply frame_refl].
        - exists code, code, [], st1.
          split; [reflexivity|]. split; [unfold code_ok; unfold z_end in E2; lia|]. split; [constructor|]. split; [cbn; lia|].
          split; [left; reflexivity|]. split; [right; reflexivity|]. split; [exact IO1|apply frame_refl]. }
      destruct P1 as (code' & incode & stk & st2 & -> & Hc' & Hs & Ls & Hinc & Hrel & IO2 & Fr2).
      cbn [rbind].
      destruct (frame_clear _ _ Fr2) as [Ecl2 _].
      destruct Fr2 as (Fi2 & Fc2 & Fl2 & Fm2 & Fo2 & Ff2 & Fh2 & Ft2 & Fs2).
      rewrite Ecl2, Ecl, Fh2, Ft2, Fh, Ft.
      destruct (expand_spec (z_clear st) (z_max st) (z_head st) (z_tail st) ltac:(lia) ltac:(lia) Tab
                  (Z.to_nat lzw_table_size) code' stk Hc' Hs) as (raw & stk' & -> & Hraw & Hs' & Ls').
      { rewrite g_tsize. destruct Hc'; lia. }
      { destruct Hc'; lia. }
      cbn [rbind st_old z_max z_old z_head z_tail z_cs z_limit].
      rewrite Fm2, Fm, Fo2, Fo, Fh2, Fh, Ft2, Ft, Fc2, Fc, Fl2, Fl, g_full, g_grow, g_tsize, g_bits.
      assert (Lstk' : Z.of_nat (length stk') <= 4096) by (destruct Hc'; lia).
      destruct (z_max st <? 4096) eqn:E5.
      * (* table grows *)
        destruct Tab as (Lh & Lt & T).
        unfold arr_set. replace ((z_max st <? 0) || (z_max st >=? 4096)) with false by lia.
        cbn [rbind].
        split; [exact Hraw|]. split; [|cbn; congruence].
        assert (Cl2 : z_clear st2 = z_clear st) by (unfold z_clear; congruence).
        unfold linv. zc. cbn [st_stack st_old st_codes st_tabs z_in z_buf z_last_bit z_cur_bit z_first z_done z_ics z_cs z_limit z_max z_old z_fc z_head z_tail z_stack z_warn]. zc.
        rewrite Cl2, Fi2, Fi.
        split; [exact IO2|]. split; [lia|].
        split; [destruct ((z_max st + 1 >=? z_limit st) && (z_cs st <? 12)) eqn:Gr; lia|].
        split; [lia|].
        split; [apply tab_ok_extend; auto; try lia; split; [exact Lh|split; [exact Lt|exact T]]|].
        split; [right; split; [|exact Hraw]; destruct Hinc as [->|[->|[-> _]]];
                [eapply code_ok_mono; [|exact Hc']; lia | unfold code_ok; lia | unfold code_ok; lia]|].
        split; [exact Hs'|exact Lstk'].
      * (* table full *)
        cbn [rbind].
        split; [exact Hraw|]. split; [|cbn; congruence].
        assert (Cl2 : z_clear st2 = z_clear st) by (unfold z_clear; congruence).
        unfold linv. zc. cbn [st_stack st_old z_in z_buf z_last_bit z_cur_bit z_first z_done z_ics z_cs z_limit z_max z_old z_fc z_head z_tail z_stack z_warn]. zc.
        rewrite Cl2, Fi2, Fi, Fc2, Fc, Fm2, Fm, Fh2, Fh, Ft2, Ft.
        split; [exact IO2|]. split; [lia|]. split; [lia|]. split; [lia|]. split; [exact Tab|].
        split; [right; split; [|exact Hraw]; destruct Hinc as [->|[->|[_ Hx]]]; [exact Hc' | unfold code_ok; lia | lia]|].
        split; [exact Hs'|exact Lstk'].
Qed.

Lemma read_pixels_spec n : forall st, linv st ->
  match read_pixels n st with
  | ROk (l, st') => length l = n /\ Forall (fun b => 0 <= b < z_clear st) l /\ linv st' /\ z_ics st' = z_ics st
  | RErr e => e = R_EOF
  end.
Proof.
  induction n as [|n IH]; intros st L; cbn [read_pixels].
  - split; [reflexivity|]. split; [constructor|]. split; [exact L|reflexivity].
  - unfold rbind. pose proof (lzw_read_byte_spec st L) as S.
    destruct (lzw_read_byte st) as [[b st1]|e]; [|exact S]. destruct S as (Hb & L1 & I1).
    specialize (IH st1 L1). destruct (read_pixels n st1) as [[l st2]|e]; [|exact IH].
    destruct IH as (Ln & F & L2 & I2).
    assert (E : z_clear st1 = z_clear st) by (unfold z_clear; congruence). rewrite E in F.
    split; [cbn; lia|]. split; [constructor; auto|]. split; [exact L2|congruence].
Qed.

Lemma lzw_init_linv ics warn s : bytes s -> 2 <= ics <= 8 -> linv (lzw_init ics warn s).
Proof.
  intros B H. pose proof (pow2_ics _ H) as P. unfold linv, lzw_init, io_ok, z_clear.
  cbn [z_in z_buf z_last_bit z_cur_bit z_first z_done z_ics z_cs z_limit z_max z_old z_fc z_head z_tail z_stack z_warn length].
  split; [split; [exact B|]; split; [lia|]; split; [lia|]; split; [lia|]; auto|]. split; [lia|]. split; [lia|]. split; [lia|].
  split; [|split; [left; reflexivity|split; [constructor|cbn; lia]]].
  unfold tab_ok. rewrite !repeat_length, g_tsize. split; [reflexivity|]. split; [reflexivity|]. intros K HK. lia.
Qed.

(* ---------------------------------------------------------------- colormap *)
Definition byte (x : Z) : Prop := 0 <= x <= 255.

Definition cm_ok (c : cmap) (lim : Z) : Prop :=
  length c = 256%nat /\
  forall i, 0 <= i < lim -> exists r g b, nth_error c (Z.to_nat i) = Some (r, g, b) /\ byte r /\ byte g /\ byte b.

Lemma cmap_set_length c n v : length (cmap_set c n v) = length c.
Proof. revert n. induction c as [|x c IH]; intros [|n]; cbn [cmap_set length]; auto. Qed.

Lemma cmap_set_same c n v : (n < length c)%nat -> nth_error (cmap_set c n v) n = Some v.
Proof. revert n. induction c as [|x c IH]; intros [|n] H; cbn [cmap_set nth_error length] in *; try lia; auto. apply IH. lia. Qed.

Lemma cmap_set_other c n m v : n <> m -> nth_error (cmap_set c n v) m = nth_error c m.
Proof. revert n m. induction c as [|x c IH]; intros [|n] [|m] H; cbn [cmap_set nth_error]; auto; congruence. Qed.

Lemma cm_ok_set c i r g b : cm_ok c (Z.of_nat i) -> (i < 256)%nat -> byte r -> byte g -> byte b ->
  cm_ok (cmap_set c i (r, g, b)) (Z.of_nat (S i)).
Proof.
  intros (L & H) Hi Hr Hg Hb. split; [rewrite cmap_set_length; exact L|].
  intros j Hj. destruct (Nat.eq_dec (Z.to_nat j) i) as [E|E].
  - rewrite E, cmap_set_same by lia. eauto 7.
  - rewrite cmap_set_other by auto. apply H. lia.
Qed.

Lemma cm_ok_weaken c a b : cm_ok c a -> b <= a -> cm_ok c b.
Proof. intros (L & H) Hab. split; [exact L|]. intros i Hi. apply H. lia. Qed.

Lemma read_colormap_spec n : forall i c gray s, bytes s -> cm_ok c (Z.of_nat i) -> (i + n <= 256)%nat ->
  match read_colormap n i c gray s with
  | ROk (c', _, s') => cm_ok c' (Z.of_nat (i + n)) /\ bytes s' /\ (length s' <= length s)%nat
  | RErr e => e = R_EOF
  end.
Proof.
  induction n as [|n IH]; intros i c gray s B C Hn; cbn [read_colormap].
  - rewrite Nat.add_0_r. auto.
  - destruct s as [|r [|g [|b rest]]]; try reflexivity.
    apply bytes_cons in B. destruct B as [Br B]. apply bytes_cons in B. destruct B as [Bg B].
    apply bytes_cons in B. destruct B as [Bb B].
    rewrite g_cmapsz. replace (Z.of_nat i >=? 256) with false by lia.
    specialize (IH (S i) (cmap_set c i (r, g, b)) (gray && (r =? g) && (g =? b)) rest B).
    specialize (IH ltac:(apply cm_ok_set; auto; unfold byte; lia) ltac:(lia)).
    destruct (read_colormap n (S i) _ _ rest) as [[[c' g'] s']|e]; [|exact IH].
    destruct IH as (C' & B' & L'). replace (i + S n)%nat with (S i + n)%nat by lia.
    split; [exact C'|]. split; [exact B'|]. cbn [length]. lia.
Qed.

Lemma cmap_pad_spec n : forall i c, cm_ok c (Z.of_nat i) -> (i + n <= 256)%nat -> cm_ok (cmap_pad n i c) (Z.of_nat (i + n)).
Proof.
  induction n as [|n IH]; intros i c C Hn; cbn [cmap_pad].
  - rewrite Nat.add_0_r. exact C.
  - replace (i + S n)%nat with (S i + n)%nat by lia. apply IH; [|lia].
    pose proof g_pad. apply cm_ok_set; auto; unfold byte; lia.
Qed.

Lemma cmap_get_ok c lim i : cm_ok c lim -> 0 <= i < lim -> lim <= 256 ->
  exists r g b, cmap_get c i = ROk (r, g, b) /\ byte r /\ byte g /\ byte b.
Proof.
  intros (L & H) Hi Hl. destruct (H i Hi) as (r & g & b & E & Hr & Hg & Hb).
  exists r, g, b. unfold cmap_get. rewrite g_cmapsz. replace ((i <? 0) || (i >=? 256)) with false by lia.
  rewrite E. unfold byte in Hr. replace (r <? 0) with false by lia. auto.
Qed.

Lemma map_pixels_spec gray c lim px : cm_ok c lim -> lim <= 256 -> Forall (fun b => 0 <= b < lim) px ->
  exists row, map_pixels gray c px = ROk row /\ Forall byte row /\
              length row = ((if gray then 1 else 3) * length px)%nat.
Proof.
  intros C Hl. induction px as [|p t IH]; intro F; cbn [map_pixels].
  - exists []. split; [reflexivity|]. split; [constructor|]. destruct gray; reflexivity.
  - inversion F; subst. destruct (cmap_get_ok c lim p C H1 Hl) as (r & g & b & -> & Hr & Hg & Hb).
    destruct (IH H2) as (row & -> & Fr & Lr). cbn [rbind].
    destruct gray; eexists; (split; [reflexivity|]);
      (split; [repeat (constructor; [assumption|]); exact Fr | simpl in Lr |- *; lia]).
Qed.

(* get_interlaced_row: the stored row fetched for output row r exists *)
Lemma irow_range h r : 0 <= r < h -> 0 <= irow h r < h.
Proof.
  intro H. unfold irow.
  destruct (r mod 8 =? 0) eqn:E0; [lia|].
  destruct (r mod 8 =? 4) eqn:E4; [lia|].
  destruct ((r mod 8 =? 2) || (r mod 8 =? 6)) eqn:E2; lia.
Qed.

(* ---------------------------------------------------------------- start_input_gif *)
Lemma znth_byte l i : bytes l -> 0 <= znth l i 0 <= 255.
Proof.
  intro B. unfold znth. destruct (nth_in_or_default (Z.to_nat i) l 0) as [I| ->]; [|lia].
  unfold bytes in B. rewrite Forall_forall in B. specialize (B _ I). lia.
Qed.

Lemma le16_range l o : bytes l -> 0 <= le16 l o <= 65535.
Proof. intro B. unfold le16. pose proof (znth_byte l o B). pose proof (znth_byte l (o + 1) B). lia. Qed.

Fixpoint land7_table (n : nat) : bool :=
  match n with O => true | S m => (0 <=? Z.land (Z.of_nat m) 7) && (Z.land (Z.of_nat m) 7 <=? 7) && land7_table m end.
Lemma land7_all : land7_table 256 = true. Proof. vm_compute. reflexivity. Qed.
Lemma land7_sound n : land7_table n = true -> forall m, (m < n)%nat -> 0 <= Z.land (Z.of_nat m) 7 <= 7.
Proof.
  induction n as [|n IH]; intros H m Hm; [lia|]. cbn [land7_table] in H.
  apply andb_true_iff in H. destruct H as [H1 H2]. destruct (Nat.eq_dec m n) as [->|]; [lia|apply IH; auto; lia].
Qed.
Lemma land7 x : 0 <= x <= 255 -> 0 <= Z.land x 7 <= 7.
Proof. intro H. replace x with (Z.of_nat (Z.to_nat x)) by lia. apply (land7_sound 256 land7_all). lia. Qed.

Lemma cmap_len_range x : 0 <= x <= 255 -> 2 <= 2 * 2 ^ Z.land x 7 <= 256.
Proof.
  intro H. pose proof (land7 x H) as L.
  assert (Z.land x 7 = 0 \/ Z.land x 7 = 1 \/ Z.land x 7 = 2 \/ Z.land x 7 = 3 \/ Z.land x 7 = 4 \/ Z.land x 7 = 5 \/
          Z.land x 7 = 6 \/ Z.land x 7 = 7) as C by lia.
  repeat (destruct C as [-> | C]); try rewrite C; cbn; lia.
Qed.

Lemma cm_ok_empty : cm_ok cmap_empty 0.
Proof. split; [unfold cmap_empty; rewrite repeat_length, g_cmapsz; reflexivity|]. intros i Hi. lia. Qed.

Definition ghdr_ok (hd : gif_hdr) : Prop :=
  1 <= g_w hd <= 65535 /\ 1 <= g_h hd <= 65535 /\ 2 <= g_ics hd <= 8 /\
  0 <= g_cmaplen hd <= 256 /\ cm_ok (g_cmap hd) (g_cmaplen hd) /\ 0 <= g_warn hd.

Lemma gif_scan_spec fuel : forall maxpixels c cmaplen gray warn s,
  bytes s -> (length s < fuel)%nat -> 0 <= cmaplen <= 256 -> cm_ok c cmaplen -> 0 <= warn ->
  match gif_scan fuel maxpixels c cmaplen gray warn s with
  | ROk (hd, s') => ghdr_ok hd /\ bytes s' /\ (maxpixels = 0 \/ g_w hd * g_h hd <= maxpixels)
  | RErr e => rsafe e
  end.
Proof.
  induction fuel as [|f IH]; intros maxpixels c cmaplen gray warn s B Hf Hcl C Hw; [lia|].
  cbn [gif_scan]. destruct s as [|ch s1]; [repeat split; discriminate|].
  apply bytes_cons in B. destruct B as [Bch B1]. cbn [length] in Hf.
  destruct (ch =? 59); [repeat split; discriminate|].
  destruct (ch =? 33).
  - destruct s1 as [|lab s2]; [repeat split; discriminate|].
    apply bytes_cons in B1. destruct B1 as [_ B2]. unfold rbind.
    pose proof (skip_data_blocks_spec (S (length s2)) s2 B2 ltac:(lia)) as K.
    destruct (skip_data_blocks _ s2) as [s3|e]; [|subst; repeat split; discriminate].
    destruct K as [B3 L3]. apply IH; auto. cbn [length] in Hf. lia.
  - destruct (negb (ch =? 44)); [apply IH; auto; lia|].
    destruct (take_n 9 s1) as [[d s2]|] eqn:T; [|repeat split; discriminate].
    apply take_n_spec in T. destruct T as [-> Ld]. apply bytes_app' in B1. destruct B1 as [Bd B2].
    pose proof (le16_range d 4 Bd) as W. pose proof (le16_range d 6 Bd) as H.
    destruct ((le16 d 4 =? 0) || (le16 d 6 =? 0)) eqn:E0; [repeat split; discriminate|].
    destruct (negb (maxpixels =? 0) && (le16 d 4 * le16 d 6 >? maxpixels)) eqn:EM; [repeat split; discriminate|].
    pose proof (znth_byte d 8 Bd) as Hfl.
    assert (LC : match (if negb (Z.land (znth d 8 0) 128 =? 0)
                        then let len := 2 * 2 ^ Z.land (znth d 8 0) 7 in
                             let^ (c2, g2, s3) := read_colormap (Z.to_nat len) 0 c true s2 in ROk (c2, len, gray || g2, s3)
                        else ROk (c, cmaplen, gray, s2))
                 with ROk (c2, cmaplen2, _, s3) => cm_ok c2 cmaplen2 /\ 0 <= cmaplen2 <= 256 /\ bytes s3
                 | RErr e => e = R_EOF end).
    { destruct (negb (Z.land (znth d 8 0) 128 =? 0)); [|auto].
      pose proof (cmap_len_range _ Hfl) as HL. cbv zeta. unfold rbind.
      assert (C0 : cm_ok c (Z.of_nat 0)) by (apply (cm_ok_weaken c cmaplen); [exact C|cbn; lia]).
      pose proof (read_colormap_spec (Z.to_nat (2 * 2 ^ Z.land (znth d 8 0) 7)) 0 c true s2 B2 C0 ltac:(lia)) as R.
      destruct (read_colormap _ 0 c true s2) as [[[c2 g2] s3]|e]; [|exact R].
      destruct R as (C2 & B3 & _). split; [|split; [lia|exact B3]].
      replace (Z.of_nat (0 + Z.to_nat (2 * 2 ^ Z.land (znth d 8 0) 7))) with (2 * 2 ^ Z.land (znth d 8 0) 7) in C2 by lia. exact C2. }
    unfold rbind at 1.
    match goal with |- match (match ?X with _ => _ end) with _ => _ end => destruct X as [[[[c2 cmaplen2] gray2] s3]|e];
      [|subst; repeat split; discriminate] end.
    destruct LC as (C2 & Hcl2 & B3).
    destruct s3 as [|ics s4]; [repeat split; discriminate|].
    apply bytes_cons in B3. destruct B3 as [_ B4].
    rewrite g_cmin, g_cmax. destruct ((ics <? 2) || (ics >? 8)) eqn:EI; [repeat split; discriminate|].
    unfold ghdr_ok. cbn [g_w g_h g_ics g_cmaplen g_cmap g_warn].
    split; [|split; [exact B4|lia]]. repeat split; try lia; try apply C2.
Qed.

Lemma gif_header_spec maxpixels s : bytes s ->
  match gif_header maxpixels s with
  | ROk (hd, s') => ghdr_ok hd /\ bytes s' /\ (maxpixels = 0 \/ g_w hd * g_h hd <= maxpixels)
  | RErr e => rsafe e
  end.
Proof.
  intro B. unfold gif_header.
  destruct (take_n 6 s) as [[sig s1]|] eqn:T1; [|repeat split; discriminate].
  apply take_n_spec in T1. destruct T1 as [-> _]. apply bytes_app' in B. destruct B as [_ B1].
  match goal with |- context [if negb ?c then RErr R_GIF_NOT else _] => destruct (negb c) end; [repeat split; discriminate|].
  destruct (take_n 7 s1) as [[lsd s2]|] eqn:T2; [|repeat split; discriminate].
  apply take_n_spec in T2. destruct T2 as [-> _]. apply bytes_app' in B1. destruct B1 as [Bl B2].
  destruct ((le16 lsd 0 =? 0) || (le16 lsd 2 =? 0)); [repeat split; discriminate|].
  match goal with |- context [if negb (maxpixels =? 0) && ?c then RErr R_TOOBIG else _] =>
    destruct (negb (maxpixels =? 0) && c) eqn:EM end; [repeat split; discriminate|].
  pose proof (znth_byte lsd 4 Bl) as Hfl.
  assert (GC : match (if negb (Z.land (znth lsd 4 0) 128 =? 0)
                      then let len := 2 * 2 ^ Z.land (znth lsd 4 0) 7 in
                           let^ (c, g, s3) := read_colormap (Z.to_nat len) 0 cmap_empty true s2 in ROk (c, len, g, s3)
                      else ROk (cmap_empty, 0, false, s2))
               with ROk (c, cmaplen, _, s3) => cm_ok c cmaplen /\ 0 <= cmaplen <= 256 /\ bytes s3
               | RErr e => e = R_EOF end).
  { destruct (negb (Z.land (znth lsd 4 0) 128 =? 0)); [|split; [exact cm_ok_empty|split; [lia|exact B2]]].
    pose proof (cmap_len_range _ Hfl) as HL. cbv zeta. unfold rbind.
    pose proof (read_colormap_spec (Z.to_nat (2 * 2 ^ Z.land (znth lsd 4 0) 7)) 0 cmap_empty true s2 B2 cm_ok_empty ltac:(lia)) as R.
    destruct (read_colormap _ 0 cmap_empty true s2) as [[[c g] s3]|e]; [|exact R].
    destruct R as (C2 & B3 & _). split; [|split; [lia|exact B3]].
    replace (Z.of_nat (0 + Z.to_nat (2 * 2 ^ Z.land (znth lsd 4 0) 7))) with (2 * 2 ^ Z.land (znth lsd 4 0) 7) in C2 by lia. exact C2. }
  unfold rbind in GC |- *.
  match goal with |- match (match ?X with _ => _ end) with _ => _ end => destruct X as [[[[c cmaplen] gray] s3]|e];
    [|subst; repeat split; discriminate] end.
  destruct GC as (C & Hcl & B3).
  apply gif_scan_spec; auto; lia.
Qed.

(* ---------------------------------------------------------------- rows *)
Lemma Forall_firstn_g {A} (P : A -> Prop) n l : Forall P l -> Forall P (firstn n l).
Proof. revert l. induction n; intros [|a l] H; cbn [firstn]; auto. inversion H; subst. constructor; auto. Qed.
Lemma Forall_skipn_g {A} (P : A -> Prop) n l : Forall P l -> Forall P (skipn n l).
Proof. revert l. induction n; intros [|a l] H; cbn [skipn]; auto. inversion H; subst. auto. Qed.

Lemma out_rows_spec hd c lim px : cm_ok c lim -> lim <= 256 -> Forall (fun b => 0 <= b < lim) px ->
  1 <= g_w hd -> 1 <= g_h hd -> length px = Z.to_nat (g_w hd * g_h hd) ->
  forall n r, 0 <= r -> r + Z.of_nat n <= g_h hd ->
  exists rows, out_rows n r hd c px = ROk rows /\ length rows = n /\
    Forall (fun row => Forall byte row /\
                       length row = ((if g_gray hd then 1 else 3) * Z.to_nat (g_w hd))%nat) rows.
Proof.
  intros C Hl F Hw Hh Lpx. induction n as [|n IH]; intros r Hr Hn; cbn [out_rows].
  - exists []. split; [reflexivity|]. split; [reflexivity|constructor].
  - set (src := if g_interlaced hd then irow (g_h hd) r else r).
    assert (Hsrc : 0 <= src < g_h hd).
    { unfold src. destruct (g_interlaced hd); [apply irow_range; lia|lia]. }
    replace ((src <? 0) || (src >=? g_h hd)) with false by lia.
    set (seg := firstn (Z.to_nat (g_w hd)) (skipn (Z.to_nat (src * g_w hd)) px)).
    assert (Fseg : Forall (fun b => 0 <= b < lim) seg) by (unfold seg; apply Forall_firstn_g, Forall_skipn_g; exact F).
    assert (Lseg : length seg = Z.to_nat (g_w hd)).
    { unfold seg. rewrite firstn_length, skipn_length, Lpx. nia. }
    destruct (map_pixels_spec (g_gray hd) c lim seg C Hl Fseg) as (row & -> & Frow & Lrow). cbn [rbind].
    destruct (IH (r + 1) ltac:(lia) ltac:(lia)) as (rows & -> & Lrows & Frows). cbn [rbind].
    exists (row :: rows). split; [reflexivity|]. split; [cbn; lia|]. constructor; [|exact Frows].
    split; [exact Frow|]. rewrite Lrow, Lseg. reflexivity.
Qed.

(* the whole GIF reader, every byte string *)
Theorem load_gif_spec maxpixels s : bytes s ->
  match load_gif maxpixels s with
  | ROk (w, h, comps, warn, rows) =>
    1 <= w <= 65535 /\ 1 <= h <= 65535 /\ (comps = 1 \/ comps = 3) /\ (maxpixels = 0 \/ w * h <= maxpixels) /\
    length rows = Z.to_nat h /\
    Forall (fun row => Forall byte row /\ length row = (Z.to_nat comps * Z.to_nat w)%nat) rows
  | RErr e => rsafe e
  end.
Proof.
  intro B. unfold load_gif. unfold rbind at 1.
  pose proof (gif_header_spec maxpixels s B) as H.
  destruct (gif_header maxpixels s) as [[hd s1]|e]; [|exact H].
  destruct H as ((Hw & Hh & Hics & Hcl & Cm & Hwarn) & B1 & Lim).
  pose proof (lzw_init_linv (g_ics hd) (g_warn hd) s1 B1 Hics) as L0.
  set (st0 := lzw_init (g_ics hd) (g_warn hd) s1) in *.
  assert (Ecl : z_clear st0 = 2 ^ g_ics hd) by reflexivity.
  pose proof (pow2_ics _ Hics) as Pc.
  pose proof (read_pixels_spec (Z.to_nat (g_w hd * g_h hd)) st0 L0) as R.
  unfold rbind at 1.
  destruct (read_pixels (Z.to_nat (g_w hd * g_h hd)) st0) as [[px st1]|e]; [|subst; repeat split; discriminate].
  destruct R as (Lpx & Fpx & _ & _).
  set (c := cmap_pad (Z.to_nat (z_clear st0 - g_cmaplen hd)) (Z.to_nat (g_cmaplen hd)) (g_cmap hd)).
  (* the padded colormap covers every index below max(cmaplen, clear_code) *)
  assert (Cc : cm_ok c (Z.max (g_cmaplen hd) (z_clear st0))).
  { unfold c. rewrite Ecl.
    assert (C0 : cm_ok (g_cmap hd) (Z.of_nat (Z.to_nat (g_cmaplen hd)))) by (replace (Z.of_nat (Z.to_nat (g_cmaplen hd))) with (g_cmaplen hd) by lia; exact Cm).
    pose proof (cmap_pad_spec (Z.to_nat (2 ^ g_ics hd - g_cmaplen hd)) (Z.to_nat (g_cmaplen hd)) (g_cmap hd) C0 ltac:(lia)) as P.
    eapply cm_ok_weaken; [exact P|]. lia. }
  assert (Fpx' : Forall (fun b => 0 <= b < Z.max (g_cmaplen hd) (z_clear st0)) px).
  { eapply Forall_impl; [|exact Fpx]. cbv beta. intros a Ha. lia. }
  destruct (out_rows_spec hd c _ px Cc ltac:(lia) Fpx' ltac:(lia) ltac:(lia) Lpx (Z.to_nat (g_h hd)) 0 ltac:(lia) ltac:(lia))
    as (rows & -> & Lrows & Frows).
  cbn [rbind].
  split; [lia|]. split; [lia|]. split; [destruct (g_gray hd); auto|]. split; [exact Lim|]. split; [exact Lrows|].
  eapply Forall_impl; [|exact Frows]. cbv beta. intros row [Fr Lr]. split; [exact Fr|].
  rewrite Lr. destruct (g_gray hd); reflexivity.
Qed.
