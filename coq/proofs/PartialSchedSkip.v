(* C08 -- the no-context row scheduler, part 2: increment_simple_rowgroup_ctr, jpeg_skip_scanlines, ops, runs,
   exported theorems.  Part 1 (invariant, one read call, read loops, counter bump) is proofs/PartialSchedProofs.v. *)
From Coq Require Import List ZArith Lia Bool ZifyBool.
From LJT Require Import model.Partial proofs.PartialSchedProofs.
Import ListNotations.
Local Open Scope Z_scope.

Section Sched.
Variable g : geom.
Hypothesis HM : 1 <= gM g.
Hypothesis Hv : 1 <= gv g.
Hypothesis HH : 0 <= gH g < 4294967296.
Hypothesis Hmv : gmerged g = true -> gv g = 1 \/ gv g = 2.

Ltac splits := repeat match goal with |- _ /\ _ => split end.
Ltac simp_st := cbn [scan bfull rgctr imcu bufrow nro rtg cbuf sfull spare fst snd].
Ltac simp_st_in H := cbn [scan bfull rgctr imcu bufrow nro rtg cbuf sfull spare fst snd] in H.

Notation Inv := (PartialSchedProofs.Inv g).

(* the lemmas of part 1, re-stated under the hypotheses of this section *)
Lemma Inv_scan s p e st : Inv s p e st -> scan st = s /\ 0 <= s < gH g.
Proof. eapply PartialSchedProofs.Inv_scan; eauto. Qed.
Lemma rad_ok n : forall s pend exact st,
  Inv s pend exact st -> s + Z.of_nat n <= gH g ->
  scan (read_and_discard_s g n st) = s + Z.of_nat n /\
  (s + Z.of_nat n < gH g -> Inv (s + Z.of_nat n) (pend && Nat.eqb n 0) exact (read_and_discard_s g n st)).
Proof. intros. eapply PartialSchedProofs.rad_ok; eauto. Qed.
Lemma read_loop_zero fuel st n : n <= 0 -> read_loop_s g fuel st n = (st, [], []).
Proof. eapply PartialSchedProofs.read_loop_zero; eauto. Qed.
Lemma read_loop_bottom fuel st n : gH g <= scan st -> read_loop_s g fuel st n = (st, [], []).
Proof. eapply PartialSchedProofs.read_loop_bottom; eauto. Qed.
Lemma read_loop_ok fuel : forall s pend exact st n,
  Inv s pend exact st -> 0 < n -> n <= Z.of_nat fuel ->
  (exact = true \/ gH g mod gv g = 0 \/ s + n <= gH g) ->
  exists st' cs, read_loop_s g fuel st n = (st', cs, rows_of s (Z.min n (gH g - s))) /\
    scan st' = Z.min (gH g) (s + n) /\ Forall (fun c => 1 <= c) cs /\ zsum cs = Z.min n (gH g - s) /\
    (s + n < gH g -> Inv (s + n) false exact st').
Proof. intros. eapply PartialSchedProofs.read_loop_ok; eauto. Qed.
Lemma decomp_mod s R gi r :
  s = (R * gM g + gi) * gv g + r -> 0 <= R -> 0 <= gi < gM g -> 0 <= r < gv g ->
  s mod gL g = gi * gv g + r /\ s / gL g = R /\ s mod gv g = r.
Proof. eapply PartialSchedProofs.decomp_mod; eauto. Qed.
Lemma Inv_exact_irrelevant s p e e' st :
  merged2v g = false -> gmerged g = true -> Inv s p e st -> Inv s p e' st.
Proof. eapply PartialSchedProofs.Inv_exact_irrelevant; eauto. Qed.
Lemma reset_rtg_ok s p e st :
  Inv s p e st -> scan (reset_rtg g st) = s /\ Inv s p (if gmerged g then e else true) (reset_rtg g st).
Proof. eapply PartialSchedProofs.reset_rtg_ok; eauto. Qed.
Lemma set_rtg_ok s p e st : Inv s p e st -> scan (set_rtg_now g st) = s /\ Inv s p true (set_rtg_now g st).
Proof. eapply PartialSchedProofs.set_rtg_ok; eauto. Qed.
Lemma bump_ok s pend exact st q :
  Inv s pend exact st -> merged2v g = false -> 0 <= q ->
  (s mod gv g = 0 \/ q = 0) -> s mod gL g + gv g * q < gL g -> s + gv g * q < gH g ->
  Inv (s + gv g * q) (pend || (negb (bfull st) && (0 <? q))) (exact && (q =? 0))
      (mkS (scan st + gv g * q) (bfull st) (rgctr st + q) (imcu st) (bufrow st) (nro st) (rtg st) (cbuf st)
           (sfull st) (spare st)).
Proof. eapply PartialSchedProofs.bump_ok; eauto. Qed.
Lemma nat_eqb_z m : 0 <= m -> Nat.eqb (Z.to_nat m) 0 = (m =? 0).
Proof. eapply PartialSchedProofs.nat_eqb_z; eauto. Qed.

Lemma mod_add_small s p L : 0 < L -> 0 <= p -> s mod L + p < L -> (s + p) mod L = s mod L + p.
Proof.
  intros HL Hp Hlt. pose proof (Z.mod_pos_bound s L HL). pose proof (Z.div_mod s L ltac:(lia)).
  symmetry. apply (Z.mod_unique_pos (s + p) L (s / L) (s mod L + p)); lia.
Qed.

(* increment_simple_rowgroup_ctr after the optional pre-read: counter bump, optional rows_to_go reset, remainder read *)
Lemma increment_core s pend exact st rows :
  Inv s pend exact st -> merged2v g = false -> 0 <= rows ->
  (s mod gv g = 0 \/ rows < gv g) -> s mod gL g + rows < gL g -> s + rows < gH g ->
  let st1 := mkS (scan st + (rows - rows mod gv g)) (bfull st) (rgctr st + rows / gv g) (imcu st) (bufrow st)
                 (nro st) (rtg st) (cbuf st) (sfull st) (spare st) in
  let st1' := if gfx4 g && negb (gmerged g) then set_rtg_now g st1 else st1 in
  let st2 := read_and_discard_s g (Z.to_nat (rows mod gv g)) st1' in
  scan st2 = s + rows /\
  Inv (s + rows) ((pend || (negb (bfull st) && (0 <? rows / gv g))) && (rows mod gv g =? 0))
      (if gfx4 g && negb (gmerged g) then true else exact && (rows / gv g =? 0)) st2.
Proof.
  intros HI Em2 Hrows Hal Hin HltH. cbv zeta.
  set (q := rows / gv g). set (m := rows mod gv g).
  assert (Hqm : rows = gv g * q + m /\ 0 <= m < gv g /\ 0 <= q).
  { unfold q, m. pose proof (Z.div_mod rows (gv g)). pose proof (Z.mod_pos_bound rows (gv g)).
    assert (0 <= rows / gv g) by (apply Z.div_pos; lia). lia. }
  destruct Hqm as (Hqm & Hm & Hq).
  replace (rows - m) with (gv g * q) by lia.
  assert (Hal' : s mod gv g = 0 \/ q = 0).
  { destruct Hal as [A | A]; [left; assumption|]. right. unfold q. apply Z.div_small. lia. }
  pose proof (bump_ok s pend exact st q HI Em2 Hq Hal' ltac:(nia) ltac:(nia)) as HB.
  destruct (gfx4 g && negb (gmerged g)) eqn:E4.
  - destruct (set_rtg_ok _ _ _ _ HB) as (_ & HB').
    destruct (rad_ok (Z.to_nat m) (s + gv g * q) _ _ _ HB' ltac:(lia)) as (A & B).
    rewrite Z2Nat.id in A, B by lia. rewrite nat_eqb_z in B by lia.
    replace (s + gv g * q + m) with (s + rows) in A, B by lia.
    split; [assumption|]. apply B. lia.
  - destruct (rad_ok (Z.to_nat m) (s + gv g * q) _ _ _ HB ltac:(lia)) as (A & B).
    rewrite Z2Nat.id in A, B by lia. rewrite nat_eqb_z in B by lia.
    replace (s + gv g * q + m) with (s + rows) in A, B by lia.
    split; [assumption|]. apply B. lia.
Qed.

(* rows of the current row group that increment_simple_rowgroup_ctr reads first (repair of hazard 2) *)
Definition pre_rows (r rows : Z) : Z :=
  if gfx2 g && negb (gmerged g) && negb (r =? 0) then Z.min (gv g - r) rows else 0.

(* increment_simple_rowgroup_ctr inside an iMCU row *)
Lemma increment_ok s pend exact st rows :
  Inv s pend exact st -> 0 <= rows ->
  (merged2v g = false -> s mod gv g = 0 \/ rows < gv g \/ gfx2 g && negb (gmerged g) = true) ->
  s mod gL g + rows < gL g -> s + rows < gH g ->
  let p := pre_rows (s mod gv g) rows in
  scan (increment_s g st rows) = s + rows /\
  Inv (s + rows)
      (if merged2v g then pend && (rows =? 0)
       else (pend || (negb (bfull st) && (0 <? (rows - p) / gv g))) && (p =? 0) && ((rows - p) mod gv g =? 0))
      (if merged2v g then exact
       else if gfx4 g && negb (gmerged g) then true else exact && ((rows - p) / gv g =? 0))
      (increment_s g st rows).
Proof.
  intros HI Hrows Hal Hin HltH. cbv zeta. unfold increment_s. fold (merged2v g).
  destruct (merged2v g) eqn:Em2.
  - destruct (rad_ok (Z.to_nat rows) s pend exact st HI ltac:(lia)) as (A & B).
    rewrite Z2Nat.id in A, B by lia. rewrite nat_eqb_z in B by lia. split; [assumption|]. apply B. lia.
  - specialize (Hal eq_refl).
    pose proof HI as HI0.
    destruct HI0 as (R & gi & r & Hs & HR & Hgi & Hr & HsH & Hscan & Hrg & Hbt & Hbf & Hrtg & Hsep & Hm2).
    assert (HL : gL g = gM g * gv g) by reflexivity. assert (HLpos : 0 < gL g) by nia.
    assert (Hmodv : s mod gv g = r).
    { symmetry. apply (Z.mod_unique_pos s (gv g) (R * gM g + gi) r); lia. }
    rewrite Hmodv in *. unfold pre_rows.
    destruct (gfx2 g && negb (gmerged g)) eqn:E2.
    + (* the repair of hazard 2 is present and the upsampler is the separate one *)
      assert (Emg : gmerged g = false) by (destruct (gmerged g); [rewrite andb_false_r in E2; discriminate | reflexivity]).
      destruct (Hsep Emg) as (Hnro & _).
      destruct (r =? 0) eqn:Er.
      * (* on a row group boundary: nothing to read first *)
        assert (r = 0) by lia. subst r. rewrite Hnro. cbn [Z.eqb negb andb].
        assert (E : (gv g <? gv g) = false) by lia. rewrite E. cbn [read_and_discard_s Z.to_nat].
        change (Z.to_nat 0) with 0%nat. cbn [read_and_discard_s]. rewrite !Z.sub_0_r.
        rewrite Emg. cbn [negb andb]. rewrite andb_true_r.
        pose proof (increment_core s pend exact st rows HI Em2 Hrows ltac:(left; assumption) Hin HltH) as HC.
        cbv zeta in HC. rewrite Emg in HC. cbn [negb andb] in HC. rewrite ?andb_true_r in HC. rewrite ?andb_true_r. exact HC.
      * (* inside a row group: its remaining rows are read first *)
        rewrite Hnro. rewrite ?Er. cbn [negb andb]. assert (E : (r <? gv g) = true) by lia. rewrite E.
        set (p := Z.min (gv g - r) rows).
        assert (Hp : 0 <= p <= rows /\ p <= gv g - r) by (unfold p; lia).
        destruct (Z.eq_dec p 0) as [Hp0 | Hp0].
        { (* rows = 0 *)
          assert (rows = 0) by (unfold p in Hp0; lia). subst rows. rewrite Hp0.
          change (Z.to_nat 0) with 0%nat. cbn [read_and_discard_s]. rewrite Z.sub_0_r.
          rewrite Emg. cbn [negb andb]. cbn [Z.eqb]. rewrite andb_true_r.
          pose proof (increment_core s pend exact st 0 HI Em2 ltac:(lia) ltac:(right; lia) Hin HltH) as HC.
          cbv zeta in HC. rewrite Emg in HC. cbn [negb andb] in HC. rewrite ?andb_true_r in HC. rewrite ?andb_true_r. exact HC. }
        destruct (rad_ok (Z.to_nat p) s pend exact st HI ltac:(lia)) as (A0 & B0).
        rewrite Z2Nat.id in A0, B0 by lia. rewrite nat_eqb_z in B0 by lia.
        assert (E0 : (p =? 0) = false) by lia. rewrite E0 in *. rewrite andb_false_r in B0.
        specialize (B0 ltac:(lia)).
        set (st0 := read_and_discard_s g (Z.to_nat p) st) in *.
        (* after the pre-read the buffer is full: the position is strictly inside the iMCU row *)
        assert (Hbf0 : bfull st0 = true).
        { destruct (bfull st0) eqn:Eb; [reflexivity|]. exfalso.
          destruct B0 as (R' & gi' & r' & Hs' & HR' & Hgi' & Hr' & _ & _ & _ & _ & Hbf' & _).
          destruct (Hbf' Eb) as (_ & Hr0 & Hg0 & _). specialize (Hg0 eq_refl).
          destruct (decomp_mod (s + p) R' gi' r' Hs' HR' Hgi' Hr') as (HmL' & _).
          rewrite (mod_add_small s p (gL g) HLpos ltac:(lia) ltac:(lia)) in HmL'.
          pose proof (Z.mod_pos_bound s (gL g) HLpos). subst r' gi'. lia. }
        assert (Hal0 : (s + p) mod gv g = 0 \/ rows - p < gv g).
        { destruct (Z.eq_dec p (gv g - r)) as [Hpe | Hpe].
          - left. rewrite Hs, Hpe. replace ((R * gM g + gi) * gv g + r + (gv g - r)) with ((R * gM g + gi + 1) * gv g) by lia.
            apply Z.mod_mul. lia.
          - right. unfold p in *. lia. }
        assert (Hin0 : (s + p) mod gL g + (rows - p) < gL g).
        { rewrite (mod_add_small s p (gL g) HLpos ltac:(lia) ltac:(lia)). lia. }
        pose proof (increment_core (s + p) false exact st0 (rows - p) B0 Em2 ltac:(lia) Hal0 Hin0 ltac:(lia)) as HC.
        cbv zeta in HC. rewrite Hbf0 in HC. cbn [negb andb orb] in HC.
        replace (s + p + (rows - p)) with (s + rows) in HC by lia.
        rewrite Emg in HC. rewrite Emg. rewrite Hbf0. cbn [negb andb] in HC. cbn [negb andb]. rewrite ?andb_true_r in HC. rewrite ?andb_true_r, ?andb_false_r. cbn [andb]. exact HC.
    + (* no pre-read *)
      cbn [andb]. change (Z.to_nat 0) with 0%nat. cbn [read_and_discard_s]. rewrite !Z.sub_0_r. cbn [Z.eqb]. rewrite andb_true_r.
      assert (Hal1 : r = 0 \/ rows < gv g) by (destruct Hal as [A | [A | A]]; [left; exact A | right; exact A | discriminate A]).
      rewrite <- Hmodv in Hal1.
      apply (increment_core s pend exact st rows HI Em2 Hrows Hal1 Hin HltH).
Qed.

(* ---------- the abstract tracker and the state ---------- *)
Definition Rel (a : astate) (st : sst) : Prop :=
  scan st = a_s a /\ 0 <= a_s a <= gH g /\ (a_s a < gH g -> Inv (a_s a) (a_pend a) (a_exact a) st).

Lemma jdim_small x : 0 <= x < 4294967296 -> jdim x = x.
Proof. intros. unfold jdim. apply Z.mod_small. lia. Qed.

(* a state sitting exactly on an iMCU row boundary with an empty buffer *)
Lemma boundary_inv R2 e br nr' rt' cb sf sp :
  0 <= R2 -> R2 * gL g < gH g ->
  (gmerged g = false \/ gv g = 2 -> gH g - R2 * gL g <= rt' /\ (e = true -> rt' = gH g - R2 * gL g)) ->
  (gmerged g = false -> nr' = gv g) ->
  (merged2v g = true -> sf = false) ->
  Inv (R2 * gL g) false e (mkS (R2 * gL g) false 0 R2 br nr' rt' cb sf sp).
Proof.
  intros HR Hlt Hrt Hnr Hsf. exists R2, 0, 0. simp_st. unfold gL in *.
  splits; try lia; try discriminate; try reflexivity; auto.
  all: try (intros _; splits; auto; lia).
  all: try (intros Hm; rewrite (Hnr Hm); split; [reflexivity | lia]).
  all: try (intros Hm; rewrite (Hsf Hm); splits; auto; lia).
Qed.

Lemma ltr_pos_equiv ltr v : 1 <= v -> 0 <= ltr ->
  (0 <? ltr / v) && (ltr mod v =? 0) = (0 <? ltr) && (ltr mod v =? 0).
Proof.
  intros Hv1 Hl. destruct (ltr mod v =? 0) eqn:E; [|rewrite !andb_false_r; reflexivity].
  rewrite !andb_true_r. pose proof (Z.div_mod ltr v ltac:(lia)).
  assert (ltr mod v = 0) by lia. assert (0 <= ltr / v) by (apply Z.div_pos; lia).
  destruct (0 <? ltr) eqn:E1; destruct (0 <? ltr / v) eqn:E2; try reflexivity; nia.
Qed.

Lemma andb_sum0 e x y : 0 <= x -> 0 <= y -> (e && (x =? 0)) && (y =? 0) = e && (x + y =? 0).
Proof. intros. destruct e; cbn [andb]; [|reflexivity]. destruct (x =? 0) eqn:A, (y =? 0) eqn:B, (x + y =? 0) eqn:C; cbn; try reflexivity; lia. Qed.

(* from an iMCU row boundary with an empty buffer: whole iMCU rows are skipped, the remainder is handled by
   increment_simple_rowgroup_ctr, rows_to_go is reset *)
Lemma cross_tail br nr' rt' cb sf sp R1 la e1 :
  0 <= R1 -> 0 <= la -> R1 * gL g + la < gH g ->
  (gmerged g = false -> nr' = gv g /\ rt' = gH g - R1 * gL g) ->
  (merged2v g = true -> sf = false /\ gH g - R1 * gL g <= rt' /\ (e1 = true -> rt' = gH g - R1 * gL g)) ->
  let st2 := mkS (R1 * gL g + la / gL g * gL g) false 0 (R1 + la / gL g * gL g / gL g) br nr' rt' cb sf sp in
  let st4 := reset_rtg_final g (increment_s g st2 (la - la / gL g * gL g)) in
  scan st4 = R1 * gL g + la /\
  Inv (R1 * gL g + la) (negb (merged2v g) && (0 <? la mod gL g) && (la mod gL g mod gv g =? 0))
      (if merged2v g then gfx4 g || (e1 && (la - la mod gL g =? 0)) else true) st4.
Proof.
  intros HR1 Hla0 HltH Hsepc Hm2c. cbv zeta.
  assert (HL : gL g = gM g * gv g) by reflexivity. assert (HLpos : 0 < gL g) by nia.
  set (qq := la / gL g). set (ltr := la mod gL g).
  assert (Hla : la = gL g * qq + ltr /\ 0 <= ltr < gL g /\ 0 <= qq).
  { unfold qq, ltr. pose proof (Z.div_mod la (gL g)). pose proof (Z.mod_pos_bound la (gL g)).
    assert (0 <= la / gL g) by (apply Z.div_pos; lia). lia. }
  destruct Hla as (Hla & Hltr & Hqq).
  replace (la - qq * gL g) with ltr by lia.
  replace (qq * gL g / gL g) with qq by (rewrite Z.div_mul by lia; reflexivity).
  set (R2 := R1 + qq).
  replace (R1 * gL g + qq * gL g) with (R2 * gL g) by (unfold R2; lia).
  assert (Hs2n : R2 * gL g + ltr = R1 * gL g + la) by (unfold R2; lia).
  assert (Hmod2v : (R2 * gL g) mod gv g = 0).
  { rewrite HL. replace (R2 * (gM g * gv g)) with (R2 * gM g * gv g) by lia. apply Z.mod_mul. lia. }
  assert (Hmod2L : (R2 * gL g) mod gL g = 0) by (apply Z.mod_mul; lia).
  set (e2 := (if gmerged g then e1 else true) && (qq =? 0)).
  assert (HB : Inv (R2 * gL g) false e2 (mkS (R2 * gL g) false 0 R2 br nr' rt' cb sf sp)).
  { apply boundary_inv; [unfold R2; lia | unfold R2; nia | | | ].
    - intros Hm. unfold e2. destruct (gmerged g) eqn:Emg.
      + destruct Hm as [Hm | Hm]; [discriminate|].
        assert (Em : merged2v g = true) by (unfold merged2v; rewrite Emg; assert (E : (gv g =? 2) = true) by lia; now rewrite E).
        destruct (Hm2c Em) as (_ & A & B). split; [unfold R2; nia|].
        intros He. apply andb_true_iff in He. destruct He as (He1 & He2). rewrite (B He1). unfold R2. nia.
      + destruct (Hsepc eq_refl) as (_ & ->). split; [unfold R2; nia|].
        intros He. cbn [andb] in He. unfold R2. nia.
    - intros Hm. apply (Hsepc Hm).
    - intros Hm. apply (Hm2c Hm). }
  destruct (increment_ok _ _ _ _ ltr HB ltac:(lia) ltac:(intros; left; exact Hmod2v) ltac:(lia) ltac:(lia))
    as (Hsc3 & HI3).
  rewrite Hmod2v in HI3. unfold pre_rows in HI3. cbn [Z.eqb negb] in HI3. rewrite andb_false_r in HI3.
  rewrite Z.sub_0_r in HI3. simp_st_in HI3. cbn [negb andb orb Z.eqb] in HI3. rewrite andb_true_r in HI3.
  rewrite Hs2n in HI3, Hsc3.
  set (st3 := increment_s g (mkS (R2 * gL g) false 0 R2 br nr' rt' cb sf sp) ltr) in *.
  assert (Hqz : (qq * gL g =? 0) = (qq =? 0)).
  { destruct (qq =? 0) eqn:E; [assert (qq = 0) by lia; subst qq; lia | nia]. }
  replace (la - ltr) with (qq * gL g) by lia. rewrite Hqz.
  unfold reset_rtg_final.
  destruct (gmerged g && negb (gfx4 g)) eqn:Ekeep.
  - (* merged upsampler without the repair of hazard 4: rows_to_go is left alone *)
    assert (Emg : gmerged g = true) by (destruct (gmerged g); [reflexivity | discriminate]).
    assert (E4 : gfx4 g = false) by (destruct (gfx4 g); [rewrite Emg in Ekeep; discriminate | reflexivity]).
    split; [assumption|].
    destruct (merged2v g) eqn:Em.
    + cbn [negb andb]. rewrite E4. cbn [orb]. unfold e2 in HI3. rewrite Emg in HI3. exact HI3.
    + cbn [negb andb]. rewrite (ltr_pos_equiv ltr (gv g)) in HI3 by lia.
      eapply Inv_exact_irrelevant; eauto.
  - destruct (set_rtg_ok _ _ _ _ HI3) as (A & B). split; [assumption|].
    destruct (merged2v g) eqn:Em.
    + cbn [negb andb]. assert (E4 : gfx4 g = true).
      { destruct (gfx4 g); [reflexivity|]. unfold merged2v in Em. destruct (gmerged g); discriminate. }
      rewrite E4. cbn [orb]. exact B.
    + cbn [negb andb]. rewrite (ltr_pos_equiv ltr (gv g)) in B by lia. exact B.
Qed.

Lemma skip_ok a st n a' :
  Rel a st -> 0 <= n -> haz_step g a (Skip n) = (0, a') ->
  exists st', skip_s g st n = (st', a_s a' - a_s a) /\ Rel a' st' /\ a_s a' = Z.min (gH g) (a_s a + n).
Proof.
  intros (Hsc & Hs & HI) Hn Hh. unfold haz_step in Hh. unfold skip_s. rewrite Hsc.
  set (s := a_s a) in *.
  destruct (gH g <=? s + n) eqn:E1.
  { inversion Hh; subst a'. cbn [a_s]. eexists. split; [rewrite jdim_small by lia; reflexivity|]. split; [|lia].
    unfold Rel, set_scan. simp_st. cbn [a_s a_pend a_exact]. splits; try lia. }
  destruct (n =? 0) eqn:E2.
  { inversion Hh; subst a'. exists st. assert (n = 0) by lia. subst n. fold s.
    split; [f_equal; lia|]. split; [unfold Rel; fold s; auto | lia]. }
  assert (HsH : s < gH g) by lia. specialize (HI HsH).
  pose proof HI as HI0.
  destruct HI0 as (R & gi & r & Hs_ & HR & Hgi & Hr & _ & Hscan & Hrg & Hbt & Hbf & Hrtg & Hsep & Hm2).
  destruct (decomp_mod s R gi r Hs_ HR Hgi Hr) as (HmL & HdL & Hmv_).
  rewrite Hmv_ in Hh.
  assert (HL : gL g = gM g * gv g) by reflexivity. assert (HLpos : 0 < gL g) by nia.
  assert (Hoff : 0 <= gi * gv g + r < gL g) by nia.
  set (ll := (gL g - s mod gL g) mod gL g) in *.
  assert (Hll : (gi * gv g + r = 0 /\ ll = 0) \/ (0 < gi * gv g + r /\ ll = gL g - (gi * gv g + r))).
  { unfold ll. rewrite HmL. destruct (Z.eq_dec (gi * gv g + r) 0) as [E | E].
    - left. split; [assumption|]. rewrite E, Z.sub_0_r. apply Z_mod_same_full.
    - right. split; [lia|]. apply Z.mod_small. lia. }
  assert (Hll0 : 0 <= ll < gL g) by (apply Z.mod_pos_bound; lia).
  clearbody ll.
  destruct (n <? ll) eqn:E3.
  - (* the skip stays inside the current iMCU row *)
    destruct Hll as [(A & B) | (Hoff0 & Hlleq)]; [lia|].
    set (p := pre_rows r n).
    assert (Hpdef : (if gfx2 g && negb (gmerged g) && negb (r =? 0) then Z.min (gv g - r) n else 0) = p) by reflexivity.
    rewrite Hpdef in Hh.
    assert (Hp : 0 <= p <= n) by (unfold p, pre_rows; destruct (gfx2 g && negb (gmerged g) && negb (r =? 0)); lia).
    assert (Hal : merged2v g = false -> s mod gv g = 0 \/ n < gv g \/ gfx2 g && negb (gmerged g) = true).
    { intros Em. rewrite Em in Hh. rewrite Hmv_.
      destruct ((r =? 0) || (n <? gv g) || (0 <? p)) eqn:Ec; [|inversion Hh].
      destruct (r =? 0) eqn:Er; [left; lia|]. destruct (n <? gv g) eqn:En; [right; left; lia|].
      right; right. cbn [orb] in Ec. unfold p, pre_rows in Ec.
      destruct (gfx2 g && negb (gmerged g)); [reflexivity|]. cbn [andb] in Ec. discriminate. }
    destruct (increment_ok s (a_pend a) (a_exact a) st n HI Hn Hal ltac:(lia) ltac:(lia)) as (Hsc' & HI').
    rewrite Hmv_ in HI'. fold p in HI'.
    exists (increment_s g st n).
    destruct (merged2v g) eqn:Em.
    + inversion Hh; subst a'. cbn [a_s]. split; [f_equal; lia|]. split; [|lia].
      unfold Rel. cbn [a_s a_pend a_exact]. splits; try lia. intros _.
      replace (a_pend a && (n =? 0)) with false in HI' by (rewrite E2, andb_false_r; reflexivity). exact HI'.
    + destruct ((r =? 0) || (n <? gv g) || (0 <? p)) eqn:Ec; [|inversion Hh].
      inversion Hh; subst a'. cbn [a_s]. split; [f_equal; lia|]. split; [|lia].
      unfold Rel. cbn [a_s a_pend a_exact]. splits; try lia. intros _.
      (* the pending flag is unchanged by the row-group counter bump *)
      assert (Hpp : (a_pend a || (negb (bfull st) && (0 <? (n - p) / gv g))) = a_pend a).
      { destruct (bfull st) eqn:Eb; [cbn [negb andb]; apply orb_false_r|].
        destruct (Hbf eq_refl) as (_ & Hr0 & C & _). destruct (a_pend a); [reflexivity|].
        specialize (C eq_refl). lia. }
      rewrite Hpp in HI'.
      assert (He : ((n - p) / gv g =? 0) = (n - p <? gv g)).
      { destruct (n - p <? gv g) eqn:En.
        - rewrite Z.div_small by lia. reflexivity.
        - assert (0 < (n - p) / gv g) by (apply Z.div_str_pos; lia). lia. }
      rewrite He in HI'. exact HI'.
  - (* the skip reaches the end of the current iMCU row *)
    destruct (a_pend a && negb (gfx1 g)) eqn:Eh1; [inversion Hh|].
    destruct (merged2v g && (r =? 1)) eqn:Esp; [inversion Hh|].
    inversion Hh; subst a'. clear Hh. cbn [a_s].
    (* rewind (repaired hazard 1) exactly when an iMCU row is pending *)
    assert (Hrew : (gfx1 g && negb (bfull st) && (0 <? ll)) = a_pend a).
    { destruct (a_pend a) eqn:Ep.
      - assert (Eg1 : gfx1 g = true) by (destruct (gfx1 g); [reflexivity | discriminate]).
        destruct (bfull st) eqn:Eb; [destruct (Hbt eq_refl) as (_ & _ & _ & C); discriminate|].
        destruct (Hbf eq_refl) as (_ & Hr0 & _ & D). specialize (D eq_refl).
        rewrite Eg1. cbn [negb andb]. destruct Hll as [(A & B) | (A & B)]; [nia|]. lia.
      - destruct (bfull st) eqn:Eb; [rewrite andb_false_r; reflexivity|].
        destruct (Hbf eq_refl) as (_ & Hr0 & C & _). specialize (C eq_refl).
        destruct Hll as [(A & B) | (A & B)]; [|nia]. rewrite B. cbn [Z.ltb Z.compare]. rewrite andb_false_r. reflexivity. }
    (* the iMCU row the jump starts from, and how many lines remain after its first line *)
    set (R1 := if a_pend a then R else if gi * gv g + r =? 0 then R else R + 1).
    set (laE := if a_pend a then n + (gL g - ll) else n - ll).
    set (scanE := if a_pend a then s - (gL g - ll) + 0 else s + ll).
    assert (HR1 : imcu st = R1 /\ scanE = R1 * gL g /\ 0 <= R1 /\ 0 <= laE /\ R1 * gL g + laE = s + n).
    { unfold R1, laE, scanE. destruct (a_pend a) eqn:Ep.
      - destruct (bfull st) eqn:Eb; [destruct (Hbt eq_refl) as (_ & _ & _ & C); discriminate|].
        destruct (Hbf eq_refl) as (C & Hr0 & _ & D). specialize (D eq_refl).
        destruct Hll as [(A & B) | (A & B)]; [nia|]. splits; try lia; try nia.
      - destruct Hll as [(A & B) | (A & B)].
        + assert (E : (gi * gv g + r =? 0) = true) by lia. rewrite E.
          assert (gi = 0 /\ r = 0) by nia.
          destruct (bfull st) eqn:Eb.
          * destruct (Hbt eq_refl) as (_ & _ & C & _). lia.
          * destruct (Hbf eq_refl) as (C & _). splits; try lia; try nia.
        + assert (E : (gi * gv g + r =? 0) = false) by lia. rewrite E.
          destruct (bfull st) eqn:Eb.
          * destruct (Hbt eq_refl) as (_ & C & _). splits; try lia; try nia.
          * destruct (Hbf eq_refl) as (_ & C & D & _). specialize (D eq_refl). nia. }
    destruct HR1 as (Him & Hs1 & HR1pos & HlaE & HsumE).
    assert (Hpm2 : a_pend a = true -> merged2v g = false).
    { intros Ep. destruct (merged2v g) eqn:Em; [|reflexivity]. destruct (Hm2 eq_refl) as (_ & _ & C). congruence. }
    destruct st as [sc bf rc im br nr rt cb sf sp]. simp_st. simp_st_in Hscan. simp_st_in Him. simp_st_in Hrtg.
    simp_st_in Hm2. simp_st_in HI. simp_st_in Hrew. subst sc im.
    rewrite Hrew.
    (* bring the state after the "rest of the iMCU row" step into the form of cross_tail *)
    assert (Hform : (if a_pend a then s - (gL g - ll) else s) + (if a_pend a then 0 else ll) = R1 * gL g).
    { rewrite <- Hs1. unfold scanE. destruct (a_pend a); lia. }
    assert (HlaF : (if a_pend a then n + (gL g - ll) else n - ll) = laE) by reflexivity.
    rewrite HlaF.
    set (e1 := a_exact a && (ll =? 0)).
    try clear HI; try clear Hbt; try clear Hbf; try clear Hsep; try clear Hrg; try clear Hll; try clear HmL; try clear HdL.
    destruct (Bool.bool_dec (gmerged g) true) as [Emg | Emg].
    + (* merged upsampler *)
      unfold reset_rtg. rewrite Emg. simp_st. rewrite Hform.
      destruct (cross_tail br nr rt cb sf sp R1 laE e1 HR1pos HlaE ltac:(lia)) as (Hsc4 & HI4).
      * rewrite Emg. discriminate.
      * intros Em. destruct (a_pend a) eqn:Ep; [rewrite (Hpm2 eq_refl) in Em; discriminate|].
        rewrite Em in Esp. cbn [andb] in Esp. destruct (Hm2 Em) as (A & _ & _).
        assert (Hv2 : gv g = 2).
        { pose proof Em as Em'. unfold merged2v in Em'. apply andb_true_iff in Em'. destruct Em' as (_ & Ev). lia. }
        destruct (Hrtg (or_intror Hv2)) as (B & C).
        unfold scanE in Hs1. splits.
        -- rewrite A. exact Esp.
        -- lia.
        -- intros He. unfold e1 in He. apply andb_true_iff in He. destruct He as (He1 & He2). rewrite (C He1). lia.
      * eexists. split; [f_equal; first [reflexivity | lia]|]. split; [|lia].
        unfold Rel. cbn [a_s a_pend a_exact]. fold s. rewrite HsumE in Hsc4, HI4. splits; try lia. intros _.
        destruct (a_pend a) eqn:Ep.
        -- rewrite (Hpm2 eq_refl) in *. cbn [negb andb] in *. rewrite Z.sub_0_r. exact HI4.
        -- unfold laE in HI4. rewrite Z.add_0_r.
           destruct (merged2v g) eqn:Em; [|exact HI4].
           unfold e1 in HI4. rewrite andb_sum0 in HI4; [exact HI4 | lia |].
           pose proof (Z.mod_le (n - ll) (gL g) ltac:(lia) HLpos). lia.
    + (* separate upsampler: next_row_out and rows_to_go are reset *)
      apply not_true_is_false in Emg. unfold reset_rtg, set_rtg_now. rewrite Emg. simp_st. rewrite Hform.
      assert (Em : merged2v g = false) by (unfold merged2v; rewrite Emg; reflexivity).
      destruct (cross_tail br (gv g) (gH g - R1 * gL g) cb sf sp R1 laE e1 HR1pos HlaE ltac:(lia)) as (Hsc4 & HI4).
      * intros _. split; reflexivity.
      * rewrite Em. discriminate.
      * eexists. split; [f_equal; first [reflexivity | lia]|]. split; [|lia].
        unfold Rel. cbn [a_s a_pend a_exact]. fold s. rewrite HsumE in Hsc4, HI4. splits; try lia. intros _.
        rewrite Em in *. cbn [negb andb] in *.
        destruct (a_pend a) eqn:Ep; unfold laE in HI4; [rewrite Z.sub_0_r | rewrite Z.add_0_r]; exact HI4.
Qed.

Lemma rows_of_zero s : rows_of s 0 = [].
Proof. reflexivity. Qed.

Lemma read_ok a st n a' :
  Rel a st -> haz_step g a (Read n) = (0, a') ->
  exists st' cs, read_loop_s g (Z.to_nat n) st n = (st', cs, rows_of (a_s a) (a_s a' - a_s a)) /\
    Rel a' st' /\ a_s a' = Z.min (gH g) (a_s a + Z.max 0 n) /\
    Forall (fun c => 1 <= c) cs /\ zsum cs = a_s a' - a_s a.
Proof.
  intros (Hsc & Hs & HI) Hh. unfold haz_step in Hh. set (s := a_s a) in *.
  destruct (n <=? 0) eqn:E1.
  { cbn [orb] in Hh. inversion Hh; subst a'. fold s. rewrite read_loop_zero by lia.
    exists st, []. replace (s - s) with 0 by lia. rewrite rows_of_zero.
    splits; try lia; try reflexivity; [unfold Rel; fold s; auto | constructor]. }
  destruct (gH g <=? s) eqn:E2.
  { cbn [orb] in Hh. inversion Hh; subst a'. fold s. rewrite read_loop_bottom by lia.
    exists st, []. replace (s - s) with 0 by lia. rewrite rows_of_zero.
    splits; try lia; try reflexivity; [unfold Rel; fold s; auto | constructor]. }
  cbn [orb] in Hh.
  destruct (negb (a_exact a) && (gH g <? s + n) && negb (gH g mod gv g =? 0)) eqn:E3; [inversion Hh|].
  inversion Hh; subst a'. clear Hh. cbn [a_s].
  assert (HsH : s < gH g) by lia. specialize (HI HsH).
  assert (Hside : a_exact a = true \/ gH g mod gv g = 0 \/ s + n <= gH g).
  { destruct (a_exact a); [left; reflexivity|]. cbn [negb andb] in E3.
    destruct (gH g <? s + n) eqn:E4; [|right; right; lia]. cbn [andb] in E3.
    right; left. destruct (gH g mod gv g =? 0) eqn:E5; [lia|discriminate]. }
  destruct (read_loop_ok (Z.to_nat n) s (a_pend a) (a_exact a) st n HI ltac:(lia) ltac:(lia) Hside)
    as (st' & cs & Hrl & Hsc' & Hall & Hsum & HI').
  exists st', cs. replace (Z.min (gH g) (s + n) - s) with (Z.min n (gH g - s)) by lia.
  splits; try assumption; try lia.
  unfold Rel. cbn [a_s a_pend a_exact]. splits; try lia. intros Hlt. replace (Z.min (gH g) (s + n)) with (s + n) by lia.
  apply HI'. lia.
Qed.

Definition op_nonneg (o : op) : Prop := match o with Read _ => True | Skip n => 0 <= n end.
Definition op_amount (o : op) : Z := match o with Read n => Z.max 0 n | Skip n => n end.

(* what one op must produce when it starts at scanline s *)
Definition op_result_ok (s : Z) (o : op) (cs : list Z) (rs : list prov) (after : Z) : Prop :=
  after = Z.min (gH g) (s + op_amount o) /\
  zsum cs = after - s /\
  match o with
  | Read _ => rs = rows_of s (after - s) /\ Forall (fun c => 1 <= c) cs
  | Skip _ => rs = [] /\ cs = [after - s]
  end.

Lemma step_ok a st o a' :
  Rel a st -> op_nonneg o -> haz_step g a o = (0, a') ->
  exists st' cs rs, step_s g st o = (st', (cs, rs)) /\ Rel a' st' /\ op_result_ok (a_s a) o cs rs (a_s a').
Proof.
  intros HR Hnn Hh. destruct o as [n | n]; cbn [step_s].
  - destruct (read_ok a st n a' HR Hh) as (st' & cs & Hrl & HR' & Hpos & Hall & Hsum).
    rewrite Hrl. exists st', cs, (rows_of (a_s a) (a_s a' - a_s a)).
    splits; try assumption; try reflexivity. unfold op_result_ok. cbn [op_amount]. splits; auto.
  - cbn in Hnn. destruct (skip_ok a st n a' HR Hnn Hh) as (st' & Hsk & HR' & Hpos).
    rewrite Hsk. exists st', [a_s a' - a_s a], [].
    splits; try assumption; try reflexivity. unfold op_result_ok. cbn [op_amount zsum]. splits; auto; lia.
Qed.

Fixpoint trace_ok (s : Z) (ops : list op) (tr : list (Z * list Z * list prov * Z)) : Prop :=
  match ops, tr with
  | [], [] => True
  | o :: t, (before, cs, rs, after) :: tr' => before = s /\ op_result_ok s o cs rs after /\ trace_ok after t tr'
  | _, _ => False
  end.

Fixpoint final_pos (s : Z) (ops : list op) : Z :=
  match ops with [] => s | o :: t => final_pos (Z.min (gH g) (s + op_amount o)) t end.

Lemma run_ok ops : forall a st,
  Forall op_nonneg ops -> Rel a st -> first_hazard g a ops = 0 ->
  scan (fst (run_s g st ops)) = final_pos (a_s a) ops /\ trace_ok (a_s a) ops (snd (run_s g st ops)).
Proof.
  induction ops as [|o t IH]; intros a st Hnn HR Hfh.
  - cbn. split; [apply HR | exact I].
  - inversion Hnn as [|? ? Ho Ht]; subst.
    cbn [first_hazard] in Hfh. destruct (haz_step g a o) as [h a1] eqn:Eh.
    destruct (h =? 0) eqn:Eh0; [|lia]. assert (h = 0) by lia. subst h.
    destruct (step_ok a st o a1 HR Ho Eh) as (st1 & cs & rs & Hst & HR1 & Hres).
    cbn [run_s]. rewrite Hst.
    destruct (IH a1 st1 Ht HR1 Hfh) as (A & B).
    destruct (run_s g st1 t) as [st2 tr] eqn:Er. cbn [fst snd] in *.
    assert (Hsc : scan st = a_s a) by apply HR. assert (Hsc1 : scan st1 = a_s a1) by apply HR1.
    assert (Hpos : a_s a1 = Z.min (gH g) (a_s a + op_amount o)) by apply Hres.
    split.
    + cbn [final_pos]. rewrite <- Hpos. exact A.
    + cbn [trace_ok]. rewrite Hsc, Hsc1. splits; auto.
Qed.

Lemma Rel_init : Rel a_init (s_init g).
Proof.
  unfold Rel, a_init, s_init. cbn [a_s a_pend a_exact]. simp_st. splits; try lia.
  intros HltH. exists 0, 0, 0. simp_st. splits; try lia; try discriminate; try reflexivity.
  all: try (intros _; splits; auto; lia).
Qed.

Lemma final_pos_min ops : forall s, 0 <= s <= gH g -> Forall op_nonneg ops ->
  final_pos s ops = Z.min (gH g) (s + fold_right (fun o acc => op_amount o + acc) 0 ops).
Proof.
  induction ops as [|o t IH]; intros s Hs Hnn; cbn [final_pos fold_right]; [lia|].
  inversion Hnn as [|? ? Ho Ht]; subst.
  assert (0 <= op_amount o) by (destruct o; cbn in *; lia).
  assert (Hacc : 0 <= fold_right (fun o acc => op_amount o + acc) 0 t).
  { clear -Ht. induction t as [|o' t' IH']; cbn; [lia|]. inversion Ht; subst.
    assert (0 <= op_amount o') by (destruct o'; cbn in *; lia). specialize (IH' H2). lia. }
  rewrite IH by (try assumption; lia). lia.
Qed.

End Sched.

(* ------------------------------------------------------------------ *)
(* statements exported to props/C08.v                                   *)
(* ------------------------------------------------------------------ *)
Ltac splits := repeat match goal with |- _ /\ _ => split end.
Definition geom_ok (g : geom) : Prop :=
  1 <= gM g /\ 1 <= gv g /\ 0 <= gH g < 4294967296 /\ (gmerged g = true -> gv g = 1 \/ gv g = 2).

Definition total_requested (ops : list op) : Z := fold_right (fun o acc => op_amount o + acc) 0 ops.

(* (scanline at which it was delivered, provenance) of every delivered row of a trace *)
Fixpoint delivered (tr : list (Z * list Z * list prov * Z)) : list (Z * prov) :=
  match tr with
  | [] => []
  | (before, _, rs, _) :: t => combine (zseq before (length rs)) rs ++ delivered t
  end.

Definition run_result_ok (g : geom) (ops : list op) : Prop :=
  let res := run_s g (s_init g) ops in
  scan (fst res) = Z.min (gH g) (total_requested ops) /\
  trace_ok g 0 ops (snd res) /\
  Forall (fun yp => snd yp = ideal_s (fst yp) /\ 0 <= fst yp < gH g) (delivered (snd res)).

Lemma combine_rows_of s k :
  Forall (fun yp => snd yp = ideal_s (fst yp) /\ s <= fst yp < s + Z.max 0 k)
         (combine (zseq s (length (rows_of s k))) (rows_of s k)).
Proof.
  unfold rows_of. rewrite map_length, zseq_length.
  assert (Hk : Z.max 0 k = Z.of_nat (Z.to_nat k)) by lia. rewrite Hk. clear Hk.
  generalize (Z.to_nat k) as n. intros n. revert s.
  induction n as [|n IH]; intros s; cbn [zseq map combine]; [constructor|].
  constructor; [cbn; split; [reflexivity|lia]|].
  eapply Forall_impl; [|apply IH]. intros [y p] (A & B). cbn in *. split; [assumption|lia].
Qed.

Lemma delivered_ok g ops : forall s tr, Forall op_nonneg ops -> 0 <= s <= gH g -> trace_ok g s ops tr ->
  Forall (fun yp => snd yp = ideal_s (fst yp) /\ 0 <= fst yp < gH g) (delivered tr).
Proof.
  induction ops as [|o t IH]; intros s tr Hnn Hs Htr; destruct tr as [|[[[before cs] rs] after] tr']; cbn in Htr; try contradiction.
  - constructor.
  - destruct Htr as (-> & (Haft & Hsum & Ho) & Hrest). cbn [delivered].
    assert (Hno : op_nonneg o) by (inversion Hnn; assumption).
    assert (Hnt : Forall op_nonneg t) by (inversion Hnn; assumption).
    assert (Hamt : 0 <= after - s) by (destruct o; cbn in *; lia).
    apply Forall_app. split.
    + destruct o as [n | n].
      * destruct Ho as (-> & _). eapply Forall_impl; [|apply combine_rows_of].
        intros [y p] (A & B). cbn in *. split; [assumption|lia].
      * destruct Ho as (-> & _). constructor.
    + apply (IH after); [assumption | lia | assumption].
Qed.

(* Theorem (3)+(4), no-context main controller incl. merged upsampling, for all geometries and all histories
   without hazard *)
Theorem skip_read_equals_full_no_hazard :
  forall g ops, geom_ok g -> Forall op_nonneg ops -> first_hazard g a_init ops = 0 -> run_result_ok g ops.
Proof.
  intros g ops (HM & Hv & HH & Hmv) Hnn Hfh. unfold run_result_ok.
  destruct (run_ok g HM Hv HH Hmv ops a_init (s_init g) Hnn (Rel_init g HM Hv HH Hmv) Hfh) as (A & B).
  cbn [a_s a_init] in A, B. splits.
  - rewrite A. rewrite (final_pos_min g HH Hmv ops 0) by (try assumption; lia). unfold total_requested. f_equal.
  - exact B.
  - apply (delivered_ok g ops 0); [assumption | lia | exact B].
Qed.

(* the full statement is false for the code that exists: one witness per hazard class *)
Definition skip_read_equals_full_full : Prop :=
  forall g ops, geom_ok g -> Forall op_nonneg ops -> run_result_ok g ops.

Definition wg (M v H : Z) (merged : bool) : geom := mkGeom M v H ((H + M * v - 1) / (M * v)) merged false 1 H H false 1 H false false false false.

Definition bad_row (g : geom) (ops : list op) (y : Z) (p : prov) : Prop :=
  In (y, p) (delivered (snd (run_s g (s_init g) ops))) /\ p <> ideal_s y.

Lemma witness_geom_ok M v H merged :
  (1 <=? M) && (1 <=? v) && (0 <=? H) && (H <? 4294967296) && (negb merged || (v =? 1) || (v =? 2)) = true ->
  geom_ok (wg M v H merged).
Proof. unfold geom_ok, wg. cbn [gM gv gH gmerged]. intros Hb. splits; lia. Qed.

(* hazard 1: two skips in a row, the first one ends inside an iMCU row without reading a line of it *)
Lemma refuted_skip_after_skip :
  let g := wg 2 1 30 false in let ops := [Skip 3; Skip 1; Read 1] in
  geom_ok g /\ Forall op_nonneg ops /\ first_hazard g a_init ops = 1 /\ bad_row g ops 4 (2, -1).
Proof.
  cbv zeta. splits.
  - apply witness_geom_ok. reflexivity.
  - repeat constructor; cbn; lia.
  - vm_compute. reflexivity.
  - split; [vm_compute; auto | discriminate].
Qed.

(* hazard 2: a skip of >= v rows that starts inside a row group (separate upsampler, v = 2) *)
Lemma refuted_skip_mid_rowgroup :
  let g := wg 8 2 60 false in let ops := [Read 1; Skip 2; Read 1] in
  geom_ok g /\ Forall op_nonneg ops /\ first_hazard g a_init ops = 2 /\ bad_row g ops 3 (1, -1).
Proof.
  cbv zeta. splits.
  - apply witness_geom_ok. reflexivity.
  - repeat constructor; cbn; lia.
  - vm_compute. reflexivity.
  - split; [vm_compute; auto | discriminate].
Qed.

(* hazard 3: merged 2v upsampling, the spare row is occupied when a skip reaches the iMCU row end
   (this is "djpeg -fast -skip 1,20" of the ctest suite) *)
Lemma refuted_merged_spare_row :
  let g := wg 8 2 53 true in let ops := [Read 1; Skip 20; Read 1] in
  geom_ok g /\ Forall op_nonneg ops /\ first_hazard g a_init ops = 3 /\ bad_row g ops 21 (22, -1).
Proof.
  cbv zeta. splits.
  - apply witness_geom_ok. reflexivity.
  - repeat constructor; cbn; lia.
  - vm_compute. reflexivity.
  - split; [vm_compute; auto | discriminate].
Qed.

(* hazard 4: rows_to_go is not maintained by the skip; a read with max_lines >= 2 at the last row of an
   image of odd height returns 2 rows and output_scanline passes output_height *)
Lemma refuted_rows_to_go :
  let g := wg 8 2 53 true in let ops := [Skip 21; Read 40] in
  geom_ok g /\ Forall op_nonneg ops /\ first_hazard g a_init ops = 4 /\
  scan (fst (run_s g (s_init g) ops)) = gH g + 1.
Proof.
  cbv zeta. splits.
  - apply witness_geom_ok. reflexivity.
  - repeat constructor; cbn; lia.
  - vm_compute. reflexivity.
  - vm_compute. reflexivity.
Qed.

Lemma refuted_rows_to_go_sep :
  let g := wg 8 2 53 false in let ops := [Read 2; Skip 2; Read 60] in
  geom_ok g /\ Forall op_nonneg ops /\ first_hazard g a_init ops = 4 /\
  scan (fst (run_s g (s_init g) ops)) = gH g + 1.
Proof.
  cbv zeta. splits.
  - apply witness_geom_ok. reflexivity.
  - repeat constructor; cbn; lia.
  - vm_compute. reflexivity.
  - vm_compute. reflexivity.
Qed.

Theorem skip_read_equals_full_refuted : ~ skip_read_equals_full_full.
Proof.
  intros Hfull.
  destruct refuted_skip_after_skip as (Hg & Hnn & _ & (Hin & Hne)).
  destruct (Hfull _ _ Hg Hnn) as (_ & _ & Hall).
  rewrite Forall_forall in Hall. destruct (Hall _ Hin) as (A & _). cbn [fst snd] in A. apply Hne. exact A.
Qed.

(* non-vacuity: hazard-free histories exist that exercise every branch of the skip code *)
Lemma example_no_hazard_sep :
  first_hazard (wg 8 2 100 false) a_init [Skip 5; Read 1; Skip 10; Read 3; Skip 33; Read 2; Skip 200; Read 5] = 0.
Proof. vm_compute. reflexivity. Qed.

Lemma example_no_hazard_merged :
  first_hazard (wg 8 2 101 true) a_init [Read 3; Skip 3; Read 2; Skip 40; Read 7; Skip 1; Read 9; Skip 500] = 0.
Proof. vm_compute. reflexivity. Qed.
