(* HuffGenDepth.v -- can jpeg_gen_optimal_table hit JERR_HUFF_CLEN_OVERFLOW?
   Fibonacci lower bound on the total count needed for a given pure-Huffman
   code length: a symbol of code length c forces total >= fib (c + 2), because
   the merge loop always joins the two SMALLEST live frequencies.
   With MAX_CLEN = 64 an overflow needs c >= 65, i.e. total >= fib 67 =
   44945570212853, far above the 10^9 limit: the ClenOverflow branch of
   gen_table_valid is dead (gen_no_clen_overflow_64, gen_table_always_valid).
   Below fib 35 = 9227465 every untruncated length is <= 32 (the old MAX_CLEN). *)
From Coq Require Import List ZArith Lia Bool Permutation Arith.
From LJT Require Import model.Huff proofs.HuffGenBase proofs.HuffGenProofs
  proofs.HuffGenProofs3 proofs.HuffGenProofs4.
Import ListNotations.
Local Open Scope Z_scope.

(* ------------------------------------------------------------ Fibonacci *)
Fixpoint fibp (n : nat) : Z * Z :=
  match n with O => (0, 1) | S k => let (a, b) := fibp k in (b, a + b) end.
Definition fib (n : nat) : Z := fst (fibp n).

Lemma fib_SS n : fib (S (S n)) = fib (S n) + fib n.
Proof. unfold fib. cbn [fibp]. destruct (fibp n) as [a b]. cbn. lia. Qed.

Lemma fibp_pos n : 0 <= fst (fibp n) /\ 0 < snd (fibp n).
Proof.
  induction n as [|k IH]; cbn [fibp]; [cbn; lia|].
  destruct (fibp k) as [a b]. cbn [fst snd] in *. lia.
Qed.

Lemma fib_nonneg n : 0 <= fib n.
Proof. apply fibp_pos. Qed.

Lemma fib_le_S n : fib n <= fib (S n).
Proof.
  destruct n as [|k]; [cbn; lia|]. rewrite fib_SS. pose proof (fib_nonneg k). lia.
Qed.

Lemma fib_mono n m : (n <= m)%nat -> fib n <= fib m.
Proof. induction 1 as [|m H IH]; [lia|]. pose proof (fib_le_S m). lia. Qed.

Lemma fib_35 : fib 35 = 9227465.
Proof. vm_compute. reflexivity. Qed.
Lemma fib_67 : fib 67 = 44945570212853.
Proof. vm_compute. reflexivity. Qed.

Definition fibz (z : Z) : Z := fib (Z.to_nat z).

Lemma fibz_step c : 0 <= c -> fibz (c + 1 + 2) = fibz (c + 2) + fibz (c + 1).
Proof.
  intros H. unfold fibz.
  replace (Z.to_nat (c + 1 + 2)) with (S (S (Z.to_nat (c + 1)))) by lia.
  replace (Z.to_nat (c + 2)) with (S (Z.to_nat (c + 1))) by lia.
  apply fib_SS.
Qed.

Lemma fibz_1 : fibz 1 = 1. Proof. reflexivity. Qed.
Lemma fibz_2 : fibz 2 = 1. Proof. reflexivity. Qed.

(* ------------------------- the selection loop returns the two SMALLEST *)
Definition SMin (pre : list Z) (s : sel) : Prop :=
  match c1 s, c2 s with
  | Some a, Some b =>
      forall j, (j < length pre)%nat -> j <> a -> j <> b -> v2 s <= nthZ pre j
  | _, _ => True
  end.

Lemma SMin_step pre s f :
  SInv pre s -> SMin pre s -> SMin (pre ++ [f]) (sel_step s (length pre) f).
Proof.
  destruct s as [k1 k2 w w2]. unfold SInv, SMin, sel_step; cbn [c1 c2 v v2].
  intros (Hle & Hs & H) M.
  assert (Ll : length (pre ++ [f]) = S (length pre)) by (rewrite app_length; cbn; lia).
  destruct (f <=? w2) eqn:E2; [apply Z.leb_le in E2|apply Z.leb_gt in E2].
  - destruct k1 as [a|].
    2:{ destruct (f <=? w); cbn; exact I. }
    assert (Hoth : forall j, (j < length pre)%nat -> j <> a -> w2 <= nthZ pre j).
    { destruct k2 as [b|].
      - destruct H as (Ha & Hb & Hne & Va & Vb).
        intros j Hj Hja. destruct (Nat.eq_dec j b) as [->|Hjb]; [lia|apply M; assumption].
      - destruct H as (Ha & Va & Hw2 & Hall).
        intros j Hj Hja. specialize (Hall j Hj Hja). lia. }
    destruct (f <=? w) eqn:E1; [apply Z.leb_le in E1|apply Z.leb_gt in E1];
      cbn [c1 c2 v v2]; rewrite Ll; intros j Hj H1 H2;
      rewrite nthZ_app1 by lia; specialize (Hoth j ltac:(lia) ltac:(lia)); lia.
  - cbn [c1 c2 v v2]. destruct k1 as [a|]; [|exact I]. destruct k2 as [b|]; [|exact I].
    intros j Hj Hja Hjb. rewrite Ll in Hj. rewrite nthZ_snoc by lia.
    destruct (Nat.eq_dec j (length pre)); [lia|]. apply M; lia.
Qed.

Lemma SMin_scan fs : forall pre s,
  SInv pre s -> SMin pre s -> SMin (pre ++ fs) (sel_scan fs (length pre) s).
Proof.
  induction fs as [|f r IH]; intros pre s H M; cbn [sel_scan].
  - rewrite app_nil_r. exact M.
  - replace (pre ++ f :: r) with ((pre ++ [f]) ++ r) by (rewrite <- app_assoc; reflexivity).
    replace (S (length pre)) with (length (pre ++ [f])) by (rewrite app_length; cbn; lia).
    apply IH; [apply SInv_step; exact H|apply SMin_step; assumption].
Qed.

Lemma sel_some_min fs a b :
  c1 (sel_scan fs 0 sel0) = Some a -> c2 (sel_scan fs 0 sel0) = Some b ->
  nthZ fs a <= nthZ fs b /\
  forall j, (j < length fs)%nat -> j <> a -> j <> b -> nthZ fs b <= nthZ fs j.
Proof.
  intros E1 E2. pose proof (sel_scan_spec fs) as H.
  pose proof (SMin_scan fs [] sel0 SInv_init I) as M. cbn [app length] in M.
  unfold SInv in H. unfold SMin in M. rewrite E1, E2 in H, M.
  destruct H as (Hle & Hs & Ha & Hb & Hne & Va & Vb).
  split; [lia|]. intros j Hj Hja Hjb. rewrite Vb. apply M; assumption.
Qed.

(* ------------------------------------------------------ depth invariant *)
(* (J1) a live slot outweighs fib (c + 2) for every member code size c of its
        own chain;
   (J2) every live slot outweighs fib (c + 1) for every code size c anywhere. *)
Definition DInv (n : nat) (st : mstate) : Prop :=
  (forall i sc, (i < n)%nat -> nthZ (freq st) i <= SENT ->
     In sc (nth i (chains st) []) -> fibz (snd sc + 2) <= nthZ (freq st) i) /\
  (forall j sc, (j < n)%nat -> nthZ (freq st) j <= SENT ->
     In sc (concat (chains st)) -> fibz (snd sc + 1) <= nthZ (freq st) j).

Lemma merge_step_DInv n m T st st' :
  MInv n m T st -> DInv n st -> merge_step st = Some st' -> DInv n st'.
Proof.
  intros I [J1 J2] E. unfold merge_step in E.
  destruct (c1 (sel_scan (freq st) 0 sel0)) as [a|] eqn:E1; [|discriminate E].
  destruct (c2 (sel_scan (freq st) 0 sel0)) as [b|] eqn:E2; [|discriminate E].
  destruct (sel_some _ _ _ E1 E2) as (Ha & Hb & Hne & La & Lb).
  destruct (sel_some_min _ _ _ E1 E2) as (Hab & Hmin).
  pose proof (mi_lf _ _ _ _ I) as Lf. pose proof (mi_lc _ _ _ _ I) as Lc.
  rewrite Lf in Ha, Hb, Hmin.
  set (fa := nthZ (freq st) a) in *. set (fb := nthZ (freq st) b) in *.
  set (A := nth a (chains st) []) in *. set (B := nth b (chains st) []) in *.
  destruct (slot_live _ _ (mi_slot _ _ _ _ I a Ha) La) as [Fa _].
  destruct (slot_live _ _ (mi_slot _ _ _ _ I b Hb) Lb) as [Fb _].
  fold fa in Fa. fold fb in Fb.
  assert (CA : forall sc, In sc A -> In sc (concat (chains st))).
  { intros sc Hsc. apply in_concat. exists A. split; [|exact Hsc]. apply nth_In. lia. }
  assert (CB : forall sc, In sc B -> In sc (concat (chains st))).
  { intros sc Hsc. apply in_concat. exists B. split; [|exact Hsc]. apply nth_In. lia. }
  assert (C0 : forall sc, In sc (concat (chains st)) -> 0 <= snd sc).
  { intros sc Hsc. apply (mi_cs _ _ _ _ I) in Hsc. lia. }
  (* bounds for the members of the two merged chains *)
  assert (BA : forall sc0, In sc0 A ->
            0 <= snd sc0 /\ fibz (snd sc0 + 2) <= fa /\ fibz (snd sc0 + 1) <= fb).
  { intros sc0 H0. split; [apply C0, CA, H0|]. split.
    - apply (J1 a sc0 Ha La H0).
    - apply (J2 b sc0 Hb Lb (CA _ H0)). }
  assert (BB : forall sc0, In sc0 B ->
            0 <= snd sc0 /\ fibz (snd sc0 + 2) <= fb /\ fibz (snd sc0 + 1) <= fa).
  { intros sc0 H0. split; [apply C0, CB, H0|]. split.
    - apply (J1 b sc0 Hb Lb H0).
    - apply (J2 a sc0 Ha La (CB _ H0)). }
  injection E as <-.
  assert (DG := DEAD_gt).
  split; cbn [freq chains].
  - (* J1 *)
    intros i sc Hi Hlive Hin.
    destruct (Nat.eq_dec i b) as [->|Hib].
    { rewrite nthZ_upd_eq in Hlive by (rewrite upd_length; lia). lia. }
    rewrite nthZ_upd_ne in Hlive |- * by auto. rewrite (nth_upd_ne b i) in Hin by auto.
    destruct (Nat.eq_dec i a) as [->|Hia].
    + rewrite nthZ_upd_eq by lia. rewrite nth_upd_eq in Hin by lia.
      apply in_app_or in Hin.
      destruct Hin as [Hin|Hin]; apply In_bump in Hin; destruct Hin as (sc0 & H0 & ->); cbn [snd].
      * destruct (BA sc0 H0) as (P0 & P1 & P2). rewrite fibz_step by exact P0. lia.
      * destruct (BB sc0 H0) as (P0 & P1 & P2). rewrite fibz_step by exact P0. lia.
    + rewrite nthZ_upd_ne in Hlive |- * by auto. rewrite (nth_upd_ne a i) in Hin by auto.
      apply (J1 i sc Hi Hlive Hin).
  - (* J2 *)
    intros j sc Hj Hlive Hin.
    destruct (Nat.eq_dec j b) as [->|Hjb].
    { rewrite nthZ_upd_eq in Hlive by (rewrite upd_length; lia). lia. }
    rewrite nthZ_upd_ne in Hlive |- * by auto.
    (* the new weight of slot j dominates fa and fb *)
    assert (Hw : fb <= nthZ (upd a (fa + fb) (freq st)) j /\
                 (nthZ (upd a (fa + fb) (freq st)) j = fa + fb \/
                  (j <> a /\ nthZ (upd a (fa + fb) (freq st)) j = nthZ (freq st) j))).
    { destruct (Nat.eq_dec j a) as [->|Hja].
      - rewrite nthZ_upd_eq by lia. split; [lia|left; reflexivity].
      - rewrite nthZ_upd_ne by auto. split; [apply Hmin; assumption|right; auto]. }
    destruct Hw as [Hw1 Hw2].
    apply in_concat in Hin. destruct Hin as (ch & Hch & Hsc).
    apply In_upd in Hch. destruct Hch as [->|Hch]; [destruct Hsc|].
    apply In_upd in Hch. destruct Hch as [->|Hch].
    + apply in_app_or in Hsc.
      destruct Hsc as [Hsc|Hsc]; apply In_bump in Hsc; destruct Hsc as (sc0 & H0 & ->); cbn [snd].
      * destruct (BA sc0 H0) as (P0 & P1 & P2).
        replace (snd sc0 + 1 + 1) with (snd sc0 + 2) by lia. lia.
      * destruct (BB sc0 H0) as (P0 & P1 & P2).
        replace (snd sc0 + 1 + 1) with (snd sc0 + 2) by lia. lia.
    + assert (Hold : In sc (concat (chains st))) by (apply in_concat; exists ch; split; assumption).
      destruct Hw2 as [Ew|[Hja Ew]].
      * pose proof (J2 a sc Ha La Hold). fold fa in H. lia.
      * rewrite Ew in Hlive |- *. apply (J2 j sc Hj Hlive Hold).
Qed.

Lemma merge_loop_inv2 n T : Z.of_nat n < D -> T <= SENT -> forall fuel st m st',
  MInv n m T st -> DInv n st -> merge_loop fuel st = Some st' ->
  exists m', MInv n m' T st' /\ DInv n st'.
Proof.
  intros Hn HT. induction fuel as [|k IH]; intros st m st' I J E; cbn [merge_loop] in E.
  - discriminate E.
  - destruct (merge_step st) as [st1|] eqn:E1.
    + apply (IH st1 (S m) st'); [|eapply merge_step_DInv; eassumption|exact E].
      apply (merge_step_inv n T Hn HT m st st1 I E1).
    + injection E as <-. exists m. split; assumption.
Qed.

Lemma init_DInv fs :
  (forall f, In f fs -> 1 <= f) ->
  DInv (length fs) {| freq := fs; chains := init_chains (length fs) 0 |}.
Proof.
  intros Hpos. split; cbn [freq chains].
  - intros i sc Hi _ Hin. rewrite init_chains_nth in Hin by exact Hi.
    destruct Hin as [<-|[]]. cbn [snd]. change (fibz (0 + 2)) with 1. apply Hpos. apply nth_In_Z. exact Hi.
  - intros j sc Hj _ Hin. rewrite (init_chains_cs _ _ _ Hin). change (fibz (0 + 1)) with 1.
    apply Hpos. apply nth_In_Z. exact Hj.
Qed.

Lemma lookup_member i ch : In i (map fst ch) -> In (i, lookup_cs i ch) ch.
Proof.
  induction ch as [|[s c] t IH]; intros H; [destruct H|].
  cbn [lookup_cs]. destruct (Nat.eqb s i) eqn:E.
  - apply Nat.eqb_eq in E. subst. left. reflexivity.
  - apply Nat.eqb_neq in E. right. apply IH. destruct H as [H|H]; [cbn in H; lia|exact H].
Qed.

(* every code size read back from a reachable state is Fibonacci-bounded by T *)
Lemma codesizes_fib n m T st :
  MInv n m T st -> DInv n st -> forall c, In c (codesizes n st) -> fibz (c + 2) <= T.
Proof.
  intros I [J1 _] c Hc. unfold codesizes in Hc.
  apply in_map_iff in Hc. destruct Hc as (i & <- & Hi).
  set (all := concat (chains st)) in *.
  pose proof (mi_perm _ _ _ _ I) as P. fold all in P.
  assert (Hk : In i (map fst all)).
  { apply Permutation_in with (l := seq 0 n); [symmetry; exact P|exact Hi]. }
  pose proof (lookup_member i all Hk) as Hin. unfold all in Hin at 2.
  apply in_concat in Hin. destruct Hin as (ch & Hch & Hsc).
  destruct (In_nth _ _ [] Hch) as (k & Hkl & Ek).
  pose proof (mi_lf _ _ _ _ I) as Lf. pose proof (mi_lc _ _ _ _ I) as Lc.
  assert (Hkn : (k < n)%nat) by (rewrite <- Lc; exact Hkl).
  destruct (mi_slot _ _ _ _ I k Hkn) as [[_ Enil]|[Fk _]].
  { subst ch. exfalso. cut (In (i, lookup_cs i all) (@nil (nat * Z))); [intros []|].
    rewrite <- Enil. exact Hsc. }
  subst ch.
  pose proof (J1 k _ Hkn ltac:(lia) Hsc) as Hb. cbn [snd] in Hb.
  assert (Hg : glive (nthZ (freq st) k) <= T).
  { rewrite <- (mi_sum _ _ _ _ I). apply sumZ_map_term; [|lia].
    intros x Hx. eapply glive_nonneg; eauto. }
  unfold glive in Hg. destruct (nthZ (freq st) k <=? SENT) eqn:G; lia.
Qed.

(* ----------------------------------------------------- gen_codesizes level *)
Theorem gen_codesizes_fib : forall freq256 nz cs,
  (forall f, In f freq256 -> 0 <= f) ->
  sumZ (firstn 256 freq256) + 1 <= SENT ->
  (length (nz_scan (firstn 256 freq256) 0) <= 254)%nat ->
  gen_codesizes freq256 = inr (nz, cs) ->
  forall c, In c cs -> fibz (c + 2) <= sumZ (firstn 256 freq256) + 1.
Proof.
  intros freq256 nz cs Hnn Hsum Hcnt E.
  set (a := firstn 256 freq256) in *.
  assert (Hnn' : forall f, In f a -> 0 <= f) by (intros f Hf; apply Hnn; eapply In_firstn; exact Hf).
  unfold gen_codesizes in E. change PSEUDO_SYM with 256%nat in E. change PSEUDO_COUNT with 1 in E.
  fold a in E. rewrite nz_scan_pseudo in E.
  set (nzs := nz_scan a 0 ++ [(Z.of_nat (length a), 1)]) in *.
  set (n := length nzs) in *.
  assert (Ln : n = S (length (nz_scan a 0))).
  { unfold n, nzs. rewrite app_length. cbn. lia. }
  assert (Lm : length (map snd nzs) = n) by (rewrite map_length; reflexivity).
  clearbody n.
  assert (Hfs : forall f, In f (map snd nzs) -> 1 <= f).
  { intros f Hf. unfold nzs in Hf. rewrite map_app in Hf. apply in_app_or in Hf.
    destruct Hf as [Hf|Hf].
    - apply nz_scan_snd in Hf. destruct Hf as [Hf Hz]. specialize (Hnn' f Hf). lia.
    - cbn in Hf. destruct Hf as [<-|[]]. lia. }
  assert (Hs : sumZ (map snd nzs) = sumZ a + 1).
  { unfold nzs. rewrite map_app, sumZ_app, nz_scan_sum. cbn. lia. }
  assert (Hne : map snd nzs <> []).
  { intros E0. rewrite E0 in Lm. cbn in Lm. lia. }
  pose proof (init_MInv (map snd nzs) Hne Hfs ltac:(lia)) as I0.
  pose proof (init_DInv (map snd nzs) Hfs) as J0. rewrite Lm in I0, J0.
  assert (HnD : Z.of_nat n < D) by (unfold D; lia).
  assert (HT : sumZ (map snd nzs) <= SENT) by lia.
  destruct (merge_loop n {| freq := map snd nzs; chains := init_chains n 0 |}) as [st|] eqn:EL;
    [|discriminate E].
  injection E as _ <-.
  destruct (merge_loop_inv2 n _ HnD HT n _ 0%nat st I0 J0 EL) as (m' & I' & J').
  intros c Hc. rewrite <- Hs. apply (codesizes_fib n m' _ st I' J' c Hc).
Qed.

(* ================================================================== MAIN *)
(* MAX_CLEN = 64: under the ORIGINAL hypotheses the overflow branch is impossible *)
Theorem gen_no_clen_overflow_64 : forall freq256 : list Z,
  (forall f, In f freq256 -> 0 <= f) ->
  sumZ (firstn 256 freq256) + 1 <= SENT ->
  (length (nz_scan (firstn 256 freq256) 0) <= 254)%nat ->
  gen_optimal_table freq256 <> inl ClenOverflow.
Proof.
  intros freq256 Hnn Hs Hcnt E.
  pose proof (gen_table_valid freq256 Hnn Hs Hcnt) as V. rewrite E in V.
  destruct V as (cs & nz & EG & c & Hc & Hgt).
  pose proof (gen_codesizes_fib freq256 nz cs Hnn Hs Hcnt EG c Hc) as Hb.
  assert (fib 67 <= fibz (c + 2)) by (unfold fibz; apply fib_mono; lia).
  rewrite fib_67 in H. unfold SENT in Hs. lia.
Qed.

(* hence the generator ALWAYS returns a table with all the validity clauses *)
Theorem gen_table_always_valid : forall freq256 : list Z,
  (forall f, In f freq256 -> 0 <= f) ->
  sumZ (firstn 256 freq256) + 1 <= SENT ->
  (length (nz_scan (firstn 256 freq256) 0) <= 254)%nat ->
  exists t, gen_optimal_table freq256 = inr t /\
    good_table t (map fst (nz_scan (firstn 256 freq256) 0)) /\
    valid_table t = true /\
    (exists ct, make_c_derived (h_bits t) (h_vals t) 255 = Some ct) /\
    (forall isDC, exists dt, make_d_derived (h_bits t) (h_vals t) isDC 255 = Some dt).
Proof.
  intros freq256 Hnn Hs Hcnt.
  pose proof (gen_no_clen_overflow_64 freq256 Hnn Hs Hcnt) as NO.
  pose proof (gen_table_valid freq256 Hnn Hs Hcnt) as V.
  destruct (gen_optimal_table freq256) as [[| |]|t] eqn:E; try contradiction.
  exists t. split; [reflexivity|].
  destruct (gen_table_valid_table freq256 t Hnn Hs Hcnt E) as [G _].
  destruct (gen_table_accepted freq256 t Hnn Hs Hcnt E) as (V1 & V2 & V3).
  split; [exact G|]. split; [exact V1|]. split; [exact V2|exact V3].
Qed.

(* the old bound: below fib 35 every untruncated code length is <= 32 *)
Theorem gen_codesizes_le_32 : forall freq256 nz cs,
  (forall f, In f freq256 -> 0 <= f) ->
  sumZ (firstn 256 freq256) + 1 < 9227465 ->
  (length (nz_scan (firstn 256 freq256) 0) <= 254)%nat ->
  gen_codesizes freq256 = inr (nz, cs) ->
  forall c, In c cs -> c <= 32.
Proof.
  intros freq256 nz cs Hnn Hsum Hcnt EG c Hc.
  assert (Hs : sumZ (firstn 256 freq256) + 1 <= SENT) by (unfold SENT; lia).
  pose proof (gen_codesizes_fib freq256 nz cs Hnn Hs Hcnt EG c Hc) as Hb.
  destruct (Z_le_gt_dec c 32) as [Hle|Hgt]; [exact Hle|exfalso].
  assert (fib 35 <= fibz (c + 2)) by (unfold fibz; apply fib_mono; lia).
  rewrite fib_35 in H. lia.
Qed.

Corollary gen_no_clen_overflow : forall freq256 : list Z,
  (forall f, In f freq256 -> 0 <= f) ->
  sumZ (firstn 256 freq256) + 1 < 9227465 ->
  (length (nz_scan (firstn 256 freq256) 0) <= 254)%nat ->
  gen_optimal_table freq256 <> inl ClenOverflow.
Proof.
  intros freq256 Hnn Hsum Hcnt. apply gen_no_clen_overflow_64; auto. unfold SENT; lia.
Qed.

Corollary gen_table_valid_small_total : forall freq256 : list Z,
  (forall f, In f freq256 -> 0 <= f) ->
  sumZ (firstn 256 freq256) + 1 < 9227465 ->
  (length (nz_scan (firstn 256 freq256) 0) <= 254)%nat ->
  exists t, gen_optimal_table freq256 = inr t /\
    good_table t (map fst (nz_scan (firstn 256 freq256) 0)) /\
    valid_table t = true /\
    (exists ct, make_c_derived (h_bits t) (h_vals t) 255 = Some ct) /\
    (forall isDC, exists dt, make_d_derived (h_bits t) (h_vals t) isDC 255 = Some dt).
Proof.
  intros freq256 Hnn Hsum Hcnt. apply gen_table_always_valid; auto. unfold SENT; lia.
Qed.

(* ============================================================== examples *)
(* 33 Fibonacci counts 1,2,3,5,...: total 14930350 < 10^9, pure code length 33
   (JERR_HUFF_CLEN_OVERFLOW with the old MAX_CLEN = 32; a table now) *)
Example gen_depth_33_table :
  hyps (fibs 33 1 2) /\ sumZ (fibs 33 1 2) = 14930350 /\
  (exists nz cs, gen_codesizes (fibs 33 1 2) = inr (nz, cs) /\ In 33 cs) /\
  exists t, gen_optimal_table (fibs 33 1 2) = inr t /\ valid_table t = true.
Proof.
  split; [split; [apply all_nonneg; vm_compute; reflexivity|split; vm_compute; [discriminate|]]|].
  - repeat constructor.
  - split; [vm_compute; reflexivity|]. split.
    + eexists. eexists. split; [vm_compute; reflexivity|]. cbn. tauto.
    + eexists. split; [vm_compute; reflexivity|vm_compute; reflexivity].
Qed.

(* 32 Fibonacci counts: total with the pseudo symbol 9227464 = fib 35 - 1 (the
   largest total gen_codesizes_le_32 admits); longest pure code exactly 32 *)
Example gen_depth_32_below_fib35 :
  hyps (fibs 32 1 2) /\ sumZ (firstn 256 (fibs 32 1 2)) + 1 = 9227464 /\
  (exists nz cs, gen_codesizes (fibs 32 1 2) = inr (nz, cs) /\ In 32 cs) /\
  exists t, gen_optimal_table (fibs 32 1 2) = inr t.
Proof.
  split; [split; [apply all_nonneg; vm_compute; reflexivity|split; vm_compute; [discriminate|]]|].
  - repeat constructor.
  - split; [vm_compute; reflexivity|]. split.
    + eexists. eexists. split; [vm_compute; reflexivity|]. cbn. tauto.
    + eexists. vm_compute. reflexivity.
Qed.

(* the bound 9227465 of gen_codesizes_le_32 is exact: counts 1,1,2,3,...,fib 33
   in DESCENDING order plus the pseudo symbol total exactly 9227465 and reach
   code length 33 *)
Example gen_codesizes_le_32_sharp :
  let h := rev (fibs 33 1 1) in
  hyps h /\ sumZ (firstn 256 h) + 1 = 9227465 /\
  exists nz cs, gen_codesizes h = inr (nz, cs) /\ In 33 cs.
Proof.
  cbv zeta.
  split; [split; [apply all_nonneg; vm_compute; reflexivity|split; vm_compute; [discriminate|]]|].
  - repeat constructor.
  - split; [vm_compute; reflexivity|].
    eexists. eexists. split; [vm_compute; reflexivity|]. cbn. tauto.
Qed.

(* non-vacuity of gen_no_clen_overflow_64 / gen_table_always_valid: hyps ex_hist
   is gen_table_valid_nonvacuous; the deepest admissible Fibonacci histogram is
   gen_table_deepest_admissible (proofs/HuffGenProofs4.v) *)
Example gen_always_valid_nonvacuous : hyps ex_hist /\ hyps (fibs 41 1 2).
Proof.
  split; [exact (proj1 gen_table_valid_nonvacuous)|exact (proj1 gen_table_deepest_admissible)].
Qed.

(* unchanged statement of the earlier MAX_CLEN = 32 development, still true *)
Example gen_no_overflow_32 :
  hyps (fibs 32 1 2) /\ sumZ (fibs 32 1 2) = 9227463 /\
  (exists nz cs, gen_codesizes (fibs 32 1 2) = inr (nz, cs) /\ In 32 cs) /\
  exists t, gen_optimal_table (fibs 32 1 2) = inr t.
Proof.
  destruct gen_depth_32_below_fib35 as (H & _ & H2 & H3).
  split; [exact H|]. split; [vm_compute; reflexivity|]. split; assumption.
Qed.
