(* C18 -- the maxval rescale of rdppm.c in both directions: it is the identity exactly when
   maxval = 2^prec-1; when the file has at least as many levels as the target (maxval >= 2^prec-1) it is
   onto 0..2^prec-1 (every target level is produced); when it has fewer it is injective (no two file
   levels collapse).  Monotonicity and the bound are in PnmProofs. *)
From Coq Require Import List ZArith Lia Bool ZifyBool.
From LJT Require Import gen.GenPnm model.Pnm proofs.PnmProofs.
Local Open Scope Z_scope.

Lemma rescale_zero prec maxval : 0 <= prec -> 0 < maxval -> rescale_val prec maxval 0 = 0.
Proof. intros Hp Hm. unfold rescale_val. rewrite Z.mul_0_l, Z.add_0_l. apply Z.div_small. split; [apply Z.div_pos; lia|apply Z.div_lt_upper_bound; lia]. Qed.

Lemma rescale_top_level prec maxval : 0 <= prec -> 0 < maxval -> rescale_val prec maxval maxval = maxsample prec.
Proof.
  intros Hp Hm. unfold rescale_val. rewrite (Z.mul_comm maxval), Z.div_add_l by lia.
  rewrite (Z.div_small (maxval / 2)); [lia|]. split; [apply Z.div_pos; lia|apply Z.div_lt_upper_bound; lia].
Qed.

Lemma div_step a m mv : 0 <= a -> 0 <= m <= mv -> 0 < mv -> (a + m) / mv <= a / mv + 1.
Proof.
  intros Ha Hm Hmv. assert ((a + m) / mv < a / mv + 2); [|lia]. apply Z.div_lt_upper_bound; [lia|].
  pose proof (Z.mod_pos_bound a mv Hmv). pose proof (Z.div_mod a mv ltac:(lia)). nia.
Qed.

Lemma rescale_step prec maxval v : 0 <= prec -> 0 < maxval -> maxsample prec <= maxval -> 0 <= v ->
  rescale_val prec maxval (v + 1) <= rescale_val prec maxval v + 1.
Proof.
  intros Hp Hm HM Hv. unfold rescale_val. pose proof (maxsample_nonneg prec Hp).
  replace ((v + 1) * maxsample prec + maxval / 2) with ((v * maxsample prec + maxval / 2) + maxsample prec) by ring.
  assert (0 <= maxval / 2) by (apply Z.div_pos; lia). apply div_step; try lia; nia.
Qed.

(* discrete intermediate value: every target level is hit *)
Lemma rescale_onto prec maxval y : 0 <= prec -> 0 < maxval -> maxsample prec <= maxval -> 0 <= y <= maxsample prec ->
  exists v, 0 <= v <= maxval /\ rescale_val prec maxval v = y.
Proof.
  intros Hp Hm HM Hy.
  assert (G : forall n : nat, Z.of_nat n <= maxval -> forall y, 0 <= y <= rescale_val prec maxval (Z.of_nat n) ->
              exists v, 0 <= v <= Z.of_nat n /\ rescale_val prec maxval v = y).
  { induction n as [|n IH]; intros Hn y0 Hy0.
    - cbn [Z.of_nat] in *. rewrite rescale_zero in Hy0 by lia. exists 0. split; [lia|]. rewrite rescale_zero by lia. lia.
    - replace (Z.of_nat (S n)) with (Z.of_nat n + 1) in * by lia.
      pose proof (rescale_step prec maxval (Z.of_nat n) Hp Hm HM ltac:(lia)) as St.
      destruct (Z_le_gt_dec y0 (rescale_val prec maxval (Z.of_nat n))) as [Le|Gt].
      + destruct (IH ltac:(lia) y0 ltac:(lia)) as (v & Hv & E). exists v. split; [lia|exact E].
      + exists (Z.of_nat n + 1). split; [lia|]. lia. }
  destruct (G (Z.to_nat maxval) ltac:(lia) y) as (v & Hv & E).
  - rewrite Z2Nat.id by lia. rewrite rescale_top_level by lia. exact Hy.
  - exists v. split; [lia|exact E].
Qed.

(* fewer file levels than target levels: strictly increasing, hence injective *)
Lemma rescale_strict prec maxval v : 0 <= prec -> 0 < maxval -> maxval <= maxsample prec -> 0 <= v ->
  rescale_val prec maxval v < rescale_val prec maxval (v + 1).
Proof.
  intros Hp Hm HM Hv. unfold rescale_val.
  replace ((v + 1) * maxsample prec + maxval / 2) with ((v * maxsample prec + maxval / 2) + maxsample prec) by ring.
  set (a := v * maxsample prec + maxval / 2).
  assert (a / maxval + 1 <= (a + maxsample prec) / maxval); [|lia].
  replace (a / maxval + 1) with ((a + maxval) / maxval) by (rewrite <- (Z.div_add a 1 maxval) by lia; f_equal; lia).
  apply Z.div_le_mono; lia.
Qed.

Lemma rescale_identity_iff prec maxval : 0 <= prec -> 0 < maxval ->
  ((forall v, 0 <= v <= maxval -> rescale_val prec maxval v = v) <-> maxval = maxsample prec).
Proof.
  intros Hp Hm. split.
  - intro H. rewrite <- (H maxval ltac:(lia)) at 1. apply rescale_top_level; auto.
  - intros -> v Hv. apply rescale_val_identity; auto; lia.
Qed.

Lemma rescale_both_directions prec maxval : 0 <= prec -> 0 < maxval ->
  ((forall v, 0 <= v <= maxval -> rescale_val prec maxval v = v) <-> maxval = 2 ^ prec - 1) /\
  (2 ^ prec - 1 <= maxval -> forall y, 0 <= y <= 2 ^ prec - 1 -> exists v, 0 <= v <= maxval /\ rescale_val prec maxval v = y) /\
  (maxval <= 2 ^ prec - 1 -> forall v1 v2, 0 <= v1 < v2 -> rescale_val prec maxval v1 < rescale_val prec maxval v2) /\
  rescale_val prec maxval 0 = 0 /\ rescale_val prec maxval maxval = 2 ^ prec - 1.
Proof.
  intros Hp Hm. split; [apply rescale_identity_iff; auto|]. split; [intros; apply rescale_onto; auto|].
  split; [|split; [apply rescale_zero; auto|apply rescale_top_level; auto]].
  intros HM v1 v2 Hv.
  assert (G : forall n : nat, rescale_val prec maxval v1 < rescale_val prec maxval (v1 + 1 + Z.of_nat n)).
  { induction n as [|n IH].
    - rewrite Z.add_0_r. apply rescale_strict; auto; lia.
    - eapply Z.lt_trans; [exact IH|]. replace (v1 + 1 + Z.of_nat (S n)) with (v1 + 1 + Z.of_nat n + 1) by lia.
      apply rescale_strict; auto; lia. }
  specialize (G (Z.to_nat (v2 - v1 - 1))). replace (v1 + 1 + Z.of_nat (Z.to_nat (v2 - v1 - 1))) with v2 in G by lia. exact G.
Qed.
