(* Facts about the generated constants (gen/GenIccConst.v) that the C16 proofs rely on.
   Each is closed by computation on the values read from the current source, so a
   change of a constant in the tree makes the corresponding proof fail. *)
From Coq Require Import List ZArith Bool Lia.
From LJT Require Import gen.GenIccConst.
Import ListNotations.
Local Open Scope Z_scope.

Lemma consts_writer_reader_agree :
  W_ICC_MARKER = R_ICC_MARKER /\ W_ICC_OVERHEAD_LEN = R_ICC_OVERHEAD_LEN /\
  icc_sig_writer = icc_sig_reader /\
  Z.of_nat (length icc_sig_writer) + 2 = W_ICC_OVERHEAD_LEN /\
  R_ICC_SEQ_INDEX = Z.of_nat (length icc_sig_reader) /\
  R_ICC_COUNT_INDEX = Z.of_nat (length icc_sig_reader) + 1 /\
  W_ICC_MARKER = JPEG_APP0 + 2 /\ M_APP0 = JPEG_APP0 /\ M_COM = JPEG_COM /\ M_APP15 = JPEG_APP0 + 15 /\
  M_APP14 = JPEG_APP0 + 14.
Proof. repeat split; reflexivity. Qed.

Lemma consts_lengths :
  W_MAX_DATA_BYTES_IN_MARKER = W_MAX_BYTES_IN_MARKER - W_ICC_OVERHEAD_LEN /\
  W_MAX_BYTES_IN_MARKER <= WRITE_MARKER_MAX_DATALEN /\
  WRITE_MARKER_MAX_DATALEN = 65533 /\ W_MAX_DATA_BYTES_IN_MARKER = 65519 /\
  0 < W_MAX_DATA_BYTES_IN_MARKER /\ R_MAX_SEQ_NO = 255 /\
  WRITE_MARKER_MAX_DATALEN < COPY_SAVE_LIMIT /\ WRITE_MARKER_MAX_DATALEN < TJ_ICC_SAVE_LIMIT.
Proof. repeat split; try reflexivity; vm_compute; congruence. Qed.

Lemma consts_sigs :
  jfif_sig_emit = jfif_sig_examine /\ jfif_sig_emit = jfif_sig_copy /\
  adobe_sig_emit = adobe_sig_examine /\ adobe_sig_emit = adobe_sig_copy /\
  JFIF_SEGMENT_LENGTH = APP0_DATA_LEN + 2 /\ ADOBE_SEGMENT_LENGTH = APP14_DATA_LEN + 2 /\
  APP0_DATA_LEN <= APPN_DATA_LEN /\ APP14_DATA_LEN <= APPN_DATA_LEN.
Proof. repeat split; try reflexivity; vm_compute; congruence. Qed.
