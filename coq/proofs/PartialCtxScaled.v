(* C08 -- context main controller, components whose row group is rg > 1 sample rows high (luma of 4:2:0 / 4:4:0:
   rg = 2; v = 4 samplings: rg up to 4).  The general theorem (PartialCtxFinal.v) tracks a component with rg = 1.
   (1) exhaustively over min_DCT_scaled_size 2..16 and rg 1..4: the funny-pointer lists of such a component are the
       rg-fold scaling of the rg = 1 lists (entry q -> entries q*rg .. q*rg+rg-1, physical row p -> p*rg + k), for
       make_funny_pointers and for set_wraparound_pointers applied to them; the one exception is the replicated
       "row above the image", where all rg entries point to physical row 0;
   (2) bounded exhaustive runs (all histories skip a; read b; skip c; read rest) for the rg = 2 component of 4:2:0
       at two scales and for the rg = 2 fancy component of a v = 4 sampling with the repair of hazard 6. *)
From Coq Require Import List ZArith Bool Lia.
From LJT Require Import model.Partial proofs.PartialSchedSkip proofs.PartialCtxExamples.
Import ListNotations.
Local Open Scope Z_scope.

Definition pg (M rg : Z) : geom := mkGeom M (2 * rg) 0 0 false true rg 0 0 false rg 0 false false false false.

(* the rg-fold scaling of a pointer list *)
Definition scaled (rg : Z) (l1 : list Z) : list Z :=
  flat_map (fun p => map (fun k => if p <? 0 then -1 else p * rg + k) (zseq 0 (Z.to_nat rg))) l1.

(* before the first wrap all rg entries above the image point to physical row 0 *)
Definition top0 (rg : Z) (l : list Z) : list Z :=
  map (fun _ => 0) (zseq 0 (Z.to_nat rg)) ++ skipn (Z.to_nat rg) l.

Definition list_eqb (a b : list Z) : bool :=
  (Nat.eqb (length a) (length b)) && forallb (fun p => fst p =? snd p) (combine a b).

Lemma list_eqb_eq a : forall b, list_eqb a b = true -> a = b.
Proof.
  unfold list_eqb. induction a as [|x a IH]; intros [|y b] H; try reflexivity; try discriminate.
  cbn in H. apply andb_true_iff in H. destruct H as (Hl & H). apply andb_true_iff in H. destruct H as (Hxy & H).
  f_equal; [apply Z.eqb_eq; exact Hxy|]. apply IH. cbn. rewrite Hl. exact H.
Qed.

Definition scaled_okb (M rg : Z) : bool :=
  let '(a0, a1) := make_funny (pg M rg) in
  let '(b0, b1) := make_funny (pg M 1) in
  list_eqb a1 (scaled rg b1) &&
  list_eqb a0 (top0 rg (scaled rg b0)) &&
  list_eqb (wrap_one (pg M rg) a0) (scaled rg (wrap_one (pg M 1) b0)) &&
  list_eqb (wrap_one (pg M rg) a1) (scaled rg (wrap_one (pg M 1) b1)) &&
  (* wrapping again (every later iMCU row pair) keeps the correspondence *)
  list_eqb (wrap_one (pg M rg) (wrap_one (pg M rg) a0)) (scaled rg (wrap_one (pg M 1) (wrap_one (pg M 1) b0))).

Lemma scaled_all : forallb (fun M => forallb (fun rg => scaled_okb M rg) [1; 2; 3; 4]) (zseq 2 15) = true.
Proof. vm_compute. reflexivity. Qed.

Theorem funny_pointers_rgroup_scaled :
  forall M rg, 2 <= M <= 16 -> 1 <= rg <= 4 ->
  let g := pg M rg in let g1 := pg M 1 in
  snd (make_funny g) = scaled rg (snd (make_funny g1)) /\
  fst (make_funny g) = top0 rg (scaled rg (fst (make_funny g1))) /\
  wrap_one g (fst (make_funny g)) = scaled rg (wrap_one g1 (fst (make_funny g1))) /\
  wrap_one g (snd (make_funny g)) = scaled rg (wrap_one g1 (snd (make_funny g1))).
Proof.
  intros M rg HM Hrg.
  assert (HinM : In M (zseq 2 15)) by (cbn; lia).
  assert (Hinr : In rg [1; 2; 3; 4]) by (cbn; lia).
  pose proof scaled_all as H. rewrite forallb_forall in H. specialize (H M HinM).
  rewrite forallb_forall in H. specialize (H rg Hinr). unfold scaled_okb in H.
  cbv zeta. destruct (make_funny (pg M rg)) as (a0, a1). destruct (make_funny (pg M 1)) as (b0, b1).
  cbn [fst snd]. do 4 (apply andb_true_iff in H; destruct H as (H & ?)).
  repeat split; apply list_eqb_eq; assumption.
Qed.

(* ---- bounded exhaustive runs ---- *)
Definition hist4 (H a b c : Z) : list op := [Skip a; Read b; Skip c; Read H].
Definition all_hist_okb (g : geom) (amax bmax cmax : nat) : bool :=
  forallb (fun a => forallb (fun b => forallb (fun c => ctx_run_okb g (hist4 (gH g) a b c))
     (zseq 0 cmax)) (zseq 1 bmax)) (zseq 0 amax).

(* 4:2:0, fancy upsampling, scale 8/8, 53 rows: the luma component (rg = 2, not upsampled vertically) *)
Definition g420y : geom := mkGeom 8 2 53 4 false true 2 53 56 false 2 53 true true true true.
(* same at scale 12/8, 80 rows *)
Definition g420yx12 : geom := mkGeom 12 2 80 4 false true 2 80 84 false 2 80 true true true true.
(* Y 1x4, Cb/Cr 1x2 with h1v2 fancy upsampling, 100 rows: chroma, rg = 2, v = 4, source with the repair of hazard 6 *)
Definition g141212r : geom := mkGeom 8 4 100 4 false true 2 50 56 true 4 100 true true true true.

Lemma rg2_runs_ok :
  all_hist_okb g420y 36 3 36 = true /\ all_hist_okb g420yx12 28 2 28 = true /\ all_hist_okb g141212r 36 3 36 = true.
Proof. vm_compute. repeat split; reflexivity. Qed.

(* without that repair the same family contains failing histories (hazard 6) *)
Definition g141212u : geom := mkGeom 8 4 100 4 false true 2 50 56 true 4 100 true true true false.
Lemma rg2_v4_unrepaired_fails : all_hist_okb g141212u 36 3 36 = false.
Proof. vm_compute. reflexivity. Qed.
