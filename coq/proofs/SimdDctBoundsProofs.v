(* C05 -- the boundaries of the DCT equality theorems contain all real data:
   every block of level-shifted 8-bit samples satisfies c_fdct_islow_ok (stage-wise exact linear bounds, lia),
   so jsimd_fdct_islow (lane model) = jpeg_fdct_islow for ALL 8-bit blocks. *)
From Coq Require Import List ZArith Lia Bool ZifyBool.
From LJT Require Import lib.Words gen.GenSimdConst model.SimdDct model.SimdIdctFast model.SimdFdctInt
  proofs.SimdDctProofs proofs.SimdIdctFastProofs proofs.SimdFdctIntProofs.
Import ListNotations.
Local Open Scope Z_scope.
Ltac Zify.zify_post_hook ::= Z.div_mod_to_equations.

Definition samp (v : Z) : Prop := -128 <= v <= 127.
Definition p1box (v : Z) : Prop := -4096 <= v <= 4080.

Lemma cf_num k : cf k = nth k [2446; 3196; 4433; 6270; 7373; 9633; 12299; 15137; 16069; 16819; 20995; 25172] 0.
Proof. do 12 (destruct k as [|k]; [reflexivity|]). destruct k; reflexivity. Qed.
Lemma fi_bits : c_jfdctint_CONST_BITS = 13 /\ jfdctint_sse2_PASS1_BITS = 2.
Proof. split; reflexivity. Qed.
Lemma descale_div X n : 0 < n -> c_descale X n = (X + 2 ^ (n - 1)) / 2 ^ n.
Proof. intros. unfold c_descale. apply Z.shiftr_div_pow2. lia. Qed.

(* pass 1 on a row of samples: all lane checks hold and every result lies in [-4096, 4080] *)
Lemma pass1_samples d : length d = 8%nat -> Forall samp d ->
  Forall f16 (fi_checks false d) /\ Forall p1box (c_fdctint1_wide false d).
Proof.
  intros Hl Hd.
  destruct d as [|d0 [|d1 [|d2 [|d3 [|d4 [|d5 [|d6 [|d7 [|? ?]]]]]]]]]; try discriminate.
  unfold samp in Hd. fits_all.
  unfold fi_checks, c_fdctint1_wide, fi_butterfly.
  cbn [nth tmp10 tmp11 tmp12 tmp13 tmp4 tmp5 tmp6 tmp7 app].
  destruct fi_bits as [Hcb Hp1]. rewrite Hcb, Hp1. rewrite !cf_num. cbn [nth].
  change (13 - 2) with 11. change (2 ^ 2) with 4. rewrite !descale_div by lia. change (2 ^ (11 - 1)) with 1024. change (2 ^ 11) with 2048.
  unfold f16, p1box. split; repeat constructor; lia.
Qed.

(* pass 2 on a column of pass-1 results *)
Lemma pass2_box x : length x = 8%nat -> Forall p1box x -> Forall f16 (fi_checks true x).
Proof.
  intros Hl Hd.
  destruct x as [|d0 [|d1 [|d2 [|d3 [|d4 [|d5 [|d6 [|d7 [|? ?]]]]]]]]]; try discriminate.
  unfold p1box in Hd. fits_all.
  unfold fi_checks, c_fdctint1_wide, fi_butterfly.
  cbn [nth tmp10 tmp11 tmp12 tmp13 tmp4 tmp5 tmp6 tmp7 app].
  destruct fi_bits as [Hcb Hp1]. rewrite Hcb, Hp1. rewrite !cf_num. cbn [nth].
  change (13 + 2) with 15. rewrite !descale_div by lia. change (2 ^ (15 - 1)) with 16384. change (2 ^ 15) with 32768.
  change (2 ^ (2 - 1)) with 2. change (2 ^ 2) with 4.
  unfold f16. repeat constructor; lia.
Qed.

Lemma In_firstn_l {A} n (l : list A) x : In x (firstn n l) -> In x l.
Proof. revert l. induction n; intros [|y l] H; cbn in *; try tauto. destruct H; [left; assumption | right; apply IHn; assumption]. Qed.
Lemma In_skipn_l {A} n (l : list A) x : In x (skipn n l) -> In x l.
Proof. revert l. induction n; intros [|y l] H; cbn in *; auto. Qed.
Lemma chunk8_Forall (P : Z -> Prop) n l : Forall P l -> Forall (Forall P) (chunk8 n l).
Proof.
  revert l. induction n as [|n IH]; intros l H; [constructor|].
  cbn [chunk8]. constructor.
  - apply Forall_forall. intros x Hx. rewrite Forall_forall in H. apply H. eapply In_firstn_l; eauto.
  - apply IH. apply Forall_forall. intros x Hx. rewrite Forall_forall in H. apply H. eapply In_skipn_l; eauto.
Qed.
Lemma forallb_of_Forall (p : Z -> bool) (P : Z -> Prop) l : (forall v, P v -> p v = true) -> Forall P l -> forallb p l = true.
Proof. intros H HF. apply forallb_forall. intros x Hx. rewrite Forall_forall in HF. apply H, HF, Hx. Qed.
Lemma f16_b v : f16 v -> fits16b v = true.
Proof. unfold f16, fits16b. lia. Qed.

Theorem fdct_islow_ok_all_samples blk : length blk = 64%nat -> Forall samp blk -> c_fdct_islow_ok blk = true.
Proof.
  intros HL HS. unfold c_fdct_islow_ok.
  destruct (chunk8_rows blk HL) as [Rr Lr].
  pose proof (chunk8_Forall samp 8 blk HS) as Rs.
  set (rows := chunk8 8 blk) in *.
  assert (Hrow : forall r, In r rows -> length r = 8%nat /\ Forall samp r).
  { intros r Hr. rewrite Forall_forall in Rr, Rs. split; [apply Rr | apply Rs]; assumption. }
  apply andb_true_intro. split; [apply andb_true_intro; split|].
  - apply forallb_forall. intros r Hr. destruct (Hrow r Hr) as [_ Hs].
    apply (forallb_of_Forall fits16b samp); [|assumption]. unfold samp, fits16b. intros; lia.
  - apply forallb_forall. intros r Hr. destruct (Hrow r Hr) as [Hl Hs].
    destruct (pass1_samples r Hl Hs) as [Hc _]. apply (forallb_of_Forall fits16b f16); [apply f16_b | assumption].
  - set (p1 := map (c_fdctint1 false) rows).
    assert (Hp1len : Forall (fun r => length r = 8%nat) p1).
    { unfold p1. apply Forall_forall. intros r Hr. apply in_map_iff in Hr. destruct Hr as (x & <- & _). apply c_fdctint1_len. }
    assert (Hp1n : length p1 = 8%nat) by (unfold p1; rewrite map_length; exact Lr).
    assert (Hp1b : Forall (Forall p1box) p1).
    { unfold p1. apply Forall_forall. intros r Hr. apply in_map_iff in Hr. destruct Hr as (x & <- & Hx).
      destruct (Hrow x Hx) as [Hl Hs]. destruct (pass1_samples x Hl Hs) as [_ Hb].
      unfold c_fdctint1. apply Forall_forall. intros v Hv. apply in_map_iff in Hv. destruct Hv as (e & <- & He).
      rewrite Forall_forall in Hb. specialize (Hb e He). unfold p1box in *. rewrite sw_id by lia. assumption. }
    destruct (transpose_len8 _ Hp1len) as [Tw _]. rewrite Hp1n in Tw.
    pose proof (transpose_Forall _ _ Hp1b) as Tb.
    apply forallb_forall. intros x Hx. rewrite Forall_forall in Tw, Tb.
    apply (forallb_of_Forall fits16b f16); [apply f16_b|]. apply pass2_box; [apply Tw, Hx | apply Tb, Hx].
Qed.

(* full statement for the accurate forward DCT: no side condition left *)
Theorem fdct_islow_eq_all_samples blk : length blk = 64%nat -> Forall samp blk -> asm_fdct_islow blk = c_fdct_islow blk.
Proof. intros HL HS. apply fdct_islow_eq_partial; [assumption | apply fdct_islow_ok_all_samples; assumption]. Qed.

(* ---- fast forward DCT: no 16-bit lane wraps for samples within 64 of mid-grey; the stripe block of
   C05_fdct_ifast_full_refuted (contrast 255) shows the statement cannot be extended to all 8-bit blocks:
   the boundary c_wraps14 is exactly finding ifast-operand-ge-8192 ---- *)
Definition lowc (v : Z) : Prop := -64 <= v <= 64.
Definition small10 (v : Z) : Prop := -1023 <= v <= 1023.
Lemma cK_num k : c_K k = nth k [181; 98; 139; 334] 0.
Proof. do 4 (destruct k as [|k]; [reflexivity|]). destruct k; reflexivity. Qed.

Lemma operands_small d : length d = 8%nat -> Forall small10 d -> Forall in14 (c_operands d).
Proof.
  intros Hl Hb.
  destruct d as [|d0 [|d1 [|d2 [|d3 [|d4 [|d5 [|d6 [|d7 [|? ?]]]]]]]]]; try discriminate.
  unfold small10 in Hb. fits_all. cbn [c_operands].
  repeat match goal with |- context [sw ?e] => rewrite (sw_id e) by lia end.
  unfold in14. repeat constructor; lia.
Qed.
Lemma ifast_pass1_low d : length d = 8%nat -> Forall lowc d -> Forall small10 (fdct1 c_alg d).
Proof.
  intros Hl Hb.
  destruct d as [|d0 [|d1 [|d2 [|d3 [|d4 [|d5 [|d6 [|d7 [|? ?]]]]]]]]]; try discriminate.
  unfold lowc in Hb. fits_all.
  cbn [fdct1 c_alg A_add A_sub A_mul1 A_mul_add A_mul_sub]. unfold c_mul. rewrite !cK_num. cbn [nth].
  change c_jfdctfst_CONST_BITS with 8. rewrite !Z.shiftr_div_pow2 by lia. change (2 ^ 8) with 256.
  repeat match goal with |- context [sw ?e] => rewrite (sw_id e) by lia end.
  unfold small10. repeat constructor; lia.
Qed.

Theorem fdct_ifast_nowrap_lowcontrast blk : length blk = 64%nat -> Forall lowc blk -> c_wraps14 blk = false.
Proof.
  intros HL HS. unfold c_wraps14. apply negb_false_iff.
  destruct (chunk8_rows blk HL) as [Rr Lr].
  pose proof (chunk8_Forall lowc 8 blk HS) as Rs.
  set (rows := chunk8 8 blk) in *.
  assert (Hin14 : forall l, Forall in14 l -> forallb in14b l = true).
  { intros l H. apply forallb_forall. intros x Hx. rewrite Forall_forall in H. specialize (H x Hx). unfold in14 in H. unfold in14b. lia. }
  apply andb_true_intro. split.
  - apply forallb_forall. intros r Hr. rewrite Forall_forall in Rr, Rs. apply Hin14. apply operands_small; [apply Rr, Hr|].
    apply Forall_forall. intros v Hv. specialize (Rs r Hr). rewrite Forall_forall in Rs. specialize (Rs v Hv). unfold lowc, small10 in *. lia.
  - set (p1 := map (fdct1 c_alg) rows).
    assert (Hp1len : Forall (fun r => length r = 8%nat) p1).
    { unfold p1. apply Forall_forall. intros r Hr. apply in_map_iff in Hr. destruct Hr as (x & <- & Hx). apply fdct1_length8.
      rewrite Forall_forall in Rr. apply Rr, Hx. }
    assert (Hp1n : length p1 = 8%nat) by (unfold p1; rewrite map_length; exact Lr).
    assert (Hp1b : Forall (Forall small10) p1).
    { unfold p1. apply Forall_forall. intros r Hr. apply in_map_iff in Hr. destruct Hr as (x & <- & Hx).
      rewrite Forall_forall in Rr, Rs. apply ifast_pass1_low; [apply Rr | apply Rs]; assumption. }
    destruct (transpose_len8 _ Hp1len) as [Tw _]. rewrite Hp1n in Tw.
    pose proof (transpose_Forall _ _ Hp1b) as Tb.
    apply forallb_forall. intros x Hx. rewrite Forall_forall in Tw, Tb. apply Hin14. apply operands_small; [apply Tw, Hx | apply Tb, Hx].
Qed.
Theorem fdct_ifast_eq_lowcontrast blk : length blk = 64%nat -> Forall lowc blk -> asm_fdct_ifast blk = c_fdct_ifast blk.
Proof. intros HL HS. apply fdct_ifast_eq_partial; [assumption | apply fdct_ifast_nowrap_lowcontrast; assumption]. Qed.

(* ---- dequantised coefficients of a real encoder fit a short: a coefficient F stored in a DCTELEM, quantised
   by rounding division by 8*qv (what quantize() computes, property C07) and multiplied back by qv <= 255 ---- *)
Definition round_quant (x d : Z) : Z := if x <? 0 then - ((- x + d / 2) / d) else (x + d / 2) / d.
Theorem real_dequantised_fits16 F qv : f16 F -> 1 <= qv <= 255 ->
  let c := round_quant F (8 * qv) in f16 (c * qv) /\ - (Z.abs F / 8 + qv) <= c * qv <= Z.abs F / 8 + qv.
Proof.
  unfold f16, round_quant. intros HF Hq. cbv zeta.
  assert (Hh : 8 * qv / 2 = 4 * qv) by (replace (8 * qv) with (4 * qv * 2) by lia; apply Z.div_mul; lia).
  rewrite Hh.
  destruct (F <? 0) eqn:E.
  - set (n := (- F + 4 * qv) / (8 * qv)).
    assert (Hn : 0 <= n /\ (8 * qv) * n <= - F + 4 * qv) by (unfold n; split; [apply Z.div_pos; lia | apply Z.mul_div_le; lia]).
    set (m := n * qv). assert (Hm : 0 <= m /\ 8 * m <= - F + 4 * qv) by (unfold m; nia).
    replace (- n * qv) with (- m) by (unfold m; lia). clearbody m. clear Hn. lia.
  - set (n := (F + 4 * qv) / (8 * qv)).
    assert (Hn : 0 <= n /\ (8 * qv) * n <= F + 4 * qv) by (unfold n; split; [apply Z.div_pos; lia | apply Z.mul_div_le; lia]).
    set (m := n * qv). assert (Hm : 0 <= m /\ 8 * m <= F + 4 * qv) by (unfold m; nia).
    clearbody m. clear Hn. lia.
Qed.
