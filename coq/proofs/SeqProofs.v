(* C03 sequential coder: block, MCU, restart-interval and scan round trips. *)
From Coq Require Import List ZArith Lia Bool.
From LJT Require Import model.Huff model.Seq proofs.SeqBits proofs.NatOrderProofs.
Import ListNotations.
Local Open Scope Z_scope.

(* ------------------------------------------------------------ list helpers *)
Lemma upd_length {A} (x : A) : forall l i, length (upd i x l) = length l.
Proof. induction l as [|h t IH]; intros [|i]; cbn; auto. Qed.

Lemma nth_upd_same {A} (x d : A) : forall l i, (i < length l)%nat -> nth i (upd i x l) d = x.
Proof. induction l as [|h t IH]; intros [|i] H; cbn in *; try lia; auto. apply IH. lia. Qed.

Lemma nth_upd_other {A} (x d : A) : forall l i j, i <> j -> nth j (upd i x l) d = nth j l d.
Proof.
  induction l as [|h t IH]; intros [|i] [|j] H; cbn; auto; try congruence.
Qed.

Lemma skipn_cons_nth {A} (d : A) : forall k l v t, skipn k l = v :: t -> nth k l d = v /\ skipn (S k) l = t.
Proof.
  induction k as [|k IH]; intros l v t H.
  - cbn in H. subst l. split; reflexivity.
  - destruct l as [|h l']; [discriminate|]. cbn [skipn] in H. destruct (IH l' v t H) as [H1 H2].
    split; [exact H1|]. exact H2.
Qed.

Lemma map_nth_lt {A B} (f : A -> B) (d' : B) (d : A) : forall l k, (k < length l)%nat ->
  nth k (map f l) d' = f (nth k l d).
Proof. induction l as [|h t IH]; intros [|k] H; cbn in *; try lia; auto. apply IH. lia. Qed.

Lemma zz_of_length b : length (zz_of b) = 64%nat.
Proof. unfold zz_of. rewrite map_length. reflexivity. Qed.

Lemma zz_of_nth b k : (k < 64)%nat -> nth k (zz_of b) 0 = nth (order k) b 0.
Proof.
  intros Hk. unfold zz_of.
  rewrite (map_nth_lt (fun i => nth i b 0) 0 63%nat) by (cbn; lia). f_equal. unfold order.
  assert (C : forallb (fun k => Nat.eqb (nth k (firstn 64 natural_order) 63%nat) (nth k natural_order 63%nat)) (seq 0 64) = true)
    by (vm_compute; reflexivity).
  apply Nat.eqb_eq. exact (forallb_seq_lt _ _ C k Hk).
Qed.

(* --------------------------------------------------------------- AC band *)
Section BlockRT.
Variable dc ac : codec.
Variable mcb : Z.
Hypothesis mcb_le : mcb <= 15.

(* the stores the decoder performs for the coefficients l at zigzag positions k.. *)
Fixpoint writes (l : list Z) (k : nat) (blk : list Z) : list Z :=
  match l with
  | [] => blk
  | v :: t => writes t (S k) (if v =? 0 then blk else upd (order k) v blk)
  end.

Lemma dec_ac_zrls z : c_enc ac 240 = Some z -> forall n fuel kd,
  (kd + 16 * n < 64)%nat -> (65 <= fuel + kd)%nat ->
  exists fuel', (65 <= fuel' + (kd + 16 * n))%nat /\ forall blk more,
    dec_ac ac fuel kd blk (rep_bits n z ++ more) = dec_ac ac fuel' (kd + 16 * n)%nat blk more.
Proof.
  intros Ez. induction n as [|n IHn]; intros fuel kd Hk Hf.
  - exists fuel. split; [lia|]. intros. rewrite Nat.mul_0_r, Nat.add_0_r. reflexivity.
  - destruct fuel as [|f]; [lia|].
    destruct (IHn f (kd + 16)%nat) as [fuel' [Hf' He]]; [lia|lia|].
    exists fuel'. split; [lia|]. intros blk more. cbn [rep_bits]. rewrite <- app_assoc. cbn [dec_ac].
    destruct (64 <=? kd)%nat eqn:E; [apply Nat.leb_le in E; lia|].
    rewrite (c_ok ac 240 z _ Ez). change (240 / 16) with 15. change (240 mod 16) with 0.
    change (0 =? 0) with true. change (15 =? 15) with true. cbv iota.
    rewrite He. f_equal. lia.
Qed.

Lemma band_roundtrip : forall l r kd k blk fuel bits r' rest,
  (k + length l = 64)%nat -> 0 <= r -> (kd + Z.to_nat r = k)%nat -> (65 <= fuel + kd)%nat ->
  enc_band ac mcb l r = Some (bits, r') ->
  exists fuel', 0 <= r' /\ (Z.to_nat r' <= 64)%nat /\ (65 <= fuel' + (64 - Z.to_nat r'))%nat /\
    dec_ac ac fuel kd blk (bits ++ rest) = dec_ac ac fuel' (64 - Z.to_nat r')%nat (writes l k blk) rest.
Proof.
  induction l as [|v t IH]; intros r kd k blk fuel bits r' rest Hk Hr Hkd Hf He.
  - cbn in He. inversion He; subst bits r'. cbn [length] in Hk. exists fuel.
    split; [lia|]. split; [lia|]. split; [lia|]. cbn [app writes]. f_equal. lia.
  - cbn [enc_band] in He. cbn [length] in Hk. cbn [writes]. destruct (v =? 0) eqn:Ev.
    + apply (IH (r + 1) kd (S k) blk fuel bits r' rest); try lia. exact He.
    + apply Z.eqb_neq in Ev.
      destruct (nbits (Z.abs v) >? mcb) eqn:Enb; [discriminate|].
      destruct (if r >=? 16 then c_enc ac 240 else Some []) as [z|] eqn:Ez; [|discriminate].
      destruct (c_enc ac (r mod 16 * 16 + nbits (Z.abs v))) as [c|] eqn:Ec; [|discriminate].
      destruct (enc_band ac mcb t 0) as [[rest0 r0]|] eqn:Et; [|discriminate].
      inversion He; subst bits r'. clear He.
      pose proof (nbits_bounds (Z.abs v) ltac:(lia)) as [Hn1 _].
      assert (Hn15 : nbits (Z.abs v) <= 15) by lia.
      set (nb := nbits (Z.abs v)) in *.
      (* the ZRL prefix *)
      assert (Hzr : exists fuel1, (65 <= fuel1 + (kd + 16 * Z.to_nat (r / 16)))%nat /\
                 forall more, dec_ac ac fuel kd blk (rep_bits (Z.to_nat (r / 16)) z ++ more)
                              = dec_ac ac fuel1 (kd + 16 * Z.to_nat (r / 16))%nat blk more).
      { destruct (r >=? 16) eqn:E16.
        - apply Z.geb_le in E16.
          assert (Hlt : (kd + 16 * Z.to_nat (r / 16) < 64)%nat).
          { assert (16 * (r / 16) <= r) by (apply Z.mul_div_le; lia).
            assert (0 <= r / 16) by (apply Z.div_pos; lia). lia. }
          destruct (dec_ac_zrls z Ez (Z.to_nat (r / 16)) fuel kd Hlt Hf) as [fuel1 [H1 H2]].
          exists fuel1. split; [exact H1|]. intros more. apply H2.
        - rewrite Z.geb_leb in E16. apply Z.leb_gt in E16.
          rewrite Z.div_small by lia. exists fuel. split; [cbn; lia|]. intros more. cbn [Z.to_nat rep_bits app].
          f_equal. lia. }
      destruct Hzr as [fuel1 [Hf1 Hzr]].
      rewrite <- !app_assoc. rewrite Hzr.
      assert (Hkk : (kd + 16 * Z.to_nat (r / 16) + Z.to_nat (r mod 16) = k)%nat).
      { pose proof (Z.div_mod r 16 ltac:(lia)). pose proof (Z.mod_pos_bound r 16 ltac:(lia)).
        assert (0 <= r / 16) by (apply Z.div_pos; lia). lia. }
      destruct fuel1 as [|f1]; [lia|]. cbn [dec_ac].
      destruct (64 <=? kd + 16 * Z.to_nat (r / 16))%nat eqn:E64; [apply Nat.leb_le in E64; lia|].
      rewrite (c_ok ac _ c _ Ec).
      pose proof (Z.mod_pos_bound r 16 ltac:(lia)) as Hm.
      replace ((r mod 16 * 16 + nb) / 16) with (r mod 16).
      2:{ apply Z.div_unique with (r := nb); lia. }
      replace ((r mod 16 * 16 + nb) mod 16) with nb.
      2:{ apply Z.mod_unique with (q := r mod 16); lia. }
      destruct (nb =? 0) eqn:En0; [apply Z.eqb_eq in En0; lia|].
      destruct (mag_roundtrip v (rest0 ++ rest) Ev) as [x [Hx Hext]]. fold nb in Hx, Hext.
      rewrite Hx. rewrite Hext. rewrite Hkk.
      destruct (IH 0 (S k) (S k) (upd (order k) v blk) f1 rest0 r0 rest) as [fuel' H]; try lia; [exact Et|].
      exists fuel'. exact H.
Qed.
End BlockRT.
