(* C03 sequential coder: block, MCU, restart-interval and scan round trips. *)
From Coq Require Import List ZArith Lia Bool.
From LJT Require Import model.Huff model.Seq proofs.SeqBits proofs.NatOrderProofs.
Import ListNotations.
Local Open Scope Z_scope.

(* ------------------------------------------------------------ list helpers *)
Lemma upd_length {A} (x : A) : forall l i, length (upd i x l) = length l.
Proof. induction l as [|h t IH]; intros [|i]; cbn; auto. Qed.

Lemma nth_upd_same {A} (x d : A) : forall l i, (i < length l)%nat -> nth i (upd i x l) d = x.
Proof. induction l as [|h t IH]; intros [|i] H; cbn in *; try lia; auto. apply IH. lia. Qed.

Lemma nth_upd_other {A} (x d : A) : forall l i j, i <> j -> nth j (upd i x l) d = nth j l d.
Proof.
  induction l as [|h t IH]; intros [|i] [|j] H; cbn; auto; try congruence.
Qed.

Lemma skipn_cons_nth {A} (d : A) : forall k l v t, skipn k l = v :: t -> nth k l d = v /\ skipn (S k) l = t.
Proof.
  induction k as [|k IH]; intros l v t H.
  - cbn in H. subst l. split; reflexivity.
  - destruct l as [|h l']; [discriminate|]. cbn [skipn] in H. destruct (IH l' v t H) as [H1 H2].
    split; [exact H1|]. exact H2.
Qed.

Lemma map_nth_lt {A B} (f : A -> B) (d' : B) (d : A) : forall l k, (k < length l)%nat ->
  nth k (map f l) d' = f (nth k l d).
Proof. induction l as [|h t IH]; intros [|k] H; cbn in *; try lia; auto. apply IH. lia. Qed.

Lemma zz_of_length b : length (zz_of b) = 64%nat.
Proof. unfold zz_of. rewrite map_length. reflexivity. Qed.

Lemma zz_of_nth b k : (k < 64)%nat -> nth k (zz_of b) 0 = nth (order k) b 0.
Proof.
  intros Hk. unfold zz_of.
  rewrite (map_nth_lt (fun i => nth i b 0) 0 63%nat) by (cbn; lia). f_equal. unfold order.
  assert (C : forallb (fun k => Nat.eqb (nth k (firstn 64 natural_order) 63%nat) (nth k natural_order 63%nat)) (seq 0 64) = true)
    by (vm_compute; reflexivity).
  apply Nat.eqb_eq. exact (forallb_seq_lt _ _ C k Hk).
Qed.

(* --------------------------------------------------------------- AC band *)
Section BlockRT.
Variable dc ac : codec.
Variable mcb : Z.
Hypothesis mcb_le : mcb <= 15.

(* the stores the decoder performs for the coefficients l at zigzag positions k.. *)
Fixpoint writes (l : list Z) (k : nat) (blk : list Z) : list Z :=
  match l with
  | [] => blk
  | v :: t => writes t (S k) (if v =? 0 then blk else upd (order k) v blk)
  end.

Lemma dec_ac_zrls z : c_enc ac 240 = Some z -> forall n fuel kd,
  (kd + 16 * n < 64)%nat -> (65 <= fuel + kd)%nat ->
  exists fuel', (65 <= fuel' + (kd + 16 * n))%nat /\ forall blk more,
    dec_ac ac fuel kd blk (rep_bits n z ++ more) = dec_ac ac fuel' (kd + 16 * n)%nat blk more.
Proof.
  intros Ez. induction n as [|n IHn]; intros fuel kd Hk Hf.
  - exists fuel. split; [lia|]. intros. rewrite Nat.mul_0_r, Nat.add_0_r. reflexivity.
  - destruct fuel as [|f]; [lia|].
    destruct (IHn f (kd + 16)%nat) as [fuel' [Hf' He]]; [lia|lia|].
    exists fuel'. split; [lia|]. intros blk more. cbn [rep_bits]. rewrite <- app_assoc. cbn [dec_ac].
    destruct (64 <=? kd)%nat eqn:E; [apply Nat.leb_le in E; lia|].
    rewrite (c_ok ac 240 z _ Ez). change (240 / 16) with 15. change (240 mod 16) with 0.
    change (0 =? 0) with true. change (15 =? 15) with true. cbv iota.
    rewrite He. f_equal. lia.
Qed.

Lemma band_roundtrip : forall l r kd k blk fuel bits r' rest,
  (k + length l = 64)%nat -> 0 <= r -> (kd + Z.to_nat r = k)%nat -> (65 <= fuel + kd)%nat ->
  enc_band ac mcb l r = Some (bits, r') ->
  exists fuel', 0 <= r' /\ (Z.to_nat r' <= 64)%nat /\ (65 <= fuel' + (64 - Z.to_nat r'))%nat /\
    dec_ac ac fuel kd blk (bits ++ rest) = dec_ac ac fuel' (64 - Z.to_nat r')%nat (writes l k blk) rest.
Proof.
  induction l as [|v t IH]; intros r kd k blk fuel bits r' rest Hk Hr Hkd Hf He.
  - cbn in He. inversion He; subst bits r'. cbn [length] in Hk. exists fuel.
    split; [lia|]. split; [lia|]. split; [lia|]. cbn [app writes]. f_equal. lia.
  - cbn [enc_band] in He. cbn [length] in Hk. cbn [writes]. destruct (v =? 0) eqn:Ev.
    + apply (IH (r + 1) kd (S k) blk fuel bits r' rest); try lia. exact He.
    + apply Z.eqb_neq in Ev.
      destruct (nbits (Z.abs v) >? mcb) eqn:Enb; [discriminate|].
      destruct (if r >=? 16 then c_enc ac 240 else Some []) as [z|] eqn:Ez; [|discriminate].
      destruct (c_enc ac (r mod 16 * 16 + nbits (Z.abs v))) as [c|] eqn:Ec; [|discriminate].
      destruct (enc_band ac mcb t 0) as [[rest0 r0]|] eqn:Et; [|discriminate].
      inversion He; subst bits r'. clear He.
      pose proof (nbits_bounds (Z.abs v) ltac:(lia)) as [Hn1 _].
      assert (Hn15 : nbits (Z.abs v) <= 15) by lia.
      set (nb := nbits (Z.abs v)) in *.
      (* the ZRL prefix *)
      assert (Hzr : exists fuel1, (65 <= fuel1 + (kd + 16 * Z.to_nat (r / 16)))%nat /\
                 forall more, dec_ac ac fuel kd blk (rep_bits (Z.to_nat (r / 16)) z ++ more)
                              = dec_ac ac fuel1 (kd + 16 * Z.to_nat (r / 16))%nat blk more).
      { destruct (r >=? 16) eqn:E16.
        - apply Z.geb_le in E16.
          assert (Hlt : (kd + 16 * Z.to_nat (r / 16) < 64)%nat).
          { assert (16 * (r / 16) <= r) by (apply Z.mul_div_le; lia).
            assert (0 <= r / 16) by (apply Z.div_pos; lia). lia. }
          destruct (dec_ac_zrls z Ez (Z.to_nat (r / 16)) fuel kd Hlt Hf) as [fuel1 [H1 H2]].
          exists fuel1. split; [exact H1|]. intros more. apply H2.
        - rewrite Z.geb_leb in E16. apply Z.leb_gt in E16.
          rewrite Z.div_small by lia. exists fuel. split; [cbn; lia|]. intros more. cbn [Z.to_nat rep_bits app].
          f_equal. lia. }
      destruct Hzr as [fuel1 [Hf1 Hzr]].
      rewrite <- !app_assoc. rewrite Hzr.
      assert (Hkk : (kd + 16 * Z.to_nat (r / 16) + Z.to_nat (r mod 16) = k)%nat).
      { pose proof (Z.div_mod r 16 ltac:(lia)). pose proof (Z.mod_pos_bound r 16 ltac:(lia)).
        assert (0 <= r / 16) by (apply Z.div_pos; lia). lia. }
      destruct fuel1 as [|f1]; [lia|]. cbn [dec_ac].
      destruct (64 <=? kd + 16 * Z.to_nat (r / 16))%nat eqn:E64; [apply Nat.leb_le in E64; lia|].
      rewrite (c_ok ac _ c _ Ec).
      pose proof (Z.mod_pos_bound r 16 ltac:(lia)) as Hm.
      replace ((r mod 16 * 16 + nb) / 16) with (r mod 16).
      2:{ apply Z.div_unique with (r := nb); lia. }
      replace ((r mod 16 * 16 + nb) mod 16) with nb.
      2:{ apply Z.mod_unique with (q := r mod 16); lia. }
      destruct (nb =? 0) eqn:En0; [apply Z.eqb_eq in En0; lia|].
      destruct (mag_roundtrip v (rest0 ++ rest) Ev) as [x [Hx Hext]]. fold nb in Hx, Hext.
      rewrite Hx. rewrite Hext. rewrite Hkk.
      destruct (IH 0 (S k) (S k) (upd (order k) v blk) f1 rest0 r0 rest) as [fuel' H]; try lia; [exact Et|].
      exists fuel'. exact H.
Qed.
End BlockRT.

(* ------------------------------------------- what the stores leave in the block *)
Definition agree (k : nat) (blk b : list Z) : Prop :=
  length blk = 64%nat /\
  forall j, (j < 64)%nat -> nth (order j) blk 0 = if (j <? k)%nat then nth (order j) b 0 else 0.

Lemma agree_step b k blk : (k < 64)%nat -> agree k blk b ->
  agree (S k) (if nth (order k) b 0 =? 0 then blk else upd (order k) (nth (order k) b 0) blk) b.
Proof.
  intros Hk [Hl Ha]. destruct (nth (order k) b 0 =? 0) eqn:E.
  - split; [exact Hl|]. intros j Hj. rewrite (Ha j Hj).
    destruct (Nat.eq_dec j k) as [->|Hne].
    + apply Z.eqb_eq in E. rewrite Nat.ltb_irrefl. replace (k <? S k)%nat with true by (symmetry; apply Nat.ltb_lt; lia).
      now rewrite E.
    + destruct (j <? k)%nat eqn:E1, (j <? S k)%nat eqn:E2; try reflexivity;
        [apply Nat.ltb_lt in E1; apply Nat.ltb_ge in E2; lia|apply Nat.ltb_ge in E1; apply Nat.ltb_lt in E2; lia].
  - split; [now rewrite upd_length|]. intros j Hj. destruct (Nat.eq_dec j k) as [->|Hne].
    + rewrite nth_upd_same by (rewrite Hl; apply order_lt).
      replace (k <? S k)%nat with true by (symmetry; apply Nat.ltb_lt; lia). reflexivity.
    + rewrite nth_upd_other by (intros Heq; apply Hne; symmetry; apply order_inj; auto).
      rewrite (Ha j Hj).
      destruct (j <? k)%nat eqn:E1, (j <? S k)%nat eqn:E2; try reflexivity;
        [apply Nat.ltb_lt in E1; apply Nat.ltb_ge in E2; lia|apply Nat.ltb_ge in E1; apply Nat.ltb_lt in E2; lia].
Qed.

Lemma agree_writes b : forall l k blk, l = skipn k (zz_of b) -> (k + length l = 64)%nat ->
  agree k blk b -> agree 64 (writes l k blk) b.
Proof.
  induction l as [|v t IH]; intros k blk Hl Hk Ha.
  - cbn in Hk. replace k with 64%nat in Ha by lia. exact Ha.
  - cbn [length] in Hk. symmetry in Hl. destruct (skipn_cons_nth 0 _ _ _ _ Hl) as [Hv Ht].
    rewrite zz_of_nth in Hv by lia. cbn [writes]. apply IH; [now symmetry|lia|].
    subst v. apply agree_step; [lia|exact Ha].
Qed.

Lemma agree_64_eq blk b : length b = 64%nat -> agree 64 blk b -> blk = b.
Proof.
  intros Hb [Hl Ha]. apply (nth_ext _ _ 0 0); [congruence|].
  intros i Hi. rewrite Hl in Hi. rewrite <- (order_inv i Hi).
  rewrite Ha by (now apply inv_lt).
  replace (nth i inv_order 0%nat <? 64)%nat with true; [reflexivity|].
  symmetry. apply Nat.ltb_lt. now apply inv_lt.
Qed.

Lemma agree_init b : agree 1 (upd 0 (nth 0 b 0) (repeat 0 64)) b.
Proof.
  split; [now rewrite upd_length|]. intros j Hj.
  destruct j as [|j].
  - change (order 0) with 0%nat. cbn [Nat.ltb Nat.leb]. now rewrite nth_upd_same by (cbn; lia).
  - replace (S j <? 1)%nat with false by (symmetry; apply Nat.ltb_ge; lia).
    rewrite nth_upd_other.
    + pose proof (order_lt (S j)). generalize dependent (order (S j)). intros n Hn.
      clear - Hn. rewrite nth_repeat. reflexivity.
    + change 0%nat with (order 0) at 1. intros Heq. apply order_inj in Heq; lia.
Qed.

(* ---------------------------------------------------------- block theorem *)
Section BlockRT2.
Variable dc ac : codec.
Variable mcb : Z.
Hypothesis mcb_le : mcb <= 15.

Lemma ac_roundtrip b bits rest blk :
  enc_ac ac mcb (skipn 1 (zz_of b)) = Some bits ->
  dec_ac ac 64 1 blk (bits ++ rest) = Some (writes (skipn 1 (zz_of b)) 1 blk, rest).
Proof.
  unfold enc_ac. intros He.
  destruct (enc_band ac mcb (skipn 1 (zz_of b)) 0) as [[bb r]|] eqn:Eb; [|discriminate].
  assert (Hlen : (1 + length (skipn 1 (zz_of b)) = 64)%nat) by (rewrite skipn_length, zz_of_length; lia).
  destruct (r >? 0) eqn:Er.
  - destruct (c_enc ac 0) as [e|] eqn:Ee; [|discriminate]. inversion He; subst bits. clear He.
    rewrite <- app_assoc.
    destruct (band_roundtrip ac mcb mcb_le _ 0 1%nat 1%nat blk 64%nat bb r (e ++ rest) Hlen ltac:(lia) ltac:(reflexivity) ltac:(lia) Eb)
      as [fuel' [H0 [H1 [H2 H3]]]].
    rewrite H3. apply Z.gtb_lt in Er. destruct fuel' as [|f]; [lia|]. cbn [dec_ac].
    destruct (64 <=? 64 - Z.to_nat r)%nat eqn:E; [apply Nat.leb_le in E; lia|].
    rewrite (c_ok ac 0 e _ Ee). reflexivity.
  - inversion He; subst bits. clear He.
    destruct (band_roundtrip ac mcb mcb_le _ 0 1%nat 1%nat blk 64%nat bb r rest Hlen ltac:(lia) ltac:(reflexivity) ltac:(lia) Eb)
      as [fuel' [H0 [H1 [H2 H3]]]].
    rewrite H3. rewrite Z.gtb_ltb in Er. apply Z.ltb_ge in Er. replace r with 0 by lia.
    destruct fuel' as [|f]; [lia|]. reflexivity.
Qed.

Lemma dc_diff_roundtrip d extra bits rest :
  enc_dc_diff dc mcb d extra = Some bits -> dec_dc_diff dc (bits ++ rest) = Some (d, rest).
Proof.
  unfold enc_dc_diff, dec_dc_diff. intros He.
  destruct (nbits (Z.abs d) >? mcb + extra); [discriminate|].
  destruct (c_enc dc (nbits (Z.abs d))) as [c|] eqn:Ec; [|discriminate].
  inversion He; subst bits. clear He. rewrite <- app_assoc. rewrite (c_ok dc _ c _ Ec).
  destruct (Z.eq_dec d 0) as [->|Hd].
  - cbn. reflexivity.
  - pose proof (nbits_bounds (Z.abs d) ltac:(lia)) as [Hn _].
    destruct (nbits (Z.abs d) =? 0) eqn:E0; [apply Z.eqb_eq in E0; lia|].
    destruct (mag_roundtrip d rest Hd) as [x [Hx Hext]]. rewrite Hx, Hext. reflexivity.
Qed.

Theorem block_roundtrip last_dc b bits rest : length b = 64%nat ->
  enc_block dc ac mcb last_dc b = Some bits ->
  dec_block dc ac last_dc (bits ++ rest) = Some (b, rest).
Proof.
  intros Hb He. unfold enc_block in He.
  destruct (enc_dc_diff dc mcb (nth 0 b 0 - last_dc) 1) as [d|] eqn:Ed; [|discriminate].
  destruct (enc_ac ac mcb (skipn 1 (zz_of b))) as [a|] eqn:Ea; [|discriminate].
  inversion He; subst bits. clear He. unfold dec_block. rewrite <- app_assoc.
  rewrite (dc_diff_roundtrip _ _ _ _ Ed). replace (nth 0 b 0 - last_dc + last_dc) with (nth 0 b 0) by lia.
  rewrite (ac_roundtrip b a rest _ Ea). f_equal. f_equal.
  apply agree_64_eq; [exact Hb|]. apply agree_writes; [reflexivity|rewrite skipn_length, zz_of_length; lia|].
  apply agree_init.
Qed.
End BlockRT2.

(* ------------------------------------------------------------ MCU, interval *)
Definition wf_block (b : list Z) : Prop := length b = 64%nat.

Section McuRT.
Variable dct act : nat -> codec.
Variable mcb : Z.
Hypothesis mcb_le : mcb <= 15.

Lemma mcu_roundtrip : forall mem blocks ldc bits ldc' rest,
  Forall wf_block blocks -> enc_mcu dct act mcb mem blocks ldc = Some (bits, ldc') ->
  dec_mcu dct act mem ldc (bits ++ rest) = Some (blocks, ldc', rest).
Proof.
  induction mem as [|ci mt IH]; intros blocks ldc bits ldc' rest Hwf He.
  - destruct blocks; [|discriminate]. cbn in He. inversion He; subst. reflexivity.
  - destruct blocks as [|b bt]; [discriminate|]. cbn [enc_mcu] in He.
    destruct (enc_block (dct ci) (act ci) mcb (nthZ ldc ci) b) as [bb|] eqn:Eb; [|discriminate].
    destruct (enc_mcu dct act mcb mt bt (upd ci (nth 0 b 0) ldc)) as [[rb l']|] eqn:Er; [|discriminate].
    inversion He; subst bits ldc'. clear He. inversion Hwf as [|? ? Hb Hbt]; subst.
    cbn [dec_mcu]. rewrite <- app_assoc.
    rewrite (block_roundtrip (dct ci) (act ci) mcb mcb_le _ b bb _ Hb Eb).
    rewrite (IH bt _ rb l' rest Hbt Er). reflexivity.
Qed.

Lemma mcus_roundtrip mem : forall ms ldc bits rest,
  Forall (Forall wf_block) ms -> enc_mcus dct act mcb mem ms ldc = Some bits ->
  dec_mcus dct act mem (length ms) ldc (bits ++ rest) = Some (ms, rest).
Proof.
  induction ms as [|m t IH]; intros ldc bits rest Hwf He.
  - cbn in He. inversion He; subst. reflexivity.
  - cbn [enc_mcus] in He.
    destruct (enc_mcu dct act mcb mem m ldc) as [[bm l']|] eqn:Em; [|discriminate].
    destruct (enc_mcus dct act mcb mem t l') as [bt|] eqn:Et; [|discriminate].
    inversion He; subst bits. clear He. inversion Hwf as [|? ? Hm Ht]; subst.
    cbn [length dec_mcus]. rewrite <- app_assoc.
    rewrite (mcu_roundtrip mem m ldc bm l' _ Hm Em). rewrite (IH l' bt rest Ht Et). reflexivity.
Qed.
End McuRT.

(* ------------------------------------------ generic restart-interval layer *)
Lemma combine_skipn {A B} : forall n (l : list A) (l' : list B),
  skipn n (combine l l') = combine (skipn n l) (skipn n l').
Proof.
  induction n as [|n IH]; intros l l'; [reflexivity|].
  destruct l as [|a l]; [reflexivity|]. destruct l' as [|b l']; cbn [skipn combine].
  - now destruct (skipn n l).
  - apply IH.
Qed.

Lemma Forall_firstn' {A} (P : A -> Prop) : forall n l, Forall P l -> Forall P (firstn n l).
Proof.
  induction n as [|n IH]; intros l H; [constructor|]. destruct l; [constructor|].
  inversion H; subst. cbn. constructor; auto.
Qed.
Lemma Forall_skipn' {A} (P : A -> Prop) : forall n l, Forall P l -> Forall P (skipn n l).
Proof.
  induction n as [|n IH]; intros l H; [exact H|]. destruct l; [constructor|].
  inversion H; subst. cbn. auto.
Qed.

Section ScanRT.
Variables M D R : Type.
Variable enc_seg : list M -> option (list bool).
Variable dec_seg : list D -> list bool -> option (list R * list bool).
Variable p : M -> D -> Prop.
Variable f : M -> D -> R.

Definition Pseg (ms : list M) (ds : list D) : Prop :=
  length ds = length ms /\ Forall (fun md => p (fst md) (snd md)) (combine ms ds).
Definition Fseg (ms : list M) (ds : list D) : list R :=
  map (fun md => f (fst md) (snd md)) (combine ms ds).

Hypothesis seg_rt : forall ms ds bits rest, Pseg ms ds -> enc_seg ms = Some bits ->
  dec_seg ds (bits ++ rest) = Some (Fseg ms ds, rest).

Lemma Pseg_take Ri ms ds : Pseg ms ds -> Pseg (seg_take Ri ms) (seg_take Ri ds).
Proof.
  intros [Hl Hf]. destruct Ri as [|n]; [split; assumption|]. unfold seg_take. split.
  - rewrite !firstn_length. lia.
  - rewrite <- combine_firstn. now apply Forall_firstn'.
Qed.
Lemma Pseg_drop Ri ms ds : Pseg ms ds -> Pseg (seg_drop Ri ms) (seg_drop Ri ds).
Proof.
  intros [Hl Hf]. destruct Ri as [|n]; [split; [reflexivity|constructor]|]. unfold seg_drop. split.
  - rewrite !skipn_length. lia.
  - rewrite <- combine_skipn. now apply Forall_skipn'.
Qed.
Lemma Fseg_split Ri ms ds :
  Fseg ms ds = Fseg (seg_take Ri ms) (seg_take Ri ds) ++ Fseg (seg_drop Ri ms) (seg_drop Ri ds).
Proof.
  unfold Fseg. destruct Ri as [|n]; cbn [seg_take seg_drop].
  - cbn [combine map]. now rewrite app_nil_r.
  - rewrite <- combine_firstn, <- combine_skipn, <- map_app, firstn_skipn. reflexivity.
Qed.

Lemma seg_drop_length {A} Ri (l : list A) :
  length (seg_drop Ri l) = match Ri with O => 0%nat | _ => (length l - Ri)%nat end.
Proof. destruct Ri; [reflexivity|]. unfold seg_drop. apply skipn_length. Qed.

Lemma segs_roundtrip : forall fuel Ri n ms ds bytes,
  0 <= n < 8 -> Pseg ms ds -> (length ms < fuel)%nat ->
  enc_segs M enc_seg fuel Ri n ms = Some bytes ->
  dec_segs D R dec_seg fuel Ri n ds bytes = Some (Fseg ms ds).
Proof.
  induction fuel as [|fu IH]; intros Ri n ms ds bytes Hn HP Hlen He; [lia|].
  cbn [enc_segs] in He. cbn [dec_segs].
  destruct (enc_seg (seg_take Ri ms)) as [bits|] eqn:Es; [|discriminate].
  pose proof (Pseg_take Ri ms ds HP) as HPt. pose proof (Pseg_drop Ri ms ds HP) as HPd.
  destruct (unpack_pack (length bits) bits (le_n _)) as [pad Hpad].
  pose proof (seg_drop_length Ri ms) as Hdm. pose proof (seg_drop_length Ri ds) as Hdd.
  destruct HP as [HPl _].
  destruct (seg_drop Ri ms) as [|m0 mt] eqn:Edm.
  - inversion He; subst bytes. clear He.
    rewrite <- (app_nil_r (seg_bytes bits)). unfold seg_bytes.
    rewrite (load_seg_stuff [] (or_introl eq_refl)). rewrite Hpad.
    rewrite (seg_rt _ _ bits pad HPt Es).
    destruct (seg_drop Ri ds) as [|d0 dt] eqn:Edd.
    + rewrite (Fseg_split Ri ms ds). rewrite Edm, Edd. unfold Fseg at 2. cbn [combine map]. now rewrite app_nil_r.
    + cbn [length] in Hdm, Hdd. destruct Ri; lia.
  - destruct (enc_segs M enc_seg fu Ri ((n + 1) mod 8) (m0 :: mt)) as [rest|] eqn:Er; [|discriminate].
    inversion He; subst bytes. clear He. unfold seg_bytes.
    rewrite (load_seg_stuff ([255; 208 + n] ++ rest)).
    2:{ right. exists (208 + n), rest. split; [reflexivity|lia]. }
    rewrite Hpad. rewrite (seg_rt _ _ bits pad HPt Es).
    destruct (seg_drop Ri ds) as [|d0 dt] eqn:Edd.
    + cbn [length] in Hdm, Hdd. destruct Ri; lia.
    + cbn [app]. rewrite Z.eqb_refl.
      rewrite (IH Ri ((n + 1) mod 8) (m0 :: mt) (d0 :: dt) rest).
      * rewrite (Fseg_split Ri ms ds). rewrite Edm, Edd. reflexivity.
      * apply Z.mod_pos_bound. lia.
      * exact HPd.
      * rewrite Hdm. destruct Ri; [cbn [length] in Hdm; lia|]. cbn [length] in Hdm. lia.
      * exact Er.
Qed.

Theorem scan_roundtrip Ri ms ds bytes : Pseg ms ds ->
  enc_scan M enc_seg Ri ms = Some bytes -> dec_scan D R dec_seg Ri ds bytes = Some (Fseg ms ds).
Proof.
  intros HP He. unfold dec_scan. destruct HP as [Hl Hf]. rewrite Hl.
  apply segs_roundtrip; [lia|split; assumption|lia|exact He].
Qed.
End ScanRT.

(* ------------------------------------------------------- sequential scan *)
Lemma map_fst_combine {A B} : forall (l : list A) (l' : list B), length l' = length l ->
  map fst (combine l l') = l.
Proof.
  induction l as [|a l IH]; intros [|b l'] H; cbn in *; try lia; auto. f_equal. apply IH. lia.
Qed.

Lemma Forall_combine_fst {A B} (P : A -> Prop) : forall (l : list A) (l' : list B), length l' = length l ->
  Forall (fun ab => P (fst ab)) (combine l l') -> Forall P l.
Proof.
  induction l as [|a l IH]; intros [|b l'] H HF; cbn in *; try lia; constructor.
  - inversion HF; subst. assumption.
  - inversion HF; subst. apply (IH l'); [lia|assumption].
Qed.

Lemma Forall_combine_fst' {A B} (P : A -> Prop) : forall (l : list A) (l' : list B),
  Forall P l -> Forall (fun ab => P (fst ab)) (combine l l').
Proof.
  induction l as [|a l IH]; intros [|b l'] HF; cbn; try constructor.
  - inversion HF; subst. assumption.
  - inversion HF; subst. apply IH. assumption.
Qed.

Lemma Fseg_fst {A B} : forall (l : list A) (l' : list B), length l' = length l ->
  Fseg A B A (fun m _ => m) l l' = l.
Proof.
  unfold Fseg. induction l as [|a l IH]; intros [|b l'] H; cbn in *; try lia; auto. f_equal. apply IH. lia.
Qed.

Theorem seq_scan_roundtrip_thm dct act mcb mem ncomp Ri ms bytes :
  mcb <= 15 -> Forall (Forall wf_block) ms ->
  seq_enc_scan dct act mcb mem ncomp Ri ms = Some bytes ->
  seq_dec_scan dct act mem ncomp Ri (length ms) bytes = Some ms.
Proof.
  intros Hm Hwf He. unfold seq_dec_scan, seq_enc_scan in *.
  pose proof (scan_roundtrip (list (list Z)) unit (list (list Z))
    (fun seg => enc_mcus dct act mcb mem seg (repeat 0 ncomp))
    (fun seg bs => dec_mcus dct act mem (length seg) (repeat 0 ncomp) bs)
    (fun m _ => Forall wf_block m) (fun m _ => m)) as H.
  assert (Hrt : forall ms0 ds bits rest,
     Pseg (list (list Z)) unit (fun m _ => Forall wf_block m) ms0 ds ->
     enc_mcus dct act mcb mem ms0 (repeat 0 ncomp) = Some bits ->
     dec_mcus dct act mem (length ds) (repeat 0 ncomp) (bits ++ rest)
       = Some (Fseg (list (list Z)) unit (list (list Z)) (fun m _ => m) ms0 ds, rest)).
  { intros ms0 ds bits rest [Hl HF] Hb. rewrite Hl. rewrite (Fseg_fst ms0 ds Hl).
    apply mcus_roundtrip with (mcb := mcb); [exact Hm| |exact Hb].
    exact (Forall_combine_fst (Forall wf_block) ms0 ds Hl HF). }
  specialize (H Hrt Ri ms (repeat tt (length ms)) bytes).
  rewrite H; [| |exact He].
  - now rewrite Fseg_fst by (now rewrite repeat_length).
  - split; [now rewrite repeat_length|]. now apply Forall_combine_fst'.
Qed.
