(* HuffLookProofs.v -- contents of the HUFF_LOOKAHEAD = 8 table built by
   jpeg_make_d_derived_tbl (model/Huff.v look_fill / make_d_derived), for EVERY
   accepted table and each of the 256 look-ahead bit patterns p:
   the entry is (n << 8) | sym  with n <= 8  iff  the code word of length n of
   some table entry is a prefix of p (then sym is that entry's symbol), and it
   is the "no short code" value (HUFF_LOOKAHEAD + 1) << 8 iff no code word of
   length <= 8 is a prefix of p.  This is what the fast path of HUFF_DECODE
   relies on. *)
From Coq Require Import List ZArith Bool Lia ZifyBool.
From LJT Require Import model.Huff proofs.HuffCodeProofs gen.GenStdHuff.
Import ListNotations.
Local Open Scope Z_scope.

(* the code word (c, s) is the s-bit prefix of the 8-bit pattern p *)
Definition prefix_of8 (c s p : Z) : Prop := s <= 8 /\ p / 2 ^ (8 - s) = c.

Lemma prefix_in_range : forall c s p, 1 <= s <= 8 ->
  (p / 2 ^ (8 - s) = c <-> in_range8 c s p).
Proof.
  intros c s p Hs. unfold in_range8.
  assert (0 < 2 ^ (8 - s)) by (apply Z.pow_pos_nonneg; lia).
  split; intros H0.
  - subst c. pose proof (Z.div_mod p (2 ^ (8 - s)) ltac:(lia)).
    pose proof (Z.mod_pos_bound p (2 ^ (8 - s)) ltac:(lia)). nia.
  - symmetry. apply Z.div_unique with (r := p - c * 2 ^ (8 - s)); lia.
Qed.

Lemma nth_firstn_lt_Z : forall n (l : list Z) i, (i < n)%nat -> nth i (firstn n l) 0 = nth i l 0.
Proof.
  induction n as [|n IH]; intros l i H; [lia|].
  destruct l as [|h t]; [reflexivity|]. destruct i; cbn [firstn nth]; [reflexivity|]. apply IH; lia.
Qed.

Section Look.
  Variables (sizes codes vals : list Z).
  Hypothesis Hs : sorted_from 1 sizes.
  Hypothesis Hc : gen_codes sizes = Some codes.
  Let vs := firstn (length sizes) vals.
  Let tab := look_fill codes sizes vs (repeat ((HUFF_LOOKAHEAD + 1) * 256) 256).

  Lemma vs_nth : forall k, (k < length sizes)%nat -> nth k vs 0 = nth k vals 0.
  Proof. intros k H. unfold vs. apply nth_firstn_lt_Z. exact H. Qed.

  Lemma look_hit : forall k p, (k < length sizes)%nat -> (k < length vals)%nat ->
    0 <= p < 256 -> prefix_of8 (nth k codes 0) (nth k sizes 0) p ->
    nthZ tab (Z.to_nat p) = nth k sizes 0 * 256 + nth k vals 0.
  Proof.
    intros k p Hk Hkv Hp [Hs8 Hpre].
    pose proof (gen_codes_len _ _ Hs Hc) as Hcl.
    pose proof (sorted_from_lb _ _ Hs k Hk) as Hs1.
    apply prefix_in_range in Hpre; [|lia].
    unfold nthZ, tab. rewrite <- vs_nth by exact Hk.
    apply look_fill_hit; try lia.
    - unfold vs. rewrite firstn_length. lia.
    - intros j Hj. split.
      + pose proof (sorted_from_mono _ _ Hs j k ltac:(lia)). lia.
      + apply (codes_fit _ _ Hs Hc j). lia.
    - rewrite Z2Nat.id by lia. exact Hpre.
    - rewrite repeat_length. lia.
    - intros j J0 J1 J2 J3. split; [apply (codes_fit _ _ Hs Hc j); lia|].
      rewrite Z2Nat.id by lia. unfold in_range8 in *.
      pose proof (codes_prefix _ _ Hs Hc k j ltac:(lia)) as Hp3.
      pose proof (sorted_from_mono _ _ Hs k j ltac:(lia)) as Hm.
      set (sk := nth k sizes 0) in *. set (sj := nth j sizes 0) in *.
      set (ck := nth k codes 0) in *. set (cj := nth j codes 0) in *.
      assert (Hq : 0 < 2 ^ (8 - sj)) by (apply Z.pow_pos_nonneg; lia).
      assert (Hsplit : 2 ^ (8 - sk) = 2 ^ (sj - sk) * 2 ^ (8 - sj))
        by (rewrite <- Z.pow_add_r by lia; f_equal; lia).
      intros [R1 R2].
      assert ((ck + 1) * 2 ^ (8 - sk) <= cj * 2 ^ (8 - sj)); [|lia].
      rewrite Hsplit. rewrite Z.mul_assoc. apply Z.mul_le_mono_nonneg_r; lia.
  Qed.

  Lemma look_miss : forall p, 0 <= p < 256 ->
    (forall k, (k < length sizes)%nat -> (k < length vals)%nat ->
       ~ prefix_of8 (nth k codes 0) (nth k sizes 0) p) ->
    nthZ tab (Z.to_nat p) = (HUFF_LOOKAHEAD + 1) * 256.
  Proof.
    intros p Hp Hno.
    pose proof (gen_codes_len _ _ Hs Hc) as Hcl.
    unfold nthZ, tab. rewrite look_fill_miss.
    - rewrite nth_repeat_gen. destruct (Nat.ltb (Z.to_nat p) 256) eqn:E; [reflexivity|lia].
    - intros j J1 J2 J3 J4. split; [apply (codes_fit _ _ Hs Hc j); lia|].
      rewrite Z2Nat.id by lia. intros Hin.
      unfold vs in J3. rewrite firstn_length in J3.
      apply (Hno j J2 ltac:(lia)). split; [exact J4|].
      apply prefix_in_range; [|exact Hin].
      pose proof (sorted_from_lb _ _ Hs j J2). lia.
  Qed.

  (* the search for a short code that prefixes p is decidable *)
  Lemma prefix_dec : forall p N,
    (exists k, (k < N)%nat /\ (k < length sizes)%nat /\ (k < length vals)%nat /\
               prefix_of8 (nth k codes 0) (nth k sizes 0) p) \/
    (forall k, (k < N)%nat -> (k < length sizes)%nat -> (k < length vals)%nat ->
               ~ prefix_of8 (nth k codes 0) (nth k sizes 0) p).
  Proof.
    intros p. induction N as [|N IH].
    - right. intros; lia.
    - destruct IH as [(k & A & B)|IH]; [left; exists k; split; [lia|exact B]|].
      destruct (Nat.ltb N (length sizes)) eqn:E1; [|right; intros k Hk; intros;
        destruct (Nat.eqb k N) eqn:E; [lia|apply IH; lia]].
      destruct (Nat.ltb N (length vals)) eqn:E2; [|right; intros k Hk; intros;
        destruct (Nat.eqb k N) eqn:E; [lia|apply IH; lia]].
      destruct (Z.leb (nth N sizes 0) 8) eqn:E3;
        [|right; intros k Hk ? ? [P1 P2]; destruct (Nat.eqb k N) eqn:E;
          [assert (k = N) by lia; subst k; lia|apply (IH k); try lia; split; assumption]].
      destruct (Z.eqb (p / 2 ^ (8 - nth N sizes 0)) (nth N codes 0)) eqn:E4.
      + left. exists N. repeat split; lia.
      + right. intros k Hk ? ? [P1 P2]. destruct (Nat.eqb k N) eqn:E.
        * assert (k = N) by lia. subst k. lia.
        * apply (IH k); try lia. split; assumption.
  Qed.

  (* a short code word prefixes p at most once *)
  Lemma prefix_unique : forall j k p, (j < length sizes)%nat -> (k < length sizes)%nat ->
    0 <= p < 256 ->
    prefix_of8 (nth j codes 0) (nth j sizes 0) p -> prefix_of8 (nth k codes 0) (nth k sizes 0) p ->
    j = k.
  Proof.
    assert (W : forall j k p, (j < k)%nat -> (k < length sizes)%nat -> 0 <= p < 256 ->
      prefix_of8 (nth j codes 0) (nth j sizes 0) p -> prefix_of8 (nth k codes 0) (nth k sizes 0) p -> False).
    { intros j k p Hjk Hk Hp [A1 A2] [B1 B2].
      pose proof (sorted_from_lb _ _ Hs j ltac:(lia)) as L1.
      pose proof (sorted_from_lb _ _ Hs k Hk) as L2.
      apply prefix_in_range in A2; [|lia]. apply prefix_in_range in B2; [|lia].
      unfold in_range8 in *.
      pose proof (codes_prefix _ _ Hs Hc j k ltac:(lia)) as Hp3.
      pose proof (sorted_from_mono _ _ Hs j k ltac:(lia)) as Hm.
      set (sk := nth k sizes 0) in *. set (sj := nth j sizes 0) in *.
      set (ck := nth k codes 0) in *. set (cj := nth j codes 0) in *.
      assert (Hq : 0 < 2 ^ (8 - sk)) by (apply Z.pow_pos_nonneg; lia).
      assert (Hsplit : 2 ^ (8 - sj) = 2 ^ (sk - sj) * 2 ^ (8 - sk))
        by (rewrite <- Z.pow_add_r by lia; f_equal; lia).
      assert ((cj + 1) * 2 ^ (8 - sj) <= ck * 2 ^ (8 - sk)); [|lia].
      rewrite Hsplit. rewrite Z.mul_assoc. apply Z.mul_le_mono_nonneg_r; lia. }
    intros j k p Hj Hk Hp A B.
    destruct (Nat.compare j k) eqn:E.
    - apply Nat.compare_eq in E. exact E.
    - apply Nat.compare_lt_iff in E. exfalso. eapply (W j k); eauto.
    - apply Nat.compare_gt_iff in E. exfalso. eapply (W k j); eauto.
  Qed.
End Look.

(* ------------------------------------------------------------ the theorem *)
Theorem lookahead_table_characterisation : forall bits vals isDC maxdc dt,
  length bits = 17%nat ->
  make_d_derived bits vals isDC maxdc = Some dt ->
  (forall k, (k < length vals)%nat -> 0 <= nth k vals 0 <= 255) ->      (* huffval is UINT8 *)
  exists sizes codes,
    huffsizes (skipn 1 (firstn 17 bits)) 1 0 = Some sizes /\ gen_codes sizes = Some codes /\
    forall p, 0 <= p < 256 ->
      let e := nthZ (lookup dt) (Z.to_nat p) in
      let hit k := (k < length sizes)%nat /\ (k < length vals)%nat /\
                   prefix_of8 (nth k codes 0) (nth k sizes 0) p in
      (* a code word of length n <= 8 is a prefix of p: nbits = n, sym = its symbol *)
      (forall k, hit k -> e = nth k sizes 0 * 256 + nth k vals 0 /\
                          e / 256 = nth k sizes 0 /\ e mod 256 = nth k vals 0) /\
      (* no code word of length <= 8 is a prefix of p: the "no short code" entry *)
      ((forall k, ~ hit k) -> e = (HUFF_LOOKAHEAD + 1) * 256 /\ e / 256 = HUFF_LOOKAHEAD + 1) /\
      (* hence the fast-path test of HUFF_DECODE decides exactly the existence of such a code *)
      (e / 256 <= HUFF_LOOKAHEAD <-> exists k, hit k) /\
      (forall j k, hit j -> hit k -> j = k).
Proof.
  intros bits vals isDC maxdc dt Hlen Hd Hv.
  unfold make_d_derived in Hd.
  destruct (huffsizes (skipn 1 (firstn 17 bits)) 1 0) as [sizes|] eqn:Hsz; [|discriminate].
  destruct (gen_codes sizes) as [codes|] eqn:Hgc; [|discriminate].
  destruct (isDC && negb (forallb (fun s => (0 <=? s) && (s <=? maxdc)) (firstn (length sizes) vals)));
    [discriminate|].
  inversion Hd; subst dt; clear Hd.
  exists sizes, codes. split; [first [exact Hsz|reflexivity]|]. split; [first [exact Hgc|reflexivity]|].
  pose proof (huffsizes_sorted _ _ _ _ Hsz) as Hs.
  intros p Hp. cbv zeta. cbn [lookup].
  set (e := nthZ (look_fill codes sizes (firstn (length sizes) vals) (repeat ((HUFF_LOOKAHEAD + 1) * 256) 256)) (Z.to_nat p)).
  set (hit := fun k : nat => (k < length sizes)%nat /\ (k < length vals)%nat /\
                              prefix_of8 (nth k codes 0) (nth k sizes 0) p).
  change (
      (forall k, hit k -> e = nth k sizes 0 * 256 + nth k vals 0 /\
                          e / 256 = nth k sizes 0 /\ e mod 256 = nth k vals 0) /\
      ((forall k, ~ hit k) -> e = (HUFF_LOOKAHEAD + 1) * 256 /\ e / 256 = HUFF_LOOKAHEAD + 1) /\
      (e / 256 <= HUFF_LOOKAHEAD <-> exists k, hit k) /\
      (forall j k, hit j -> hit k -> j = k)).
  assert (Hhit : forall k, hit k -> e = nth k sizes 0 * 256 + nth k vals 0 /\
                           e / 256 = nth k sizes 0 /\ e mod 256 = nth k vals 0).
  { intros k (K1 & K2 & K3).
    assert (E : e = nth k sizes 0 * 256 + nth k vals 0) by (apply (look_hit sizes codes vals Hs Hgc); assumption).
    split; [exact E|]. rewrite E. apply div256. pose proof (Hv k K2). lia. }
  assert (Hmiss : (forall k, ~ hit k) -> e = (HUFF_LOOKAHEAD + 1) * 256 /\ e / 256 = HUFF_LOOKAHEAD + 1).
  { intros Hno.
    assert (E : e = (HUFF_LOOKAHEAD + 1) * 256).
    { apply (look_miss sizes codes vals Hs Hgc p Hp). intros k K1 K2 K3. apply (Hno k). exact (conj K1 (conj K2 K3)). }
    split; [exact E|]. rewrite E. reflexivity. }
  split; [exact Hhit|]. split; [exact Hmiss|]. split.
  - destruct (prefix_dec sizes codes vals p (length sizes)) as [(k & _ & K)|Hno].
    + split; [intros _; exists k; exact K|]. intros _.
      destruct (Hhit k K) as (_ & -> & _). destruct K as (_ & _ & [K3 _]). unfold HUFF_LOOKAHEAD. lia.
    + assert (Hno' : forall k, ~ hit k) by (intros k (K1 & K2 & K3); apply (Hno k K1 K1 K2 K3)).
      destruct (Hmiss Hno') as [_ E]. split.
      * intros H. rewrite E in H. lia.
      * intros (k & K). destruct (Hno' k K).
  - intros j k (J1 & _ & J3) (K1 & _ & K3).
    apply (prefix_unique sizes codes Hs Hgc j k p); assumption.
Qed.

(* non-vacuity on the standard luminance AC table: pattern 00xxxxxx hits the
   2-bit code of symbol 1, pattern 11111111 has no code of length <= 8 *)
Example lookahead_table_example :
  exists dt, make_d_derived GenStdHuff.std_bits_ac_luminance GenStdHuff.std_val_ac_luminance false 15 = Some dt /\
    nthZ (lookup dt) 5 = 2 * 256 + 1 /\ nthZ (lookup dt) 255 = (HUFF_LOOKAHEAD + 1) * 256.
Proof. vm_compute. eexists. repeat split; reflexivity. Qed.
