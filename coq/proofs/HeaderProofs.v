(* HeaderProofs.v -- C16: the file header (JFIF / Adobe) read back and the colourspace decision
   of default_decompress_parms; the lossless Td clause of emit_sos (refuted on the tree when the
   generated fact EMIT_SOS_TD_KEPT_IN_LOSSLESS is 0); concrete instances of the hypotheses used
   by the C16 theorems. *)
From Coq Require Import List ZArith Bool Lia Permutation.
From LJT Require Import lib.Sweep gen.GenIccConst model.MarkerRT model.Icc model.CopyMarkers
  proofs.C16Consts proofs.IccProofs proofs.IccRoundTrip proofs.MarkerProofs proofs.CopyProofs.
Import ListNotations.
Local Open Scope Z_scope.

(* header information after the markers written by write_file_header *)
Definition header_info (cs : cspace) (j : jfif) : hinfo :=
  let h1 := if writes_jfif cs then hinfo_jfif hinfo_init j else hinfo_init in
  if writes_adobe cs then hinfo_adobe h1 cs else h1.
Definition ncomp_of (cs : cspace) : Z :=
  match cs with CS_GRAY => 1 | CS_RGB | CS_YCbCr => 3 | CS_CMYK | CS_YCCK => 4 | CS_UNKNOWN => 0 end.

Lemma stops_read fuel c h acc rest : stops rest -> read_app_markers (S fuel) c h acc rest = Some (h, acc, rest).
Proof.
  intros Hs. cbn [read_app_markers]. unfold stops in Hs.
  destruct (next_marker rest) as [[code r]|]; [rewrite Hs|]; reflexivity.
Qed.

Theorem file_header_roundtrip c cs j rest : jfif_ok j -> cfg_wf c -> stops rest ->
  forall fuel, (2 <= fuel)%nat ->
  exists acc, read_app_markers fuel c hinfo_init [] (skipn 2 (emit_file_header cs j) ++ rest)
              = Some (header_info cs j, acc, rest).
Proof.
  intros Hj Hc Hs fuel Hf. destruct fuel as [|[|fuel]]; try lia.
  unfold emit_file_header, header_info.
  assert (J : exists acc, read_app_markers (S (S fuel)) c hinfo_init [] (emit_jfif_app0 j ++ rest)
                          = Some (hinfo_jfif hinfo_init j, acc, rest)).
  { destruct (jfif_roundtrip c j hinfo_init [] rest Hj Hc) as (E & acc' & P). rewrite E.
    cbn [read_app_markers]. rewrite <- app_assoc, next_marker_emit by (unfold is_byte, M_APP0; lia).
    change (is_app_or_com M_APP0) with true. cbn iota. rewrite <- app_assoc, P. exists acc'. apply stops_read. assumption. }
  assert (A : forall h, exists acc, read_app_markers (S (S fuel)) c h [] (emit_adobe_app14 cs ++ rest)
                          = Some (hinfo_adobe h cs, acc, rest)).
  { intros h. destruct (adobe_roundtrip c cs h [] rest Hc) as (E & acc' & P). rewrite E.
    cbn [read_app_markers]. rewrite <- app_assoc, next_marker_emit by (unfold is_byte, M_APP14; lia).
    change (is_app_or_com M_APP14) with true. cbn iota. rewrite <- app_assoc, P. exists acc'. apply stops_read. assumption. }
  destruct cs; cbn [writes_jfif writes_adobe]; unfold emit_marker at 1; cbn [app skipn]; rewrite ?app_nil_r.
  - exists []. apply stops_read. assumption.
  - exact J.
  - apply A.
  - exact J.
  - apply A.
  - apply A.
Qed.

(* (5) the colourspace the decompressor attributes to the image is the one the compressor wrote *)
Theorem colorspace_roundtrip cs j lossless ids : cs <> CS_UNKNOWN ->
  decide_colorspace (ncomp_of cs) (header_info cs j) lossless ids = cs.
Proof. destruct cs; intros H; try congruence; reflexivity. Qed.

(* without JFIF / Adobe marker (the application switched them off) the component ids decide: the ids jpeg_set_colorspace
   gives to YCbCr (1,2,3; lossy) and to RGB ('R','G','B'; any process) are recognised; 2 or more than 4 components
   are JCS_UNKNOWN *)
Theorem colorspace_by_ids :
  decide_colorspace 3 hinfo_init false [1; 2; 3] = CS_YCbCr /\
  (forall lossless, decide_colorspace 3 hinfo_init lossless [82; 71; 66] = CS_RGB) /\
  (forall lossless ids, decide_colorspace 1 hinfo_init lossless ids = CS_GRAY) /\
  (forall lossless ids, decide_colorspace 4 hinfo_init lossless ids = CS_CMYK) /\
  (forall h lossless ids, decide_colorspace 2 h lossless ids = CS_UNKNOWN /\ decide_colorspace 5 h lossless ids = CS_UNKNOWN).
Proof. repeat split; try reflexivity; intros []; reflexivity. Qed.

(* density and units come back whenever a JFIF marker is written (grayscale, YCbCr) *)
Theorem density_roundtrip cs j : writes_jfif cs = true ->
  let h := header_info cs j in
  h_saw_jfif h = true /\ h_unit h = j_unit j /\ h_xd h = j_xd j /\ h_yd h = j_yd j /\
  h_major h = j_major j /\ h_minor h = j_minor j.
Proof. destruct cs; intros H; try discriminate; cbn; repeat split; reflexivity. Qed.

(* ------------------------------------------------------------ lossless Td *)
Definition lossless_scan (s : scan) : Prop := 1 <= s_Ss s <= 7 /\ s_Se s = 0 /\ s_Ah s = 0.

(* if the tree's emit_sos zeroes Td whenever Ss <> 0, a lossless scan whose components use DC
   table 1 (YCbCr / YCCK input) is written with Td = 0: the header no longer says which table
   the entropy coder used *)
Theorem sos_lossless_td_refuted : EMIT_SOS_TD_KEPT_IN_LOSSLESS = 0 ->
  exists ids s, NoDup ids /\ Forall is_byte ids /\ scan_ok ids s /\ lossless_scan s /\
    exists s', get_sos ids (skipn 2 (emit_sos true ids s)) = Some (s', []) /\
               map sc_dc (s_comps s') <> map sc_dc (s_comps s).
Proof.
  intros H. exists [1; 2; 3], (mkScan [mkScomp 0 0 0; mkScomp 1 1 1; mkScomp 2 1 1] 1 0 0 0).
  split; [repeat constructor; cbn; intuition discriminate|].
  split; [repeat constructor; unfold is_byte; lia|].
  split; [unfold scan_ok, scomp_ok, is_byte; cbn; repeat split; try lia; repeat constructor; cbn; lia|].
  split; [unfold lossless_scan; cbn; lia|].
  unfold emit_sos, td_kept_in_lossless. rewrite H. eexists. split; [vm_compute; reflexivity|]. cbn. discriminate.
Qed.
(* and when the tree keeps Td in lossless scans, every lossless scan round-trips with its tables *)
Theorem sos_lossless_td_kept : EMIT_SOS_TD_KEPT_IN_LOSSLESS = 1 ->
  forall ids s rest, NoDup ids -> Forall is_byte ids -> scan_ok ids s ->
  exists body, emit_sos true ids s = emit_marker M_SOS ++ body /\
    get_sos ids (body ++ rest) =
    Some (mkScan (map (fun c => mkScomp (sc_ci c) (sc_dc c) (sos_ta s c)) (s_comps s)) (s_Ss s) (s_Se s) (s_Ah s) (s_Al s), rest).
Proof.
  intros H ids s rest ND Hb Hok. unfold emit_sos, td_kept_in_lossless. rewrite H. change (1 =? 1) with true.
  destruct (sos_roundtrip true true ids s ND Hb Hok) as (body & E & R). exists body. split; [exact E|].
  rewrite R. unfold scan_seen. f_equal. f_equal. f_equal. apply map_ext. intros c. unfold sos_td.
  cbn [andb]. rewrite orb_true_r. reflexivity.
Qed.

(* ------------------------------------------------------------ non-vacuity *)
Definition ex_profile : list Z := map (fun i => i mod 251) (zrange 0 (Z.to_nat 65520)).

Definition icc_is (r : icc_result) (p : list Z) : bool :=
  match r with IccOk q => zlist_eqb q p | _ => false end.
Lemma icc_is_ok r p : icc_is r p = true -> r = IccOk p.
Proof. destruct r; cbn; try discriminate. intros H. apply zlist_eqb_eq in H. congruence. Qed.
(* a 65520-byte profile: two segments; read back from the reversed marker list, also with a COM
   marker in front.  Stated as a boolean so that it is decided by vm_compute. *)
Definition ex_two_check : bool :=
  (1 <=? Zlength ex_profile) && (Zlength ex_profile <=? 255 * MAXD) &&
  match write_icc ex_profile with
  | Some segs => Nat.eqb (length segs) 2 && icc_is (read_icc (rev (markers_of segs))) ex_profile
                 && icc_is (read_icc (mkSaved M_COM 2 [1; 2] :: rev (markers_of segs))) ex_profile
  | None => false
  end.
Lemma ex_two_check_true : ex_two_check = true.
Proof. vm_compute. reflexivity. Qed.

Lemma ex_icc_bad :
  let a := mkSaved M_APP2 17 (icc_sig_writer ++ [1; 2; 9; 9; 9]) in
  let b := mkSaved M_APP2 15 (icc_sig_writer ++ [1; 2; 7]) in
  filter marker_is_icc [a; b] <> [] /\ ~ NoDup (map icc_seq (filter marker_is_icc [a; b])) /\
  read_icc [a; b] = IccBogus.
Proof.
  cbn zeta. split; [vm_compute; discriminate|]. split; [|vm_compute; reflexivity].
  vm_compute. intros H. inversion H as [|? ? Hn _]. apply Hn. left. reflexivity.
Qed.

Lemma ex_markers :
  Forall seg_ok [(M_COM, [104; 105]); (M_APP0 + 1, [1; 2; 3; 4; 5])] /\ stops [255; M_DQT; 0; 2] /\
  cfg_wf (jpeg_save_markers (jpeg_save_markers cfg_init M_COM 1) (M_APP0 + 1) 65535).
Proof.
  split; [repeat constructor; vm_compute; congruence|]. split; [reflexivity|].
  apply jpeg_save_markers_wf; [apply jpeg_save_markers_wf; [apply cfg_init_wf | lia] | lia].
Qed.

Lemma ex_frame : frame_ok (mkFrame 8 65535 65535 [mkComp 1 2 2 0; mkComp 2 1 1 1; mkComp 3 1 1 1]).
Proof. unfold frame_ok, comp_ok, is_byte. cbn. repeat split; try lia; repeat constructor; cbn; lia. Qed.

Lemma ex_scan : NoDup [1; 2; 3] /\ Forall is_byte [1; 2; 3] /\
  scan_ok [1; 2; 3] (mkScan [mkScomp 0 0 0; mkScomp 1 1 1; mkScomp 2 1 1] 0 63 0 0) /\
  scan_ok [1; 2; 3] (mkScan [mkScomp 0 0 0; mkScomp 1 0 0; mkScomp 2 0 0] 7 0 0 15).
Proof.
  split; [repeat constructor; cbn; intuition discriminate|].
  split; [repeat constructor; unfold is_byte; lia|].
  split; unfold scan_ok, scomp_ok, is_byte; cbn; repeat split; try lia; repeat constructor; cbn; lia.
Qed.

Lemma ex_jfif : jfif_ok (mkJfif 1 2 1 300 65535).
Proof. unfold jfif_ok, is_byte. cbn. lia. Qed.

(* regression case of the lossless-Td defect: ids 1,2,3 with DC tables 0,1,1, predictor 1 *)
Lemma ex_sos_lossless_regression :
  get_sos [1; 2; 3] (skipn 2 (emit_sos true [1; 2; 3] (mkScan [mkScomp 0 0 0; mkScomp 1 1 1; mkScomp 2 1 1] 1 0 0 0)))
  = Some (mkScan [mkScomp 0 0 0; mkScomp 1 1 0; mkScomp 2 1 0] 1 0 0 0, []).
Proof. vm_compute. reflexivity. Qed.
