(* I/O suspension inside an MCU row: because decode_mcus commits the bit-reader
   state after every completed MCU, any sequence of suspended calls followed by
   resumption reproduces the unsuspended row and final state. *)
From Coq Require Import List ZArith Lia.
From LJT Require Import model.Huff model.Lossless.
Import ListNotations.
Local Open Scope Z_scope.

Section SuspendProofs.
  Variable S : Type.
  Notation decoder := (S -> option (list Z * S)).
  (* more input only turns suspensions into results *)
  Definition dec_le (d1 d2 : decoder) : Prop := forall st r, d1 st = Some r -> d2 st = Some r.

  Lemma susp_length (d : decoder) : forall n st, (length (fst (decode_mcus_susp S d n st)) <= n)%nat.
  Proof.
    induction n as [|k IH]; intros st; cbn [decode_mcus_susp]; [cbn; lia|].
    destruct (d st) as [[m st']|]; [|cbn; lia].
    specialize (IH st'). destruct (decode_mcus_susp S d k st'). cbn in *. lia.
  Qed.

  Lemma resume_once (d dfull : decoder) : dec_le d dfull -> forall n st,
    let (ms1, s1) := decode_mcus_susp S d n st in
    let (ms2, s2) := decode_mcus_susp S dfull (n - length ms1) s1 in
    decode_mcus_susp S dfull n st = (ms1 ++ ms2, s2).
  Proof.
    intros Hle. induction n as [|k IH]; intros st.
    - cbn. reflexivity.
    - cbn [decode_mcus_susp]. destruct (d st) as [[m st']|] eqn:E.
      + rewrite (Hle _ _ E). specialize (IH st').
        destruct (decode_mcus_susp S d k st') as [ms1 s1]. cbn [length Nat.sub].
        destruct (decode_mcus_susp S dfull (k - length ms1) s1) as [ms2 s2].
        rewrite IH. reflexivity.
      + cbn [length Nat.sub app]. cbn [decode_mcus_susp].
        destruct (dfull st) as [[m st']|]; [|reflexivity].
        destruct (decode_mcus_susp S dfull k st'). reflexivity.
  Qed.

  Theorem resume_calls_correct (dfull : decoder) : forall calls,
    Forall (fun d => dec_le d dfull) calls ->
    forall n st, resume_calls S calls dfull n st = decode_mcus_susp S dfull n st.
  Proof.
    induction calls as [|d rest IH]; intros H n st; [reflexivity|].
    inversion H as [|? ? Hd Hrest]; subst. cbn [resume_calls].
    pose proof (resume_once d dfull Hd n st) as R.
    destruct (decode_mcus_susp S d n st) as [ms1 s1].
    rewrite (IH Hrest). destruct (decode_mcus_susp S dfull (n - length ms1) s1) as [ms2 s2].
    symmetry. exact R.
  Qed.
End SuspendProofs.

(* non-vacuity + the seeded variant refuted: the state is the list of MCUs not
   yet read; a call sees only the first [avail] of the 4 MCUs of the row *)
Definition toy_dec (total avail : nat) (st : list Z) : option (list Z * list Z) :=
  match st with
  | x :: t => if Nat.ltb (total - length st) avail then Some ([x], t) else None
  | [] => None
  end.

Lemma toy_le : dec_le (list Z) (toy_dec 4 2) (toy_dec 4 4).
Proof.
  intros st r. unfold toy_dec. destruct st as [|x t]; [discriminate|].
  destruct (Nat.ltb (4 - length (x :: t)) 2) eqn:E; [|discriminate].
  intros <-. apply Nat.ltb_lt in E. assert (L : Nat.ltb (4 - length (x :: t)) 4 = true) by (apply Nat.ltb_lt; lia).
  rewrite L. reflexivity.
Qed.

Lemma toy_resume :
  decode_mcus_susp _ (toy_dec 4 2) 4 [10; 20; 30; 40] = ([[10]; [20]], [30; 40]) /\
  resume_calls _ [toy_dec 4 2] (toy_dec 4 4) 4 [10; 20; 30; 40] = ([[10]; [20]; [30]; [40]], []).
Proof. split; reflexivity. Qed.

(* state saved once per call: the suspended call reports 2 MCUs but leaves the
   state at the start of the call, so the next call decodes the same bits again *)
Lemma hoisted_save_refuted :
  let (ms1, s1) := decode_mcus_hoisted _ (toy_dec 4 2) 4 [10; 20; 30; 40] in
  let (ms2, s2) := decode_mcus_hoisted _ (toy_dec 4 4) (4 - length ms1) s1 in
  ms1 ++ ms2 = [[10]; [20]; [10]; [20]] /\ ms1 ++ ms2 <> fst (decode_mcus_susp _ (toy_dec 4 4) 4 [10; 20; 30; 40]).
Proof. cbn. split; [reflexivity|discriminate]. Qed.
