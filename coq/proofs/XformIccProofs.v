(* C13: tj3TransformBufSize's ICC term covers the ICC payload tj3Transform writes -- for every
   TJPARAM_SAVEMARKERS value, copy option, source / instance profile, outside the two refuted cases. *)
From Coq Require Import ZArith Bool Lia.
From LJT Require Import gen.GenXformIcc model.XformIcc.
Local Open Scope Z_scope.

Definition xform_icc_sufficient_full : Prop :=
  forall x, valid_setup x -> icc_written x <= size_term x.

Lemma save_cases s : 0 <= s <= 4 -> s = 0 \/ s = 1 \/ s = 2 \/ s = 3 \/ s = 4.
Proof. lia. Qed.

Ltac zfin := repeat match goal with
  | H : (_ =? _) = true |- _ => apply Z.eqb_eq in H
  | H : (_ =? _) = false |- _ => apply Z.eqb_neq in H end; lia.

Theorem xform_icc_sufficient_partial : forall x, valid_setup x ->
  no_source_profile_case x = false -> after_get_case x = false -> icc_written x <= size_term x.
Proof.
  intros [s cn src inst got] (Hs & Hsrc & Hinst).
  unfold no_source_profile_case, after_get_case, icc_written, size_term, copied_bytes, inst_bytes, icc_copied,
    saved_icc, copy_opt, temp_icc. cbn [x_save x_copynone x_src x_inst x_got] in *.
  assert (B1 : (0 <? src) = negb (src =? 0)).
  { destruct (src =? 0) eqn:E; [apply Z.eqb_eq in E; subst; reflexivity|]. apply Z.eqb_neq in E. apply Z.ltb_lt. lia. }
  assert (B2 : (0 <? inst) = negb (inst =? 0)).
  { destruct (inst =? 0) eqn:E; [apply Z.eqb_eq in E; subst; reflexivity|]. apply Z.eqb_neq in E. apply Z.ltb_lt. lia. }
  rewrite B1, B2. clear B1 B2.
  unfold gen_size_term, gen_copy_option, gen_icc_copied, gen_writes_inst, gen_saves_app2, gen_copies_app2,
    gen_header_extracts, gen_get_zeroes_temp.
  destruct (save_cases s Hs) as [->|[->|[->|[->| ->]]]]; destruct cn, got;
    destruct (src =? 0) eqn:E3; destruct (inst =? 0) eqn:E4; cbn; intros; try discriminate; try zfin.
Qed.

(* (i) source without profile, instance profile, default SAVEMARKERS, no COPYNONE *)
Definition setup_i : xsetup := mkX 2 false 0 3000 false.
(* (ii) tj3GetICCProfile() before tj3TransformBufSize() *)
Definition setup_ii : xsetup := mkX 2 false 3000 0 true.

Lemma xform_icc_witnesses :
  (valid_setup setup_i /\ size_term setup_i = 0 /\ icc_written setup_i = 3000) /\
  (valid_setup setup_ii /\ size_term setup_ii = 0 /\ icc_written setup_ii = 3000).
Proof. unfold valid_setup. vm_compute. repeat split; intros; discriminate. Qed.

Theorem xform_icc_sufficient_refuted : ~ xform_icc_sufficient_full.
Proof.
  intros H. destruct xform_icc_witnesses as ((V & T & W) & _). specialize (H setup_i V). rewrite T, W in H. lia.
Qed.
