(* C13: tj3TransformBufSize's ICC term covers the ICC payload tj3Transform writes -- for every
   TJPARAM_SAVEMARKERS value, copy option, source / instance profile, outside the two refuted cases. *)
From Coq Require Import ZArith Bool Lia.
From LJT Require Import gen.GenXformIcc model.XformIcc.
Local Open Scope Z_scope.

Definition xform_icc_sufficient_full : Prop :=
  forall x, valid_setup x -> icc_written x <= size_term x.

Lemma save_cases s : 0 <= s <= 4 -> s = 0 \/ s = 1 \/ s = 2 \/ s = 3 \/ s = 4.
Proof. lia. Qed.

Ltac zfin := repeat match goal with
  | H : (_ =? _) = true |- _ => apply Z.eqb_eq in H
  | H : (_ =? _) = false |- _ => apply Z.eqb_neq in H end; lia.

(* for every TJPARAM_SAVEMARKERS value, copy option, source and instance profile of any size,
   tj3GetICCProfile() called or not *)
Theorem xform_icc_sufficient_all : xform_icc_sufficient_full.
Proof.
  intros [s cn src inst got] (Hs & Hsrc & Hinst). change gen_savemarkers_min with 0 in Hs. change gen_savemarkers_max with 4 in Hs.
  unfold icc_written, size_term, size_term_with, copied_bytes, inst_bytes, icc_copied, saved_icc, copy_opt, temp_icc_with.
  cbn [x_save x_copynone x_src x_inst x_got] in *.
  assert (B1 : (0 <? src) = negb (src =? 0)).
  { destruct (src =? 0) eqn:E; [apply Z.eqb_eq in E; subst; reflexivity|]. apply Z.eqb_neq in E. apply Z.ltb_lt. lia. }
  rewrite B1. clear B1.
  unfold gen_size_term, gen_copy_option, gen_icc_copied, gen_writes_inst, gen_saves_app2, gen_copies_app2,
    gen_header_extracts, gen_get_zeroes_temp.
  destruct (save_cases s Hs) as [->|[->|[->|[->| ->]]]]; destruct cn, got;
    destruct (src =? 0) eqn:E3; destruct (inst =? 0) eqn:E4; cbn; rewrite ?E3, ?E4; cbn; try zfin.
Qed.

(* the two rules before the fixes are refuted:
   (i)  source without profile, instance profile, default SAVEMARKERS, no COPYNONE (old size rule)
   (ii) tj3GetICCProfile() before tj3TransformBufSize() when it still reset tempICCSize *)
Definition setup_i : xsetup := mkX 2 false 0 3000 false.
Definition setup_ii : xsetup := mkX 2 false 3000 0 true.

Lemma xform_icc_old_rules_refuted :
  (valid_setup setup_i /\ size_term_with old_size_term_rule false setup_i = 0 /\ icc_written setup_i = 3000 /\
   size_term setup_i = 3000) /\
  (valid_setup setup_ii /\ size_term_with gen_size_term true setup_ii = 0 /\ icc_written setup_ii = 3000 /\
   size_term setup_ii = 3000).
Proof. unfold valid_setup. vm_compute. repeat split; intros; discriminate. Qed.

(* ---- with the marker overhead *)
Theorem xform_icc_bytes_bound : forall x k, valid_setup x -> 0 <= k ->
  icc_bytes_written x k <= size_term x + icc_chunk_overhead * chunks_written x k.
Proof.
  intros x k V Hk. unfold icc_bytes_written. pose proof (xform_icc_sufficient_all x V). lia.
Qed.

(* sufficient when the chunk overhead fits in what the caller leaves of the 2048-byte slack *)
Theorem xform_icc_bytes_sufficient_when : forall x k room, valid_setup x -> 0 <= k ->
  icc_chunk_overhead * chunks_written x k <= room -> icc_bytes_written x k <= size_term x + room.
Proof. intros x k room V Hk H. pose proof (xform_icc_bytes_bound x k V Hk). lia. Qed.

(* refuted in general: a 2550-byte source profile stored as 255 chunks needs 4590 bytes more than the payload,
   more than the whole slack (replayed on the library: `xmk 0 255 2550 2 0 8 1`) *)
Definition setup_chunks : xsetup := mkX 2 false 2550 0 false.
Theorem xform_icc_chunk_overhead_refuted :
  valid_setup setup_chunks /\ icc_bytes_written setup_chunks 255 = 7140 /\ marker_budget setup_chunks = 4598 /\
  marker_budget setup_chunks < icc_bytes_written setup_chunks 255.
Proof. unfold valid_setup. vm_compute. repeat split; intros; discriminate. Qed.

Definition icc_max_data' : Z := 65519.

(* ---- once the size function counts the chunk overhead (gen_chunk_overhead = 18, the fix of
        xform-icc-undersized:chunk-overhead) it covers every byte of ICC markers the transform writes *)
Require Import ZifyBool.
Ltac Zify.zify_post_hook ::= Z.div_mod_to_equations.

(* counting 18 bytes per chunk (source: markers seen when the header is read; instance: 65519-byte chunks) covers
   every byte of ICC markers the transform writes -- whatever the tree currently counts *)
Lemma xform_icc_bytes_core : forall x k, valid_setup x -> 0 <= k -> icc_bytes_written x k <= size_term_bytes_with 18 65519 x k.
Proof.
  intros [s cn src inst got] k (Hs & Hsrc & Hinst) Hk.
  change gen_savemarkers_min with 0 in Hs. change gen_savemarkers_max with 4 in Hs.
  unfold icc_bytes_written, size_term_bytes_with, chunks_written, temp_markers, inst_chunks_assumed, inst_chunks,
    icc_written, size_term, size_term_with, copied_bytes, inst_bytes, icc_copied, saved_icc, copy_opt, temp_icc, temp_icc_with,
    icc_chunk_overhead.
  cbn [x_save x_copynone x_src x_inst x_got] in *.
  assert (B1 : (0 <? src) = negb (src =? 0)).
  { destruct (src =? 0) eqn:E; [apply Z.eqb_eq in E; subst; reflexivity|]. apply Z.eqb_neq in E. apply Z.ltb_lt. lia. }
  rewrite B1. clear B1.
  unfold gen_size_term, gen_size_picks_temp, gen_copy_option, gen_icc_copied, gen_writes_inst, gen_saves_app2, gen_copies_app2,
    gen_header_extracts, gen_get_zeroes_temp.
  change (GenDest.icc_max_bytes_in_marker - GenDest.icc_overhead_len) with 65519. change GenDest.icc_overhead_len with 14.
  destruct (save_cases s Hs) as [->|[->|[->|[->| ->]]]]; destruct cn, got;
    destruct (src =? 0) eqn:E3; destruct (inst =? 0) eqn:E4;
    unfold jcopyopt_NONE, jcopyopt_COMMENTS, jcopyopt_ALL, jcopyopt_ALL_EXCEPT_ICC, jcopyopt_ICC;
    cbn [Z.eqb Pos.eqb andb orb negb]; rewrite ?E3, ?E4; cbn [Z.eqb Pos.eqb andb orb negb];
    try (destruct (inst mod 65519 =? 0) eqn:E5); try zfin.
Qed.

Theorem xform_icc_bytes_sufficient_with_overhead : gen_chunk_overhead = icc_chunk_overhead -> gen_inst_chunk = icc_max_data' ->
  forall x k, valid_setup x -> 0 <= k -> icc_bytes_written x k <= size_term_bytes x k.
Proof.
  intros H1 H2 x k V Hk. unfold size_term_bytes. rewrite H1, H2. exact (xform_icc_bytes_core x k V Hk).
Qed.

(* ---- the tree as it is now (45743c1): tj3TransformBufSize counts 18 bytes per chunk *)
Lemma tree_counts_chunk_overhead : gen_chunk_overhead = icc_chunk_overhead /\ gen_inst_chunk = icc_max_data'.
Proof. split; reflexivity. Qed.

Fixpoint sum_list (l : list Z) : Z := match l with nil => 0 | cons p t => p + sum_list t end.
(* an APP2 chunk carrying p bytes of the profile: FF E2, length, "ICC_PROFILE\0", sequence number, count, data *)
Definition app2_chunk_bytes (p : Z) : Z := icc_chunk_overhead + p.
Definition copied_marker_bytes (ps : list Z) : Z := sum_list (List.map app2_chunk_bytes ps).

Lemma copied_marker_bytes_eq ps : copied_marker_bytes ps = sum_list ps + icc_chunk_overhead * Z.of_nat (length ps).
Proof.
  unfold copied_marker_bytes. induction ps as [|p t IH]; [reflexivity|].
  cbn [List.map sum_list length]. rewrite IH, Nat2Z.inj_succ. unfold app2_chunk_bytes. lia.
Qed.

(* all bytes of ICC markers tj3Transform writes: the source chunks it copies, as they are, or the instance profile
   cut into 65519-byte chunks by jpeg_write_icc_profile *)
Definition icc_marker_bytes_of (x : xsetup) (ps : list Z) : Z :=
  (if saved_icc x && gen_copies_app2 (copy_opt x) then copied_marker_bytes ps else 0) +
  (if gen_writes_inst (x_inst x) (icc_copied x) then x_inst x + icc_chunk_overhead * inst_chunks (x_inst x) else 0).

(* tj3TransformBufSize = tj3JPEGBufSize of the destination image + the ICC term *)
Definition transform_bufsize (base : Z) (x : xsetup) (ps : list Z) : Z := base + size_term_bytes x (Z.of_nat (length ps)).

(* the size function covers its per-image part (headers + entropy-coded data: see C13_bufsize_sufficient_when /
   _worstcase_refuted) plus every byte of every ICC marker written, for any chunking of the source profile *)
Theorem transform_bufsize_covers_icc : forall base x ps, valid_setup x -> x_src x = sum_list ps ->
  base + icc_marker_bytes_of x ps <= transform_bufsize base x ps.
Proof.
  intros base x ps V Hsum. unfold transform_bufsize.
  destruct tree_counts_chunk_overhead as (H1 & H2).
  pose proof (xform_icc_bytes_sufficient_with_overhead H1 H2 x (Z.of_nat (length ps)) V ltac:(lia)) as H.
  assert (E : icc_marker_bytes_of x ps = icc_bytes_written x (Z.of_nat (length ps))).
  { unfold icc_marker_bytes_of, icc_bytes_written, icc_written, chunks_written, copied_bytes, inst_bytes.
    rewrite copied_marker_bytes_eq, Hsum.
    destruct (saved_icc x && gen_copies_app2 (copy_opt x)); destruct (gen_writes_inst (x_inst x) (icc_copied x)); lia. }
  rewrite E. lia.
Qed.
