(* C09 -- decode_mcu_AC_refine: suspension with the newnz_pos[] undo and idempotent correction bits is
   transparent: re-running on the DIRTY block with more input equals running on the clean block. *)
From Coq Require Import List ZArith Lia Arith Bool.
From LJT Require Import model.SuspendCore model.SuspendMarker model.SuspendHuff model.SuspendRefine
  proofs.SuspendProofs proofs.SuspendWriteProofs proofs.SuspendHuffProofs.
Import ListNotations.

(* ------------------------------------------------------------ correction bits *)
Lemma testbit_add_pow : forall c a, (0 <= a)%Z -> Z.testbit c a = false -> Z.testbit (c + 2 ^ a) a = true.
Proof.
  intros c a Ha H. apply Z.testbit_true; auto.
  assert (P : (0 < 2 ^ a)%Z) by (apply Z.pow_pos_nonneg; lia).
  replace (c + 2 ^ a)%Z with (c + 1 * 2 ^ a)%Z by lia. rewrite Z.div_add by lia.
  apply Z.testbit_false in H; auto.
  rewrite <- Zplus_mod_idemp_l, H. reflexivity.
Qed.

Lemma testbit_sub_pow : forall c a, (0 <= a)%Z -> Z.testbit c a = false -> Z.testbit (c - 2 ^ a) a = true.
Proof.
  intros c a Ha H. apply Z.testbit_true; auto.
  assert (P : (0 < 2 ^ a)%Z) by (apply Z.pow_pos_nonneg; lia).
  replace (c - 2 ^ a)%Z with (c + (-1) * 2 ^ a)%Z by lia. rewrite Z.div_add by lia.
  apply Z.testbit_false in H; auto.
  rewrite <- Zplus_mod_idemp_l, H. reflexivity.
Qed.

Lemma correct_idem : forall al c bit, (0 <= al)%Z -> correct al (correct al c bit) bit = correct al c bit.
Proof.
  intros al c bit Ha. unfold correct.
  destruct (bit =? 0)%Z; [reflexivity|].
  destruct (Z.testbit c al) eqn:T; [now rewrite T|].
  destruct (c >=? 0)%Z; [rewrite testbit_add_pow | rewrite testbit_sub_pow]; auto.
Qed.

Lemma correct_nonzero : forall al c bit, (0 <= al)%Z -> c <> 0%Z -> correct al c bit <> 0%Z.
Proof.
  intros al c bit Ha Hc. unfold correct.
  assert (P : (0 < 2 ^ al)%Z) by (apply Z.pow_pos_nonneg; lia).
  destruct (bit =? 0)%Z; auto. destruct (Z.testbit c al); auto.
  destruct (c >=? 0)%Z eqn:G; [apply Z.geb_le in G | rewrite Z.geb_leb in G; apply Z.leb_gt in G]; lia.
Qed.

(* ------------------------------------------------------------ more input behind the reader *)
Definition wext (e : list byte) (w : rwork) : rwork :=
  mk (w_mode w) (w_k w) (w_blk w) (w_nz w) (w_eob w) (ext e (w_b w)).
Definition setblk (X : list Z) (w : rwork) : rwork :=
  mk (w_mode w) (w_k w) X (w_nz w) (w_eob w) (w_b w).

Definition srel (e : list byte) (r1 r2 : sres) : Prop :=
  match r1 with
  | SNext w' => r2 = SNext (wext e w')
  | SFin blk eob b => r2 = SFin blk eob (ext e b)
  | SBad => r2 = SBad
  | SSusp _ _ => True
  end.

Lemma srel_rbind {A} : forall (m : B A) w w2 k k2 e, bstable m ->
  w_b w2 = ext e (w_b w) ->
  (forall a b, srel e (k a b) (k2 a (ext e b))) -> srel e (rbind m w k) (rbind m w2 k2).
Proof.
  intros m w w2 k k2 e Hm Hb Hk. unfold rbind. rewrite Hb.
  destruct (m (w_b w)) as [a b'|] eqn:E; [|exact I].
  rewrite (Hm _ e _ _ E). apply Hk.
Qed.

Lemma bstable_eta {A} (m : B A) : bstable m -> bstable (fun b => m b).
Proof. intros H. exact H. Qed.

Lemma bst_sign : forall s, bstable (fun b => bbind (if (s =? 1)%Z then bret tt else warn)
                                      (fun _ => bbind (check_bits 1) (fun _ => get_bits 1)) b).
Proof.
  intros s. apply (bstable_bind _ _); [destruct (s =? 1)%Z; [apply bstable_ret | apply bstable_warn]|].
  intros _. apply bstable_bind; [apply bstable_check | intros; apply bstable_get].
Qed.

Lemma bst_bits : forall n, bstable (fun b => bbind (check_bits n) (fun _ => get_bits n) b).
Proof. intros n. apply (bstable_bind _ _); [apply bstable_check | intros; apply bstable_get]. Qed.

Ltac srt :=
  repeat match goal with
  | |- srel _ (rbind (huff_decode _) _ _) _ =>
      apply srel_rbind; [apply bstable_huff_decode | simpl; reflexivity | intros; cbv zeta]
  | |- srel _ (rbind (fun b => bbind (if _ then _ else _) _ b) _ _) _ =>
      apply srel_rbind; [apply bst_sign | simpl; reflexivity | intros]
  | |- srel _ (rbind (fun b => bbind (check_bits _) _ b) _ _) _ =>
      apply srel_rbind; [apply bst_bits | simpl; reflexivity | intros]
  | |- srel _ (if ?c then _ else _) _ => destruct c
  | |- srel _ (SNext _) _ => simpl; reflexivity
  | |- srel _ (SFin _ _ _) _ => simpl; reflexivity
  | |- srel _ SBad _ => simpl; reflexivity
  end.

Lemma rstep_ext : forall c w e, srel e (rstep c w) (rstep c (wext e w)).
Proof.
  intros c w e. unfold rstep. destruct w as [m k blk nz eob b].
  cbn [w_mode w_k w_blk w_nz w_eob w_b wext mk].
  destruct m as [|r s|]; cbv zeta; srt.
Qed.

Lemma rstep_susp : forall c w blk nz, rstep c w = SSusp blk nz -> blk = w_blk w /\ nz = w_nz w.
Proof.
  intros c w blk nz H. unfold rstep, rbind in H. destruct w as [m k b0 n0 eob b].
  cbn [w_mode w_k w_blk w_nz w_eob w_b mk with_b] in H.
  destruct m as [|r s|]; cbv zeta in H;
    repeat match type of H with
    | (if ?c then _ else _) = _ => destruct c
    | match ?m with BOk _ _ => _ | BSusp => _ end = _ => destruct m
    end; try discriminate; inversion H; auto.
Qed.

(* the four shapes of a step; each comes with the fact that the same step is taken from a block X that
   looks the same at position k *)
Definition shape (c : rcfg) (w w' : rwork) : Prop :=
  let k := w_k w in
  (* A: the block is neither read nor written, no position consumed *)
  (w_k w' = k /\ w_blk w' = w_blk w /\ w_nz w' = w_nz w /\
   forall X, rstep c (setblk X w) = SNext (setblk X w'))
  \/ (* B: a zero coefficient is passed *)
  (k < w_k w' /\ w_blk w' = w_blk w /\ w_nz w' = w_nz w /\ nth k (w_blk w) 0%Z = 0%Z /\
   forall X, nth k X 0%Z = 0%Z -> rstep c (setblk X w) = SNext (setblk X w'))
  \/ (* C: a correction bit is appended to a nonzero coefficient *)
  (k < w_k w' /\ w_nz w' = w_nz w /\ nth k (w_blk w) 0%Z <> 0%Z /\
   exists bit, w_blk w' = upd k (correct (c_al c) (nth k (w_blk w) 0%Z) bit) (w_blk w) /\
   forall X, nth k X 0%Z <> 0%Z ->
     rstep c (setblk X w) = SNext (setblk (upd k (correct (c_al c) (nth k X 0%Z) bit) X) w'))
  \/ (* D: a newly nonzero coefficient is stored at a zero position and remembered *)
  (w_k w' = S k /\ k <= 63 /\ nth k (w_blk w) 0%Z = 0%Z /\
   exists s, s <> 0%Z /\ w_blk w' = upd k s (w_blk w) /\ w_nz w' = k :: w_nz w /\
   forall X, nth k X 0%Z = 0%Z -> rstep c (setblk X w) = SNext (setblk (upd k s X) w')).

Ltac redo :=
  intros; unfold rstep, rbind, setblk; cbn [w_mode w_k w_blk w_nz w_eob w_b mk with_b]; cbv zeta;
  repeat match goal with
  | E : ?t = _ |- context[?t] => rewrite E
  end; try reflexivity.

Lemma rstep_shape : forall c w w', rstep c w = SNext w' -> shape c w w'.
Proof.
  intros c w w' H. unfold rstep, rbind in H. destruct w as [m k b0 n0 eob b].
  cbn [w_mode w_k w_blk w_nz w_eob w_b mk with_b] in H. unfold shape.
  cbn [w_mode w_k w_blk w_nz w_eob w_b mk].
  destruct m as [|r s|]; cbv zeta in H.
  - (* MSym *)
    left.
    repeat match type of H with
    | (if ?c then _ else _) = _ => destruct c eqn:?
    | match ?m with BOk _ _ => _ | BSusp => _ end = _ => destruct m as [? ?|] eqn:?
    end; try discriminate; inversion H; subst; clear H; cbn [w_k w_blk w_nz mk];
    (split; [reflexivity|]; split; [reflexivity|]; split; [reflexivity|]); redo.
  - (* MSkip *)
    destruct (negb (nth k b0 0 =? 0)%Z) eqn:NZ.
    + apply negb_true_iff, Z.eqb_neq in NZ.
      right. right. left.
      repeat match type of H with
      | (if ?c then _ else _) = _ => destruct c eqn:?
      | match ?m with BOk _ _ => _ | BSusp => _ end = _ => destruct m as [? ?|] eqn:?
      end; try discriminate; inversion H; subst; clear H; cbn [w_k w_blk w_nz mk];
      (split; [lia|]; split; [reflexivity|]; split; [exact NZ|]; eexists; split; [reflexivity|]);
      intros X HX; apply Z.eqb_neq in HX; redo; try (rewrite HX; cbn [negb]; redo).
    + apply negb_false_iff, Z.eqb_eq in NZ.
      destruct (r - 1 <? 0)%Z eqn:R1.
      * destruct (s =? 0)%Z eqn:S0.
        -- right. left. inversion H; subst; clear H; cbn [w_k w_blk w_nz mk].
           split; [lia|]. split; [reflexivity|]. split; [reflexivity|]. split; [exact NZ|].
           intros X HX. redo; try (rewrite HX; cbn; redo).
        -- destruct (Nat.ltb 63 k) eqn:K63; [discriminate|].
           right. right. right. inversion H; subst; clear H; cbn [w_k w_blk w_nz mk].
           apply Nat.ltb_ge in K63. apply Z.eqb_neq in S0.
           split; [reflexivity|]. split; [lia|]. split; [exact NZ|].
           exists s. split; [exact S0|]. split; [reflexivity|]. split; [reflexivity|].
           intros X HX. apply Z.eqb_neq in S0. apply Nat.ltb_ge in K63. redo; try (rewrite HX; cbn; redo).
      * right. left.
        repeat match type of H with
        | (if ?c then _ else _) = _ => destruct c eqn:?
        end; try discriminate; inversion H; subst; clear H; cbn [w_k w_blk w_nz mk];
        (split; [lia|]; split; [reflexivity|]; split; [reflexivity|]; split; [exact NZ|]);
        intros X HX; redo; try (rewrite HX; cbn; redo).
  - (* MEob *)
    destruct (Nat.ltb (c_se c) k) eqn:KS; [discriminate|].
    destruct (negb (nth k b0 0 =? 0)%Z) eqn:NZ.
    + apply negb_true_iff, Z.eqb_neq in NZ.
      right. right. left.
      destruct (bbind (check_bits 1) (fun _ => get_bits 1) b) as [bit b1|] eqn:E; [|discriminate].
      inversion H; subst; clear H; cbn [w_k w_blk w_nz mk].
      split; [lia|]. split; [reflexivity|]. split; [exact NZ|]. eexists. split; [reflexivity|].
      intros X HX. apply Z.eqb_neq in HX. redo; try (rewrite HX; cbn [negb]; redo).
    + apply negb_false_iff, Z.eqb_eq in NZ.
      right. left. inversion H; subst; clear H; cbn [w_k w_blk w_nz mk].
      split; [lia|]. split; [reflexivity|]. split; [reflexivity|]. split; [exact NZ|].
      intros X HX. redo; try (rewrite HX; cbn; redo).
Qed.

(* ------------------------------------------------------------ runs *)
Fixpoint steps (n : nat) (c : rcfg) (w w' : rwork) : Prop :=
  match n with
  | O => w = w'
  | S m => exists w1, rstep c w = SNext w1 /\ steps m c w1 w'
  end.

Lemma rrun_susp_steps : forall f c w blk nz, rrun f c w = RSusp blk nz ->
  exists n ws, n < f /\ steps n c w ws /\ rstep c ws = SSusp blk nz.
Proof.
  induction f as [|f IH]; intros c w blk nz H; simpl in H; [discriminate|].
  destruct (rstep c w) as [w1| | |] eqn:E; try discriminate.
  - destruct (IH _ _ _ _ H) as (n & ws & L & S1 & S2). exists (S n), ws. split; [lia|]. split; [|exact S2].
    simpl. eauto.
  - inversion H; subst. exists 0, w. split; [lia|]. split; [reflexivity | exact E].
Qed.

Lemma steps_rrun : forall n m c w w', steps n c w w' -> rrun (n + m) c w = rrun m c w'.
Proof.
  induction n; intros m c w w' H; simpl in *; [now subst|].
  destruct H as (w1 & E & H). rewrite E. now apply IHn.
Qed.

Lemma steps_ext : forall n c w w' e, steps n c w w' -> steps n c (wext e w) (wext e w').
Proof.
  induction n; intros c w w' e H; simpl in *; [now subst|].
  destruct H as (w1 & E & H). exists (wext e w1). split; [|now apply IHn].
  pose proof (rstep_ext c w e) as R. rewrite E in R. exact R.
Qed.

Lemma rrun_ext : forall f c w e,
  match rrun f c w with
  | RFin blk eob b => rrun f c (wext e w) = RFin blk eob (ext e b)
  | RBad => rrun f c (wext e w) = RBad
  | RFuel => rrun f c (wext e w) = RFuel
  | RSusp _ _ => True
  end.
Proof.
  induction f as [|f IH]; intros c w e; simpl; [reflexivity|].
  pose proof (rstep_ext c w e) as R.
  destruct (rstep c w) as [w1|blk eob b|blk nz|]; simpl in R; try rewrite R; auto.
  apply IH.
Qed.

(* ------------------------------------------------------------ undo *)
Lemma undo_length : forall l b, length (undo l b) = length b.
Proof. unfold undo. induction l; intros; simpl; auto. now rewrite IHl, upd_length. Qed.

Lemma undo_app : forall a b blk, undo (a ++ b) blk = undo b (undo a blk).
Proof. intros. unfold undo. apply fold_left_app. Qed.

Lemma undo_notin : forall l b j, ~ In j l -> nth j (undo l b) 0%Z = nth j b 0%Z.
Proof.
  unfold undo. induction l as [|p l IH]; intros b j H; simpl; [reflexivity|].
  rewrite IH by (intro; apply H; now right).
  apply nth_upd_other. intro; apply H; now left.
Qed.

Lemma nth_upd_zero : forall j p (b : list Z), nth j b 0%Z = 0%Z -> nth j (upd p 0%Z b) 0%Z = 0%Z.
Proof.
  intros j p b H. destruct (Nat.eq_dec j p) as [->|N].
  - destruct (Nat.lt_ge_cases p (length b)); [now rewrite nth_upd_same | now rewrite upd_oob].
  - now rewrite nth_upd_other.
Qed.

Lemma undo_zero : forall l b j, nth j b 0%Z = 0%Z -> nth j (undo l b) 0%Z = 0%Z.
Proof.
  unfold undo. induction l as [|p l IH]; intros b j H; simpl; [exact H|].
  apply IH. now apply nth_upd_zero.
Qed.

Lemma undo_in : forall l b j, In j l -> nth j (undo l b) 0%Z = 0%Z.
Proof.
  unfold undo. induction l as [|p l IH]; intros b j H; simpl; [contradiction|].
  destruct H as [->|H]; [|now apply IH].
  apply (undo_zero l). destruct (Nat.lt_ge_cases j (length b)); [now rewrite nth_upd_same|].
  rewrite upd_oob by auto. now apply nth_overflow.
Qed.

Lemma upd_same {A} : forall k (l : list A) d, upd k (nth k l d) l = l.
Proof. induction k; destruct l; simpl; intros; auto. f_equal. apply IHk. Qed.

Lemma nth_nonzero_lt : forall k (l : list Z), nth k l 0%Z <> 0%Z -> k < length l.
Proof. intros. destruct (Nat.lt_ge_cases k (length l)); auto. rewrite nth_overflow in H; [contradiction|auto]. Qed.

(* ------------------------------------------------------------ monotonicity of a run *)
Lemma steps_mono : forall n c w ws, steps n c w ws ->
  w_k w <= w_k ws /\ length (w_blk ws) = length (w_blk w) /\
  (forall j, j < w_k w -> nth j (w_blk ws) 0%Z = nth j (w_blk w) 0%Z) /\
  exists new, w_nz ws = new ++ w_nz w /\ Forall (fun p => w_k w <= p /\ p < w_k ws) new.
Proof.
  induction n; intros c w ws H; simpl in H.
  - subst. repeat split; auto. exists []. split; auto.
  - destruct H as (w1 & E & H). destruct (IHn _ _ _ H) as (K & L & P & new & N & F).
    destruct (rstep_shape _ _ _ E) as [(A1 & A2 & A3 & _)|[(B1 & B2 & B3 & _)|[(C1 & C3 & C0 & bit & C2 & _)|(D1 & D63 & D0 & s & Ds & D2 & D3 & _)]]].
    + rewrite A1, A2, A3 in *. repeat split; auto. exists new. split; auto.
    + rewrite B2, B3 in *. repeat split; try lia; auto.
      * intros j Hj. apply P. lia.
      * exists new. split; auto. eapply Forall_impl; [|exact F]. simpl. intros; lia.
    + rewrite C2, C3 in *. rewrite upd_length in L. repeat split; try lia; auto.
      * intros j Hj. rewrite P by lia. apply nth_upd_other. lia.
      * exists new. split; auto. eapply Forall_impl; [|exact F]. simpl. intros; lia.
    + rewrite D2, D3, D1 in *. rewrite upd_length in L. repeat split; try lia; auto.
      * intros j Hj. rewrite P by lia. apply nth_upd_other. lia.
      * exists (new ++ [w_k w]). split; [now rewrite <- app_assoc|].
        apply Forall_app. split; [eapply Forall_impl; [|exact F]; simpl; intros; lia|].
        constructor; [lia|constructor].
Qed.

(* ------------------------------------------------------------ the replay *)
Lemma steps_replay : forall n c w ws X, (0 <= c_al c)%Z -> steps n c w ws ->
  length (w_blk w) = 64 -> length X = 64 ->
  (forall j, j < w_k w -> nth j X 0%Z = nth j (w_blk w) 0%Z) ->
  (forall new, w_nz ws = new ++ w_nz w -> forall j, w_k w <= j -> nth j X 0%Z = nth j (undo new (w_blk ws)) 0%Z) ->
  steps n c (setblk X w) ws.
Proof.
  induction n; intros c w ws X Hal H L64 LX Lo Hi; simpl in H.
  - subst ws. simpl. destruct w as [m k b0 n0 eob b]. cbn [w_mode w_k w_blk w_nz w_eob w_b] in *. unfold setblk, mk. cbn [w_mode w_k w_blk w_nz w_eob w_b].
    f_equal. apply (nth_ext _ _ 0%Z 0%Z); [lia|]. intros j Hj.
    destruct (Nat.lt_ge_cases j k); [now apply Lo|]. now rewrite (Hi [] eq_refl j) by lia.
  - destruct H as (w1 & E & H).
    destruct (steps_mono _ _ _ _ H) as (K1 & L1 & P1 & new1 & N1 & F1).
    (* what X holds between k and the next position: the final value of the suspended run *)
    assert (Mid : forall j, w_k w <= j -> j < w_k w1 -> ~ In j new1).
    { intros j _ Hj I. rewrite Forall_forall in F1. apply F1 in I. lia. }
    destruct (rstep_shape _ _ _ E) as [(A1 & A2 & A3 & AX)|[(B1 & B2 & B3 & B0 & BX)|[(C1 & C3 & C0 & bit & C2 & CX)|(D1 & D63 & D0 & s & Ds & D2 & D3 & DX)]]].
    + simpl. exists (setblk X w1). split; [apply AX|].
      apply IHn; auto; try congruence.
      * rewrite A1, A2. exact Lo.
      * rewrite A1, A3. exact Hi.
    + assert (XM : forall j, w_k w <= j -> j < w_k w1 -> nth j X 0%Z = nth j (w_blk w1) 0%Z).
      { assert (Nw : w_nz ws = new1 ++ w_nz w) by (rewrite N1, B3; reflexivity).
        intros j J1 J2. rewrite (Hi new1 Nw j J1).
        rewrite undo_notin by (now apply Mid). now apply P1. }
      simpl. exists (setblk X w1). split; [apply BX; rewrite XM by lia; now rewrite B2|].
      apply IHn; auto; try congruence.
      * intros j Hj. destruct (Nat.lt_ge_cases j (w_k w)); [rewrite B2; now apply Lo | now apply XM].
      * intros new Hn j Hj. apply Hi; [now rewrite <- B3 | lia].
    + assert (XM : forall j, w_k w <= j -> j < w_k w1 -> nth j X 0%Z = nth j (w_blk w1) 0%Z).
      { assert (Nw : w_nz ws = new1 ++ w_nz w) by (rewrite N1, C3; reflexivity).
        intros j J1 J2. rewrite (Hi new1 Nw j J1).
        rewrite undo_notin by (now apply Mid). now apply P1. }
      pose proof (nth_nonzero_lt _ _ C0) as Klt.
      assert (Xk : nth (w_k w) X 0%Z = correct (c_al c) (nth (w_k w) (w_blk w) 0%Z) bit).
      { rewrite XM by lia. rewrite C2. now apply nth_upd_same. }
      simpl. eexists. split.
      * apply CX. rewrite Xk. now apply correct_nonzero.
      * rewrite Xk, correct_idem by auto. rewrite <- Xk, upd_same.
        apply IHn; auto; try (rewrite C2, upd_length; congruence).
        -- intros j Hj. destruct (Nat.lt_ge_cases j (w_k w)); [|now apply XM].
           rewrite C2, nth_upd_other by lia. now apply Lo.
        -- intros new Hn j Hj. apply Hi; [now rewrite <- C3 | lia].
    + assert (Xk : nth (w_k w) X 0%Z = 0%Z).
      { assert (Nw : w_nz ws = (new1 ++ [w_k w]) ++ w_nz w) by (rewrite N1, D3, <- app_assoc; reflexivity).
        rewrite (Hi (new1 ++ [w_k w]) Nw (w_k w) (le_n _)).
        apply undo_in. apply in_or_app. right. now left. }
      simpl. eexists. split; [apply DX; exact Xk|].
      apply IHn; auto; try (rewrite ?D2, upd_length; congruence).
      * intros j Hj. rewrite D1 in Hj. rewrite D2.
        destruct (Nat.eq_dec j (w_k w)) as [->|Nj].
        -- rewrite !nth_upd_same by lia. reflexivity.
        -- rewrite !nth_upd_other by lia. apply Lo. lia.
      * intros new Hn j Hj. rewrite D1 in Hj. rewrite nth_upd_other by lia.
        assert (Nw : w_nz ws = (new ++ [w_k w]) ++ w_nz w) by (rewrite Hn, D3, <- app_assoc; reflexivity).
        rewrite (Hi (new ++ [w_k w]) Nw j) by lia.
        rewrite undo_app. unfold undo at 1. simpl. apply nth_upd_other. lia.
Qed.

(* ------------------------------------------------------------ the unit *)
Lemma start_ext : forall s blk c p e, refine_start s blk c (p ++ e) = wext e (refine_start s blk c p).
Proof. reflexivity. Qed.

Lemma start_setblk : forall s more blk D c q,
  refine_start (q_set_todo s (D :: more)) D c q = setblk D (refine_start s blk c q).
Proof. reflexivity. Qed.

(* re-running on the dirty block with more input = running on the clean block *)
Lemma refine_replay : forall c s blk p e blk1 nz1, (0 <= c_al c)%Z -> length blk = 64 ->
  rrun 200 c (refine_start s blk c p) = RSusp blk1 nz1 ->
  length (undo nz1 blk1) = 64 /\
  rrun 200 c (setblk (undo nz1 blk1) (refine_start s blk c (p ++ e))) = rrun 200 c (refine_start s blk c (p ++ e)).
Proof.
  intros c s blk p e blk1 nz1 Hal L H.
  destruct (rrun_susp_steps _ _ _ _ _ H) as (n & ws & Ln & St & Su).
  destruct (rstep_susp _ _ _ _ Su) as [-> ->].
  destruct (steps_mono _ _ _ _ St) as (K & L1 & P & new & N & F).
  simpl in N, L1, P, K. rewrite app_nil_r in N.
  assert (L2 : length (undo (w_nz ws) (w_blk ws)) = 64) by (rewrite undo_length; congruence).
  split; [exact L2|].
  rewrite start_ext.
  pose proof (steps_ext _ _ _ _ e St) as Se.
  assert (R : steps n c (setblk (undo (w_nz ws) (w_blk ws)) (wext e (refine_start s blk c p))) (wext e ws)).
  { apply steps_replay; auto.
    - intros j Hj. simpl in Hj. simpl w_blk.
      rewrite undo_notin; [now apply P|].
      intro I. rewrite N in I. rewrite Forall_forall in F. apply F in I. simpl in I. lia.
    - intros new' Hn j _. simpl in Hn. rewrite app_nil_r in Hn. simpl in Hn. now rewrite <- Hn. }
  replace 200 with (n + (200 - n)) by lia.
  rewrite (steps_rrun _ _ _ _ _ R), (steps_rrun _ _ _ _ _ Se). reflexivity.
Qed.

Theorem refine_unit_resumable : forall c, resumable (refine_unit c) refine_slack.
Proof.
  intros c. constructor.
  - (* done_stable *)
    intros s p s' n k H. unfold refine_unit, refine_slack in *.
    destruct (q_todo s) as [|blk more] eqn:T; [discriminate|].
    destruct (negb (Nat.eqb (length blk) 64) || (c_al c <? 0)%Z); [discriminate|].
    destruct (q_insuf s).
    + inversion H; subst. simpl. repeat split; auto; lia.
    + pose proof (rrun_ext 200 c (refine_start s blk c p)) as R.
      destruct (rrun 200 c (refine_start s blk c p)) as [blk' eob b| | |] eqn:E; try discriminate.
      inversion H; subst. split; [lia|]. split; [cbn [length q_todo]; lia|].
      intros e. rewrite start_ext, (R e). cbn [rest ext gb bl um insuf wn]. rewrite !app_length. f_equal. lia.
  - (* fail_stable *)
    intros s p x H e. unfold refine_unit in *.
    destruct (q_todo s) as [|blk more]; [discriminate|].
    destruct (negb (Nat.eqb (length blk) 64) || (c_al c <? 0)%Z); [exact H|].
    destruct (q_insuf s); [discriminate|].
    pose proof (rrun_ext 200 c (refine_start s blk c p) e) as R.
    destruct (rrun 200 c (refine_start s blk c p)) as [blk' eob b| | |] eqn:E; try discriminate;
      rewrite start_ext, R; exact H.
  - (* halt_state *)
    intros s p H q. unfold refine_unit in *.
    destruct (q_todo s) as [|blk more]; [reflexivity|].
    destruct (negb (Nat.eqb (length blk) 64) || (c_al c <? 0)%Z); [discriminate|].
    destruct (q_insuf s); [discriminate|].
    destruct (rrun 200 c (refine_start s blk c p)); discriminate.
  - (* more_replay *)
    intros s p s1 n H. unfold refine_unit in H.
    destruct (q_todo s) as [|blk more] eqn:T; [discriminate|].
    destruct (negb (Nat.eqb (length blk) 64) || (c_al c <? 0)%Z) eqn:G; [discriminate|].
    apply orb_false_iff in G. destruct G as [G1 G2].
    apply negb_false_iff, Nat.eqb_eq in G1. apply Z.ltb_ge in G2.
    destruct (q_insuf s) eqn:I; [discriminate|].
    destruct (rrun 200 c (refine_start s blk c p)) as [blk' eob b|blk1 nz1| |] eqn:E; try discriminate.
    inversion H; subst; clear H. split; [lia|]. intros e. simpl skipn. rewrite shift_0'.
    destruct (refine_replay c s blk p e blk1 nz1 G2 G1 E) as [L2 R].
    unfold refine_unit. cbn [q_todo q_set_todo q_insuf q_done q_gb q_bl q_um q_warn q_eob]. rewrite T.
    rewrite L2, G1, Nat.eqb_refl. cbn [negb orb].
    replace (c_al c <? 0)%Z with false by (symmetry; now apply Z.ltb_ge).
    rewrite I.
    rewrite (start_setblk s more blk), R.
    destruct (rrun 200 c (refine_start s blk c (p ++ e))); reflexivity.
Qed.

(* ------------------------------------------------------------ non-vacuity *)
(* AC table: symbol 0x01 (run 0, new coefficient) = code 0, symbol 0x00 (EOB run of 1) = code 10 *)
Definition ex_rtbl := derive_dtbl [0; 1; 1; 0; 0; 0; 0; 0; 0; 0; 0; 0; 0; 0; 0; 0; 0]%Z [1; 0]%Z.
Definition ex_rcfg := {| c_ss := 1; c_se := 5; c_al := 0%Z; c_tbl := ex_rtbl |}.
(* block: positions 1 and 3 already nonzero (2 and -4): the scan corrects them and makes position 2 nonzero.
   bits: 0 (sym 01) 1 (positive) | k=1 nonzero: correction 1 | k=2 zero: target -> store +1 |
         10 (EOB) | k=3 nonzero: correction 1 | padding *)
Definition ex_rblock : list Z := [9; 2; 0; -4; 0; 0]%Z ++ repeat 0%Z 58.
Definition ex_rbytes2 : list byte := [116; 255; 217]%Z.   (* 0 1 1 | 10 | 1 | 00 -> 0b01110100 *)
Definition refine_summary (o : outcome qstate qerr) : list (list Z) :=
  match o with Halted s _ => map (firstn 6) (q_done s) | _ => [] end.

Example ex_refine_every_split :
  forallb (fun cs => if list_eq_dec (list_eq_dec Z.eq_dec)
                          (refine_summary (run_refine ex_rcfg cs (qinit 0 [ex_rblock]))) [[9; 3; 1; -5; 0; 0]%Z]
                     then true else false)
          ([[ex_rbytes2]; [[116%Z]; [255; 217]%Z]; [[116; 255]%Z; [217%Z]]; [[]; [116%Z]; []; [255%Z]; [217%Z]]]) = true.
Proof. vm_compute. reflexivity. Qed.

(* a block with 63 nonzero coefficients: EOB (code 10) followed by 63 correction bits = 65 bits: more than
   one refill of the 64-bit bit buffer, so the unit suspends in the MIDDLE of the block with correction
   bits already applied *)
Definition ex_dcfg := {| c_ss := 1; c_se := 63; c_al := 1%Z; c_tbl := ex_rtbl |}.
Definition ex_dblock : list Z :=
  7%Z :: map (fun i => (4 * (Z.of_nat (i mod 3) + 1) * (if Nat.odd i then 1 else -1))%Z) (seq 1 63).
Definition ex_dbytes : list byte := [168; 25; 54; 98; 27; 129; 212; 131; 127; 255; 217]%Z.
Definition splits_of (l : list byte) : list (list (list byte)) :=
  map (fun i => [firstn i l; skipn i l]) (seq 0 (S (length l))) ++ [map (fun x => [x]) l].
Definition refine_summary2 (o : outcome qstate qerr) : list (list Z) :=
  match o with Halted s _ => map (fun b => firstn 6 b ++ skipn 60 b) (q_done s) | _ => [] end.

Example ex_refine_dirty_every_split :
  forallb (fun cs => if list_eq_dec (list_eq_dec Z.eq_dec)
                          (refine_summary2 (run_refine ex_dcfg cs (qinit 0 [ex_dblock])))
                          [[7; 10; -12; 6; -8; 12; -4; 10; -14; 4]%Z]
                     then true else false) (splits_of ex_dbytes) = true.
Proof. vm_compute. reflexivity. Qed.

(* ... and the suspended state after the first 8 bytes is really dirty: the block in the coefficient
   array already carries correction bits (position 1: 8 -> 10) while the last coefficient is untouched *)
Example ex_refine_state_is_dirty :
  match run_refine ex_dcfg [firstn 8 ex_dbytes] (qinit 0 [ex_dblock]) with
  | Susp s _ _ => (firstn 4 (hd [] (q_todo s)), skipn 63 (hd [] (q_todo s))) | _ => ([], []) end
  = ([7; 10; -12; 6]%Z, [4%Z]).
Proof. vm_compute. reflexivity. Qed.
