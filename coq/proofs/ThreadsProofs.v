(* C15 -- noninterference of threads with disjoint private footprints that write no
   shared location: generic, all programs, all interleavings (induction over the
   merged trace). *)
From Coq Require Import List ZArith Bool Arith Lia.
From LJT Require Import model.Threads.
Import ListNotations.

(* ------------------------------------------------------------------ basics *)
Lemma loc_eqb_eq a b : loc_eqb a b = true <-> a = b.
Proof.
  destruct a, b; cbn; try (split; [discriminate | intros H; inversion H]);
    rewrite ?andb_true_iff, ?Nat.eqb_eq.
  - split; [intros [-> ->]; reflexivity | intros H; inversion H; auto].
  - split; [intros [-> ->]; reflexivity | intros H; inversion H; auto].
  - split; [intros ->; reflexivity | intros H; inversion H; auto].
  - split; auto.
Qed.

Lemma mem_In l ls : mem l ls = true <-> In l ls.
Proof.
  unfold mem. rewrite existsb_exists. split.
  - intros [x [Hx He]]. apply loc_eqb_eq in He. subst. exact Hx.
  - intros H. exists l. split; [exact H | apply loc_eqb_eq; reflexivity].
Qed.

Lemma mem_false l ls : mem l ls = false <-> ~ In l ls.
Proof.
  rewrite <- mem_In. destruct (mem l ls).
  - split; [discriminate | intros H; exfalso; apply H; reflexivity].
  - split; [intros _ H; discriminate | reflexivity].
Qed.

Lemma proj_cons_same t st tr : proj t ((t, st) :: tr) = st :: proj t tr.
Proof. unfold proj. cbn. rewrite Nat.eqb_refl. reflexivity. Qed.

Lemma proj_cons_other t u st tr : u <> t -> proj t ((u, st) :: tr) = proj t tr.
Proof. intros H. unfold proj. cbn. apply Nat.eqb_neq in H. rewrite H. reflexivity. Qed.

Lemma proj_In t tr st : In st (proj t tr) <-> In (t, st) tr.
Proof.
  unfold proj. rewrite in_map_iff. split.
  - intros [[u s] [Hs Hin]]. cbn in Hs. subst. apply filter_In in Hin. destruct Hin as [Hin He].
    cbn in He. apply Nat.eqb_eq in He. subst. exact Hin.
  - intros H. exists (t, st). split; [reflexivity|]. apply filter_In. split; [exact H|]. cbn. apply Nat.eqb_refl.
Qed.

(* ------------------------------------------------------------------ the key invariant
   F: a set of locations such that thread t's steps read only inside F and no step
   of another thread writes inside F.  Then the interleaved run and the solo run
   of thread t agree on F at every point, and thread t observes the same values. *)
Lemma solo_agrees (t : nat) (F : loc -> Prop) :
  forall tr s s',
    (forall l, F l -> s l = s' l) ->
    (forall st, In (t, st) tr -> forall l, In l (reads st) -> F l) ->
    (forall u st, In (u, st) tr -> u <> t -> forall l, In l (writes st) -> ~ F l) ->
    obs_of t tr s = obs_of t (solo t (proj t tr)) s' /\
    (forall l, F l -> run tr s l = run (solo t (proj t tr)) s' l).
Proof.
  induction tr as [|[u st] tr IH]; intros s s' Hag Hown Hoth.
  - cbn. split; [reflexivity | exact Hag].
  - destruct (Nat.eq_dec u t) as [->|Hne].
    + rewrite proj_cons_same. cbn [solo map obs_of run fst snd]. rewrite Nat.eqb_refl.
      assert (Hobs : observe st s = observe st s').
      { unfold observe. apply map_ext_in. intros l Hl. apply Hag. apply (Hown st); [left; reflexivity | exact Hl]. }
      assert (Hag' : forall l, F l -> exec st s l = exec st s' l).
      { intros l Hl. unfold exec. rewrite Hobs. destruct (mem l (writes st)); [reflexivity | apply Hag; exact Hl]. }
      destruct (IH (exec st s) (exec st s') Hag') as [IH1 IH2].
      * intros st' Hin. apply Hown. right. exact Hin.
      * intros u' st' Hin. apply Hoth. right. exact Hin.
      * split; [rewrite Hobs; f_equal; exact IH1 | exact IH2].
    + rewrite proj_cons_other by exact Hne. cbn [obs_of run fst snd].
      apply Nat.eqb_neq in Hne as Hneb. rewrite Hneb.
      assert (Hag' : forall l, F l -> exec st s l = s' l).
      { intros l Hl. unfold exec.
        destruct (mem l (writes st)) eqn:Hm.
        - exfalso. apply mem_In in Hm. apply (Hoth u st (or_introl eq_refl) Hne l Hm Hl).
        - apply Hag; exact Hl. }
      apply (IH (exec st s) s' Hag').
      * intros st' Hin. apply Hown. right. exact Hin.
      * intros u' st' Hin. apply Hoth. right. exact Hin.
Qed.

Lemma run_unwritten l : forall tr s, (forall e, In e tr -> ~ In l (writes (snd e))) -> run tr s l = s l.
Proof.
  induction tr as [|e tr IH]; intros s H; [reflexivity|].
  cbn [run]. rewrite IH by (intros e' He'; apply H; right; exact He').
  unfold exec. destruct (mem l (writes (snd e))) eqn:Hm; [|reflexivity].
  exfalso. apply mem_In in Hm. apply (H e (or_introl eq_refl) Hm).
Qed.

Lemma proj_solo t th : proj t (solo t th) = th.
Proof.
  induction th as [|st th IH]; [reflexivity|].
  cbn [solo map]. rewrite proj_cons_same. f_equal. exact IH.
Qed.

(* ------------------------------------------------------------------ no conflicts *)
Lemma no_conflicts p :
  no_shared_writes p -> private_disjoint p ->
  forall t u a b l, t <> u -> t < length p -> u < length p ->
    In a (nth t p []) -> In b (nth u p []) -> ~ conflict a b l.
Proof.
  intros Hw Hd t u a b l Hne Ht Hu Ha Hb [[Hwa Hfb] | [Hwb Hfa]].
  - assert (is_shared l = true) by (apply (Hd t u a b l Hne Ha Hb); [unfold footprint; apply in_or_app; right; exact Hwa | exact Hfb]).
    assert (is_shared l = false) by (apply (Hw (nth t p []) a l); [apply nth_In; exact Ht | exact Ha | exact Hwa]).
    congruence.
  - assert (is_shared l = true) by (apply (Hd t u a b l Hne Ha Hb); [exact Hfa | unfold footprint; apply in_or_app; right; exact Hwb]).
    assert (is_shared l = false) by (apply (Hw (nth u p []) b l); [apply nth_In; exact Hu | exact Hb | exact Hwb]).
    congruence.
Qed.

(* ------------------------------------------------------------------ the theorem *)
Definition solo_equivalent (p : program) (tr : list event) (s0 : state) : Prop :=
  (* every thread observes, at each of its steps, the values it observes when run alone *)
  (forall t, t < length p -> obs_of t tr s0 = obs_of t (solo t (nth t p [])) s0) /\
  (* the final value of every location a thread touches is the one of its solo run *)
  (forall t l, t < length p -> touches (nth t p []) l -> run tr s0 l = run (solo t (nth t p [])) s0 l) /\
  (* locations nobody writes keep their initial value (all Glob / Env locations in particular) *)
  (forall l, (forall t, t < length p -> ~ writes_loc (nth t p []) l) -> run tr s0 l = s0 l).

Definition conflict_free (p : program) : Prop :=
  forall t u a b l, t <> u -> t < length p -> u < length p ->
    In a (nth t p []) -> In b (nth u p []) -> ~ conflict a b l.

Theorem noninterference_all :
  forall p, no_shared_writes p -> private_disjoint p ->
  forall tr, is_interleaving p tr -> forall s0,
    solo_equivalent p tr s0 /\ conflict_free p.
Proof.
  intros p Hw Hd tr [Hlt Hproj] s0. split; [|exact (no_conflicts p Hw Hd)].
  assert (Hkey : forall t, t < length p ->
            obs_of t tr s0 = obs_of t (solo t (nth t p [])) s0 /\
            (forall l, touches (nth t p []) l -> run tr s0 l = run (solo t (nth t p [])) s0 l)).
  { intros t Ht. rewrite <- (Hproj t Ht).
    apply (solo_agrees t (touches (proj t tr)) tr s0 s0).
    - reflexivity.
    - intros st Hin l Hl. exists st. split; [apply proj_In; exact Hin | unfold footprint; apply in_or_app; left; exact Hl].
    - intros u st Hin Hne l Hl [a [Ha Hfa]].
      assert (Hu : u < length p) by (apply (Hlt (u, st)); exact Hin).
      rewrite (Hproj t Ht) in Ha.
      assert (Hb : In st (nth u p [])) by (rewrite <- (Hproj u Hu); apply proj_In; exact Hin).
      apply (no_conflicts p Hw Hd u t st a l Hne Hu Ht Hb Ha). left. split; assumption. }
  split; [|split].
  - intros t Ht. apply Hkey; exact Ht.
  - intros t l Ht Hl. apply Hkey; assumption.
  - intros l Hnw. apply run_unwritten. intros [u st] Hin Hl. cbn in Hl.
    assert (Hu : u < length p) by (apply (Hlt (u, st)); exact Hin).
    apply (Hnw u Hu). exists st. split; [|exact Hl].
    rewrite <- (Hproj u Hu). apply proj_In. exact Hin.
Qed.

(* ------------------------------------------------------------------ Merge => is_interleaving *)
Lemma upd_length {A} (l : list A) k x : length (upd l k x) = length l.
Proof. revert k; induction l as [|h tl IH]; intros [|k]; cbn; auto. Qed.

Lemma nth_upd_same {A} (l : list A) k x d : k < length l -> nth k (upd l k x) d = x.
Proof. revert k; induction l as [|h tl IH]; intros [|k] H; cbn in *; try lia; auto. apply IH. lia. Qed.

Lemma nth_upd_other {A} (l : list A) k j x d : j <> k -> nth j (upd l k x) d = nth j l d.
Proof.
  revert k j; induction l as [|h tl IH]; intros [|k] [|j] H; cbn; auto; try congruence.
Qed.

Lemma nth_error_nth' {A} (l : list A) k x d : nth_error l k = Some x -> nth k l d = x /\ k < length l.
Proof.
  revert k; induction l as [|h tl IH]; intros [|k] H; cbn in *; try discriminate.
  - inversion H. split; [reflexivity | lia].
  - destruct (IH k H). split; [assumption | lia].
Qed.

Theorem merge_is_interleaving : forall p tr, Merge p tr -> is_interleaving p tr.
Proof.
  intros p tr H. induction H as [p Hall | p t st rest tr Hnth HM [IH1 IH2]].
  - split; [intros e []|]. intros t Ht. cbn. symmetry. apply Hall. apply nth_In. exact Ht.
  - destruct (nth_error_nth' p t (st :: rest) [] Hnth) as [Hn Ht].
    rewrite upd_length in IH1, IH2. split.
    + intros e [<- | Hin]; [exact Ht | apply IH1; exact Hin].
    + intros u Hu. destruct (Nat.eq_dec u t) as [->|Hne].
      * rewrite proj_cons_same, (IH2 t Ht), nth_upd_same by exact Ht. symmetry. exact Hn.
      * rewrite proj_cons_other by (intro; apply Hne; auto). rewrite (IH2 u Hu). apply nth_upd_other. exact Hne.
Qed.

(* and conversely: is_interleaving is exactly "obtainable by repeatedly scheduling a pending thread" *)
Theorem interleaving_is_merge : forall tr p, is_interleaving p tr -> Merge p tr.
Proof.
  induction tr as [|[t st] tr IH]; intros p [Hlt Hproj].
  - apply Merge_nil. intros th Hth. apply In_nth with (d := []) in Hth. destruct Hth as [k [Hk <-]].
    pose proof (Hproj k Hk) as E. cbn in E. symmetry. exact E.
  - assert (Ht : t < length p) by (apply (Hlt (t, st)); left; reflexivity).
    pose proof (Hproj t Ht) as Hn. rewrite proj_cons_same in Hn.
    apply (Merge_cons p t st (proj t tr) tr).
    + rewrite (@List.nth_error_nth' (list step) p t [] Ht). f_equal. symmetry. exact Hn.
    + apply IH. split.
      * intros e He. rewrite upd_length. apply Hlt. right. exact He.
      * intros u Hu. rewrite upd_length in Hu. destruct (Nat.eq_dec u t) as [->|Hne].
        -- rewrite nth_upd_same by exact Ht. reflexivity.
        -- rewrite nth_upd_other by exact Hne. rewrite <- (Hproj u Hu). rewrite proj_cons_other; [reflexivity | intro; apply Hne; auto].
Qed.

(* the enumeration merges2 produces interleavings of a two-thread program *)
Lemma proj_solo_other t u th : t <> u -> proj t (solo u th) = [].
Proof.
  intros H. induction th as [|st th IH]; [reflexivity|].
  change (solo u (st :: th)) with ((u, st) :: solo u th). rewrite proj_cons_other by auto. exact IH.
Qed.

Lemma solo_fst t th e : In e (solo t th) -> fst e = t.
Proof. unfold solo. intros H. apply in_map_iff in H. destruct H as [y [<- _]]. reflexivity. Qed.

Lemma merges2_nil_l b : merges2 [] b = [b].
Proof. destruct b; reflexivity. Qed.
Lemma merges2_nil_r a : merges2 a [] = [a].
Proof. destruct a; reflexivity. Qed.
Lemma merges2_cons x a y b :
  merges2 (x :: a) (y :: b) = map (cons x) (merges2 a (y :: b)) ++ map (cons y) (merges2 (x :: a) b).
Proof. reflexivity. Qed.

Lemma merges2_proj :
  forall a b tr, In tr (merges2 (solo 0 a) (solo 1 b)) -> is_interleaving [a; b] tr.
Proof.
  assert (G : forall a b tr, In tr (merges2 (solo 0 a) (solo 1 b)) ->
              proj 0 tr = a /\ proj 1 tr = b /\ forall e, In e tr -> fst e < 2).
  { induction a as [|x a IHa].
    - intros b tr Hin. change (solo 0 []) with (@nil event) in Hin. rewrite merges2_nil_l in Hin.
      destruct Hin as [<-|[]]. split; [|split].
      + apply proj_solo_other. lia.
      + apply proj_solo.
      + intros e He. rewrite (solo_fst _ _ _ He). lia.
    - induction b as [|y b IHb]; intros tr Hin.
      + change (solo 1 []) with (@nil event) in Hin. rewrite merges2_nil_r in Hin.
        destruct Hin as [<-|[]]. split; [|split].
        * apply proj_solo.
        * apply proj_solo_other. lia.
        * intros e He. rewrite (solo_fst _ _ _ He). lia.
      + change (solo 0 (x :: a)) with ((0, x) :: solo 0 a) in Hin.
        change (solo 1 (y :: b)) with ((1, y) :: solo 1 b) in Hin.
        rewrite merges2_cons in Hin. apply in_app_or in Hin. destruct Hin as [Hin|Hin].
        * apply in_map_iff in Hin. destruct Hin as [tr' [<- Hin']].
          change ((1, y) :: solo 1 b) with (solo 1 (y :: b)) in Hin'.
          destruct (IHa (y :: b) tr' Hin') as [P0 [P1 P2]].
          rewrite proj_cons_same, proj_cons_other by lia. rewrite P0, P1.
          repeat split; auto. intros e [<-|He]; [cbn; lia | apply P2; exact He].
        * apply in_map_iff in Hin. destruct Hin as [tr' [<- Hin']].
          change ((0, x) :: solo 0 a) with (solo 0 (x :: a)) in Hin'.
          destruct (IHb tr' Hin') as [P0 [P1 P2]].
          rewrite proj_cons_same, proj_cons_other by lia. rewrite P0, P1.
          repeat split; auto. intros e [<-|He]; [cbn; lia | apply P2; exact He]. }
  intros a b tr Hin. destruct (G a b tr Hin) as [P0 [P1 P2]]. split.
  - exact P2.
  - intros [|[|t]] Ht; cbn in Ht; try lia; assumption.
Qed.

(* ------------------------------------------------------------------ boolean hypotheses *)
Lemma no_shared_writes_b_sound p : no_shared_writes_b p = true -> no_shared_writes p.
Proof.
  unfold no_shared_writes_b, no_shared_writes. intros H th st l Hth Hst Hl.
  rewrite forallb_forall in H. specialize (H th Hth). rewrite forallb_forall in H. specialize (H st Hst).
  rewrite forallb_forall in H. specialize (H l Hl). apply negb_true_iff in H. exact H.
Qed.

Lemma steps_disjoint_b_sound a b : steps_disjoint_b a b = true ->
  forall l, In l (footprint a) -> In l (footprint b) -> is_shared l = true.
Proof.
  unfold steps_disjoint_b. intros H l Ha Hb. rewrite forallb_forall in H. specialize (H l Ha).
  apply orb_true_iff in H. destruct H as [H|H]; [|exact H].
  apply negb_true_iff in H. apply mem_false in H. contradiction.
Qed.

Lemma steps_disjoint_b_sym_sound a b : steps_disjoint_b a b = true ->
  forall l, In l (footprint b) -> In l (footprint a) -> is_shared l = true.
Proof. intros H l Hb Ha. apply (steps_disjoint_b_sound a b H l Ha Hb). Qed.

Lemma private_disjoint_b_sound p : private_disjoint_b p = true -> private_disjoint p.
Proof.
  induction p as [|th rest IH]; intros H t u a b l Hne Ha Hb Hla Hlb.
  - destruct t; cbn in Ha; contradiction.
  - cbn [private_disjoint_b] in H. apply andb_true_iff in H. destruct H as [H1 H2].
    rewrite forallb_forall in H1.
    assert (Hcross : forall x k y, In x th -> In y (nth k rest []) ->
                       forall l, In l (footprint x) -> In l (footprint y) -> is_shared l = true).
    { intros x k y Hx Hy. specialize (H1 x Hx). rewrite forallb_forall in H1.
      destruct (Nat.lt_ge_cases k (length rest)) as [Hk|Hk].
      - specialize (H1 (nth k rest []) (nth_In _ _ Hk)). rewrite forallb_forall in H1.
        apply steps_disjoint_b_sound. apply H1. exact Hy.
      - rewrite nth_overflow in Hy by exact Hk. contradiction. }
    destruct t as [|t], u as [|u]; cbn [nth] in Ha, Hb.
    + congruence.
    + apply (Hcross a u b Ha Hb l Hla Hlb).
    + apply (Hcross b t a Hb Ha l Hlb Hla).
    + apply (IH H2 t u a b l); auto.
Qed.

(* ------------------------------------------------------------------ API level *)
Lemma nth_call_threads mk : forall p t k,
  nth k (call_threads mk t p) [] = map (mk (t + k)) (nth k p []).
Proof.
  induction p as [|th r IH]; intros t k.
  - destruct k; reflexivity.
  - destruct k as [|k]; cbn [call_threads nth].
    + rewrite Nat.add_0_r. reflexivity.
    + rewrite IH. f_equal. f_equal. lia.
Qed.

Lemma own_locs_private t i l : In l (own_locs t i) -> is_shared l = false.
Proof.
  unfold own_locs. intros H. apply in_app_or in H. destruct H as [H|H].
  - destruct i; [|contradiction]. apply in_map_iff in H. destruct H as [f [<- _]]. reflexivity.
  - apply in_map_iff in H. destruct H as [f [<- _]]. reflexivity.
Qed.

Lemma shared_locs_shared n l : In l (shared_locs n) -> is_shared l = true.
Proof.
  unfold shared_locs. intros [<-|H]; [reflexivity|]. apply in_map_iff in H. destruct H as [g [<- _]]. reflexivity.
Qed.

Lemma own_locs_disjoint t u i j l :
  t <> u -> (forall k, i = Some k -> j = Some k -> False) ->
  In l (own_locs t i) -> In l (own_locs u j) -> False.
Proof.
  unfold own_locs. intros Hne Hij H1 H2.
  apply in_app_or in H1. apply in_app_or in H2.
  destruct H1 as [H1|H1], H2 as [H2|H2].
  - destruct i as [i|]; [|contradiction]. destruct j as [j|]; [|contradiction].
    apply in_map_iff in H1. destruct H1 as [f [<- _]].
    apply in_map_iff in H2. destruct H2 as [g [E _]]. inversion E. subst. apply (Hij i); reflexivity.
  - destruct i as [i|]; [|contradiction].
    apply in_map_iff in H1. destruct H1 as [f [<- _]].
    apply in_map_iff in H2. destruct H2 as [g [E _]]. discriminate.
  - destruct j as [j|]; [|contradiction].
    apply in_map_iff in H1. destruct H1 as [f [<- _]].
    apply in_map_iff in H2. destruct H2 as [g [E _]]. discriminate.
  - apply in_map_iff in H1. destruct H1 as [f [<- _]].
    apply in_map_iff in H2. destruct H2 as [g [E _]]. inversion E. congruence.
Qed.

Lemma within_footprint_cases nglob mk t c l :
  within_inventory nglob mk ->
  In l (footprint (mk t c)) -> In l (own_locs t (c_inst c)) \/ is_shared l = true.
Proof.
  intros W H. destruct (W t c) as [Ww Wr]. unfold footprint in H. apply in_app_or in H. destruct H as [H|H].
  - destruct (Wr l H) as [H'|H']; [left; exact H' | right; apply (shared_locs_shared nglob); exact H'].
  - left. apply Ww. exact H.
Qed.

Lemma call_program_hyps :
  forall nglob mk (p : list (list api_call)),
    within_inventory nglob mk -> instances_exclusive p ->
    no_shared_writes (call_program mk p) /\ private_disjoint (call_program mk p).
Proof.
  intros nglob mk p W Hex. unfold call_program. split.
  - intros th st l Hth Hst Hl.
    apply In_nth with (d := []) in Hth. destruct Hth as [k [Hk <-]].
    rewrite nth_call_threads in Hst. apply in_map_iff in Hst. destruct Hst as [c [<- _]].
    destruct (W (0 + k) c) as [Ww _]. apply (own_locs_private _ _ _ (Ww l Hl)).
  - intros t u a b l Hne Ha Hb Hla Hlb.
    rewrite nth_call_threads in Ha, Hb. cbn [Nat.add] in Ha, Hb.
    apply in_map_iff in Ha. destruct Ha as [ca [<- Hca]].
    apply in_map_iff in Hb. destruct Hb as [cb [<- Hcb]].
    destruct (within_footprint_cases _ _ _ _ _ W Hla) as [H1|H1]; [|exact H1].
    destruct (within_footprint_cases _ _ _ _ _ W Hlb) as [H2|H2]; [|exact H2].
    exfalso. apply (own_locs_disjoint t u (c_inst ca) (c_inst cb) l Hne); auto.
    intros k E1 E2. apply (Hex t u ca cb k Hne Hca Hcb E1 E2).
Qed.

(* FULL statement of C15 in the model: whatever steps stand for the C calls, if their
   footprints are inside what the inventory allows, then for every program in which
   each instance belongs to one thread, every interleaving is solo-equivalent and
   conflict-free.  The hypothesis within_inventory (the C text's real footprint is
   what the generated inventory says) is what is trusted to the translator. *)
Definition C15_full (nglob : nat) (mk : nat -> api_call -> step) : Prop :=
  within_inventory nglob mk ->
  forall p, instances_exclusive p ->
  forall tr, is_interleaving (call_program mk p) tr ->
  forall s0, solo_equivalent (call_program mk p) tr s0 /\ conflict_free (call_program mk p).

Theorem C15_partial_proof : forall nglob mk, C15_full nglob mk.
Proof.
  intros nglob mk W p Hex tr Htr s0.
  destruct (call_program_hyps nglob mk p W Hex) as [H1 H2].
  apply (noninterference_all _ H1 H2 tr Htr s0).
Qed.

(* the hypothesis is satisfiable: api_step is inside the inventory for every selection *)
Lemma api_step_within nglob : within_inventory nglob (api_step nglob).
Proof.
  intros t c. unfold api_step. cbn [reads writes]. split; intros l H; apply filter_In in H; destruct H as [H _].
  - exact H.
  - apply in_app_or in H. exact H.
Qed.

(* ------------------------------------------------------------------ examples *)
Lemma ex_twenty : length ex_traces = 20.
Proof. vm_compute. reflexivity. Qed.

Lemma ex_all_solo : forallb (check_trace ex_program ex_locs ex_s0) ex_traces = true.
Proof. vm_compute. reflexivity. Qed.

Lemma ex_hyps : no_shared_writes ex_program /\ private_disjoint ex_program.
Proof.
  split; [apply no_shared_writes_b_sound | apply private_disjoint_b_sound]; vm_compute; reflexivity.
Qed.

Lemma ex_traces_interleavings : forall tr, In tr ex_traces -> is_interleaving ex_program tr.
Proof. intros tr H. apply (merges2_proj (nth 0 ex_program []) (nth 1 ex_program []) tr H). Qed.

Lemma bad_example :
  no_shared_writes_b bad_program = false /\
  List.length bad_traces = 20 /\
  existsb (fun tr => negb (check_trace bad_program ex_locs ex_s0 tr)) bad_traces = true.
Proof. vm_compute. repeat split; reflexivity. Qed.

Definition ex_calls : list (list api_call) :=
  [[mk_call (Some 0) OpCreate (fun _ => true) (fun _ => true) (fun vs _ => fold_right Z.add 1%Z vs);
    mk_call None OpHelper (fun _ => true) (fun _ => true) (fun vs _ => fold_right Z.add 2%Z vs)];
   [mk_call (Some 1) OpCreate (fun _ => true) (fun _ => true) (fun vs _ => fold_right Z.add 3%Z vs);
    mk_call None OpHelper (fun _ => true) (fun _ => true) (fun vs _ => fold_right Z.add 4%Z vs)]].

Lemma ex_calls_exclusive : instances_exclusive ex_calls.
Proof.
  intros t u a b i Hne Ha Hb Ea Eb.
  assert (Hinst : forall k c, In c (nth k ex_calls []) -> c_inst c = Some i -> k = i).
  { intros k c Hc Ec. destruct k as [|[|k]]; cbn in Hc.
    - destruct Hc as [<-|[<-|[]]]; cbn in Ec; congruence.
    - destruct Hc as [<-|[<-|[]]]; cbn in Ec; congruence.
    - destruct k; contradiction. }
  apply Hne. rewrite (Hinst t a Ha Ea), (Hinst u b Hb Eb). reflexivity.
Qed.
