(* C06 proofs, part 7: the loop nests of the block-moving routines (iteration space incl. the
   padding strips): after the writes, exactly the blocks of the iteration space are defined and
   each holds the block the plane specification names; every real block is inside. *)
From Coq Require Import List ZArith Bool Lia PeanoNat ZifyBool.
From LJT Require Import model.Transform model.TransformSpec proofs.TransformProofs proofs.TransformPlane.
Import ListNotations.
Local Open Scope Z_scope.

Lemma in_zseq k n : In k (zseq n) <-> 0 <= k < n.
Proof.
  unfold zseq. rewrite in_map_iff. split.
  - intros (i & <- & Hi). apply in_seq in Hi. lia.
  - intros H. exists (Z.to_nat k). split; [lia|]. apply in_seq. lia.
Qed.

Lemma find_last_in k ws v : find_last k ws = Some v -> In (k, v) ws.
Proof.
  induction ws as [|[k' v'] r IH]; cbn [find_last]; [discriminate|].
  destruct (find_last k r) as [v0|].
  - intros H. injection H as <-. right. apply IH. reflexivity.
  - destruct ((fst k =? fst k') && (snd k =? snd k')) eqn:E; [|discriminate].
    intros H. injection H as <-. left. apply andb_true_iff in E. destruct E as [E1 E2].
    apply Z.eqb_eq in E1, E2. destruct k, k'. cbn in *. subst. reflexivity.
Qed.

Lemma find_last_some k ws v : In (k, v) ws -> find_last k ws <> None.
Proof.
  induction ws as [|[k' v'] r IH]; cbn [find_last In]; [tauto|].
  intros [H|H].
  - injection H as -> ->. destruct (find_last k r); [discriminate|].
    rewrite !Z.eqb_refl. discriminate.
  - specialize (IH H). destruct (find_last k r); [discriminate|contradiction].
Qed.

(* membership in the write sequence = membership in the iteration space *)
Lemma nest_in rowwise g f x y v :
  1 <= g_hs g -> 1 <= g_vs g ->
  In ((x, y), v) (nest rowwise g f) <->
  (0 <= x < (if rowwise then g_wb g else (g_wb g + g_hs g - 1) / g_hs g * g_hs g) /\
   0 <= y < (g_hb g + g_vs g - 1) / g_vs g * g_vs g /\ v = f x y).
Proof.
  intros Hhs Hvs. unfold nest. rewrite in_flat_map. split.
  - intros (gy & Hgy & H). apply in_zseq in Hgy. apply in_flat_map in H. destruct H as (oy & Hoy & H).
    apply in_zseq in Hoy. cbv zeta in H. destruct rowwise.
    + apply in_map_iff in H. destruct H as (x0 & E & Hx0). apply in_zseq in Hx0. injection E as <- <- <-.
      split; [lia|]. split; [nia|reflexivity].
    + apply in_flat_map in H. destruct H as (gx & Hgx & H). apply in_zseq in Hgx.
      apply in_map_iff in H. destruct H as (ox & E & Hox). apply in_zseq in Hox. cbv zeta in E. injection E as <- <- <-.
      split; [nia|]. split; [nia|reflexivity].
  - intros (Hx & Hy & ->).
    exists (y / g_vs g). split.
    + apply in_zseq. split; [apply Z.div_pos; lia|]. apply Z.div_lt_upper_bound; lia.
    + apply in_flat_map. exists (y mod g_vs g). split; [apply in_zseq; apply Z.mod_pos_bound; lia|]. cbv zeta.
      assert (Ey : y / g_vs g * g_vs g + y mod g_vs g = y) by (pose proof (Z.div_mod y (g_vs g) ltac:(lia)); lia).
      destruct rowwise.
      * apply in_map_iff. exists x. rewrite Ey. split; [reflexivity|apply in_zseq; lia].
      * apply in_flat_map. exists (x / g_hs g). split.
        -- apply in_zseq. split; [apply Z.div_pos; lia|]. apply Z.div_lt_upper_bound; lia.
        -- apply in_map_iff. exists (x mod g_hs g). cbv zeta.
           assert (Ex : x / g_hs g * g_hs g + x mod g_hs g = x) by (pose proof (Z.div_mod x (g_hs g) ltac:(lia)); lia).
           rewrite Ex, Ey. split; [reflexivity|apply in_zseq; apply Z.mod_pos_bound; lia].
Qed.

(* the destination array after the loop nest of any routine: defined exactly on the iteration
   space (real blocks and padding strips), holding the specified block everywhere *)
Theorem exec_nest_spec op slow g src x y :
  geom_ok g -> 0 <= g_wb g -> 0 <= g_hb g ->
  (op = XFlipH -> g_yco g = 0 -> slow = false -> inplace_ok g) ->
  let wit := if transposes op then (g_wb g + g_hs g - 1) / g_hs g * g_hs g else g_wb g in
  let hit := (g_hb g + g_vs g - 1) / g_vs g * g_vs g in
  (0 <= x < wit /\ 0 <= y < hit -> exists v, exec_nest op slow g src x y = Some v /\ v = exec_comp op slow g src x y) /\
  (~ (0 <= x < wit /\ 0 <= y < hit) -> exec_nest op slow g src x y = None) /\
  g_wb g <= wit /\ g_hb g <= hit /\
  (0 <= x < g_wb g -> 0 <= y < g_hb g -> exec_nest op slow g src x y = Some (spec_comp op g src x y)).
Proof.
  intros Hg Hwb Hhb Hin. cbv zeta. pose proof Hg as (Hhs & Hvs & _ & _).
  set (wit := if transposes op then (g_wb g + g_hs g - 1) / g_hs g * g_hs g else g_wb g).
  set (hit := (g_hb g + g_vs g - 1) / g_vs g * g_vs g).
  assert (Hwit : g_wb g <= wit).
  { unfold wit. destruct (transposes op); [|lia].
    pose proof (Z.div_mod (g_wb g + g_hs g - 1) (g_hs g) ltac:(lia)). pose proof (Z.mod_pos_bound (g_wb g + g_hs g - 1) (g_hs g) ltac:(lia)). lia. }
  assert (Hhit : g_hb g <= hit).
  { unfold hit. pose proof (Z.div_mod (g_hb g + g_vs g - 1) (g_vs g) ltac:(lia)). pose proof (Z.mod_pos_bound (g_hb g + g_vs g - 1) (g_vs g) ltac:(lia)). lia. }
  assert (Hchar : forall v, In ((x, y), v) (nest (negb (transposes op)) g (exec_comp op slow g src)) <->
                            (0 <= x < wit /\ 0 <= y < hit /\ v = exec_comp op slow g src x y)).
  { intros v. rewrite nest_in by assumption. unfold wit, hit. destruct (transposes op); cbn [negb]; reflexivity. }
  assert (Hdef : 0 <= x < wit /\ 0 <= y < hit -> exec_nest op slow g src x y = Some (exec_comp op slow g src x y)).
  { intros [Hx Hy]. unfold exec_nest.
    destruct (find_last (x, y) _) as [v|] eqn:E.
    - apply find_last_in in E. apply Hchar in E. destruct E as (_ & _ & ->). reflexivity.
    - exfalso. eapply find_last_some; [|exact E]. apply Hchar. split; [exact Hx|]. split; [exact Hy|reflexivity]. }
  split; [|split; [|split; [exact Hwit|split; [exact Hhit|]]]].
  - intros H. eexists. split; [apply Hdef; exact H|reflexivity].
  - intros Hn. unfold exec_nest. destruct (find_last (x, y) _) as [v|] eqn:E; [|reflexivity].
    exfalso. apply find_last_in in E. apply Hchar in E. apply Hn. tauto.
  - intros Hx Hy. rewrite Hdef by lia. f_equal. apply exec_comp_meets_spec; try assumption; lia.
Qed.
