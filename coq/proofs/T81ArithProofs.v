(* F.1.4 / F.2.4: the arithmetic-coding binarisation (decisions and statistics-bin
   selection for DC differences, AC coefficients, EOB, zero runs, with the DAC
   conditioning L/U/Kx) is inverted by the decoding procedures, for an ABSTRACT binary
   coder: a decision source that returns the recorded decision when asked for the
   same bin, and fails when asked for another bin. *)
From Coq Require Import List ZArith Bool Lia Arith.
From LJT Require Import model.T81Spec model.T81Arith proofs.T81BlockProofs.
Import ListNotations.
Local Open Scope Z_scope.

Definition dsrc := list (Z * bool).
Definition adecide (key : Z) (s : dsrc) : option (bool * dsrc) :=
  match s with
  | (k, b) :: t => if k =? key then Some (b, t) else None
  | [] => None
  end.

Lemma adecide_hit : forall key b t, adecide key ((key, b) :: t) = Some (b, t).
Proof. intros. cbn. rewrite Z.eqb_refl. reflexivity. Qed.

(* --------------------------------------------------- magnitude category *)
Lemma enc_dec_x : forall fe fd key m sz l m' k' rest, (fe <= fd)%nat ->
  0 < m -> m <= sz -> sz < m * 2 ^ Z.of_nat fe ->
  enc_x fe key m sz = (l, m', k') ->
  dec_x dsrc adecide fd key m (l ++ rest) = Some (m', k', rest) /\
  (exists i, 0 <= i /\ m' = m * 2 ^ i) /\ m' <= sz /\ sz < 2 * m'.
Proof.
  induction fe; intros fd key m sz l m' k' rest Hf Hm Hle Hsz H.
  - change (Z.of_nat 0) with 0 in Hsz. rewrite Z.pow_0_r in Hsz. lia.
  - destruct fd; [lia|]. cbn [enc_x] in H.
    rewrite Nat2Z.inj_succ, Z.pow_succ_r in Hsz by lia.
    destruct (sz >=? 2 * m) eqn:E.
    + apply Z.geb_le in E. destruct (enc_x fe (key + 1) (2 * m) sz) as [[l1 m1] k1] eqn:Er. inversion H; subst.
      destruct (IHfe fd (key + 1) (2 * m) sz l1 m' k' rest ltac:(lia) ltac:(lia) ltac:(lia) ltac:(lia) Er) as [A [[i [Hi B]] [C D]]].
      cbn [app dec_x]. rewrite adecide_hit. split; [exact A|]. split; [|split; [exact C|exact D]].
      exists (i + 1). split; [lia|]. rewrite Z.pow_add_r, Z.pow_1_r by lia. lia.
    + inversion H; subst. cbn [app dec_x]. rewrite adecide_hit.
      destruct (Z.geb_spec sz (2 * m')); [discriminate|].
      split; [reflexivity|]. split; [exists 0; split; [lia|rewrite Z.pow_0_r; lia]|split; lia].
Qed.

(* ------------------------------------------------------- magnitude bits *)
Lemma enc_dec_mbits : forall (jn : nat) fe fd key sz v rest, (jn < fe)%nat -> (jn < fd)%nat -> 0 <= sz ->
  v = sz - sz mod 2 ^ Z.of_nat jn ->
  dec_mbits dsrc adecide fd key (2 ^ Z.of_nat jn) v (enc_mbits fe key (2 ^ Z.of_nat jn) sz ++ rest) = Some (sz, rest).
Proof.
  induction jn; intros fe fd key sz v rest Hfe Hfd Hsz Hv.
  - destruct fe; [lia|]. destruct fd; [lia|]. cbn [Z.of_nat] in *. rewrite Z.pow_0_r in *.
    cbn [enc_mbits dec_mbits]. cbn. rewrite Z.mod_1_r in Hv. f_equal. f_equal. lia.
  - destruct fe; [lia|]. destruct fd; [lia|].
    assert (Hp : 2 ^ Z.of_nat (S jn) = 2 * 2 ^ Z.of_nat jn) by (rewrite Nat2Z.inj_succ, Z.pow_succ_r; lia).
    assert (Hpos : 0 < 2 ^ Z.of_nat jn) by (apply Z.pow_pos_nonneg; lia).
    cbn [enc_mbits dec_mbits].
    destruct (2 ^ Z.of_nat (S jn) <=? 1) eqn:E; [apply Z.leb_le in E; lia|].
    assert (Hhalf : 2 ^ Z.of_nat (S jn) / 2 = 2 ^ Z.of_nat jn) by (rewrite Hp, Z.mul_comm, Z.div_mul; lia).
    rewrite Hhalf. rewrite Z.log2_pow2 by lia.
    cbn [app]. rewrite adecide_hit.
    apply IHjn; try lia.
    pose proof (testbit_split sz (Z.of_nat jn) ltac:(lia)) as T.
    replace (Z.of_nat jn + 1) with (Z.of_nat (S jn)) in T by lia.
    destruct (Z.testbit sz (Z.of_nat jn)); cbn [b2z] in T; lia.
Qed.

Lemma pow2_of : forall i, 0 <= i -> 2 ^ i = 2 ^ Z.of_nat (Z.to_nat i).
Proof. intros. rewrite Z2Nat.id by lia. reflexivity. Qed.

(* combined: category + bits, starting category weight m0 = 2^i0 <= sz *)
Lemma enc_dec_mag : forall key0 i0 sz l m k rest, 0 <= i0 <= 1 -> 2 ^ i0 <= sz < 65536 ->
  enc_x 16 key0 (2 ^ i0) sz = (l, m, k) ->
  exists s4, dec_x dsrc adecide 17 key0 (2 ^ i0) (l ++ enc_mbits 16 (k + 14) m sz ++ rest) = Some (m, k, s4) /\
             dec_mbits dsrc adecide 17 (k + 14) m m s4 = Some (sz, rest).
Proof.
  intros key0 i0 sz l m k rest Hi Hsz H.
  assert (Hm0 : 0 < 2 ^ i0) by (apply Z.pow_pos_nonneg; lia).
  assert (Hb : sz < 2 ^ i0 * 2 ^ Z.of_nat 16).
  { change (2 ^ Z.of_nat 16) with 65536. nia. }
  destruct (enc_dec_x 16 17 key0 (2 ^ i0) sz l m k (enc_mbits 16 (k + 14) m sz ++ rest) ltac:(lia) Hm0 ltac:(lia) Hb H)
    as [A [[i [Hi0 B]] [C D]]].
  eexists. split; [exact A|].
  assert (Hm : m = 2 ^ (i0 + i)) by (rewrite Z.pow_add_r by lia; exact B).
  assert (Hle : m <= sz) by exact C.
  assert (Hij : i0 + i < 16).
  { destruct (Z_lt_ge_dec (i0 + i) 16); [assumption|].
    assert (2 ^ 16 <= 2 ^ (i0 + i)) by (apply Z.pow_le_mono_r; lia). change (2 ^ 16) with 65536 in *. lia. }
  rewrite Hm. rewrite (pow2_of (i0 + i)) by lia.
  apply enc_dec_mbits; try lia.
  rewrite <- pow2_of by lia. rewrite <- Hm.
  assert (sz mod m = sz - m) by (symmetry; apply Z.mod_unique with 1; lia). lia.
Qed.

(* ------------------------------------------------------------------- DC *)
Definition small (v : Z) : Prop := Z.abs v <= 65535.

Lemma enc_dec_dc : forall tb ctx v rest, small v ->
  dec_dc dsrc adecide tb ctx (enc_dc tb ctx v ++ rest) = Some (v, rest).
Proof.
  intros tb ctx v rest Hs. unfold small in Hs. unfold enc_dc, dec_dc.
  destruct (v =? 0) eqn:E0.
  - apply Z.eqb_eq in E0. subst. cbn [app]. rewrite adecide_hit. reflexivity.
  - apply Z.eqb_neq in E0. cbn [app]. rewrite !adecide_hit.
    destruct (Z.abs v - 1 =? 0) eqn:E1.
    + apply Z.eqb_eq in E1. cbn [app]. rewrite adecide_hit.
      destruct (v <? 0) eqn:En; [apply Z.ltb_lt in En|apply Z.ltb_ge in En]; f_equal; f_equal; lia.
    + apply Z.eqb_neq in E1.
      destruct (enc_x 16 (dck tb 20) 1 (Z.abs v - 1)) as [[l m] k] eqn:Ex.
      cbn [app]. rewrite adecide_hit. rewrite <- app_assoc.
      destruct (enc_dec_mag (dck tb 20) 0 (Z.abs v - 1) l m k rest ltac:(lia) ltac:(rewrite Z.pow_0_r; lia) Ex) as [s4 [A B]].
      rewrite Z.pow_0_r in A. rewrite A, B.
      destruct (v <? 0) eqn:En; [apply Z.ltb_lt in En|apply Z.ltb_ge in En]; f_equal; f_equal; lia.
Qed.

(* ------------------------------------------------------------------- AC *)
Lemma enc_dec_ac_coef : forall tb kx k v rest, small v -> v <> 0 ->
  dec_ac_coef dsrc adecide tb kx k (enc_ac_coef tb kx k v ++ rest) = Some (v, rest).
Proof.
  intros tb kx k v rest Hs Hv. unfold small in Hs. unfold enc_ac_coef, dec_ac_coef.
  cbn [app]. rewrite adecide_hit.
  destruct (Z.abs v - 1 =? 0) eqn:E1.
  - apply Z.eqb_eq in E1. cbn [app]. rewrite adecide_hit.
    destruct (v <? 0) eqn:En; [apply Z.ltb_lt in En|apply Z.ltb_ge in En]; f_equal; f_equal; lia.
  - apply Z.eqb_neq in E1. destruct (Z.abs v - 1 =? 1) eqn:E2.
    + apply Z.eqb_eq in E2. cbn [app]. rewrite !adecide_hit.
      destruct (v <? 0) eqn:En; [apply Z.ltb_lt in En|apply Z.ltb_ge in En]; f_equal; f_equal; lia.
    + apply Z.eqb_neq in E2.
      destruct (enc_x 16 (ac_xbase tb kx k) 2 (Z.abs v - 1)) as [[l m] kk] eqn:Ex.
      cbn [app]. rewrite !adecide_hit. rewrite <- app_assoc.
      destruct (enc_dec_mag (ac_xbase tb kx k) 1 (Z.abs v - 1) l m kk rest ltac:(lia) ltac:(rewrite Z.pow_1_r; lia) Ex) as [s4 [A B]].
      rewrite Z.pow_1_r in A. rewrite A, B.
      destruct (v <? 0) eqn:En; [apply Z.ltb_lt in En|apply Z.ltb_ge in En]; f_equal; f_equal; lia.
Qed.

Lemma all_zero_repeat : forall zs, all_zero zs = true -> zs = repeat 0 (length zs).
Proof.
  induction zs; intros H; [reflexivity|]. cbn [all_zero forallb] in H. apply andb_prop in H. destruct H as [A B].
  apply Z.eqb_eq in A. subst. cbn [length repeat]. f_equal. apply IHzs. exact B.
Qed.

Lemma enc_dec_ac_seq : forall zs tb kx k az rest, Forall small zs ->
  (az = true -> all_zero zs = false) ->
  dec_ac_seq dsrc adecide (length zs) tb kx k az (enc_ac_seq tb kx k az zs ++ rest) = Some (zs, rest).
Proof.
  induction zs as [|z t IH]; intros tb kx k az rest Hs Haz; [reflexivity|].
  inversion Hs as [|x y Hz Ht]; subst. cbn [length dec_ac_seq enc_ac_seq].
  destruct az.
  - (* directly after a zero: no EOB decision *)
    specialize (Haz eq_refl). cbn [negb andb app].
    destruct (z =? 0) eqn:Ez.
    + apply Z.eqb_eq in Ez. subst. cbn [app]. rewrite adecide_hit.
      assert (Hnz : all_zero t = false) by (cbn [all_zero forallb] in Haz; cbn in Haz; exact Haz).
      destruct t as [|z' t']; [discriminate|]. cbn [length]. change (S (length t')) with (length (z' :: t')).
      rewrite (IH tb kx (k + 1) true rest Ht (fun _ => Hnz)). reflexivity.
    + apply Z.eqb_neq in Ez. cbn [app]. rewrite adecide_hit. rewrite <- app_assoc.
      rewrite (enc_dec_ac_coef tb kx k z _ Hz Ez).
      rewrite (IH tb kx (k + 1) false rest Ht ltac:(discriminate)). reflexivity.
  - cbn [negb andb]. destruct (all_zero (z :: t)) eqn:Eall.
    + cbn [app]. rewrite adecide_hit. rewrite (all_zero_repeat _ Eall) at 1. reflexivity.
    + cbn [app]. rewrite adecide_hit.
      destruct (z =? 0) eqn:Ez.
      * apply Z.eqb_eq in Ez. subst. cbn [app]. rewrite adecide_hit.
        assert (Hnz : all_zero t = false) by (cbn [all_zero forallb] in Eall; cbn in Eall; exact Eall).
        destruct t as [|z' t']; [discriminate|]. cbn [length]. change (S (length t')) with (length (z' :: t')).
        rewrite (IH tb kx (k + 1) true rest Ht (fun _ => Hnz)). reflexivity.
      * apply Z.eqb_neq in Ez. cbn [app]. rewrite adecide_hit. rewrite <- app_assoc.
        rewrite (enc_dec_ac_coef tb kx k z _ Hz Ez).
        rewrite (IH tb kx (k + 1) false rest Ht ltac:(discriminate)). reflexivity.
Qed.

(* ---------------------------------------------------------------- blocks *)
Definition ablock_ok (pred : Z) (zz : list Z) : Prop :=
  length zz = 64%nat /\ small (hd 0 zz - pred) /\ Forall small (tl zz).

Lemma enc_dec_ablock : forall tbd l u tba kx pred ctx zz rest, ablock_ok pred zz ->
  dec_ablock dsrc adecide tbd l u tba kx pred ctx (enc_ablock tbd tba kx pred ctx zz ++ rest) =
  Some (zz, dc_class l u (hd 0 zz - pred), rest).
Proof.
  intros tbd l u tba kx pred ctx zz rest [Hl [Hd Ha]]. destruct zz as [|dc acs]; [discriminate|].
  cbn [hd tl] in *. cbn [length] in Hl. unfold enc_ablock, dec_ablock. rewrite <- app_assoc.
  rewrite (enc_dec_dc tbd ctx (dc - pred) _ Hd).
  replace 63%nat with (length acs) by lia.
  rewrite (enc_dec_ac_seq acs tba kx 1 false rest Ha ltac:(discriminate)).
  f_equal. f_equal. f_equal. f_equal. lia.
Qed.

(* every block decodable: length 64, DC difference and AC coefficients below 2^16 in magnitude,
   along the prediction chain of its component *)
Fixpoint ablocks_ok (preds : list Z) (blocks : list (nat * list Z)) : Prop :=
  match blocks with
  | [] => True
  | (j, zz) :: t => ablock_ok (nth j preds 0) zz /\ ablocks_ok (set_nth j (hd 0 zz) preds) t
  end.

Theorem enc_dec_ablocks : forall cs blocks preds ctxs rest, ablocks_ok preds blocks ->
  adec_blocks dsrc adecide cs preds ctxs (map fst blocks) (aenc_blocks cs preds ctxs blocks ++ rest) =
  Some (blocks, rest).
Proof.
  intros cs blocks. induction blocks as [|[j zz] t IH]; intros preds ctxs rest H; [reflexivity|].
  cbn [ablocks_ok] in H. destruct H as [Hb Ht].
  cbn [map fst adec_blocks aenc_blocks]. destruct (acond_at cs j) as [[[[tbd l] u] tba] kx].
  rewrite <- app_assoc. rewrite (enc_dec_ablock tbd l u tba kx _ _ zz _ Hb).
  rewrite (IH _ _ rest Ht). reflexivity.
Qed.

(* boolean form of the hypothesis *)
Definition smallb (v : Z) : bool := Z.abs v <=? 65535.
Definition ablock_okb (pred : Z) (zz : list Z) : bool :=
  (length zz =? 64)%nat && smallb (hd 0 zz - pred) && forallb smallb (tl zz).
Fixpoint ablocks_okb (preds : list Z) (blocks : list (nat * list Z)) : bool :=
  match blocks with
  | [] => true
  | (j, zz) :: t => ablock_okb (nth j preds 0) zz && ablocks_okb (set_nth j (hd 0 zz) preds) t
  end.
Lemma ablocks_okb_ok : forall blocks preds, ablocks_okb preds blocks = true -> ablocks_ok preds blocks.
Proof.
  induction blocks as [|[j zz] t IH]; intros preds H; [exact I|].
  cbn [ablocks_okb] in H. apply andb_prop in H. destruct H as [Hb Ht]. cbn [ablocks_ok]. split; [|apply IH; exact Ht].
  unfold ablock_okb in Hb. rewrite !andb_true_iff in Hb. destruct Hb as [[A B] C].
  apply Nat.eqb_eq in A. unfold smallb in B. apply Z.leb_le in B. split; [exact A|split; [exact B|]].
  apply Forall_forall. intros x Hx. rewrite forallb_forall in C. specialize (C x Hx). apply Z.leb_le in C. exact C.
Qed.
