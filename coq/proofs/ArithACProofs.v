(* C03 arithmetic coding: the AC binarisation of jcarith.c / jdarith.c (sequential and
   progressive first scans, refinement scans) is inverted by the decoder procedures and uses the
   same statistics bins in the same order, for an abstract decision source (next / carries);
   proofs/ArithQMProofs.v instantiates the source with the proved QM coder of C04. *)
From Coq Require Import List ZArith Lia Bool.
From LJT Require Import model.Huff model.Seq model.Prog model.ArithBin proofs.SeqBits proofs.NatOrderProofs
  proofs.SeqProofs proofs.ProgProofs proofs.ChainProofs proofs.ProgRefineProofs proofs.ArithProofs.
Import ListNotations.
Local Open Scope Z_scope.

Lemma ones_at_ones : forall j st, ones_at st j = ones st j.
Proof. induction j as [|j IH]; intros st; cbn; [reflexivity|now rewrite IH]. Qed.

Lemma writesA_allz Al : forall vs k blk, allz vs = true -> writesA Al vs k blk = blk.
Proof.
  induction vs as [|v t IH]; intros k blk H; [reflexivity|]. cbn [allz forallb] in H. apply andb_prop in H.
  destruct H as [H1 H2]. apply Z.eqb_eq in H1. subst v. cbn [writesA]. change (0 =? 0) with true. cbv iota. now apply IH.
Qed.

Lemma forallb_map' {A B} (f : B -> bool) (g : A -> B) : forall l, forallb f (map g l) = forallb (fun x => f (g x)) l.
Proof. induction l as [|a l IH]; cbn; [reflexivity|now rewrite IH]. Qed.
Lemma forallb_ext_in' {A} (f g : A -> bool) : forall l, (forall x, In x l -> f x = g x) -> forallb f l = forallb g l.
Proof. induction l as [|a l IH]; intros H; cbn; [reflexivity|]. rewrite (H a (or_introl eq_refl)), IH; [reflexivity|]. intros x Hx. apply H. now right. Qed.

Section AC.
Variable stream : Type.
Variable next : Z -> stream -> option (bool * stream).
Variable carries : stream -> list decision -> Prop.
Hypothesis qm_rt : forall s st b ds, carries s ((st, b) :: ds) -> exists s', next st s = Some (b, s') /\ carries s' ds.

(* ------------------------------------------------------- magnitude (F.8/F.9) *)
Lemma mag_ac_rt st xb w rest s : 0 <= w < 32768 ->
  carries s (enc_mag_ac st xb w ++ rest) ->
  exists s', dec_mag_ac stream next st xb s = Some (w, s') /\ carries s' rest.
Proof.
  intros Hw Hc. unfold enc_mag_ac in Hc. unfold dec_mag_ac.
  destruct (w =? 0) eqn:E0.
  - apply Z.eqb_eq in E0. subst w. cbn [app] in Hc. destruct (qm_rt _ _ _ _ Hc) as [s1 [H1 C1]]. rewrite H1.
    cbn [dec_pattern]. change (0 / 2) with 0. change (0 =? 0) with true. cbv iota. exists s1. split; [reflexivity|exact C1].
  - apply Z.eqb_neq in E0. pose proof (nbits_bounds w ltac:(lia)) as [Hn1 [Hlo Hhi]]. set (n := nbits w) in *.
    destruct (n =? 1) eqn:E1.
    + apply Z.eqb_eq in E1. rewrite E1 in Hlo, Hhi. cbn in Hlo, Hhi. assert (w = 1) by lia. subst w.
      cbn [app] in Hc. destruct (qm_rt _ _ _ _ Hc) as [s1 [H1 C1]]. rewrite H1.
      destruct (qm_rt _ _ _ _ C1) as [s2 [H2 C2]]. rewrite H2.
      cbn [dec_pattern]. change (1 / 2) with 0. change (0 =? 0) with true. cbv iota. exists s2. split; [reflexivity|exact C2].
    + apply Z.eqb_neq in E1. assert (Hn2 : 2 <= n) by lia.
      assert (Hn15 : n <= 15).
      { destruct (Z.le_gt_cases n 15) as [H|H]; [exact H|].
        assert (2 ^ 15 <= 2 ^ (n - 1)) by (apply Z.pow_le_mono_r; lia). change (2 ^ 15) with 32768 in *. lia. }
      cbn [app] in Hc. destruct (qm_rt _ _ _ _ Hc) as [s1 [H1 C1]]. rewrite H1.
      destruct (qm_rt _ _ _ _ C1) as [s2 [H2 C2]]. rewrite H2.
      rewrite ones_at_ones in C2. rewrite <- app_assoc in C2. cbn [app] in C2.
      replace (xb + (n - 2)) with (xb + Z.of_nat (Z.to_nat (n - 2))) in C2 by lia.
      destruct (dec_cat_ones stream next carries qm_rt (Z.to_nat (n - 2)) 16 xb 2 s2 _ C2) as [s3 [H3 C3]]; [lia|lia| |].
      { rewrite Z2Nat.id by lia. replace (2 * 2 ^ (n - 2)) with (2 ^ (n - 1)).
        - assert (2 ^ (n - 1) <= 2 ^ 14) by (apply Z.pow_le_mono_r; lia). change (2 ^ 14) with 16384 in *. lia.
        - replace (n - 1) with (1 + (n - 2)) by lia. rewrite Z.pow_add_r by lia. reflexivity. }
      rewrite H3. rewrite Z2Nat.id in * by lia.
      assert (Hp : 2 * 2 ^ (n - 2) = 2 ^ (n - 1)).
      { replace (n - 1) with (1 + (n - 2)) by lia. rewrite Z.pow_add_r by lia. reflexivity. }
      rewrite Hp.
      replace (2 ^ (n - 1)) with (2 ^ Z.of_nat (Z.to_nat (n - 1))) by (rewrite Z2Nat.id by lia; reflexivity).
      destruct (dec_pattern_bits stream next carries qm_rt w (xb + (n - 2) + 14) (Z.to_nat (n - 1)) 17
                  (2 ^ Z.of_nat (Z.to_nat (n - 1))) s3 rest C3) as [s4 [H4 C4]]; [lia|exists 1; lia|].
      rewrite H4. exists s4. split; [|exact C4]. f_equal. f_equal. rewrite Z2Nat.id by lia.
      assert (Hp2 : 2 ^ n = 2 * 2 ^ (n - 1)).
      { replace n with (1 + (n - 1)) at 1 by lia. rewrite Z.pow_add_r by lia. reflexivity. }
      replace (w mod 2 ^ (n - 1)) with (w - 2 ^ (n - 1)); [lia|]. apply Z.mod_unique with (q := 1); lia.
Qed.

(* ------------------------------------------------ AC first / sequential AC *)
Section First.
Variable Kx : Z.
Variable Se : nat.
Variable Al : Z.

Lemma acf_a_rt : forall vs k head blk fuel s rest,
  (k + length vs = S Se)%nat -> (head = false -> allz vs = false) ->
  Forall (fun v => Z.abs v <= 32768) vs -> (2 * length vs + 1 < fuel)%nat ->
  carries s (enc_acf_a Kx vs k head ++ rest) ->
  exists s', dec_acf_a stream next Kx Se Al fuel k head blk s = Some (writesA Al vs k blk, s') /\ carries s' rest.
Proof.
  induction vs as [|v t IH]; intros k head blk fuel s rest Hk Hh HF Hfu Hc.
  - cbn [length] in Hk. destruct fuel as [|f]; [lia|]. cbn [dec_acf_a enc_acf_a app writesA] in *.
    replace (Se <? k)%nat with true by (symmetry; apply Nat.ltb_lt; lia).
    destruct head; [exists s; split; [reflexivity|exact Hc]|]. specialize (Hh eq_refl). discriminate.
  - cbn [length] in Hk, Hfu. inversion HF as [|? ? Hv HFt]; subst.
    (* the body once the EOB decision (if any) has been read *)
    assert (Hbody : forall f s0, (2 * length t + 3 <= f)%nat -> allz (v :: t) = false ->
              carries s0 ((if v =? 0 then (se_bin k + 1, false) :: enc_acf_a Kx t (S k) false
                           else (se_bin k + 1, true) :: (FIXED_BIN, v <? 0)
                                :: enc_mag_ac (se_bin k + 2) (x_base Kx k) (Z.abs v - 1) ++ enc_acf_a Kx t (S k) true) ++ rest) ->
              exists s', dec_acf_a stream next Kx Se Al f k false blk s0 = Some (writesA Al (v :: t) k blk, s') /\ carries s' rest).
    { intros f s0 Hf Haz Hc0. destruct f as [|f]; [lia|]. cbn [dec_acf_a].
      replace (Se <? k)%nat with false by (symmetry; apply Nat.ltb_ge; lia). cbn [writesA].
      destruct (v =? 0) eqn:Ev.
      - apply Z.eqb_eq in Ev. subst v. cbn [app] in Hc0. destruct (qm_rt _ _ _ _ Hc0) as [s1 [H1 C1]]. rewrite H1.
        apply IH; [lia| |exact HFt|lia|exact C1]. intros _. cbn [allz forallb] in Haz. exact Haz.
      - apply Z.eqb_neq in Ev. cbn [app] in Hc0. destruct (qm_rt _ _ _ _ Hc0) as [s1 [H1 C1]]. rewrite H1.
        destruct (qm_rt _ _ _ _ C1) as [s2 [H2 C2]]. rewrite H2. rewrite <- app_assoc in C2.
        destruct (mag_ac_rt _ _ (Z.abs v - 1) _ s2 ltac:(lia) C2) as [s3 [H3 C3]]. rewrite H3.
        replace (if v <? 0 then - (Z.abs v - 1 + 1) else Z.abs v - 1 + 1) with v
          by (destruct (v <? 0) eqn:E; [apply Z.ltb_lt in E|apply Z.ltb_ge in E]; lia).
        apply IH; [lia|intros H; discriminate|exact HFt|lia|exact C3]. }
    destruct head.
    + cbn [enc_acf_a andb] in Hc. destruct (allz (v :: t)) eqn:Haz.
      * destruct fuel as [|f]; [lia|]. cbn [dec_acf_a].
        replace (Se <? k)%nat with false by (symmetry; apply Nat.ltb_ge; lia).
        cbn [app] in Hc. destruct (qm_rt _ _ _ _ Hc) as [s1 [H1 C1]]. rewrite H1.
        rewrite (writesA_allz Al _ k blk Haz). exists s1. split; [reflexivity|exact C1].
      * destruct fuel as [|f]; [lia|]. cbn [dec_acf_a].
        replace (Se <? k)%nat with false by (symmetry; apply Nat.ltb_ge; lia).
        rewrite <- app_assoc in Hc. cbn [app] in Hc. destruct (qm_rt _ _ _ _ Hc) as [s1 [H1 C1]]. rewrite H1.
        apply Hbody; [lia|reflexivity|exact C1].
    + cbn [enc_acf_a andb app] in Hc. apply Hbody; [lia|now apply Hh|exact Hc].
Qed.

Theorem acf_block_a_rt Ss b blk rest s : (Ss <= Se)%nat -> (Se <= 63)%nat ->
  Forall (fun v => Z.abs v <= 32768) (acf_band Ss Se Al b) ->
  carries s (enc_acf_block_a Kx Ss Se Al b ++ rest) ->
  exists s', dec_acf_a stream next Kx Se Al 130 Ss true blk s = Some (acf_res Ss Se Al b blk, s') /\ carries s' rest.
Proof.
  intros HS HS2 HF Hc. unfold enc_acf_block_a in Hc. unfold acf_res.
  assert (Hlen : length (acf_band Ss Se Al b) = (S Se - Ss)%nat) by (unfold acf_band, band_idx; now rewrite map_length, seq_length).
  apply acf_a_rt; [lia|intros H; discriminate|exact HF|lia|exact Hc].
Qed.
End First.

(* ------------------------------------------------------------ AC refinement *)
Section Refine.
Variables Ss Se : nat.
Variable Al : Z.
Hypothesis HSs : (1 <= Ss)%nat.
Hypothesis HSe : (Ss <= Se)%nat /\ (Se <= 63)%nat.
Hypothesis HAl : 0 <= Al.
Variables b h : list Z.
Hypothesis Hhist : acr_hist Ss Se Al b h.

Definition lstA (k n : nat) : list (Z * Z * bool) :=
  map (fun j => let v := nth (order j) b 0 in (Z.shiftr (Z.abs v) Al, Z.shiftr (Z.abs v) (Al + 1), v <? 0)) (seq k n).

Lemma hx_av j : Z.shiftr (Z.abs (nth (order j) b 0)) (Al + 1) = av Al b j / 2.
Proof.
  unfold av. rewrite !Z.shiftr_div_pow2 by lia. rewrite Z.pow_add_r by lia. change (2 ^ 1) with 2.
  rewrite Z.div_div; [reflexivity| |lia]. assert (0 < 2 ^ Al) by (apply Z.pow_pos_nonneg; lia). lia.
Qed.

Lemma lstA_S k n : lstA k (S n) = (av Al b k, Z.shiftr (Z.abs (nth (order k) b 0)) (Al + 1), ng b k) :: lstA (S k) n.
Proof. reflexivity. Qed.

Lemma allz_a k n : allz (map (fun x => fst (fst x)) (lstA k n)) = forallb (fun j => 0 =? av Al b j) (seq k n).
Proof. unfold lstA, allz. rewrite map_map. rewrite forallb_map'. reflexivity. Qed.

Lemma allz_hx k n blk : (k + n = S Se)%nat -> (Ss <= k)%nat -> front Ss Se Al b h k blk ->
  allz (map (fun x => snd (fst x)) (lstA k n)) = kexz Se blk k.
Proof.
  intros Hk HkS Hf. unfold lstA, allz, kexz. rewrite map_map, forallb_map'. replace (S Se - k)%nat with n by lia.
  apply forallb_ext_in'. intros j Hj. apply in_seq in Hj. cbn [fst snd].
  rewrite (front_at Ss Se Al HSs HSe b h k blk j Hf) by lia. rewrite hx_av.
  destruct (kind_facts Ss Se Al HSs HSe HAl b h j Hhist ltac:(split; lia)) as [K1 _].
  pose proof (av_nonneg Ss Se Al HSs HSe b j) as H0.
  destruct (hv h j =? 0) eqn:E.
  - apply Z.eqb_eq in E. apply K1 in E. apply Z.eqb_eq. symmetry. apply Z.div_small. lia.
  - apply Z.eqb_neq in E. apply Z.eqb_neq. intros Hq. apply E. apply K1.
    destruct (Z.lt_ge_cases (av Al b j) 2) as [H|H]; [exact H|].
    assert (1 <= av Al b j / 2) by (apply Z.div_le_lower_bound; lia). lia.
Qed.

Lemma front_zeros : forall n k blk, (k + n = S Se)%nat -> (Ss <= k)%nat -> front Ss Se Al b h k blk ->
  forallb (fun j => 0 =? av Al b j) (seq k n) = true -> front Ss Se Al b h (S Se) blk.
Proof.
  induction n as [|n IH]; intros k blk Hk HkS Hf Hz.
  - replace (S Se) with k by lia. exact Hf.
  - cbn [seq forallb] in Hz. apply andb_prop in Hz. destruct Hz as [Hz1 Hz2]. apply Z.eqb_eq in Hz1.
    apply (IH (S k)); [lia|lia| |exact Hz2].
    destruct (kind_facts Ss Se Al HSs HSe HAl b h k Hhist ltac:(split; lia)) as [K1 [K2 _]].
    apply (front_keep Ss Se Al HSs HSe); [exact Hf|split; lia|]. rewrite K2 by lia. symmetry. apply K1. lia.
Qed.

Lemma hv_land k : (Ss <= k)%nat -> (k <= Se)%nat -> Z.land (hv h k) (p1 Al) = 0.
Proof.
  intros H1 H2. destruct Hhist as (_ & _ & Hh). unfold hv. rewrite (Hh k) by (apply (in_band_true Ss Se HSs HSe); split; lia).
  unfold ac_state, p1. rewrite !Z.shiftl_mul_pow2 by lia. rewrite Z.mul_1_l. apply land_mul_pow2_low. lia.
Qed.

Lemma acr_a_rt : forall n k head blk fuel s rest,
  (k + n = S Se)%nat -> (Ss <= k)%nat -> front Ss Se Al b h k blk ->
  (head = false -> forallb (fun j => 0 =? av Al b j) (seq k n) = false) -> (n < fuel)%nat ->
  carries s (enc_acr_a (lstA k n) k head ++ rest) ->
  exists blk' s', dec_acr_a stream next Se Al fuel k head blk s = Some (blk', s') /\
                  front Ss Se Al b h (S Se) blk' /\ carries s' rest.
Proof.
  induction n as [|n IH]; intros k head blk fuel s rest Hk HkS Hf Hh Hfu Hc.
  - destruct fuel as [|f]; [lia|]. cbn [dec_acr_a]. replace (Se <? k)%nat with true by (symmetry; apply Nat.ltb_lt; lia).
    destruct head; [|specialize (Hh eq_refl); discriminate].
    exists blk, s. split; [reflexivity|]. split; [replace (S Se) with k by lia; exact Hf|exact Hc].
  - destruct fuel as [|f]; [lia|]. cbn [dec_acr_a]. replace (Se <? k)%nat with false by (symmetry; apply Nat.ltb_ge; lia).
    assert (Hin : inb Ss Se k) by (split; lia).
    destruct (kind_facts Ss Se Al HSs HSe HAl b h k Hhist Hin) as [K1 [K2 [K3 K4]]].
    pose proof (av_nonneg Ss Se Al HSs HSe b k) as Hav0.
    pose proof (front_at Ss Se Al HSs HSe b h k blk k Hf (le_n _) ltac:(lia)) as Hck.
    rewrite <- (allz_hx k (S n) blk Hk HkS Hf).
    rewrite lstA_S in Hc. cbn [enc_acr_a] in Hc. rewrite <- lstA_S in Hc.
    rewrite allz_a in Hc.
    destruct (head && forallb (fun j => 0 =? av Al b j) (seq k (S n))) eqn:Eall.
    + (* nothing left in the band: EOB *)
      apply andb_prop in Eall. destruct Eall as [-> Ez]. cbn [andb].
      assert (Hhx : allz (map (fun x => snd (fst x)) (lstA k (S n))) = true).
      { rewrite (allz_hx k (S n) blk Hk HkS Hf). unfold kexz. replace (S Se - k)%nat with (S n) by lia.
        apply forallb_forall. intros j Hj. rewrite forallb_forall in Ez. specialize (Ez j Hj). apply Z.eqb_eq in Ez.
        apply in_seq in Hj. rewrite (front_at Ss Se Al HSs HSe b h k blk j Hf) by lia.
        destruct (kind_facts Ss Se Al HSs HSe HAl b h j Hhist ltac:(split; lia)) as [K1j _]. apply Z.eqb_eq. apply K1j. lia. }
      rewrite Hhx. cbn [app] in Hc. destruct (qm_rt _ _ _ _ Hc) as [s1 [H1 C1]]. rewrite H1.
      exists blk, s1. split; [reflexivity|]. split; [exact (front_zeros (S n) k blk Hk HkS Hf Ez)|exact C1].
    + set (hxz := allz (map (fun x => snd (fst x)) (lstA k (S n)))) in *.
      (* the optional EOB = 0 decision *)
      assert (Hpre : exists s0,
                (if head && hxz then match next (se_bin k) s with None => None | Some (eob, s1) => Some (eob, s1) end
                 else Some (false, s)) = Some (false, s0) /\
                carries s0 ((if av Al b k =? 0 then (se_bin k + 1, false) :: enc_acr_a (lstA (S k) n) (S k) false
                             else if negb (av Al b k / 2 =? 0) then (se_bin k + 2, Z.odd (av Al b k)) :: enc_acr_a (lstA (S k) n) (S k) true
                             else (se_bin k + 1, true) :: (FIXED_BIN, ng b k) :: enc_acr_a (lstA (S k) n) (S k) true) ++ rest)).
      { destruct (head && hxz) eqn:E2.
        - rewrite <- app_assoc in Hc. cbn [app] in Hc. destruct (qm_rt _ _ _ _ Hc) as [s1 [H1 C1]]. rewrite H1.
          exists s1. split; [reflexivity|exact C1].
        - exists s. split; [reflexivity|]. cbn [app] in Hc. exact Hc. }
      destruct Hpre as [s0 [Hp Hc0]]. rewrite Hp. rewrite Hck.
      assert (Hnz : forallb (fun j => 0 =? av Al b j) (seq k (S n)) = false).
      { destruct head; [cbn [andb] in Eall; exact Eall|now apply Hh]. }
      destruct (av Al b k =? 0) eqn:Ea.
      * apply Z.eqb_eq in Ea.
        replace (hv h k =? 0) with true by (symmetry; apply Z.eqb_eq; apply K1; lia). cbn [negb].
        cbn [app] in Hc0. destruct (qm_rt _ _ _ _ Hc0) as [s1 [H1 C1]]. rewrite H1.
        apply (IH (S k) false blk f s1 rest); [lia|lia| | |lia|exact C1].
        -- apply (front_keep Ss Se Al HSs HSe); [exact Hf|exact Hin|]. rewrite (K2 Ea). symmetry. apply K1. lia.
        -- intros _. cbn [seq forallb] in Hnz. rewrite Ea in Hnz. cbn [Z.eqb andb] in Hnz. exact Hnz.
      * apply Z.eqb_neq in Ea. destruct (av Al b k / 2 =? 0) eqn:Eh; cbn [negb] in Hc0.
        -- (* newly nonzero *)
           apply Z.eqb_eq in Eh. assert (Ha1 : av Al b k = 1).
           { destruct (Z.lt_ge_cases (av Al b k) 2) as [H|H]; [lia|].
             assert (1 <= av Al b k / 2) by (apply Z.div_le_lower_bound; lia). lia. }
           replace (hv h k =? 0) with true by (symmetry; apply Z.eqb_eq; apply K1; lia). cbn [negb].
           cbn [app] in Hc0. destruct (qm_rt _ _ _ _ Hc0) as [s1 [H1 C1]]. rewrite H1.
           destruct (qm_rt _ _ _ _ C1) as [s2 [H2 C2]]. rewrite H2. rewrite <- (K3 Ha1).
           apply (IH (S k) true _ f s2 rest); [lia|lia| |intros H; discriminate|lia|exact C2].
           apply (front_upd Ss Se Al HSs HSe); assumption.
        -- (* already nonzero: correction bit *)
           apply Z.eqb_neq in Eh. assert (Ha2 : 2 <= av Al b k).
           { destruct (Z.lt_ge_cases (av Al b k) 2) as [H|H]; [|exact H]. exfalso. apply Eh. apply Z.div_small. lia. }
           assert (Hh0 : hv h k <> 0) by (intros E; apply K1 in E; lia).
           replace (hv h k =? 0) with false by (symmetry; apply Z.eqb_neq; exact Hh0). cbn [negb].
           cbn [app] in Hc0. destruct (qm_rt _ _ _ _ Hc0) as [s1 [H1 C1]]. rewrite H1.
           assert (Htv : tv Al b k = if Z.odd (av Al b k) then (if hv h k <? 0 then hv h k - p1 Al else hv h k + p1 Al) else hv h k).
           { rewrite (K4 Ha2). unfold acr_correct. rewrite (hv_land k) by lia. change (0 =? 0) with true. cbv iota.
             destruct (Z.odd (av Al b k)); [|reflexivity].
             destruct (hv h k >=? 0) eqn:E1, (hv h k <? 0) eqn:E2; try reflexivity;
               [rewrite Z.geb_leb in E1; apply Z.leb_le in E1; apply Z.ltb_lt in E2; lia
               |rewrite Z.geb_leb in E1; apply Z.leb_gt in E1; apply Z.ltb_ge in E2; lia]. }
           apply (IH (S k) true _ f s1 rest); [lia|lia| |intros H; discriminate|lia|exact C1].
           destruct (Z.odd (av Al b k)).
           ++ rewrite <- Htv. apply (front_upd Ss Se Al HSs HSe); assumption.
           ++ apply (front_keep Ss Se Al HSs HSe); assumption.
Qed.

Theorem acr_block_a_rt rest s :
  carries s (enc_acr_block_a Ss Se Al (Al + 1) b ++ rest) ->
  exists s', dec_acr_a stream next Se Al 65 Ss true h s = Some (acr_expected Ss Se Al b h, s') /\ carries s' rest.
Proof.
  intros Hc. destruct Hhist as (Hb & Hhl & Hhh).
  destruct (acr_a_rt (S Se - Ss) Ss true h 65 s rest) as (blk' & s' & Hd & Hf & Hc');
    [lia|lia|apply (front_init Ss Se Al HSs HSe); exact Hhl|intros H; discriminate|lia|exact Hc|].
  exists s'. split; [|exact Hc']. rewrite Hd. now rewrite (front_final Ss Se Al HSs HSe b h blk' Hf).
Qed.
End Refine.
End AC.
