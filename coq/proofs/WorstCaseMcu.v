(* C13: tj3JPEGBufSize is sufficient for an interleaved YCbCr single-scan baseline image of ANY subsampling level
   whenever every block costs at most 504 bits under the tables of its component: 128 bytes per block at every
   level (share lemma), bytes <= bits / 4 + 2 applied once to the whole scan. *)
From Coq Require Import List ZArith Bool Lia.
From LJT Require Import gen.GenDest model.Huff model.Dest model.WorstCase model.WorstCaseMcu proofs.WorstCaseShare.
Import ListNotations.
Local Open Scope Z_scope.

Definition in_range (v : Z) : Prop := -1024 <= v <= 1023.

Lemma nth_in_range l i : Forall in_range l -> in_range (nth i l 0).
Proof.
  intros H. destruct (Nat.lt_ge_cases i (length l)) as [Hi|Hi].
  - rewrite Forall_forall in H. apply H. apply nth_In. exact Hi.
  - rewrite nth_overflow by exact Hi. unfold in_range. lia.
Qed.

Lemma Forall_upd {A} (P : A -> Prop) i x l : Forall P l -> P x -> Forall P (upd i x l).
Proof.
  intros H Hx. revert i. induction H as [|y t Hy Ht IH]; intros i; [destruct i; constructor|].
  destruct i; cbn [upd]; constructor; auto.
Qed.

(* a block of component ci costs at most B bits under the tables of that component *)
Definition mcu_block_ok (tbls : nat -> ctbl * ctbl) (B : Z) (b : nat * list Z) : Prop :=
  block_cost_le (fst (tbls (fst b))) (snd (tbls (fst b))) B (snd b).

Lemma scan_mcu_bound tbls B : 0 <= B -> forall blocks ldc cur n acc bits0 bytes bits,
  0 <= n < 8 -> Forall in_range ldc -> Forall (mcu_block_ok tbls B) blocks ->
  scan_mcu tbls blocks ldc (cur, n, acc) bits0 = Some (bytes, bits) ->
  bits - bits0 <= B * Z.of_nat (length blocks) /\ bits0 <= bits /\ 8 * (bytes - acc) <= 2 * (n + (bits - bits0)) + 16.
Proof.
  intros HB. induction blocks as [|[ci px] t IH]; intros ldc cur n acc bits0 bytes bits Hn Hl Hall E; cbn [scan_mcu] in E.
  - assert (bytes = flush (cur, n, acc) /\ bits = bits0) as (-> & ->) by (split; congruence).
    pose proof (flush_bound cur n acc). change (Z.of_nat (length (@nil (nat * list Z)))) with 0. rewrite Z.mul_0_r. lia.
  - inversion Hall as [|x y Hb Ht]; subst. unfold mcu_block_ok in Hb. cbn [fst snd] in Hb. destruct Hb as (Hdcr & Hpx).
    destruct (enc_block (fst (tbls ci)) (snd (tbls ci)) (nth ci ldc 0) (block_coefs px)) as [bs|] eqn:Eb; [|discriminate].
    pose proof (Hpx _ bs (nth_in_range ldc ci Hl) Eb) as Hlen.
    pose proof (feed_bound bs cur n acc Hn) as F. destruct (feed bs cur n acc) as [[cur' n'] acc'].
    destruct F as (Hn' & F).
    assert (Hl' : Forall in_range (upd ci (el (block_coefs px) 0) ldc)) by (apply Forall_upd; [exact Hl|exact Hdcr]).
    specialize (IH _ cur' n' acc' _ bytes bits Hn' Hl' Ht E). cbn [length]. rewrite Nat2Z.inj_succ. nia.
Qed.

(* PAD for the MCU sizes of the formula *)
Lemma PAD_pow2 v k : 0 <= k -> PAD v (2 ^ k) = 2 ^ k * ((v + 2 ^ k - 1) / 2 ^ k).
Proof.
  intros Hk. unfold PAD. replace (2 ^ k - 1) with (Z.ones k) by (rewrite Z.ones_equiv; lia).
  rewrite <- Z.ldiff_land, Z.ldiff_ones_r by lia. rewrite Z.shiftr_div_pow2, Z.shiftl_mul_pow2 by lia.
  apply Z.mul_comm.
Qed.

Lemma share_core kw kh csf bpm w h n bytes bits : 0 <= kw -> 0 <= kh -> 0 < w -> 0 < h -> 1 <= bpm ->
  (2 + csf) * 2 ^ kw * 2 ^ kh = 128 * bpm ->
  n = (PAD w (2 ^ kw) / 2 ^ kw) * (PAD h (2 ^ kh) / 2 ^ kh) * bpm ->
  8 * bytes <= 2 * bits + 16 -> bits <= 504 * n ->
  bytes <= PAD w (2 ^ kw) * PAD h (2 ^ kh) * (2 + csf).
Proof.
  intros Hkw Hkh Hw Hh Hbpm Hshare Hn Hb1 Hb2.
  assert (Pw : 0 < 2 ^ kw) by (apply Z.pow_pos_nonneg; lia).
  assert (Ph : 0 < 2 ^ kh) by (apply Z.pow_pos_nonneg; lia).
  rewrite !PAD_pow2 in * by assumption.
  set (a := (w + 2 ^ kw - 1) / 2 ^ kw) in *. set (b := (h + 2 ^ kh - 1) / 2 ^ kh) in *.
  assert (Ha : 1 <= a) by (apply Z.div_le_lower_bound; lia).
  assert (Hbb : 1 <= b) by (apply Z.div_le_lower_bound; lia).
  rewrite (Z.mul_comm (2 ^ kw) a), (Z.mul_comm (2 ^ kh) b), !Z.div_mul in Hn by lia.
  assert (E : 2 ^ kw * a * (2 ^ kh * b) * (2 + csf) = 128 * n).
  { subst n. transitivity (a * b * ((2 + csf) * 2 ^ kw * 2 ^ kh)); [ring|]. rewrite Hshare. ring. }
  rewrite E. assert (1 <= n) by (subst n; nia). lia.
Qed.

Definition mcu_w (s : Z) : Z := nth (Z.to_nat s) tj_mcu_width 0.
Definition mcu_h (s : Z) : Z := nth (Z.to_nat s) tj_mcu_height 0.
Definition blocks_per_mcu (s : Z) : Z := mcu_w s * mcu_h s / 64 + 2.       (* luma blocks + Cb + Cr *)
Definition mcus (w h s : Z) : Z := (PAD w (mcu_w s) / mcu_w s) * (PAD h (mcu_h s) / mcu_h s).

(* every YCbCr subsampling level of TurboJPEG (4:4:4, 4:2:2, 4:2:0, 4:4:0, 4:1:1, 4:4:1) *)
Definition ycbcr_levels : list Z := [0; 1; 2; 4; 5; 6].

Theorem bufsize_sufficient_when_ycbcr : forall tbls s w h blocks bytes bits,
  In s ycbcr_levels -> 0 < w -> 0 < h ->
  Z.of_nat (length blocks) = mcus w h s * blocks_per_mcu s ->
  Forall (mcu_block_ok tbls 504) blocks ->
  scan_size_mcu tbls 3 blocks = Some (bytes, bits) ->
  bytes <= tj3JPEGBufSize w h s - bufsize_slack.
Proof.
  intros tbls s w h blocks bytes bits Hs Hw Hh Hlen Hall E.
  unfold scan_size_mcu in E.
  assert (Hl0 : Forall in_range (repeat 0 3)) by (repeat constructor; unfold in_range; lia).
  pose proof (scan_mcu_bound tbls 504 ltac:(lia) blocks _ 0 0 0 0 bytes bits ltac:(lia) Hl0 Hall E) as (B1 & B2 & B3).
  assert (Hb1 : 8 * bytes <= 2 * bits + 16) by lia.
  assert (Hb2 : bits <= 504 * Z.of_nat (length blocks)) by lia.
  change bufsize_slack with 2048.
  unfold ycbcr_levels in Hs. cbn [In] in Hs.
  destruct Hs as [<-|[<-|[<-|[<-|[<-|[<-|[]]]]]]];
    unfold tj3JPEGBufSize, mcus, blocks_per_mcu, mcu_w, mcu_h in *;
    cbn [Z.eqb Pos.eqb] in *; change tjsamp_444 with 0 in *; change tjsamp_gray with 3 in *;
    cbn [Z.to_nat Pos.to_nat Pos.iter_op Nat.add nth tj_mcu_width tj_mcu_height Z.eqb Pos.eqb] in *;
    change bufsize_bytes_per_luma with 2 in *; change bufsize_slack with 2048 in *.
  all: match goal with
       | |- _ <= ?X + 2048 - 2048 => replace (X + 2048 - 2048) with X by lia
       end.
  - change 8 with (2 ^ 3) in *. eapply (share_core 3 3 (4 * 64 / (2 ^ 3 * 2 ^ 3)) 3 w h); try eassumption; try lia; reflexivity.
  - change 16 with (2 ^ 4) in *. change 8 with (2 ^ 3) in *. eapply (share_core 4 3 _ 4 w h); try eassumption; try lia; reflexivity.
  - change 16 with (2 ^ 4) in *. eapply (share_core 4 4 _ 6 w h); try eassumption; try lia; reflexivity.
  - change 16 with (2 ^ 4) in *. change 8 with (2 ^ 3) in *. eapply (share_core 3 4 _ 4 w h); try eassumption; try lia; reflexivity.
  - change 32 with (2 ^ 5) in *. change 8 with (2 ^ 3) in *. eapply (share_core 5 3 _ 6 w h); try eassumption; try lia; reflexivity.
  - change 32 with (2 ^ 5) in *. change 8 with (2 ^ 3) in *. eapply (share_core 3 5 _ 6 w h); try eassumption; try lia; reflexivity.
Qed.

(* instance: all components use the standard luminance tables and every block has small quantised coefficients *)
Corollary bufsize_sufficient_when_ycbcr_small_coefs : forall dc ac s w h blocks bytes bits,
  dc_tbl = Some dc -> ac_tbl = Some ac ->
  In s ycbcr_levels -> 0 < w -> 0 < h ->
  Z.of_nat (length blocks) = mcus w h s * blocks_per_mcu s ->
  Forall (fun b => small_block (snd b)) blocks ->
  scan_size_mcu (fun _ => (dc, ac)) 3 blocks = Some (bytes, bits) ->
  bytes <= tj3JPEGBufSize w h s - bufsize_slack.
Proof.
  intros dc ac s w h blocks bytes bits Hd Ha Hs Hw Hh Hlen Hsm E.
  destruct std_ac_cost6 as (dc' & ac' & Hd' & Ha' & H16d & H16a & H6).
  rewrite Hd in Hd'. rewrite Ha in Ha'. inversion Hd'; inversion Ha'; subst dc' ac'.
  eapply bufsize_sufficient_when_ycbcr; try eassumption.
  apply Forall_forall. intros [ci px] Hin. rewrite Forall_forall in Hsm. specialize (Hsm _ Hin). cbn [snd] in Hsm.
  unfold mcu_block_ok. cbn [fst snd]. split; [exact (proj1 Hsm)|].
  intros last bs Hl Eb. pose proof (small_block_cost dc ac px Hd Ha H16d H16a H6 Hsm last bs Hl Eb). lia.
Qed.

(* non-vacuity: one 4:2:0 MCU (16x16 pixels: 4 luma blocks, Cb, Cr) of smooth blocks *)
Definition smooth_px : list Z := map (fun i => 126 + Z.of_nat ((i mod 8) / 3) + Z.of_nat ((i / 8) / 4)) (seq 0 64).
Definition one_mcu_420 : list (nat * list Z) :=
  [(0%nat, smooth_px); (0%nat, smooth_px); (0%nat, smooth_px); (0%nat, smooth_px); (1%nat, smooth_px); (2%nat, smooth_px)].
Example ycbcr_420_instance : exists dc ac, dc_tbl = Some dc /\ ac_tbl = Some ac /\
  Z.of_nat (length one_mcu_420) = mcus 16 16 2 * blocks_per_mcu 2 /\
  forallb (fun b => forallb (fun v => Z.abs v <=? 7) (map (el (block_coefs (snd b))) (skipn 1 GenWorstCase.wc_natural_order))) one_mcu_420 = true /\
  scan_size_mcu (fun _ => (dc, ac)) 3 one_mcu_420 = Some (52, 414) /\ tj3JPEGBufSize 16 16 2 - bufsize_slack = 768.
Proof. vm_compute. eexists. eexists. repeat split. Qed.
