(* C15 -- judgements over the GENERATED inventory (gen/GenGlobals.v), re-proved on
   every run by vm_compute. *)
From Coq Require Import List ZArith String Bool.
From LJT Require Import model.Globals gen.GenGlobals.
Import ListNotations.
Local Open Scope string_scope.

(* ------------------------------------------------------------------ expectations *)
(* the only objects that may be non-benign, with the reason checked by dummy_ok *)
Definition allow_list : list (string * string * string) :=
  [("src/turbojpeg.c", "_tjInitCompress", "buffer")].

Definition expected_tls : list (string * string * string) :=
  [("simd/x86_64/jsimd.c", "", "simd_huffman"); ("simd/x86_64/jsimd.c", "", "simd_support");
   ("src/turbojpeg.c", "", "errStr")].

Definition expected_env_sites : list libc_site :=
  [mk_libc "GETENV_S" "simd/x86_64/jsimd.c" "init_simd" "JSIMD_FORCEAVX2" "";
   mk_libc "GETENV_S" "simd/x86_64/jsimd.c" "init_simd" "JSIMD_FORCENONE" "";
   mk_libc "GETENV_S" "simd/x86_64/jsimd.c" "init_simd" "JSIMD_FORCESSE2" "";
   mk_libc "GETENV_S" "simd/x86_64/jsimd.c" "init_simd" "JSIMD_NOHUFFENC" "";
   mk_libc "GETENV_S" "src/jmemmgr.c" "jinit_memory_mgr" "JPEGMEM" "";
   mk_libc "PUTENV_S" "src/turbojpeg.c" "processFlags" "JSIMD_FORCEMMX" "flags & TJFLAG_FORCEMMX";
   mk_libc "PUTENV_S" "src/turbojpeg.c" "processFlags" "JSIMD_FORCESSE" "flags & TJFLAG_FORCESSE";
   mk_libc "PUTENV_S" "src/turbojpeg.c" "processFlags" "JSIMD_FORCESSE2" "flags & TJFLAG_FORCESSE2";
   mk_libc "getenv" "src/jinclude.h" "GETENV_S" "" "";
   mk_libc "setenv" "src/jinclude.h" "PUTENV_S" "" ""].

(* the TurboJPEG 2.x-and-earlier entry points that take a `flags` argument *)
Definition legacy_entry_points : list string :=
  ["tjCompress2"; "tjCompressFromYUV"; "tjCompressFromYUVPlanes"; "tjDecodeYUV"; "tjDecodeYUVPlanes";
   "tjDecompress2"; "tjDecompressToYUV2"; "tjDecompressToYUVPlanes"; "tjEncodeYUV3"; "tjEncodeYUVPlanes";
   "tjLoadImage"; "tjSaveImage"; "tjTransform"].

(* other process-global libc state: (callee, function) pairs that may occur *)
Definition other_libc_allowed : list (string * string) :=
  [("exit", "error_exit"); ("stderr", "output_message");
   ("strerror", "tj3LoadImage8"); ("strerror", "tj3LoadImage12"); ("strerror", "tj3LoadImage16");
   ("strerror", "tj3SaveImage8"); ("strerror", "tj3SaveImage12"); ("strerror", "tj3SaveImage16")].

Definition is_env_site (s : libc_site) : bool := is_env_reader (l_callee s) || is_env_writer (l_callee s).

Definition tls_keys : list (string * string * string) :=
  map key (filter (fun g => match g_cls g with Tls => true | _ => false end) inventory).

Definition str_in (x : string) (l : list string) : bool := existsb (String.eqb x) l.

Definition env_writer_ok (s : libc_site) : bool :=
  negb (is_env_writer (l_callee s))
  || (String.eqb (l_fn s) "PUTENV_S" && String.eqb (l_file s) "src/jinclude.h")
  || (String.eqb (l_fn s) "processFlags" && String.eqb (l_file s) "src/turbojpeg.c"
      && String.prefix "flags & TJFLAG_FORCE" (l_guard s)).

Definition writer_caller_ok (cf : string * string) : bool :=
  String.eqb (snd cf) "processFlags" && negb (String.prefix "tj3" (fst cf)) && str_in (fst cf) legacy_entry_points.

Definition other_libc_ok (s : libc_site) : bool :=
  is_env_site s
  || existsb (fun a => String.eqb (fst a) (l_callee s) && String.eqb (snd a) (l_fn s)) other_libc_allowed.

(* ------------------------------------------------------------------ computed facts *)
Lemma inventory_check : forallb (entry_ok allow_list escapes) inventory = true.
Proof. vm_compute. reflexivity. Qed.

Lemma tls_check : list_eqb key_eqb tls_keys expected_tls = true.
Proof. vm_compute. reflexivity. Qed.

Lemma asm_check : asm_writable_data = [].
Proof. reflexivity. Qed.

Lemma env_sites_check : list_eqb libc_eqb (filter is_env_site libc_sites) expected_env_sites = true.
Proof. vm_compute. reflexivity. Qed.

Lemma env_writer_check : forallb env_writer_ok libc_sites = true.
Proof. vm_compute. reflexivity. Qed.

Lemma writer_callers_check : forallb writer_caller_ok env_writer_callers = true.
Proof. vm_compute. reflexivity. Qed.

Lemma other_libc_check : forallb other_libc_ok libc_sites = true.
Proof. vm_compute. reflexivity. Qed.

(* ------------------------------------------------------------------ readable statements *)
Lemma key_eqb_eq a b : key_eqb a b = true -> a = b.
Proof.
  destruct a as [[a1 a2] a3], b as [[b1 b2] b3]. unfold key_eqb.
  rewrite !andb_true_iff, !String.eqb_eq. intros [[-> ->] ->]. reflexivity.
Qed.

Definition benign_or_allowed (g : gvar) : Prop :=
  g_cls g = Const \/ g_cls g = Tls \/ g_cls g = MutableNeverWritten \/
  (exists sites e, g_cls g = AddressEscapes sites /\ In (key g) allow_list /\
                   In e escapes /\ esc_key e = key g /\ dummy_ok e = true).

Theorem globals_are_benign_proof :
  (forall g, In g inventory -> benign_or_allowed g) /\
  tls_keys = expected_tls /\
  asm_writable_data = [].
Proof.
  split; [|split].
  - intros g Hg. pose proof inventory_check as H. rewrite forallb_forall in H. specialize (H g Hg).
    unfold entry_ok in H. unfold benign_or_allowed. destruct (g_cls g) eqn:Hc; cbn [cls_benign is_escape orb andb] in H; auto; try discriminate.
    right. right. right.
    rewrite !andb_true_iff in H. destruct H as [Hal Hes].
    rewrite existsb_exists in Hal, Hes. destruct Hal as [k [Hk Hke]]. destruct Hes as [e [He Hee]].
    apply andb_true_iff in Hee. destruct Hee as [Hek Hok].
    apply key_eqb_eq in Hke. apply key_eqb_eq in Hek.
    exists sites, e. repeat split; auto. rewrite Hke. exact Hk.
  - pose proof tls_check as H.
    assert (G : forall a b, list_eqb key_eqb a b = true -> a = b).
    { induction a as [|x a IH]; destruct b as [|y b]; cbn; intros E; try discriminate; auto.
      apply andb_true_iff in E. destruct E as [E1 E2]. apply key_eqb_eq in E1. rewrite E1, (IH b E2). reflexivity. }
    apply G. exact H.
  - exact asm_check.
Qed.

Lemma libc_eqb_eq a b : libc_eqb a b = true -> a = b.
Proof.
  destruct a, b. unfold libc_eqb. cbn. rewrite !andb_true_iff, !String.eqb_eq.
  intros [[[[-> ->] ->] ->] ->]. reflexivity.
Qed.

Theorem env_sites_proof :
  (* the call sites that read or write the environment are exactly the expected ones *)
  filter is_env_site libc_sites = expected_env_sites /\
  (* the environment is written only by PUTENV_S, called only in processFlags under a TJFLAG_FORCE* test *)
  (forall s, In s libc_sites -> is_env_writer (l_callee s) = true ->
     (l_fn s = "PUTENV_S" /\ l_file s = "src/jinclude.h") \/
     (l_fn s = "processFlags" /\ l_file s = "src/turbojpeg.c" /\ String.prefix "flags & TJFLAG_FORCE" (l_guard s) = true)) /\
  (* processFlags is called only from the legacy (pre-3.0) entry points, never from a tj3* function *)
  (forall c f, In (c, f) env_writer_callers ->
     f = "processFlags" /\ String.prefix "tj3" c = false /\ In c legacy_entry_points) /\
  (* every other use of process-global libc state is one of the allowed (callee, function) pairs *)
  (forall s, In s libc_sites -> is_env_site s = false ->
     In (l_callee s, l_fn s) other_libc_allowed).
Proof.
  split; [|split; [|split]].
  - pose proof env_sites_check as H.
    assert (G : forall a b, list_eqb libc_eqb a b = true -> a = b).
    { induction a as [|x a IH]; destruct b as [|y b]; cbn [list_eqb]; intros E; try discriminate; auto.
      apply andb_true_iff in E. destruct E as [E1 E2]. apply libc_eqb_eq in E1. rewrite E1, (IH b E2). reflexivity. }
    apply G. exact H.
  - intros s Hs Hw. pose proof env_writer_check as H. rewrite forallb_forall in H. specialize (H s Hs).
    unfold env_writer_ok in H. rewrite Hw in H. cbn [negb orb] in H.
    apply orb_true_iff in H. destruct H as [H|H].
    + left. apply andb_true_iff in H. destruct H as [H1 H2]. apply String.eqb_eq in H1, H2. auto.
    + right. rewrite !andb_true_iff in H. destruct H as [[H1 H2] H3]. apply String.eqb_eq in H1, H2. auto.
  - intros c f Hin. pose proof writer_callers_check as H. rewrite forallb_forall in H. specialize (H (c, f) Hin).
    unfold writer_caller_ok in H. cbn [fst snd] in H. rewrite !andb_true_iff in H. destruct H as [[H1 H2] H3].
    apply String.eqb_eq in H1. apply negb_true_iff in H2. split; [exact H1|]. split; [exact H2|].
    unfold str_in in H3. rewrite existsb_exists in H3. destruct H3 as [x [Hx Hxe]]. apply String.eqb_eq in Hxe. subst. exact Hx.
  - intros s Hs Hne. pose proof other_libc_check as H. rewrite forallb_forall in H. specialize (H s Hs).
    unfold other_libc_ok in H. rewrite Hne in H. cbn [orb] in H.
    rewrite existsb_exists in H. destruct H as [[a b] [Ha Hab]]. cbn [fst snd] in Hab.
    apply andb_true_iff in Hab. destruct Hab as [E1 E2]. apply String.eqb_eq in E1, E2. subst. exact Ha.
Qed.

(* non-vacuity: the inventory is not empty and really contains the objects the property names *)
Lemma inventory_nontrivial :
  Z.ltb 100 n_translation_units = true /\ Nat.ltb 50 (List.length inventory) = true /\
  existsb (fun g => key_eqb (key g) ("src/turbojpeg.c", "", "pf2cs")) inventory = true /\
  existsb (fun g => key_eqb (key g) ("src/turbojpeg.c", "_tjInitDecompress", "buffer")) inventory = true /\
  existsb (fun g => key_eqb (key g) ("src/jutils.c", "", "jpeg_natural_order")) inventory = true.
Proof. vm_compute. repeat split; reflexivity. Qed.
