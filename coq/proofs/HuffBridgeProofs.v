(* HuffBridgeProofs.v -- the library's derived encoder table (model/Huff.v
   make_c_derived = jchuff.c jpeg_make_c_derived_tbl) agrees with the independent
   Annex-C reading of C04 (model/T81Spec.v gen_codes / mk_coder,
   proofs/T81HuffProofs.v table_ok): for EVERY (bits, huffval) the library
   validator accepts, the T.81 table is table_ok and every symbol gets the same
   code word (same bits, hence same length) from both; so mk_coder_ok and the
   block / scan round-trip theorems of C04 apply verbatim to the tables of
   jpeg_gen_optimal_table.  table_ok is strictly weaker than the library
   validator (validators_differ). *)
From Coq Require Import List ZArith Bool Lia ZifyBool.
From LJT Require Import model.Huff proofs.HuffCodeProofs proofs.HuffGenProofs3 proofs.HuffGenDepth.
From LJT Require model.T81Spec proofs.T81BlockProofs proofs.T81HuffProofs.
Import ListNotations.
Local Open Scope Z_scope.

Module T := T81Spec.

Lemma bits_of_same : forall s c, T.bits_of s c = bits_of s c.
Proof. induction s; intros; cbn; [reflexivity|]. now rewrite IHs. Qed.

(* Figure C.1: same HUFFSIZE list when the library accepts *)
Lemma huffsizes_T81 : forall bits l p sizes,
  huffsizes bits l p = Some sizes ->
  T.huffsize bits l = sizes /\ forallb (fun x => 0 <=? x) bits = true.
Proof.
  induction bits as [|b t IH]; intros l p sizes H.
  - inversion H; subst. split; reflexivity.
  - apply huffsizes_cons in H. destruct H as (Hb & _ & r & Hr & ->).
    destruct (IH _ _ _ Hr) as [A B]. cbn [T.huffsize forallb]. rewrite A, B.
    split; [reflexivity|]. lia.
Qed.

(* Figure C.2: same HUFFCODE list, and no code is all ones (the library's
   "code >= 1 << si" test after each length is exactly what codes_ok asks) *)
Lemma codes_from_T81 : forall sizes code si codes,
  sorted_from si sizes -> codes_from sizes code si = Some codes ->
  T.huffcode sizes code si = codes /\ T.codes_ok sizes codes = true.
Proof.
  induction sizes as [|s t IH]; intros code si codes Hs H.
  - cbn in H. destruct (code >=? 2 ^ si); inversion H; subst. split; reflexivity.
  - destruct Hs as [Hs1 Hs2].
    apply codes_from_cons in H; [|exact Hs1]. destruct H as (r & -> & Hr & Hlt).
    assert (Hs3 : sorted_from s t) by (destruct t; cbn in *; intuition lia).
    destruct (IH _ _ _ Hs3 Hr) as [A B].
    pose proof (codes_from_lt _ _ _ _ Hr) as Hfit.
    cbn [T.huffcode]. rewrite A. split; [reflexivity|].
    unfold T.codes_ok in *. cbn [combine forallb fst snd]. rewrite B. lia.
Qed.

Lemma gen_codes_T81 : forall counts sizes codes,
  huffsizes counts 1 0 = Some sizes -> gen_codes sizes = Some codes ->
  T.gen_codes counts = (sizes, codes) /\ T81HuffProofs.table_ok counts = true.
Proof.
  intros counts sizes codes Hsz Hgc.
  destruct (huffsizes_T81 _ _ _ _ Hsz) as [A B].
  pose proof (huffsizes_sorted _ _ _ _ Hsz) as Hs.
  assert (C : T.huffcode sizes 0 (hd 0 sizes) = codes /\ T.codes_ok sizes codes = true).
  { destruct sizes as [|s0 t].
    - cbn in Hgc. inversion Hgc; subst. split; reflexivity.
    - cbn [hd]. apply codes_from_T81; [|exact Hgc]. destruct Hs as [H1 H2]. split; [lia|exact H2]. }
  destruct C as [C1 C2].
  unfold T81HuffProofs.table_ok, T.gen_codes. rewrite A, C1, B, C2. split; reflexivity.
Qed.

(* Figure C.3: EHUFCO/EHUFSI as filled by the library = first-match lookup *)
Lemma fill_c_lookup : forall vals codes sizes maxsym co si ct,
  Forall (fun s => s <> 0) sizes -> length co = length si -> maxsym < Z.of_nat (length si) ->
  fill_c vals codes sizes maxsym co si = Some ct ->
  forall sym, 0 <= sym -> nthZ si (Z.to_nat sym) = 0 ->
  encode_sym ct sym = T.lookup_code vals sizes codes sym.
Proof.
  induction vals as [|v vt IH]; intros codes sizes maxsym co si ct Hnz Hlen Hmax H sym Hsym Hz.
  - cbn in H. inversion H; subst. unfold encode_sym. cbn [ehufsi]. rewrite Hz. reflexivity.
  - destruct codes as [|c ctl].
    { cbn in H. inversion H; subst. unfold encode_sym. cbn [ehufsi]. rewrite Hz.
      cbn. destruct sizes; reflexivity. }
    destruct sizes as [|s stl].
    { cbn in H. inversion H; subst. unfold encode_sym. cbn [ehufsi]. rewrite Hz. reflexivity. }
    pose proof H as Hfill.
    cbn [fill_c] in H.
    destruct ((v <? 0) || (v >? maxsym) || negb (nthZ si (Z.to_nat v) =? 0)) eqn:E; [discriminate|].
    inversion Hnz as [|? ? Hs Hnz']; subst.
    cbn [T.lookup_code]. destruct (v =? sym) eqn:Ev.
    + assert (v = sym) by lia. subst v.
      assert (Hlen' : length (upd (Z.to_nat sym) c co) = length (upd (Z.to_nat sym) s si))
        by (rewrite !upd_length; exact Hlen).
      destruct (fill_c_spec _ _ _ _ _ _ _ Hnz' Hlen' H (Z.to_nat sym)) as [P _].
      unfold nthZ in P. rewrite !nth_upd in P. rewrite Hlen in P.
      replace (Nat.eqb (Z.to_nat sym) (Z.to_nat sym) && Nat.ltb (Z.to_nat sym) (length si))%bool
        with true in P by lia.
      destruct (P Hs) as [P1 P2]. unfold encode_sym, nthZ. rewrite P1, P2.
      replace (s =? 0) with false by lia. reflexivity.
    + apply (IH ctl stl maxsym (upd (Z.to_nat v) c co) (upd (Z.to_nat v) s si) ct Hnz'); try assumption.
      * rewrite !upd_length. exact Hlen.
      * rewrite upd_length. exact Hmax.
      * unfold nthZ. rewrite nth_upd.
        replace (Nat.eqb (Z.to_nat sym) (Z.to_nat v)) with false by lia. exact Hz.
Qed.

Lemma lookup_code_firstn : forall sizes vals codes sym,
  T.lookup_code (firstn (length sizes) vals) sizes codes sym = T.lookup_code vals sizes codes sym.
Proof.
  induction sizes as [|s st IH]; intros vals codes sym.
  - cbn. destruct vals; reflexivity.
  - destruct vals as [|v vt]; [reflexivity|]. cbn [length firstn T.lookup_code].
    destruct codes as [|c ct]; [reflexivity|]. rewrite IH. reflexivity.
Qed.

(* ---------------------------------------------------------- the theorem *)
Theorem codes_agree_with_T81 : forall bits vals maxsym ct,
  length bits = 17%nat -> maxsym <= 256 ->
  make_c_derived bits vals maxsym = Some ct ->
  let counts := skipn 1 (firstn 17 bits) in
  T81HuffProofs.table_ok counts = true /\
  (forall sym, 0 <= sym ->
     encode_sym ct sym = T.hc_enc (T.mk_coder counts vals) sym) /\
  T81BlockProofs.coder_ok (T.hc_enc (T.mk_coder counts vals)) (T.hc_dec (T.mk_coder counts vals)).
Proof.
  intros bits vals maxsym ct Hlen Hmax H counts.
  unfold make_c_derived in H. fold counts in H.
  destruct (huffsizes counts 1 0) as [sizes|] eqn:Hsz; [|discriminate].
  destruct (gen_codes sizes) as [codes|] eqn:Hgc; [|discriminate].
  destruct (gen_codes_T81 _ _ _ Hsz Hgc) as [G Tok].
  split; [exact Tok|]. split; [|apply T81HuffProofs.mk_coder_ok; exact Tok].
  intros sym Hsym. unfold T.mk_coder. rewrite G. cbn [T.hc_enc].
  rewrite <- lookup_code_firstn.
  pose proof (huffsizes_sorted _ _ _ _ Hsz) as Hs.
  apply (fill_c_lookup _ _ _ maxsym (repeat 0 257) (repeat 0 257) ct); try assumption.
  - eapply Forall_impl; [|apply (sorted_from_Forall _ _ Hs)]. cbn. intros; lia.
  - reflexivity.
  - rewrite repeat_length. lia.
  - unfold nthZ. rewrite nth_repeat_gen. destruct (Nat.ltb (Z.to_nat sym) 257); reflexivity.
Qed.

(* both decoders (library F.16 loop / look-ahead, and the T.81 DECODE of C04)
   return the same symbol on every code word followed by arbitrary bits *)
Theorem decoders_agree_on_code_words :
  forall bits vals maxsym isDC maxdc ct dt sym code rest,
  length bits = 17%nat -> maxsym <= 256 ->
  make_c_derived bits vals maxsym = Some ct ->
  make_d_derived bits vals isDC maxdc = Some dt ->
  encode_sym ct sym = Some code -> 0 <= sym ->
  let counts := skipn 1 (firstn 17 bits) in
  decode_serial dt 1 (code ++ rest) = Some (sym, false, rest) /\
  T.hc_dec (T.mk_coder counts vals) (code ++ rest) = Some (sym, rest).
Proof.
  intros bits vals maxsym isDC maxdc ct dt sym code rest Hlen Hmax Hc Hd He Hsym counts.
  split; [eapply c_d_tables_inverse_nonneg; eauto|].
  destruct (codes_agree_with_T81 _ _ _ _ Hlen Hmax Hc) as (_ & Henc & Hok).
  apply Hok. fold counts. rewrite <- Henc by exact Hsym. exact He.
Qed.

(* table_ok is strictly weaker than the library validator: it has no bound on
   the number of codes, no symbol-range test and no duplicate test *)
Example validators_differ :
  (* 257 codes of length 16 *)
  (T81HuffProofs.table_ok [0;0;0;0;0;0;0;0;0;0;0;0;0;0;0;257] = true /\
   make_c_derived [0;0;0;0;0;0;0;0;0;0;0;0;0;0;0;0;257] (map Z.of_nat (seq 0 257)) 255 = None) /\
  (* a duplicated symbol *)
  (T81HuffProofs.table_ok [2;0;0;0;0;0;0;0;0;0;0;0;0;0;0;0] = false /\
   T81HuffProofs.table_ok [1;1;0;0;0;0;0;0;0;0;0;0;0;0;0;0] = true /\
   make_c_derived [0;1;1;0;0;0;0;0;0;0;0;0;0;0;0;0;0] [5; 5] 255 = None /\
   T.hc_enc (T.mk_coder [1;1;0;0;0;0;0;0;0;0;0;0;0;0;0;0] [5; 5]) 5 = Some [false]) /\
  (* a symbol above maxsymbol *)
  (make_c_derived [0;1;1;0;0;0;0;0;0;0;0;0;0;0;0;0;0] [5; 16] 15 = None /\
   T.hc_enc (T.mk_coder [1;1;0;0;0;0;0;0;0;0;0;0;0;0;0;0] [5; 16]) 16 = Some [true; false]).
Proof. vm_compute. repeat split; reflexivity. Qed.

(* hence C04's coder_ok (and with it its block / scan round-trip theorems) holds
   for every table jpeg_gen_optimal_table produces from a histogram that meets
   the hypotheses of gen_table_always_valid (image_histograms_admissible) *)
Theorem gen_tables_are_T81_coders : forall freq256 : list Z,
  (forall f, In f freq256 -> 0 <= f) ->
  sumZ (firstn 256 freq256) + 1 <= SENT ->
  (length (nz_scan (firstn 256 freq256) 0) <= 254)%nat ->
  exists t ct, gen_optimal_table freq256 = inr t /\
    make_c_derived (h_bits t) (h_vals t) 255 = Some ct /\
    let counts := skipn 1 (firstn 17 (h_bits t)) in
    T81HuffProofs.table_ok counts = true /\
    (forall sym, 0 <= sym -> encode_sym ct sym = T.hc_enc (T.mk_coder counts (h_vals t)) sym) /\
    T81BlockProofs.coder_ok (T.hc_enc (T.mk_coder counts (h_vals t))) (T.hc_dec (T.mk_coder counts (h_vals t))).
Proof.
  intros freq256 Hnn Hs Hc.
  destruct (gen_table_always_valid freq256 Hnn Hs Hc) as (t & E & G & _ & (ct & Hct) & _).
  exists t, ct. split; [exact E|]. split; [exact Hct|].
  destruct G as (L17 & _).
  apply (codes_agree_with_T81 (h_bits t) (h_vals t) 255 ct L17 ltac:(lia) Hct).
Qed.
