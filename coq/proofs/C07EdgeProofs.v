(* C07 -- edge_padding_local: edge replication touches only padded positions and fills them with
   the last real column / row. *)
From Coq Require Import List ZArith Arith Lia Bool.
Local Open Scope bool_scope.
From LJT Require Import model.C07Edge.
Import ListNotations.

Lemma set_nth_length {A} (l : list A) n v : length (set_nth l n v) = length l.
Proof. revert n; induction l as [|h t IH]; intros [|n]; cbn; auto. Qed.
Lemma nth_set_nth_same {A} (l : list A) n v d : n < length l -> nth n (set_nth l n v) d = v.
Proof. revert n; induction l as [|h t IH]; intros [|n] H; cbn in *; try lia; auto. apply IH; lia. Qed.
Lemma nth_set_nth_other {A} (l : list A) n m v d : n <> m -> nth m (set_nth l n v) d = nth m l d.
Proof. revert n m; induction l as [|h t IH]; intros [|n] [|m] H; cbn; auto; try lia. Qed.

Lemma fill_run_length row pos v c : length (fill_run row pos v c) = length row.
Proof. revert row pos; induction c as [|c IH]; intros; cbn; [reflexivity|]. rewrite IH. apply set_nth_length. Qed.

Lemma fill_run_nth row pos v c x : pos + c <= length row ->
  nth x (fill_run row pos v c) 0%Z = if (pos <=? x) && (x <? pos + c) then v else nth x row 0%Z.
Proof.
  revert row pos. induction c as [|c IH]; intros row pos H; cbn [fill_run].
  - destruct (pos <=? x) eqn:A, (x <? pos + 0) eqn:B; cbn; try reflexivity.
    apply Nat.leb_le in A; apply Nat.ltb_lt in B; lia.
  - rewrite IH by (rewrite set_nth_length; lia).
    destruct (Nat.eq_dec x pos) as [->|Hne].
    + replace (S pos <=? pos) with false by (symmetry; apply Nat.leb_gt; lia). cbn [andb].
      rewrite nth_set_nth_same by lia.
      replace (pos <=? pos) with true by (symmetry; apply Nat.leb_le; lia).
      replace (pos <? pos + S c) with true by (symmetry; apply Nat.ltb_lt; lia). reflexivity.
    + rewrite nth_set_nth_other by lia.
      destruct (S pos <=? x) eqn:A, (x <? S pos + c) eqn:B, (pos <=? x) eqn:C, (x <? pos + S c) eqn:D; cbn; try reflexivity;
        repeat match goal with H : (_ <=? _) = true |- _ => apply Nat.leb_le in H | H : (_ <=? _) = false |- _ => apply Nat.leb_gt in H
                          | H : (_ <? _) = true |- _ => apply Nat.ltb_lt in H | H : (_ <? _) = false |- _ => apply Nat.ltb_ge in H end; lia.
Qed.

(* one row: columns < input_cols untouched, input_cols..output_cols-1 = the last real sample, rest untouched *)
Theorem right_edge_row_proof : forall row ic oc x, 1 <= ic -> oc <= length row ->
  length (expand_right_edge_row row ic oc) = length row /\
  nth x (expand_right_edge_row row ic oc) 0%Z =
    if (ic <=? x) && (x <? oc) then nth (ic - 1) row 0%Z else nth x row 0%Z.
Proof.
  intros row ic oc x Hic Hoc. unfold expand_right_edge_row.
  destruct (Z.of_nat oc - Z.of_nat ic >? 0)%Z eqn:E.
  - assert (ic < oc) by lia. split; [apply fill_run_length|].
    rewrite fill_run_nth by lia. replace (ic + (oc - ic)) with oc by lia. reflexivity.
  - assert (oc <= ic) by lia. split; [reflexivity|].
    destruct (ic <=? x) eqn:A, (x <? oc) eqn:B; cbn; try reflexivity.
    apply Nat.leb_le in A; apply Nat.ltb_lt in B; lia.
Qed.

Lemma right_edge_nth image : forall nr ic oc y,
  nth y (expand_right_edge image nr ic oc) [] =
    if y <? nr then (if y <? length image then expand_right_edge_row (nth y image []) ic oc else []) else nth y image [].
Proof.
  induction image as [|row rest IH]; intros nr ic oc y.
  - replace (expand_right_edge [] nr ic oc) with (@nil (list Z)) by (destruct nr; reflexivity).
    cbn [length]. replace (y <? 0) with false by (symmetry; apply Nat.ltb_ge; lia).
    destruct (y <? nr); destruct y; reflexivity.
  - destruct nr as [|k]; [cbn [expand_right_edge]; reflexivity|]. cbn [expand_right_edge].
    destruct y as [|y]; [reflexivity|]. cbn [nth length]. rewrite IH.
    change (S y <? S k) with (y <? k). change (S y <? S (length rest)) with (y <? length rest). reflexivity.
Qed.

Lemma bottom_loop_spec : forall count image nc src row y,
  src < row -> row + count <= length image ->
  length (bottom_loop image nc src row count) = length image /\
  nth y (bottom_loop image nc src row count) [] =
    if (row <=? y) && (y <? row + count) then copy_row (nth src image []) (nth y image []) nc else nth y image [].
Proof.
  induction count as [|c IH]; intros image nc src row y Hs Hl; cbn [bottom_loop].
  - split; [reflexivity|]. destruct (row <=? y) eqn:A, (y <? row + 0) eqn:B; cbn; try reflexivity.
    apply Nat.leb_le in A; apply Nat.ltb_lt in B; lia.
  - destruct (IH (set_nth image row (copy_row (nth src image []) (nth row image []) nc)) nc src (S row) y) as [L N];
      [lia|rewrite set_nth_length; lia|].
    rewrite set_nth_length in L. split; [exact L|]. rewrite N.
    rewrite (nth_set_nth_other image row src) by lia.
    destruct (Nat.eq_dec y row) as [->|Hne].
    + replace (S row <=? row) with false by (symmetry; apply Nat.leb_gt; lia). cbn [andb].
      rewrite nth_set_nth_same by lia.
      replace (row <=? row) with true by (symmetry; apply Nat.leb_le; lia).
      replace (row <? row + S c) with true by (symmetry; apply Nat.ltb_lt; lia). reflexivity.
    + rewrite nth_set_nth_other by lia.
      destruct (S row <=? y) eqn:A, (y <? S row + c) eqn:B, (row <=? y) eqn:C, (y <? row + S c) eqn:D; cbn; try reflexivity;
        repeat match goal with H : (_ <=? _) = true |- _ => apply Nat.leb_le in H | H : (_ <=? _) = false |- _ => apply Nat.leb_gt in H
                          | H : (_ <? _) = true |- _ => apply Nat.ltb_lt in H | H : (_ <? _) = false |- _ => apply Nat.ltb_ge in H end; lia.
Qed.

Lemma nth_firstn_lt' {A} (l : list A) n x d : x < n -> nth x (firstn n l) d = nth x l d.
Proof. revert n x; induction l as [|h t IH]; intros [|n] [|x] H; cbn; auto; try lia. apply IH; lia. Qed.
Lemma nth_skipn' {A} (l : list A) n x d : nth x (skipn n l) d = nth (n + x) l d.
Proof. revert l; induction n as [|n IH]; intros [|h t]; cbn; auto. destruct x; reflexivity. Qed.

Lemma copy_row_nth src dst nc x : nc <= length src -> nth x (copy_row src dst nc) 0%Z = if x <? nc then nth x src 0%Z else nth x dst 0%Z.
Proof.
  intros H. unfold copy_row. destruct (x <? nc) eqn:E.
  - apply Nat.ltb_lt in E. rewrite app_nth1 by (rewrite firstn_length; lia). apply nth_firstn_lt'; exact E.
  - apply Nat.ltb_ge in E. rewrite app_nth2 by (rewrite firstn_length; lia). rewrite firstn_length.
    replace (Nat.min nc (length src)) with nc by lia. rewrite nth_skipn'. f_equal. lia.
Qed.

Lemma copy_row_length src dst nc : nc <= length src -> nc <= length dst -> length (copy_row src dst nc) = length dst.
Proof. intros. unfold copy_row. rewrite app_length, firstn_length, skipn_length. lia. Qed.

(* edge_padding_local: a w x h component padded to W x H (h <= H rows present, every row W long):
   the sample at (y, x) is the image sample at (min y (h-1), min x (w-1)); in particular the real
   samples are untouched and every padded sample is a copy of the nearest real one *)
Theorem edge_padding_local_proof : forall image w h W H y x,
  1 <= w <= W -> 1 <= h <= H -> H <= length image -> (forall r, r < H -> length (nth r image []) = W) ->
  y < H -> x < W ->
  nth x (nth y (pad_component image w h W H) []) 0%Z = nth (Nat.min x (w - 1)) (nth (Nat.min y (h - 1)) image []) 0%Z.
Proof.
  intros image w h W H y x Hw Hh HH Hlen Hy Hx. unfold pad_component, expand_bottom_edge.
  destruct (bottom_loop_spec (H - h) image w (h - 1) h y) as [L N]; [lia|lia|].
  rewrite right_edge_nth. replace (y <? H) with true by (symmetry; apply Nat.ltb_lt; lia).
  rewrite L. replace (y <? length image) with true by (symmetry; apply Nat.ltb_lt; lia).
  rewrite N. clear N.
  set (rowy := if (h <=? y) && (y <? h + (H - h)) then copy_row (nth (h - 1) image []) (nth y image []) w else nth y image []).
  assert (Hrl : length rowy = W).
  { unfold rowy. destruct ((h <=? y) && (y <? h + (H - h))); [|apply Hlen; lia].
    rewrite copy_row_length; [apply Hlen; lia| |]; rewrite Hlen; lia. }
  destruct (right_edge_row_proof rowy w W x) as [_ R]; [lia|lia|]. rewrite R. clear R.
  assert (Hrow : forall c, c < w -> nth c rowy 0%Z = nth c (nth (Nat.min y (h - 1)) image []) 0%Z).
  { intros c Hc. unfold rowy. destruct (h <=? y) eqn:A.
    - apply Nat.leb_le in A. replace (y <? h + (H - h)) with true by (symmetry; apply Nat.ltb_lt; lia). cbn [andb].
      rewrite copy_row_nth by (rewrite Hlen; lia). replace (c <? w) with true by (symmetry; apply Nat.ltb_lt; lia).
      replace (Nat.min y (h - 1)) with (h - 1) by lia. reflexivity.
    - apply Nat.leb_gt in A. cbn [andb]. replace (Nat.min y (h - 1)) with y by lia. reflexivity. }
  destruct (w <=? x) eqn:A.
  - apply Nat.leb_le in A. replace (x <? W) with true by (symmetry; apply Nat.ltb_lt; lia). cbn [andb].
    replace (Nat.min x (w - 1)) with (w - 1) by lia. apply Hrow. lia.
  - apply Nat.leb_gt in A. cbn [andb]. replace (Nat.min x (w - 1)) with x by lia. apply Hrow. lia.
Qed.

(* a constant image stays constant over the whole padded area *)
Corollary edge_padding_constant_proof : forall image w h W H v y x,
  1 <= w <= W -> 1 <= h <= H -> H <= length image -> (forall r, r < H -> length (nth r image []) = W) ->
  (forall r c, r < h -> c < w -> nth c (nth r image []) 0%Z = v) ->
  y < H -> x < W -> nth x (nth y (pad_component image w h W H) []) 0%Z = v.
Proof.
  intros. rewrite edge_padding_local_proof by assumption. apply H4; lia.
Qed.
