(* HuffCodeProofs.v -- the encoder-side derived table (jchuff.c
   jpeg_make_c_derived_tbl) and the decoder-side derived table (jdhuff.c
   jpeg_make_d_derived_tbl) are mutual inverses, for ALL tables accepted by
   the validators of model/Huff.v:
     c_d_tables_inverse     bit-serial decoder (Figure F.16 loop)
     lookahead_eq_serial    HUFF_LOOKAHEAD = 8 table path
   plus the canonical-code facts they rest on (codes_prefix, codes_consecutive,
   codes_fit) and non-vacuity examples on the four tables of jstdhuff.c. *)
From Coq Require Import List ZArith Bool Lia ZifyBool.
From LJT Require Import model.Huff gen.GenStdHuff.
Import ListNotations.
Local Open Scope Z_scope.

(* ------------------------------------------------------------ list helpers *)
Lemma nth_upd : forall A (l : list A) i m x d,
  nth m (upd i x l) d =
  if (Nat.eqb m i && Nat.ltb i (length l))%bool then x else nth m l d.
Proof.
  induction l as [|h t IH]; intros i m x d.
  - cbn [length]. replace (Nat.ltb i 0) with false by (destruct i; reflexivity).
    rewrite andb_false_r. destruct i; reflexivity.
  - destruct i as [|i]; destruct m as [|m]; cbn [upd nth length]; try reflexivity.
    rewrite IH. reflexivity.
Qed.

Lemma upd_length : forall A (l : list A) i x, length (upd i x l) = length l.
Proof.
  induction l as [|h t IH]; intros i x; [destruct i; reflexivity|].
  destruct i; cbn [upd length]; [reflexivity|]. now rewrite IH.
Qed.

Lemma nth_repeat_gen : forall (x d : Z) n i,
  nth i (repeat x n) d = if (i <? n)%nat then x else d.
Proof.
  induction n as [|n IH]; intros i.
  - destruct i; reflexivity.
  - destruct i as [|i]; cbn [repeat nth]; [reflexivity|]. rewrite IH. reflexivity.
Qed.

Lemma skipn_length_app : forall A (a b : list A), skipn (length a) (a ++ b) = b.
Proof. induction a; intros; cbn; auto. Qed.

(* ------------------------------------------------------------ sortedness *)
Fixpoint sorted_from (lo : Z) (l : list Z) : Prop :=
  match l with [] => True | x :: t => lo <= x /\ sorted_from x t end.

Lemma sorted_from_weaken : forall l lo lo', lo' <= lo -> sorted_from lo l -> sorted_from lo' l.
Proof. destruct l; cbn; intros; [trivial|]. intuition lia. Qed.

Lemma sorted_from_lb : forall l lo, sorted_from lo l ->
  forall k, (k < length l)%nat -> lo <= nth k l 0.
Proof.
  induction l as [|x t IH]; intros lo H k Hk; cbn in *; [lia|].
  destruct H as [H1 H2]. destruct k; [exact H1|].
  specialize (IH x H2 k). lia.
Qed.

Lemma sorted_from_mono : forall l lo, sorted_from lo l ->
  forall i j, (i <= j < length l)%nat -> nth i l 0 <= nth j l 0.
Proof.
  induction l as [|x t IH]; intros lo H i j Hij; cbn [length] in *; [lia|].
  destruct H as [H1 H2]. destruct i, j; cbn [nth]; try lia.
  - apply (sorted_from_lb t x H2). lia.
  - apply (IH x H2). lia.
Qed.

Lemma sorted_repeat_app : forall n l r, sorted_from l r -> sorted_from l (repeat l n ++ r).
Proof. induction n; intros; cbn; auto. split; [lia|auto]. Qed.

(* ------------------------------------------------------ huffsizes (C.1) *)
Lemma huffsizes_cons : forall b t l p sizes,
  huffsizes (b :: t) l p = Some sizes ->
  0 <= b /\ p + b <= 256 /\
  exists r, huffsizes t (l + 1) (p + b) = Some r /\ sizes = repeat l (Z.to_nat b) ++ r.
Proof.
  intros b t l p sizes H. cbn [huffsizes] in H.
  destruct ((b <? 0) || (p + b >? 256)) eqn:E; [discriminate|].
  destruct (huffsizes t (l + 1) (p + b)) as [r|] eqn:Er; [|discriminate].
  inversion H; subst. repeat split; try lia. eauto.
Qed.

Lemma huffsizes_sorted : forall bits l p sizes,
  huffsizes bits l p = Some sizes -> sorted_from l sizes.
Proof.
  induction bits as [|b t IH]; intros l p sizes H.
  - inversion H; subst. exact I.
  - apply huffsizes_cons in H. destruct H as (_ & _ & r & Hr & ->).
    apply sorted_repeat_app. apply (sorted_from_weaken r (l + 1)); [lia|]. eauto.
Qed.

Lemma huffsizes_ub : forall bits l p sizes,
  huffsizes bits l p = Some sizes ->
  forall k, (k < length sizes)%nat -> nth k sizes 0 < l + Z.of_nat (length bits).
Proof.
  induction bits as [|b t IH]; intros l p sizes H k Hk.
  - inversion H; subst. cbn in Hk. lia.
  - apply huffsizes_cons in H. destruct H as (Hb & _ & r & Hr & ->).
    rewrite app_length, repeat_length in Hk. cbn [length].
    destruct (Nat.ltb k (Z.to_nat b)) eqn:E.
    + rewrite app_nth1 by (rewrite repeat_length; lia).
      rewrite nth_repeat_gen, E. lia.
    + rewrite app_nth2 by (rewrite repeat_length; lia). rewrite repeat_length.
      specialize (IH _ _ _ Hr (k - Z.to_nat b)%nat). lia.
Qed.

(* position of level j (0-based offset into bits) inside the size list *)
Lemma huffsizes_nth : forall bits l p sizes,
  huffsizes bits l p = Some sizes ->
  forall j, (j < length bits)%nat ->
  let b := nth j bits 0 in
  let q := sumZ (firstn j bits) in
  0 <= b /\ 0 <= q /\ q + b <= Z.of_nat (length sizes) /\
  (forall i, Z.of_nat i < q -> nth i sizes 0 < l + Z.of_nat j) /\
  (forall i, q <= Z.of_nat i < q + b -> nth i sizes 0 = l + Z.of_nat j) /\
  (forall i, q + b <= Z.of_nat i -> (i < length sizes)%nat -> nth i sizes 0 > l + Z.of_nat j).
Proof.
  induction bits as [|b0 t IH]; intros l p sizes H j Hj; cbn [length] in Hj; [lia|].
  apply huffsizes_cons in H. destruct H as (Hb & _ & r & Hr & ->).
  assert (Hsplit : forall i, nth i (repeat l (Z.to_nat b0) ++ r) 0 =
            if (i <? Z.to_nat b0)%nat then l else nth (i - Z.to_nat b0) r 0).
  { intros i. destruct (Nat.ltb i (Z.to_nat b0)) eqn:E.
    - rewrite app_nth1 by (rewrite repeat_length; lia). now rewrite nth_repeat_gen, E.
    - rewrite app_nth2 by (rewrite repeat_length; lia). now rewrite repeat_length. }
  rewrite app_length, repeat_length.
  destruct j as [|j].
  - cbn [nth firstn sumZ]. repeat split; try lia.
    + intros i Hi. rewrite Hsplit.
      destruct (Nat.ltb i (Z.to_nat b0)) eqn:E; lia.
    + intros i Hi Hlen. rewrite Hsplit.
      destruct (Nat.ltb i (Z.to_nat b0)) eqn:E; [lia|].
      pose proof (sorted_from_lb r (l + 1) (huffsizes_sorted _ _ _ _ Hr) (i - Z.to_nat b0)%nat).
      lia.
  - cbn [nth firstn sumZ].
    specialize (IH _ _ _ Hr j ltac:(lia)). cbv zeta in IH.
    destruct IH as (H1 & H2 & H3 & H4 & H5 & H6).
    repeat split; try lia.
    + intros i Hi. rewrite Hsplit.
      destruct (Nat.ltb i (Z.to_nat b0)) eqn:E; [lia|].
      specialize (H4 (i - Z.to_nat b0)%nat). lia.
    + intros i Hi. rewrite Hsplit.
      destruct (Nat.ltb i (Z.to_nat b0)) eqn:E; [lia|].
      specialize (H5 (i - Z.to_nat b0)%nat). lia.
    + intros i Hi Hlen. rewrite Hsplit.
      destruct (Nat.ltb i (Z.to_nat b0)) eqn:E; [lia|].
      specialize (H6 (i - Z.to_nat b0)%nat). lia.
Qed.

(* ---------------------------------------------- canonical codes (C.2) *)
Lemma codes_from_lt : forall sizes code si codes,
  codes_from sizes code si = Some codes -> code < 2 ^ si.
Proof.
  induction sizes as [|s t IH]; intros code si codes H; cbn [codes_from] in H.
  - destruct (code >=? 2 ^ si) eqn:E; [discriminate|lia].
  - destruct (s =? si) eqn:Es.
    + destruct (codes_from t (code + 1) si) eqn:Er; [|discriminate].
      apply IH in Er. lia.
    + destruct (code >=? 2 ^ si) eqn:E; [discriminate|lia].
Qed.

Lemma codes_from_cons : forall s t code si codes,
  codes_from (s :: t) code si = Some codes -> si <= s ->
  exists r, codes = code * 2 ^ (s - si) :: r /\
            codes_from t (code * 2 ^ (s - si) + 1) s = Some r /\ code < 2 ^ si.
Proof.
  intros s t code si codes H Hs.
  pose proof (codes_from_lt _ _ _ _ H) as Hlt.
  cbn [codes_from] in H. destruct (s =? si) eqn:Es.
  - assert (s = si) by lia. subst s. rewrite Z.sub_diag, Z.mul_1_r.
    destruct (codes_from t (code + 1) si) eqn:Er; [|discriminate].
    inversion H; subst. eauto.
  - destruct (code >=? 2 ^ si) eqn:E; [discriminate|].
    destruct (codes_from t (code * 2 ^ (s - si) + 1) s) eqn:Er; [|discriminate].
    inversion H; subst. eauto.
Qed.

Lemma codes_from_len : forall sizes code si codes,
  sorted_from si sizes -> codes_from sizes code si = Some codes ->
  length codes = length sizes.
Proof.
  induction sizes as [|s t IH]; intros code si codes Hs H.
  - cbn in H. destruct (code >=? 2 ^ si); inversion H; reflexivity.
  - destruct Hs as [Hs1 Hs2].
    apply codes_from_cons in H; [|exact Hs1]. destruct H as (r & -> & Hr & _).
    cbn [length]. f_equal. eapply IH; eauto.
Qed.

(* every later code is at least the running code shifted to its length *)
Lemma codes_from_lower : forall sizes code si codes,
  sorted_from si sizes -> codes_from sizes code si = Some codes ->
  forall k, (k < length sizes)%nat -> code * 2 ^ (nth k sizes 0 - si) <= nth k codes 0.
Proof.
  induction sizes as [|s t IH]; intros code si codes Hs H k Hk; cbn [length] in Hk; [lia|].
  destruct Hs as [Hs1 Hs2].
  apply codes_from_cons in H; [|exact Hs1]. destruct H as (r & -> & Hr & _).
  destruct k as [|k]; cbn [nth]; [lia|].
  assert (Hs3 : sorted_from s t) by (apply (sorted_from_weaken t s); [lia|exact Hs2]).
  specialize (IH _ _ _ Hs3 Hr k ltac:(lia)).
  pose proof (sorted_from_lb t s Hs2 k ltac:(lia)) as Hlb.
  replace (nth k t 0 - si) with ((s - si) + (nth k t 0 - s)) by lia.
  rewrite Z.pow_add_r by lia.
  assert (0 <= 2 ^ (nth k t 0 - s)) by (apply Z.pow_nonneg; lia).
  nia.
Qed.

Lemma codes_from_same : forall sizes code si codes,
  codes_from sizes code si = Some codes ->
  forall k, (k < length sizes)%nat -> (forall i, (i <= k)%nat -> nth i sizes 0 = si) ->
  nth k codes 0 = code + Z.of_nat k.
Proof.
  induction sizes as [|s t IH]; intros code si codes H k Hk Hall; cbn [length] in Hk; [lia|].
  pose proof (Hall 0%nat ltac:(lia)) as H0. cbn in H0. subst s.
  apply codes_from_cons in H; [|lia]. destruct H as (r & -> & Hr & _).
  rewrite Z.sub_diag, Z.mul_1_r in *.
  destruct k as [|k]; cbn [nth]; [lia|].
  rewrite (IH _ _ _ Hr k ltac:(lia)); [lia|].
  intros i Hi. apply (Hall (S i)). lia.
Qed.

Section CanonicalCode.
  Variables (sizes codes : list Z) (code0 si0 : Z).
  Hypothesis Hsorted : sorted_from si0 sizes.
  Hypothesis Hcodes : codes_from sizes code0 si0 = Some codes.

  (* PREFIX property in numeric form: a later code, cut to the length of an
     earlier one, is strictly larger *)
  Lemma codes_from_prefix : forall j k, (j < k < length sizes)%nat ->
    (nth j codes 0 + 1) * 2 ^ (nth k sizes 0 - nth j sizes 0) <= nth k codes 0.
  Proof.
    revert codes code0 si0 Hsorted Hcodes.
    induction sizes as [|s t IH]; intros codes code si Hs H j k Hjk; cbn [length] in Hjk; [lia|].
    destruct Hs as [Hs1 Hs2].
    apply codes_from_cons in H; [|exact Hs1]. destruct H as (r & -> & Hr & _).
    assert (Hs3 : sorted_from s t) by (apply (sorted_from_weaken t s); [lia|exact Hs2]).
    destruct k as [|k]; [lia|]. destruct j as [|j]; cbn [nth].
    - apply (codes_from_lower t _ s r Hs3 Hr k). lia.
    - apply (IH r _ s Hs3 Hr). lia.
  Qed.

  (* codes of equal length are consecutive integers *)
  Lemma codes_from_consecutive : forall j k, (j <= k < length sizes)%nat ->
    nth j sizes 0 = nth k sizes 0 -> nth k codes 0 = nth j codes 0 + Z.of_nat (k - j).
  Proof.
    revert codes code0 si0 Hsorted Hcodes.
    induction sizes as [|s t IH]; intros codes code si Hs H j k Hjk Heq; cbn [length] in Hjk; [lia|].
    pose proof Hs as Hs0.
    destruct Hs as [Hs1 Hs2].
    apply codes_from_cons in H; [|exact Hs1]. destruct H as (r & -> & Hr & _).
    assert (Hs3 : sorted_from s t) by (apply (sorted_from_weaken t s); [lia|exact Hs2]).
    destruct j as [|j].
    - destruct k as [|k]; cbn [nth]; [lia|].
      rewrite (codes_from_same t _ s r Hr k ltac:(lia)); [lia|].
      intros i Hi. cbn [nth] in Heq.
      pose proof (sorted_from_mono t s Hs2 i k ltac:(lia)).
      pose proof (sorted_from_lb t s Hs2 i ltac:(lia)). lia.
    - destruct k as [|k]; [lia|]. cbn [nth] in *.
      rewrite (IH r _ s Hs3 Hr j k); [f_equal|lia|exact Heq].
  Qed.

  (* every code fits in its length and is non-negative when the start is *)
  Lemma codes_from_fit : 0 <= code0 -> forall k, (k < length sizes)%nat ->
    0 <= nth k codes 0 < 2 ^ nth k sizes 0.
  Proof.
    revert codes code0 si0 Hsorted Hcodes.
    induction sizes as [|s t IH]; intros codes code si Hs H H0 k Hk; cbn [length] in Hk; [lia|].
    destruct Hs as [Hs1 Hs2].
    apply codes_from_cons in H; [|exact Hs1]. destruct H as (r & -> & Hr & Hlt).
    assert (Hs3 : sorted_from s t) by (apply (sorted_from_weaken t s); [lia|exact Hs2]).
    assert (Hp : 0 < 2 ^ (s - si)) by (apply Z.pow_pos_nonneg; lia).
    destruct k as [|k]; cbn [nth].
    - pose proof (codes_from_lt _ _ _ _ Hr). nia.
    - apply (IH r _ s Hs3 Hr); [nia|lia].
  Qed.
End CanonicalCode.

(* -------------------------------------------------- fill_c (ehufco/ehufsi) *)
Lemma fill_c_spec : forall vals codes sizes maxsym co si ct,
  Forall (fun s => s <> 0) sizes -> length co = length si ->
  fill_c vals codes sizes maxsym co si = Some ct ->
  forall m : nat,
  (nthZ si m <> 0 -> nthZ (ehufsi ct) m = nthZ si m /\ nthZ (ehufco ct) m = nthZ co m) /\
  (nthZ si m = 0 -> nthZ (ehufsi ct) m <> 0 ->
   exists k, (k < length vals)%nat /\ (k < length codes)%nat /\ (k < length sizes)%nat /\
             0 <= nth k vals 0 /\ Z.to_nat (nth k vals 0) = m /\
             nthZ (ehufsi ct) m = nth k sizes 0 /\ nthZ (ehufco ct) m = nth k codes 0).
Proof.
  unfold nthZ.
  induction vals as [|sym vt IH]; intros codes sizes maxsym co si ct Hnz Hlen H m.
  - cbn in H. inversion H; subst; cbn. split; [auto|]. intros; contradiction.
  - destruct codes as [|c ctl]; [cbn in H; inversion H; subst; cbn; split; [auto|intros; contradiction]|].
    destruct sizes as [|s stl]; [cbn in H; inversion H; subst; cbn; split; [auto|intros; contradiction]|].
    cbn [fill_c] in H. unfold nthZ in H.
    destruct ((sym <? 0) || (sym >? maxsym) || negb (nth (Z.to_nat sym) si 0 =? 0)) eqn:E; [discriminate|].
    inversion Hnz as [|? ? Hs Hnz']; subst.
    assert (Hlen' : length (upd (Z.to_nat sym) c co) = length (upd (Z.to_nat sym) s si))
      by (rewrite !upd_length; exact Hlen).
    specialize (IH _ _ _ _ _ _ Hnz' Hlen' H m).
    rewrite !nth_upd in IH. rewrite Hlen in IH.
    destruct IH as [IH1 IH2].
    destruct (Nat.eqb m (Z.to_nat sym) && Nat.ltb (Z.to_nat sym) (length si))%bool eqn:Em.
    + (* this step wrote slot m *)
      split.
      * intros Hm. exfalso. assert (m = Z.to_nat sym) by lia. subst m. lia.
      * intros _ _. exists 0%nat. cbn [length nth].
        destruct (IH1 Hs) as [A B]. repeat split; try lia; assumption.
    + split.
      * intros Hm. apply IH1. exact Hm.
      * intros Hm Hne. destruct (IH2 Hm Hne) as (k & K1 & K2 & K3 & K4 & K5 & K6 & K7).
        exists (S k). cbn [length nth]. repeat split; try lia; assumption.
Qed.

(* ------------------------------------------------ d_scan (maxcode/valoffset) *)
Lemma d_scan_length : forall bits codes p, length (d_scan bits codes p) = length bits.
Proof.
  induction bits as [|b t IH]; intros; cbn [d_scan length]; [reflexivity|].
  destruct (b =? 0); cbn [length]; now rewrite IH.
Qed.

Lemma d_scan_nth : forall bits codes p j, (j < length bits)%nat ->
  nth j (d_scan bits codes p) (0, 0) =
  let b := nth j bits 0 in
  let q := p + sumZ (firstn j bits) in
  if b =? 0 then (-1, 0)
  else (nthZ codes (Z.to_nat (q + b - 1)), q - nthZ codes (Z.to_nat q)).
Proof.
  induction bits as [|b t IH]; intros codes p j Hj; cbn [length] in Hj; [lia|].
  cbn [d_scan]. destruct j as [|j].
  - cbn [nth firstn sumZ]. rewrite Z.add_0_r.
    destruct (b =? 0); reflexivity.
  - cbn [firstn sumZ]. destruct (b =? 0) eqn:Eb; cbn [nth].
    + rewrite IH by lia. assert (b = 0) by lia. subst b.
      cbv zeta. now rewrite Z.add_0_l.
    + rewrite IH by lia. cbv zeta. now rewrite Z.add_assoc.
Qed.

(* ------------------------------------------------------ bits <-> numbers *)
Lemma b2z_testbit : forall c (m : nat), 0 <= c ->
  2 * (c / 2 ^ Z.of_nat (S m)) + b2z (Z.testbit c (Z.of_nat m)) = c / 2 ^ Z.of_nat m.
Proof.
  intros c m Hc.
  assert (Hb : b2z (Z.testbit c (Z.of_nat m)) = (c / 2 ^ Z.of_nat m) mod 2).
  { rewrite <- Z.testbit_spec' by lia. destruct (Z.testbit c (Z.of_nat m)); reflexivity. }
  rewrite Hb. rewrite Nat2Z.inj_succ, Z.pow_succ_r by lia.
  assert (0 < 2 ^ Z.of_nat m) by (apply Z.pow_pos_nonneg; lia).
  replace (c / (2 * 2 ^ Z.of_nat m)) with (c / 2 ^ Z.of_nat m / 2)
    by (rewrite Z.div_div by lia; f_equal; lia).
  pose proof (Z.div_mod (c / 2 ^ Z.of_nat m) 2 ltac:(lia)). lia.
Qed.

Lemma bits_of_length : forall s c, length (bits_of s c) = s.
Proof. induction s; intros; cbn; auto. Qed.

Lemma take_code_bits : forall j m c rest, 0 <= c ->
  take_code j (bits_of (j + m) c ++ rest) (c / 2 ^ Z.of_nat (j + m)) =
  Some (c / 2 ^ Z.of_nat m, bits_of m c ++ rest).
Proof.
  induction j as [|j IH]; intros m c rest Hc.
  - reflexivity.
  - cbn [Nat.add bits_of app take_code]. rewrite b2z_testbit by lia. apply IH; lia.
Qed.

Lemma take_code_bound : forall n bs acc, (n <= length bs)%nat ->
  exists look r, take_code n bs acc = Some (look, r) /\
                 acc * 2 ^ Z.of_nat n <= look < (acc + 1) * 2 ^ Z.of_nat n.
Proof.
  induction n as [|n IH]; intros bs acc Hn.
  - cbn. exists acc, bs. split; [reflexivity|lia].
  - destruct bs as [|b r]; cbn [length] in Hn; [lia|]. cbn [take_code].
    destruct (IH r (2 * acc + b2z b) ltac:(lia)) as (look & r' & E & Hb).
    exists look, r'. split; [exact E|].
    rewrite Nat2Z.inj_succ, Z.pow_succ_r by lia.
    assert (0 < 2 ^ Z.of_nat n) by (apply Z.pow_pos_nonneg; lia).
    destruct b; cbn [b2z] in Hb; nia.
Qed.

Lemma take_code_app : forall a b bs acc,
  take_code (a + b) bs acc =
  match take_code a bs acc with
  | Some (acc', r) => take_code b r acc'
  | None => None
  end.
Proof.
  induction a as [|a IH]; intros b bs acc; [reflexivity|].
  cbn [Nat.add take_code]. destruct bs as [|x r]; [reflexivity|]. apply IH.
Qed.

(* the F.16 loop run on the remaining m bits of a code word *)
Lemma serial_run : forall (m fuel : nat) t c l rest,
  (m <= fuel)%nat -> 0 <= c -> 0 <= l -> l + Z.of_nat m <= 16 ->
  (forall i, 0 <= i < Z.of_nat m ->
     c / 2 ^ (Z.of_nat m - i) > nthZ (maxcode t) (Z.to_nat (l + i))) ->
  c <= nthZ (maxcode t) (Z.to_nat (l + Z.of_nat m)) ->
  serial_loop fuel t (c / 2 ^ Z.of_nat m) l (bits_of m c ++ rest) =
  Some (nthZ (d_vals t) (Z.to_nat (c + nthZ (valoffset t) (Z.to_nat (l + Z.of_nat m)))), false, rest).
Proof.
  induction m as [|m IH]; intros fuel t c l rest Hf Hc Hl Hl16 Hgt Hle.
  - cbn [Z.of_nat] in *. rewrite Z.add_0_r in *. cbn [Z.pow]. rewrite Z.div_1_r.
    cbn [bits_of app].
    destruct fuel; cbn [serial_loop];
      (destruct (c >? nthZ (maxcode t) (Z.to_nat l)) eqn:E1; [lia|]);
      (destruct (l >? 16) eqn:E2; [lia|]); reflexivity.
  - destruct fuel as [|fuel]; [lia|].
    cbn [serial_loop bits_of app].
    pose proof (Hgt 0 ltac:(lia)) as H0. rewrite Z.sub_0_r, Z.add_0_r in H0.
    destruct (c / 2 ^ Z.of_nat (S m) >? nthZ (maxcode t) (Z.to_nat l)) eqn:E1; [|lia].
    rewrite b2z_testbit by lia.
    rewrite (IH fuel t c (l + 1) rest); try lia.
    + replace (l + 1 + Z.of_nat m) with (l + Z.of_nat (S m)) by lia. reflexivity.
    + intros i Hi. specialize (Hgt (i + 1) ltac:(lia)).
      replace (Z.of_nat (S m) - (i + 1)) with (Z.of_nat m - i) in Hgt by lia.
      replace (l + 1 + i) with (l + (i + 1)) by lia. exact Hgt.
    + replace (l + 1 + Z.of_nat m) with (l + Z.of_nat (S m)) by lia. exact Hle.
Qed.

(* ------------------------------- canonical code of a validated BITS list *)
Lemma gen_codes_inv : forall sizes codes,
  sorted_from 1 sizes -> gen_codes sizes = Some codes -> (0 < length sizes)%nat ->
  exists s0, 1 <= s0 /\ sorted_from s0 sizes /\ codes_from sizes 0 s0 = Some codes.
Proof.
  intros sizes codes Hs H Hl. destruct sizes as [|s0 t]; cbn [length] in Hl; [lia|].
  exists s0. destruct Hs as [H1 H2]. repeat split; try lia; assumption.
Qed.

Theorem codes_prefix : forall sizes codes,
  sorted_from 1 sizes -> gen_codes sizes = Some codes ->
  forall j k, (j < k < length sizes)%nat ->
  (nth j codes 0 + 1) * 2 ^ (nth k sizes 0 - nth j sizes 0) <= nth k codes 0.
Proof.
  intros sizes codes Hs H j k Hjk.
  destruct (gen_codes_inv _ _ Hs H ltac:(lia)) as (s0 & _ & Hs0 & Hc).
  eapply codes_from_prefix; eauto.
Qed.

Theorem codes_consecutive : forall sizes codes,
  sorted_from 1 sizes -> gen_codes sizes = Some codes ->
  forall j k, (j <= k < length sizes)%nat -> nth j sizes 0 = nth k sizes 0 ->
  nth k codes 0 = nth j codes 0 + Z.of_nat (k - j).
Proof.
  intros sizes codes Hs H j k Hjk.
  destruct (gen_codes_inv _ _ Hs H ltac:(lia)) as (s0 & _ & Hs0 & Hc).
  eapply codes_from_consecutive; eauto.
Qed.

Theorem codes_fit : forall sizes codes,
  sorted_from 1 sizes -> gen_codes sizes = Some codes ->
  forall k, (k < length sizes)%nat -> 0 <= nth k codes 0 < 2 ^ nth k sizes 0.
Proof.
  intros sizes codes Hs H k Hk.
  destruct (gen_codes_inv _ _ Hs H ltac:(lia)) as (s0 & _ & Hs0 & Hc).
  eapply codes_from_fit; eauto. lia.
Qed.

Lemma gen_codes_len : forall sizes codes,
  sorted_from 1 sizes -> gen_codes sizes = Some codes -> length codes = length sizes.
Proof.
  intros sizes codes Hs H. destruct sizes as [|s0 t].
  - cbn in H. inversion H. reflexivity.
  - destruct (gen_codes_inv _ _ Hs H ltac:(cbn; lia)) as (s1 & _ & Hs0 & Hc).
    eapply codes_from_len; eauto.
Qed.

Section Core.
  Variables (bits16 sizes codes : list Z).
  Hypothesis Hlen16 : length bits16 = 16%nat.
  Hypothesis Hsizes : huffsizes bits16 1 0 = Some sizes.
  Hypothesis Hcodes : gen_codes sizes = Some codes.

  Let mv := d_scan bits16 codes 0.
  Let mc := (0 :: map fst mv) ++ [1048575].
  Let vo := (0 :: map snd mv) ++ [0].

  Lemma level_tab : forall j, (j < 16)%nat ->
    nthZ mc (S j) = fst (nth j mv (0, 0)) /\ nthZ vo (S j) = snd (nth j mv (0, 0)).
  Proof.
    intros j Hj. unfold nthZ, mc, vo.
    assert (Hl : length mv = 16%nat) by (unfold mv; rewrite d_scan_length; exact Hlen16).
    rewrite !app_nth1 by (cbn [length]; rewrite map_length; lia).
    cbn [nth]. split.
    - change 0 with (fst (0, 0)) at 1. apply map_nth.
    - change 0 with (snd (0, 0)) at 1. apply map_nth.
  Qed.

  Lemma core : forall k, (k < length sizes)%nat ->
    let L := nth k sizes 0 in
    let c := nth k codes 0 in
    1 <= L <= 16 /\ 0 <= c < 2 ^ L /\
    (forall l, 1 <= l < L -> c / 2 ^ (L - l) > nthZ mc (Z.to_nat l)) /\
    c <= nthZ mc (Z.to_nat L) /\
    c + nthZ vo (Z.to_nat L) = Z.of_nat k.
  Proof.
    intros k Hk L c.
    pose proof (huffsizes_sorted _ _ _ _ Hsizes) as Hs.
    pose proof (sorted_from_lb _ _ Hs k Hk) as HL1.
    pose proof (huffsizes_ub _ _ _ _ Hsizes k Hk) as HL2. rewrite Hlen16 in HL2.
    pose proof (codes_fit _ _ Hs Hcodes k Hk) as Hfit.
    fold L in HL1, HL2, Hfit. fold c in Hfit.
    assert (Hlev : forall l, 1 <= l <= 16 ->
      exists b q : Z, 0 <= b /\ 0 <= q /\ q + b <= Z.of_nat (length sizes) /\
        (forall i, Z.of_nat i < q -> nth i sizes 0 < l) /\
        (forall i, q <= Z.of_nat i < q + b -> nth i sizes 0 = l) /\
        (forall i, q + b <= Z.of_nat i -> (i < length sizes)%nat -> nth i sizes 0 > l) /\
        nthZ mc (Z.to_nat l) = (if b =? 0 then -1 else nthZ codes (Z.to_nat (q + b - 1))) /\
        nthZ vo (Z.to_nat l) = (if b =? 0 then 0 else q - nthZ codes (Z.to_nat q))).
    { intros l Hl.
      assert (Hj : (Z.to_nat l - 1 < 16)%nat) by lia.
      pose proof (huffsizes_nth _ _ _ _ Hsizes (Z.to_nat l - 1)%nat ltac:(lia)) as Hn.
      cbv zeta in Hn.
      replace (1 + Z.of_nat (Z.to_nat l - 1)) with l in Hn by lia.
      destruct Hn as (N1 & N2 & N3 & N4 & N5 & N6).
      exists (nth (Z.to_nat l - 1) bits16 0), (sumZ (firstn (Z.to_nat l - 1) bits16)).
      repeat split; try assumption; try lia.
      - assert (HS : Z.to_nat l = S (Z.to_nat l - 1)) by lia. rewrite HS at 1.
        rewrite (proj1 (level_tab _ Hj)). unfold mv.
        rewrite d_scan_nth by lia. cbv zeta. rewrite Z.add_0_l.
        destruct (nth (Z.to_nat l - 1) bits16 0 =? 0); reflexivity.
      - assert (HS : Z.to_nat l = S (Z.to_nat l - 1)) by lia. rewrite HS at 1.
        rewrite (proj2 (level_tab _ Hj)). unfold mv.
        rewrite d_scan_nth by lia. cbv zeta. rewrite Z.add_0_l.
        destruct (nth (Z.to_nat l - 1) bits16 0 =? 0); reflexivity. }
    split; [lia|]. split; [exact Hfit|]. split; [|].
    - intros l Hl.
      destruct (Hlev l ltac:(lia)) as (b & q & B1 & B2 & B3 & B4 & B5 & B6 & B7 & _).
      rewrite B7. destruct (b =? 0) eqn:Eb.
      + assert (0 <= c / 2 ^ (L - l)); [|lia].
        apply Z.div_pos; [lia|]. apply Z.pow_pos_nonneg; lia.
      + set (idx := Z.to_nat (q + b - 1)).
        assert (Hidx : nth idx sizes 0 = l) by (apply B5; lia).
        assert (Hlt : (idx < k)%nat).
        { destruct (Nat.ltb idx k) eqn:E; [lia|].
          pose proof (sorted_from_mono _ _ Hs k idx ltac:(lia)). fold L in H. lia. }
        pose proof (codes_prefix _ _ Hs Hcodes idx k ltac:(lia)) as Hp.
        rewrite Hidx in Hp. fold L c in Hp. unfold nthZ.
        assert (nth idx codes 0 + 1 <= c / 2 ^ (L - l)); [|lia].
        apply Z.div_le_lower_bound; [apply Z.pow_pos_nonneg; lia|].
        rewrite Z.mul_comm. exact Hp.
    - destruct (Hlev L ltac:(lia)) as (b & q & B1 & B2 & B3 & B4 & B5 & B6 & B7 & B8).
      assert (Hq1 : q <= Z.of_nat k).
      { destruct (Z.ltb (Z.of_nat k) q) eqn:E; [|lia]. specialize (B4 k ltac:(lia)). fold L in B4. lia. }
      assert (Hq2 : Z.of_nat k < q + b).
      { destruct (Z.leb (q + b) (Z.of_nat k)) eqn:E; [|lia]. specialize (B6 k ltac:(lia) Hk). fold L in B6. lia. }
      rewrite B7, B8. replace (b =? 0) with false by lia. unfold nthZ.
      set (idx := Z.to_nat (q + b - 1)). set (iq := Z.to_nat q).
      assert (Hidx : nth idx sizes 0 = L) by (apply B5; lia).
      assert (Hiq : nth iq sizes 0 = L) by (apply B5; lia).
      pose proof (codes_consecutive _ _ Hs Hcodes k idx ltac:(lia) ltac:(fold L; lia)) as C1.
      pose proof (codes_consecutive _ _ Hs Hcodes iq k ltac:(lia) ltac:(fold L; lia)) as C2.
      fold c in C1, C2. split; lia.
  Qed.
End Core.

(* ------------------------------------------- both derived tables, unpacked *)
Lemma sorted_from_Forall : forall l lo, sorted_from lo l -> Forall (fun s => lo <= s) l.
Proof.
  induction l as [|x t IH]; intros lo H; [constructor|]. destruct H as [H1 H2].
  constructor; [exact H1|]. eapply Forall_impl; [|apply (IH x H2)]. cbn. intros; lia.
Qed.

Lemma tables_inv : forall bits vals maxsym isDC maxdc ct dt sym code,
  length bits = 17%nat ->
  make_c_derived bits vals maxsym = Some ct ->
  make_d_derived bits vals isDC maxdc = Some dt ->
  encode_sym ct sym = Some code ->
  0 <= sym ->
  exists sizes codes k,
    let bits16 := skipn 1 (firstn 17 bits) in
    let vs := firstn (length sizes) vals in
    length bits16 = 16%nat /\ huffsizes bits16 1 0 = Some sizes /\
    gen_codes sizes = Some codes /\ (k < length sizes)%nat /\
    maxcode dt = (0 :: map fst (d_scan bits16 codes 0)) ++ [1048575] /\
    valoffset dt = (0 :: map snd (d_scan bits16 codes 0)) ++ [0] /\
    lookup dt = look_fill codes sizes vs (repeat ((HUFF_LOOKAHEAD + 1) * 256) 256) /\
    d_vals dt = vs /\ (k < length vs)%nat /\ nth k vs 0 = sym /\
    code = bits_of (Z.to_nat (nth k sizes 0)) (nth k codes 0).
Proof.
  intros bits vals maxsym isDC maxdc ct dt sym code Hlen Hc Hd He Hsym.
  unfold make_c_derived in Hc. unfold make_d_derived in Hd.
  destruct (huffsizes (skipn 1 (firstn 17 bits)) 1 0) as [sizes|] eqn:Hsz; [|discriminate].
  destruct (gen_codes sizes) as [codes|] eqn:Hgc; [|discriminate].
  destruct (isDC && negb (forallb (fun s => (0 <=? s) && (s <=? maxdc)) (firstn (length sizes) vals)));
    [discriminate|].
  inversion Hd; subst dt; clear Hd. cbn [maxcode valoffset lookup d_vals].
  pose proof (huffsizes_sorted _ _ _ _ Hsz) as Hs.
  assert (Hnz : Forall (fun s => s <> 0) sizes).
  { eapply Forall_impl; [|apply (sorted_from_Forall _ _ Hs)]. cbn. intros; lia. }
  unfold encode_sym in He.
  destruct (nthZ (ehufsi ct) (Z.to_nat sym) =? 0) eqn:E0; [discriminate|].
  inversion He; subst code; clear He.
  pose proof (fill_c_spec _ _ _ _ _ _ _ Hnz eq_refl Hc (Z.to_nat sym)) as [_ Hspec].
  destruct Hspec as (k & K1 & K2 & K3 & K4 & K5 & K6 & K7).
  { unfold nthZ. rewrite nth_repeat_gen. destruct (Nat.ltb (Z.to_nat sym) 257); reflexivity. }
  { lia. }
  exists sizes, codes, k. cbv zeta.
  assert (L16 : length (skipn 1 (firstn 17 bits)) = 16%nat)
    by (rewrite skipn_length, firstn_length; lia).
  rewrite K6, K7.
  repeat split; try assumption; try reflexivity. lia.
Qed.

(* ------------------------------------------------ look-ahead table (look_fill) *)
Lemma fold_fill_length : forall cnt a base val (tab : list Z),
  length (fold_left (fun tb k => upd (Z.to_nat (base + Z.of_nat k)) val tb) (seq a cnt) tab)
  = length tab.
Proof.
  induction cnt as [|cnt IH]; intros a base val tab; cbn [seq fold_left]; [reflexivity|].
  rewrite IH. apply upd_length.
Qed.

Lemma fold_fill_nth : forall cnt a base val tab x, 0 <= base ->
  nth x (fold_left (fun tb k => upd (Z.to_nat (base + Z.of_nat k)) val tb) (seq a cnt) tab) 0 =
  if (base + Z.of_nat a <=? Z.of_nat x) && (Z.of_nat x <? base + Z.of_nat a + Z.of_nat cnt)
     && (x <? length tab)%nat
  then val else nth x tab 0.
Proof.
  induction cnt as [|cnt IH]; intros a base val tab x Hb; cbn [seq fold_left].
  - destruct ((base + Z.of_nat a <=? Z.of_nat x) && (Z.of_nat x <? base + Z.of_nat a + Z.of_nat 0)
              && (x <? length tab)%nat) eqn:E; [lia|reflexivity].
  - rewrite IH by exact Hb. rewrite upd_length, nth_upd.
    destruct ((base + Z.of_nat (S a) <=? Z.of_nat x) && (Z.of_nat x <? base + Z.of_nat (S a) + Z.of_nat cnt)
              && (x <? length tab)%nat) eqn:E1;
    destruct ((base + Z.of_nat a <=? Z.of_nat x) && (Z.of_nat x <? base + Z.of_nat a + Z.of_nat (S cnt))
              && (x <? length tab)%nat) eqn:E2;
    destruct ((x =? Z.to_nat (base + Z.of_nat a))%nat && (Z.to_nat (base + Z.of_nat a) <? length tab)%nat) eqn:E3;
    try reflexivity; lia.
Qed.

Lemma look_fill_length : forall codes sizes vals tab,
  length (look_fill codes sizes vals tab) = length tab.
Proof.
  induction codes as [|c ct IH]; intros sizes vals tab; [reflexivity|].
  destruct sizes as [|s st]; [reflexivity|]. destruct vals as [|v vt]; [reflexivity|].
  cbn [look_fill]. destruct (s <=? HUFF_LOOKAHEAD); [|reflexivity].
  rewrite IH. apply fold_fill_length.
Qed.

Definition in_range8 (c s x : Z) : Prop :=
  c * 2 ^ (8 - s) <= x < (c + 1) * 2 ^ (8 - s).

Lemma look_fill_miss : forall codes sizes vals tab x,
  (forall j, (j < length codes)%nat -> (j < length sizes)%nat -> (j < length vals)%nat ->
     nth j sizes 0 <= 8 ->
     0 <= nth j codes 0 /\ ~ in_range8 (nth j codes 0) (nth j sizes 0) (Z.of_nat x)) ->
  nth x (look_fill codes sizes vals tab) 0 = nth x tab 0.
Proof.
  induction codes as [|c ct IH]; intros sizes vals tab x H; [reflexivity|].
  destruct sizes as [|s st]; [reflexivity|]. destruct vals as [|v vt]; [reflexivity|].
  cbn [look_fill]. unfold HUFF_LOOKAHEAD. destruct (s <=? 8) eqn:Es; [|reflexivity].
  rewrite IH.
  - destruct (H 0%nat ltac:(cbn; lia) ltac:(cbn; lia) ltac:(cbn; lia) ltac:(cbn; lia)) as [H0 H1].
    cbn [nth] in H0, H1. unfold in_range8 in H1.
    assert (0 < 2 ^ (8 - s)) by (apply Z.pow_pos_nonneg; lia).
    rewrite fold_fill_nth by nia.
    rewrite Z2Nat.id by lia.
    destruct ((c * 2 ^ (8 - s) + Z.of_nat 0 <=? Z.of_nat x)
              && (Z.of_nat x <? c * 2 ^ (8 - s) + Z.of_nat 0 + 2 ^ (8 - s))
              && (x <? length tab)%nat) eqn:E; [exfalso; apply H1; lia|reflexivity].
  - intros j J1 J2 J3 J4.
    apply (H (S j)); cbn [length nth]; first [lia | exact J4].
Qed.

Lemma look_fill_hit : forall codes sizes vals tab k x,
  (k < length codes)%nat -> (k < length sizes)%nat -> (k < length vals)%nat ->
  (forall j, (j <= k)%nat -> nth j sizes 0 <= 8 /\ 0 <= nth j codes 0) ->
  in_range8 (nth k codes 0) (nth k sizes 0) (Z.of_nat x) ->
  (x < length tab)%nat ->
  (forall j, (k < j)%nat -> (j < length codes)%nat -> (j < length sizes)%nat ->
     nth j sizes 0 <= 8 ->
     0 <= nth j codes 0 /\ ~ in_range8 (nth j codes 0) (nth j sizes 0) (Z.of_nat x)) ->
  nth x (look_fill codes sizes vals tab) 0 = nth k sizes 0 * 256 + nth k vals 0.
Proof.
  induction codes as [|c ct IH]; intros sizes vals tab k x K1 K2 K3 Hle Hin Hx Hlater;
    cbn [length] in K1; [lia|].
  destruct sizes as [|s st]; cbn [length] in K2; [lia|].
  destruct vals as [|v vt]; cbn [length] in K3; [lia|].
  cbn [look_fill]. unfold HUFF_LOOKAHEAD.
  destruct (Hle 0%nat ltac:(lia)) as [Hs0 Hc0]. cbn [nth] in Hs0, Hc0.
  destruct (s <=? 8) eqn:Es; [|lia].
  assert (Hp : 0 < 2 ^ (8 - s)) by (apply Z.pow_pos_nonneg; lia).
  destruct k as [|k].
  - cbn [nth] in *. rewrite look_fill_miss.
    + rewrite fold_fill_nth by nia. rewrite Z2Nat.id by lia. unfold in_range8 in Hin.
      destruct ((c * 2 ^ (8 - s) + Z.of_nat 0 <=? Z.of_nat x)
                && (Z.of_nat x <? c * 2 ^ (8 - s) + Z.of_nat 0 + 2 ^ (8 - s))
                && (x <? length tab)%nat) eqn:E; [reflexivity|lia].
    + intros j J1 J2 J3 J4. apply (Hlater (S j)); cbn [length nth]; first [lia | exact J4].
  - cbn [nth]. apply IH; try lia.
    + intros j Hj. apply (Hle (S j)). lia.
    + exact Hin.
    + rewrite fold_fill_length. exact Hx.
    + intros j J0 J1 J2 J4. apply (Hlater (S j)); cbn [length nth]; first [lia | exact J4].
Qed.

Lemma div256 : forall a b, 0 <= b < 256 ->
  (a * 256 + b) / 256 = a /\ (a * 256 + b) mod 256 = b.
Proof. intros a b H. Z.div_mod_to_equations. lia. Qed.

Lemma skipn_bits_of : forall s c rest, skipn s (bits_of s c ++ rest) = rest.
Proof. induction s; intros; cbn; auto. Qed.

(* ------------------------------------------ decoding one code word, any path *)
Section Decode.
  Variables (bits16 sizes codes vs : list Z) (dt : dtbl) (k : nat) (rest : list bool).
  Hypothesis Hlen16 : length bits16 = 16%nat.
  Hypothesis Hsizes : huffsizes bits16 1 0 = Some sizes.
  Hypothesis Hcodes : gen_codes sizes = Some codes.
  Hypothesis Hk : (k < length sizes)%nat.
  Hypothesis Hkv : (k < length vs)%nat.
  Hypothesis Tmc : maxcode dt = (0 :: map fst (d_scan bits16 codes 0)) ++ [1048575].
  Hypothesis Tvo : valoffset dt = (0 :: map snd (d_scan bits16 codes 0)) ++ [0].
  Hypothesis Tlk : lookup dt = look_fill codes sizes vs (repeat ((HUFF_LOOKAHEAD + 1) * 256) 256).
  Hypothesis Tdv : d_vals dt = vs.

  Let L := nth k sizes 0.
  Let c := nth k codes 0.
  Let sym := nth k vs 0.
  Let word := bits_of (Z.to_nat L) c.

  Lemma decode_serial_min : forall mb : nat, (1 <= mb)%nat -> Z.of_nat mb <= L ->
    decode_serial dt mb (word ++ rest) = Some (sym, false, rest).
  Proof.
    intros mb Hmb1 HmbL.
    pose proof (core _ _ _ Hlen16 Hsizes Hcodes k Hk) as Hcore. cbv zeta in Hcore.
    rewrite <- Tmc, <- Tvo in Hcore. fold L c in Hcore.
    destruct Hcore as (HL & Hfit & Hgt & Hle & Hvo).
    unfold decode_serial, word.
    assert (HLn : Z.to_nat L = (mb + (Z.to_nat L - mb))%nat) by lia.
    rewrite HLn.
    pose proof (take_code_bits mb (Z.to_nat L - mb) c rest ltac:(lia)) as Ht.
    rewrite <- HLn in Ht at 2. rewrite Z2Nat.id in Ht by lia.
    rewrite (Z.div_small c (2 ^ L)) in Ht by lia.
    rewrite Ht.
    assert (Hm : Z.of_nat (Z.to_nat L - mb) = L - Z.of_nat mb) by lia.
    rewrite (serial_run (Z.to_nat L - mb) 20 dt c (Z.of_nat mb) rest); try lia.
    - rewrite Hm. replace (Z.of_nat mb + (L - Z.of_nat mb)) with L by lia.
      rewrite Hvo. rewrite Nat2Z.id. rewrite Tdv. reflexivity.
    - intros i Hi. rewrite Hm.
      replace (L - Z.of_nat mb - i) with (L - (Z.of_nat mb + i)) by lia.
      apply Hgt. lia.
    - rewrite Hm. replace (Z.of_nat mb + (L - Z.of_nat mb)) with L by lia. exact Hle.
  Qed.

  Lemma decode_lookahead_word : 0 <= sym <= 255 ->
    decode_lookahead dt (word ++ rest) = Some (sym, false, rest).
  Proof.
    intros Hsym.
    pose proof (core _ _ _ Hlen16 Hsizes Hcodes k Hk) as Hcore. cbv zeta in Hcore.
    fold L c in Hcore. destruct Hcore as (HL & Hfit & _).
    pose proof (huffsizes_sorted _ _ _ _ Hsizes) as Hs.
    pose proof (gen_codes_len _ _ Hs Hcodes) as Hcl.
    unfold decode_lookahead.
    destruct (8 <=? length (word ++ rest))%nat eqn:E8;
      [|apply decode_serial_min; lia].
    rewrite app_length in E8. unfold word in E8. rewrite bits_of_length in E8.
    destruct (L <=? 8) eqn:EL.
    - (* table hit *)
      replace (take_code 8 (word ++ rest) 0)
        with (take_code (Z.to_nat L + (8 - Z.to_nat L)) (word ++ rest) 0) by (f_equal; lia).
      rewrite take_code_app. unfold word.
      pose proof (take_code_bits (Z.to_nat L) 0 c rest ltac:(lia)) as Ht.
      rewrite Nat.add_0_r, Z2Nat.id in Ht by lia.
      rewrite (Z.div_small c (2 ^ L)) in Ht by lia.
      cbn [bits_of app Z.of_nat Z.pow] in Ht. rewrite Z.div_1_r in Ht. rewrite Ht.
      destruct (take_code_bound (8 - Z.to_nat L) rest c ltac:(lia)) as (look & r & Hlook & Hb).
      rewrite Hlook.
      replace (Z.of_nat (8 - Z.to_nat L)) with (8 - L) in Hb by lia.
      assert (Hp : 0 < 2 ^ (8 - L)) by (apply Z.pow_pos_nonneg; lia).
      assert (Hpp : 2 ^ L * 2 ^ (8 - L) = 256)
        by (rewrite <- Z.pow_add_r by lia; replace (L + (8 - L)) with 8 by lia; reflexivity).
      assert (Hlk : nthZ (lookup dt) (Z.to_nat look) = L * 256 + sym).
      { rewrite Tlk. unfold nthZ. apply look_fill_hit; try lia.
        - intros j Hj. split.
          + pose proof (sorted_from_mono _ _ Hs j k ltac:(lia)). fold L in H. lia.
          + apply (codes_fit _ _ Hs Hcodes j). lia.
        - unfold in_range8. fold L c. rewrite Z2Nat.id by nia. exact Hb.
        - rewrite repeat_length. nia.
        - intros j J0 J1 J2 J3. split; [apply (codes_fit _ _ Hs Hcodes j); lia|].
          unfold in_range8. rewrite Z2Nat.id by nia.
          pose proof (codes_prefix _ _ Hs Hcodes k j ltac:(lia)) as Hp3. fold L c in Hp3.
          pose proof (sorted_from_mono _ _ Hs k j ltac:(lia)) as Hm. fold L in Hm.
          assert (Hq : 0 < 2 ^ (8 - nth j sizes 0)) by (apply Z.pow_pos_nonneg; lia).
          assert (Hsplit : 2 ^ (8 - L) = 2 ^ (nth j sizes 0 - L) * 2 ^ (8 - nth j sizes 0))
            by (rewrite <- Z.pow_add_r by lia; f_equal; lia).
          intros [R1 R2].
          assert ((c + 1) * 2 ^ (8 - L) <= nth j codes 0 * 2 ^ (8 - nth j sizes 0)); [|lia].
          rewrite Hsplit. rewrite Z.mul_assoc. apply Z.mul_le_mono_nonneg_r; lia. }
      rewrite Hlk. unfold HUFF_LOOKAHEAD.
      cbv zeta. destruct (div256 L sym ltac:(lia)) as [D1 D2]. rewrite D1, D2.
      rewrite EL. rewrite skipn_bits_of. reflexivity.
    - (* table miss: slow path with 9 bits *)
      assert (HLn : Z.to_nat L = (8 + (Z.to_nat L - 8))%nat) by lia.
      unfold word. rewrite HLn.
      pose proof (take_code_bits 8 (Z.to_nat L - 8) c rest ltac:(lia)) as Ht.
      rewrite <- HLn in Ht at 2. rewrite Z2Nat.id in Ht by lia.
      rewrite (Z.div_small c (2 ^ L)) in Ht by lia.
      rewrite Ht. rewrite <- HLn.
      replace (Z.of_nat (Z.to_nat L - 8)) with (L - 8) by lia.
      assert (Hp : 0 < 2 ^ (L - 8)) by (apply Z.pow_pos_nonneg; lia).
      assert (Hlook : 0 <= c / 2 ^ (L - 8) < 256).
      { split; [apply Z.div_pos; lia|].
        apply Z.div_lt_upper_bound; [lia|].
        replace (2 ^ (L - 8) * 256) with (2 ^ L); [lia|].
        change 256 with (2 ^ 8). rewrite <- Z.pow_add_r by lia. f_equal; lia. }
      assert (Hlk : nthZ (lookup dt) (Z.to_nat (c / 2 ^ (L - 8))) = (HUFF_LOOKAHEAD + 1) * 256).
      { rewrite Tlk. unfold nthZ. rewrite look_fill_miss.
        - rewrite nth_repeat_gen.
          destruct (Nat.ltb (Z.to_nat (c / 2 ^ (L - 8))) 256) eqn:E; [reflexivity|lia].
        - intros j J1 J2 J3 J4. split; [apply (codes_fit _ _ Hs Hcodes j); lia|].
          unfold in_range8. rewrite Z2Nat.id by lia.
          assert (Hjk : (j < k)%nat).
          { destruct (Nat.ltb j k) eqn:E; [lia|].
            pose proof (sorted_from_mono _ _ Hs k j ltac:(lia)) as Hm. fold L in Hm. lia. }
          pose proof (codes_prefix _ _ Hs Hcodes j k ltac:(lia)) as Hp3. fold L c in Hp3.
          pose proof (sorted_from_lb _ _ Hs j J2) as Hj1.
          assert (Hsplit : 2 ^ (L - nth j sizes 0) = 2 ^ (L - 8) * 2 ^ (8 - nth j sizes 0))
            by (rewrite <- Z.pow_add_r by lia; f_equal; lia).
          intros [R1 R2].
          assert ((nth j codes 0 + 1) * 2 ^ (8 - nth j sizes 0) <= c / 2 ^ (L - 8)); [|lia].
          apply Z.div_le_lower_bound; [lia|].
          rewrite Hsplit in Hp3. lia. }
      rewrite Hlk. unfold HUFF_LOOKAHEAD.
      replace ((8 + 1) * 256 / 256 <=? 8) with false by reflexivity.
      apply (decode_serial_min 9); lia.
  Qed.
End Decode.

(* ----------------------------------------------------------- main theorems *)
Theorem c_d_tables_inverse_nonneg :
  forall bits vals maxsym isDC maxdc ct dt sym code rest,
  length bits = 17%nat ->
  make_c_derived bits vals maxsym = Some ct ->
  make_d_derived bits vals isDC maxdc = Some dt ->
  encode_sym ct sym = Some code ->
  0 <= sym ->
  decode_serial dt 1 (code ++ rest) = Some (sym, false, rest).
Proof.
  intros bits vals maxsym isDC maxdc ct dt sym code rest Hlen Hc Hd He Hsym.
  destruct (tables_inv _ _ _ _ _ _ _ _ _ Hlen Hc Hd He Hsym)
    as (sizes & codes & k & T). cbv zeta in T.
  destruct T as (L16 & Hsz & Hgc & Hk & Tmc & Tvo & Tlk & Tdv & Hkv & <- & ->).
  pose proof (core _ _ _ L16 Hsz Hgc k Hk) as Hcore. cbv zeta in Hcore.
  eapply decode_serial_min; eauto; lia.
Qed.

Theorem c_d_tables_inverse :
  forall bits vals maxsym isDC maxdc ct dt sym code rest,
  length bits = 17%nat ->
  make_c_derived bits vals maxsym = Some ct ->
  make_d_derived bits vals isDC maxdc = Some dt ->
  encode_sym ct sym = Some code ->
  0 <= sym <= 255 ->
  decode_serial dt 1 (code ++ rest) = Some (sym, false, rest).
Proof. intros; eapply c_d_tables_inverse_nonneg; eauto; lia. Qed.

(* the HUFF_DECODE look-ahead path gives the same answer, for every length of
   the following bit string (>= 8 bits available: table hit or 9-bit slow path;
   < 8 bits available: slow path from 1 bit) *)
Theorem lookahead_eq_serial :
  forall bits vals maxsym isDC maxdc ct dt sym code rest,
  length bits = 17%nat ->
  make_c_derived bits vals maxsym = Some ct ->
  make_d_derived bits vals isDC maxdc = Some dt ->
  encode_sym ct sym = Some code ->
  0 <= sym <= 255 ->
  decode_lookahead dt (code ++ rest) = Some (sym, false, rest).
Proof.
  intros bits vals maxsym isDC maxdc ct dt sym code rest Hlen Hc Hd He Hsym.
  destruct (tables_inv _ _ _ _ _ _ _ _ _ Hlen Hc Hd He ltac:(lia))
    as (sizes & codes & k & T). cbv zeta in T.
  destruct T as (L16 & Hsz & Hgc & Hk & Tmc & Tvo & Tlk & Tdv & Hkv & <- & ->).
  eapply decode_lookahead_word; eauto.
Qed.

(* ------------------------------------------------------------ non-vacuity *)
(* the four tables of jstdhuff.c pass both validators (maxsymbol 15 / 255 as in
   jpeg_make_c_derived_tbl, DC symbols <= 15 as in jpeg_make_d_derived_tbl) *)
Example std_tables_accepted :
  forallb (fun t : bool * list Z * list Z => match t with
           | (isDC, b, v) =>
               (length b =? 17)%nat &&
               match make_c_derived b v (if isDC then 15 else 255), make_d_derived b v isDC 15 with
               | Some _, Some _ => true
               | _, _ => false
               end
           end) std_tables = true.
Proof. vm_compute. reflexivity. Qed.

(* every symbol of the four standard tables has a code word *)
Example std_tables_all_symbols_coded :
  forallb (fun t : bool * list Z * list Z => match t with
           | (isDC, b, v) =>
               match make_c_derived b v (if isDC then 15 else 255) with
               | Some ct => forallb (fun s => match encode_sym ct s with Some _ => true | None => false end) v
               | None => false
               end
           end) std_tables = true.
Proof. vm_compute. reflexivity. Qed.

(* the hypotheses of the theorems are satisfiable: ZRL (0xF0) in the standard
   luminance AC table has the 11-bit code 11111111001 *)
Example c_d_tables_inverse_hyps_sat :
  exists ct dt code,
    length std_bits_ac_luminance = 17%nat /\
    make_c_derived std_bits_ac_luminance std_val_ac_luminance 255 = Some ct /\
    make_d_derived std_bits_ac_luminance std_val_ac_luminance false 15 = Some dt /\
    encode_sym ct 240 = Some code /\
    0 <= 240 <= 255 /\
    code = [true; true; true; true; true; true; true; true; false; false; true].
Proof.
  destruct (make_c_derived std_bits_ac_luminance std_val_ac_luminance 255) as [ct|] eqn:Ec;
    [|vm_compute in Ec; discriminate].
  destruct (make_d_derived std_bits_ac_luminance std_val_ac_luminance false 15) as [dt|] eqn:Ed;
    [|vm_compute in Ed; discriminate].
  exists ct, dt, [true; true; true; true; true; true; true; true; false; false; true].
  repeat split; try reflexivity; try lia.
  vm_compute in Ec. inversion Ec; subst ct. vm_compute. reflexivity.
Qed.

(* ... and the theorems then give the decoding, on both paths, for any tail *)
Example zrl_decodes : forall dt rest,
  make_d_derived std_bits_ac_luminance std_val_ac_luminance false 15 = Some dt ->
  let code := [true; true; true; true; true; true; true; true; false; false; true] in
  decode_serial dt 1 (code ++ rest) = Some (240, false, rest) /\
  decode_lookahead dt (code ++ rest) = Some (240, false, rest).
Proof.
  intros dt rest Hd code.
  destruct c_d_tables_inverse_hyps_sat as (ct & dt' & code' & H1 & H2 & H3 & H4 & H5 & H6).
  rewrite Hd in H3. inversion H3; subst dt' code'. fold code in H4.
  split.
  - eapply c_d_tables_inverse; eauto.
  - eapply lookahead_eq_serial; eauto.
Qed.

(* a short code word (length <= 8: table hit) as well: symbol 1 = code 00 *)
Example short_code_decodes : forall ct dt code rest,
  make_c_derived std_bits_ac_luminance std_val_ac_luminance 255 = Some ct ->
  make_d_derived std_bits_ac_luminance std_val_ac_luminance false 15 = Some dt ->
  encode_sym ct 1 = Some code ->
  code = [false; false] /\
  decode_lookahead dt (code ++ rest) = Some (1, false, rest).
Proof.
  intros ct dt code rest Hc Hd He. split.
  - vm_compute in Hc. inversion Hc; subst ct. vm_compute in He. inversion He. reflexivity.
  - eapply lookahead_eq_serial; eauto; [reflexivity|lia].
Qed.
