(* The bit-level round trip instantiated with the REAL Huffman machinery of
   model/Huff.v (jpeg_make_c_derived_tbl / jpeg_make_d_derived_tbl / HUFF_DECODE
   look-ahead path), using C19's inverse theorem. *)
From Coq Require Import List ZArith Lia Bool.
From LJT Require Import model.Huff proofs.HuffCodeProofs model.Lossless proofs.LosslessProofs proofs.LosslessBitsProofs.
Import ListNotations.
Local Open Scope Z_scope.

Definition huff_code (cts : Z -> ctbl) (tbl s : Z) : list bool :=
  match encode_sym (cts tbl) s with Some c => c | None => [] end.
Definition huff_dec (dts : Z -> dtbl) (tbl : Z) (bs : list bool) : option (Z * list bool) :=
  match decode_lookahead (dts tbl) bs with
  | Some (s, false, rest) => Some (s, rest)
  | _ => None
  end.

Section RealHuffman.
  (* per table index: (bits, huffval) accepted by both derived-table builders
     in lossless mode (DC table, symbols 0..16), every category has a code *)
  Variable tabs : Z -> list Z * list Z.
  Variable cts : Z -> ctbl.
  Variable dts : Z -> dtbl.
  Hypothesis Hlen : forall t, length (fst (tabs t)) = 17%nat.
  Hypothesis Hc : forall t, make_c_derived (fst (tabs t)) (snd (tabs t)) 16 = Some (cts t).
  Hypothesis Hd : forall t, make_d_derived (fst (tabs t)) (snd (tabs t)) true 16 = Some (dts t).
  Hypothesis Hall : forall t s, 0 <= s <= 16 -> encode_sym (cts t) s <> None.

  Lemma huff_dec_code t s rest : 0 <= s <= 16 ->
    huff_dec dts t (huff_code cts t s ++ rest) = Some (s, rest).
  Proof.
    intros Hs. unfold huff_dec, huff_code. destruct (encode_sym (cts t) s) as [c|] eqn:E.
    - rewrite (lookahead_eq_serial _ _ _ _ _ _ _ _ _ rest (Hlen t) (Hc t) (Hd t) E) by lia. reflexivity.
    - exfalso. exact (Hall t s Hs E).
  Qed.

  Theorem real_huffman_mcu_row tbls w rows rest :
    length rows = length tbls -> Forall (fun r => length r = w) rows ->
    decode_mcu_row (huff_dec dts) tbls w (encode_mcu_row (huff_code cts) tbls w rows ++ rest)
    = Some (map (map canon_diff) rows, rest).
  Proof. apply decode_encode_mcu_row. exact huff_dec_code. Qed.
End RealHuffman.

(* non-vacuity: seventeen 5-bit codes for the categories 0..16 *)
Definition ex_bits : list Z := [0; 0; 0; 0; 0; 17; 0; 0; 0; 0; 0; 0; 0; 0; 0; 0; 0].
Definition ex_vals : list Z := [0; 1; 2; 3; 4; 5; 6; 7; 8; 9; 10; 11; 12; 13; 14; 15; 16].
Lemma ex_table_ok :
  length ex_bits = 17%nat /\
  (exists ct dt, make_c_derived ex_bits ex_vals 16 = Some ct /\ make_d_derived ex_bits ex_vals true 16 = Some dt /\
     forallb (fun s => match encode_sym ct s with Some _ => true | None => false end) ex_vals = true).
Proof.
  split; [reflexivity|].
  destruct (make_c_derived ex_bits ex_vals 16) as [ct|] eqn:E1; [|vm_compute in E1; discriminate].
  destruct (make_d_derived ex_bits ex_vals true 16) as [dt|] eqn:E2; [|vm_compute in E2; discriminate].
  exists ct, dt. repeat split. vm_compute in E1. injection E1 as <-. vm_compute. reflexivity.
Qed.

(* ------------------------------------------------------------ byte level *)
From LJT Require Import model.LosslessBytes proofs.LosslessBytesProofs.

Lemma bits_of_same : forall n v, Huff.bits_of n v = Lossless.bits_of n v.
Proof.
  induction n as [|n IH]; intros v; [reflexivity|]. cbn [Huff.bits_of Lossless.bits_of].
  rewrite IH, Z.testbit_odd. reflexivity.
Qed.

Section RealHuffmanBytes.
  Variable tabs : Z -> list Z * list Z.
  Variable cts : Z -> ctbl.
  Variable dts : Z -> dtbl.
  Hypothesis Hlen : forall t, length (fst (tabs t)) = 17%nat.
  Hypothesis Hc : forall t, make_c_derived (fst (tabs t)) (snd (tabs t)) 16 = Some (cts t).
  Hypothesis Hd : forall t, make_d_derived (fst (tabs t)) (snd (tabs t)) true 16 = Some (dts t).
  Hypothesis Hsz : forall t, sizes_ok (cts t).

  Lemma ct_code_huff t s : 0 <= s <= 16 -> ct_code cts t s = huff_code cts t s.
  Proof.
    intros Hs. unfold ct_code, huff_code, encode_sym. pose proof (Hsz t s Hs) as H.
    destruct (nthZ (ehufsi (cts t)) (Z.to_nat s) =? 0) eqn:E; [lia|]. symmetry. apply bits_of_same.
  Qed.

  Lemma huff_dec_ct_code t s rest : 0 <= s <= 16 ->
    huff_dec dts t (ct_code cts t s ++ rest) = Some (s, rest).
  Proof.
    intros Hs. rewrite ct_code_huff by assumption.
    apply (huff_dec_code tabs cts dts Hlen Hc Hd); [|assumption].
    intros t0 s0 Hs0. unfold encode_sym. pose proof (Hsz t0 s0 Hs0).
    destruct (nthZ (ehufsi (cts t0)) (Z.to_nat s0) =? 0) eqn:E; [lia|discriminate].
  Qed.

  Theorem real_huffman_scan_bytes ri mpr R ivs m tail :
    (1 <= mpr)%nat -> (ri = 0 \/ ((1 <= R)%nat /\ ri = Z.of_nat (R * mpr))) ->
    ivs_ok ri mpr R ivs -> m <> 0 -> m <> 255 ->
    exists bytes, enc_total cts ri (0, 0) (ri, 0) (concat ivs) = Some bytes /\
      dec_intervals (huff_dec dts) (map tblseq ivs) 0 (bytes ++ 255 :: m :: tail)
      = Some (map canon_iv ivs, Some (m, tail)).
  Proof.
    intros Hm HR Hok Hm0 Hm255.
    apply (scan_bytes_roundtrip cts Hsz ri mpr R Hm HR (huff_dec dts) huff_dec_ct_code); assumption.
  Qed.
End RealHuffmanBytes.

Lemma ex_table_sizes_ok : exists ct, make_c_derived ex_bits ex_vals 16 = Some ct /\ sizes_ok ct.
Proof.
  destruct (make_c_derived ex_bits ex_vals 16) as [ct|] eqn:E1; [|vm_compute in E1; discriminate].
  exists ct. split; [reflexivity|]. vm_compute in E1. injection E1 as <-.
  intros s Hs. assert (H : In s [0;1;2;3;4;5;6;7;8;9;10;11;12;13;14;15;16]) by (cbn; lia).
  cbn in H. repeat (destruct H as [<-|H]; [vm_compute; split; discriminate|]). destruct H.
Qed.

(* non-vacuity of the byte-level theorem: two restart intervals of one MCU row
   (2 MCUs of one 16-bit component), differences that need stuffing *)
Definition ex_ct : ctbl :=
  match make_c_derived ex_bits ex_vals 16 with Some c => c | None => {| ehufco := []; ehufsi := [] |} end.
Definition ex_ivs : list (list (list (list (Z * Z)))) :=
  [[[[(0, -32768)]; [(0, 65535)]]]; [[[(0, -1)]; [(0, 255)]]]].
Lemma ex_ivs_bytes :
  ivs_ok 2 2 1 ex_ivs /\
  enc_total (fun _ => ex_ct) 2 (0, 0) (2, 0) (concat ex_ivs) = Some [128; 95; 255; 208; 9; 31; 255; 0].
Proof.
  split; [|vm_compute; reflexivity]. cbn. unfold rows_ok_b. repeat split; try lia; repeat constructor.
Qed.

(* ------------------------------------------- lazy reader, rows, end to end *)
From LJT Require Import model.LosslessLazy proofs.LosslessScanProofs proofs.LosslessLazyProofs.

Section RealHuffmanEndToEnd.
  Variable tabs : Z -> list Z * list Z.
  Variable cts : Z -> ctbl.
  Variable dts : Z -> dtbl.
  Hypothesis Hlen : forall t, length (fst (tabs t)) = 17%nat.
  Hypothesis Hc : forall t, make_c_derived (fst (tabs t)) (snd (tabs t)) 16 = Some (cts t).
  Hypothesis Hd : forall t, make_d_derived (fst (tabs t)) (snd (tabs t)) true 16 = Some (dts t).
  Hypothesis Hsz : forall t, sizes_ok (cts t).

  Theorem real_samples_bytes_samples ri w R tbls psv prec pt mrows m tail :
    (1 <= w)%nat -> (ri = 0 \/ ((1 <= R)%nat /\ ri = Z.of_nat (R * w))) -> ri < 4294967296 ->
    2 <= prec <= 16 -> 1 <= psv <= 7 -> 0 <= pt < prec ->
    mrows_ok prec (length tbls) w mrows -> (1 <= length mrows)%nat -> m <> 0 -> m <> 255 ->
    exists bytes, encode_scan_e2e cts (length tbls) ri psv prec pt tbls w mrows = Some bytes /\
      exists st' pad,
        decode_scan_e2e (huff_dec dts) (length tbls) ri psv prec pt tbls w (length mrows) (bytes ++ 255 :: m :: tail)
        = Some (map (map (map (clear_low pt))) mrows, st') /\ wf st' pad m tail.
  Proof.
    intros Hw HR H32. apply (samples_bytes_samples cts Hsz (huff_dec dts)
      (huff_dec_ct_code tabs cts dts Hlen Hc Hd Hsz) ri w R Hw HR H32 tbls).
  Qed.

  (* the lazy row-by-row reader and the whole-segment reader agree on what the encoder writes *)
  Theorem real_lazy_vs_segment ri w R tbls ivs raws m tail :
    (1 <= w)%nat -> (ri = 0 \/ ((1 <= R)%nat /\ ri = Z.of_nat (R * w))) -> ri < 4294967296 ->
    Forall2 (seg_ok cts) ivs raws -> ivs_ok ri w R ivs -> ivs_tbls_ok w tbls ivs -> m <> 0 -> m <> 255 ->
    dec_intervals (huff_dec dts) (map tblseq ivs) 0 (join raws 0 ++ 255 :: m :: tail)
      = Some (map canon_iv ivs, Some (m, tail)) /\
    exists rows fin pad,
      dec_rows_lazy (huff_dec dts) ri (Z.of_nat w) tbls w (length (concat ivs))
        {| br_buf := []; br_inp := join raws 0 ++ 255 :: m :: tail; br_marker := None; br_insuf := false |}
        (ri / Z.of_nat w) 0 = Some (rows, fin) /\
      map snd rows = map (deint w tbls) (concat ivs) /\ wf (fst (fst fin)) pad m tail.
  Proof.
    intros Hw HR H32 F2 Hok Htb Hm0 Hm255. split.
    - apply (dec_intervals_join cts Hsz ri w R Hw HR (huff_dec dts) (huff_dec_ct_code tabs cts dts Hlen Hc Hd Hsz)); try assumption; try lia.
      destruct ivs; [destruct Hok|discriminate].
    - apply (lazy_scan cts Hsz (huff_dec dts) (huff_dec_ct_code tabs cts dts Hlen Hc Hd Hsz) ri w R Hw HR H32 tbls); assumption.
  Qed.
End RealHuffmanEndToEnd.
