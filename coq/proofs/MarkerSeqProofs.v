(* MarkerSeqProofs.v -- C16: for EVERY sequence of well-formed table / misc markers (COM/APPn, DRI, DQT, DHT, SOFn, in
   any order, repeated, overriding one another) the state of the marker reader after reading their serialisation
   is the abstract header record the sequence denotes (apply_markers). *)
From Coq Require Import List ZArith Bool Lia ZifyBool.
From LJT Require Import lib.Sweep gen.GenIccConst model.MarkerRT model.MarkerSeq
  proofs.C16Consts proofs.IccProofs proofs.MarkerProofs.
Import ListNotations.
Local Open Scope Z_scope.
Ltac Zify.zify_post_hook ::= Z.div_mod_to_equations.

(* ------------------------------------------------------------- COM / APPn *)
Lemma process_app_exact c code data h acc rest :
  is_app_or_com code = true -> Zlength data <= WRITE_MARKER_MAX_DATALEN -> 0 <= c code ->
  process_app c code h acc (emit_2bytes (Zlength data + 2) ++ map byte_of data ++ rest)
  = Some (examine code h (fst (app_seen c code data)) (snd (app_seen c code data)), acc ++ app_keep c code data, rest).
Proof.
  intros Hc Hl Hlim. unfold process_app, app_seen, app_keep.
  pose proof (Zlength_nonneg' data) as Hn. unfold WRITE_MARKER_MAX_DATALEN in Hl.
  assert (Hsk : skipn (Z.to_nat (Zlength data)) (map byte_of data ++ rest) = rest).
  { replace (Z.to_nat (Zlength data)) with (length (map byte_of data)) by (rewrite map_length, Zlength_correct; lia).
    apply skipn_app_exact. }
  assert (Hlt : (Zlength (map byte_of data ++ rest) <? Zlength data) = false).
  { apply Z.ltb_ge. rewrite Zlength_app', Zlength_map'. pose proof (Zlength_nonneg' rest). lia. }
  destruct (c code =? 0) eqn:E0.
  - unfold skip_or_examine. rewrite get_emit_2bytes by lia.
    replace (Zlength data + 2 - 2) with (Zlength data) by lia. rewrite Hlt, Hsk.
    destruct ((code =? M_APP0) || (code =? M_APP14)) eqn:EA; cbn [fst snd].
    + rewrite app_nil_r. f_equal. f_equal. f_equal. f_equal.
      set (n := if APPN_DATA_LEN <=? Zlength data then APPN_DATA_LEN else if 0 <? Zlength data then Zlength data else 0).
      assert (Hn2 : 0 <= n <= Zlength data).
      { unfold n, APPN_DATA_LEN. destruct (14 <=? Zlength data) eqn:E1; [apply Z.leb_le in E1; lia|].
        destruct (0 <? Zlength data) eqn:E2; lia. }
      apply firstn_app_le. rewrite map_length. rewrite Zlength_correct in Hn2. lia.
    + rewrite app_nil_r. f_equal. f_equal. f_equal.
      unfold examine. apply orb_false_iff in EA as (A0 & A14). rewrite A0, A14. reflexivity.
  - unfold save_marker. rewrite get_emit_2bytes by lia.
    replace (Zlength data + 2 - 2) with (Zlength data) by lia.
    replace (0 <=? Zlength data) with true by (symmetry; apply Z.leb_le; lia). rewrite Hlt, Hsk.
    rewrite (byte_of_id code) by (apply app_or_com_byte; assumption). cbn [fst snd].
    assert (El : (if Zlength data <? c code then Zlength data else c code) = Z.min (Zlength data) (c code)).
    { destruct (Zlength data <? c code) eqn:E; [apply Z.ltb_lt in E | apply Z.ltb_ge in E]; lia. }
    rewrite El. rewrite firstn_app_le by (rewrite map_length; rewrite Zlength_correct in *; lia). reflexivity.
Qed.

(* ------------------------------------------------------------------- DQT *)
Definition wf_q (t : qtable) : Prop :=
  0 <= q_prec t < 16 /\ 0 <= q_n t < NUM_QUANT_TBLS /\ length (q_zz t) = Z.to_nat DCTSIZE2 /\
  Forall (fun q => 0 <= q < (if q_prec t =? 0 then 256 else 65536)) (q_zz t).

Lemma read_entries_emit prec zz rest : Forall (fun q => 0 <= q < (if prec =? 0 then 256 else 65536)) zz ->
  read_entries (length zz) (negb (prec =? 0))
    (flat_map (fun q => if prec =? 0 then [byte_of q] else [byte_of (q / 256); byte_of q]) zz ++ rest) = Some (zz, rest).
Proof.
  induction 1 as [|q zz Hq HF IH]; [reflexivity|]. cbn [length flat_map read_entries].
  destruct (prec =? 0) eqn:P; cbn [negb app] in *.
  - rewrite IH. unfold byte_of. rewrite Z.mod_small by lia. reflexivity.
  - rewrite IH. unfold byte_of. f_equal. f_equal. f_equal. lia.
Qed.

Lemma qt_bytes_len t : wf_q t -> Zlength (qt_bytes t) = DCTSIZE2 + 1 + (if q_prec t =? 0 then 0 else DCTSIZE2).
Proof.
  intros (_ & _ & L & _). unfold qt_bytes. rewrite Zlength_cons, Zlength_correct.
  assert (E : forall l, length (flat_map (fun q => if q_prec t =? 0 then [byte_of q] else [byte_of (q / 256); byte_of q]) l)
                        = ((if (q_prec t =? 0)%Z then 1 else 2) * length l)%nat).
  { induction l as [|x l IHl]; cbn [flat_map length]; [lia|]. rewrite app_length, IHl. destruct (q_prec t =? 0); cbn [length]; lia. }
  rewrite E, L. unfold DCTSIZE2. destruct (q_prec t =? 0); lia.
Qed.

Lemma get_dqt_loop_emit ts : Forall wf_q ts -> forall fuel qt rest, (length ts <= fuel)%nat ->
  get_dqt_loop fuel (Zlength (flat_map qt_bytes ts)) qt (flat_map qt_bytes ts ++ rest) = Some (fold_left apply_qt ts qt, rest).
Proof.
  induction 1 as [|t ts Ht HF IH]; intros fuel qt rest Hf.
  - cbn [flat_map fold_left app]. rewrite Zlength_nil. destruct fuel; reflexivity.
  - destruct fuel as [|f]; [cbn in Hf; lia|]. cbn [flat_map fold_left]. rewrite Zlength_app', <- app_assoc.
    pose proof (qt_bytes_len t Ht) as Lt. pose proof (Zlength_nonneg' (flat_map qt_bytes ts)) as Ln.
    destruct Ht as (Hp & Hn & Hl & Hv).
    cbn [get_dqt_loop]. replace (Zlength (qt_bytes t) + Zlength (flat_map qt_bytes ts) <=? 0) with false
      by (symmetry; apply Z.leb_gt; rewrite Lt; unfold DCTSIZE2; destruct (q_prec t =? 0); lia).
    set (L1 := Zlength (qt_bytes t)) in *. set (tl := flat_map qt_bytes ts) in *. unfold qt_bytes. cbn [app].
    assert (Hb : byte_of (q_prec t * 16 + q_n t) = q_prec t * 16 + q_n t) by (apply byte_of_id; unfold is_byte, NUM_QUANT_TBLS in *; lia).
    rewrite Hb. unfold NUM_QUANT_TBLS in Hn.
    replace ((q_prec t * 16 + q_n t) / 16) with (q_prec t) by lia.
    replace ((q_prec t * 16 + q_n t) mod 16) with (q_n t) by lia.
    replace (NUM_QUANT_TBLS <=? q_n t) with false by (symmetry; apply Z.leb_gt; unfold NUM_QUANT_TBLS; lia).
    rewrite <- Hl. rewrite (read_entries_emit (q_prec t) (q_zz t) _ Hv).
    replace (L1 + Zlength tl - (DCTSIZE2 + 1) - (if q_prec t =? 0 then 0 else DCTSIZE2))
      with (Zlength tl) by (rewrite Lt; lia).
    apply IH. cbn [length] in Hf. lia.
Qed.

Lemma dqt_roundtrip ts qt rest : Forall wf_q ts -> Zlength (flat_map qt_bytes ts) + 2 < 65536 ->
  get_dqt qt (emit_2bytes (Zlength (flat_map qt_bytes ts) + 2) ++ flat_map qt_bytes ts ++ rest) = Some (fold_left apply_qt ts qt, rest).
Proof.
  intros HF Hl. unfold get_dqt. pose proof (Zlength_nonneg' (flat_map qt_bytes ts)).
  rewrite get_emit_2bytes by lia. replace (Zlength (flat_map qt_bytes ts) + 2 - 2) with (Zlength (flat_map qt_bytes ts)) by lia.
  apply get_dqt_loop_emit; [assumption|].
  (* each table has at least 65 bytes *)
  assert (B : Z.of_nat (length ts) <= Zlength (flat_map qt_bytes ts)).
  { clear - HF. induction HF as [|t ts Ht HF IH]; [rewrite Zlength_nil; cbn; lia|].
    cbn [flat_map length]. rewrite Zlength_app', (qt_bytes_len t Ht). unfold DCTSIZE2. destruct (q_prec t =? 0); lia. }
  lia.
Qed.

(* ------------------------------------------------------------------- DHT *)
Definition wf_h (t : htable) : Prop :=
  ((0 <= ht_index t < NUM_HUFF_TBLS) \/ (16 <= ht_index t < 16 + NUM_HUFF_TBLS)) /\
  length (ht_bits t) = 16%nat /\ Forall is_byte (ht_bits t) /\ sumz (ht_bits t) <= 256 /\
  Z.of_nat (length (ht_vals t)) = sumz (ht_bits t) /\ Forall is_byte (ht_vals t).

Lemma read_bytes_exact l rest : read_bytes (length l) (l ++ rest) = Some (l, rest).
Proof. induction l as [|x l IH]; [reflexivity|]. cbn [length app read_bytes]. rewrite IH. reflexivity. Qed.

Lemma ht_bytes_len t : wf_h t -> Zlength (ht_bytes t) = 17 + sumz (ht_bits t).
Proof.
  intros (_ & Lb & _ & _ & Lv & _). unfold ht_bytes. rewrite Zlength_cons, Zlength_app', !Zlength_map', !Zlength_correct, Lb. lia.
Qed.

Lemma get_dht_loop_emit ts : Forall wf_h ts -> forall fuel dc ac rest, (length ts <= fuel)%nat ->
  get_dht_loop fuel (Zlength (flat_map ht_bytes ts)) dc ac (flat_map ht_bytes ts ++ rest)
  = Some (fst (fold_left apply_ht ts (dc, ac)), snd (fold_left apply_ht ts (dc, ac)), rest).
Proof.
  induction 1 as [|t ts Ht HF IH]; intros fuel dc ac rest Hf.
  - cbn [flat_map fold_left app fst snd]. rewrite Zlength_nil. destruct fuel; reflexivity.
  - destruct fuel as [|f]; [cbn in Hf; lia|]. cbn [flat_map fold_left]. rewrite Zlength_app', <- app_assoc.
    pose proof (ht_bytes_len t Ht) as Lt. pose proof (Zlength_nonneg' (flat_map ht_bytes ts)) as Ln.
    destruct Ht as (Hi & Lb & Hb & Hs & Lv & Hv).
    assert (Hs0 : 0 <= sumz (ht_bits t)) by lia.
    cbn [get_dht_loop]. replace (Zlength (ht_bytes t) + Zlength (flat_map ht_bytes ts) <=? 16) with false
      by (symmetry; apply Z.leb_gt; lia).
    set (L1 := Zlength (ht_bytes t)) in *. set (tl := flat_map ht_bytes ts) in *. unfold ht_bytes. cbn [app]. rewrite <- app_assoc.
    rewrite (map_byte_of_id _ Hb), (map_byte_of_id _ Hv).
    assert (Hib : byte_of (ht_index t) = ht_index t) by (apply byte_of_id; unfold is_byte, NUM_HUFF_TBLS in *; lia).
    rewrite Hib. rewrite <- Lb at 1. rewrite read_bytes_exact.
    replace ((256 <? sumz (ht_bits t)) || (L1 + Zlength tl - (1 + 16) <? sumz (ht_bits t))) with false.
    2:{ symmetry. apply orb_false_iff. split; [apply Z.ltb_ge; lia | apply Z.ltb_ge; lia]. }
    replace (Z.to_nat (sumz (ht_bits t))) with (length (ht_vals t)) by lia. rewrite read_bytes_exact.
    replace (L1 + Zlength tl - (1 + 16) - sumz (ht_bits t)) with (Zlength tl) by lia.
    unfold NUM_HUFF_TBLS in *.
    destruct Hi as [Hi|Hi].
    + replace (16 <=? ht_index t mod 32) with false by (symmetry; apply Z.leb_gt; lia).
      replace ((ht_index t <? 0) || (4 <=? ht_index t)) with false by (symmetry; apply orb_false_iff; split; [apply Z.ltb_ge | apply Z.leb_gt]; lia).
      assert (Ea : apply_ht (dc, ac) t = (slot_set dc (ht_index t) (ht_bits t, ht_vals t), ac)).
      { unfold apply_ht. cbn [fst snd]. replace (16 <=? ht_index t) with false by (symmetry; apply Z.leb_gt; lia). reflexivity. }
      rewrite Ea. apply IH. cbn [length] in Hf. lia.
    + replace (16 <=? ht_index t mod 32) with true by (symmetry; apply Z.leb_le; lia).
      replace ((ht_index t - 16 <? 0) || (4 <=? ht_index t - 16)) with false by (symmetry; apply orb_false_iff; split; [apply Z.ltb_ge | apply Z.leb_gt]; lia).
      assert (Ea : apply_ht (dc, ac) t = (dc, slot_set ac (ht_index t - 16) (ht_bits t, ht_vals t))).
      { unfold apply_ht. cbn [fst snd]. replace (16 <=? ht_index t) with true by (symmetry; apply Z.leb_le; lia). reflexivity. }
      rewrite Ea. apply IH. cbn [length] in Hf. lia.
Qed.

Lemma dht_roundtrip ts dc ac rest : Forall wf_h ts -> Zlength (flat_map ht_bytes ts) + 2 < 65536 ->
  get_dht dc ac (emit_2bytes (Zlength (flat_map ht_bytes ts) + 2) ++ flat_map ht_bytes ts ++ rest)
  = Some (fst (fold_left apply_ht ts (dc, ac)), snd (fold_left apply_ht ts (dc, ac)), rest).
Proof.
  intros HF Hl. unfold get_dht. pose proof (Zlength_nonneg' (flat_map ht_bytes ts)).
  rewrite get_emit_2bytes by lia. replace (Zlength (flat_map ht_bytes ts) + 2 - 2) with (Zlength (flat_map ht_bytes ts)) by lia.
  apply get_dht_loop_emit; [assumption|].
  assert (B : Z.of_nat (length ts) <= Zlength (flat_map ht_bytes ts)).
  { clear - HF. induction HF as [|t ts Ht HF IH]; [rewrite Zlength_nil; cbn; lia|].
    cbn [flat_map length]. rewrite Zlength_app', (ht_bytes_len t Ht). destruct Ht as (_ & _ & _ & _ & Lv & _). lia. }
  lia.
Qed.

(* ------------------------------------------------------------------- DAC *)
Definition wf_dac (iv : Z * Z) : Prop :=
  0 <= fst iv < 2 * NUM_ARITH_TBLS /\ is_byte (snd iv) /\ (fst iv < NUM_ARITH_TBLS -> snd iv mod 16 <= snd iv / 16).
Definition dac_bytes (pairs : list (Z * Z)) : list Z := flat_map (fun iv => [byte_of (fst iv); byte_of (snd iv)]) pairs.
Definition dac_apply (d : Z -> Z) (iv : Z * Z) : Z -> Z := fun k => if k =? fst iv then snd iv else d k.

Lemma get_dac_loop_emit pairs : Forall wf_dac pairs -> forall fuel dac rest, (length pairs <= fuel)%nat ->
  get_dac_loop fuel (Zlength (dac_bytes pairs)) dac (dac_bytes pairs ++ rest) = Some (fold_left dac_apply pairs dac, rest).
Proof.
  induction 1 as [|iv pairs (Hi & Hv & Hlu) HF IH]; intros fuel dac rest Hf.
  - cbn [dac_bytes flat_map fold_left app]. rewrite Zlength_nil. destruct fuel; reflexivity.
  - destruct fuel as [|f]; [cbn in Hf; lia|]. unfold dac_bytes in *. cbn [flat_map fold_left app].
    rewrite !Zlength_cons. pose proof (Zlength_nonneg' (flat_map (fun iv0 => [byte_of (fst iv0); byte_of (snd iv0)]) pairs)) as Ln.
    cbn [get_dac_loop]. replace (Z.succ (Z.succ (Zlength (flat_map (fun iv0 => [byte_of (fst iv0); byte_of (snd iv0)]) pairs))) <=? 0) with false by (symmetry; apply Z.leb_gt; lia).
    unfold NUM_ARITH_TBLS in *. rewrite (byte_of_id (fst iv)) by (unfold is_byte; lia). rewrite (byte_of_id (snd iv)) by assumption.
    replace ((fst iv <? 0) || (2 * 16 <=? fst iv)) with false by (symmetry; apply orb_false_iff; split; [apply Z.ltb_ge | apply Z.leb_gt]; lia).
    replace ((fst iv <? 16) && (snd iv / 16 <? snd iv mod 16)) with false.
    2:{ symmetry. destruct (fst iv <? 16) eqn:E; [|reflexivity]. apply Z.ltb_lt in E. specialize (Hlu E). cbn [andb]. apply Z.ltb_ge. assumption. }
    replace (Z.succ (Z.succ (Zlength (flat_map (fun iv0 => [byte_of (fst iv0); byte_of (snd iv0)]) pairs))) - 2)
      with (Zlength (flat_map (fun iv0 => [byte_of (fst iv0); byte_of (snd iv0)]) pairs)) by lia.
    apply IH. cbn [length] in Hf. lia.
Qed.

(* ---------------------------------------------------- one marker, then all *)
Definition wf_marker (c : cfg) (m : amarker) : Prop :=
  match m with
  | AApp code data => is_app_or_com code = true /\ Zlength data <= WRITE_MARKER_MAX_DATALEN
  | ADri ri => 0 <= ri < 65536
  | ADqt ts => Forall wf_q ts /\ Zlength (flat_map qt_bytes ts) + 2 < 65536
  | ADht ts => Forall wf_h ts /\ Zlength (flat_map ht_bytes ts) + 2 < 65536
  | ASof code f => frame_ok f /\ sof_flags code <> None
  | ADac pairs => Forall wf_dac pairs /\ Zlength (dac_bytes pairs) + 2 < 65536
  | ADnl data => Zlength data <= WRITE_MARKER_MAX_DATALEN
  end.

Lemma sof_code_props code : sof_flags code <> None ->
  is_byte code /\ is_app_or_com code = false /\ (code =? M_DRI) = false /\ (code =? M_DQT) = false /\ (code =? M_DHT) = false /\ (code =? M_DAC) = false /\ (code =? M_DNL) = false /\
  (((M_RST0 <=? code) && (code <=? M_RST7)) || (code =? M_TEM)) = false /\ ends_run code = false.
Proof.
  unfold sof_flags. intros H.
  destruct ((code =? M_SOF0) || (code =? M_SOF1)) eqn:E0.
  { apply orb_true_iff in E0 as [E|E]; apply Z.eqb_eq in E; subst; repeat split; try reflexivity; vm_compute; congruence. }
  destruct (code =? M_SOF2) eqn:E2; [apply Z.eqb_eq in E2; subst; repeat split; try reflexivity; vm_compute; congruence|].
  destruct (code =? M_SOF3) eqn:E3; [apply Z.eqb_eq in E3; subst; repeat split; try reflexivity; vm_compute; congruence|].
  destruct (code =? M_SOF9) eqn:E9; [apply Z.eqb_eq in E9; subst; repeat split; try reflexivity; vm_compute; congruence|].
  destruct (code =? M_SOF10) eqn:E10; [apply Z.eqb_eq in E10; subst; repeat split; try reflexivity; vm_compute; congruence|].
  destruct (code =? M_SOF11) eqn:E11; [apply Z.eqb_eq in E11; subst; repeat split; try reflexivity; vm_compute; congruence|].
  congruence.
Qed.

(* reading the serialisation of one marker = applying it to the abstract record (also when both fail:
   a second SOFn) *)
Lemma marker_step_emit c st m rest : (forall k, 0 <= c k) -> wf_marker c m ->
  exists code body, emit_amarker m = Some (emit_marker code ++ body) /\ is_byte code /\ ends_run code = false /\
    marker_step c st code (body ++ rest) = match apply_marker c st m with Some st' => Some (st', rest) | None => None end.
Proof.
  intros Hc W. destruct m as [code data|ri|ts|ts|code f|pairs|data]; cbn [wf_marker] in W.
  - destruct W as (A & L). exists code. eexists. cbn [emit_amarker]. rewrite write_marker_ok by assumption.
    split; [reflexivity|]. split; [apply app_or_com_byte; assumption|].
    split.
    { unfold ends_run. unfold is_app_or_com, M_COM, M_APP0, M_APP15 in A. unfold M_SOS, M_EOI.
      apply orb_false_iff. split; apply Z.eqb_neq; intros ->; cbn in A; discriminate. }
    unfold marker_step. rewrite A. rewrite <- app_assoc, (process_app_exact c code data _ _ rest A L (Hc code)).
    cbn [apply_marker]. destruct (app_seen c code data) as [seen n]. reflexivity.
  - exists M_DRI. eexists. cbn [emit_amarker]. unfold emit_dri. split; [reflexivity|].
    split; [unfold is_byte, M_DRI; lia|]. split; [reflexivity|].
    unfold marker_step. change (is_app_or_com M_DRI) with false. cbn iota. rewrite Z.eqb_refl.
    unfold get_dri. rewrite <- app_assoc, get_emit_2bytes by lia. cbn [Z.eqb Pos.eqb negb].
    rewrite get_emit_2bytes by assumption. reflexivity.
  - destruct W as (HF & L). exists M_DQT. eexists. cbn [emit_amarker]. split; [reflexivity|].
    split; [unfold is_byte, M_DQT; lia|]. split; [reflexivity|].
    unfold marker_step. change (is_app_or_com M_DQT) with false. change (M_DQT =? M_DRI) with false. cbn iota. rewrite Z.eqb_refl.
    rewrite <- app_assoc, (dqt_roundtrip ts _ rest HF L). reflexivity.
  - destruct W as (HF & L). exists M_DHT. eexists. cbn [emit_amarker]. split; [reflexivity|].
    split; [unfold is_byte, M_DHT; lia|]. split; [reflexivity|].
    unfold marker_step. change (is_app_or_com M_DHT) with false. change (M_DHT =? M_DRI) with false.
    change (M_DHT =? M_DQT) with false. cbn iota. rewrite Z.eqb_refl.
    rewrite <- app_assoc, (dht_roundtrip ts _ _ rest HF L). cbn [apply_marker]. reflexivity.
  - destruct W as (Fo & Sf). destruct (sof_code_props code Sf) as (B & A & D1 & D2 & D3 & D4 & D5 & D6 & En).
    destruct (sof_roundtrip code f Fo) as (body & E & R). exists code, body. cbn [emit_amarker].
    split; [exact E|]. split; [assumption|]. split; [assumption|].
    unfold marker_step. rewrite A, D1, D2, D3, D4, D5, D6. destruct (sof_flags code); [|congruence].
    cbn [apply_marker]. destruct (r_frame st); [reflexivity|]. rewrite R. reflexivity.
  - destruct W as (HF & L). exists M_DAC. eexists. cbn [emit_amarker]. fold (dac_bytes pairs). split; [reflexivity|].
    split; [unfold is_byte, M_DAC; lia|]. split; [reflexivity|].
    unfold marker_step. change (is_app_or_com M_DAC) with false. change (M_DAC =? M_DRI) with false.
    change (M_DAC =? M_DQT) with false. change (M_DAC =? M_DHT) with false. cbn iota. rewrite Z.eqb_refl.
    unfold get_dac. pose proof (Zlength_nonneg' (dac_bytes pairs)).
    rewrite <- app_assoc, get_emit_2bytes by lia. replace (Zlength (dac_bytes pairs) + 2 - 2) with (Zlength (dac_bytes pairs)) by lia.
    rewrite get_dac_loop_emit; [reflexivity | assumption |].
    assert (B : 2 * Z.of_nat (length pairs) = Zlength (dac_bytes pairs)).
    { clear. unfold dac_bytes. induction pairs as [|iv r IH]; [reflexivity|]. cbn [flat_map length app]. rewrite !Zlength_cons. lia. }
    lia.
  - exists M_DNL. eexists. cbn [emit_amarker]. rewrite write_marker_ok by assumption. split; [reflexivity|].
    split; [unfold is_byte, M_DNL; lia|]. split; [reflexivity|].
    unfold marker_step. change (is_app_or_com M_DNL) with false. change (M_DNL =? M_DRI) with false.
    change (M_DNL =? M_DQT) with false. change (M_DNL =? M_DHT) with false. change (M_DNL =? M_DAC) with false. cbn iota. rewrite Z.eqb_refl.
    pose proof (Zlength_nonneg' data). unfold WRITE_MARKER_MAX_DATALEN in W.
    rewrite <- app_assoc, get_emit_2bytes by lia. replace (Zlength data + 2 - 2) with (Zlength data) by lia.
    replace (Zlength (map byte_of data ++ rest) <? Zlength data) with false.
    2:{ symmetry. apply Z.ltb_ge. rewrite Zlength_app', Zlength_map'. pose proof (Zlength_nonneg' rest). lia. }
    replace (Z.to_nat (Zlength data)) with (length (map byte_of data)) by (rewrite map_length, Zlength_correct; lia).
    rewrite skipn_app_exact. reflexivity.
Qed.

Definition run_ends (rest : list Z) : Prop :=
  exists code r, next_marker rest = Some (code, r) /\ ends_run code = true.

(* (5, all sequences) the reader state after ANY sequence of well-formed markers is the abstract record; the
   two fail together (a second SOFn) *)
Theorem marker_sequence_refines c ms : (forall k, 0 <= c k) -> Forall (wf_marker c) ms ->
  forall rest, run_ends rest ->
  exists bytes, emit_amarkers ms = Some bytes /\
    forall fuel st, (length ms < fuel)%nat ->
      read_marker_seq fuel c st (bytes ++ rest)
      = match apply_markers c st ms with Some st' => Some (st', rest) | None => None end.
Proof.
  intros Hc HF rest (ecode & er & En & Ee). induction HF as [|m ms Wm HF IH].
  - exists []. split; [reflexivity|]. intros fuel st Hf. destruct fuel; [cbn in Hf; lia|].
    cbn [app read_marker_seq apply_markers]. rewrite En, Ee. reflexivity.
  - destruct IH as (bytes & Eb & IH).
    destruct (marker_step_emit c rstate_init m rest Hc Wm) as (code & body & Em & Bc0 & _).
    cbn [emit_amarkers]. rewrite Em, Eb. eexists. split; [reflexivity|].
    intros fuel st Hf. destruct fuel; [cbn in Hf; lia|]. cbn [length] in Hf.
    destruct (marker_step_emit c st m (bytes ++ rest) Hc Wm) as (code' & body' & Em' & Bc & Ne & Step).
    rewrite Em in Em'. injection Em' as Eq. unfold emit_marker in Eq. cbn [app] in Eq. inversion Eq as [[Ecode Ebody]].
    rewrite (byte_of_id _ Bc0), (byte_of_id _ Bc) in Ecode. subst code' body'.
    cbn [read_marker_seq]. rewrite <- !app_assoc. rewrite next_marker_emit by assumption. rewrite Ne.
    rewrite Step. cbn [apply_markers]. destruct (apply_marker c st m) as [st'|]; [|reflexivity].
    apply IH. lia.
Qed.

(* overriding: the restart interval in force is that of the LAST DRI; a table slot holds the LAST definition *)
Corollary last_dri_wins c st ms ri : apply_markers c st (ms ++ [ADri ri]) <> None ->
  exists st', apply_markers c st (ms ++ [ADri ri]) = Some st' /\ h_restart (r_h st') = ri.
Proof.
  revert st. induction ms as [|m ms IH]; intros st H.
  - cbn in *. eexists. split; reflexivity.
  - cbn [app apply_markers] in *. destruct (apply_marker c st m); [apply IH; assumption | congruence].
Qed.
Corollary last_dqt_wins c st ms t : apply_markers c st (ms ++ [ADqt [t]]) <> None ->
  exists st', apply_markers c st (ms ++ [ADqt [t]]) = Some st' /\ r_qt st' (q_n t) = Some (to_natural (q_zz t)).
Proof.
  revert st. induction ms as [|m ms IH]; intros st H.
  - cbn in *. eexists. split; [reflexivity|]. cbn. unfold apply_qt, slot_set. rewrite Z.eqb_refl. reflexivity.
  - cbn [app apply_markers] in *. destruct (apply_marker c st m); [apply IH; assumption | congruence].
Qed.

(* emit_dqt writes what get_dqt reads back into the same slot (8- and 16-bit tables) *)
Theorem emit_dqt_roundtrip index natural qt rest : 0 <= index < NUM_QUANT_TBLS -> length natural = Z.to_nat DCTSIZE2 ->
  Forall (fun q => 0 <= q < 65536) natural ->
  exists body, emit_dqt index natural = emit_marker M_DQT ++ body /\
    exists qt', get_dqt qt (body ++ rest) = Some (qt', rest) /\ qt' index = Some (to_natural (to_zigzag natural)) /\
      forall j, j <> index -> qt' j = qt j.
Proof.
  intros Hi Hl Hv. unfold emit_dqt. eexists. split; [reflexivity|].
  set (prec := dqt_prec natural).
  assert (Hp : prec = 0 \/ prec = 1) by (unfold prec, dqt_prec; destruct (existsb _ natural); auto).
  set (t := mkQ prec index (to_zigzag natural)).
  assert (Hzz : Forall (fun q => 0 <= q < 65536) (to_zigzag natural)).
  { unfold to_zigzag. apply Forall_forall. intros x Hx. apply in_map_iff in Hx as (k & <- & _). unfold nthz.
    destruct (nth_in_or_default (Z.to_nat k) natural 0) as [Hin | ->]; [|lia]. rewrite Forall_forall in Hv. apply Hv. assumption. }
  assert (Wt : wf_q t).
  { unfold wf_q, t. cbn [q_prec q_n q_zz]. split; [destruct Hp; lia|]. split; [assumption|]. split; [unfold to_zigzag; rewrite map_length; reflexivity|].
    destruct (prec =? 0) eqn:P; [|assumption]. apply Z.eqb_eq in P.
    unfold to_zigzag. apply Forall_forall. intros x Hx. apply in_map_iff in Hx as (k & <- & _). unfold nthz.
    destruct (nth_in_or_default (Z.to_nat k) natural 0) as [Hin | ->]; [|lia].
    unfold prec, dqt_prec in P. destruct (existsb (fun q => 255 <? q) natural) eqn:Ex; [discriminate|].
    assert (Hn : (255 <? nth (Z.to_nat k) natural 0) = false).
    { destruct (255 <? nth (Z.to_nat k) natural 0) eqn:Q; [|reflexivity]. exfalso.
      assert (existsb (fun q => 255 <? q) natural = true) by (apply existsb_exists; eexists; split; eassumption). congruence. }
    apply Z.ltb_ge in Hn. rewrite Forall_forall in Hv. specialize (Hv _ Hin). lia. }
  pose proof (qt_bytes_len t Wt) as Lt. change (q_prec t) with prec in Lt.
  assert (Eb : [byte_of (index + prec * 16)] ++ flat_map (fun q => if prec =? 0 then [byte_of q] else [byte_of (q / 256); byte_of q]) (to_zigzag natural)
               = flat_map qt_bytes [t]).
  { cbn [flat_map]. rewrite app_nil_r. unfold qt_bytes, t. cbn [q_prec q_n q_zz app]. f_equal. f_equal. lia. }
  rewrite <- !app_assoc. rewrite (app_assoc [byte_of _]). rewrite Eb.
  assert (El : (if prec =? 0 then DCTSIZE2 + 1 + 2 else DCTSIZE2 * 2 + 1 + 2) = Zlength (flat_map qt_bytes [t]) + 2).
  { cbn [flat_map]. rewrite app_nil_r, Lt. unfold DCTSIZE2. destruct (prec =? 0); lia. }
  rewrite El. rewrite (dqt_roundtrip [t] qt rest).
  - eexists. split; [reflexivity|]. cbn [fold_left]. unfold apply_qt, slot_set, t. cbn [q_n q_zz]. split.
    + rewrite Z.eqb_refl. reflexivity.
    + intros j Hj. destruct (j =? index) eqn:E; [apply Z.eqb_eq in E; congruence | reflexivity].
  - constructor; [assumption | constructor].
  - rewrite <- El. unfold DCTSIZE2. destruct (prec =? 0); lia.
Qed.

(* the zigzag permutation read from jutils.c is undone by the reader: natural -> zigzag -> natural is the identity *)
Lemma natural_zigzag_id l : length l = Z.to_nat DCTSIZE2 -> to_natural (to_zigzag l) = l.
Proof.
  intros H. change (Z.to_nat DCTSIZE2) with 64%nat in H.
  do 64 (destruct l as [|? l]; [discriminate H|]). destruct l; [|discriminate H]. reflexivity.
Qed.
Corollary emit_dqt_reads_back index natural qt rest : 0 <= index < NUM_QUANT_TBLS -> length natural = Z.to_nat DCTSIZE2 ->
  Forall (fun q => 0 <= q < 65536) natural ->
  exists body qt', emit_dqt index natural = emit_marker M_DQT ++ body /\ get_dqt qt (body ++ rest) = Some (qt', rest) /\
    qt' index = Some natural /\ forall j, j <> index -> qt' j = qt j.
Proof.
  intros Hi Hl Hv. destruct (emit_dqt_roundtrip index natural qt rest Hi Hl Hv) as (body & E & qt' & G & S & O).
  exists body, qt'. rewrite (natural_zigzag_id natural Hl) in S. auto.
Qed.
