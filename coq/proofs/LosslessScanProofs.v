(* A whole scan of n components (model/Lossless.v enc_scan_rows / dec_scan_rows):
   per-component predictor state and restart counters in the compressor, one
   shared restart counter in the decompressor. *)
From Coq Require Import List ZArith Lia Bool ZifyBool.
From LJT Require Import model.Huff model.Lossless proofs.LosslessProofs.
Import ListNotations.
Local Open Scope Z_scope.

Lemma map_const_repeat {A B} (b : B) (x : A) n : map (fun _ => b) (repeat x n) = repeat b n.
Proof. induction n; cbn; [reflexivity|rewrite IHn; reflexivity]. Qed.
Lemma map_repeat' {A B} (f : A -> B) (x : A) n : map f (repeat x n) = repeat (f x) n.
Proof. induction n; cbn; [reflexivity|rewrite IHn; reflexivity]. Qed.

(* one MCU row: every component undifferences to its own (scaled) row *)
Lemma dec_enc_mrow psv prec pt st : forall k prevs curs ds,
  length prevs = k -> length curs = k -> Forall (Forall in16) curs ->
  (fst st = false -> Forall2 (fun p c => (length c <= length p)%nat) prevs curs) ->
  Forall2 (Forall2 eqm16) ds (enc_mrow psv prec pt (repeat st k) prevs curs) ->
  dec_mrow psv prec pt (repeat (fst st) k) prevs ds = curs.
Proof.
  induction k as [|k IH]; intros prevs curs ds Hp Hc Hin Hl H.
  - destruct curs; [|discriminate]. cbn in H. inversion H. reflexivity.
  - destruct prevs as [|p prevs]; [discriminate|]. destruct curs as [|c curs]; [discriminate|].
    cbn [repeat enc_mrow] in H. inversion H as [|d x dt xt Hd Ht]; subst.
    inversion Hin; subst. cbn [repeat dec_mrow]. f_equal.
    + apply undiff_diff_row_gen; [assumption| |exact Hd].
      intros Hf. specialize (Hl Hf). inversion Hl; subst. assumption.
    + apply IH; try assumption; cbn in *; try lia.
      intros Hf. specialize (Hl Hf). inversion Hl; subst. assumption.
Qed.

Lemma all_len_le (w : nat) : forall prevs curs : list (list Z),
  Forall (fun p => length p = w) prevs -> Forall (fun c => length c = w) curs ->
  length prevs = length curs -> Forall2 (fun p c => (length c <= length p)%nat) prevs curs.
Proof.
  induction prevs as [|p ps IHp]; intros [|c cs] Hp Hc Hl; cbn in Hl; try discriminate; constructor.
  - inversion Hp; inversion Hc; subst. lia.
  - inversion Hp; inversion Hc; subst. apply IHp; auto.
Qed.

Definition mrows_ok (prec : Z) (n w : nat) (mrows : list (list (list Z))) : Prop :=
  Forall (fun mr => length mr = n /\ Forall (fun r => length r = w /\ Forall (in_prec prec) r) mr) mrows.

Lemma dec_scan_restart_step ri mpr (sd : lstate) n :
  let restart := negb (ri =? 0) && (snd sd =? 0) in
  (if restart then map (fun _ : bool => true) (repeat (fst sd) n) else repeat (fst sd) n)
    = repeat (fst (dec_before_row ri mpr sd)) n /\
  (if ri =? 0 then (if restart then ri / mpr else snd sd)
   else u32 ((if restart then ri / mpr else snd sd) - 1)) = snd (dec_before_row ri mpr sd).
Proof.
  cbv zeta. unfold dec_before_row.
  destruct (negb (ri =? 0) && (snd sd =? 0)) eqn:E; destruct (ri =? 0) eqn:E0; cbn [fst snd];
    rewrite ?map_const_repeat; split; reflexivity.
Qed.

Lemma dec_enc_scan ri mpr psv prec pt w n :
  2 <= prec <= 16 -> 0 <= pt < prec -> restart_ok ri mpr ->
  forall mrows se sd prevs ds,
  mrows_ok prec n w mrows ->
  states_agree ri mpr se sd ->
  length prevs = n ->
  (fst se = false -> Forall (fun p => length p = w) prevs) ->
  Forall2 (Forall2 (Forall2 eqm16)) ds (enc_scan_rows ri mpr psv prec pt (repeat se n) prevs mrows) ->
  dec_scan_rows ri mpr psv prec pt (repeat (fst sd) n) (snd sd) prevs ds
  = map (map (map (clear_low pt))) mrows.
Proof.
  intros Hp Hpt Hr. induction mrows as [|mr t IH]; intros se sd prevs ds Hok Ha Hlen Hprev H.
  - cbn [enc_scan_rows] in H. inversion H. reflexivity.
  - revert Hlen Hprev.
    cbn [enc_scan_rows] in H. inversion H as [|d x dt xt Hd Ht]; subst. clear H.
    inversion Hok as [|? ? [Hn Hmr] Hrest]; subst.
    intros Hlen Hprev.
    destruct (states_agree_step ri mpr psv se sd Hr Ha) as [Hf Ha'].
    cbn [dec_scan_rows].
    destruct (dec_scan_restart_step ri mpr sd (length mr)) as [E1 E2]. cbv zeta in E1, E2.
    rewrite E1, E2. rewrite Hf. rewrite Hf in Ha'.
    set (curs := map (scale_down (bits_of_prec prec) pt) mr) in *.
    assert (Hcin : Forall (Forall in16) curs).
    { unfold curs. rewrite Forall_forall. intros c Hc. apply in_map_iff in Hc. destruct Hc as [r [<- Hr']].
      rewrite Forall_forall in Hmr. destruct (Hmr r Hr') as [_ Hs].
      destruct (scale_down_spec prec pt r Hp Hpt Hs) as [_ Hrange].
      eapply Forall_impl; [|exact Hrange]. intros a. apply in_prec_in16; assumption. }
    assert (Hclen : Forall (fun c => length c = w) curs).
    { unfold curs. rewrite Forall_forall. intros c Hc. apply in_map_iff in Hc. destruct Hc as [r [<- Hr']].
      rewrite scale_down_length. rewrite Forall_forall in Hmr. destruct (Hmr r Hr') as [Hl _]. exact Hl. }
    assert (Hu : dec_mrow psv prec pt (repeat (fst se) (length mr)) prevs d = curs).
    { apply dec_enc_mrow; try assumption.
      - unfold curs. rewrite map_length. reflexivity.
      - intros Hfe. specialize (Hprev Hfe).
        assert (Hl2 : length prevs = length curs) by (unfold curs; rewrite map_length; exact Hlen).
        apply (all_len_le w); assumption. }
    rewrite Hu. cbn [map]. f_equal.
    + unfold curs. rewrite map_map. apply map_ext_in. intros r Hr'.
      rewrite Forall_forall in Hmr. destruct (Hmr r Hr') as [_ Hs]. apply scale_up_down; assumption.
    + rewrite map_repeat'. rewrite map_repeat' in Ht.
      apply (IH (enc_after_row ri mpr psv se)
                (after_first_row (fst se) psv, snd (dec_before_row ri mpr sd)) curs dt); try assumption.
      * unfold curs. rewrite map_length. reflexivity.
      * intros _. exact Hclen.
Qed.

(* whole scan, n components interleaved or not: differencing, category coding,
   decoding, shared-counter restart handling, undifferencing, scaling *)
Theorem codec_scan_correct n ri mpr psv prec pt w mrows :
  2 <= prec <= 16 -> 1 <= psv <= 7 -> 0 <= pt < prec -> restart_ok ri mpr -> 0 < mpr ->
  mrows_ok prec n w mrows ->
  codec_scan n ri mpr psv prec pt mrows = Some (map (map (map (clear_low pt))) mrows).
Proof.
  intros Hp Hpsv Hpt Hr Hm Hok. unfold codec_scan.
  assert (P : params_ok psv prec pt = true) by (apply params_ok_spec; lia).
  assert (S : start_pass_ok ri mpr = true).
  { unfold start_pass_ok. destruct Hr as [->|(_ & _ & Hd)]; [rewrite Z.mod_0_l by lia; reflexivity|lia]. }
  rewrite P, S. cbn [andb]. f_equal.
  change (repeat true n) with (repeat (fst ((true, ri / mpr) : lstate)) n).
  change (ri / mpr) with (snd ((true, ri / mpr) : lstate)) at 2.
  apply dec_enc_scan with (w := w) (se := reset_predictor ri mpr); try assumption.
  - apply states_agree_init; assumption.
  - apply repeat_length.
  - cbn [reset_predictor fst]. discriminate.
  - set (ds := enc_scan_rows _ _ _ _ _ _ _ _). clearbody ds.
    induction ds as [|m t IHm]; constructor; [|exact IHm].
    apply canon_rows_eqm. exact canon_diff_eqm.
Qed.

(* non-vacuity: 3 components x 3 rows x 2 columns, 16 bit, restart every row / every 2 rows / none *)
Definition rgb16 : list (list (list Z)) :=
  [[[0; 65535]; [65535; 0]; [1; 65534]]; [[65535; 0]; [0; 65535]; [32768; 32767]]; [[0; 0]; [65535; 65535]; [0; 65535]]].
Lemma rgb16_ok : mrows_ok 16 3 2 rgb16.
Proof. unfold rgb16, mrows_ok, in_prec. repeat constructor; cbn; lia. Qed.
Lemma rgb16_roundtrip_computed :
  forallb (fun psv => forallb (fun ri =>
     match codec_scan 3 ri 2 psv 16 0 rgb16 with
     | Some out => if list_eq_dec (list_eq_dec (list_eq_dec Z.eq_dec)) out rgb16 then true else false
     | None => false end) [0; 2; 4]) [1; 2; 3; 4; 5; 6; 7] = true.
Proof. vm_compute. reflexivity. Qed.
