(* C09 -- resume state of the compression coefficient controller (jccoefct.c compress_data: iMCU row,
   MCU_vert_offset, mcu_ctr).  Model: coq/model/CoefCtl.v (owned by C03, imported read-only); the proofs
   of Section P are those of proofs/CoefCtlProofs.v (C03), repeated here so that the C09 obligations do
   not depend on another property's generated file. *)
From Coq Require Import List Arith Bool Lia.
From LJT Require Import model.CoefCtl.
Import ListNotations.

Section P.
Variable rows cols : nat.
Definition rowl (y : nat) : list (nat * nat) := map (fun c => (y, c)) (seq 0 cols).
Definition crest (m y c0 : nat) : list (nat * nat) :=
  match m with
  | O => []
  | S m' => map (fun c => (y, c)) (seq c0 (cols - c0)) ++ flat_map rowl (seq (S y) m')
  end.

Lemma crest_zero m y : crest m y 0 = flat_map rowl (seq y m).
Proof. destruct m; [reflexivity|]. cbn [crest seq flat_map]. unfold rowl at 2. now rewrite Nat.sub_0_r. Qed.

Lemma col_loop_spec : forall n col y orc,
  match col_loop n col y orc with
  | (e, None, o) => e = map (fun c => (y, c)) (seq col n) /\ length o <= length orc
  | (e, Some c', o) => col <= c' < col + n /\ e = map (fun c => (y, c)) (seq col (c' - col)) /\ length o < length orc
  end.
Proof.
  induction n as [|n IH]; intros col y orc; cbn [col_loop]; [split; [reflexivity|lia]|].
  destruct orc as [|[|] o'].
  - specialize (IH (S col) y []). cbn [tl]. destruct (col_loop n (S col) y []) as [[e r] o2]. destruct r as [c'|].
    + destruct IH as (H1 & H2 & H3). cbn in H3. lia.
    + destruct IH as (H1 & H2). split; [cbn [seq map]; now rewrite H1|exact H2].
  - specialize (IH (S col) y o'). cbn [tl]. destruct (col_loop n (S col) y o') as [[e r] o2]. destruct r as [c'|].
    + destruct IH as (H1 & H2 & H3). split; [lia|]. split; [|cbn [length]; lia].
      replace (c' - col) with (S (c' - S col)) by lia. cbn [seq map]. now rewrite H2.
    + destruct IH as (H1 & H2). split; [cbn [seq map]; now rewrite H1|cbn [length]; lia].
  - split; [lia|]. split; [rewrite Nat.sub_diag; reflexivity|cbn [length]; lia].
Qed.

Lemma row_loop_spec : forall m y c0 orc, c0 <= cols ->
  match row_loop cols true m y c0 orc with
  | (e, None, o) => e = crest m y c0 /\ length o <= length orc
  | (e, Some (y', c'), o) => y <= y' < y + m /\ c' < cols /\ crest m y c0 = e ++ crest (y + m - y') y' c' /\ length o < length orc
  end.
Proof.
  induction m as [|m IH]; intros y c0 orc Hc; cbn [row_loop]; [split; [reflexivity|lia]|].
  pose proof (col_loop_spec (cols - c0) c0 y orc) as Hcl.
  destruct (col_loop (cols - c0) c0 y orc) as [[e r] o1]. destruct r as [col|].
  - destruct Hcl as (H1 & H2 & H3). split; [lia|]. split; [lia|]. split; [|exact H3].
    replace (y + S m - y) with (S m) by lia. cbn [crest]. rewrite H2, app_assoc. f_equal.
    rewrite <- map_app. f_equal. replace (cols - c0) with ((col - c0) + (cols - col)) by lia.
    rewrite seq_app. f_equal. f_equal. lia.
  - destruct Hcl as (H1 & H2). specialize (IH (S y) 0 o1 ltac:(lia)).
    destruct (row_loop cols true m (S y) 0 o1) as [[e2 r2] o2]. destruct r2 as [[y' c']|].
    + destruct IH as (G1 & G2 & G3 & G4). split; [lia|]. split; [exact G2|]. split; [|lia].
      cbn [crest]. rewrite H1. rewrite <- app_assoc. f_equal. rewrite <- crest_zero. rewrite G3. f_equal. f_equal. lia.
    + destruct IH as (G1 & G2). split; [|lia]. cbn [crest]. rewrite H1, G1. now rewrite crest_zero.
Qed.

Lemma drive_spec : forall fuel y c orc, length orc < fuel -> y <= rows -> c <= cols ->
  drive rows cols true fuel y c orc = Some (crest (rows - y) y c).
Proof.
  induction fuel as [|f IH]; intros y c orc Hf Hy Hc; [lia|]. cbn [drive].
  pose proof (row_loop_spec (rows - y) y c orc Hc) as Hr.
  destruct (row_loop cols true (rows - y) y c orc) as [[e r] o]. destruct r as [[y' c']|].
  - destruct Hr as (H1 & H2 & H3 & H4). rewrite (IH y' c' o); [|lia|lia|lia].
    rewrite H3. f_equal. f_equal. f_equal. lia.
  - destruct Hr as (H1 & H2). now rewrite H1.
Qed.

Theorem drive_raster fuel orc : length orc < fuel -> drive rows cols true fuel 0 0 orc = Some (raster rows cols).
Proof.
  intros Hf. rewrite (drive_spec fuel 0 0 orc Hf ltac:(lia) ltac:(lia)). rewrite Nat.sub_0_r, crest_zero. reflexivity.
Qed.
End P.

(* without the per-MCU-row reset (seeded change C03-9) MCUs are lost after a suspension in row 0 *)
Example coef_ctl_needs_the_reset : drive 2 3 false 5 0 0 [true; false] <> Some (raster 2 3).
Proof. vm_compute. discriminate. Qed.
