(* writer_sound, entropy layer: whatever item list drives the spec writer (tables in
   any grouping / destination / order, DRI anywhere, any scan partition, any restart
   interval), the spec decoder walks the emitted segments through exactly the states
   of the writer; hence t81_decode of the emitted stream = the blocks the writer
   recorded as written. *)
From Coq Require Import List ZArith Bool Lia Arith.
From LJT Require Import model.T81Spec proofs.T81BlockProofs proofs.T81ScanProofs proofs.T81HuffProofs
  proofs.T81ParseProofs.
Import ListNotations.
Local Open Scope Z_scope.

Definition slot_ok (o : option hcoder) : Prop :=
  match o with Some c => coder_ok (hc_enc c) (hc_dec c) | None => True end.
Definition state_ok (st : dstate) : Prop := Forall slot_ok (ds_dc st) /\ Forall slot_ok (ds_ac st).

Lemma none_coder_ok : coder_ok (hc_enc none_coder) (hc_dec none_coder).
Proof. intros s bits r H. discriminate. Qed.

Lemma get_coder_ok : forall l i, Forall slot_ok l -> coder_ok (hc_enc (get_coder l i)) (hc_dec (get_coder l i)).
Proof.
  intros l i H. unfold get_coder.
  destruct (nth_in_or_default (Z.to_nat i) l None) as [Hin|Hd].
  - rewrite Forall_forall in H. specialize (H _ Hin). destruct (nth (Z.to_nat i) l None); [exact H|apply none_coder_ok].
  - rewrite Hd. apply none_coder_ok.
Qed.

Lemma set_nth_Forall : forall {A} (P : A -> Prop) i x l, Forall P l -> P x -> Forall P (set_nth i x l).
Proof.
  intros A P i x l. revert i. induction l; intros i Hl Hx; [destruct i; constructor|].
  inversion Hl; subst. destruct i; cbn [set_nth]; constructor; auto.
Qed.

Lemma install_ok : forall tabs cls l, forallb htab_code_ok tabs = true -> Forall slot_ok l ->
  Forall slot_ok (install tabs cls l).
Proof.
  unfold install. induction tabs as [|[[[tc th] counts] vals] tabs IH]; intros cls l Hok Hl; [exact Hl|].
  cbn [forallb] in Hok. apply andb_prop in Hok. destruct Hok as [Ht Hts]. cbn [fold_left].
  apply IH; [assumption|]. destruct (tc =? cls); [|assumption].
  apply set_nth_Forall; [assumption|]. cbn [slot_ok]. apply mk_coder_ok. exact Ht.
Qed.

Lemma ds0_ok : state_ok ds0.
Proof. split; cbn; repeat constructor. Qed.

(* ------------------------------------------------------------- image blocks *)
Definition coef_ok (v : Z) : Prop := category v <= 15.
Definition im_ok (im : image) : Prop := Forall (Forall (Forall coef_ok)) (im_coefs im).

Lemma nth_Forall_default : forall {A} (P : A -> Prop) l i d, Forall P l -> P d -> P (nth i l d).
Proof.
  intros. destruct (nth_in_or_default i l d) as [Hin|Hd]; [|rewrite Hd; assumption].
  rewrite Forall_forall in H. apply H, Hin.
Qed.

Lemma to_zigzag_ok : forall blk, Forall coef_ok blk -> block_ok (to_zigzag blk).
Proof.
  intros blk H. split.
  - unfold to_zigzag, zrange. rewrite !map_length, seq_length. reflexivity.
  - unfold ac_ok. assert (A : Forall coef_ok (to_zigzag blk)).
    { unfold to_zigzag. apply Forall_forall. intros x Hx. apply in_map_iff in Hx. destruct Hx as [k [<- _]].
      unfold nthZ at 1. apply nth_Forall_default; [assumption|]. unfold coef_ok. cbn. lia. }
    destruct (to_zigzag blk); [constructor|]. inversion A; assumption.
Qed.

Lemma scan_blocks_ok : forall im cx, im_ok im -> Forall (fun b => block_ok (snd b)) (scan_blocks im cx).
Proof.
  intros im cx H. unfold scan_blocks. apply Forall_forall. intros b Hb.
  apply in_map_iff in Hb. destruct Hb as [[[j r] c] [<- _]].
  destruct (nth j (sx_info cx) (0%nat, 0, 0, 0, 0)) as [[[[i h] v] td] ta]. cbn [snd].
  apply to_zigzag_ok. apply nth_Forall_default; [|constructor].
  apply nth_Forall_default; [exact H|constructor].
Qed.

Lemma scan_blocks_fst : forall im cx,
  map fst (scan_blocks im cx) = map (fun p : nat * Z * Z => let '(j, _, _) := p in j) (sx_pos cx).
Proof.
  intros. unfold scan_blocks. rewrite map_map. apply map_ext. intros [[j r] c].
  destruct (nth j (sx_info cx) (0%nat, 0, 0, 0, 0)) as [[[[i h] v] td] ta]. reflexivity.
Qed.

Lemma map_snd_combine : forall {A B} (a : list A) (b : list B), length a = length b -> map snd (combine a b) = b.
Proof.
  induction a; intros b H; destruct b; cbn in *; try lia; [reflexivity|]. f_equal. apply IHa. lia.
Qed.

Lemma setup_coders_ok : forall st sc cx, state_ok st -> scan_setup st sc = Some cx -> coders_ok (sx_coders cx).
Proof.
  intros st sc cx [Hd Ha] H. unfold scan_setup in H.
  destruct (ds_sof st) as [[[[[n p] y] x] fc]|]; [|discriminate].
  destruct (scan_info fc sc) as [info|]; [|discriminate]. inversion H; subst. cbn [sx_coders].
  intros j. unfold coder_at.
  match goal with |- context [nth j (map ?f info) ?d] => destruct (nth_in_or_default j (map f info) d) as [Hin|Hdef] end.
  - apply in_map_iff in Hin. destruct Hin as [[[[[i h] v] td] ta] [Heq _]]. rewrite <- Heq. cbn [fst snd].
    split; apply get_coder_ok; assumption.
  - rewrite Hdef. cbn [fst snd]. split; intros s bits r E; discriminate.
Qed.

(* ------------------------------------------------------------------- steps *)
Lemma d_step_state_ok : forall st s st', state_ok st -> d_step st s = Some st' -> state_ok st'.
Proof.
  intros st s st' [Hd Ha] H. destruct s; cbn [d_step] in H; try (inversion H; subst; split; assumption).
  - destruct (forallb htab_code_ok tabs) eqn:E; [|discriminate]. inversion H; subst.
    split; cbn [ds_dc ds_ac]; apply install_ok; assumption.
  - destruct (in_range 0 1 n); [|discriminate]. inversion H; subst. split; assumption.
  - destruct (scan_setup st comps) as [cx|]; [|discriminate].
    destruct (dec_scan _ _ _ _ _) as [bl|]; [|discriminate]. inversion H; subst. split; assumption.
Qed.

Lemma w_step_d_step : forall im st it st' fs, state_ok st -> im_ok im ->
  w_step im st it = Some (st', fs) -> d_step st (snd fs) = Some st'.
Proof.
  intros im st it st' fs Hst Him H. destruct it as [f s|f n|f sc rf]; cbn [w_step] in H.
  - destruct s; try discriminate;
      match type of H with match ?d with _ => _ end = _ => destruct d eqn:E; [|discriminate] end;
      inversion H; subst; cbn [snd]; exact E.
  - match type of H with match ?d with _ => _ end = _ => destruct d eqn:E; [|discriminate] end.
    inversion H; subst. cbn [snd]. exact E.
  - destruct (scan_setup st sc) as [cx|] eqn:Ecx; [|discriminate].
    destruct (enc_scan (sx_coders cx) (length sc) (sx_per cx) (scan_blocks im cx)) as [[|d0 ds]|] eqn:Ee; try discriminate.
    inversion H; subst. cbn [snd d_step]. rewrite Ecx.
    rewrite map_snd_combine by (rewrite map_length, seq_length; reflexivity).
    rewrite <- (scan_blocks_fst im cx).
    rewrite (dec_enc_scan _ _ _ _ _ (setup_coders_ok _ _ _ Hst Ecx) (scan_blocks_ok im cx Him) Ee).
    reflexivity.
Qed.

Lemma w_walk_d_walk : forall im its st segs stf, state_ok st -> im_ok im ->
  w_walk im st its = Some (segs, stf) -> d_walk st segs = Some stf.
Proof.
  intros im. induction its as [|it t IH]; intros st segs stf Hst Him H; cbn [w_walk] in H.
  - inversion H; subst. reflexivity.
  - destruct (w_step im st it) as [[st' [f s]]|] eqn:Es; [|discriminate].
    destruct (w_walk im st' t) as [[l stf']|] eqn:Ew; [|discriminate]. inversion H; subst.
    pose proof (w_step_d_step _ _ _ _ _ Hst Him Es) as D. cbn [snd] in D.
    cbn [d_walk]. rewrite D. apply (IH st' l stf); try assumption.
    eapply d_step_state_ok; eassumption.
Qed.

(* the entropy layer of writer_sound *)
Theorem decode_layout : forall ch im s, im_ok im -> layout ch im = Some s ->
  t81_decode s = written ch im.
Proof.
  intros ch im s Him H. unfold layout, written, t81_decode in *.
  destruct (w_walk im ds0 (ch_items ch)) as [[segs stf]|] eqn:E; [|discriminate].
  inversion H; subst. cbn [st_segs]. rewrite (w_walk_d_walk _ _ _ _ _ ds0_ok Him E). reflexivity.
Qed.

(* both layers together: a stream produced by the writer that passes the validity check
   parses back to the writer's segment list and decodes to what the writer recorded *)
Theorem writer_sound : forall ch im s bytes, im_ok im -> layout ch im = Some s -> stream_ok s = true ->
  t81_emit ch im = Some bytes ->
  t81_parse bytes = Some s /\ t81_decode s = written ch im.
Proof.
  intros ch im s bytes Him Hl Hok He. unfold t81_emit in He. rewrite Hl in He. cbn in He. inversion He; subst.
  split; [apply t81_parse_emit; assumption|apply decode_layout; assumption].
Qed.

(* boolean form of the image hypothesis *)
Definition im_okb (im : image) : bool := forallb (forallb (forallb (fun v => category v <=? 15))) (im_coefs im).
Lemma im_okb_ok : forall im, im_okb im = true -> im_ok im.
Proof.
  intros im H. unfold im_okb in H. unfold im_ok.
  apply Forall_forall. intros a Ha. apply Forall_forall. intros b Hb. apply Forall_forall. intros v Hv.
  rewrite forallb_forall in H. specialize (H a Ha). rewrite forallb_forall in H. specialize (H b Hb).
  rewrite forallb_forall in H. specialize (H v Hv). apply Z.leb_le in H. exact H.
Qed.
