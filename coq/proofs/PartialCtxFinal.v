(* C08 -- the context (fancy h2v2 / h1v2) main controller with max_v_samp_factor = 2: every history of
   Read / Skip ops behaves like a full decode (statement in the vocabulary of proofs/PartialSchedProofs.v). *)
From Coq Require Import List ZArith Lia Bool.
From LJT Require Import model.Partial proofs.PartialSchedSkip proofs.PartialCtxBase proofs.PartialCtxRead.
Import ListNotations.
Local Open Scope Z_scope.

(* geometry of a frame whose tracked component is upsampled 2:1 vertically with context rows (rgroup = 1):
   M = min_DCT_scaled_size >= 2, T = total_iMCU_rows, dsh = the component's downsampled_height = ceil(H/2),
   hrows = the sample rows the IDCT writes, NG = row groups of the last iMCU row = what set_bottom_pointers
   computes from component 0 *)
Definition ctx_v2_ok (g : geom) : Prop :=
  grg g = 1 /\ 2 <= gM g /\ gv g = 2 /\ gfancyv g = true /\ 0 <= gH g < 4294967296 /\
  ((gT g - 1) * (gM g * 2) < gH g <= gT g * (gM g * 2)) /\
  gdsh g = (gH g + 1) / 2 /\ gT g * gM g <= ghrows g /\ 1 <= grg0 g /\
  (rows_left_of (gdsh0 g) (grg0 g * gM g) - 1) / grg0 g + 1 = NG g.

Definition ctx_v2_okb (g : geom) : bool :=
  (grg g =? 1) && (2 <=? gM g) && (gv g =? 2) && gfancyv g && (0 <=? gH g) && (gH g <? 4294967296) &&
  ((gT g - 1) * (gM g * 2) <? gH g) && (gH g <=? gT g * (gM g * 2)) &&
  (gdsh g =? (gH g + 1) / 2) && (gT g * gM g <=? ghrows g) && (1 <=? grg0 g) &&
  ((rows_left_of (gdsh0 g) (grg0 g * gM g) - 1) / grg0 g + 1 =? NG g).

Lemma ctx_v2_okb_sound g : ctx_v2_okb g = true -> ctx_v2_ok g.
Proof.
  unfold ctx_v2_okb, ctx_v2_ok. intros Hb.
  repeat (apply andb_true_iff in Hb; destruct Hb as (Hb & ?)).
  repeat split; try lia.
  all: try (destruct (gfancyv g); [reflexivity|discriminate]).
Qed.

Lemma combine_rows_c g s k :
  Forall (fun yp => snd yp = ideal_c g (fst yp) /\ s <= fst yp < s + Z.max 0 k)
         (combine (zseq s (length (rows_c g s k))) (rows_c g s k)).
Proof.
  unfold rows_c. rewrite map_length, zseq_length'.
  assert (Hk : Z.max 0 k = Z.of_nat (Z.to_nat k)) by lia. rewrite Hk. clear Hk.
  generalize (Z.to_nat k) as n. intros n. revert s.
  induction n as [|n IH]; intros s; cbn [zseq map combine]; [constructor|].
  constructor; [cbn; split; [reflexivity|lia]|].
  eapply Forall_impl; [|apply IH]. intros [y p] (A & B). cbn in *. split; [assumption|lia].
Qed.

Lemma delivered_okc g ops : forall s tr, Forall opnn ops -> 0 <= s <= gH g -> trace_okc g s ops tr ->
  Forall (fun yp => snd yp = ideal_c g (fst yp) /\ 0 <= fst yp < gH g) (delivered tr).
Proof.
  induction ops as [|o t IH]; intros s tr Hnn Hs Htr; destruct tr as [|[[[before cs] rs] after] tr']; cbn in Htr; try contradiction.
  - constructor.
  - destruct Htr as (-> & (Haft & Hsum & Ho) & Hrest). cbn [delivered].
    assert (Hno : opnn o) by (inversion Hnn; assumption).
    assert (Hnt : Forall opnn t) by (inversion Hnn; assumption).
    assert (Hamt : 0 <= after - s) by (destruct o; cbn in *; lia).
    apply Forall_app. split.
    + destruct o as [n | n].
      * destruct Ho as (-> & _). eapply Forall_impl; [|apply combine_rows_c].
        intros [y p] (A & B). cbn in *. split; [assumption|lia].
      * destruct Ho as (-> & _). constructor.
    + apply (IH after); [assumption | lia | assumption].
Qed.

Theorem skip_read_equals_full_context_v2 :
  forall g ops, ctx_v2_ok g -> Forall op_nonneg ops ->
  let res := run_c g (c_init g) ops in
  c_scan (fst res) = Z.min (gH g) (total_requested ops) /\
  trace_okc g 0 ops (snd res) /\
  Forall (fun yp => snd yp = ideal_c g (fst yp) /\ 0 <= fst yp < gH g) (delivered (snd res)).
Proof.
  intros g ops (H1 & H2 & H3 & H4 & H5 & H6 & H7 & H8 & H9 & H10) Hnn. cbv zeta.
  assert (Hnn' : Forall opnn ops) by exact Hnn.
  destruct (ctx_v2_run g H1 H2 H3 H4 H5 H6 H7 H8 H9 H10 ops Hnn') as (A & B).
  split; [exact A|]. split; [exact B|].
  apply (delivered_okc g ops 0); [assumption | lia | exact B].
Qed.

(* geometries of real frames satisfy the hypothesis (4:2:0 at 8/8 with 53 rows, 4:2:0 at 12/8 with 80 rows) *)
Lemma ctx_v2_ok_examples :
  ctx_v2_okb (mkGeom 8 2 53 4 false true 1 27 32 true 2 53 false false false false) = true /\
  ctx_v2_okb (mkGeom 12 2 80 4 false true 1 40 48 true 2 80 false false false false) = true /\
  ctx_v2_okb (mkGeom 2 2 7 2 false true 1 4 4 true 1 4 false false false false) = true.
Proof. vm_compute. repeat split; reflexivity. Qed.
