(* B.1.1.5 byte stuffing: unstuff (stuff d) = d, and a stuffed segment contains no marker *)
From Coq Require Import List ZArith Bool Lia.
From LJT Require Import model.T81Spec.
Import ListNotations.
Local Open Scope Z_scope.

(* "no marker inside": every X'FF' is followed by X'00' *)
Fixpoint no_marker (bs : list Z) : bool :=
  match bs with
  | [] => true
  | b :: t => (if b =? 255 then match t with z :: _ => z =? 0 | [] => false end else true) && no_marker t
  end.

(* the tail after an entropy-coded segment: nothing, or X'FF' followed by a non-zero byte *)
Definition marker_ahead (r : list Z) : Prop :=
  r = [] \/ exists x t, r = 255 :: x :: t /\ x <> 0.

Lemma read_ecs_stuff : forall d r, marker_ahead r -> read_ecs (stuff d ++ r) = (d, r).
Proof.
  induction d as [|b d IH]; intros r Hr.
  - cbn [stuff app]. destruct Hr as [->|(x & t & -> & Hx)]; [reflexivity|].
    cbn [read_ecs]. rewrite Z.eqb_refl. destruct (x =? 0) eqn:E; [lia|reflexivity].
  - cbn [stuff]. destruct (b =? 255) eqn:E.
    + cbn [app read_ecs]. rewrite Z.eqb_refl. cbn [Z.eqb]. rewrite (IH r Hr).
      apply Z.eqb_eq in E. subst. reflexivity.
    + cbn [app read_ecs]. rewrite E. rewrite (IH r Hr). reflexivity.
Qed.

Lemma stuff_unstuff : forall d, read_ecs (stuff d) = (d, []).
Proof. intros. rewrite <- (app_nil_r (stuff d)). apply read_ecs_stuff. left. reflexivity. Qed.

Lemma stuff_no_marker : forall d, no_marker (stuff d) = true.
Proof.
  induction d as [|b d IH]; [reflexivity|].
  cbn [stuff]. destruct (b =? 255) eqn:E.
  - cbn [no_marker]. rewrite Z.eqb_refl. cbn [Z.eqb andb]. exact IH.
  - cbn [no_marker]. rewrite E. cbn [andb]. exact IH.
Qed.

Theorem stuffing_all : forall d,
  read_ecs (stuff d) = (d, []) /\ no_marker (stuff d) = true /\
  (forall r, marker_ahead r -> read_ecs (stuff d ++ r) = (d, r)).
Proof. intros. split; [apply stuff_unstuff|split; [apply stuff_no_marker|intros; now apply read_ecs_stuff]]. Qed.
