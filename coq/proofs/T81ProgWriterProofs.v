(* Annex G.1.2 round trip inside the specification model: the progressive Huffman decoder
   procedures (pac_first, pac_refine with padvance / pcorrect) invert the spec-level
   progressive writer of T81Spec, for abstract prefix codes, every band Ss..Se and every
   point transform. *)
From Coq Require Import List ZArith Bool Lia Arith FMapPositive.
From LJT Require Import model.T81Spec proofs.T81BlockProofs proofs.T81ProgProofs.
Import ListNotations.
Local Open Scope Z_scope.
Ltac Zify.zify_post_hook ::= Z.div_mod_to_equations.

Section ACFirst.
  Variable ac : hcoder.
  Hypothesis Hac : coder_ok (hc_enc ac) (hc_dec ac).
  Variables w r c al : Z.

  Lemma pac_first_zrls : forall q zr fuel m se kd X, zrls (hc_enc ac) q = Some zr -> kd + 16 * Z.of_nat q <= se ->
    pac_first (q + fuel) ac m w r c se al kd (zr ++ X) = pac_first fuel ac m w r c se al (kd + 16 * Z.of_nat q) X.
  Proof.
    induction q; intros zr fuel m se kd X Hz Hse.
    - cbn [zrls] in Hz. inversion Hz; subst. cbn [app Nat.add]. f_equal. lia.
    - cbn [zrls] in Hz. destruct (hc_enc ac 240) as [a|] eqn:Ea; [|discriminate].
      destruct (zrls (hc_enc ac) q) as [b|] eqn:Eb; [|discriminate]. inversion Hz; subst.
      cbn [Nat.add pac_first]. destruct (kd >? se) eqn:E0; [apply Z.gtb_lt in E0; lia|].
      rewrite <- app_assoc. rewrite (Hac 240 a (b ++ X) Ea).
      change (240 mod 16) with 0. change (240 / 16) with 15. rewrite !Z.eqb_refl.
      destruct (kd + 16 >? se) eqn:E1; [apply Z.gtb_lt in E1; lia|].
      rewrite (IHq b fuel m se (kd + 16) X eq_refl) by lia. f_equal. lia.
  Qed.

  Lemma pac_first_enc : forall zs run kd fuel m bits rest,
    Forall (fun z => category z <= 15) zs -> 0 <= run ->
    enc_ac (hc_enc ac) zs run = Some bits -> run + lenZ zs < Z.of_nat fuel ->
    pac_first fuel ac m w r c (kd + run + lenZ zs - 1) al kd (bits ++ rest) =
    Some (wr_band m w r c (kd + run) al zs, 0, rest).
  Proof.
    induction zs as [|z t IH]; intros run kd fuel m bits rest Hok Hrun Henc Hfuel.
    - cbn [enc_ac] in Henc. unfold lenZ in *. cbn [length Z.of_nat] in *. cbn [wr_band].
      destruct (run >? 0) eqn:E.
      + apply Z.gtb_lt in E. destruct fuel; [lia|]. cbn [pac_first].
        destruct (kd >? kd + run + 0 - 1) eqn:E0; [apply Z.gtb_lt in E0; lia|].
        rewrite (Hac 0 bits rest Henc). change (0 mod 16) with 0. change (0 / 16) with 0. cbn [Z.eqb].
        cbn [Z.to_nat receive]. reflexivity.
      + assert (run = 0) by (destruct (Z.gtb_spec run 0); [discriminate|lia]). subst. inversion Henc; subst.
        cbn [app]. destruct fuel; cbn [pac_first];
          (destruct (kd >? kd + 0 + 0 - 1) eqn:E0; [reflexivity|rewrite Z.gtb_ltb in E0; apply Z.ltb_ge in E0; lia]).
    - inversion Hok as [|x y Hz Ht]; subst. cbn [enc_ac] in Henc. unfold lenZ in *. cbn [length] in *. rewrite Nat2Z.inj_succ in *.
      destruct (z =? 0) eqn:Ez.
      + apply Z.eqb_eq in Ez. subst. cbn [wr_band]. rewrite Z.eqb_refl.
        replace (kd + run + Z.succ (Z.of_nat (length t)) - 1) with (kd + (run + 1) + Z.of_nat (length t) - 1) by lia.
        rewrite (IH (run + 1) kd fuel m bits rest Ht) by (try assumption; lia).
        replace (kd + (run + 1)) with (kd + run + 1) by lia. reflexivity.
      + apply Z.eqb_neq in Ez.
        destruct (zrls (hc_enc ac) (Z.to_nat (run / 16))) as [zr|] eqn:Ezr; [|discriminate].
        destruct (hc_enc ac (16 * (run mod 16) + category z)) as [b|] eqn:Eb; [|discriminate].
        destruct (enc_ac (hc_enc ac) t 0) as [cc|] eqn:Ec; [|discriminate]. inversion Henc; subst. clear Henc.
        set (q := Z.to_nat (run / 16)) in *.
        assert (Hq : Z.of_nat q = run / 16) by (unfold q; rewrite Z2Nat.id; [reflexivity|apply Z.div_pos; lia]).
        assert (Hcat : 1 <= category z <= 15).
        { split; [|assumption]. pose proof (category_nonneg z).
          destruct (Z.eq_dec (category z) 0) as [E0|E0]; [apply category_zero in E0; contradiction|lia]. }
        set (se := kd + run + Z.succ (Z.of_nat (length t)) - 1) in *.
        replace fuel with (q + (fuel - q))%nat by lia. rewrite <- !app_assoc.
        rewrite (pac_first_zrls q zr (fuel - q) m se kd _ Ezr) by (unfold se; lia).
        remember (fuel - q)%nat as f1. destruct f1 as [|f1]; [lia|]. cbn [pac_first].
        destruct (kd + 16 * Z.of_nat q >? se) eqn:E0; [apply Z.gtb_lt in E0; unfold se in E0; lia|].
        rewrite (Hac _ b _ Eb).
        replace ((16 * (run mod 16) + category z) mod 16) with (category z) by lia.
        replace ((16 * (run mod 16) + category z) / 16) with (run mod 16) by lia.
        destruct (category z =? 0) eqn:Ecz; [apply Z.eqb_eq in Ecz; lia|].
        destruct (kd + 16 * Z.of_nat q + run mod 16 >? se) eqn:E1; [apply Z.gtb_lt in E1; unfold se in E1; lia|].
        rewrite recv_ext_extra.
        replace (kd + 16 * Z.of_nat q + run mod 16) with (kd + run) by lia.
        cbn [wr_band]. destruct (z =? 0) eqn:Ez0; [apply Z.eqb_eq in Ez0; contradiction|].
        replace se with ((kd + run + 1) + 0 + Z.of_nat (length t) - 1) by (unfold se; lia).
        rewrite (IH 0 (kd + run + 1) f1 _ cc rest Ht) by (try assumption; lia).
        replace (kd + run + 1 + 0) with (kd + run + 1) by lia. reflexivity.
  Qed.
End ACFirst.

(* ------------------------------------------------------------ AC refinement *)
Section ACRefine.
  Variable ac : hcoder.
  Hypothesis Hac : coder_ok (hc_enc ac) (hc_dec ac).
  Variables w r c p1 : Z.
  Hypothesis Hb : 0 <= r * w + c.

  Fixpoint zerosZ (l : list (Z * bool)) : Z :=
    match l with [] => 0 | (a, _) :: t => (if a =? 0 then 1 else 0) + zerosZ t end.

  (* the history held by the decoder matches the band description: non-zero exactly where the
     coefficient was already non-zero (|ZZ(k)| >> Al >= 2) *)
  Fixpoint hist_ok (m : PM.t Z) (k : Z) (l : list (Z * bool)) : Prop :=
    match l with
    | [] => True
    | (a, _) :: t => 0 <= a /\ (pget m w r c k <> 0 <-> 2 <= a) /\ hist_ok m (k + 1) t
    end.

  Lemma hist_ok_pset : forall l m k j v, 0 <= j < k -> hist_ok m k l -> hist_ok (pset m w r c j v) k l.
  Proof.
    induction l as [|[a neg] t IH]; intros m k j v Hj H; [exact I|]. cbn [hist_ok] in *. destruct H as (A & B & C).
    split; [exact A|]. split; [|apply IH; [lia|exact C]].
    rewrite (pget_pset m w r c j k v Hb ltac:(lia) ltac:(lia)). destruct (k =? j) eqn:E; [apply Z.eqb_eq in E; lia|exact B].
  Qed.

  Lemma hist_ok_app : forall a b m k, hist_ok m k (a ++ b) -> hist_ok m k a /\ hist_ok m (k + lenZ a) b.
  Proof.
    induction a as [|[x neg] t IH]; intros b m k H.
    - cbn [app] in H. unfold lenZ. cbn. rewrite Z.add_0_r. split; [exact I|exact H].
    - cbn [app hist_ok] in H. destruct H as (A & B & C). destruct (IH b m (k + 1) C) as [D E].
      split; [cbn [hist_ok]; tauto|]. unfold lenZ in *. cbn [length]. rewrite Nat2Z.inj_succ. replace (k + Z.succ (Z.of_nat (length t))) with (k + 1 + Z.of_nat (length t)) by lia. exact E.
  Qed.

  Lemma wr_ref_app : forall a b m k, wr_ref m w r c k p1 (a ++ b) = wr_ref (wr_ref m w r c k p1 a) w r c (k + lenZ a) p1 b.
  Proof.
    induction a as [|[x neg] t IH]; intros b m k.
    - unfold lenZ. cbn. rewrite Z.add_0_r. reflexivity.
    - cbn [app wr_ref]. rewrite IH. unfold lenZ. cbn [length]. rewrite Nat2Z.inj_succ. f_equal. lia.
  Qed.

  Lemma hist_ok_wr_ref : forall pre m k k' l, 0 <= k -> k + lenZ pre <= k' -> hist_ok m k' l -> hist_ok (wr_ref m w r c k p1 pre) k' l.
  Proof.
    induction pre as [|[a neg] t IH]; intros m k k' l Hk Hle H; [exact H|].
    unfold lenZ in *. cbn [length] in Hle. rewrite Nat2Z.inj_succ in Hle. cbn [wr_ref].
    apply IH; [lia|lia|]. destruct (a =? 1); [apply hist_ok_pset; [lia|exact H]|].
    destruct ((2 <=? a) && Z.odd a); [apply hist_ok_pset; [lia|exact H]|exact H].
  Qed.

  Lemma pget_wr_ref_above : forall pre m k k', 0 <= k -> k + lenZ pre <= k' -> pget (wr_ref m w r c k p1 pre) w r c k' = pget m w r c k'.
  Proof.
    induction pre as [|[a neg] t IH]; intros m k k' Hk Hle; [reflexivity|].
    unfold lenZ in *. cbn [length] in Hle. rewrite Nat2Z.inj_succ in Hle. cbn [wr_ref]. rewrite IH by lia.
    destruct (a =? 1); [rewrite pget_pset by (assumption || lia); destruct (k' =? k) eqn:E; [apply Z.eqb_eq in E; lia|reflexivity]|].
    destruct ((2 <=? a) && Z.odd a); [rewrite pget_pset by (assumption || lia); destruct (k' =? k) eqn:E; [apply Z.eqb_eq in E; lia|reflexivity]|reflexivity].
  Qed.

  (* correction bits of a stretch without newly non-zero coefficients *)
  Lemma corr_step : forall a m k, 2 <= a ->
    (if b2z (Z.odd a) =? 1 then pset m w r c k (if pget m w r c k >=? 0 then pget m w r c k + p1 else pget m w r c k - p1) else m) =
    (if (2 <=? a) && Z.odd a then pset m w r c k (if pget m w r c k >=? 0 then pget m w r c k + p1 else pget m w r c k - p1) else m).
  Proof. intros a m k Ha. destruct (Z.leb_spec 2 a); [|lia]. destruct (Z.odd a); reflexivity. Qed.

  Lemma pcorrect_list : forall l fuel m kd rest, has_new l = false -> hist_ok m kd l -> (length l < fuel)%nat -> 0 <= kd ->
    pcorrect fuel m w r c (kd + lenZ l - 1) p1 kd (corr_bits l ++ rest) = Some (wr_ref m w r c kd p1 l, rest).
  Proof.
    induction l as [|[a neg] t IH]; intros fuel m kd rest Hn Hh Hf Hk.
    - unfold lenZ. cbn [length Z.of_nat corr_bits flat_map app wr_ref]. destruct fuel; cbn [pcorrect];
        (destruct (kd >? kd + 0 - 1) eqn:E; [reflexivity|rewrite Z.gtb_ltb in E; apply Z.ltb_ge in E; lia]).
    - cbn [has_new existsb fst] in Hn. apply orb_false_iff in Hn. destruct Hn as [Hn1 Hn]. apply Z.eqb_neq in Hn1.
      cbn [hist_ok] in Hh. destruct Hh as (A & B & C).
      destruct fuel; [cbn in Hf; lia|]. cbn [length] in Hf. unfold lenZ in *. cbn [length]. rewrite Nat2Z.inj_succ.
      cbn [pcorrect]. destruct (kd >? kd + Z.succ (Z.of_nat (length t)) - 1) eqn:E; [apply Z.gtb_lt in E; lia|].
      replace (kd + Z.succ (Z.of_nat (length t)) - 1) with (kd + 1 + Z.of_nat (length t) - 1) by lia.
      cbn [wr_ref corr_bits flat_map fst]. fold (corr_bits t).
      destruct (a =? 1) eqn:E1; [apply Z.eqb_eq in E1; lia|].
      destruct (Z.leb_spec 2 a) as [H2|H2].
      + assert (Hv : pget m w r c kd <> 0) by (apply B; exact H2).
        destruct (pget m w r c kd =? 0) eqn:Ev; [apply Z.eqb_eq in Ev; contradiction|].
        cbn [app read_bit]. cbn [andb]. rewrite (corr_step a m kd H2).
        destruct (Z.leb_spec 2 a) as [_|?]; [|lia]. cbn [andb].
        apply IH; [exact Hn| |lia|lia].
        destruct (Z.odd a); [apply hist_ok_pset; [lia|exact C]|exact C].
      + assert (Hv : pget m w r c kd = 0) by (destruct (Z.eq_dec (pget m w r c kd) 0); [assumption|apply B in n; lia]).
        rewrite Hv. cbn [Z.eqb app andb]. apply IH; [exact Hn|exact C|lia|lia].
  Qed.

  Lemma padvance_pre : forall pre fuel m kd se rc rest, has_new pre = false -> hist_ok m kd pre -> zerosZ pre = rc ->
    pget m w r c (kd + lenZ pre) = 0 -> kd + lenZ pre <= se -> (length pre < fuel)%nat -> 0 <= kd ->
    padvance fuel m w r c se p1 kd rc (corr_bits pre ++ rest) = Some (wr_ref m w r c kd p1 pre, kd + lenZ pre, true, rest).
  Proof.
    induction pre as [|[a neg] t IH]; intros fuel m kd se rc rest Hn Hh Hz Ht Hse Hf Hk.
    - unfold lenZ in *. cbn [length Z.of_nat] in *. rewrite Z.add_0_r in *. cbn in Hz. subst rc.
      destruct fuel; [cbn in Hf; lia|]. cbn [padvance corr_bits flat_map app wr_ref].
      destruct (kd >? se) eqn:E; [apply Z.gtb_lt in E; lia|]. rewrite Ht. cbn [Z.eqb]. reflexivity.
    - cbn [has_new existsb fst] in Hn. apply orb_false_iff in Hn. destruct Hn as [Hn1 Hn]. apply Z.eqb_neq in Hn1.
      cbn [hist_ok] in Hh. destruct Hh as (A & B & C).
      destruct fuel; [cbn in Hf; lia|]. cbn [length] in Hf. unfold lenZ in *. cbn [length] in *. rewrite Nat2Z.inj_succ in *.
      cbn [padvance]. destruct (kd >? se) eqn:E; [apply Z.gtb_lt in E; lia|].
      cbn [wr_ref corr_bits flat_map fst zerosZ] in *. fold (corr_bits t).
      destruct (a =? 1) eqn:E1; [apply Z.eqb_eq in E1; lia|].
      replace (kd + Z.succ (Z.of_nat (length t))) with (kd + 1 + Z.of_nat (length t)) in * by lia.
      destruct (Z.leb_spec 2 a) as [H2|H2].
      + assert (Hv : pget m w r c kd <> 0) by (apply B; exact H2).
        destruct (pget m w r c kd =? 0) eqn:Ev; [apply Z.eqb_eq in Ev; contradiction|].
        destruct (a =? 0) eqn:E0; [apply Z.eqb_eq in E0; lia|]. rewrite Z.add_0_l in Hz.
        cbn [app read_bit andb]. rewrite (corr_step a m kd H2). destruct (Z.leb_spec 2 a) as [_|?]; [|lia]. cbn [andb].
        apply IH; try assumption; try lia.
        * destruct (Z.odd a); [apply hist_ok_pset; [lia|exact C]|exact C].
        * destruct (Z.odd a); [|exact Ht]. rewrite pget_pset by (assumption || lia).
          destruct (kd + 1 + Z.of_nat (length t) =? kd) eqn:Ek; [apply Z.eqb_eq in Ek; lia|exact Ht].
      + assert (a = 0) by lia. subst a. cbn [Z.eqb] in Hz.
        assert (Hv : pget m w r c kd = 0) by (destruct (Z.eq_dec (pget m w r c kd) 0); [assumption|apply B in n; lia]).
        rewrite Hv. cbn [Z.eqb app andb].
        assert (Hzt : 0 <= zerosZ t) by (clear; induction t as [|[x y] t IHt]; cbn; [lia|destruct (x =? 0); lia]).
        destruct (rc =? 0) eqn:Er; [apply Z.eqb_eq in Er; lia|].
        apply IH; try assumption; lia.
  Qed.
End ACRefine.

Section ACRefineMain.
  Variable ac : hcoder.
  Hypothesis Hac : coder_ok (hc_enc ac) (hc_dec ac).
  Variables w r c p1 : Z.
  Hypothesis Hb : 0 <= r * w + c.

  Definition P_scan (l : list (Z * bool)) : Prop :=
    forall pre z br kd m fuel bits rest,
      has_new pre = false -> has_new l = true -> hist_ok w r c m kd (pre ++ l) ->
      z = zerosZ pre -> z <= 15 -> br = corr_bits pre ->
      enc_ref (hc_enc ac) l false z br = Some bits ->
      (length l < fuel)%nat -> (length (pre ++ l) <= 63)%nat -> 0 <= kd ->
      pac_refine fuel ac m w r c (kd + lenZ (pre ++ l) - 1) p1 kd (bits ++ rest) =
      Some (wr_ref m w r c kd p1 (pre ++ l), 0, rest).

  Definition P_top (l : list (Z * bool)) : Prop :=
    forall kd m fuel bits rest,
      hist_ok w r c m kd l -> enc_ref (hc_enc ac) l true 0 [] = Some bits ->
      (length l < fuel)%nat -> (length l <= 63)%nat -> 0 <= kd ->
      pac_refine fuel ac m w r c (kd + lenZ l - 1) p1 kd (bits ++ rest) = Some (wr_ref m w r c kd p1 l, 0, rest).

  Lemma corr_bits_app : forall a b, corr_bits (a ++ b) = corr_bits a ++ corr_bits b.
  Proof. intros. unfold corr_bits. apply flat_map_app. Qed.
  Lemma has_new_app : forall a b, has_new (a ++ b) = has_new a || has_new b.
  Proof. intros. unfold has_new. apply existsb_app. Qed.
  Lemma zerosZ_app : forall a b, zerosZ (a ++ b) = zerosZ a + zerosZ b.
  Proof. induction a as [|[x y] t IH]; intros b; cbn [app zerosZ]; [lia|]. rewrite IH. lia. Qed.
  Lemma zerosZ_nonneg : forall l, 0 <= zerosZ l.
  Proof. induction l as [|[x y] t IH]; cbn; [lia|destruct (x =? 0); lia]. Qed.

  Lemma ref_both : forall l, P_scan l /\ P_top l.
  Proof.
    induction l as [|[a neg] t [IHs IHt]].
    - split.
      + intros pre z br kd m fuel bits rest _ Hn. discriminate.
      + intros kd m fuel bits rest _ Henc _ _ Hk. cbn [enc_ref] in Henc. inversion Henc; subst.
        unfold lenZ. cbn [length Z.of_nat app wr_ref]. destruct fuel; cbn [pac_refine];
          (destruct (kd >? kd + 0 - 1) eqn:E; [reflexivity|rewrite Z.gtb_ltb in E; apply Z.ltb_ge in E; lia]).
    - assert (Hscan : P_scan ((a, neg) :: t)).
      { intros pre z br kd m fuel bits rest Hnp Hnl Hh Hz Hz15 Hbr Henc Hf Hlen Hk.
        destruct (hist_ok_app w r c pre ((a, neg) :: t) m kd Hh) as [Hhp Hhl].
        cbn [hist_ok] in Hhl. destruct Hhl as (Ha & Hv & Hht).
        cbn [enc_ref] in Henc. cbn [andb] in Henc.
        assert (Hlt : lenZ (pre ++ (a, neg) :: t) = lenZ pre + 1 + lenZ t) by (unfold lenZ; rewrite app_length; cbn [length]; lia).
        assert (Hlp : 0 <= lenZ pre) by (unfold lenZ; lia). assert (Hlt0 : 0 <= lenZ t) by (unfold lenZ; lia).
        destruct (a =? 0) eqn:E0.
        - apply Z.eqb_eq in E0. subst a.
          assert (Hnt : has_new t = true) by (cbn [has_new existsb fst] in Hnl; cbn in Hnl; exact Hnl).
          assert (Hv0 : pget m w r c (kd + lenZ pre) = 0) by (destruct (Z.eq_dec (pget m w r c (kd + lenZ pre)) 0); [assumption|apply Hv in n; lia]).
          destruct (z =? 15) eqn:Ez.
          + (* sixteenth zero of the run: ZRL *)
            apply Z.eqb_eq in Ez.
            destruct (hc_enc ac 240) as [zr|] eqn:Ezr; [|discriminate].
            destruct (enc_ref (hc_enc ac) t false 0 []) as [b'|] eqn:Eb; [|discriminate]. inversion Henc; subst bits. clear Henc.
            destruct fuel; [cbn in Hf; lia|]. cbn [length] in Hf. cbn [pac_refine].
            destruct (kd >? kd + lenZ (pre ++ (0, neg) :: t) - 1) eqn:Eg; [apply Z.gtb_lt in Eg; lia|].
            rewrite <- !app_assoc. rewrite (Hac 240 zr _ Ezr). change (240 mod 16) with 0. change (240 / 16) with 15.
            cbn [Z.eqb Pos.eqb andb negb Z.gtb Z.compare].
            rewrite Hbr.
            rewrite (padvance_pre w r c p1 Hb pre 64 m kd (kd + lenZ (pre ++ (0, neg) :: t) - 1) 15 (b' ++ rest) Hnp Hhp ltac:(lia) Hv0 ltac:(lia)
                       ltac:(rewrite app_length in Hlen; cbn [length] in Hlen; lia) Hk).
            cbn [negb]. change (0 =? 1) with false. cbn iota.
            pose proof (IHs [] 0 [] (kd + lenZ pre + 1) (wr_ref m w r c kd p1 pre) fuel b' rest eq_refl Hnt) as R.
            cbn [app] in R. specialize (R (hist_ok_wr_ref w r c p1 Hb pre m kd (kd + lenZ pre + 1) t Hk ltac:(lia) Hht) eq_refl ltac:(lia) eq_refl Eb ltac:(lia)
                                          ltac:(rewrite app_length in Hlen; cbn [length] in Hlen; lia) ltac:(lia)).
            replace (kd + lenZ (pre ++ (0, neg) :: t) - 1) with (kd + lenZ pre + 1 + lenZ t - 1) by lia.
            rewrite R. rewrite wr_ref_app. cbn [wr_ref]. change (0 =? 1) with false. cbn [Z.leb Z.compare andb]. reflexivity.
          + apply Z.eqb_neq in Ez.
            pose proof (IHs (pre ++ [(0, neg)]) (z + 1) br kd m fuel bits rest) as R.
            rewrite <- app_assoc in R. cbn [app] in R.
            apply R; try assumption; try lia.
            * rewrite has_new_app, Hnp. reflexivity.
            * rewrite zerosZ_app. cbn [zerosZ Z.eqb]. lia.
            * rewrite corr_bits_app, <- Hbr. cbn. rewrite app_nil_r. reflexivity.
            * cbn [length] in Hf. lia.
        - apply Z.eqb_neq in E0. destruct (a =? 1) eqn:E1.
          + (* newly non-zero coefficient *)
            apply Z.eqb_eq in E1. subst a.
            assert (Hv0 : pget m w r c (kd + lenZ pre) = 0) by (destruct (Z.eq_dec (pget m w r c (kd + lenZ pre)) 0); [assumption|apply Hv in n; lia]).
            destruct (hc_enc ac (16 * z + 1)) as [sy|] eqn:Esy; [|discriminate].
            destruct (enc_ref (hc_enc ac) t true 0 []) as [b'|] eqn:Eb; [|discriminate]. inversion Henc; subst bits. clear Henc.
            destruct fuel; [cbn in Hf; lia|]. cbn [length] in Hf. cbn [pac_refine].
            destruct (kd >? kd + lenZ (pre ++ (1, neg) :: t) - 1) eqn:Eg; [apply Z.gtb_lt in Eg; lia|].
            rewrite <- !app_assoc. rewrite (Hac _ sy _ Esy).
            pose proof (zerosZ_nonneg pre) as Hz0.
            replace ((16 * z + 1) mod 16) with 1 by lia. replace ((16 * z + 1) / 16) with z by lia.
            change (1 =? 0) with false. cbn [andb]. change (1 >? 1) with false. change (1 =? 1) with true. cbn iota.
            cbn [app read_bit]. rewrite Hbr. rewrite <- ?app_assoc.
            rewrite (padvance_pre w r c p1 Hb pre 64 m kd (kd + lenZ (pre ++ (1, neg) :: t) - 1) z (b' ++ rest) Hnp Hhp (eq_sym Hz) Hv0 ltac:(lia)
                       ltac:(rewrite app_length in Hlen; cbn [length] in Hlen; lia) Hk).
            cbn [negb].
            set (m2 := pset (wr_ref m w r c kd p1 pre) w r c (kd + lenZ pre) (if b2z (negb neg) =? 1 then p1 else - p1)).
            assert (Hh2 : hist_ok w r c m2 (kd + lenZ pre + 1) t).
            { unfold m2. apply hist_ok_pset; [exact Hb|lia|]. apply hist_ok_wr_ref; [exact Hb|exact Hk|lia|exact Hht]. }
            pose proof (IHt (kd + lenZ pre + 1) m2 fuel b' rest Hh2 Eb ltac:(lia)
                          ltac:(rewrite app_length in Hlen; cbn [length] in Hlen; lia) ltac:(lia)) as R.
            replace (kd + lenZ (pre ++ (1, neg) :: t) - 1) with (kd + lenZ pre + 1 + lenZ t - 1) by lia.
            rewrite R. rewrite wr_ref_app. cbn [wr_ref]. change (1 =? 1) with true. cbn iota.
            unfold m2. destruct neg; reflexivity.
          + (* already non-zero: its correction bit joins the pending ones *)
            apply Z.eqb_neq in E1. assert (Ha2 : 2 <= a) by lia.
            pose proof (IHs (pre ++ [(a, neg)]) z (br ++ [Z.odd a]) kd m fuel bits rest) as R.
            rewrite <- app_assoc in R. cbn [app] in R.
            apply R; try assumption; try lia.
            * rewrite has_new_app, Hnp. cbn [has_new existsb fst orb]. destruct (a =? 1) eqn:E; [apply Z.eqb_eq in E; lia|reflexivity].
            * cbn [has_new existsb fst] in Hnl. destruct (a =? 1) eqn:E; [apply Z.eqb_eq in E; lia|exact Hnl].
            * rewrite zerosZ_app. cbn [zerosZ]. destruct (a =? 0) eqn:E; [apply Z.eqb_eq in E; lia|lia].
            * rewrite corr_bits_app, <- Hbr. cbn [corr_bits flat_map fst]. destruct (Z.leb_spec 2 a); [|lia]. rewrite app_nil_r. reflexivity.
            * cbn [length] in Hf. lia. }
      split; [exact Hscan|].
      intros kd m fuel bits rest Hh Henc Hf Hlen Hk.
      destruct (has_new ((a, neg) :: t)) eqn:Hn.
      + (* something becomes non-zero: same as scanning from here *)
        assert (Henc' : enc_ref (hc_enc ac) ((a, neg) :: t) false 0 [] = Some bits).
        { cbn [enc_ref] in *. rewrite Hn in Henc. cbn [negb andb] in *. exact Henc. }
        apply (Hscan [] 0 [] kd m fuel bits rest eq_refl Hn Hh eq_refl ltac:(lia) eq_refl Henc' Hf Hlen Hk).
      + (* end of block: EOB0 and the correction bits of the rest of the band *)
        cbn [enc_ref] in Henc. rewrite Hn in Henc. cbn [negb andb] in Henc.
        destruct (hc_enc ac 0) as [e|] eqn:Ee; [|discriminate]. inversion Henc; subst bits. clear Henc.
        destruct fuel; [cbn in Hf; lia|]. cbn [pac_refine].
        assert (Hl1 : 1 <= lenZ ((a, neg) :: t)) by (unfold lenZ; cbn [length]; lia).
        destruct (kd >? kd + lenZ ((a, neg) :: t) - 1) eqn:Eg; [apply Z.gtb_lt in Eg; lia|].
        rewrite <- app_assoc. rewrite (Hac 0 e _ Ee). change (0 mod 16) with 0. change (0 / 16) with 0.
        cbn [Z.eqb andb negb Z.to_nat receive].
        change ((if 2 <=? a then [Z.odd a] else []) ++ corr_bits t) with (corr_bits ((a, neg) :: t)).
        rewrite (pcorrect_list w r c p1 Hb _ 64 m kd rest Hn Hh ltac:(lia) Hk). reflexivity.
  Qed.

  (* G.1.2.3: the refinement decoder inverts the refinement writer for one block *)
  Theorem pac_refine_enc : forall l kd m bits rest, hist_ok w r c m kd l -> (length l <= 63)%nat -> 0 <= kd ->
    enc_ref (hc_enc ac) l true 0 [] = Some bits ->
    pac_refine 64 ac m w r c (kd + lenZ l - 1) p1 kd (bits ++ rest) = Some (wr_ref m w r c kd p1 l, 0, rest).
  Proof. intros l kd m bits rest Hh Hl Hk He. apply (proj2 (ref_both l) kd m 64%nat bits rest Hh He ltac:(lia) Hl Hk). Qed.
End ACRefineMain.
