(* HuffGenProofs4.v -- every table produced by jpeg_gen_optimal_table is
   accepted by the derived-table builders (model/Huff.v make_c_derived,
   make_d_derived): "codes_from succeeds when the Kraft sum leaves one code
   point free"; plus non-vacuity and boundary examples for gen_table_valid. *)
From Coq Require Import List ZArith Lia Bool Permutation Arith ZifyBool.
From LJT Require Import model.Huff proofs.HuffGenBase proofs.HuffGenProofs
  proofs.HuffGenProofs2 proofs.HuffGenProofs3.
Import ListNotations.
Local Open Scope Z_scope.

(* Kraft weight of a list of code sizes, scaled by 2^16 *)
Definition K16 (sizes : list Z) : Z := sumZ (map (fun s => 2 ^ (16 - s)) sizes).
(* the same from the per-length counts, first count belonging to length l *)
Fixpoint Kb (l : Z) (bits : list Z) : Z :=
  match bits with [] => 0 | b :: t => b * 2 ^ (16 - l) + Kb (l + 1) t end.

Fixpoint sortedZ (lo : Z) (l : list Z) : Prop :=
  match l with [] => True | x :: t => lo <= x /\ sortedZ x t end.

Lemma sortedZ_weaken l : forall lo lo', lo' <= lo -> sortedZ lo l -> sortedZ lo' l.
Proof. destruct l; cbn; intros; [trivial|]. intuition lia. Qed.

Lemma sortedZ_repeat_app k l r : sortedZ l r -> sortedZ l (repeat l k ++ r).
Proof. induction k; intros; cbn; auto. split; [lia|auto]. Qed.

Lemma K16_app a b : K16 (a ++ b) = K16 a + K16 b.
Proof. unfold K16. rewrite map_app, sumZ_app. reflexivity. Qed.

Lemma K16_repeat l k : K16 (repeat l k) = Z.of_nat k * 2 ^ (16 - l).
Proof.
  unfold K16. induction k as [|k IH]; [reflexivity|].
  cbn [repeat map sumZ]. rewrite IH. lia.
Qed.

Lemma K16_nonneg sizes : (forall s, In s sizes -> s <= 16) -> 0 <= K16 sizes.
Proof.
  intros H. unfold K16. apply sumZ_map_nonneg. intros s Hs. specialize (H s Hs).
  apply Z.pow_nonneg. lia.
Qed.

(* ---------------------------------------------------------- huffsizes *)
Lemma huffsizes_ok : forall bits l p,
  (forall b, In b bits -> 0 <= b) -> 0 <= p -> p + sumZ bits <= 256 ->
  exists sizes, huffsizes bits l p = Some sizes /\
    Z.of_nat (length sizes) = sumZ bits /\ sortedZ l sizes /\
    (forall s, In s sizes -> l <= s < l + Z.of_nat (length bits)) /\
    K16 sizes = Kb l bits.
Proof.
  induction bits as [|b t IH]; intros l p Hnn Hp Hs.
  - exists []. split; [reflexivity|]. split; [reflexivity|]. split; [exact I|].
    split; [intros s []|reflexivity].
  - cbn [sumZ] in Hs.
    assert (Hb : 0 <= b) by (apply Hnn; left; reflexivity).
    assert (Ht : 0 <= sumZ t).
    { pose proof (sumZ_map_nonneg (fun z => z) t ltac:(intros; apply Hnn; right; assumption)) as E.
      rewrite map_id in E. exact E. }
    destruct (IH (l + 1) (p + b) ltac:(intros; apply Hnn; right; assumption) ltac:(lia) ltac:(lia))
      as (r & Er & Lr & Sr & Rr & Kr).
    exists (repeat l (Z.to_nat b) ++ r). cbn [huffsizes].
    replace ((b <? 0) || (p + b >? 256)) with false by lia.
    rewrite Er. split; [reflexivity|]. split.
    { rewrite app_length, repeat_length. cbn [sumZ]. lia. }
    split.
    { apply sortedZ_repeat_app. apply (sortedZ_weaken r (l + 1)); [lia|exact Sr]. }
    split.
    { intros s Hin. cbn [length]. apply in_app_or in Hin. destruct Hin as [Hin|Hin].
      - apply repeat_spec in Hin. lia.
      - specialize (Rr s Hin). lia. }
    rewrite K16_app, K16_repeat, Kr. cbn [Kb]. rewrite Z2Nat.id by lia. reflexivity.
Qed.

(* ---------------------------------------------------------- codes_from *)
Lemma pow_split16 a b : 0 <= a -> 0 <= b -> a + b <= 16 -> 2 ^ (16 - a) = 2 ^ b * 2 ^ (16 - a - b).
Proof. intros. rewrite <- Z.pow_add_r by lia. f_equal. lia. Qed.

Lemma code_lt code si R :
  0 <= si <= 16 -> 0 <= code -> 0 < R -> code * 2 ^ (16 - si) + R <= 2 ^ 16 -> code < 2 ^ si.
Proof.
  intros Hsi Hc HR H.
  destruct (Z_lt_ge_dec code (2 ^ si)) as [Hlt|Hge]; [exact Hlt|exfalso].
  assert (E : 2 ^ 16 = 2 ^ si * 2 ^ (16 - si)).
  { rewrite <- Z.pow_add_r by lia. f_equal. lia. }
  assert (0 < 2 ^ (16 - si)) by (apply Z.pow_pos_nonneg; lia).
  assert (2 ^ si * 2 ^ (16 - si) <= code * 2 ^ (16 - si)) by (apply Z.mul_le_mono_nonneg_r; lia).
  lia.
Qed.

(* codes_from succeeds when the remaining Kraft weight leaves one code point
   (of the longest length 16) unused *)
Lemma codes_from_ok : forall sizes code si,
  0 <= si <= 16 -> 0 <= code -> sortedZ si sizes -> (forall s, In s sizes -> s <= 16) ->
  code * 2 ^ (16 - si) + K16 sizes + 1 <= 2 ^ 16 ->
  exists codes, codes_from sizes code si = Some codes /\ length codes = length sizes.
Proof.
  induction sizes as [|s t IH]; intros code si Hsi Hc Hso Hub HK; cbn [codes_from].
  - change (K16 []) with 0 in HK.
    pose proof (code_lt code si 1 Hsi Hc ltac:(lia) ltac:(lia)).
    replace (code >=? 2 ^ si) with false by lia. exists []. split; reflexivity.
  - destruct Hso as [Hle Hso].
    assert (Hs16 : s <= 16) by (apply Hub; left; reflexivity).
    assert (Kt : 0 <= K16 t) by (apply K16_nonneg; intros; apply Hub; right; assumption).
    change (K16 (s :: t)) with (2 ^ (16 - s) + K16 t) in HK.
    assert (Ps : 0 < 2 ^ (16 - s)) by (apply Z.pow_pos_nonneg; lia).
    destruct (s =? si) eqn:E.
    + apply Z.eqb_eq in E. subst s.
      destruct (IH (code + 1) si Hsi ltac:(lia) Hso ltac:(intros; apply Hub; right; assumption)
                  ltac:(lia)) as (r & Er & Lr).
      rewrite Er. exists (code :: r). split; [reflexivity|]. cbn [length]. lia.
    + apply Z.eqb_neq in E.
      pose proof (code_lt code si (2 ^ (16 - s) + K16 t + 1) Hsi Hc ltac:(lia) ltac:(lia)).
      replace (code >=? 2 ^ si) with false by lia.
      assert (Ep : 2 ^ (16 - si) = 2 ^ (s - si) * 2 ^ (16 - s)).
      { rewrite <- Z.pow_add_r by lia. f_equal. lia. }
      assert (0 <= 2 ^ (s - si)) by (apply Z.pow_nonneg; lia).
      destruct (IH (code * 2 ^ (s - si) + 1) s ltac:(lia) ltac:(nia) Hso
                  ltac:(intros; apply Hub; right; assumption)) as (r & Er & Lr).
      { rewrite Ep in HK. nia. }
      rewrite Er. exists (code * 2 ^ (s - si) :: r). split; [reflexivity|]. cbn [length]. lia.
Qed.

Lemma gen_codes_ok sizes lo :
  1 <= lo -> sortedZ lo sizes -> (forall s, In s sizes -> s <= 16) -> K16 sizes + 1 <= 2 ^ 16 ->
  exists codes, gen_codes sizes = Some codes /\ length codes = length sizes.
Proof.
  intros Hlo Hso Hub HK. unfold gen_codes. destruct sizes as [|s0 t] eqn:Es.
  - exists []. split; reflexivity.
  - rewrite <- Es in *. assert (Hs0 : In s0 sizes) by (rewrite Es; left; reflexivity).
    assert (1 <= s0) by (rewrite Es in Hso; cbn in Hso; lia).
    apply codes_from_ok; try lia.
    + specialize (Hub s0 Hs0). lia.
    + rewrite Es in *. cbn in Hso |- *. split; [lia|tauto].
    + exact Hub.
Qed.

(* -------------------------------------------------------------- fill_c *)
Lemma fill_c_ok maxsym : forall vals codes sizes co si,
  NoDup vals -> (forall x, In x vals -> 0 <= x <= maxsym) ->
  (forall x, In x vals -> nthZ si (Z.to_nat x) = 0) ->
  exists ct, fill_c vals codes sizes maxsym co si = Some ct.
Proof.
  induction vals as [|x vt IH]; intros codes sizes co si ND Rg Hz; cbn [fill_c].
  - eexists; reflexivity.
  - destruct codes as [|c ct]; [eexists; reflexivity|].
    destruct sizes as [|s st]; [eexists; reflexivity|].
    pose proof (Rg x (or_introl eq_refl)) as Rx. pose proof (Hz x (or_introl eq_refl)) as Zx.
    replace ((x <? 0) || (x >? maxsym) || negb (nthZ si (Z.to_nat x) =? 0)) with false
      by (rewrite Zx; lia).
    inversion ND as [|y l Hnin ND']; subst.
    apply IH; [exact ND'|intros; apply Rg; right; assumption|].
    intros y Hy. rewrite nthZ_upd_ne; [apply Hz; right; exact Hy|].
    intros E. assert (x = y); [|subst; contradiction].
    pose proof (Rg y (or_intror Hy)). lia.
Qed.

(* --------------------------------------- kraft16 in positional form *)
Lemma kraft16_positional bits : length bits = 17%nat -> kraft16 bits = Kb 1 (skipn 1 bits).
Proof.
  intros H.
  do 17 (destruct bits as [|? bits]; [discriminate H|]).
  destruct bits; [|discriminate H].
  unfold kraft16, nthZ. cbn [seq map nth sumZ skipn Kb]. cbn. lia.
Qed.

Lemma In_skipn {A} (x : A) k l : In x (skipn k l) -> In x l.
Proof. intros H. rewrite <- (firstn_skipn k l). apply in_or_app. right. exact H. Qed.

(* ---------------------------------------------------------- acceptance *)
Lemma good_table_accepted t syms :
  good_table t syms -> NoDup syms -> (forall k, In k syms -> 0 <= k <= 255) ->
  (length syms <= 254)%nat ->
  (exists ct, make_c_derived (h_bits t) (h_vals t) 255 = Some ct) /\
  (forall isDC, exists dt, make_d_derived (h_bits t) (h_vals t) isDC 255 = Some dt).
Proof.
  intros (Lb & B0 & Br & Bs & Pv & Kr) ND Rg Hc. cbv zeta in *.
  set (bits := h_bits t) in *. set (vals := h_vals t) in *.
  assert (Ef : firstn 17 bits = bits) by (apply firstn_all2; lia).
  assert (Hnn : forall b, In b (skipn 1 bits) -> 0 <= b).
  { intros b Hb. apply In_skipn in Hb. destruct (In_nth _ _ 0 Hb) as (i & _ & <-).
    specialize (Br i). unfold nthZ in Br. lia. }
  destruct (huffsizes_ok (skipn 1 bits) 1 0 Hnn ltac:(lia) ltac:(lia))
    as (sizes & Es & Ls & Ss & Rs & Ks).
  assert (Lsk : length (skipn 1 bits) = 16%nat) by (rewrite skipn_length; lia).
  rewrite Lsk in Rs.
  assert (HK : K16 sizes + 1 <= 2 ^ 16).
  { rewrite Ks, <- kraft16_positional by exact Lb.
    destruct syms as [|s0 r] eqn:Esy.
    - (* empty table: no sizes at all *)
      cbn [length] in Bs. rewrite kraft16_positional, <- Ks by exact Lb.
      assert (sizes = []) by (apply length_zero_iff_nil; lia). subst sizes. cbn. lia.
    - destruct (Kr ltac:(discriminate)) as (HL & HKr). rewrite HKr.
      assert (0 < 2 ^ (16 - maxlen bits)) by (apply Z.pow_pos_nonneg; lia). lia. }
  destruct (gen_codes_ok sizes 1 ltac:(lia) Ss ltac:(intros s Hs; specialize (Rs s Hs); lia) HK)
    as (codes & Ec & Lc).
  assert (NDv : NoDup vals) by (apply Permutation_NoDup with (l := syms); [symmetry; exact Pv|exact ND]).
  assert (Rv : forall x, In x vals -> 0 <= x <= 255).
  { intros x Hx. apply Rg. apply Permutation_in with (l := vals); assumption. }
  assert (Lv : length vals = length sizes).
  { pose proof (Permutation_length Pv). lia. }
  assert (Ev : firstn (length sizes) vals = vals) by (apply firstn_all2; lia).
  split.
  - unfold make_c_derived. rewrite Ef, Es, Ec, Ev.
    apply fill_c_ok; [exact NDv|exact Rv|]. intros x _. apply nthZ_repeat0.
  - intros isDC. unfold make_d_derived. rewrite Ef, Es, Ec, Ev.
    replace (forallb (fun s => (0 <=? s) && (s <=? 255)) vals) with true.
    + rewrite andb_false_r. eexists; reflexivity.
    + symmetry. apply forallb_forall. intros x Hx. specialize (Rv x Hx). lia.
Qed.

Theorem gen_table_accepted : forall freq256 t,
  (forall f, In f freq256 -> 0 <= f) ->
  sumZ (firstn 256 freq256) + 1 <= SENT ->
  (length (nz_scan (firstn 256 freq256) 0) <= 254)%nat ->
  gen_optimal_table freq256 = inr t ->
  valid_table t = true /\
  (exists ct, make_c_derived (h_bits t) (h_vals t) 255 = Some ct) /\
  (forall isDC, exists dt, make_d_derived (h_bits t) (h_vals t) isDC 255 = Some dt).
Proof.
  intros freq256 t Hnn Hsum Hcnt E.
  destruct (gen_table_valid_table freq256 t Hnn Hsum Hcnt E) as [G V].
  split; [exact V|].
  apply (good_table_accepted t _ G).
  - apply nz_scan_NoDup.
  - apply syms_range.
  - rewrite map_length. exact Hcnt.
Qed.

(* ============================================================ examples *)
Fixpoint fibs (k : nat) (a b : Z) : list Z :=
  match k with O => [] | S k' => a :: fibs k' b (a + b) end.

Definition hyps (freq256 : list Z) : Prop :=
  (forall f, In f freq256 -> 0 <= f) /\
  sumZ (firstn 256 freq256) + 1 <= SENT /\
  (length (nz_scan (firstn 256 freq256) 0) <= 254)%nat.

Lemma all_nonneg l : forallb (fun f => 0 <=? f) l = true -> forall f, In f l -> 0 <= f.
Proof. intros H f Hf. rewrite forallb_forall in H. specialize (H f Hf). lia. Qed.

(* Fibonacci-like counts over 30 symbols (pure Huffman depth 18 > 16, so the
   K.2 limiting really runs), ten equal counts, two isolated symbols *)
Definition ex_hist : list Z := fibs 30 1 2 ++ repeat 7 10 ++ [0; 0; 5; 0; 5] ++ repeat 0 211.

Example gen_table_valid_nonvacuous :
  hyps ex_hist /\
  gen_optimal_table ex_hist =
    inr {| h_bits := [0; 0; 2; 2; 2; 2; 2; 2; 2; 2; 2; 2; 1; 2; 1; 9; 9];
           h_vals := [28; 29; 26; 27; 24; 25; 22; 23; 20; 21; 18; 19; 16; 17; 14;
                      15; 12; 13; 10; 11; 9; 7; 8; 6; 4; 5; 30; 31; 32; 33; 34; 35;
                      36; 37; 38; 2; 3; 39; 42; 44; 1; 0] |}.
Proof.
  split; [split; [apply all_nonneg; vm_compute; reflexivity|split; vm_compute; [discriminate|]]|].
  - repeat constructor.
  - vm_compute. reflexivity.
Qed.

(* 31 Fibonacci counts: pure Huffman depth 31 (within MAX_CLEN = 32), limited to 16 *)
Example gen_table_valid_nonvacuous_deep :
  hyps (fibs 31 1 2) /\
  exists t, gen_optimal_table (fibs 31 1 2) = inr t /\
            h_bits t = [0; 1; 1; 1; 1; 1; 1; 1; 1; 1; 1; 1; 0; 1; 1; 1; 17].
Proof.
  split; [split; [apply all_nonneg; vm_compute; reflexivity|split; vm_compute; [discriminate|]]|].
  - repeat constructor.
  - eexists. split; vm_compute; reflexivity.
Qed.

(* the hypothesis "<= 254 real symbols" is a real boundary: with 255 equal
   counts (256 leaves with the pseudo symbol) bits[8] wraps 256 -> 0 in UINT8
   and "while (bits[i] == 0) i--" runs below index 0 *)
Example gen_table_uint8_wrap_sharp :
  let h := repeat 1 255 in
  (forall f, In f h -> 0 <= f) /\ sumZ (firstn 256 h) + 1 <= SENT /\
  length (nz_scan (firstn 256 h) 0) = 255%nat /\
  gen_optimal_table h = inl IndexUnderflow.
Proof.
  cbv zeta. split; [apply all_nonneg; vm_compute; reflexivity|].
  split; [vm_compute; discriminate|]. split; vm_compute; reflexivity.
Qed.

(* 256 non-zero symbols (255 ones and one 2^20): a table is returned but it is
   empty although 256 symbols need codes *)
Example gen_table_uint8_wrap_boundary :
  let h := repeat 1 255 ++ [2 ^ 20] in
  (forall f, In f h -> 0 <= f) /\ sumZ (firstn 256 h) + 1 <= SENT /\
  length (nz_scan (firstn 256 h) 0) = 256%nat /\
  exists t, gen_optimal_table h = inr t /\
            sumZ (skipn 1 (h_bits t)) = 0 /\
            sumZ (skipn 1 (h_bits t)) <> Z.of_nat (length (nz_scan (firstn 256 h) 0)).
Proof.
  cbv zeta. split; [apply all_nonneg; vm_compute; reflexivity|].
  split; [vm_compute; discriminate|]. split; [vm_compute; reflexivity|].
  eexists. split; [vm_compute; reflexivity|]. split; vm_compute; [reflexivity|discriminate].
Qed.

(* Fibonacci counts over 36 symbols: pure Huffman depth 36.  With MAX_CLEN = 32
   this was JERR_HUFF_CLEN_OVERFLOW; with MAX_CLEN = 64 a table limited to 16 bits *)
Example gen_table_deep_boundary :
  hyps (fibs 36 1 2) /\
  (exists nz cs, gen_codesizes (fibs 36 1 2) = inr (nz, cs) /\ In 36 cs) /\
  exists t, gen_optimal_table (fibs 36 1 2) = inr t /\
            h_bits t = [0; 1; 1; 1; 1; 1; 1; 1; 1; 1; 1; 1; 0; 0; 2; 0; 23] /\
            valid_table t = true.
Proof.
  split; [split; [apply all_nonneg; vm_compute; reflexivity|split; vm_compute; [discriminate|]]|].
  - repeat constructor.
  - split.
    + eexists. eexists. split; [vm_compute; reflexivity|]. cbn. tauto.
    + eexists. split; [vm_compute; reflexivity|]. split; vm_compute; reflexivity.
Qed.

(* the deepest Fibonacci histogram below the 10^9 limit: 41 symbols, total
   701408731 + 1 <= SENT, pure code length 41 <= MAX_CLEN = 64 *)
Example gen_table_deepest_admissible :
  hyps (fibs 41 1 2) /\ sumZ (fibs 41 1 2) = 701408731 /\ ~ hyps (fibs 42 1 2) /\
  (exists nz cs, gen_codesizes (fibs 41 1 2) = inr (nz, cs) /\ In 41 cs) /\
  exists t, gen_optimal_table (fibs 41 1 2) = inr t /\ valid_table t = true.
Proof.
  split; [split; [apply all_nonneg; vm_compute; reflexivity|split; vm_compute; [discriminate|]]|].
  - repeat constructor.
  - split; [vm_compute; reflexivity|]. split.
    + intros (_ & H & _). vm_compute in H. apply H. reflexivity.
    + split.
      * eexists. eexists. split; [vm_compute; reflexivity|]. cbn. tauto.
      * eexists. split; [vm_compute; reflexivity|vm_compute; reflexivity].
Qed.
